import U3.Model.PoolConc
/-! Helper definitions and lemmas for the C02 theorems about `U3.PoolConc`. -/
namespace U3.PoolConc

/-- no thread of `s` can take a step -/
def stuck (s : State) : Bool := (List.range s.threads.length).all (fun t => !enabled s t)

theorem step_none_of_ge {s : State} {t : Nat} (h : s.threads.length ≤ t) : step s t = none := by
  unfold step
  rw [List.getElem?_eq_none h]

theorem step_none_of_stuck {s : State} (h : stuck s = true) (t : Nat) : step s t = none := by
  by_cases ht : t < s.threads.length
  · have := List.all_eq_true.mp h t (List.mem_range.mpr ht)
    simpa [enabled] using this
  · exact step_none_of_ge (Nat.le_of_not_lt ht)

/-- a stuck configuration never changes again, whatever the scheduler does -/
theorem runFrom_of_stuck {s : State} (h : stuck s = true) (σ : List Nat) : runFrom s σ = s := by
  induction σ with
  | nil => rfl
  | cons t σ ih =>
    have : runFrom s (t :: σ) = runFrom ((step s t).getD s) σ := rfl
    rw [this, step_none_of_stuck h t]
    exact ih

/-! ## Structural API -/

/-- the connection a program counter holds (same as `Thread.pcConn`, as a function of the pc) -/
def Pc.conn : Pc → Option ConnId
  | .dropClose c .. => some c
  | .send c .. => some c
  | .recv c .. => some c
  | .putCheck i _ | .putLoad i _ | .putQ i _ | .fullClose i _ | .warn i _ | .discard i _ => i
  | .drainClose x => x
  | _ => none

/-- `1` when the program counter is inside a checkout (between a successful `get` and the end of
the matching `_put_conn`) or holds an item taken by `close`'s drain loop -/
def Pc.slots : Pc → Nat
  | .dropClose .. | .send .. | .recv .. => 1
  | .putCheck .. | .putLoad .. | .putQ .. | .fullClose .. | .warn .. | .discard .. => 1
  | .drainClose _ => 1
  | _ => 0

@[simp] theorem Pc.conn_idle : Pc.idle.conn = none := rfl
@[simp] theorem Pc.slots_idle : Pc.idle.slots = 0 := rfl
@[simp] theorem Pc.conn_getCheck {f l s} : (Pc.getCheck f l s).conn = none := rfl
@[simp] theorem Pc.slots_getCheck {f l s} : (Pc.getCheck f l s).slots = 0 := rfl
@[simp] theorem Pc.conn_getLoad {f l s} : (Pc.getLoad f l s).conn = none := rfl
@[simp] theorem Pc.slots_getLoad {f l s} : (Pc.getLoad f l s).slots = 0 := rfl
@[simp] theorem Pc.conn_getQ {f l s} : (Pc.getQ f l s).conn = none := rfl
@[simp] theorem Pc.slots_getQ {f l s} : (Pc.getQ f l s).slots = 0 := rfl
@[simp] theorem Pc.conn_dropClose {c f l s} : (Pc.dropClose c f l s).conn = some c := rfl
@[simp] theorem Pc.slots_dropClose {c f l s} : (Pc.dropClose c f l s).slots = 1 := rfl
@[simp] theorem Pc.conn_send {c f l s} : (Pc.send c f l s).conn = some c := rfl
@[simp] theorem Pc.slots_send {c f l s} : (Pc.send c f l s).slots = 1 := rfl
@[simp] theorem Pc.conn_recv {c t f l s} : (Pc.recv c t f l s).conn = some c := rfl
@[simp] theorem Pc.slots_recv {c t f l s} : (Pc.recv c t f l s).slots = 1 := rfl
@[simp] theorem Pc.conn_putCheck {i k} : (Pc.putCheck i k).conn = i := rfl
@[simp] theorem Pc.slots_putCheck {i k} : (Pc.putCheck i k).slots = 1 := rfl
@[simp] theorem Pc.conn_putLoad {i k} : (Pc.putLoad i k).conn = i := rfl
@[simp] theorem Pc.slots_putLoad {i k} : (Pc.putLoad i k).slots = 1 := rfl
@[simp] theorem Pc.conn_putQ {i k} : (Pc.putQ i k).conn = i := rfl
@[simp] theorem Pc.slots_putQ {i k} : (Pc.putQ i k).slots = 1 := rfl
@[simp] theorem Pc.conn_fullClose {i k} : (Pc.fullClose i k).conn = i := rfl
@[simp] theorem Pc.slots_fullClose {i k} : (Pc.fullClose i k).slots = 1 := rfl
@[simp] theorem Pc.conn_warn {i k} : (Pc.warn i k).conn = i := rfl
@[simp] theorem Pc.slots_warn {i k} : (Pc.warn i k).slots = 1 := rfl
@[simp] theorem Pc.conn_discard {i k} : (Pc.discard i k).conn = i := rfl
@[simp] theorem Pc.slots_discard {i k} : (Pc.discard i k).slots = 1 := rfl
@[simp] theorem Pc.conn_closeSwap : Pc.closeSwap.conn = none := rfl
@[simp] theorem Pc.slots_closeSwap : Pc.closeSwap.slots = 0 := rfl
@[simp] theorem Pc.conn_drain : Pc.drain.conn = none := rfl
@[simp] theorem Pc.slots_drain : Pc.drain.slots = 0 := rfl
@[simp] theorem Pc.conn_drainClose {x} : (Pc.drainClose x).conn = x := rfl
@[simp] theorem Pc.slots_drainClose {x} : (Pc.drainClose x).slots = 1 := rfl

/-- the continuation of the `_put_conn` call a program counter is in -/
def Pc.cont : Pc → Option Cont
  | .putCheck _ k | .putLoad _ k | .putQ _ k | .fullClose _ k | .warn _ k | .discard _ k => some k
  | _ => none

@[simp] theorem Pc.cont_idle : Pc.idle.cont = none := rfl
@[simp] theorem Pc.cont_getCheck {f l s} : (Pc.getCheck f l s).cont = none := rfl
@[simp] theorem Pc.cont_getLoad {f l s} : (Pc.getLoad f l s).cont = none := rfl
@[simp] theorem Pc.cont_getQ {f l s} : (Pc.getQ f l s).cont = none := rfl
@[simp] theorem Pc.cont_dropClose {c f l s} : (Pc.dropClose c f l s).cont = none := rfl
@[simp] theorem Pc.cont_send {c f l s} : (Pc.send c f l s).cont = none := rfl
@[simp] theorem Pc.cont_recv {c t f l s} : (Pc.recv c t f l s).cont = none := rfl
@[simp] theorem Pc.cont_putCheck {i k} : (Pc.putCheck i k).cont = some k := rfl
@[simp] theorem Pc.cont_putLoad {i k} : (Pc.putLoad i k).cont = some k := rfl
@[simp] theorem Pc.cont_putQ {i k} : (Pc.putQ i k).cont = some k := rfl
@[simp] theorem Pc.cont_fullClose {i k} : (Pc.fullClose i k).cont = some k := rfl
@[simp] theorem Pc.cont_warn {i k} : (Pc.warn i k).cont = some k := rfl
@[simp] theorem Pc.cont_discard {i k} : (Pc.discard i k).cont = some k := rfl
@[simp] theorem Pc.cont_closeSwap : Pc.closeSwap.cont = none := rfl
@[simp] theorem Pc.cont_drain : Pc.drain.cont = none := rfl
@[simp] theorem Pc.cont_drainClose {x} : (Pc.drainClose x).cont = none := rfl

/-- number of pool slots a thread holds: its checkout in flight + its streaming responses -/
def Thread.slots (th : Thread) : Nat := th.pc.slots + th.resp.toList.length + th.leaked.length

theorem Thread.pcConn_eq (th : Thread) : th.pcConn = th.pc.conn := by
  unfold Thread.pcConn; cases th.pc <;> rfl

theorem Thread.owned_eq (th : Thread) : th.owned = th.pc.conn.toList ++ th.resp.toList ++ th.leaked := by
  simp [Thread.owned, Thread.pcConn_eq]

theorem Thread.mem_owned {th : Thread} {c : ConnId} :
    c ∈ th.owned ↔ th.pc.conn = some c ∨ th.resp = some c ∨ c ∈ th.leaked := by
  simp [Thread.owned_eq]

@[simp] theorem finish_pc (th : Thread) (r : Res) : (finish th r).pc = .idle := by
  unfold finish; split <;> rfl
@[simp] theorem finish_resp (th : Thread) (r : Res) : (finish th r).resp = th.resp := by
  unfold finish; split <;> rfl
@[simp] theorem finish_leaked (th : Thread) (r : Res) : (finish th r).leaked = th.leaked := by
  unfold finish; split <;> rfl
@[simp] theorem finish_sent (th : Thread) (r : Res) : (finish th r).sent = th.sent := by
  unfold finish; split <;> rfl

@[simp] theorem applyCont_resp (th : Thread) (k : Cont) : (applyCont th k).resp = th.resp := by
  cases k <;> simp [applyCont]
@[simp] theorem applyCont_leaked (th : Thread) (k : Cont) : (applyCont th k).leaked = th.leaked := by
  cases k <;> simp [applyCont]
@[simp] theorem applyCont_sent (th : Thread) (k : Cont) : (applyCont th k).sent = th.sent := by
  cases k <;> simp [applyCont]
@[simp] theorem applyCont_pc_conn (th : Thread) (k : Cont) : (applyCont th k).pc.conn = none := by
  cases k <;> simp [applyCont]
@[simp] theorem applyCont_pc_cont (th : Thread) (k : Cont) : (applyCont th k).pc.cont = none := by
  cases k <;> simp [applyCont]
theorem applyCont_pc (th : Thread) (k : Cont) :
    (applyCont th k).pc = .idle ∨ ∃ f l s, (applyCont th k).pc = .getCheck f l s := by
  cases k <;> simp [applyCont]
@[simp] theorem applyCont_pc_ne_warn (th : Thread) (k i k') :
    (applyCont th k).pc ≠ .warn i k' := by
  cases k <;> simp [applyCont]
@[simp] theorem applyCont_pc_ne_fullClose (th : Thread) (k i k') :
    (applyCont th k).pc ≠ .fullClose i k' := by
  cases k <;> simp [applyCont]
@[simp] theorem applyCont_pc_ne_recv (th : Thread) (k c t f l s) :
    (applyCont th k).pc ≠ .recv c t f l s := by
  cases k <;> simp [applyCont]
@[simp] theorem applyCont_pc_slots (th : Thread) (k : Cont) : (applyCont th k).pc.slots = 0 := by
  cases k <;> simp [applyCont]

@[simp] theorem failPut_pc (th : Thread) (i k r) : (failPut th i k r).pc = .idle := by
  cases k <;> simp [failPut]
@[simp] theorem failPut_leaked (th : Thread) (i k r) : (failPut th i k r).leaked = th.leaked := by
  cases k <;> simp [failPut]
@[simp] theorem failPut_sent (th : Thread) (i k r) : (failPut th i k r).sent = th.sent := by
  cases k <;> simp [failPut]
theorem failPut_resp (th : Thread) (i k r) :
    (failPut th i k r).resp = if k = .rel then i else th.resp := by
  cases k <;> simp [failPut]

@[simp] theorem closeConn_queue (sh x) : (closeConn sh x).queue = sh.queue := by cases x <;> rfl
@[simp] theorem closeConn_nextId (sh x) : (closeConn sh x).nextId = sh.nextId := by cases x <;> rfl
@[simp] theorem closeConn_poolRef (sh x) : (closeConn sh x).poolRef = sh.poolRef := by cases x <;> rfl
@[simp] theorem closeConn_wire (sh x) : (closeConn sh x).wire = sh.wire := by cases x <;> rfl
@[simp] theorem closeConn_maxOpen (sh x) : (closeConn sh x).maxOpen = sh.maxOpen := by cases x <;> rfl
@[simp] theorem mem_closeConn_openC (sh x c) :
    c ∈ (closeConn sh x).openC ↔ c ∈ sh.openC ∧ x ≠ some c := by
  cases x <;> simp [closeConn]
  grind
theorem closeConn_openC_nodup (sh x) (h : sh.openC.Nodup) : (closeConn sh x).openC.Nodup := by
  cases x <;> simp [closeConn, h]; exact h.filter _
theorem closeConn_openC_length (sh x) : (closeConn sh x).openC.length ≤ sh.openC.length := by
  cases x <;> simp [closeConn, List.length_filter_le]

@[simp] theorem openConn_queue (sh c) : (openConn sh c).queue = sh.queue := by
  unfold openConn; split <;> rfl
@[simp] theorem openConn_nextId (sh c) : (openConn sh c).nextId = sh.nextId := by
  unfold openConn; split <;> rfl
@[simp] theorem openConn_poolRef (sh c) : (openConn sh c).poolRef = sh.poolRef := by
  unfold openConn; split <;> rfl
@[simp] theorem openConn_wire (sh c) : (openConn sh c).wire = sh.wire := by
  unfold openConn; split <;> rfl
@[simp] theorem mem_openConn_openC (sh c d) : d ∈ (openConn sh c).openC ↔ d = c ∨ d ∈ sh.openC := by
  unfold openConn; split <;> simp_all
theorem openConn_openC_nodup (sh c) (h : sh.openC.Nodup) : (openConn sh c).openC.Nodup := by
  unfold openConn; split <;> simp_all
theorem openConn_maxOpen (sh c) :
    (openConn sh c).maxOpen = sh.maxOpen ∨
      (openConn sh c).maxOpen = max sh.maxOpen (openConn sh c).openC.length := by
  unfold openConn; split <;> simp

theorem mem_queueConns {sh : Shared} {c : ConnId} : c ∈ queueConns sh ↔ some c ∈ sh.queue := by
  simp [queueConns]

@[simp] theorem wireGet_wireSet_self (w c t) : wireGet (wireSet w c t) c = some t := by
  simp [wireGet, wireSet]
theorem find?_filter_ne (w : List (ConnId × Tag)) {c d : ConnId} (h : d ≠ c) :
    (w.filter (fun p => p.1 != c)).find? (fun p => p.1 == d) = w.find? (fun p => p.1 == d) := by
  induction w with
  | nil => rfl
  | cons p w ih => grind

theorem wireGet_wireSet_ne (w) {c d : ConnId} (t) (h : d ≠ c) : wireGet (wireSet w c t) d = wireGet w d := by
  simp only [wireGet, wireSet]
  rw [List.find?_cons_of_neg (by simpa using fun e => h e.symm), find?_filter_ne w h]

/-! ## Case analysis of one thread step -/

syntax "tstep_cases " ident ident : tactic
macro_rules
  | `(tactic| tstep_cases $th $h) => `(tactic|
    (rcases $th:ident with ⟨prog, pc, resp, leaked, results, sent, rclose⟩
     cases pc <;> simp only [tstep, tstepPc] at $h:ident <;> (repeat' split at $h:ident) <;>
       simp only [Option.some.injEq, Prod.mk.injEq, reduceCtorEq] at $h:ident <;>
       obtain ⟨h1, h2⟩ := $h:ident <;> subst h1 h2))

variable {cfg : Cfg} {tid : Nat} {sh sh' : Shared} {th th' : Thread}

theorem tstep_nextId_le (h : tstep cfg tid sh th = some (sh', th')) : sh.nextId ≤ sh'.nextId := by
  tstep_cases th h <;> simp

theorem tstep_prov (h : tstep cfg tid sh th = some (sh', th')) :
    ∀ c, c ∈ queueConns sh' ∨ c ∈ th'.owned →
      (c ∈ queueConns sh ∨ c ∈ th.owned) ∨ (c = sh.nextId ∧ sh.nextId < sh'.nextId) := by
  tstep_cases th h <;> simp [mem_queueConns, Thread.mem_owned, failPut_resp] <;> grind

theorem tstep_nodup (h : tstep cfg tid sh th = some (sh', th'))
    (hn : (queueConns sh ++ th.owned).Nodup)
    (hlt : ∀ c, c ∈ queueConns sh ∨ c ∈ th.owned → c < sh.nextId) :
    (queueConns sh' ++ th'.owned).Nodup := by
  tstep_cases th h <;>
    simp [queueConns, Thread.owned_eq, failPut_resp, List.nodup_append, List.nodup_cons] at hn hlt ⊢ <;>
    first | exact hn | grind

theorem tstep_open_sub (h : tstep cfg tid sh th = some (sh', th')) :
    ∀ c ∈ sh'.openC, c ∈ sh.openC ∨ c ∈ th'.owned := by
  tstep_cases th h <;> simp [Thread.mem_owned, failPut_resp] <;> grind

/-- inside `release_conn` the response's back-reference has already been cleared -/
def Thread.relOK (th : Thread) : Prop := th.pc.cont = some .rel → th.resp = none

theorem tstep_relOK (h : tstep cfg tid sh th = some (sh', th')) (hr : th.relOK) : th'.relOK := by
  tstep_cases th h <;> simp_all [Thread.relOK]

/-- at the "pool is full" warning the discarded connection has already been closed -/
def warnClosed (sh : Shared) (th : Thread) : Prop :=
  ∀ c k, th.pc = .warn (some c) k → c ∉ sh.openC

theorem tstep_warnClosed (h : tstep cfg tid sh th = some (sh', th')) : warnClosed sh' th' := by
  tstep_cases th h <;> simp [warnClosed] <;> grind

theorem tstep_open_keep (h : tstep cfg tid sh th = some (sh', th')) (hr : th.relOK)
    (hw : warnClosed sh th) :
    ∀ c ∈ sh'.openC, (c ∈ queueConns sh ∨ c ∈ th.owned) → (c ∈ queueConns sh' ∨ c ∈ th'.owned) := by
  tstep_cases th h <;>
    simp [mem_queueConns, Thread.mem_owned, failPut_resp, Thread.relOK, warnClosed] at hr hw ⊢ <;> grind

theorem tstep_open_nodup (h : tstep cfg tid sh th = some (sh', th')) (hn : sh.openC.Nodup) :
    sh'.openC.Nodup := by
  tstep_cases th h <;>
    first | exact hn | exact closeConn_openC_nodup _ _ hn | exact openConn_openC_nodup _ _ hn

theorem Thread.owned_length_le_slots (th : Thread) : th.owned.length ≤ th.slots := by
  rcases th with ⟨prog, pc, resp, leaked, results, sent, rclose⟩
  cases pc <;> simp [Thread.owned_eq, Thread.slots] <;> (try cases ‹Option ConnId›) <;> simp <;> omega

theorem tstep_slots_block (h : tstep cfg tid sh th = some (sh', th')) (hb : cfg.block = true) :
    sh'.queue.length + th'.slots ≤ sh.queue.length + th.slots := by
  tstep_cases th h <;> simp_all [Thread.slots, failPut_resp] <;> grind

theorem tstep_queue_le (h : tstep cfg tid sh th = some (sh', th'))
    (hq : sh.queue.length ≤ cfg.maxsize) : sh'.queue.length ≤ cfg.maxsize := by
  tstep_cases th h <;> simp_all <;> grind

theorem tstep_wire_frame (h : tstep cfg tid sh th = some (sh', th')) :
    ∀ c, c ∉ th.owned → wireGet sh'.wire c = wireGet sh.wire c := by
  tstep_cases th h <;> simp [Thread.mem_owned]
  intro c hc _ _
  exact wireGet_wireSet_ne _ _ (Ne.symm hc)

/-- a thread waiting for a response waits on a connection whose pending response is its own -/
def recvOK (sh : Shared) (th : Thread) : Prop :=
  ∀ c tag f l st, th.pc = .recv c tag f l st → wireGet sh.wire c = some tag

theorem tstep_recvOK (h : tstep cfg tid sh th = some (sh', th')) : recvOK sh' th' := by
  tstep_cases th h <;> simp [recvOK]
  intro c a b f l
  refine ⟨?_, ?_⟩ <;> (rintro rfl rfl rfl - - -; exact wireGet_wireSet_self ..)

/-- the tag a thread waits for is its own: (its index, its request counter before the send) -/
def tagOK (tid : Nat) (th : Thread) : Prop :=
  ∀ c tag f l st, th.pc = .recv c tag f l st → tag.1 = tid ∧ tag.2 + 1 = th.sent

theorem tstep_tagOK (h : tstep cfg tid sh th = some (sh', th')) (ht : tagOK tid th) :
    tagOK tid th' := by
  tstep_cases th h <;> simp [tagOK] at ht ⊢
  grind

theorem recvOK_frame (h : tstep cfg tid sh th = some (sh', th')) {th2 : Thread}
    (hd : ∀ c ∈ th2.owned, c ∉ th.owned) (h2 : recvOK sh th2) : recvOK sh' th2 := by
  intro c tag f l st hpc
  rw [tstep_wire_frame h c (hd c (by simp [Thread.mem_owned, hpc]))]
  exact h2 c tag f l st hpc

theorem tstep_maxOpen (h : tstep cfg tid sh th = some (sh', th')) :
    sh'.maxOpen = sh.maxOpen ∨ sh'.maxOpen = max sh.maxOpen sh'.openC.length := by
  tstep_cases th h <;> simp
  exact openConn_maxOpen _ _

theorem tstep_pc_fullClose (h : tstep cfg tid sh th = some (sh', th')) {i k}
    (hp : th'.pc = .fullClose i k) : th.pc = .putQ i k ∧ cfg.maxsize ≤ sh.queue.length := by
  tstep_cases th h <;> simp_all

theorem tstep_pc_warn (h : tstep cfg tid sh th = some (sh', th')) {i k}
    (hp : th'.pc = .warn i k) : th.pc = .fullClose i k ∧ cfg.block = false := by
  tstep_cases th h <;> simp_all

/-- the result a finished `urlopen` carries in its continuation is a normal one -/
def contOK (th : Thread) : Prop := ∀ r, th.pc.cont = some (.fin r) → r = .ok ∨ r = .failed

theorem tstep_contOK (h : tstep cfg tid sh th = some (sh', th')) (hr : recvOK sh th)
    (hk : contOK th) : contOK th' := by
  tstep_cases th h <;> simp [contOK] at hk ⊢ <;> first | exact hk | grind | skip
  all_goals (have := hr _ _ _ _ _ rfl; simp_all)

theorem finish_results_mem {th : Thread} {r : Res} {p} (hp : p ∈ (finish th r).results) :
    p ∈ th.results ∨ p.2 = r := by
  unfold finish at hp; split at hp <;> simp_all; grind

theorem applyCont_results_mem {th : Thread} {k : Cont} {p} (hp : p ∈ (applyCont th k).results) :
    p ∈ th.results ∨ k = .fin p.2 ∨ (k = .rel ∧ p.2 = .ok) := by
  cases k <;> simp [applyCont] at hp ⊢ <;> first | exact hp | (have := finish_results_mem hp; grind)

theorem failPut_results_mem {th : Thread} {i k r p} (hp : p ∈ (failPut th i k r).results) :
    p ∈ th.results ∨ p.2 = r := by
  cases k <;> simp [failPut] at hp <;> (have := finish_results_mem hp; simpa using this)

/-- the result classes a new entry of `results` can have, with the situation that produces the
abnormal one (`internalErr` is not among them: no step raises an `AttributeError`) -/
theorem tstep_results_mem (h : tstep cfg tid sh th = some (sh', th')) (hr : recvOK sh th)
    (hk : contOK th) : ∀ p ∈ th'.results, p ∈ th.results ∨
      p.2 = .ok ∨ p.2 = .closedPool ∨ p.2 = .emptyPool ∨ p.2 = .failed ∨
      (p.2 = .fullPool ∧ cfg.block = true ∧ ∃ i k, th.pc = .fullClose i k) := by
  intro p hp
  tstep_cases th h <;> simp [contOK, recvOK] at hr hk hp ⊢ <;>
    first
    | exact Or.inl hp
    | (have := finish_results_mem hp; grind)
    | (have := applyCont_results_mem hp; grind)
    | (have := failPut_results_mem hp; grind)

/-! ## Program counter vs. program -/

def Op.kind : Op → Nat
  | .req .. => 0
  | .release => 1
  | .close => 2

def Cont.kind : Cont → Nat
  | .rel => 1
  | _ => 0

/-- the kind of op a program counter belongs to -/
def Pc.kind : Pc → Option Nat
  | .idle => none
  | .getCheck .. | .getLoad .. | .getQ .. | .dropClose .. | .send .. | .recv .. => some 0
  | .putCheck _ k | .putLoad _ k | .putQ _ k | .fullClose _ k | .warn _ k | .discard _ k => some k.kind
  | .closeSwap | .drain | .drainClose _ => some 2

@[simp] theorem Pc.kind_idle : Pc.idle.kind = none := rfl
@[simp] theorem Pc.kind_getCheck {f l s} : (Pc.getCheck f l s).kind = some 0 := rfl
@[simp] theorem Pc.kind_getLoad {f l s} : (Pc.getLoad f l s).kind = some 0 := rfl
@[simp] theorem Pc.kind_getQ {f l s} : (Pc.getQ f l s).kind = some 0 := rfl
@[simp] theorem Pc.kind_dropClose {c f l s} : (Pc.dropClose c f l s).kind = some 0 := rfl
@[simp] theorem Pc.kind_send {c f l s} : (Pc.send c f l s).kind = some 0 := rfl
@[simp] theorem Pc.kind_recv {c t f l s} : (Pc.recv c t f l s).kind = some 0 := rfl
@[simp] theorem Pc.kind_putCheck {i k} : (Pc.putCheck i k).kind = some k.kind := rfl
@[simp] theorem Pc.kind_putLoad {i k} : (Pc.putLoad i k).kind = some k.kind := rfl
@[simp] theorem Pc.kind_putQ {i k} : (Pc.putQ i k).kind = some k.kind := rfl
@[simp] theorem Pc.kind_fullClose {i k} : (Pc.fullClose i k).kind = some k.kind := rfl
@[simp] theorem Pc.kind_warn {i k} : (Pc.warn i k).kind = some k.kind := rfl
@[simp] theorem Pc.kind_discard {i k} : (Pc.discard i k).kind = some k.kind := rfl
@[simp] theorem Pc.kind_closeSwap : Pc.closeSwap.kind = some 2 := rfl
@[simp] theorem Pc.kind_drain : Pc.drain.kind = some 2 := rfl
@[simp] theorem Pc.kind_drainClose {x} : (Pc.drainClose x).kind = some 2 := rfl
@[simp] theorem Op.kind_req {f l s} : (Op.req f l s).kind = 0 := rfl
@[simp] theorem Op.kind_release : Op.release.kind = 1 := rfl
@[simp] theorem Op.kind_close : Op.close.kind = 2 := rfl
@[simp] theorem Cont.kind_rel : Cont.rel.kind = 1 := rfl
@[simp] theorem Cont.kind_fin {r} : (Cont.fin r).kind = 0 := rfl
@[simp] theorem Cont.kind_retry {f l s} : (Cont.retry f l s).kind = 0 := rfl
theorem Cont.kind_lt (k : Cont) : k.kind < 2 := by cases k <;> simp
theorem Op.kind_eq_two {op : Op} : op.kind = 2 ↔ op = .close := by cases op <;> simp

/-- while an op is running it is the head of the thread's program -/
def progOK (th : Thread) : Prop :=
  ∀ n, th.pc.kind = some n → ∃ op rest, th.prog = op :: rest ∧ op.kind = n

@[simp] theorem finish_progOK (th : Thread) (r : Res) : progOK (finish th r) := by
  simp [progOK]

@[simp] theorem failPut_progOK (th : Thread) (i k r) : progOK (failPut th i k r) := by
  simp [progOK]

@[simp] theorem applyCont_prog_retry (th : Thread) (f l s) :
    (applyCont th (.retry f l s)).prog = th.prog := rfl

theorem applyCont_progOK {th : Thread} {k : Cont}
    (h : ∃ op rest, th.prog = op :: rest ∧ op.kind = k.kind) : progOK (applyCont th k) := by
  cases k <;> simp [applyCont, progOK] <;> simpa using h

theorem tstep_progOK (h : tstep cfg tid sh th = some (sh', th')) (hp : progOK th) : progOK th' := by
  tstep_cases th h <;>
    first
    | exact finish_progOK ..
    | exact failPut_progOK ..
    | (apply applyCont_progOK; simpa [progOK] using hp)
    | (simp [progOK] at hp ⊢; try exact hp)

/-! ## Which op a result belongs to -/

theorem finish_results_head {th : Thread} {r : Res} {p} (hp : p ∈ (finish th r).results) :
    p ∈ th.results ∨ ∃ rest, th.prog = p.1 :: rest := by
  unfold finish at hp; split at hp <;> simp_all; grind

theorem applyCont_results_head {th : Thread} {k : Cont} {p} (hp : p ∈ (applyCont th k).results) :
    p ∈ th.results ∨ ∃ rest, th.prog = p.1 :: rest := by
  cases k <;> simp [applyCont] at hp ⊢ <;> first | exact Or.inl hp | exact finish_results_head hp

theorem failPut_results_head {th : Thread} {i k r p} (hp : p ∈ (failPut th i k r).results) :
    p ∈ th.results ∨ ∃ rest, th.prog = p.1 :: rest := by
  cases k <;> simp [failPut] at hp <;> (have := finish_results_head hp; simpa using this)

/-- a new entry of `results` records the op at the head of the program -/
theorem tstep_results_head (h : tstep cfg tid sh th = some (sh', th')) :
    ∀ p ∈ th'.results, p ∈ th.results ∨ ∃ rest, th.prog = p.1 :: rest := by
  intro p hp
  tstep_cases th h <;> simp at hp ⊢ <;>
    first
    | exact Or.inl hp
    | (have := finish_results_head hp; simpa using this)
    | (have := applyCont_results_head hp; simpa using this)
    | (have := failPut_results_head hp; simpa using this)

theorem finish_results_mono {th : Thread} {r : Res} {p} (hp : p ∈ th.results) :
    p ∈ (finish th r).results := by
  unfold finish; split <;> simp_all

theorem applyCont_results_mono {th : Thread} {k : Cont} {p} (hp : p ∈ th.results) :
    p ∈ (applyCont th k).results := by
  cases k <;> simp [applyCont] <;> first | exact hp | exact finish_results_mono hp

theorem failPut_results_mono {th : Thread} {i k r p} (hp : p ∈ th.results) :
    p ∈ (failPut th i k r).results := by
  cases k <;> simp [failPut] <;> exact finish_results_mono (th := { th with resp := _ }) hp

theorem tstep_results_mono (h : tstep cfg tid sh th = some (sh', th')) :
    ∀ p ∈ th.results, p ∈ th'.results := by
  intro p hp
  tstep_cases th h <;> simp at hp ⊢ <;>
    first
    | exact hp
    | exact finish_results_mono hp
    | exact applyCont_results_mono hp
    | exact failPut_results_mono hp

/-! ## `close` ops: how many there are, and who swapped `self.pool` -/

/-- `close` ops of a thread: finished + still to run (constant along every run) -/
def closesIn (l : List Op) : Nat := l.countP (fun o => decide (o = Op.close))

def opCloses (th : Thread) : Nat := closesIn (th.results.map Prod.fst) + closesIn th.prog

theorem finish_opCloses (th : Thread) (r : Res) : opCloses (finish th r) = opCloses th := by
  unfold finish; split
  · rename_i op rest hprog
    simp only [opCloses, closesIn, hprog, List.map_append, List.countP_append, List.countP_cons,
      List.map_cons, List.map_nil, List.countP_nil]
    omega
  · rfl

@[simp] theorem applyCont_opCloses (th : Thread) (k : Cont) : opCloses (applyCont th k) = opCloses th := by
  cases k <;> simp [applyCont, finish_opCloses] <;> rfl

@[simp] theorem failPut_opCloses (th : Thread) (i k r) : opCloses (failPut th i k r) = opCloses th := by
  cases k <;> simp [failPut, finish_opCloses] <;> rfl

theorem tstep_opCloses (h : tstep cfg tid sh th = some (sh', th')) : opCloses th' = opCloses th := by
  tstep_cases th h <;> first | rfl | (simp [finish_opCloses] <;> rfl)

/-- the thread has executed `old_pool, self.pool = self.pool, None` in a `close` op -/
def swapper (th : Thread) : Prop :=
  th.pc = .drain ∨ (∃ x, th.pc = .drainClose x) ∨ ∃ r, (Op.close, r) ∈ th.results

theorem tstep_poolRef_none (h : tstep cfg tid sh th = some (sh', th')) (hn : sh.poolRef = none) :
    sh'.poolRef = none := by
  tstep_cases th h <;> simp_all

theorem tstep_swapper_new (h : tstep cfg tid sh th = some (sh', th')) (h1 : sh.poolRef ≠ none)
    (h2 : sh'.poolRef = none) : swapper th' := by
  tstep_cases th h <;> simp_all [swapper]

theorem tstep_swapper_keep (h : tstep cfg tid sh th = some (sh', th')) (hp : progOK th)
    (hs : swapper th) : swapper th' := by
  rcases hs with hs | ⟨x, hs⟩ | ⟨r, hs⟩
  · rcases th with ⟨prog, pc, resp, leaked, results, sent, rclose⟩
    simp only at hs; subst hs
    obtain ⟨op, rest, hprog, hk⟩ := hp 2 rfl
    rw [Op.kind_eq_two] at hk
    simp only at hprog; subst hprog hk
    simp only [tstep, tstepPc] at h
    split at h <;> simp only [Option.some.injEq, Prod.mk.injEq] at h <;> obtain ⟨-, rfl⟩ := h
    · exact Or.inr (Or.inl ⟨_, rfl⟩)
    · exact Or.inr (Or.inr ⟨.ok, by simp [finish]⟩)
  · rcases th with ⟨prog, pc, resp, leaked, results, sent, rclose⟩
    simp only at hs; subst hs
    simp only [tstep, tstepPc, Option.some.injEq, Prod.mk.injEq] at h
    obtain ⟨-, rfl⟩ := h
    exact Or.inl rfl
  · exact Or.inr (Or.inr ⟨r, tstep_results_mono h _ hs⟩)

@[simp] theorem applyCont_pc_ne_discard (th : Thread) (k i k') :
    (applyCont th k).pc ≠ .discard i k' := by
  cases k <;> simp [applyCont]

/-! ## Runs without `close` -/

/-- the thread neither runs nor will run a `close` op -/
def Thread.noClose (th : Thread) : Prop := Op.close ∉ th.prog ∧ th.pc.kind ≠ some 2

theorem finish_prog_sub (th : Thread) (r : Res) : ∀ op ∈ (finish th r).prog, op ∈ th.prog := by
  unfold finish; split <;> simp_all

theorem applyCont_prog_sub (th : Thread) (k : Cont) : ∀ op ∈ (applyCont th k).prog, op ∈ th.prog := by
  cases k <;> simp [applyCont] <;> exact finish_prog_sub th _

theorem failPut_prog_sub (th : Thread) (i k r) : ∀ op ∈ (failPut th i k r).prog, op ∈ th.prog := by
  cases k <;> simp [failPut] <;> exact finish_prog_sub { th with resp := _ } _

theorem applyCont_kind_ne_two (th : Thread) (k : Cont) : (applyCont th k).pc.kind ≠ some 2 := by
  cases k <;> simp [applyCont]

theorem tstep_prog_sub (h : tstep cfg tid sh th = some (sh', th')) : ∀ op ∈ th'.prog, op ∈ th.prog := by
  tstep_cases th h <;>
    first
    | exact fun _ h => h
    | exact finish_prog_sub _ _
    | exact applyCont_prog_sub _ _
    | exact failPut_prog_sub _ _ _ _

theorem tstep_noClose (h : tstep cfg tid sh th = some (sh', th')) (hn : th.noClose) :
    th'.noClose ∧ sh'.poolRef = sh.poolRef := by
  refine ⟨⟨fun hc => hn.1 (tstep_prog_sub h _ hc), ?_⟩, ?_⟩
  · have h2 := hn.2
    have h1 := hn.1
    tstep_cases th h <;> simp [applyCont_kind_ne_two] at h1 h2 ⊢ <;> first | exact h2 | exact (Cont.kind_lt _).ne
  · have h2 := hn.2
    have h1 := hn.1
    tstep_cases th h <;> simp at h1 h2 ⊢

/-- with `block=True`, as long as `self.pool` is not `None` and the "queue full" branch is not
taken, a step neither creates nor destroys a slot -/
theorem tstep_slots_eq (h : tstep cfg tid sh th = some (sh', th')) (hb : cfg.block = true)
    (hp : sh.poolRef ≠ none) (hn : th.noClose)
    (h1 : ∀ i k, th.pc ≠ .fullClose i k ∧ th.pc ≠ .warn i k ∧ th.pc ≠ .discard i k) :
    sh'.queue.length + th'.slots = sh.queue.length + th.slots ∧ ∀ i k, th'.pc ≠ .discard i k := by
  have h2 := hn.2
  tstep_cases th h <;> simp_all [Thread.slots] <;> grind

/-! ## Lease discipline -/

/-- `disc held p`: in program `p`, started while the thread's latest streaming response may
(`held`) still hold a connection, every streaming request is released before the next request and
before the end, and there is no `close` -/
def disc : Bool → List Op → Bool
  | held, [] => !held
  | held, .req _ _ st :: rest => !held && disc st rest
  | _, .release :: rest => disc false rest
  | _, .close :: _ => false

theorem disc_mono {p : List Op} (h : disc true p = true) : disc false p = true := by
  cases p with
  | nil => simp [disc] at h
  | cons op rest => cases op <;> simp_all [disc]

theorem disc_no_close {held : Bool} {p : List Op} (h : disc held p = true) : Op.close ∉ p := by
  induction p generalizing held with
  | nil => simp
  | cons op rest ih =>
    cases op with
    | req f l st => simp [disc] at h; simpa using ih h.2
    | release => simp [disc] at h; simpa using ih h
    | close => simp [disc] at h

def Cont.stream : Cont → Bool
  | .retry _ _ st => st
  | _ => false

/-- the `preload_content=False` flag of the request a program counter is in -/
def Pc.stream : Pc → Bool
  | .getCheck _ _ st | .getLoad _ _ st | .getQ _ _ st | .dropClose _ _ _ st | .send _ _ _ st
  | .recv _ _ _ _ st => st
  | .putCheck _ k | .putLoad _ k | .putQ _ k | .fullClose _ k | .warn _ k | .discard _ k => k.stream
  | _ => false

@[simp] theorem Pc.stream_idle : Pc.idle.stream = false := rfl
@[simp] theorem Pc.stream_getCheck {f l s} : (Pc.getCheck f l s).stream = s := rfl
@[simp] theorem Pc.stream_getLoad {f l s} : (Pc.getLoad f l s).stream = s := rfl
@[simp] theorem Pc.stream_getQ {f l s} : (Pc.getQ f l s).stream = s := rfl
@[simp] theorem Pc.stream_dropClose {c f l s} : (Pc.dropClose c f l s).stream = s := rfl
@[simp] theorem Pc.stream_send {c f l s} : (Pc.send c f l s).stream = s := rfl
@[simp] theorem Pc.stream_recv {c t f l s} : (Pc.recv c t f l s).stream = s := rfl
@[simp] theorem Pc.stream_putCheck {i k} : (Pc.putCheck i k).stream = k.stream := rfl
@[simp] theorem Pc.stream_putLoad {i k} : (Pc.putLoad i k).stream = k.stream := rfl
@[simp] theorem Pc.stream_putQ {i k} : (Pc.putQ i k).stream = k.stream := rfl
@[simp] theorem Pc.stream_fullClose {i k} : (Pc.fullClose i k).stream = k.stream := rfl
@[simp] theorem Pc.stream_warn {i k} : (Pc.warn i k).stream = k.stream := rfl
@[simp] theorem Pc.stream_discard {i k} : (Pc.discard i k).stream = k.stream := rfl
@[simp] theorem Pc.stream_closeSwap : Pc.closeSwap.stream = false := rfl
@[simp] theorem Pc.stream_drain : Pc.drain.stream = false := rfl
@[simp] theorem Pc.stream_drainClose {x} : (Pc.drainClose x).stream = false := rfl
@[simp] theorem Cont.stream_rel : Cont.rel.stream = false := rfl
@[simp] theorem Cont.stream_fin {r} : (Cont.fin r).stream = false := rfl
@[simp] theorem Cont.stream_retry {f l s} : (Cont.retry f l s).stream = s := rfl

/-- the per-thread discipline invariant -/
def Disc (th : Thread) : Prop :=
  th.leaked = [] ∧ th.pc.kind ≠ some 2 ∧
  (th.pc = .idle → disc th.resp.isSome th.prog = true) ∧
  (th.pc ≠ .idle → th.resp = none ∧ ∃ op rest, th.prog = op :: rest ∧ disc th.pc.stream rest = true)

theorem finish_disc_iff {prog pc resp leaked results sent rclose} {r : Res} {op : Op} :
    Disc (finish ⟨op :: prog, pc, resp, leaked, results, sent, rclose⟩ r) ↔
      leaked = [] ∧ disc resp.isSome prog = true := by
  simp [finish, Disc]

theorem applyCont_disc_iff {prog pc leaked results sent rclose} {k : Cont} {op : Op} :
    Disc (applyCont ⟨op :: prog, pc, none, leaked, results, sent, rclose⟩ k) ↔
      leaked = [] ∧ disc k.stream prog = true := by
  cases k with
  | fin r => simp [applyCont, finish_disc_iff]
  | rel => simp [applyCont, finish_disc_iff]
  | retry f l st =>
    simp only [applyCont, Disc]
    constructor
    · rintro ⟨h1, -, -, h2⟩
      obtain ⟨-, op', rest', he, hd⟩ := h2 (by simp)
      cases he
      exact ⟨h1, hd⟩
    · rintro ⟨h1, h2⟩
      exact ⟨h1, by simp, by simp, fun _ => ⟨trivial, op, prog, rfl, h2⟩⟩

theorem disc_mk_iff {prog pc resp leaked results sent rclose} {op : Op} (hpc : pc ≠ .idle) :
    Disc ⟨op :: prog, pc, resp, leaked, results, sent, rclose⟩ ↔
      leaked = [] ∧ pc.kind ≠ some 2 ∧ resp = none ∧ disc pc.stream prog = true := by
  simp only [Disc]
  constructor
  · rintro ⟨h1, h2, -, h3⟩
    obtain ⟨h4, op', rest', he, hd⟩ := h3 hpc
    cases he
    exact ⟨h1, h2, h4, hd⟩
  · rintro ⟨h1, h2, h3, h4⟩
    exact ⟨h1, h2, fun h => absurd h hpc, fun _ => ⟨h3, op, prog, rfl, h4⟩⟩

theorem disc_false_of {b : Bool} {p : List Op} (h : disc b p = true) : disc false p = true := by
  cases b
  · exact h
  · exact disc_mono h

theorem tstep_disc (h : tstep cfg tid sh th = some (sh', th')) (hp : sh.poolRef ≠ none)
    (hf : cfg.block = true → ∀ i k, th.pc ≠ .fullClose i k) (hd : Disc th) : Disc th' := by
  obtain ⟨hl, hk, hidle, hrun⟩ := hd
  tstep_cases th h <;> simp at hl hk hidle hrun hp hf ⊢ <;>
    (try obtain ⟨rfl, op, rest, rfl, hd'⟩ := hrun) <;>
    (try simp only [disc, Bool.and_eq_true, Bool.not_eq_true', Option.isSome_eq_false_iff,
      Option.isNone_iff_eq_none] at hidle) <;>
    simp_all [finish_disc_iff, applyCont_disc_iff, disc_mk_iff] <;>
    exact disc_false_of ‹_›

/-! ## When is a thread not enabled -/

theorem tstep_none (h : tstep cfg tid sh th = none) :
    th.done = true ∨
      (∃ f l st, th.pc = .getQ f l st) ∧ sh.queue = [] ∧ cfg.block = true ∧ cfg.timeout = false := by
  rcases th with ⟨prog, pc, resp, leaked, results, sent, rclose⟩
  cases pc <;> simp only [tstep, tstepPc] at h <;> (repeat' split at h) <;>
    simp_all [Thread.done]

theorem Disc.slots_done {th : Thread} (hd : Disc th) (h : th.done = true) : th.slots = 0 := by
  rcases th with ⟨prog, pc, resp, leaked, results, sent, rclose⟩
  obtain ⟨hl, -, hidle, -⟩ := hd
  cases pc <;> cases prog <;> simp [Thread.done] at h
  simp at hl
  have := hidle rfl
  simp [disc] at this
  simp [Thread.slots, hl, this]

theorem Disc.slots_getQ {th : Thread} (hd : Disc th) {f l st} (h : th.pc = .getQ f l st) :
    th.slots = 0 := by
  obtain ⟨hl, -, -, hrun⟩ := hd
  have := (hrun (by simp [h])).1
  simp [Thread.slots, hl, this, h]

/-! ## A termination measure -/

/-- upper bound on the number of steps of one op (not counting the drain loop of `close`, which is
paid for by the queue length) -/
def Op.cost : Op → Nat
  | .req f _ _ => 13 * (f + 1)
  | .release => 8
  | .close => 4

def progCost (p : List Op) : Nat := (p.map Op.cost).sum

def Cont.cost : Cont → Nat
  | .retry f _ _ => 13 * (f + 1)
  | _ => 0

/-- steps left in the op the program counter is in -/
def Pc.cost : Pc → Nat
  | .idle => 0
  | .getCheck f _ _ => 12 + 13 * f
  | .getLoad f _ _ => 11 + 13 * f
  | .getQ f _ _ => 10 + 13 * f
  | .dropClose _ f _ _ => 9 + 13 * f
  | .send _ f _ _ => 8 + 13 * f
  | .recv _ _ f _ _ => 7 + 13 * f
  | .putCheck _ k => 6 + k.cost
  | .putLoad _ k => 5 + k.cost
  | .putQ _ k => 4 + k.cost
  | .fullClose _ k => 3 + k.cost
  | .warn _ k => 2 + k.cost
  | .discard _ k => 1 + k.cost
  | .closeSwap => 2
  | .drain => 1
  | .drainClose _ => 2

def Thread.cost (th : Thread) : Nat :=
  if th.pc = .idle then progCost th.prog else th.pc.cost + progCost th.prog.tail

@[simp] theorem progCost_cons (op : Op) (p : List Op) : progCost (op :: p) = op.cost + progCost p := by
  simp [progCost]

theorem finish_cost (th : Thread) (r : Res) : (finish th r).cost = progCost th.prog.tail := by
  unfold finish; split <;> simp_all [Thread.cost]

theorem applyCont_cost (th : Thread) (k : Cont) :
    (applyCont th k).cost ≤ k.cost + progCost th.prog.tail := by
  cases k <;> simp [applyCont, finish_cost, Cont.cost] <;> simp [Thread.cost, Pc.cost]
  omega

theorem failPut_cost (th : Thread) (i k r) : (failPut th i k r).cost = progCost th.prog.tail := by
  cases k <;> simp [failPut, finish_cost]

theorem cost_mk (prog pc resp leaked results sent rclose) :
    Thread.cost ⟨prog, pc, resp, leaked, results, sent, rclose⟩ =
      if pc = .idle then progCost prog else pc.cost + progCost prog.tail := rfl

/-- every step of a thread strictly decreases `2 * qsize + cost` -/
theorem tstep_cost (h : tstep cfg tid sh th = some (sh', th')) :
    2 * sh'.queue.length + th'.cost < 2 * sh.queue.length + th.cost := by
  tstep_cases th h <;>
    first
    | (simp [finish_cost, failPut_cost, cost_mk, Pc.cost, Op.cost, Cont.cost, *] <;> omega)
    | (refine Nat.lt_of_le_of_lt (Nat.add_le_add_left (applyCont_cost _ _) _) ?_
       simp [cost_mk, Pc.cost, Cont.cost, *] <;> omega)

/-! ## Finished ops followed by the remaining program = the original program -/

def Thread.script (th : Thread) : List Op := th.results.map Prod.fst ++ th.prog

@[simp] theorem finish_script (th : Thread) (r : Res) : (finish th r).script = th.script := by
  unfold finish; split <;> simp_all [Thread.script]

@[simp] theorem applyCont_script (th : Thread) (k : Cont) : (applyCont th k).script = th.script := by
  cases k <;> simp [applyCont] <;> rfl

@[simp] theorem failPut_script (th : Thread) (i k r) : (failPut th i k r).script = th.script := by
  cases k <;> simp [failPut] <;> rfl

theorem tstep_script (h : tstep cfg tid sh th = some (sh', th')) : th'.script = th.script := by
  tstep_cases th h <;> first | rfl | (simp <;> rfl)

/-! ## Results follow the script -/

/-- does the scripted last attempt deliver a response (`ok`, or `okClose`: with `Connection: close`)? -/
def Outcome.good : Outcome → Bool
  | .ok => true
  | .fail => false
  | .okClose => true
  | .okDrop => true

@[simp] theorem Outcome.good_ok : Outcome.ok.good = true := rfl
@[simp] theorem Outcome.good_fail : Outcome.fail.good = false := rfl
@[simp] theorem Outcome.good_okClose : Outcome.okClose.good = true := rfl
@[simp] theorem Outcome.good_okDrop : Outcome.okDrop.good = true := rfl
theorem Outcome.good_eq_false {l : Outcome} : l.good = false ↔ l = .fail := by cases l <;> simp
theorem Outcome.good_eq_true {l : Outcome} : l.good = true ↔ l ≠ .fail := by cases l <;> simp

/-- whether the scripted last attempt succeeds, as far as a continuation remembers it -/
def Cont.last : Cont → Option Bool
  | .retry _ l _ => some l.good
  | .fin .ok => some true
  | .fin .failed => some false
  | _ => none

/-- whether the scripted last attempt of the request a program counter is in succeeds -/
def Pc.last : Pc → Option Bool
  | .getCheck _ l _ | .getLoad _ l _ | .getQ _ l _ | .dropClose _ _ l _ | .send _ _ l _
  | .recv _ _ _ l _ => some l.good
  | .putCheck _ k | .putLoad _ k | .putQ _ k | .fullClose _ k | .warn _ k | .discard _ k => k.last
  | _ => none

@[simp] theorem Pc.last_idle : Pc.idle.last = none := rfl
@[simp] theorem Pc.last_getCheck {f l s} : (Pc.getCheck f l s).last = some l.good := rfl
@[simp] theorem Pc.last_getLoad {f l s} : (Pc.getLoad f l s).last = some l.good := rfl
@[simp] theorem Pc.last_getQ {f l s} : (Pc.getQ f l s).last = some l.good := rfl
@[simp] theorem Pc.last_dropClose {c f l s} : (Pc.dropClose c f l s).last = some l.good := rfl
@[simp] theorem Pc.last_send {c f l s} : (Pc.send c f l s).last = some l.good := rfl
@[simp] theorem Pc.last_recv {c t f l s} : (Pc.recv c t f l s).last = some l.good := rfl
@[simp] theorem Pc.last_putCheck {i k} : (Pc.putCheck i k).last = k.last := rfl
@[simp] theorem Pc.last_putLoad {i k} : (Pc.putLoad i k).last = k.last := rfl
@[simp] theorem Pc.last_putQ {i k} : (Pc.putQ i k).last = k.last := rfl
@[simp] theorem Pc.last_fullClose {i k} : (Pc.fullClose i k).last = k.last := rfl
@[simp] theorem Pc.last_warn {i k} : (Pc.warn i k).last = k.last := rfl
@[simp] theorem Pc.last_discard {i k} : (Pc.discard i k).last = k.last := rfl
@[simp] theorem Pc.last_closeSwap : Pc.closeSwap.last = none := rfl
@[simp] theorem Pc.last_drain : Pc.drain.last = none := rfl
@[simp] theorem Pc.last_drainClose {x} : (Pc.drainClose x).last = none := rfl
@[simp] theorem Cont.last_retry {f l s} : (Cont.retry f l s).last = some l.good := rfl
@[simp] theorem Cont.last_fin_ok : (Cont.fin .ok).last = some true := rfl
@[simp] theorem Cont.last_fin_failed : (Cont.fin .failed).last = some false := rfl
@[simp] theorem Cont.last_fin_wrongResp : (Cont.fin .wrongResp).last = none := rfl
@[simp] theorem Cont.last_rel : Cont.rel.last = none := rfl

/-- the outcome the program counter carries is the one scripted in the running `req` op (up to
`ok` / `okClose`, which a stored result no longer distinguishes) -/
def lastOK (th : Thread) : Prop :=
  ∀ b, th.pc.last = some b → ∃ f l st rest, th.prog = .req f l st :: rest ∧ l.good = b

@[simp] theorem finish_lastOK (th : Thread) (r : Res) : lastOK (finish th r) := by
  simp [lastOK]

@[simp] theorem failPut_lastOK (th : Thread) (i k r) : lastOK (failPut th i k r) := by
  simp [lastOK]

theorem applyCont_lastOK {th : Thread} {k : Cont}
    (h : ∀ b, k.last = some b → ∃ f l st rest, th.prog = .req f l st :: rest ∧ l.good = b) :
    lastOK (applyCont th k) := by
  cases k <;> simp [applyCont, lastOK] <;> simpa using h

theorem tstep_lastOK (h : tstep cfg tid sh th = some (sh', th')) (hl : lastOK th) : lastOK th' := by
  tstep_cases th h <;>
    first
    | exact finish_lastOK ..
    | exact failPut_lastOK ..
    | (apply applyCont_lastOK; simpa [lastOK] using hl)
    | (simp [lastOK] at hl ⊢; first | done | exact hl | exact ⟨_, _, ⟨rfl, rfl⟩, rfl⟩ | grind)

theorem finish_results_new {th : Thread} {r : Res} {p} (hp : p ∈ (finish th r).results) :
    p ∈ th.results ∨ (p.2 = r ∧ ∃ rest, th.prog = p.1 :: rest) := by
  unfold finish at hp; split at hp <;> simp_all; grind

theorem applyCont_results_new {th : Thread} {k : Cont} {p} (hp : p ∈ (applyCont th k).results) :
    p ∈ th.results ∨ ((k = .fin p.2 ∨ (k = .rel ∧ p.2 = .ok)) ∧ ∃ rest, th.prog = p.1 :: rest) := by
  cases k with
  | fin r => rcases finish_results_new (by simpa [applyCont] using hp) with h | ⟨h1, h2⟩
             · exact Or.inl h
             · exact Or.inr ⟨Or.inl (by rw [h1]), h2⟩
  | rel => rcases finish_results_new (by simpa [applyCont] using hp) with h | ⟨h1, h2⟩
           · exact Or.inl h
           · exact Or.inr ⟨Or.inr ⟨rfl, h1⟩, h2⟩
  | retry f l st => exact Or.inl (by simpa [applyCont] using hp)

/-- what a result says about the op it belongs to and about the configuration -/
def Scripted (cfg : Cfg) (sh : Shared) (p : Op × Res) : Prop :=
  (p.2 = .closedPool → sh.poolRef = none ∧ p.1.kind = 0) ∧
  (p.2 = .emptyPool → cfg.block = true ∧ cfg.timeout = true ∧ p.1.kind = 0) ∧
  (p.2 = .failed → ∃ f st, p.1 = .req f .fail st) ∧
  (p.2 = .ok → ∀ f l st, p.1 = .req f l st → l ≠ .fail)

theorem scripted_of_finish {th : Thread} {r : Res} {p} (hmem : p ∈ (finish th r).results)
    (hS : ∀ op rest, th.prog = op :: rest → Scripted cfg sh (op, r)) :
    p ∈ th.results ∨ Scripted cfg sh p := by
  rcases finish_results_new hmem with h | ⟨h1, rest, h2⟩
  · exact Or.inl h
  · right
    have := hS _ _ h2
    rw [← h1] at this
    exact this

theorem scripted_of_applyCont {th : Thread} {k : Cont} {p} (hmem : p ∈ (applyCont th k).results)
    (hS : ∀ op rest, th.prog = op :: rest →
      (∀ r, k = .fin r → Scripted cfg sh (op, r)) ∧ (k = .rel → Scripted cfg sh (op, .ok))) :
    p ∈ th.results ∨ Scripted cfg sh p := by
  rcases applyCont_results_new hmem with h | ⟨h1, rest, h2⟩
  · exact Or.inl h
  · right
    have := hS _ _ h2
    rcases h1 with h1 | ⟨h1, h3⟩
    · exact this.1 _ h1
    · have h4 := this.2 h1
      rw [← h3] at h4
      exact h4

theorem scripted_of_failPut {th : Thread} {i k r p} (hmem : p ∈ (failPut th i k r).results)
    (hr : r = .fullPool) : p ∈ th.results ∨ Scripted cfg sh p := by
  rcases failPut_results_mem hmem with h | h
  · exact Or.inl h
  · right
    subst hr; simp [Scripted, h]

theorem tstep_results_scripted (h : tstep cfg tid sh th = some (sh', th')) (hr : recvOK sh th)
    (hk : contOK th) (hp : progOK th) (hl : lastOK th) :
    ∀ p ∈ th'.results, p ∈ th.results ∨ Scripted cfg sh p := by
  intro p hmem
  tstep_cases th h <;>
    first
    | exact Or.inl hmem
    | exact scripted_of_failPut hmem rfl
    | (refine scripted_of_finish hmem ?_
       intro op rest hprog
       simp [progOK, lastOK, recvOK, contOK, -Bool.forall_bool, -Bool.exists_bool] at hr hk hp hl hprog
       simp [Scripted, -Bool.forall_bool, -Bool.exists_bool] <;> grind [Op.kind, Cont.last, Outcome.good, Outcome.good_eq_false, Outcome.good_eq_true])
    | (refine scripted_of_applyCont hmem ?_
       intro op rest hprog
       simp [progOK, lastOK, recvOK, contOK, -Bool.forall_bool, -Bool.exists_bool] at hr hk hp hl hprog
       simp [Scripted, -Bool.forall_bool, -Bool.exists_bool]
       cases ‹Cont› <;> simp_all [-Bool.forall_bool, -Bool.exists_bool] <;> grind [Op.kind, Cont.last, Outcome.good, Outcome.good_eq_false, Outcome.good_eq_true])
    | (refine Or.imp_left (fun h => by simpa using h) (scripted_of_finish hmem ?_)
       intro op rest hprog
       simp [progOK, lastOK, recvOK, contOK, -Bool.forall_bool, -Bool.exists_bool] at hr hk hp hl hprog
       simp [Scripted, -Bool.forall_bool, -Bool.exists_bool] <;> grind [Op.kind, Cont.last, Outcome.good, Outcome.good_eq_false, Outcome.good_eq_true])

/-! ## Few disciplined threads never find the queue full (any `block`, with `close`) -/

/-- like `disc`, but `close` ops are allowed (they do not touch the thread's leases) -/
def disc2 : Bool → List Op → Bool
  | held, [] => !held
  | held, .req _ _ st :: rest => !held && disc2 st rest
  | _, .release :: rest => disc2 false rest
  | held, .close :: rest => disc2 held rest

theorem disc2_mono {p : List Op} (h : disc2 true p = true) : disc2 false p = true := by
  induction p with
  | nil => simp [disc2] at h
  | cons op rest ih => cases op <;> simp_all [disc2]

theorem disc2_false_of {b : Bool} {p : List Op} (h : disc2 b p = true) : disc2 false p = true := by
  cases b
  · exact h
  · exact disc2_mono h

/-- slots a program counter holds, not counting an item taken by `close`'s drain loop (which is
never put back) -/
def Pc.slots2 : Pc → Nat
  | .dropClose .. | .send .. | .recv .. => 1
  | .putCheck .. | .putLoad .. | .putQ .. | .fullClose .. | .warn .. | .discard .. => 1
  | _ => 0

@[simp] theorem Pc.slots2_idle : Pc.idle.slots2 = 0 := rfl
@[simp] theorem Pc.slots2_getCheck {f l s} : (Pc.getCheck f l s).slots2 = 0 := rfl
@[simp] theorem Pc.slots2_getLoad {f l s} : (Pc.getLoad f l s).slots2 = 0 := rfl
@[simp] theorem Pc.slots2_getQ {f l s} : (Pc.getQ f l s).slots2 = 0 := rfl
@[simp] theorem Pc.slots2_dropClose {c f l s} : (Pc.dropClose c f l s).slots2 = 1 := rfl
@[simp] theorem Pc.slots2_send {c f l s} : (Pc.send c f l s).slots2 = 1 := rfl
@[simp] theorem Pc.slots2_recv {c t f l s} : (Pc.recv c t f l s).slots2 = 1 := rfl
@[simp] theorem Pc.slots2_putCheck {i k} : (Pc.putCheck i k).slots2 = 1 := rfl
@[simp] theorem Pc.slots2_putLoad {i k} : (Pc.putLoad i k).slots2 = 1 := rfl
@[simp] theorem Pc.slots2_putQ {i k} : (Pc.putQ i k).slots2 = 1 := rfl
@[simp] theorem Pc.slots2_fullClose {i k} : (Pc.fullClose i k).slots2 = 1 := rfl
@[simp] theorem Pc.slots2_warn {i k} : (Pc.warn i k).slots2 = 1 := rfl
@[simp] theorem Pc.slots2_discard {i k} : (Pc.discard i k).slots2 = 1 := rfl
@[simp] theorem Pc.slots2_closeSwap : Pc.closeSwap.slots2 = 0 := rfl
@[simp] theorem Pc.slots2_drain : Pc.drain.slots2 = 0 := rfl
@[simp] theorem Pc.slots2_drainClose {x} : (Pc.drainClose x).slots2 = 0 := rfl
@[simp] theorem applyCont_pc_slots2 (th : Thread) (k : Cont) : (applyCont th k).pc.slots2 = 0 := by
  cases k <;> simp [applyCont]

def Thread.slots2 (th : Thread) : Nat := th.pc.slots2 + th.resp.toList.length + th.leaked.length

@[simp] theorem Cont.kind_ne_two (k : Cont) : k.kind ≠ 2 := by cases k <;> simp

/-- the per-thread discipline invariant, `close` allowed -/
def Disc2 (th : Thread) : Prop :=
  th.leaked = [] ∧
  (th.pc = .idle → disc2 th.resp.isSome th.prog = true) ∧
  (th.pc ≠ .idle → ∃ op rest, th.prog = op :: rest ∧
    if th.pc.kind = some 2 then disc2 th.resp.isSome rest = true
    else th.resp = none ∧ disc2 th.pc.stream rest = true)

theorem finish_disc2_iff {prog pc resp leaked results sent rclose} {r : Res} {op : Op} :
    Disc2 (finish ⟨op :: prog, pc, resp, leaked, results, sent, rclose⟩ r) ↔
      leaked = [] ∧ disc2 resp.isSome prog = true := by
  simp [finish, Disc2]

theorem disc2_mk_iff {prog pc resp leaked results sent rclose} {op : Op} (hpc : pc ≠ .idle) :
    Disc2 ⟨op :: prog, pc, resp, leaked, results, sent, rclose⟩ ↔
      leaked = [] ∧ if pc.kind = some 2 then disc2 resp.isSome prog = true
        else resp = none ∧ disc2 pc.stream prog = true := by
  simp only [Disc2]
  constructor
  · rintro ⟨h1, -, h3⟩
    obtain ⟨op', rest', he, hd⟩ := h3 hpc
    cases he
    exact ⟨h1, hd⟩
  · rintro ⟨h1, h2⟩
    exact ⟨h1, fun h => absurd h hpc, fun _ => ⟨op, prog, rfl, h2⟩⟩

theorem applyCont_disc2_iff {prog pc leaked results sent rclose} {k : Cont} {op : Op} :
    Disc2 (applyCont ⟨op :: prog, pc, none, leaked, results, sent, rclose⟩ k) ↔
      leaked = [] ∧ disc2 k.stream prog = true := by
  cases k with
  | fin r => simp [applyCont, finish_disc2_iff]
  | rel => simp [applyCont, finish_disc2_iff]
  | retry f l st => simp [applyCont, disc2_mk_iff]

theorem tstep_disc2 (h : tstep cfg tid sh th = some (sh', th'))
    (hf : ∀ i k, th.pc ≠ .fullClose i k ∧ th.pc ≠ .warn i k) (hd : Disc2 th) : Disc2 th' := by
  obtain ⟨hl, hidle, hrun⟩ := hd
  tstep_cases th h <;> simp at hl hidle hrun hf ⊢ <;>
    (try obtain ⟨op, rest, rfl, hd'⟩ := hrun) <;>
    (try simp only [disc2, Bool.and_eq_true, Bool.not_eq_true', Option.isSome_eq_false_iff,
      Option.isNone_iff_eq_none] at hidle) <;>
    simp_all [finish_disc2_iff, applyCont_disc2_iff, disc2_mk_iff] <;>
    first
    | exact disc2_false_of ‹_›
    | exact disc2_false_of hd'.2
    | exact disc2_false_of hidle.2
    | skip

theorem Disc2.slots2_le {th : Thread} (hd : Disc2 th) : th.slots2 ≤ 1 := by
  rcases th with ⟨prog, pc, resp, leaked, results, sent, rclose⟩
  obtain ⟨hl, -, hrun⟩ := hd
  simp at hl hrun
  subst hl
  cases pc <;> simp [Thread.slots2] <;> (try cases resp <;> simp) <;>
    simp at hrun

theorem Disc2.slots2_getQ {th : Thread} (hd : Disc2 th) {f l st} (h : th.pc = .getQ f l st) :
    th.slots2 = 0 := by
  obtain ⟨hl, -, hrun⟩ := hd
  obtain ⟨op, rest, -, h2⟩ := hrun (by simp [h])
  simp [h] at h2
  simp [Thread.slots2, hl, h2.1, h]

/-- a step does not increase `qsize + slots2`, except the `get()` of a `block=False` pool on the
empty queue, which creates a connection -/
theorem tstep_slots2 (h : tstep cfg tid sh th = some (sh', th')) :
    sh'.queue.length + th'.slots2 ≤ sh.queue.length + th.slots2 ∨
      ((∃ f l st, th.pc = .getQ f l st) ∧ sh'.queue = []) := by
  tstep_cases th h <;> simp_all [Thread.slots2, failPut_resp] <;> grind

end U3.PoolConc
