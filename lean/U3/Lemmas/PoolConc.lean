import U3.Model.PoolConc
/-! Helper definitions and lemmas for the C02 theorems about `U3.PoolConc`. -/
namespace U3.PoolConc

/-- no thread of `s` can take a step -/
def stuck (s : State) : Bool := (List.range s.threads.length).all (fun t => !enabled s t)

theorem step_none_of_ge {s : State} {t : Nat} (h : s.threads.length ≤ t) : step s t = none := by
  unfold step
  rw [List.getElem?_eq_none h]

theorem step_none_of_stuck {s : State} (h : stuck s = true) (t : Nat) : step s t = none := by
  by_cases ht : t < s.threads.length
  · have := List.all_eq_true.mp h t (List.mem_range.mpr ht)
    simpa [enabled] using this
  · exact step_none_of_ge (Nat.le_of_not_lt ht)

/-- a stuck configuration never changes again, whatever the scheduler does -/
theorem runFrom_of_stuck {s : State} (h : stuck s = true) (σ : List Nat) : runFrom s σ = s := by
  induction σ with
  | nil => rfl
  | cons t σ ih =>
    have : runFrom s (t :: σ) = runFrom ((step s t).getD s) σ := rfl
    rw [this, step_none_of_stuck h t]
    exact ih

end U3.PoolConc
