import U3.Model.Pool
import U3.Lemmas.Pool
set_option linter.unusedSimpArgs false
set_option linter.unusedVariables false
/-!
# Byte provenance in the pool lifecycle model (C03)

`Prov A s`: every response of state `s` was built from — and has delivered only — the bytes the
scripted server sent in reaction to *its own* request (an attempt `a` with `A rid a`), in order,
never more than the declared length.  `Prov` is an inductive invariant of every operation of a
history (`step`), for every history; nothing is assumed about the caller.

Technique: the part of a state the invariant talks about is `(conns, resps, socks)`.
* `Safe s s'` is a transitive relation that contains every transformation which does not move
  bytes (closing readers / connections, queue traffic, logging, new connections and sockets,
  forgetting a closed `__response`, appending bytes to a socket nobody is reading from …);
  `Safe` transformations preserve `ProvF` for every focus.
* reading is described by `ReadRel` (bytes move from the kernel buffer of socket `k` to the private
  buffer of reader `r` and from there to the caller, in order); a *focus* `(r, X, Z)` records that
  reader `r` has consumed `X` so far (and `Z` is what its length counter has accounted for) while
  the function under consideration has not yet appended the bytes to `delivered`.
-/
namespace U3.Pool

/-! ## vocabulary -/

/-- the tag of a byte -/
def cellTag : Cell → Tag
  | .hd t _ => t
  | .body t _ => t
  | .fr t _ => t

/-- the payload of attempt `a` of request `rid` as the server tags it -/
def payloadCells (rid : Nat) (a : Attempt) : List Cell := a.body.map (Cell.body (.req rid))

def strayCells (a : Attempt) : List Cell := a.stray.map (Cell.body .stray)

/-- payload and unsolicited bytes: what a reader of a reply that is not chunked may be handed -/
def bodyCells (rid : Nat) (a : Attempt) : List Cell := payloadCells rid a ++ strayCells a

theorem postCells_plain {rid : Nat} {a : Attempt} {h : Head} (hc : h.chunked = false) :
    postCells rid a h = bodyCells rid a := by
  simp [postCells, framedCells, hc, bodyCells, payloadCells, strayCells]

theorem serverCells_none {rid : Nat} {a : Attempt} (hh : a.head = none) : serverCells rid a = [] := by
  simp [serverCells, hh]

theorem serverNow_none {rid : Nat} {a : Attempt} (hh : a.head = none) : serverNow rid a = [] := by
  simp [serverNow, hh]

theorem serverNow_some {rid : Nat} {a : Attempt} {h : Head} (hh : a.head = some h) :
    serverNow rid a = headCells rid a.headLen h ++ (postCells rid a h).take ((postCells rid a h).length - a.hold) := by
  simp [serverNow, hh]

/-- `HEAD`, 1xx, 204, 304: no body whatever the headers say -/
def noBody (status : Nat) (isHead : Bool) : Bool :=
  status == 204 || status == 304 || (100 ≤ status && status < 200) || isHead

/-- `http.client`'s `length` right after `begin()` -/
def initLength (h : Head) (isHead : Bool) : Option Nat :=
  if noBody h.status isHead then some 0 else if h.chunked then none else h.cl

/-- the bound `length` puts on what is delivered: none for a chunked reply (`http.client` looks at
`chunked` before it looks at `length`), except that a reply to `HEAD` is never read at all -/
def lenBound (h : Head) (isHead : Bool) : Option Nat :=
  if h.chunked && !isHead then none else initLength h isHead

/-- what a reader of the reply may hand to the caller: the payload of a chunked reply; for a reply
that is not chunked whatever follows the head -/
def deliverable (rid : Nat) (a : Attempt) (h : Head) : List Cell :=
  if h.chunked then payloadCells rid a else bodyCells rid a

/-! ### where a chunk parser stands in the chunked coding -/

inductive Pos | size | data (n : Nat) | crlf | tail | bad
deriving DecidableEq

/-- the position encoded in the two `chunk_left` counters (`bad`: both parsers have been at work) -/
def respPos (rs : Resp) : Pos :=
  match rs.chunkLeft, rs.hcLeft with
  | some 0, none => .tail
  | some (n + 1), none => .data (n + 1)
  | some _, some _ => .bad
  | none, some 0 => .crlf
  | none, some (n + 1) => .data (n + 1)
  | none, none => .size

/-- `E` is a sequence of chunks with payload `B` -/
inductive Enc (t : Tag) : List Nat → List Cell → Prop
  | nil : Enc t [] []
  | cons (n : Nat) (B : List Nat) (E : List Cell) : 0 < n → n ≤ B.length → Enc t (B.drop n) E →
      Enc t B (oneChunk t (B.take n) ++ E)

def crlfCells (t : Tag) : List Cell := [Cell.fr t .cr, Cell.fr t .lf]

/-- what follows the chunks: last-chunk, trailer section, unsolicited bytes -/
def endCells (rid : Nat) (a : Attempt) : List Cell :=
  lastChunk (.req rid) ++ (trailerCells (.req rid) a.trailers ++ strayCells a)

/-- reader state `(pos, X)` — `X` handed (or about to be handed) to the caller — and the rest `Rem`
of the byte stream of the reply fit together -/
def Expect (rid : Nat) (a : Attempt) (h : Head) (pos : Pos) (X Rem : List Cell) : Prop :=
  if h.chunked then
    ∃ Brem : List Nat, X ++ Brem.map (Cell.body (.req rid)) = payloadCells rid a ∧
      match pos with
      | .size => ∃ E, Enc (.req rid) Brem E ∧ Rem = E ++ endCells rid a
      | .data n => 0 < n ∧ n ≤ Brem.length ∧ ∃ E, Enc (.req rid) (Brem.drop n) E ∧
          Rem = (Brem.take n).map (Cell.body (.req rid)) ++ (crlfCells (.req rid) ++ (E ++ endCells rid a))
      | .crlf => ∃ E, Enc (.req rid) Brem E ∧ Rem = crlfCells (.req rid) ++ (E ++ endCells rid a)
      | .tail => Brem = [] ∧ ∃ pre, pre ++ Rem = trailerCells (.req rid) a.trailers ++ strayCells a
      | .bad => False
  else X ++ Rem = bodyCells rid a

/-- response `rs` (in state `s`) is an honest reader of the reply to attempt `a` (head `h`) of its
own request: `X` = handed to the caller so far -/
structure Framed (A : Nat → Attempt → Prop) (s : State) (rs : Resp) (X Z : List Cell) (a : Attempt) (h : Head) : Prop where
  att : A rs.rid a
  head : a.head = some h
  st : rs.status = h.status
  ch : rs.chunked = h.chunked
  dpre : rs.delivered <+: deliverable rs.rid a h
  dlen : ∀ n, lenBound h rs.isHead = some n → rs.delivered.length ≤ n
  xpre : X <+: deliverable rs.rid a h
  xlen : ∀ n, lenBound h rs.isHead = some n → X.length ≤ n
  opn : ∀ k, rs.fp = some k → ∃ (sk : Sock) (Rem : List Cell), s.socks[k]? = some sk ∧
          Expect rs.rid a h (respPos rs) X Rem ∧ rs.buf ++ sk.inbound <+: Rem ∧
          (∀ n, lenBound h rs.isHead = some n → ∃ l, rs.length = some l ∧ Z.length + l ≤ n)

def RespOk (A : Nat → Attempt → Prop) (s : State) (rs : Resp) (X Z : List Cell) : Prop :=
  (rs.fp = none ∧ rs.delivered = [] ∧ X = []) ∨ ∃ a h, Framed A s rs X Z a h

/-- no byte of a response head -/
def NoHd (l : List Cell) : Prop := ∀ c ∈ l, ∀ t fin, c ≠ Cell.hd t fin

/-- nobody is connected through socket `k` -/
def NoConn (s : State) (k : Nat) : Prop := ∀ (c : Nat) (cn : Conn), s.conns[c]? = some cn → cn.sock ≠ some k

/-- the peer's FIN is pending (or has been seen) on socket `k` -/
def FinAt (s : State) (k : Nat) : Prop := ∃ sk : Sock, s.socks[k]? = some sk ∧ sk.after = .fin

abbrev Focus := Option (Nat × List Cell × List Cell)

def Focus.x (f : Focus) (i : Nat) (rs : Resp) : List Cell :=
  match f with
  | some (r, X, _) => if i = r then X else rs.delivered
  | none => rs.delivered

def Focus.z (f : Focus) (i : Nat) (rs : Resp) : List Cell :=
  match f with
  | some (r, _, Z) => if i = r then Z else rs.delivered
  | none => rs.delivered

structure ProvF (A : Nat → Attempt → Prop) (s : State) (f : Focus) : Prop where
  sockB : ∀ (c : Nat) (cn : Conn) (k : Nat), s.conns[c]? = some cn → cn.sock = some k → k < s.socks.length
  fpB : ∀ (i : Nat) (rs : Resp) (k : Nat), s.resps[i]? = some rs → rs.fp = some k → k < s.socks.length
  sockInj : ∀ (c c' : Nat) (cn cn' : Conn) (k : Nat), s.conns[c]? = some cn → s.conns[c']? = some cn' → cn.sock = some k → cn'.sock = some k → c = c'
  pend : ∀ (i : Nat) (rs : Resp) (c : Nat) (cn : Conn) (k : Nat), s.resps[i]? = some rs → rs.fp = some k → s.conns[c]? = some cn → cn.sock = some k →
    cn.pending = some i
  fpInj : ∀ (i j : Nat) (rs rs' : Resp) (k : Nat), s.resps[i]? = some rs → s.resps[j]? = some rs' → rs.fp = some k → rs'.fp = some k → i = j
  resp : ∀ (i : Nat) (rs : Resp), s.resps[i]? = some rs → RespOk A s rs (f.x i rs) (f.z i rs)
  foc : ∀ r X Z, f = some (r, X, Z) → s.resps[r]? = none → X = []
  heldB : ∀ (k : Nat) (sk : Sock), s.socks[k]? = some sk → NoHd sk.held
  /-- a trailer loop that stopped at EOF of socket `k`: the FIN stays pending as long as a connection uses `k` -/
  eofB : ∀ (i : Nat) (rs : Resp) (k : Nat), s.resps[i]? = some rs → rs.eofAt = some k →
    k < s.socks.length ∧ (FinAt s k ∨ NoConn s k)

abbrev Prov (A : Nat → Attempt → Prop) (s : State) : Prop := ProvF A s none

/-! ## transformations that move no bytes -/

/-- nobody reads from socket `k` -/
def NoReader (s : State) (k : Nat) : Prop := ∀ (i : Nat) (rs : Resp), s.resps[i]? = some rs → rs.fp ≠ some k

structure Safe (s s' : State) : Prop where
  slen : s.socks.length ≤ s'.socks.length
  rlen : s.resps.length ≤ s'.resps.length
  st : ∀ (i : Nat) (rs rs' : Resp), s.resps[i]? = some rs → s'.resps[i]? = some rs' →
    rs'.status = rs.status ∧ rs'.length = rs.length ∧ rs'.chunked = rs.chunked
  /-- a socket somebody reads from in `s'` has the kernel buffer it had in `s` -/
  sk : ∀ (i : Nat) (rs' : Resp) (k : Nat) (sk : Sock), s'.resps[i]? = some rs' → rs'.fp = some k → s.socks[k]? = some sk →
    ∃ sk', s'.socks[k]? = some sk' ∧ sk'.inbound = sk.inbound
  /-- responses: the old ones may have been closed, new ones are closed and empty -/
  rs : ∀ (i : Nat) (rs' : Resp), s'.resps[i]? = some rs' →
    (∃ rs : Resp, s.resps[i]? = some rs ∧ rs'.rid = rs.rid ∧ rs'.delivered = rs.delivered ∧ rs'.isHead = rs.isHead ∧
      (rs'.fp = none ∨ (rs'.fp = rs.fp ∧ rs'.buf = rs.buf ∧ rs'.length = rs.length ∧ respPos rs' = respPos rs))) ∨
    (s.resps[i]? = none ∧ rs'.fp = none ∧ rs'.delivered = [])
  /-- connections: a live socket of `s'` was the same connection's socket in `s` (`__response` kept,
  or nobody reads from that socket), or it is a brand-new socket -/
  cn : ∀ (c : Nat) (cn' : Conn) (k : Nat), s'.conns[c]? = some cn' → cn'.sock = some k →
    (∃ cn : Conn, s.conns[c]? = some cn ∧ cn.sock = some k ∧ (cn'.pending = cn.pending ∨ NoReader s' k)) ∨
    (s.socks.length ≤ k ∧ k < s'.socks.length ∧ NoReader s' k ∧
      ∀ (c2 : Nat) (cn2 : Conn), s'.conns[c2]? = some cn2 → cn2.sock = some k → c2 = c)
  /-- what a peer holds back is what it held back in `s`, or free of head bytes -/
  hd : ∀ (k : Nat) (sk' : Sock), s'.socks[k]? = some sk' →
    (∃ sk : Sock, s.socks[k]? = some sk ∧ sk'.held = sk.held) ∨ NoHd sk'.held
  /-- a FIN stays -/
  fin : ∀ k : Nat, FinAt s k → FinAt s' k
  /-- every EOF mark of `s'` is one of `s`, or the FIN is pending now -/
  eo : ∀ (i : Nat) (rs' : Resp) (k : Nat), s'.resps[i]? = some rs' → rs'.eofAt = some k →
    (∃ rs : Resp, s.resps[i]? = some rs ∧ rs.eofAt = some k) ∨ FinAt s' k

theorem st_of_eq {s s' : State} (h : s'.resps = s.resps) :
    ∀ (i : Nat) (rs rs' : Resp), s.resps[i]? = some rs → s'.resps[i]? = some rs' →
      rs'.status = rs.status ∧ rs'.length = rs.length ∧ rs'.chunked = rs.chunked := by
  intro i rs rs' h1 h2
  rw [h, h1] at h2; cases h2; exact ⟨rfl, rfl, rfl⟩

theorem hd_of_eq {s s' : State} (h : s'.socks = s.socks) :
    ∀ (k : Nat) (sk' : Sock), s'.socks[k]? = some sk' →
      (∃ sk : Sock, s.socks[k]? = some sk ∧ sk'.held = sk.held) ∨ NoHd sk'.held := by
  intro k sk' h1; rw [h] at h1; exact Or.inl ⟨sk', h1, rfl⟩

theorem fin_of_eq {s s' : State} (h : s'.socks = s.socks) : ∀ k : Nat, FinAt s k → FinAt s' k := by
  intro k ⟨sk, h1, h2⟩; exact ⟨sk, by rw [h]; exact h1, h2⟩

theorem eo_of_eq {s s' : State} (h : s'.resps = s.resps) :
    ∀ (i : Nat) (rs' : Resp) (k : Nat), s'.resps[i]? = some rs' → rs'.eofAt = some k →
      (∃ rs : Resp, s.resps[i]? = some rs ∧ rs.eofAt = some k) ∨ FinAt s' k := by
  intro i rs' k h1 h2; rw [h] at h1; exact Or.inl ⟨rs', h1, h2⟩

theorem Safe.refl (s : State) : Safe s s := by
  refine ⟨Nat.le_refl _, Nat.le_refl _, st_of_eq rfl, ?_, ?_, ?_, hd_of_eq rfl, fin_of_eq rfl, eo_of_eq rfl⟩
  · intro i rs' k sk h1 h2 h3; exact ⟨sk, h3, rfl⟩
  · intro i rs' h; exact Or.inl ⟨rs', h, rfl, rfl, rfl, Or.inr ⟨rfl, rfl, rfl, rfl⟩⟩
  · intro c cn' k h1 h2; exact Or.inl ⟨cn', h1, h2, Or.inl rfl⟩

/-- an open reader of `s'` was the same open reader in `s` -/
theorem Safe.open_old {s s' : State} (h : Safe s s') {i : Nat} {rs' : Resp} {k : Nat}
    (h1 : s'.resps[i]? = some rs') (h2 : rs'.fp = some k) :
    ∃ rs, s.resps[i]? = some rs ∧ rs.fp = some k ∧ rs'.rid = rs.rid ∧ rs'.delivered = rs.delivered ∧
      rs'.isHead = rs.isHead ∧ rs'.buf = rs.buf ∧ rs'.length = rs.length ∧ respPos rs' = respPos rs := by
  rcases h.rs i rs' h1 with ⟨rs, a, b, c, d, e⟩ | ⟨_, b, _⟩
  · rcases e with e | ⟨e1, e2, e3, e4⟩
    · rw [e] at h2; cases h2
    · exact ⟨rs, a, by rw [← e1]; exact h2, b, c, d, e2, e3, e4⟩
  · rw [b] at h2; cases h2

theorem Safe.noReader {s s' : State} (h : Safe s s') {k : Nat} (n : NoReader s k) : NoReader s' k := by
  intro i rs' h1 h2
  obtain ⟨rs, a, b, _⟩ := h.open_old h1 h2
  exact n i rs a b

theorem Safe.trans {s t u : State} (a : Safe s t) (b : Safe t u) : Safe s u := by
  refine ⟨Nat.le_trans a.slen b.slen, Nat.le_trans a.rlen b.rlen, ?_, ?_, ?_, ?_, ?_, fun k h => b.fin k (a.fin k h), ?_⟩
  rotate_right 2
  · intro k sk' h1
    rcases b.hd k sk' h1 with ⟨sk1, g1, g2⟩ | g
    · rcases a.hd k sk1 g1 with ⟨sk0, g3, g4⟩ | g
      · exact Or.inl ⟨sk0, g3, by rw [g2, g4]⟩
      · exact Or.inr (by rw [g2]; exact g)
    · exact Or.inr g
  · intro i rs' k h1 h2
    rcases b.eo i rs' k h1 h2 with ⟨rt, g1, g2⟩ | g
    · rcases a.eo i rt k g1 g2 with g | g
      · exact Or.inl g
      · exact Or.inr (b.fin k g)
    · exact Or.inr g
  · intro i rs rs' h1 h2
    have hi : i < t.resps.length := by
      rcases Nat.lt_or_ge i s.resps.length with h' | h'
      · exact Nat.lt_of_lt_of_le h' a.rlen
      · rw [List.getElem?_eq_none h'] at h1; cases h1
    have ht : t.resps[i]? = some t.resps[i] := List.getElem?_eq_getElem hi
    obtain ⟨b1, b2, b3⟩ := b.st i _ rs' ht h2
    obtain ⟨a1, a2, a3⟩ := a.st i rs _ h1 ht
    exact ⟨by rw [b1, a1], by rw [b2, a2], by rw [b3, a3]⟩
  · intro i rs' k sk h1 h2 h3
    obtain ⟨rt, ht, hfp, _⟩ := b.open_old h1 h2
    obtain ⟨sk1, hs1, e1⟩ := a.sk i rt k sk ht hfp h3
    obtain ⟨sk2, hs2, e2⟩ := b.sk i rs' k sk1 h1 h2 hs1
    exact ⟨sk2, hs2, by rw [e2, e1]⟩
  · intro i rs' h
    rcases b.rs i rs' h with ⟨rt, ht, b1, b2, b3, b4⟩ | ⟨ht, b1, b2⟩
    · rcases a.rs i rt ht with ⟨r0, h0, a1, a2, a3, a4⟩ | ⟨h0, a1, a2⟩
      · refine Or.inl ⟨r0, h0, by rw [b1, a1], by rw [b2, a2], by rw [b3, a3], ?_⟩
        rcases b4 with b4 | ⟨b4, b5, b6, b7⟩
        · exact Or.inl b4
        · rcases a4 with a4 | ⟨a4, a5, a6, a7⟩
          · exact Or.inl (by rw [b4, a4])
          · exact Or.inr ⟨by rw [b4, a4], by rw [b5, a5], by rw [b6, a6], by rw [b7, a7]⟩
      · refine Or.inr ⟨h0, ?_, by rw [b2, a2]⟩
        rcases b4 with b4 | ⟨b4, _, _⟩
        · exact b4
        · rw [b4, a1]
    · refine Or.inr ⟨?_, b1, b2⟩
      have h1 : t.resps.length ≤ i := by
        rcases Nat.lt_or_ge i t.resps.length with h' | h'
        · have := List.getElem?_eq_getElem h'; rw [ht] at this; cases this
        · exact h'
      exact List.getElem?_eq_none (Nat.le_trans a.rlen h1)
  · intro c cu k h1 h2
    rcases b.cn c cu k h1 h2 with ⟨ct, ht, hk, hp⟩ | ⟨g1, g2, g3, g4⟩
    · rcases a.cn c ct k ht hk with ⟨cs, hs, hk', hp'⟩ | ⟨g1, g2, g3, g4⟩
      · refine Or.inl ⟨cs, hs, hk', ?_⟩
        rcases hp with hp | hp
        · rcases hp' with hp' | hp'
          · exact Or.inl (by rw [hp, hp'])
          · exact Or.inr (b.noReader hp')
        · exact Or.inr hp
      · refine Or.inr ⟨g1, Nat.lt_of_lt_of_le g2 b.slen, b.noReader g3, ?_⟩
        intro c2 cn2 e1 e2
        rcases b.cn c2 cn2 k e1 e2 with ⟨ct2, ht2, hk2, _⟩ | ⟨q1, _, _, _⟩
        · exact g4 c2 ct2 ht2 hk2
        · omega
    · exact Or.inr ⟨Nat.le_trans a.slen g1, g2, g3, g4⟩

theorem Focus.x_congr (f : Focus) (i : Nat) {rs rs' : Resp} (h : rs'.delivered = rs.delivered) : f.x i rs' = f.x i rs := by
  unfold Focus.x; split <;> simp [h]

theorem Focus.z_congr (f : Focus) (i : Nat) {rs rs' : Resp} (h : rs'.delivered = rs.delivered) : f.z i rs' = f.z i rs := by
  unfold Focus.z; split <;> simp [h]

/-- the transfer lemma -/
theorem Safe.prov {A : Nat → Attempt → Prop} {s s' : State} {f : Focus} (h : Safe s s') (p : ProvF A s f) : ProvF A s' f := by
  refine ⟨?_, ?_, ?_, ?_, ?_, ?_, ?_, ?_, ?_⟩
  rotate_right 2
  · intro k sk' h1
    rcases h.hd k sk' h1 with ⟨sk, g1, g2⟩ | g
    · rw [g2]; exact p.heldB k sk g1
    · exact g
  · intro i rs' k h1 h2
    rcases h.eo i rs' k h1 h2 with ⟨rs, g1, g2⟩ | g
    · obtain ⟨q1, q2⟩ := p.eofB i rs k g1 g2
      refine ⟨Nat.lt_of_lt_of_le q1 h.slen, ?_⟩
      rcases q2 with q2 | q2
      · exact Or.inl (h.fin k q2)
      · right
        intro c cn' hc hs
        rcases h.cn c cn' k hc hs with ⟨cn, g3, g4, _⟩ | ⟨g3, _⟩
        · exact q2 c cn g3 g4
        · omega
    · obtain ⟨sk, g1, g2⟩ := g
      refine ⟨?_, Or.inl ⟨sk, g1, g2⟩⟩
      rcases Nat.lt_or_ge k s'.socks.length with h' | h'
      · exact h'
      · rw [List.getElem?_eq_none h'] at g1; cases g1
  · intro c cn' k h1 h2
    rcases h.cn c cn' k h1 h2 with ⟨cn, hs, hk, _⟩ | ⟨_, g2, _, _⟩
    · exact Nat.lt_of_lt_of_le (p.sockB c cn k hs hk) h.slen
    · exact g2
  · intro i rs' k h1 h2
    obtain ⟨rs, a, b, _⟩ := h.open_old h1 h2
    exact Nat.lt_of_lt_of_le (p.fpB i rs k a b) h.slen
  · intro c c' cn cn' k h1 h2 h3 h4
    rcases h.cn c cn k h1 h3 with ⟨c0, hs, hk, _⟩ | ⟨_, _, _, g4⟩
    · rcases h.cn c' cn' k h2 h4 with ⟨c0', hs', hk', _⟩ | ⟨_, _, _, g4'⟩
      · exact p.sockInj c c' c0 c0' k hs hs' hk hk'
      · exact g4' c cn h1 h3
    · exact (g4 c' cn' h2 h4).symm
  · intro i rs' c cn' k h1 h2 h3 h4
    obtain ⟨rs, a, b, _⟩ := h.open_old h1 h2
    rcases h.cn c cn' k h3 h4 with ⟨c0, hs, hk, hp⟩ | ⟨_, _, g3, _⟩
    · rcases hp with hp | hp
      · rw [hp]; exact p.pend i rs c c0 k a b hs hk
      · exact absurd h2 (hp i rs' h1)
    · exact absurd h2 (g3 i rs' h1)
  · intro i j rs rs' k h1 h2 h3 h4
    obtain ⟨r1, a1, b1, _⟩ := h.open_old h1 h3
    obtain ⟨r2, a2, b2, _⟩ := h.open_old h2 h4
    exact p.fpInj i j r1 r2 k a1 a2 b1 b2
  · intro i rs' h1
    rcases h.rs i rs' h1 with ⟨rs, h0, e1, e2, e3, e4⟩ | ⟨hnone, e1, e2⟩
    · rw [f.x_congr i e2, f.z_congr i e2]
      rcases p.resp i rs h0 with ⟨q1, q2, q3⟩ | ⟨a, hd, fr⟩
      · left
        refine ⟨?_, by rw [e2, q2], q3⟩
        rcases e4 with e4 | ⟨e4, _, _⟩
        · exact e4
        · rw [e4, q1]
      · right
        refine ⟨a, hd, ⟨by rw [e1]; exact fr.att, fr.head, (by rw [(h.st i rs rs' h0 h1).1]; exact fr.st),
          (by rw [(h.st i rs rs' h0 h1).2.2]; exact fr.ch), by rw [e1, e2]; exact fr.dpre, by rw [e2, e3]; exact fr.dlen,
          by rw [e1]; exact fr.xpre, by rw [e3]; exact fr.xlen, ?_⟩⟩
        intro k hk
        rcases e4 with e4 | ⟨e4, e5, e6, e7⟩
        · rw [e4] at hk; cases hk
        · rw [e4] at hk
          obtain ⟨sk, Rem, hsk, q0, q1, q2⟩ := fr.opn k hk
          obtain ⟨sk', hsk', q3⟩ := h.sk i rs' k sk h1 (by rw [e4]; exact hk) hsk
          exact ⟨sk', Rem, hsk', by rw [e1, e7]; exact q0, by rw [e5, q3]; exact q1, by rw [e3, e6]; exact q2⟩
    · refine Or.inl ⟨e1, e2, ?_⟩
      cases f with
      | none => exact e2
      | some t =>
        obtain ⟨r, X, Z⟩ := t
        by_cases hir : i = r
        · subst hir; simp only [Focus.x, if_true]; exact p.foc i X Z rfl hnone
        · simp only [Focus.x, hir, if_false]; exact e2
  · intro r X Z hf hn
    refine p.foc r X Z hf ?_
    rcases Nat.lt_or_ge r s.resps.length with h' | h'
    · have := Nat.lt_of_lt_of_le h' h.rlen
      rw [List.getElem?_eq_getElem this] at hn; cases hn
    · exact List.getElem?_eq_none h'

/-! ### the primitive transformations are `Safe` -/

theorem safe_core {s s' : State} (h1 : s'.conns = s.conns) (h2 : s'.resps = s.resps) (h3 : s'.socks = s.socks) :
    Safe s s' := by
  refine ⟨by rw [h3]; exact Nat.le_refl _, by rw [h2]; exact Nat.le_refl _, st_of_eq h2, ?_, ?_, ?_, hd_of_eq h3, fin_of_eq h3, eo_of_eq h2⟩
  · intro i rs' k sk _ _ h; exact ⟨sk, by rw [h3]; exact h, rfl⟩
  · intro i rs' h; rw [h2] at h; exact Or.inl ⟨rs', h, rfl, rfl, rfl, Or.inr ⟨rfl, rfl, rfl, rfl⟩⟩
  · intro c cn' k h1' h2'; rw [h1] at h1'; exact Or.inl ⟨cn', h1', h2', Or.inl rfl⟩

theorem logEv_safe (s : State) (e : Ev) : Safe s (logEv s e) := safe_core rfl rfl rfl

theorem noteClose_safe (s : State) (k : Nat) : Safe s (noteClose s k) := by
  unfold noteClose; split
  · exact Safe.refl _
  · exact logEv_safe _ _

theorem setResp_safe (s : State) (r : Nat) (g : Resp → Resp)
    (hg : ∀ x, (g x).rid = x.rid ∧ (g x).delivered = x.delivered ∧ (g x).isHead = x.isHead ∧
      ((g x).fp = none ∨ ((g x).fp = x.fp ∧ (g x).buf = x.buf ∧ (g x).length = x.length ∧ respPos (g x) = respPos x)))
    (hst : ∀ x, (g x).status = x.status ∧ (g x).length = x.length ∧ (g x).chunked = x.chunked := by intro x; exact ⟨rfl, rfl, rfl⟩)
    (heo : ∀ x, (g x).eofAt = x.eofAt := by intro x; rfl) :
    Safe s (setResp s r g) := by
  refine ⟨Nat.le_refl _, by simp [setResp], ?_, ?_, ?_, ?_, hd_of_eq rfl, fin_of_eq rfl, ?_⟩
  rotate_right
  · intro i rs' k h1 h2
    simp only [setResp, List.getElem?_modify] at h1
    cases hx : s.resps[i]? with
    | none => simp [hx] at h1
    | some x =>
      simp [hx] at h1
      left
      by_cases hri : r = i
      · simp [hri] at h1; subst h1; exact ⟨x, rfl, by rw [← heo x]; exact h2⟩
      · simp [hri] at h1; subst h1; exact ⟨x, rfl, h2⟩
  · intro i rs rs' h1 h2
    simp only [setResp, List.getElem?_modify, h1] at h2
    by_cases hri : r = i
    · simp [hri] at h2; subst h2; exact hst rs
    · simp [hri] at h2; subst h2; exact ⟨rfl, rfl, rfl⟩
  · intro i rs' k sk _ _ h; exact ⟨sk, h, rfl⟩
  · intro i rs' h
    simp only [setResp, List.getElem?_modify] at h
    cases hx : s.resps[i]? with
    | none => simp [hx] at h
    | some x =>
      simp [hx] at h
      left
      refine ⟨x, rfl, ?_⟩
      by_cases hri : r = i
      · simp [hri] at h; subst h; exact hg x
      · simp [hri] at h; subst h; exact ⟨rfl, rfl, rfl, Or.inr ⟨rfl, rfl, rfl, rfl⟩⟩
  · intro c cn' k h1 h2; exact Or.inl ⟨cn', h1, h2, Or.inl rfl⟩

theorem setConn_safe (s : State) (c : Nat) (g : Conn → Conn)
    (hg : ∀ x, (g x).sock = none ∨ ((g x).sock = x.sock ∧ (g x).pending = x.pending)) :
    Safe s (setConn s c g) := by
  refine ⟨Nat.le_refl _, Nat.le_refl _, st_of_eq rfl, ?_, ?_, ?_, hd_of_eq rfl, fin_of_eq rfl, eo_of_eq rfl⟩
  · intro i rs' k sk _ _ h; exact ⟨sk, h, rfl⟩
  · intro i rs' h; exact Or.inl ⟨rs', h, rfl, rfl, rfl, Or.inr ⟨rfl, rfl, rfl, rfl⟩⟩
  · intro c' cn' k h1 h2
    simp only [setConn, List.getElem?_modify] at h1
    cases hx : s.conns[c']? with
    | none => simp [hx] at h1
    | some x =>
      simp [hx] at h1
      left
      by_cases hcc : c = c'
      · simp [hcc] at h1; subst h1
        rcases hg x with h' | ⟨h', h''⟩
        · rw [h'] at h2; cases h2
        · exact ⟨x, rfl, by rw [← h']; exact h2, Or.inl h''⟩
      · simp [hcc] at h1; subst h1; exact ⟨x, rfl, h2, Or.inl rfl⟩

/-- forgetting a `__response` that is closed -/
theorem forget_safe {A : Nat → Attempt → Prop} {f : Focus} {s : State} (p : ProvF A s f) (c : Nat) :
    Safe s (forgetClosedPending s c) := by
  unfold forgetClosedPending
  split
  · exact Safe.refl _
  · rename_i cn hcn
    split
    · exact Safe.refl _
    · rename_i r hr
      split
      · exact Safe.refl _
      · rename_i rs hrs
        split
        · rename_i hfp
          refine ⟨Nat.le_refl _, Nat.le_refl _, st_of_eq rfl, ?_, ?_, ?_, hd_of_eq rfl, fin_of_eq rfl, eo_of_eq rfl⟩
          · intro i rs' k sk _ _ h; exact ⟨sk, h, rfl⟩
          · intro i rs' h; exact Or.inl ⟨rs', h, rfl, rfl, rfl, Or.inr ⟨rfl, rfl, rfl, rfl⟩⟩
          · intro c' cn' k h1 h2
            simp only [setConn, List.getElem?_modify] at h1
            cases hx : s.conns[c']? with
            | none => simp [hx] at h1
            | some x =>
              simp [hx] at h1
              left
              by_cases hcc : c = c'
              · simp [hcc] at h1; subst h1; subst hcc
                refine ⟨x, rfl, h2, ?_⟩
                right
                intro i ri hi hk
                have := p.pend i ri c x k hi hk hx h2
                rw [hcn] at hx; cases hx
                rw [hr] at this; cases this
                have hi' : s.resps[r]? = some ri := hi
                rw [hrs] at hi'; cases hi'
                rw [hk] at hfp; simp at hfp
              · simp [hcc] at h1; subst h1; exact ⟨x, rfl, h2, Or.inl rfl⟩
        · exact Safe.refl _

theorem closeFp_safe (s : State) (r : Nat) : Safe s (closeFp s r) := by
  unfold closeFp
  split
  · exact Safe.refl _
  · split
    · exact Safe.refl _
    · exact (setResp_safe s r (fun x => { x with fp := none, buf := [] }) (fun x => ⟨rfl, rfl, rfl, Or.inl rfl⟩)).trans (noteClose_safe _ _)

theorem connClose_safe (s : State) (c : Nat) : Safe s (connClose s c) := by
  unfold connClose
  split
  · exact Safe.refl _
  · have h1 : Safe s (setConn s c fun x => { x with sock := none, http := .idle, pending := none, proxyConnected := false }) :=
      setConn_safe s c _ (fun _ => Or.inl rfl)
    refine h1.trans ?_
    split <;> split <;>
      first
        | exact (noteClose_safe _ _).trans (closeFp_safe _ _)
        | exact noteClose_safe _ _
        | exact closeFp_safe _ _
        | exact Safe.refl _

theorem queue_safe (s : State) (q : List (Option Nat)) : Safe s { s with queue := q } := safe_core rfl rfl rfl

theorem putConn_safe (s : State) (c : Option Nat) : Safe s (putConn s c).1 := by
  have h0 : Safe s (logEv s (.put c)) := logEv_safe _ _
  refine h0.trans ?_
  unfold putConn
  generalize logEv s (.put c) = t
  simp only
  split
  · split
    · exact queue_safe _ _
    · cases c with
      | none => split <;> exact Safe.refl _
      | some i => split
                  · exact connClose_safe _ _
                  · exact (connClose_safe _ _).trans (connClose_safe _ _)
  · cases c with
    | none => exact Safe.refl _
    | some i => exact connClose_safe _ _

theorem releaseConn_safe (s : State) (r : Nat) : Safe s (releaseConn s r).1 := by
  unfold releaseConn
  split
  · exact Safe.refl _
  · split
    · exact Safe.refl _
    · split
      · exact Safe.refl _
      · rename_i c _
        have := putConn_safe s (some c)
        split
        · rename_i h; rw [h] at this; exact this
        · rename_i h; rw [h] at this
          exact this.trans (setResp_safe _ r _ (fun x => ⟨rfl, rfl, rfl, Or.inr ⟨rfl, rfl, rfl, rfl⟩⟩))

theorem respClose_safe (s : State) (r : Nat) : Safe s (respClose s r) := by
  unfold respClose
  refine (closeFp_safe s r).trans ?_
  dsimp only
  generalize closeFp s r = t
  split
  · exact Safe.refl _
  · split
    · exact connClose_safe _ _
    · exact Safe.refl _

theorem errorCatcherExit_safe (s : State) (r : Nat) (clean : Bool) : Safe s (errorCatcherExit s r clean).1 := by
  have h2 : ∀ t : State, Safe t (if respFpClosed t r then releaseConn t r else (t, none)).1 := by
    intro t; split
    · exact releaseConn_safe _ _
    · exact Safe.refl _
  unfold errorCatcherExit
  cases clean with
  | true => exact h2 s
  | false => exact (respClose_safe s r).trans (h2 _)

theorem discard_safe (s : State) (c : Option Nat) : Safe s (discard s c).1 := by
  unfold discard
  cases c with
  | none => exact Safe.refl _
  | some i => exact (connClose_safe s i).trans (putConn_safe _ _)

theorem markReturned_safe (s : State) (r : Nat) : Safe s (markReturned s r) :=
  setResp_safe s r _ (fun x => ⟨rfl, rfl, rfl, Or.inr ⟨rfl, rfl, rfl, rfl⟩⟩)

theorem appendConn_safe (s : State) (x : Conn) (hx : x.sock = none) : Safe s { s with conns := s.conns ++ [x] } := by
  refine ⟨Nat.le_refl _, Nat.le_refl _, st_of_eq rfl, ?_, ?_, ?_, hd_of_eq rfl, fin_of_eq rfl, eo_of_eq rfl⟩
  · intro i rs' k sk _ _ h; exact ⟨sk, h, rfl⟩
  · intro i rs' h; exact Or.inl ⟨rs', h, rfl, rfl, rfl, Or.inr ⟨rfl, rfl, rfl, rfl⟩⟩
  · intro c cn' k h1 h2
    simp only [List.getElem?_append] at h1
    split at h1
    · exact Or.inl ⟨cn', h1, h2, Or.inl rfl⟩
    · have : cn' = x := by
        cases hh : [x][c - s.conns.length]? with
        | none => rw [hh] at h1; cases h1
        | some y =>
          rw [hh] at h1; cases h1
          have := List.mem_of_getElem? hh
          simpa using this
      subst this; rw [hx] at h2; cases h2

theorem newConn_safe (s : State) : Safe s (newConn s).1 := appendConn_safe s {} rfl

theorem appendSock_safe (s : State) (x : Sock) (hx : x.held = []) : Safe s { s with socks := s.socks ++ [x] } := by
  refine ⟨by simp, Nat.le_refl _, st_of_eq rfl, ?_, ?_, ?_, ?_, ?fin, eo_of_eq rfl⟩
  case fin =>
    intro k ⟨sk, h1, h2⟩
    have hk : k < s.socks.length := by
      rcases Nat.lt_or_ge k s.socks.length with h' | h'
      · exact h'
      · rw [List.getElem?_eq_none h'] at h1; cases h1
    exact ⟨sk, by show (s.socks ++ [x])[k]? = some sk; rw [List.getElem?_append_left hk]; exact h1, h2⟩
  rotate_right
  · intro k sk' h1
    have h1' : (s.socks ++ [x])[k]? = some sk' := h1
    rw [List.getElem?_append] at h1'
    split at h1'
    · exact Or.inl ⟨sk', h1', rfl⟩
    · right
      have : sk' = x := by
        cases hh : [x][k - s.socks.length]? with
        | none => rw [hh] at h1'; cases h1'
        | some y =>
          rw [hh] at h1'; cases h1'
          have := List.mem_of_getElem? hh
          simpa using this
      subst this; rw [hx]; intro c hc; cases hc
  · intro i rs' k sk _ _ h
    refine ⟨sk, ?_, rfl⟩
    have hk : k < s.socks.length := by
      rcases Nat.lt_or_ge k s.socks.length with h' | h'
      · exact h'
      · rw [List.getElem?_eq_none h'] at h; cases h
    show (s.socks ++ [x])[k]? = some sk
    rw [List.getElem?_append_left hk]; exact h
  · intro i rs' h; exact Or.inl ⟨rs', h, rfl, rfl, rfl, Or.inr ⟨rfl, rfl, rfl, rfl⟩⟩
  · intro c cn' k h1 h2; exact Or.inl ⟨cn', h1, h2, Or.inl rfl⟩

/-- touching a socket without changing its kernel buffer, or a socket nobody reads from -/
theorem setSock_safe (s : State) (k : Nat) (g : Sock → Sock) (hg : (∀ x, (g x).inbound = x.inbound) ∨ NoReader s k)
    (hh : ∀ x, (g x).held = x.held ∨ NoHd (g x).held := by intro x; exact Or.inl rfl)
    (hf : (∀ x : Sock, x.after = .fin → (g x).after = .fin) ∨ ¬ FinAt s k := by left; intro x h; exact h) :
    Safe s (setSock s k g) := by
  refine ⟨by simp [setSock], Nat.le_refl _, st_of_eq rfl, ?_, ?_, ?_, ?_, ?fin, eo_of_eq rfl⟩
  case fin =>
    intro k' ⟨sk, h1, h2⟩
    by_cases hkk : k = k'
    · subst hkk
      rcases hf with hf | hf
      · exact ⟨g sk, by simp [setSock, List.getElem?_modify, h1], hf sk h2⟩
      · exact absurd ⟨sk, h1, h2⟩ hf
    · exact ⟨sk, by simp [setSock, List.getElem?_modify, h1, hkk], h2⟩
  rotate_right
  · intro k' sk' h1
    simp only [setSock, List.getElem?_modify] at h1
    cases hx : s.socks[k']? with
    | none => simp [hx] at h1
    | some x =>
      simp [hx] at h1
      by_cases hkk : k = k'
      · simp [hkk] at h1; subst h1
        rcases hh x with e | e
        · exact Or.inl ⟨x, rfl, e⟩
        · exact Or.inr e
      · simp [hkk] at h1; subst h1; exact Or.inl ⟨x, rfl, rfl⟩
  · intro i rs' k' sk h1 h2 h
    simp only [setSock, List.getElem?_modify, h]
    by_cases hkk : k = k'
    · subst hkk
      rcases hg with hg | hg
      · exact ⟨g sk, by simp, hg sk⟩
      · exact absurd h2 (hg i rs' h1)
    · exact ⟨sk, by simp [hkk], rfl⟩
  · intro i rs' h; exact Or.inl ⟨rs', h, rfl, rfl, rfl, Or.inr ⟨rfl, rfl, rfl, rfl⟩⟩
  · intro c cn' k h1 h2; exact Or.inl ⟨cn', h1, h2, Or.inl rfl⟩

theorem getConn_safe (s : State) : Safe s (getConn s).1 := by
  unfold getConn
  split
  · exact Safe.refl _
  · split
    · split
      · exact Safe.refl _
      · exact newConn_safe s
    · rename_i item rest _
      cases item with
      | none => exact (queue_safe s rest).trans (newConn_safe _)
      | some c =>
        simp only
        split
        · exact (queue_safe s rest).trans (connClose_safe _ _)
        · exact queue_safe s rest

theorem foldClose_safe (q : List (Option Nat)) (s : State) :
    Safe s (q.foldl (fun acc item => match item with
      | some c => connClose acc c
      | none => acc) s) := by
  induction q generalizing s with
  | nil => exact Safe.refl _
  | cons a t ih =>
    simp only [List.foldl_cons]
    cases a with
    | none => exact ih s
    | some c => exact (connClose_safe s c).trans (ih _)

theorem closePool_safe (s : State) : Safe s (closePool s) := by
  unfold closePool
  split
  · exact Safe.refl _
  · exact Safe.trans (t := { s with queue := [], closed := true }) (safe_core rfl rfl rfl) (foldClose_safe _ _)

/-! ## reading -/

theorem respFpClosed_iff (s : State) (r : Nat) :
    respFpClosed s r = true ↔ ∀ rs, s.resps[r]? = some rs → rs.fp = none := by
  unfold respFpClosed
  cases h : s.resps[r]? with
  | none => simp
  | some rs => cases h' : rs.fp <;> simp [h']

theorem Safe.closed {s s' : State} (h : Safe s s') {r : Nat} (hc : respFpClosed s r = true) : respFpClosed s' r = true := by
  rw [respFpClosed_iff] at hc ⊢
  intro rs' h1
  rcases h.rs r rs' h1 with ⟨rs, h0, _, _, _, e⟩ | ⟨_, e, _⟩
  · rcases e with e | ⟨e, _, _⟩
    · exact e
    · rw [e]; exact hc rs h0
  · exact e

theorem closeFp_closed (s : State) (r : Nat) : respFpClosed (closeFp s r) r = true := by
  rw [respFpClosed_iff]
  intro rs h
  unfold closeFp at h
  split at h
  · rename_i h0; rw [h0] at h; cases h
  · rename_i x h0
    split at h
    · rename_i h1; rw [h0] at h; cases h; exact h1
    · have h' : (setResp s r fun x => { x with fp := none, buf := [] }).resps[r]? = some rs := by
        unfold noteClose at h; split at h <;> exact h
      simp [setResp, List.getElem?_modify, h0] at h'
      rw [← h']

/-- reader `r` pulled bytes out of socket `k`: together, the kernel buffer and the private buffer
lost exactly `m` at the front; nothing else changed -/
structure ReadRel (r k : Nat) (s s' : State) (m : List Cell) : Prop where
  conns : s'.conns = s.conns
  rlen : s'.resps.length = s.resps.length
  slen : s'.socks.length = s.socks.length
  rother : ∀ i, i ≠ r → s'.resps[i]? = s.resps[i]?
  sother : ∀ j, j ≠ k → s'.socks[j]? = s.socks[j]?
  rsame : ∀ rs : Resp, s.resps[r]? = some rs → ∃ b, s'.resps[r]? = some { rs with buf := b }
  stream : ∀ (rs : Resp) (sk : Sock), s.resps[r]? = some rs → s.socks[k]? = some sk →
    ∃ (rs' : Resp) (sk' : Sock), s'.resps[r]? = some rs' ∧ s'.socks[k]? = some sk' ∧
      m ++ rs'.buf ++ sk'.inbound = rs.buf ++ sk.inbound
  hsame : ∀ sk : Sock, s.socks[k]? = some sk → ∃ sk' : Sock, s'.socks[k]? = some sk' ∧ sk'.held = sk.held ∧
    (sk.after = .fin → sk'.after = .fin)

theorem ReadRel.refl (r k : Nat) (s : State) : ReadRel r k s s [] := by
  refine ⟨rfl, rfl, rfl, fun _ _ => rfl, fun _ _ => rfl, fun rs h => ⟨rs.buf, h⟩, ?_, fun sk h => ⟨sk, h, rfl, id⟩⟩
  intro rs sk h1 h2; exact ⟨rs, sk, h1, h2, rfl⟩

theorem ReadRel.trans {r k : Nat} {s t u : State} {m1 m2 : List Cell} (a : ReadRel r k s t m1) (b : ReadRel r k t u m2) :
    ReadRel r k s u (m1 ++ m2) := by
  refine ⟨by rw [b.conns, a.conns], by rw [b.rlen, a.rlen], by rw [b.slen, a.slen],
    fun i hi => by rw [b.rother i hi, a.rother i hi], fun j hj => by rw [b.sother j hj, a.sother j hj], ?_, ?_, ?_⟩
  rotate_right
  · intro sk h
    obtain ⟨sk1, g1, g2, g2'⟩ := a.hsame sk h
    obtain ⟨sk2, g3, g4, g4'⟩ := b.hsame sk1 g1
    exact ⟨sk2, g3, by rw [g4, g2], fun hf => g4' (g2' hf)⟩
  · intro rs h
    obtain ⟨b1, h1⟩ := a.rsame rs h
    obtain ⟨b2, h2⟩ := b.rsame _ h1
    exact ⟨b2, h2⟩
  · intro rs sk h1 h2
    obtain ⟨rt, st, e1, e2, e3⟩ := a.stream rs sk h1 h2
    obtain ⟨ru, su, f1, f2, f3⟩ := b.stream rt st e1 e2
    refine ⟨ru, su, f1, f2, ?_⟩
    rw [← e3]; simp only [List.append_assoc] at f3 ⊢; rw [f3]

theorem logEv_readRel (r k : Nat) (s : State) (e : Ev) : ReadRel r k s (logEv s e) [] := by
  refine ⟨rfl, rfl, rfl, fun _ _ => rfl, fun _ _ => rfl, fun rs h => ⟨rs.buf, h⟩, ?_, fun sk h => ⟨sk, h, rfl, id⟩⟩
  intro rs sk h1 h2; exact ⟨rs, sk, h1, h2, rfl⟩

/-- a `recv`: bytes move from the kernel buffer to the private buffer -/
theorem recvInto_rel (s : State) (r k room : Nat) : ReadRel r k s (recvInto s r k room).1 [] := by
  have h0 := logEv_readRel r k s (.recv k)
  have : ([] : List Cell) = [] ++ [] := rfl
  rw [this]
  refine h0.trans ?_
  unfold recvInto
  generalize logEv s (.recv k) = t
  simp only
  split
  · exact ReadRel.refl _ _ _
  · rename_i sk hsk
    have hafter : ∀ a : After, sk.after ≠ .fin → ReadRel r k t (setSock t k fun x => { x with after := a }) [] := by
      intro a hnf
      refine ⟨rfl, rfl, by simp [setSock], fun _ _ => rfl, ?_, fun rs h => ⟨rs.buf, h⟩, ?_, ?_⟩
      rotate_right
      · intro sk' h; rw [hsk] at h; cases h
        exact ⟨{ sk with after := a }, by simp [setSock, List.getElem?_modify, hsk], rfl, fun hf => absurd hf hnf⟩
      · intro j hj; simp [setSock, List.getElem?_modify, Ne.symm hj]
      · intro rs sk' h1 h2
        refine ⟨rs, { sk' with after := a }, h1, ?_, rfl⟩
        simp [setSock, List.getElem?_modify, h2]
    split
    · split
      · exact ReadRel.refl _ _ _
      · exact ReadRel.refl _ _ _
      · rename_i haf; exact hafter _ (by rw [haf]; simp)
      · rename_i haf; exact hafter _ (by rw [haf]; simp)
    · rename_i c cs hin
      simp only
      generalize (if sk.seg = 0 then room else min sk.seg room) = n
      refine ⟨rfl, by simp [setResp, setSock], by simp [setResp, setSock], ?_, ?_, ?_, ?_, ?_⟩
      rotate_right
      · intro sk' h; rw [hsk] at h; cases h
        exact ⟨{ sk with inbound := sk.inbound.drop n }, by simp [setResp, setSock, List.getElem?_modify, hsk], rfl, id⟩
      · intro i hi; simp [setResp, setSock, List.getElem?_modify, Ne.symm hi]
      · intro j hj; simp [setResp, setSock, List.getElem?_modify, Ne.symm hj]
      · intro rs h; exact ⟨rs.buf ++ sk.inbound.take n, by simp [setResp, setSock, List.getElem?_modify, h]⟩
      · intro rs sk' h1 h2
        rw [hsk] at h2; cases h2
        refine ⟨{ rs with buf := rs.buf ++ sk.inbound.take n }, { sk with inbound := sk.inbound.drop n }, ?_, ?_, ?_⟩
        · simp [setResp, setSock, List.getElem?_modify, h1]
        · simp [setResp, setSock, List.getElem?_modify, hsk]
        · simp

/-- bytes leave the private buffer (towards the caller) -/
theorem setBuf_rel (r k : Nat) (s : State) (rs : Resp) (m : List Cell) (g : Resp → List Cell)
    (h : s.resps[r]? = some rs) (hb : rs.buf = m ++ g rs) :
    ReadRel r k s (setResp s r fun x => { x with buf := g x }) m := by
  refine ⟨rfl, by simp [setResp], rfl, ?_, fun _ _ => rfl, ?_, ?_, fun sk h => ⟨sk, h, rfl, id⟩⟩
  · intro i hi; simp [setResp, List.getElem?_modify, Ne.symm hi]
  · intro rs' h'; rw [h] at h'; cases h'
    exact ⟨g rs, by simp [setResp, List.getElem?_modify, h]⟩
  · intro rs' sk h1 h2; rw [h] at h1; cases h1
    exact ⟨{ rs with buf := g rs }, sk, by simp [setResp, List.getElem?_modify, h], h2, by simp [hb]⟩

theorem fpRead_rel : ∀ (fuel : Nat) (s : State) (r k n : Nat) (acc : List Cell) (s' : State) (out : DataOut),
    fpRead fuel s r k n acc = (s', out) →
    ∃ m, ReadRel r k s s' m ∧ m.length ≤ n ∧ ∀ d, out = .data d → d = acc ++ m := by
  intro fuel
  induction fuel with
  | zero =>
    intro s r k n acc s' out h
    simp [fpRead] at h
    obtain ⟨rfl, rfl⟩ := h
    exact ⟨[], ReadRel.refl _ _ _, by simp, by intro d hd; cases hd; simp⟩
  | succ fuel ih =>
    intro s r k n acc s' out h
    unfold fpRead at h
    split at h
    · simp at h
      obtain ⟨rfl, rfl⟩ := h
      exact ⟨[], ReadRel.refl _ _ _, by simp, by intro d hd; cases hd; simp⟩
    · rename_i rs hrs
      split at h
      · rename_i hn
        simp at h
        obtain ⟨rfl, rfl⟩ := h
        refine ⟨rs.buf.take n, setBuf_rel r k s rs _ (fun x => x.buf.drop n) hrs (List.take_append_drop n rs.buf).symm, ?_, ?_⟩
        · simp; omega
        · intro d hd; cases hd; rfl
      · rename_i hn
        have r1 := setBuf_rel r k s rs rs.buf (fun _ => []) hrs (by simp)
        simp only at h
        generalize hs1 : (setResp s r fun x => { x with buf := [] }) = s1 at h r1
        have r2 := recvInto_rel s1 r k bufSize
        generalize hrv : recvInto s1 r k bufSize = res at h r2
        obtain ⟨s2, o⟩ := res
        have r12 := r1.trans r2
        cases o with
        | got =>
          simp only at h
          obtain ⟨m, rm, hl, hd⟩ := ih s2 r k (n - rs.buf.length) (acc ++ rs.buf) s' out h
          refine ⟨rs.buf ++ m, ?_, ?_, ?_⟩
          · have := r12.trans rm; simpa using this
          · simp; omega
          · intro d hd'; rw [hd d hd']; simp
        | eof =>
          simp at h
          obtain ⟨rfl, rfl⟩ := h
          refine ⟨rs.buf, by simpa using r12, by omega, ?_⟩
          intro d hd; cases hd; rfl
        | exc e =>
          simp at h
          obtain ⟨rfl, rfl⟩ := h
          refine ⟨rs.buf, by simpa using r12, by omega, ?_⟩
          intro d hd; cases hd

theorem fpReadAll_rel : ∀ (fuel : Nat) (s : State) (r k : Nat) (acc : List Cell) (s' : State) (out : DataOut),
    fpReadAll fuel s r k acc = (s', out) →
    ∃ m, ReadRel r k s s' m ∧ ∀ d, out = .data d → d = acc ++ m := by
  intro fuel
  induction fuel with
  | zero =>
    intro s r k acc s' out h
    simp [fpReadAll] at h
    obtain ⟨rfl, rfl⟩ := h
    exact ⟨[], ReadRel.refl _ _ _, by intro d hd; cases hd; simp⟩
  | succ fuel ih =>
    intro s r k acc s' out h
    unfold fpReadAll at h
    split at h
    · simp at h
      obtain ⟨rfl, rfl⟩ := h
      exact ⟨[], ReadRel.refl _ _ _, by intro d hd; cases hd; simp⟩
    · rename_i rs hrs
      have r1 := setBuf_rel r k s rs rs.buf (fun _ => []) hrs (by simp)
      simp only at h
      generalize hs1 : (setResp s r fun x => { x with buf := [] }) = s1 at h r1
      have r2 := recvInto_rel s1 r k bufSize
      generalize hrv : recvInto s1 r k bufSize = res at h r2
      obtain ⟨s2, o⟩ := res
      have r12 := r1.trans r2
      cases o with
      | got =>
        simp only at h
        obtain ⟨m, rm, hd⟩ := ih s2 r k (acc ++ rs.buf) s' out h
        refine ⟨rs.buf ++ m, ?_, ?_⟩
        · have := r12.trans rm; simpa using this
        · intro d hd'; rw [hd d hd']; simp
      | eof =>
        simp at h
        obtain ⟨rfl, rfl⟩ := h
        refine ⟨rs.buf, by simpa using r12, ?_⟩
        intro d hd; cases hd; rfl
      | exc e =>
        simp at h
        obtain ⟨rfl, rfl⟩ := h
        refine ⟨rs.buf, by simpa using r12, ?_⟩
        intro d hd; cases hd

/-! ### moving the focus -/

theorem provF_refocus {A : Nat → Attempt → Prop} {s : State} {f g : Focus} (p : ProvF A s f)
    (h : ∀ i rs, s.resps[i]? = some rs → RespOk A s rs (f.x i rs) (f.z i rs) → RespOk A s rs (g.x i rs) (g.z i rs))
    (hg : ∀ r X Z, g = some (r, X, Z) → s.resps[r]? = none → X = []) :
    ProvF A s g :=
  ⟨p.sockB, p.fpB, p.sockInj, p.pend, p.fpInj, fun i rs hi => h i rs hi (p.resp i rs hi), hg, p.heldB, p.eofB⟩

theorem respOk_closed {A : Nat → Attempt → Prop} {s : State} {rs : Resp} {X Z : List Cell} (X' Z' : List Cell)
    (h : RespOk A s rs X Z) (hc : rs.fp = none) (hx : X' = X ∨ X' = rs.delivered) : RespOk A s rs X' Z' := by
  rcases h with ⟨h1, h2, h3⟩ | ⟨a, hd, fr⟩
  · refine Or.inl ⟨h1, h2, ?_⟩
    rcases hx with rfl | rfl
    · exact h3
    · exact h2
  · right
    refine ⟨a, hd, ⟨fr.att, fr.head, fr.st, fr.ch, fr.dpre, fr.dlen, ?_, ?_, ?_⟩⟩
    · rcases hx with rfl | rfl
      · exact fr.xpre
      · exact fr.dpre
    · rcases hx with rfl | rfl
      · exact fr.xlen
      · exact fr.dlen
    · intro k hk; rw [hc] at hk; cases hk

def delivOf (s : State) (r : Nat) : List Cell :=
  match s.resps[r]? with
  | some rs => rs.delivered
  | none => []

theorem focus_intro {A : Nat → Attempt → Prop} {s : State} (p : Prov A s) (r : Nat) :
    ProvF A s (some (r, delivOf s r, delivOf s r)) := by
  refine provF_refocus p ?_ ?_
  · intro i rs hi h
    by_cases hir : i = r
    · subst hir
      simpa [Focus.x, Focus.z, delivOf, hi] using h
    · simpa [Focus.x, Focus.z, hir] using h
  · intro r' X Z h hn
    cases h
    simp [delivOf, hn]

/-- once the focused reader is closed the focus can be dropped -/
theorem closed_unfocus {A : Nat → Attempt → Prop} {s : State} {r : Nat} {X Z : List Cell}
    (p : ProvF A s (some (r, X, Z))) (hc : respFpClosed s r = true) : Prov A s := by
  rw [respFpClosed_iff] at hc
  refine provF_refocus p ?_ (by intro _ _ _ h; cases h)
  intro i rs hi h
  by_cases hir : i = r
  · subst hir
    simp only [Focus.x, Focus.z, if_true] at h ⊢
    exact respOk_closed _ _ h (hc rs hi) (Or.inr rfl)
  · simpa [Focus.x, Focus.z, hir] using h

theorem closed_refocus {A : Nat → Attempt → Prop} {s : State} {r : Nat} {X Z : List Cell} (Z' : List Cell)
    (p : ProvF A s (some (r, X, Z))) (hc : respFpClosed s r = true) : ProvF A s (some (r, X, Z')) := by
  rw [respFpClosed_iff] at hc
  refine provF_refocus p ?_ (by intro r' X' Z'' h hn; cases h; exact p.foc _ _ _ rfl hn)
  intro i rs hi h
  by_cases hir : i = r
  · subst hir
    simp only [Focus.x, Focus.z, if_true] at h ⊢
    exact respOk_closed _ _ h (hc rs hi) (Or.inl rfl)
  · simpa [Focus.x, Focus.z, hir] using h

/-! ### consumption by the focused reader -/

theorem prefix_drop_of_append {m y R : List Cell} (h : m ++ y <+: R) : y <+: R.drop m.length := by
  obtain ⟨t, ht⟩ := h
  refine ⟨t, ?_⟩
  rw [← ht]; simp

theorem prefix_of_append_prefix {m y R : List Cell} (h : m ++ y <+: R) : m <+: R := by
  obtain ⟨t, ht⟩ := h
  exact ⟨y ++ t, by rw [← ht]; simp⟩

/-- like `ReadRel`, but the chunk-parser fields of reader `r` may have changed too -/
structure ReadRelP (r k : Nat) (s s' : State) (m : List Cell) : Prop where
  conns : s'.conns = s.conns
  rlen : s'.resps.length = s.resps.length
  slen : s'.socks.length = s.socks.length
  rother : ∀ i, i ≠ r → s'.resps[i]? = s.resps[i]?
  sother : ∀ j, j ≠ k → s'.socks[j]? = s.socks[j]?
  rsame : ∀ rs : Resp, s.resps[r]? = some rs → ∃ rs' : Resp, s'.resps[r]? = some rs' ∧ rs'.rid = rs.rid ∧
    rs'.delivered = rs.delivered ∧ rs'.isHead = rs.isHead ∧ rs'.fp = rs.fp ∧ rs'.status = rs.status ∧
    rs'.chunked = rs.chunked ∧ rs'.length = rs.length ∧ rs'.conn = rs.conn ∧ rs'.hasPool = rs.hasPool ∧
    rs'.eofAt = rs.eofAt
  stream : ∀ (rs : Resp) (sk : Sock), s.resps[r]? = some rs → s.socks[k]? = some sk →
    ∃ (rs' : Resp) (sk' : Sock), s'.resps[r]? = some rs' ∧ s'.socks[k]? = some sk' ∧
      m ++ rs'.buf ++ sk'.inbound = rs.buf ++ sk.inbound
  hsame : ∀ sk : Sock, s.socks[k]? = some sk → ∃ sk' : Sock, s'.socks[k]? = some sk' ∧ sk'.held = sk.held ∧
    (sk.after = .fin → sk'.after = .fin)

theorem ReadRel.toP {r k : Nat} {s s' : State} {m : List Cell} (h : ReadRel r k s s' m) : ReadRelP r k s s' m :=
  ⟨h.conns, h.rlen, h.slen, h.rother, h.sother,
    fun rs hr => by obtain ⟨b, hb⟩ := h.rsame rs hr; exact ⟨_, hb, rfl, rfl, rfl, rfl, rfl, rfl, rfl, rfl, rfl, rfl⟩,
    h.stream, h.hsame⟩

theorem ReadRelP.refl (r k : Nat) (s : State) : ReadRelP r k s s [] := (ReadRel.refl r k s).toP

theorem ReadRelP.trans {r k : Nat} {s t u : State} {m1 m2 : List Cell} (a : ReadRelP r k s t m1) (b : ReadRelP r k t u m2) :
    ReadRelP r k s u (m1 ++ m2) := by
  refine ⟨by rw [b.conns, a.conns], by rw [b.rlen, a.rlen], by rw [b.slen, a.slen],
    fun i hi => by rw [b.rother i hi, a.rother i hi], fun j hj => by rw [b.sother j hj, a.sother j hj], ?_, ?_, ?_⟩
  · intro rs h
    obtain ⟨r1, h1, a1, a2, a3, a4, a5, a6, a7, a8, a9, a10⟩ := a.rsame rs h
    obtain ⟨r2, h2, b1, b2, b3, b4, b5, b6, b7, b8, b9, b10⟩ := b.rsame r1 h1
    exact ⟨r2, h2, by rw [b1, a1], by rw [b2, a2], by rw [b3, a3], by rw [b4, a4], by rw [b5, a5], by rw [b6, a6],
      by rw [b7, a7], by rw [b8, a8], by rw [b9, a9], by rw [b10, a10]⟩
  · intro rs sk h1 h2
    obtain ⟨rt, st, e1, e2, e3⟩ := a.stream rs sk h1 h2
    obtain ⟨ru, su, f1, f2, f3⟩ := b.stream rt st e1 e2
    refine ⟨ru, su, f1, f2, ?_⟩
    rw [← e3]; simp only [List.append_assoc] at f3 ⊢; rw [f3]
  · intro sk h
    obtain ⟨sk1, g1, g2, g2'⟩ := a.hsame sk h
    obtain ⟨sk2, g3, g4, g4'⟩ := b.hsame sk1 g1
    exact ⟨sk2, g3, by rw [g4, g2], fun hf => g4' (g2' hf)⟩

/-- updating the chunk-parser fields of reader `r` -/
theorem setParse_relP (r k : Nat) (s : State) (g : Resp → Resp)
    (hg : ∀ x, (g x).rid = x.rid ∧ (g x).delivered = x.delivered ∧ (g x).isHead = x.isHead ∧ (g x).fp = x.fp ∧
      (g x).status = x.status ∧ (g x).chunked = x.chunked ∧ (g x).length = x.length ∧ (g x).conn = x.conn ∧
      (g x).hasPool = x.hasPool ∧ (g x).buf = x.buf)
    (heo : ∀ x, (g x).eofAt = x.eofAt := by intro x; rfl) :
    ReadRelP r k s (setResp s r g) [] := by
  refine ⟨rfl, by simp [setResp], rfl, ?_, fun _ _ => rfl, ?_, ?_, fun sk h => ⟨sk, h, rfl, id⟩⟩
  · intro i hi; simp [setResp, List.getElem?_modify, Ne.symm hi]
  · intro rs h
    obtain ⟨g1, g2, g3, g4, g5, g6, g7, g8, g9, _⟩ := hg rs
    exact ⟨g rs, by simp [setResp, List.getElem?_modify, h], g1, g2, g3, g4, g5, g6, g7, g8, g9, heo rs⟩
  · intro rs sk h1 h2
    exact ⟨g rs, sk, by simp [setResp, List.getElem?_modify, h1], h2, by simp [(hg rs).2.2.2.2.2.2.2.2.2]⟩

/-- the focused reader consumed `m` (and may have moved its chunk-parser state): what it has to show
is that its new state fits the rest of the stream -/
theorem read_core {A : Nat → Attempt → Prop} {s s' : State} {r k : Nat} {X X' Z m : List Cell} {rs rs' : Resp}
    (p : ProvF A s (some (r, X, Z))) (hr : s.resps[r]? = some rs) (hk : rs.fp = some k) (rel : ReadRelP r k s s' m)
    (hr' : s'.resps[r]? = some rs')
    (hE : ∀ a h Rem, a.head = some h → rs.chunked = h.chunked → Expect rs.rid a h (respPos rs) X Rem → m <+: Rem →
      (∀ n, lenBound h rs.isHead = some n → ∃ l, rs.length = some l ∧ Z.length + l ≤ n) →
      X' <+: deliverable rs.rid a h ∧ (∀ n, lenBound h rs.isHead = some n → X'.length ≤ n) ∧
      Expect rs.rid a h (respPos rs') X' (Rem.drop m.length)) :
    ProvF A s' (some (r, X', Z)) := by
  obtain ⟨rs1, hb, a1, a2, a3, a4, a5, a6, a7, _, _, a10⟩ := rel.rsame rs hr
  rw [hr'] at hb; cases hb
  have hfin : ∀ j, FinAt s j → FinAt s' j := by
    intro j ⟨sk, h1, h2⟩
    by_cases hjk : j = k
    · subst hjk
      obtain ⟨sk', g1, _, g3⟩ := rel.hsame sk h1
      exact ⟨sk', g1, g3 h2⟩
    · exact ⟨sk, by rw [rel.sother j hjk]; exact h1, h2⟩
  have hfp : ∀ (i : Nat) (ri : Resp), s'.resps[i]? = some ri → ∃ rs0 : Resp, s.resps[i]? = some rs0 ∧ ri.fp = rs0.fp := by
    intro i ri hi
    by_cases hir : i = r
    · subst hir
      rw [hr'] at hi; cases hi
      exact ⟨rs, hr, a4⟩
    · rw [rel.rother i hir] at hi; exact ⟨ri, hi, rfl⟩
  refine ⟨?_, ?_, ?_, ?_, ?_, ?_, ?_, ?_, ?_⟩
  rotate_right 3
  · intro r' X'' Z' h hn
    cases h
    rw [hr'] at hn; cases hn
  · intro k' sk' h1
    by_cases hkk : k' = k
    · subst hkk
      have hkb : k' < s.socks.length := p.fpB r rs k' hr hk
      obtain ⟨sk0, g1, g2, _⟩ := rel.hsame _ (List.getElem?_eq_getElem hkb)
      rw [h1] at g1; cases g1
      rw [g2]; exact p.heldB k' _ (List.getElem?_eq_getElem hkb)
    · rw [rel.sother k' hkk] at h1; exact p.heldB k' sk' h1
  · intro i ri k' h1 h2
    have hold : ∃ r0 : Resp, s.resps[i]? = some r0 ∧ r0.eofAt = some k' := by
      by_cases hir : i = r
      · subst hir
        rw [hr'] at h1; cases h1
        exact ⟨rs, hr, by rw [← a10]; exact h2⟩
      · rw [rel.rother i hir] at h1; exact ⟨ri, h1, h2⟩
    obtain ⟨r0, g1, g2⟩ := hold
    obtain ⟨q1, q2⟩ := p.eofB i r0 k' g1 g2
    refine ⟨by rw [rel.slen]; exact q1, ?_⟩
    rcases q2 with q2 | q2
    · exact Or.inl (hfin k' q2)
    · exact Or.inr (by intro c cn hc; rw [rel.conns] at hc; exact q2 c cn hc)
  · intro c cn k' h1 h2; rw [rel.conns] at h1; rw [rel.slen]; exact p.sockB c cn k' h1 h2
  · intro i ri k' h1 h2
    obtain ⟨rs0, h0, e⟩ := hfp i ri h1
    rw [rel.slen]; exact p.fpB i rs0 k' h0 (by rw [← e]; exact h2)
  · intro c c' cn cn' k' h1 h2 h3 h4; rw [rel.conns] at h1 h2; exact p.sockInj c c' cn cn' k' h1 h2 h3 h4
  · intro i ri c cn k' h1 h2 h3 h4
    obtain ⟨rs0, h0, e⟩ := hfp i ri h1
    rw [rel.conns] at h3
    exact p.pend i rs0 c cn k' h0 (by rw [← e]; exact h2) h3 h4
  · intro i j r1 r2 k' h1 h2 h3 h4
    obtain ⟨q1, g1, e1⟩ := hfp i r1 h1
    obtain ⟨q2, g2, e2⟩ := hfp j r2 h2
    exact p.fpInj i j q1 q2 k' g1 g2 (by rw [← e1]; exact h3) (by rw [← e2]; exact h4)
  · intro i ri hi
    by_cases hir : i = r
    · subst hir
      rw [hr'] at hi; cases hi
      simp only [Focus.x, Focus.z, if_true]
      have h0 := p.resp i rs hr
      simp only [Focus.x, Focus.z, if_true] at h0
      rcases h0 with ⟨h0, _⟩ | ⟨a, hd, fr⟩
      · rw [hk] at h0; cases h0
      · right
        obtain ⟨sk, Rem, hsk, q0, q1, q2⟩ := fr.opn k hk
        obtain ⟨rs'', sk', e1, e2, e3⟩ := rel.stream rs sk hr hsk
        have hall : m ++ (rs''.buf ++ sk'.inbound) <+: Rem := by
          rw [← List.append_assoc, e3]; exact q1
        rw [hr'] at e1; cases e1
        obtain ⟨g1, g2, g3⟩ := hE a hd Rem fr.head fr.ch q0 (prefix_of_append_prefix hall) q2
        refine ⟨a, hd, ⟨by rw [a1]; exact fr.att, fr.head, by rw [a5]; exact fr.st, by rw [a6]; exact fr.ch,
          by rw [a1, a2]; exact fr.dpre, by rw [a2, a3]; exact fr.dlen, by rw [a1]; exact g1, by rw [a3]; exact g2, ?_⟩⟩
        intro k' hk'
        have : k' = k := by
          rw [a4, hk] at hk'; cases hk'; rfl
        subst this
        exact ⟨sk', Rem.drop m.length, e2, by rw [a1]; exact g3, prefix_drop_of_append hall, by rw [a3, a7]; exact q2⟩
    · have hi0 : s.resps[i]? = some ri := by rw [← rel.rother i hir]; exact hi
      have h0 := p.resp i ri hi0
      simp only [Focus.x, Focus.z, hir, if_false] at h0 ⊢
      rcases h0 with h0 | ⟨a, hd, fr⟩
      · exact Or.inl h0
      · right
        refine ⟨a, hd, ⟨fr.att, fr.head, fr.st, fr.ch, fr.dpre, fr.dlen, fr.xpre, fr.xlen, ?_⟩⟩
        intro k' hk'
        obtain ⟨sk, Rem, hsk, q⟩ := fr.opn k' hk'
        have hkk : k' ≠ k := by
          intro e; subst e
          exact hir (p.fpInj i r ri rs k' hi0 hr hk' hk)
        exact ⟨sk, Rem, by rw [rel.sother k' hkk]; exact hsk, q⟩

theorem expect_plain {rid : Nat} {a : Attempt} {h : Head} {pos : Pos} {X Rem : List Cell} (hc : h.chunked = false) :
    Expect rid a h pos X Rem ↔ X ++ Rem = bodyCells rid a := by
  unfold Expect; simp [hc]

theorem lenBound_plain {h : Head} {b : Bool} (hc : h.chunked = false) : lenBound h b = initLength h b := by
  unfold lenBound; simp [hc]

/-- the focused reader of a reply that is not chunked consumed `m` -/
theorem read_prov {A : Nat → Attempt → Prop} {s s' : State} {r k : Nat} {X m : List Cell} {rs : Resp}
    (p : ProvF A s (some (r, X, X))) (hr : s.resps[r]? = some rs) (hk : rs.fp = some k) (rel : ReadRel r k s s' m)
    (hch : rs.chunked = false) (hl : ∀ l, rs.length = some l → m.length ≤ l) :
    ProvF A s' (some (r, X ++ m, X)) := by
  obtain ⟨b, hb⟩ := rel.rsame rs hr
  refine read_core p hr hk rel.toP hb ?_
  intro a h Rem hh hc hE hm hq
  have hc' : h.chunked = false := by rw [← hc]; exact hch
  rw [expect_plain hc'] at hE
  obtain ⟨t, ht⟩ := hm
  have hdrop : Rem.drop m.length = t := by rw [← ht]; simp
  refine ⟨?_, ?_, ?_⟩
  · unfold deliverable; simp only [hc']
    exact ⟨t, by rw [← hE, ← ht]; simp⟩
  · intro n hn
    obtain ⟨l, hl1, hl2⟩ := hq n hn
    have := hl l hl1
    simp; omega
  · rw [expect_plain hc', hdrop, ← hE, ← ht]; simp

theorem provF_resps {A : Nat → Attempt → Prop} {s s' : State} {f g : Focus} (p : ProvF A s f)
    (hc : s'.conns = s.conns) (hs : s'.socks = s.socks)
    (h : ∀ (i : Nat) (rs' : Resp), s'.resps[i]? = some rs' → ∃ rs : Resp, s.resps[i]? = some rs ∧ rs'.fp = rs.fp ∧
      rs'.eofAt = rs.eofAt ∧
      (RespOk A s rs (f.x i rs) (f.z i rs) → RespOk A s' rs' (g.x i rs') (g.z i rs')))
    (hg : ∀ r X Z, g = some (r, X, Z) → s'.resps[r]? = none → X = []) : ProvF A s' g := by
  refine ⟨?_, ?_, ?_, ?_, ?_, ?_, hg, by rw [hs]; exact p.heldB, ?_⟩
  rotate_right
  · intro i rs' k' h1 h2
    obtain ⟨rs0, h0, _, e, _⟩ := h i rs' h1
    obtain ⟨q1, q2⟩ := p.eofB i rs0 k' h0 (by rw [← e]; exact h2)
    refine ⟨by rw [hs]; exact q1, ?_⟩
    rcases q2 with ⟨sk, g1, g2⟩ | q2
    · exact Or.inl ⟨sk, by rw [hs]; exact g1, g2⟩
    · exact Or.inr (by intro c cn hc'; rw [hc] at hc'; exact q2 c cn hc')
  · intro c cn k' h1 h2; rw [hc] at h1; rw [hs]; exact p.sockB c cn k' h1 h2
  · intro i rs' k' h1 h2
    obtain ⟨rs0, h0, e, _⟩ := h i rs' h1
    rw [hs]; exact p.fpB i rs0 k' h0 (by rw [← e]; exact h2)
  · intro c c' cn cn' k' h1 h2 h3 h4; rw [hc] at h1 h2; exact p.sockInj c c' cn cn' k' h1 h2 h3 h4
  · intro i rs' c cn k' h1 h2 h3 h4
    obtain ⟨rs0, h0, e, _⟩ := h i rs' h1
    rw [hc] at h3
    exact p.pend i rs0 c cn k' h0 (by rw [← e]; exact h2) h3 h4
  · intro i j r1 r2 k' h1 h2 h3 h4
    obtain ⟨q1, g1, e1, _⟩ := h i r1 h1
    obtain ⟨q2, g2, e2, _⟩ := h j r2 h2
    exact p.fpInj i j q1 q2 k' g1 g2 (by rw [← e1]; exact h3) (by rw [← e2]; exact h4)
  · intro i rs' hi
    obtain ⟨rs0, h0, _, _, e⟩ := h i rs' hi
    exact e (p.resp i rs0 h0)

theorem respOk_socks {A : Nat → Attempt → Prop} {s s' : State} {rs : Resp} {X Z : List Cell} (hs : s'.socks = s.socks)
    (h : RespOk A s rs X Z) : RespOk A s' rs X Z := by
  rcases h with h | ⟨a, hd, fr⟩
  · exact Or.inl h
  · exact Or.inr ⟨a, hd, ⟨fr.att, fr.head, fr.st, fr.ch, fr.dpre, fr.dlen, fr.xpre, fr.xlen, by rw [hs]; exact fr.opn⟩⟩

/-- `self.length -= len(data)` after the focused reader consumed data -/
theorem setlen_prov {A : Nat → Attempt → Prop} {s : State} {r : Nat} {X Z : List Cell} {rs : Resp} {l l' : Nat}
    (p : ProvF A s (some (r, X, Z))) (hr : s.resps[r]? = some rs) (hl : rs.length = some l) (hb : X.length + l' ≤ Z.length + l) :
    ProvF A (setResp s r fun x => { x with length := some l' }) (some (r, X, X)) := by
  refine provF_resps p rfl rfl ?_ ?_
  rotate_left
  · intro r' X' Z' h hn
    cases h
    simp [setResp, List.getElem?_modify, hr] at hn
  intro i rs' hi
  simp only [setResp, List.getElem?_modify] at hi
  by_cases hir : r = i
  · subst hir
    simp [hr] at hi; subst hi
    refine ⟨rs, hr, rfl, rfl, ?_⟩
    simp only [Focus.x, Focus.z, if_true]
    rintro (h | ⟨a, hd, fr⟩)
    · exact Or.inl h
    · right
      refine ⟨a, hd, ⟨fr.att, fr.head, fr.st, fr.ch, fr.dpre, fr.dlen, fr.xpre, fr.xlen, ?_⟩⟩
      intro k hk
      obtain ⟨sk, Rem, hsk, q0, q1, q2⟩ := fr.opn k hk
      refine ⟨sk, Rem, hsk, q0, q1, ?_⟩
      intro n hn
      obtain ⟨l0, e1, e2⟩ := q2 n hn
      rw [hl] at e1; cases e1
      exact ⟨l', rfl, by omega⟩
  · cases hx : s.resps[i]? with
    | none => simp [hx] at hi
    | some x =>
      simp [hx, hir] at hi; subst hi
      refine ⟨x, rfl, rfl, rfl, ?_⟩
      have : i ≠ r := Ne.symm hir
      simp only [Focus.x, Focus.z, this, if_false]
      exact respOk_socks rfl

/-- handing the consumed bytes to the caller -/
theorem deliver_prov {A : Nat → Attempt → Prop} {s : State} {r : Nat} {d : List Cell}
    (p : ProvF A s (some (r, delivOf s r ++ d, delivOf s r ++ d))) : Prov A (deliver s r d) := by
  refine provF_resps p rfl rfl ?_ (by intro _ _ _ h; cases h)
  intro i rs' hi
  simp only [deliver, setResp, List.getElem?_modify] at hi
  by_cases hir : r = i
  · subst hir
    cases hx : s.resps[r]? with
    | none => simp [hx] at hi
    | some rs =>
      simp [hx] at hi; subst hi
      refine ⟨rs, rfl, rfl, rfl, ?_⟩
      simp only [Focus.x, Focus.z, if_true, delivOf, hx]
      rintro (⟨h1, h2, h3⟩ | ⟨a, hd, fr⟩)
      · -- a closed, empty reader: nothing was read
        left
        simp at h3
        exact ⟨h1, by simp [h2, h3.2], by simp [h2, h3.2]⟩
      · right
        exact ⟨a, hd, ⟨fr.att, fr.head, fr.st, fr.ch, fr.xpre, fr.xlen, fr.xpre, fr.xlen, fr.opn⟩⟩
  · cases hx : s.resps[i]? with
    | none => simp [hx] at hi
    | some x =>
      simp [hx, hir] at hi; subst hi
      refine ⟨x, rfl, rfl, rfl, ?_⟩
      have : i ≠ r := Ne.symm hir
      simp only [Focus.x, Focus.z, this, if_false]
      exact respOk_socks rfl

theorem lennone_refocus {A : Nat → Attempt → Prop} {s : State} {r : Nat} {X Z : List Cell} (Z' : List Cell) {rs : Resp}
    (p : ProvF A s (some (r, X, Z))) (hr : s.resps[r]? = some rs) (hl : rs.length = none) : ProvF A s (some (r, X, Z')) := by
  refine provF_refocus p ?_ (by intro r' X' Z'' h hn; cases h; exact p.foc _ _ _ rfl hn)
  intro i rs' hi h
  by_cases hir : i = r
  · subst hir
    rw [hr] at hi; cases hi
    simp only [Focus.x, Focus.z, if_true] at h ⊢
    rcases h with h | ⟨a, hd, fr⟩
    · exact Or.inl h
    · right
      refine ⟨a, hd, ⟨fr.att, fr.head, fr.st, fr.ch, fr.dpre, fr.dlen, fr.xpre, fr.xlen, ?_⟩⟩
      intro k hk
      obtain ⟨sk, Rem, hsk, q0, q1, q2⟩ := fr.opn k hk
      refine ⟨sk, Rem, hsk, q0, q1, ?_⟩
      intro n hn
      obtain ⟨l, e, _⟩ := q2 n hn
      rw [hl] at e; cases e
  · simpa [Focus.x, Focus.z, hir] using h

theorem ReadRel.resp_at {r k : Nat} {s s' : State} {m : List Cell} (rel : ReadRel r k s s' m) {rs : Resp}
    (hr : s.resps[r]? = some rs) : ∃ rs' : Resp, s'.resps[r]? = some rs' ∧ rs'.length = rs.length ∧ rs'.fp = rs.fp := by
  obtain ⟨b, hb⟩ := rel.rsame rs hr
  exact ⟨_, hb, rfl, rfl⟩

/-! ### the chunked coding and the positions of a parser in it (pure) -/

theorem enc_nil_inv {t : Tag} {E : List Cell} (h : Enc t [] E) : E = [] := by
  cases h with
  | nil => rfl
  | cons n _ E' hn hl _ => simp at hl; omega

theorem lineSize_some {line : List Cell} {n : Nat} (h : lineSize line = some n) :
    ∃ t1 t2 t3, line = [Cell.fr t1 (.size n), Cell.fr t2 .cr, Cell.fr t3 .lf] := by
  unfold lineSize at h
  split at h
  · cases h; exact ⟨_, _, _, rfl⟩
  · cases h

theorem expect_chunked {rid : Nat} {a : Attempt} {h : Head} {pos : Pos} {X Rem : List Cell} (hc : h.chunked = true) :
    Expect rid a h pos X Rem ↔
    ∃ Brem : List Nat, X ++ Brem.map (Cell.body (.req rid)) = payloadCells rid a ∧
      match pos with
      | .size => ∃ E, Enc (.req rid) Brem E ∧ Rem = E ++ endCells rid a
      | .data n => 0 < n ∧ n ≤ Brem.length ∧ ∃ E, Enc (.req rid) (Brem.drop n) E ∧
          Rem = (Brem.take n).map (Cell.body (.req rid)) ++ (crlfCells (.req rid) ++ (E ++ endCells rid a))
      | .crlf => ∃ E, Enc (.req rid) Brem E ∧ Rem = crlfCells (.req rid) ++ (E ++ endCells rid a)
      | .tail => Brem = [] ∧ ∃ pre, pre ++ Rem = trailerCells (.req rid) a.trailers ++ strayCells a
      | .bad => False := by
  unfold Expect; simp [hc]

theorem expect_xpre {rid : Nat} {a : Attempt} {h : Head} {pos : Pos} {X Rem : List Cell} (hc : h.chunked = true)
    (hE : Expect rid a h pos X Rem) : X <+: deliverable rid a h := by
  rw [expect_chunked hc] at hE
  obtain ⟨Brem, e, _⟩ := hE
  unfold deliverable; simp only [hc, if_true]
  exact ⟨_, e⟩

theorem lenBound_chunked {h : Head} (hc : h.chunked = true) : lenBound h false = none := by
  unfold lenBound; simp [hc]

/-- a complete chunk-size line read at a chunk boundary: the parser is now inside that chunk, or (size
0) past the last chunk -/
theorem expect_size_line {rid : Nat} {a : Attempt} {h : Head} {X Rem line : List Cell} {n : Nat} (hc : h.chunked = true)
    (hE : Expect rid a h .size X Rem) (hl : line <+: Rem) (hs : lineSize line = some n) :
    (n = 0 → Expect rid a h .tail X (Rem.drop line.length)) ∧
    (∀ j, n = j + 1 → Expect rid a h (.data (j + 1)) X (Rem.drop line.length)) := by
  obtain ⟨t1, t2, t3, rfl⟩ := lineSize_some hs
  rw [expect_chunked hc] at hE
  obtain ⟨Brem, e, E, hEnc, rfl⟩ := hE
  cases hEnc with
  | nil =>
    -- the last-chunk line
    have hl' : [Cell.fr t1 (.size n), Cell.fr t2 .cr, Cell.fr t3 .lf] <+: lastChunk (.req rid) ++ (trailerCells (.req rid) a.trailers ++ strayCells a) := by
      simpa [endCells] using hl
    simp only [lastChunk, List.cons_append, List.nil_append, List.cons_prefix_cons] at hl'
    obtain ⟨h1, h2, h3, _⟩ := hl'
    cases h1; cases h2; cases h3
    refine ⟨fun _ => ?_, fun j hj => by cases hj⟩
    rw [expect_chunked hc]
    exact ⟨[], e, rfl, [], by simp [endCells, lastChunk]⟩
  | cons n' _ E' hn hle hE' =>
    have hl' : [Cell.fr t1 (.size n), Cell.fr t2 .cr, Cell.fr t3 .lf] <+:
        oneChunk (.req rid) (Brem.take n') ++ E' ++ endCells rid a := hl
    simp only [oneChunk, List.cons_append, List.nil_append, List.cons_prefix_cons, List.append_assoc] at hl'
    obtain ⟨h1, h2, h3, _⟩ := hl'
    cases h2; cases h3
    have hn' : n = n' := by
      cases h1
      simp [List.length_take, Nat.min_eq_left hle]
    subst hn'
    refine ⟨fun h0 => by omega, fun j hj => ?_⟩
    subst hj
    rw [expect_chunked hc]
    refine ⟨Brem, e, by omega, hle, E', hE', ?_⟩
    simp [oneChunk, crlfCells]

theorem no_size_in_trailer (t : Tag) (ms : List Nat) : ∀ c ∈ trailerCells t ms, ∀ t' n, c ≠ Cell.fr t' (.size n) := by
  induction ms with
  | nil => intro c hc t' n; simp [trailerCells] at hc; rcases hc with rfl | rfl <;> simp
  | cons m ms ih =>
    intro c hc t' n
    simp only [trailerCells, List.mem_append, List.mem_replicate, List.mem_cons, List.mem_nil_iff, or_false] at hc
    rcases hc with (⟨_, rfl⟩ | rfl | rfl) | hc
    · simp
    · simp
    · simp
    · exact ih c hc t' n

/-- anywhere but at a chunk boundary, what `readline()` returns is not a chunk-size line -/
theorem expect_no_size {rid : Nat} {a : Attempt} {h : Head} {pos : Pos} {X Rem line : List Cell} {n : Nat} (hc : h.chunked = true)
    (hp : pos ≠ .size) (hE : Expect rid a h pos X Rem) (hl : line <+: Rem) (hs : lineSize line = some n) : False := by
  obtain ⟨t1, t2, t3, rfl⟩ := lineSize_some hs
  rw [expect_chunked hc] at hE
  obtain ⟨Brem, e, hE⟩ := hE
  cases pos with
  | size => exact hp rfl
  | data m =>
    obtain ⟨h0, hle, E, _, rfl⟩ := hE
    cases Brem with
    | nil => simp at hle; omega
    | cons b bs =>
      cases m with
      | zero => omega
      | succ m =>
        simp only [List.take_succ_cons, List.map_cons, List.cons_append, List.cons_prefix_cons] at hl
        cases hl.1
  | crlf =>
    obtain ⟨E, _, rfl⟩ := hE
    simp only [crlfCells, List.cons_append, List.cons_prefix_cons] at hl
    cases hl.1
  | tail =>
    obtain ⟨_, pre, hpre⟩ := hE
    obtain ⟨t, ht⟩ := hl
    have hmem : Cell.fr t1 (.size n) ∈ trailerCells (.req rid) a.trailers ++ strayCells a := by
      rw [← hpre, ← ht]; simp
    rcases List.mem_append.mp hmem with hm | hm
    · exact no_size_in_trailer _ _ _ hm t1 n rfl
    · simp [strayCells] at hm
  | bad => exact hE

/-- `n ≤ cl` payload bytes read inside a chunk with `cl` bytes left -/
theorem expect_data_take {rid : Nat} {a : Attempt} {h : Head} {X Rem m : List Cell} {cl n : Nat} (hc : h.chunked = true)
    (hE : Expect rid a h (.data cl) X Rem) (hm : m <+: Rem) (hlen : m.length = n) (hn : n ≤ cl) :
    (n < cl → Expect rid a h (.data (cl - n)) (X ++ m) (Rem.drop n)) ∧
    (n = cl → Expect rid a h .crlf (X ++ m) (Rem.drop n)) := by
  rw [expect_chunked hc] at hE
  obtain ⟨Brem, e, h0, hle, E, hEnc, rfl⟩ := hE
  have hmm : m = (Brem.take n).map (Cell.body (.req rid)) := by
    obtain ⟨t, ht⟩ := hm
    have h1 : m = (m ++ t).take n := by rw [List.take_left' hlen]
    rw [h1, ht, List.take_append_of_le_length (by simp [List.length_take]; omega), ← List.map_take, List.take_take,
      Nat.min_eq_left hn]
  have hpay : (X ++ m) ++ (Brem.drop n).map (Cell.body (.req rid)) = payloadCells rid a := by
    rw [hmm, List.append_assoc, ← List.map_append, List.take_append_drop]; exact e
  have hdrop : ((Brem.take cl).map (Cell.body (.req rid)) ++ (crlfCells (.req rid) ++ (E ++ endCells rid a))).drop n =
      ((Brem.drop n).take (cl - n)).map (Cell.body (.req rid)) ++ (crlfCells (.req rid) ++ (E ++ endCells rid a)) := by
    rw [List.drop_append_of_le_length (by simp [List.length_take]; omega), ← List.map_drop, List.drop_take]
  refine ⟨fun hlt => ?_, fun heq => ?_⟩
  · rw [expect_chunked hc]
    refine ⟨Brem.drop n, hpay, by omega, by simp; omega, E, ?_, hdrop⟩
    rw [List.drop_drop]
    have : n + (cl - n) = cl := by omega
    rw [this]; exact hEnc
  · subst heq
    rw [expect_chunked hc]
    refine ⟨Brem.drop n, hpay, E, hEnc, ?_⟩
    rw [hdrop]; simp

/-- the CRLF that ends a chunk -/
theorem expect_crlf_drop {rid : Nat} {a : Attempt} {h : Head} {X Rem m : List Cell} (hc : h.chunked = true)
    (hE : Expect rid a h .crlf X Rem) (hlen : m.length = 2) : Expect rid a h .size X (Rem.drop m.length) := by
  rw [expect_chunked hc] at hE ⊢
  obtain ⟨Brem, e, E, hEnc, rfl⟩ := hE
  exact ⟨Brem, e, E, hEnc, by rw [hlen]; simp [crlfCells]⟩

/-- past the last chunk nothing but the trailer section (and unsolicited bytes) follows -/
theorem expect_tail_drop {rid : Nat} {a : Attempt} {h : Head} {X Rem m : List Cell} (hc : h.chunked = true)
    (hE : Expect rid a h .tail X Rem) (hm : m <+: Rem) : Expect rid a h .tail X (Rem.drop m.length) := by
  rw [expect_chunked hc] at hE ⊢
  obtain ⟨Brem, e, hB, pre, hpre⟩ := hE
  obtain ⟨t, ht⟩ := hm
  refine ⟨Brem, e, hB, pre ++ m, ?_⟩
  rw [← hpre, ← ht]; simp

theorem chunkCells_enc (t : Tag) : ∀ (sizes body : List Nat), Enc t body (chunkCells t sizes body) := by
  intro sizes
  induction sizes with
  | nil =>
    intro body
    cases body with
    | nil => exact Enc.nil
    | cons b bs =>
      have := Enc.cons (t := t) (b :: bs).length (b :: bs) [] (by simp) (Nat.le_refl _) (by simpa using Enc.nil)
      simpa [chunkCells] using this
  | cons n ns ih =>
    intro body
    cases body with
    | nil => exact Enc.nil
    | cons b bs =>
      simp only [chunkCells]
      split
      · exact ih _
      · rename_i hn
        have hmin : 0 < min n (b :: bs).length := by simp; omega
        have := Enc.cons (t := t) (min n (b :: bs).length) (b :: bs) (chunkCells t ns ((b :: bs).drop n)) hmin (Nat.min_le_right _ _)
          (by
            have e : (b :: bs).drop (min n (b :: bs).length) = (b :: bs).drop n := by
              rcases Nat.le_total n (b :: bs).length with h | h
              · rw [Nat.min_eq_left h]
              · rw [Nat.min_eq_right h, List.drop_length, List.drop_eq_nil_of_le h]
            rw [e]; exact ih _)
        have e2 : (b :: bs).take (min n (b :: bs).length) = (b :: bs).take n := by
          rcases Nat.le_total n (b :: bs).length with h | h
          · rw [Nat.min_eq_left h]
          · rw [Nat.min_eq_right h, List.take_length, List.take_of_length_le h]
        rw [e2] at this
        exact this

/-- a reader that has just parsed the head stands at the first chunk-size line (or at the start of a
body that is not chunked) -/
theorem expect_init (rid : Nat) (a : Attempt) (h : Head) : Expect rid a h .size [] (postCells rid a h) := by
  unfold Expect
  split
  · rename_i hc
    refine ⟨a.body, by simp [payloadCells], chunkCells (.req rid) a.sizes a.body, chunkCells_enc _ _ _, ?_⟩
    simp [postCells, framedCells, hc, endCells, strayCells]
  · rename_i hc
    simp [postCells, framedCells, hc, bodyCells, payloadCells, strayCells]

theorem lenBound_some {h : Head} {b : Bool} {n : Nat} (hn : lenBound h b = some n) : initLength h b = some n := by
  unfold lenBound at hn
  split at hn
  · cases hn
  · exact hn

/-! ### a read that failed half-way: the reader is about to be closed -/

/-- reader `r` (reading from socket `k`) has moved bytes and parser state in some way; nothing else
changed -/
structure Dirty (r k : Nat) (s s' : State) : Prop where
  conns : s'.conns = s.conns
  rlen : s'.resps.length = s.resps.length
  slen : s'.socks.length = s.socks.length
  rother : ∀ i, i ≠ r → s'.resps[i]? = s.resps[i]?
  sother : ∀ j, j ≠ k → s'.socks[j]? = s.socks[j]?
  rsame : ∀ rs : Resp, s.resps[r]? = some rs → ∃ rs' : Resp, s'.resps[r]? = some rs' ∧ rs'.rid = rs.rid ∧
    rs'.delivered = rs.delivered ∧ rs'.isHead = rs.isHead ∧ (rs'.fp = rs.fp ∨ rs'.fp = none) ∧ rs'.status = rs.status ∧
    rs'.chunked = rs.chunked ∧ rs'.length = rs.length ∧ rs'.conn = rs.conn ∧ rs'.hasPool = rs.hasPool ∧
    (∀ k', rs'.eofAt = some k' → rs.eofAt = some k' ∨ (k' = k ∧ FinAt s' k'))
  hsame : ∀ sk : Sock, s.socks[k]? = some sk → ∃ sk' : Sock, s'.socks[k]? = some sk' ∧ sk'.held = sk.held ∧
    (sk.after = .fin → sk'.after = .fin)

theorem Dirty.fin {r k : Nat} {s s' : State} (d : Dirty r k s s') : ∀ j, FinAt s j → FinAt s' j := by
  intro j ⟨sk, h1, h2⟩
  by_cases hjk : j = k
  · subst hjk
    obtain ⟨sk', g1, _, g3⟩ := d.hsame sk h1
    exact ⟨sk', g1, g3 h2⟩
  · exact ⟨sk, by rw [d.sother j hjk]; exact h1, h2⟩

theorem ReadRelP.dirty {r k : Nat} {s s' : State} {m : List Cell} (h : ReadRelP r k s s' m) : Dirty r k s s' :=
  ⟨h.conns, h.rlen, h.slen, h.rother, h.sother,
    fun rs hr => by
      obtain ⟨rs', h1, a1, a2, a3, a4, a5, a6, a7, a8, a9, a10⟩ := h.rsame rs hr
      exact ⟨rs', h1, a1, a2, a3, Or.inl a4, a5, a6, a7, a8, a9, fun k' hk' => Or.inl (by rw [← a10]; exact hk')⟩,
    h.hsame⟩

theorem Dirty.refl (r k : Nat) (s : State) : Dirty r k s s := (ReadRelP.refl r k s).dirty

theorem Dirty.trans {r k : Nat} {s t u : State} (a : Dirty r k s t) (b : Dirty r k t u) : Dirty r k s u := by
  refine ⟨by rw [b.conns, a.conns], by rw [b.rlen, a.rlen], by rw [b.slen, a.slen],
    fun i hi => by rw [b.rother i hi, a.rother i hi], fun j hj => by rw [b.sother j hj, a.sother j hj], ?_, ?_⟩
  · intro rs h
    obtain ⟨r1, h1, a1, a2, a3, a4, a5, a6, a7, a8, a9, a10⟩ := a.rsame rs h
    obtain ⟨r2, h2, b1, b2, b3, b4, b5, b6, b7, b8, b9, b10⟩ := b.rsame r1 h1
    refine ⟨r2, h2, by rw [b1, a1], by rw [b2, a2], by rw [b3, a3], ?_, by rw [b5, a5], by rw [b6, a6], by rw [b7, a7],
      by rw [b8, a8], by rw [b9, a9], ?_⟩
    · rcases b4 with b4 | b4
      · rcases a4 with a4 | a4
        · exact Or.inl (by rw [b4, a4])
        · exact Or.inr (by rw [b4, a4])
      · exact Or.inr b4
    · intro k' hk'
      rcases b10 k' hk' with g | g
      · rcases a10 k' g with g' | ⟨g1, g2⟩
        · exact Or.inl g'
        · exact Or.inr ⟨g1, b.fin k' g2⟩
      · exact Or.inr g
  · intro sk h
    obtain ⟨sk1, g1, g2, g2'⟩ := a.hsame sk h
    obtain ⟨sk2, g3, g4, g4'⟩ := b.hsame sk1 g1
    exact ⟨sk2, g3, by rw [g4, g2], fun hf => g4' (g2' hf)⟩

/-- once the reader is closed, whatever it did to its own buffers no longer matters -/
theorem dirty_safe {r k : Nat} {s0 s1 t : State} (d : Dirty r k s0 s1)
    (uniq : ∀ (i : Nat) (rs : Resp), s0.resps[i]? = some rs → rs.fp = some k → i = r)
    (st : Safe s1 t) (hc : respFpClosed t r = true) : Safe s0 t := by
  rw [respFpClosed_iff] at hc
  have lift : ∀ (i : Nat) (rs1 : Resp), s1.resps[i]? = some rs1 → i ≠ r → s0.resps[i]? = some rs1 := by
    intro i rs1 h1 hne; rw [← d.rother i hne]; exact h1
  have rlt : ∀ (i : Nat) (rs : Resp), s0.resps[i]? = some rs → ∃ rs1 : Resp, s1.resps[i]? = some rs1 ∧ rs1.rid = rs.rid ∧
      rs1.delivered = rs.delivered ∧ rs1.isHead = rs.isHead ∧ rs1.status = rs.status ∧ rs1.chunked = rs.chunked ∧
      rs1.length = rs.length := by
    intro i rs h
    by_cases hir : i = r
    · subst hir
      obtain ⟨r1, h1, a1, a2, a3, _, a5, a6, a7, _, _, _⟩ := d.rsame rs h
      exact ⟨r1, h1, a1, a2, a3, a5, a6, a7⟩
    · exact ⟨rs, by rw [d.rother i hir]; exact h, rfl, rfl, rfl, rfl, rfl, rfl⟩
  refine ⟨by rw [← d.slen]; exact st.slen, by rw [← d.rlen]; exact st.rlen, ?_, ?_, ?_, ?_, ?_,
    fun j h => st.fin j (d.fin j h), ?eo⟩
  case eo =>
    intro i rs' k' h1 h2
    rcases st.eo i rs' k' h1 h2 with ⟨rs1, g1, g2⟩ | g
    · by_cases hir : i = r
      · subst hir
        have hi0 : i < s0.resps.length := by
          rw [← d.rlen]
          rcases Nat.lt_or_ge i s1.resps.length with h' | h'
          · exact h'
          · rw [List.getElem?_eq_none h'] at g1; cases g1
        obtain ⟨r1, h1', _, _, _, _, _, _, _, _, _, a10⟩ := d.rsame _ (List.getElem?_eq_getElem hi0)
        rw [g1] at h1'; cases h1'
        rcases a10 k' g2 with g' | ⟨_, g'⟩
        · exact Or.inl ⟨_, List.getElem?_eq_getElem hi0, g'⟩
        · exact Or.inr (st.fin k' g')
      · exact Or.inl ⟨rs1, lift i rs1 g1 hir, g2⟩
    · exact Or.inr g
  · intro i rs rs' h1 h2
    obtain ⟨rs1, g1, _, _, _, g5, g6, g7⟩ := rlt i rs h1
    obtain ⟨b1, b2, b3⟩ := st.st i rs1 rs' g1 h2
    exact ⟨by rw [b1, g5], by rw [b2, g7], by rw [b3, g6]⟩
  · intro i rs' k' sk h1 h2 h3
    obtain ⟨rs1, g1, g2, _⟩ := st.open_old h1 h2
    have hir : i ≠ r := by
      intro e; subst e; rw [hc rs' h1] at h2; cases h2
    have g0 := lift i rs1 g1 hir
    have hkk : k' ≠ k := by
      intro e; subst e; exact hir (uniq i rs1 g0 g2)
    exact st.sk i rs' k' sk h1 h2 (by rw [d.sother k' hkk]; exact h3)
  · intro i rs' h1
    rcases st.rs i rs' h1 with ⟨rs1, g1, e1, e2, e3, e4⟩ | ⟨g1, e1, e2⟩
    · left
      by_cases hir : i = r
      · subst hir
        have hi0 : i < s0.resps.length := by
          rw [← d.rlen]
          rcases Nat.lt_or_ge i s1.resps.length with h' | h'
          · exact h'
          · rw [List.getElem?_eq_none h'] at g1; cases g1
        obtain ⟨r1, h1', a1, a2, a3, _, _, _, _, _, _, _⟩ := d.rsame _ (List.getElem?_eq_getElem hi0)
        rw [g1] at h1'; cases h1'
        exact ⟨_, List.getElem?_eq_getElem hi0, by rw [e1, a1], by rw [e2, a2], by rw [e3, a3], Or.inl (hc rs' h1)⟩
      · exact ⟨rs1, lift i rs1 g1 hir, e1, e2, e3, e4⟩
    · right
      refine ⟨?_, e1, e2⟩
      have : s1.resps.length ≤ i := by
        rcases Nat.lt_or_ge i s1.resps.length with h' | h'
        · rw [List.getElem?_eq_getElem h'] at g1; cases g1
        · exact h'
      exact List.getElem?_eq_none (by rw [← d.rlen]; exact this)
  · intro c cn' k' h1 h2
    rcases st.cn c cn' k' h1 h2 with ⟨cn, g1, g2, g3⟩ | ⟨g1, g2, g3, g4⟩
    · exact Or.inl ⟨cn, by rw [← d.conns]; exact g1, g2, g3⟩
    · exact Or.inr ⟨by rw [← d.slen]; exact g1, g2, g3, g4⟩
  · intro k' sk' h1
    rcases st.hd k' sk' h1 with ⟨sk1, g1, g2⟩ | g
    · left
      by_cases hkk : k' = k
      · subst hkk
        have hk0 : k' < s0.socks.length := by
          rw [← d.slen]
          rcases Nat.lt_or_ge k' s1.socks.length with h' | h'
          · exact h'
          · rw [List.getElem?_eq_none h'] at g1; cases g1
        obtain ⟨sk2, q1, q2, _⟩ := d.hsame _ (List.getElem?_eq_getElem hk0)
        rw [g1] at q1; cases q1
        exact ⟨_, List.getElem?_eq_getElem hk0, by rw [g2, q2]⟩
      · exact ⟨sk1, by rw [← d.sother k' hkk]; exact g1, g2⟩
    · exact Or.inr g

/-- what a failed read of the focused reader `r` leaves behind: a state that turns into a good one
as soon as `r` is closed (which every caller does at once) -/
def ExcPost (A : Nat → Attempt → Prop) (r : Nat) (s' : State) : Prop :=
  ∀ t : State, Safe s' t → respFpClosed t r = true → Prov A t

theorem ExcPost.safe {A : Nat → Attempt → Prop} {r : Nat} {s s' : State} (h : ExcPost A r s) (st : Safe s s') : ExcPost A r s' :=
  fun t st' hc => h t (st.trans st') hc

theorem excPost_of_provF {A : Nat → Attempt → Prop} {s : State} {r : Nat} {X Z : List Cell}
    (p : ProvF A s (some (r, X, Z))) : ExcPost A r s :=
  fun t st hc => closed_unfocus (st.prov p) hc

theorem excPost_of_dirty {A : Nat → Attempt → Prop} {s0 s1 : State} {r k : Nat} {X Z : List Cell} {rs : Resp}
    (p : ProvF A s0 (some (r, X, Z))) (hr : s0.resps[r]? = some rs) (hk : rs.fp = some k) (d : Dirty r k s0 s1) :
    ExcPost A r s1 := by
  intro t st hc
  have uniq : ∀ (i : Nat) (ri : Resp), s0.resps[i]? = some ri → ri.fp = some k → i = r :=
    fun i ri h1 h2 => p.fpInj i r ri rs k h1 hr h2 hk
  exact closed_unfocus ((dirty_safe d uniq st hc).prov p) hc

/-- the `Z` component of the focus only matters for a length-delimited reply -/
theorem chunked_refocus_z {A : Nat → Attempt → Prop} {s : State} {r : Nat} {X Z : List Cell} (Z' : List Cell) {rs : Resp}
    (p : ProvF A s (some (r, X, Z))) (hr : s.resps[r]? = some rs) (hch : rs.chunked = true) (hnh : rs.isHead = false) :
    ProvF A s (some (r, X, Z')) := by
  refine provF_refocus p ?_ (by intro r' X' Z'' h hn; cases h; exact p.foc _ _ _ rfl hn)
  intro i rs' hi h
  by_cases hir : i = r
  · subst hir
    rw [hr] at hi; cases hi
    simp only [Focus.x, Focus.z, if_true] at h ⊢
    rcases h with h | ⟨a, hd, fr⟩
    · exact Or.inl h
    · right
      refine ⟨a, hd, ⟨fr.att, fr.head, fr.st, fr.ch, fr.dpre, fr.dlen, fr.xpre, fr.xlen, ?_⟩⟩
      intro k hk
      obtain ⟨sk, Rem, hsk, q0, q1, q2⟩ := fr.opn k hk
      refine ⟨sk, Rem, hsk, q0, q1, ?_⟩
      intro n hn
      have : lenBound hd rs.isHead = none := by
        rw [hnh]; exact lenBound_chunked (by rw [← fr.ch]; exact hch)
      rw [this] at hn; cases hn
  · simpa [Focus.x, Focus.z, hir] using h

/-- a focus on what has been delivered anyway is no focus -/
theorem unfocus_same {A : Nat → Attempt → Prop} {s : State} {r : Nat}
    (p : ProvF A s (some (r, delivOf s r, delivOf s r))) : Prov A s := by
  refine provF_refocus p ?_ (by intro _ _ _ h; cases h)
  intro i rs hi h
  by_cases hir : i = r
  · subst hir
    simpa [Focus.x, Focus.z, delivOf, hi] using h
  · simpa [Focus.x, Focus.z, hir] using h

/-- the focused reader of a chunked reply consumed `m` and moved its chunk parser -/
theorem read_chunk {A : Nat → Attempt → Prop} {s s' : State} {r k : Nat} {X X' Z m : List Cell} {rs rs' : Resp}
    (p : ProvF A s (some (r, X, Z))) (hr : s.resps[r]? = some rs) (hk : rs.fp = some k)
    (hch : rs.chunked = true) (hnh : rs.isHead = false) (rel : ReadRelP r k s s' m) (hr' : s'.resps[r]? = some rs')
    (hE : ∀ a h Rem, h.chunked = true → Expect rs.rid a h (respPos rs) X Rem → m <+: Rem →
      Expect rs.rid a h (respPos rs') X' (Rem.drop m.length)) :
    ProvF A s' (some (r, X', Z)) := by
  refine read_core p hr hk rel hr' ?_
  intro a h Rem hh hc hX hm _
  have hc' : h.chunked = true := by rw [← hc]; exact hch
  have g := hE a h Rem hc' hX hm
  refine ⟨expect_xpre hc' g, ?_, g⟩
  intro n hn
  rw [hnh, lenBound_chunked hc'] at hn; cases hn

/-! ### the primitive reads of the chunk parsers -/

theorem fpReadline_rel : ∀ (fuel : Nat) (s : State) (r k : Nat) (acc : List Cell) (s' : State) (out : DataOut),
    fpReadline fuel s r k acc = (s', out) →
    ∃ m, ReadRel r k s s' m ∧ ∀ d, out = .data d → d = acc ++ m := by
  intro fuel
  induction fuel with
  | zero =>
    intro s r k acc s' out h
    simp [fpReadline] at h
    obtain ⟨rfl, rfl⟩ := h
    exact ⟨[], ReadRel.refl _ _ _, by intro d hd; cases hd⟩
  | succ fuel ih =>
    intro s r k acc s' out h
    unfold fpReadline at h
    split at h
    · simp at h
      obtain ⟨rfl, rfl⟩ := h
      exact ⟨[], ReadRel.refl _ _ _, by intro d hd; cases hd; simp⟩
    · rename_i rs hrs
      split at h
      · rename_i n hn
        simp at h
        obtain ⟨rfl, rfl⟩ := h
        refine ⟨rs.buf.take n, setBuf_rel r k s rs _ (fun x => x.buf.drop n) hrs (List.take_append_drop n rs.buf).symm, ?_⟩
        intro d hd; cases hd; rfl
      · have r1 := setBuf_rel r k s rs rs.buf (fun _ => []) hrs (by simp)
        simp only at h
        generalize hs1 : (setResp s r fun x => { x with buf := [] }) = s1 at h r1
        have r2 := recvInto_rel s1 r k bufSize
        generalize hrv : recvInto s1 r k bufSize = res at h r2
        obtain ⟨s2, o⟩ := res
        have r12 := r1.trans r2
        cases o with
        | got =>
          simp only at h
          obtain ⟨m, rm, hd⟩ := ih s2 r k (acc ++ rs.buf) s' out h
          refine ⟨rs.buf ++ m, ?_, ?_⟩
          · have := r12.trans rm; simpa using this
          · intro d hd'; rw [hd d hd']; simp
        | eof =>
          simp at h
          obtain ⟨rfl, rfl⟩ := h
          refine ⟨rs.buf, by simpa using r12, ?_⟩
          intro d hd; cases hd; rfl
        | exc e =>
          simp at h
          obtain ⟨rfl, rfl⟩ := h
          refine ⟨rs.buf, by simpa using r12, ?_⟩
          intro d hd; cases hd

theorem safeRead_rel {s s' : State} {r k n : Nat} {out : DataOut} (h : safeRead s r k n = (s', out)) :
    ∃ m, ReadRel r k s s' m ∧ ∀ d, out = .data d → d = m ∧ m.length = n := by
  unfold safeRead at h
  generalize hfr : fpRead (inboundLen s k + 2) s r k n [] = res at h
  obtain ⟨s1, o⟩ := res
  obtain ⟨m, rel, hlen, hd⟩ := fpRead_rel _ _ _ _ _ _ _ _ hfr
  cases o with
  | exc e => simp at h; obtain ⟨rfl, rfl⟩ := h; exact ⟨m, rel, by intro d hd'; cases hd'⟩
  | data d =>
    have hdm : d = m := by simpa using hd d rfl
    subst hdm
    dsimp only at h
    split at h
    · cases h; exact ⟨d, rel, by intro d' hd'; cases hd'⟩
    · rename_i hlt
      cases h
      exact ⟨d, rel, by intro d' hd'; cases hd'; exact ⟨rfl, by omega⟩⟩

/-! ### `read_chunked`: urllib3's own chunk parser -/

theorem closeFp_dirty (s : State) (r k : Nat) : Dirty r k s (closeFp s r) := by
  unfold closeFp
  split
  · exact Dirty.refl _ _ _
  · rename_i x h0
    split
    · exact Dirty.refl _ _ _
    · have e : ∀ k', (noteClose (setResp s r fun x => { x with fp := none, buf := [] }) k').conns = s.conns ∧
          (noteClose (setResp s r fun x => { x with fp := none, buf := [] }) k').resps = (setResp s r fun x => { x with fp := none, buf := [] }).resps ∧
          (noteClose (setResp s r fun x => { x with fp := none, buf := [] }) k').socks = s.socks := by
        intro k'; unfold noteClose; split <;> exact ⟨rfl, rfl, rfl⟩
      rename_i k' _
      obtain ⟨e1, e2, e3⟩ := e k'
      refine ⟨e1, by rw [e2]; simp [setResp], by rw [e3], ?_, fun j _ => by rw [e3], ?_, fun sk h => ⟨sk, by rw [e3]; exact h, rfl, id⟩⟩
      · intro i hi; rw [e2]; simp [setResp, List.getElem?_modify, Ne.symm hi]
      · intro rs h; rw [h0] at h; cases h
        exact ⟨{ x with fp := none, buf := [] }, by rw [e2]; simp [setResp, List.getElem?_modify, h0], rfl, rfl, rfl, Or.inr rfl, rfl, rfl, rfl, rfl, rfl,
          fun k' hk' => Or.inl hk'⟩

theorem updateChunkLength_shape (s : State) (r k : Nat) :
    ∃ s1, Dirty r k s s1 ∧ Safe s1 (updateChunkLength s r k).1 := by
  unfold updateChunkLength
  split
  · exact ⟨s, Dirty.refl _ _ _, Safe.refl _⟩
  · generalize hfr : fpReadline (inboundLen s k + 2) s r k [] = res
    obtain ⟨s1, o⟩ := res
    obtain ⟨m, rel, _⟩ := fpReadline_rel _ _ _ _ _ _ _ hfr
    cases o with
    | exc e => exact ⟨s1, rel.toP.dirty, Safe.refl _⟩
    | data line =>
      dsimp only
      split
      · refine ⟨_, rel.toP.dirty.trans (setParse_relP r k s1 _ ?_).dirty, Safe.refl _⟩
        intro x; exact ⟨rfl, rfl, rfl, rfl, rfl, rfl, rfl, rfl, rfl, rfl⟩
      · exact ⟨s1, rel.toP.dirty, respClose_safe s1 r⟩

theorem respPos_left {rs : Resp} {n : Nat} (h : rs.hcLeft = none) :
    respPos { rs with chunkLeft := some n } = match n with | 0 => Pos.tail | j + 1 => Pos.data (j + 1) := by
  cases n <;> simp [respPos, h]

theorem updateChunkLength_prov {A : Nat → Attempt → Prop} {s s' : State} {r k : Nat} {X Z : List Cell} {rs : Resp}
    (p : ProvF A s (some (r, X, Z))) (hr : s.resps[r]? = some rs) (hk : rs.fp = some k)
    (hch : rs.chunked = true) (hnh : rs.isHead = false) (h : updateChunkLength s r k = (s', none)) :
    ProvF A s' (some (r, X, Z)) ∧ ∃ (rs' : Resp) (m : List Cell), ReadRelP r k s s' m ∧ s'.resps[r]? = some rs' ∧
      rs'.chunkLeft.isSome = true := by
  unfold updateChunkLength at h
  have hcl : chunkLeftOf s r = rs.chunkLeft := by simp [chunkLeftOf, hr]
  rw [hcl] at h
  split at h
  · rename_i n hn
    cases h
    exact ⟨p, rs, [], ReadRelP.refl _ _ _, hr, by rw [hn]; rfl⟩
  · rename_i hn
    generalize hfr : fpReadline (inboundLen s k + 2) s r k [] = res at h
    obtain ⟨s1, o⟩ := res
    obtain ⟨m, rel, hd⟩ := fpReadline_rel _ _ _ _ _ _ _ hfr
    cases o with
    | exc e => cases h
    | data line =>
      have hlm : line = m := by simpa using hd line rfl
      subst hlm
      dsimp only at h
      split at h
      · rename_i n hsz
        cases h
        obtain ⟨b, hb⟩ := rel.rsame rs hr
        have relP : ReadRelP r k s (setResp s1 r fun x => { x with chunkLeft := some n }) (line ++ []) :=
          rel.toP.trans (setParse_relP r k s1 _ (fun x => ⟨rfl, rfl, rfl, rfl, rfl, rfl, rfl, rfl, rfl, rfl⟩))
        rw [List.append_nil] at relP
        have hr' : (setResp s1 r fun x => { x with chunkLeft := some n }).resps[r]? =
            some { rs with buf := b, chunkLeft := some n } := by
          simp [setResp, List.getElem?_modify, hb]
        refine ⟨read_chunk p hr hk hch hnh relP hr' ?_, _, line, relP, hr', rfl⟩
        intro a hd' Rem hc hE hm
        -- where was the parser?  only at a chunk boundary can a chunk-size line have been read
        cases hhc : rs.hcLeft with
        | some v =>
          exfalso
          have hpos : respPos rs ≠ .size := by
            cases v <;> simp [respPos, hn, hhc]
          exact expect_no_size hc hpos hE hm hsz
        | none =>
          have hpos : respPos rs = .size := by simp [respPos, hn, hhc]
          rw [hpos] at hE
          obtain ⟨g0, g1⟩ := expect_size_line hc hE hm hsz
          cases n with
          | zero => simp only [respPos, hhc]; exact g0 rfl
          | succ j => simp only [respPos, hhc]; exact g1 j rfl
      · cases h

theorem safeRead_dirty (s : State) (r k n : Nat) : Dirty r k s (safeRead s r k n).1 := by
  obtain ⟨m, rel, _⟩ := safeRead_rel (s := s) (r := r) (k := k) (n := n) rfl
  exact rel.toP.dirty

theorem setParse_dirty (r k : Nat) (s : State) (g : Resp → Resp)
    (hg : ∀ x, (g x).rid = x.rid ∧ (g x).delivered = x.delivered ∧ (g x).isHead = x.isHead ∧ (g x).fp = x.fp ∧
      (g x).status = x.status ∧ (g x).chunked = x.chunked ∧ (g x).length = x.length ∧ (g x).conn = x.conn ∧
      (g x).hasPool = x.hasPool ∧ (g x).buf = x.buf)
    (heo : ∀ x, (g x).eofAt = x.eofAt := by intro x; rfl) : Dirty r k s (setResp s r g) :=
  (setParse_relP r k s g hg heo).dirty

theorem handleChunk_dirty (s : State) (r k amt : Nat) : Dirty r k s (handleChunk s r k amt).1 := by
  unfold handleChunk
  split
  · exact Dirty.refl _ _ _
  · split
    · have d1 := safeRead_dirty s r k amt
      generalize safeRead s r k amt = res at d1
      obtain ⟨s1, o⟩ := res
      cases o with
      | exc e => exact d1
      | data d => exact d1.trans (setParse_dirty r k s1 _ (fun x => ⟨rfl, rfl, rfl, rfl, rfl, rfl, rfl, rfl, rfl, rfl⟩))
    · rename_i cl _ _
      have d1 := safeRead_dirty s r k cl
      generalize safeRead s r k cl = res at d1
      obtain ⟨s1, o⟩ := res
      cases o with
      | exc e => exact d1
      | data d =>
        dsimp only
        have d2 := safeRead_dirty s1 r k 2
        generalize safeRead s1 r k 2 = res2 at d2
        obtain ⟨s2, o2⟩ := res2
        cases o2 with
        | exc e => exact d1.trans d2
        | data d' =>
          exact (d1.trans d2).trans (setParse_dirty r k s2 _ (fun x => ⟨rfl, rfl, rfl, rfl, rfl, rfl, rfl, rfl, rfl, rfl⟩))

/-- a successful `_update_chunk_length` only moved bytes and the parser (the reader stays open) -/
theorem updateChunkLength_relP {s s' : State} {r k : Nat} (h : updateChunkLength s r k = (s', none)) :
    ∃ m, ReadRelP r k s s' m := by
  unfold updateChunkLength at h
  split at h
  · cases h; exact ⟨[], ReadRelP.refl _ _ _⟩
  · generalize hfr : fpReadline (inboundLen s k + 2) s r k [] = res at h
    obtain ⟨s1, o⟩ := res
    obtain ⟨m, rel, _⟩ := fpReadline_rel _ _ _ _ _ _ _ hfr
    cases o with
    | exc e => cases h
    | data line =>
      dsimp only at h
      split at h
      · cases h
        exact ⟨m ++ [], rel.toP.trans (setParse_relP r k s1 _ (fun x => ⟨rfl, rfl, rfl, rfl, rfl, rfl, rfl, rfl, rfl, rfl⟩))⟩
      · cases h

/-- … and so did a successful `_handle_chunk` -/
theorem handleChunk_relP {s s' : State} {r k amt : Nat} {d : List Cell} (h : handleChunk s r k amt = (s', .data d)) :
    ∃ m, ReadRelP r k s s' m := by
  unfold handleChunk at h
  split at h
  · cases h; exact ⟨[], ReadRelP.refl _ _ _⟩
  · split at h
    · generalize hsr : safeRead s r k amt = res at h
      obtain ⟨s1, o⟩ := res
      obtain ⟨m, rel, _⟩ := safeRead_rel hsr
      cases o with
      | exc e => cases h
      | data d0 =>
        cases h
        exact ⟨m ++ [], rel.toP.trans (setParse_relP r k s1 _ (fun x => ⟨rfl, rfl, rfl, rfl, rfl, rfl, rfl, rfl, rfl, rfl⟩))⟩
    · rename_i cl _ _
      generalize hsr : safeRead s r k cl = res at h
      obtain ⟨s1, o⟩ := res
      obtain ⟨m1, rel1, _⟩ := safeRead_rel hsr
      cases o with
      | exc e => cases h
      | data d0 =>
        dsimp only at h
        generalize hsr2 : safeRead s1 r k 2 = res2 at h
        obtain ⟨s2, o2⟩ := res2
        obtain ⟨m2, rel2, _⟩ := safeRead_rel hsr2
        cases o2 with
        | exc e => cases h
        | data d2 =>
          cases h
          exact ⟨m1 ++ m2 ++ [], (rel1.trans rel2).toP.trans
            (setParse_relP r k s2 _ (fun x => ⟨rfl, rfl, rfl, rfl, rfl, rfl, rfl, rfl, rfl, rfl⟩))⟩

theorem handleChunk_prov {A : Nat → Attempt → Prop} {s s' : State} {r k amt j : Nat} {X Z d : List Cell} {rs : Resp}
    (p : ProvF A s (some (r, X, Z))) (hr : s.resps[r]? = some rs) (hk : rs.fp = some k)
    (hch : rs.chunked = true) (hnh : rs.isHead = false) (hcl : rs.chunkLeft = some (j + 1))
    (h : handleChunk s r k amt = (s', .data d)) :
    ProvF A s' (some (r, X ++ d, Z)) ∧ ∃ (rs' : Resp) (m : List Cell), ReadRelP r k s s' m ∧ s'.resps[r]? = some rs' := by
  unfold handleChunk at h
  have hcl' : chunkLeftOf s r = some (j + 1) := by simp [chunkLeftOf, hr, hcl]
  rw [hcl'] at h
  dsimp only at h
  -- the parser stands inside a chunk
  have hposE : ∀ a hd Rem, hd.chunked = true → Expect rs.rid a hd (respPos rs) X Rem → Expect rs.rid a hd (.data (j + 1)) X Rem ∧ rs.hcLeft = none := by
    intro a hd Rem hc hE
    cases hhc : rs.hcLeft with
    | some v =>
      exfalso
      have : respPos rs = .bad := by simp [respPos, hcl, hhc]
      rw [this, expect_chunked hc] at hE
      obtain ⟨_, _, f⟩ := hE; exact f
    | none =>
      have : respPos rs = .data (j + 1) := by simp [respPos, hcl, hhc]
      rw [this] at hE; exact ⟨hE, rfl⟩
  split at h
  · rename_i hlt
    generalize hsr : safeRead s r k amt = res at h
    obtain ⟨s1, o⟩ := res
    obtain ⟨m, rel, hd⟩ := safeRead_rel hsr
    cases o with
    | exc e => cases h
    | data d0 =>
      obtain ⟨hdm, hlen⟩ := hd d0 rfl
      subst hdm
      cases h
      obtain ⟨b, hb⟩ := rel.rsame rs hr
      have relP : ReadRelP r k s (setResp s1 r fun x => { x with chunkLeft := some (j + 1 - amt) }) (d ++ []) :=
        rel.toP.trans (setParse_relP r k s1 _ (fun x => ⟨rfl, rfl, rfl, rfl, rfl, rfl, rfl, rfl, rfl, rfl⟩))
      rw [List.append_nil] at relP
      have hr' : (setResp s1 r fun x => { x with chunkLeft := some (j + 1 - amt) }).resps[r]? =
          some { rs with buf := b, chunkLeft := some (j + 1 - amt) } := by
        simp [setResp, List.getElem?_modify, hb]
      refine ⟨read_chunk p hr hk hch hnh relP hr' ?_, _, d, relP, hr'⟩
      intro a hd' Rem hc hE hm
      obtain ⟨hE', hhc⟩ := hposE a hd' Rem hc hE
      obtain ⟨g1, _⟩ := expect_data_take hc hE' hm hlen (by omega)
      obtain ⟨i, hi⟩ : ∃ i, j + 1 - amt = i + 1 := ⟨j - amt, by omega⟩
      have := g1 hlt
      rw [hlen]
      simp only [respPos, hhc, hi]
      rw [hi] at this; exact this
  · rename_i hge
    generalize hsr : safeRead s r k (j + 1) = res at h
    obtain ⟨s1, o⟩ := res
    obtain ⟨m1, rel1, hd1⟩ := safeRead_rel hsr
    cases o with
    | exc e => cases h
    | data d0 =>
      obtain ⟨hdm, hlen1⟩ := hd1 d0 rfl
      subst hdm
      dsimp only at h
      generalize hsr2 : safeRead s1 r k 2 = res2 at h
      obtain ⟨s2, o2⟩ := res2
      obtain ⟨m2, rel2, hd2⟩ := safeRead_rel hsr2
      cases o2 with
      | exc e => cases h
      | data d2 =>
        obtain ⟨hdm2, hlen2⟩ := hd2 d2 rfl
        subst hdm2
        cases h
        have rel12 := rel1.trans rel2
        obtain ⟨b, hb⟩ := rel12.rsame rs hr
        have relP : ReadRelP r k s (setResp s2 r fun x => { x with chunkLeft := none }) (d ++ d2 ++ []) :=
          rel12.toP.trans (setParse_relP r k s2 _ (fun x => ⟨rfl, rfl, rfl, rfl, rfl, rfl, rfl, rfl, rfl, rfl⟩))
        rw [List.append_nil] at relP
        have hr' : (setResp s2 r fun x => { x with chunkLeft := none }).resps[r]? =
            some { rs with buf := b, chunkLeft := none } := by
          simp [setResp, List.getElem?_modify, hb]
        refine ⟨read_chunk p hr hk hch hnh relP hr' ?_, _, _, relP, hr'⟩
        intro a hd' Rem hc hE hm
        obtain ⟨hE', hhc⟩ := hposE a hd' Rem hc hE
        have hm1 : d <+: Rem := prefix_of_append_prefix hm
        obtain ⟨_, g2⟩ := expect_data_take hc hE' hm1 hlen1 (Nat.le_refl _)
        have g3 := expect_crlf_drop (m := d2) hc (g2 rfl) hlen2
        have hm2 : d2 <+: Rem.drop d.length := prefix_drop_of_append hm
        simp only [respPos, hhc]
        have e : (Rem.drop (j + 1)).drop d2.length = Rem.drop (d ++ d2).length := by
          rw [List.drop_drop]; congr 1; simp; omega
        rw [← e]; exact g3

theorem deliver_resp_at {s : State} {r : Nat} {rs : Resp} (d : List Cell) (hr : s.resps[r]? = some rs) :
    (deliver s r d).resps[r]? = some { rs with delivered := rs.delivered ++ d } := by
  simp [deliver, setResp, List.getElem?_modify, hr]

theorem chunkLoop_prov {A : Nat → Attempt → Prop} {r k amt : Nat} : ∀ (fuel : Nat) (s s' : State) (acc : List Cell) (out : DataOut) (rs : Resp),
    Prov A s → s.resps[r]? = some rs → rs.fp = some k → rs.chunked = true → rs.isHead = false →
    chunkLoop fuel s r k amt acc = (s', out) →
    (∀ d, out = .data d → Prov A s' ∧ ∃ rs' : Resp, s'.resps[r]? = some rs' ∧ rs'.fp = some k) ∧
    (∀ e, out = .exc e → ExcPost A r s') := by
  intro fuel
  induction fuel with
  | zero =>
    intro s s' acc out rs p hr hk hch hnh h
    simp [chunkLoop] at h; obtain ⟨rfl, rfl⟩ := h
    exact ⟨(by intro d hd; cases hd), fun _ _ => excPost_of_provF (focus_intro p r)⟩
  | succ fuel ih =>
    intro s s' acc out rs p hr hk hch hnh h
    have pf := focus_intro p r
    unfold chunkLoop at h
    obtain ⟨sd, dd, dst⟩ := updateChunkLength_shape s r k
    generalize hu : updateChunkLength s r k = res at h dst
    obtain ⟨s1, oe⟩ := res
    cases oe with
    | some e =>
      cases h
      exact ⟨(by intro d hd; cases hd), fun _ _ => (excPost_of_dirty pf hr hk dd).safe dst⟩
    | none =>
      dsimp only at h
      obtain ⟨p1, rs1, m1, rel1, hr1, hsome⟩ := updateChunkLength_prov pf hr hk hch hnh hu
      obtain ⟨rx, hrx, a1, a2, a3, a4, a5, a6, a7, _, _⟩ := rel1.rsame rs hr
      rw [hr1] at hrx; cases hrx
      have hk1 : rs1.fp = some k := by rw [a4]; exact hk
      have hdel : delivOf s1 r = delivOf s r := by simp [delivOf, hr1, hr, a2]
      split at h
      · cases h
        refine ⟨?_, by intro e he; cases he⟩
        intro d hd
        rw [← hdel] at p1
        exact ⟨unfocus_same p1, rs1, hr1, hk1⟩
      · rename_i hne
        have hcl1 : chunkLeftOf s1 r = rs1.chunkLeft := by simp [chunkLeftOf, hr1]
        obtain ⟨j, hj⟩ : ∃ j, rs1.chunkLeft = some (j + 1) := by
          cases hc : rs1.chunkLeft with
          | none => rw [hc] at hsome; cases hsome
          | some v =>
            cases v with
            | zero => rw [hcl1, hc] at hne; simp at hne
            | succ j => exact ⟨j, rfl⟩
        have dh := handleChunk_dirty s1 r k amt
        generalize hh : handleChunk s1 r k amt = res at h dh
        obtain ⟨s2, o⟩ := res
        cases o with
        | exc e =>
          cases h
          exact ⟨(by intro d hd; cases hd), fun _ _ => excPost_of_dirty p1 hr1 hk1 dh⟩
        | data d =>
          dsimp only at h
          obtain ⟨p2, rs2, m2, rel2, hr2⟩ := handleChunk_prov p1 hr1 hk1 (by rw [a6]; exact hch) (by rw [a3]; exact hnh) hj hh
          obtain ⟨ry, hry, b1, b2, b3, b4, b5, b6, b7, _, _⟩ := rel2.rsame rs1 hr1
          rw [hr2] at hry; cases hry
          have hdel2 : delivOf s2 r = delivOf s r := by simp [delivOf, hr2, hr, b2, a2]
          have p2' := chunked_refocus_z (delivOf s2 r ++ d) p2 hr2 (by rw [b6, a6]; exact hch) (by rw [b3, a3]; exact hnh)
          rw [← hdel2] at p2'
          have p3 := deliver_prov p2'
          exact ih (deliver s2 r d) s' _ out _ p3 (deliver_resp_at d hr2) (by show rs2.fp = some k; rw [b4]; exact hk1)
            (by show rs2.chunked = true; rw [b6, a6]; exact hch) (by show rs2.isHead = false; rw [b3, a3]; exact hnh) h

/-! ### a trailer loop that ends at EOF: the peer's FIN is pending on the socket -/

theorem eolIdx_pos : ∀ (l : List Cell) (i n : Nat), eolIdx l i = some n → i < n ∧ n ≤ i + l.length := by
  intro l
  induction l with
  | nil => intro i n h; simp [eolIdx] at h
  | cons c t ih =>
    intro i n h
    simp only [eolIdx] at h
    split at h
    · cases h; simp
    · obtain ⟨g1, g2⟩ := ih (i + 1) n h
      simp; omega

theorem recvInto_eof_fin {s s' : State} {r k room : Nat} (h : recvInto s r k room = (s', .eof)) :
    FinAt s' k ∧ s'.resps = s.resps := by
  unfold recvInto at h
  dsimp only at h
  split at h
  · cases h
  · rename_i sk hsk
    split at h
    · rename_i hin
      split at h
      · rename_i haf
        cases h
        exact ⟨⟨sk, hsk, haf⟩, rfl⟩
      · cases h
      · cases h
      · cases h
    · cases h

theorem setResp_at' {s : State} {r : Nat} {rs : Resp} (g : Resp → Resp) (h : s.resps[r]? = some rs) :
    (setResp s r g).resps[r]? = some (g rs) := by
  simp [setResp, List.getElem?_modify, h]

/-- `readline()` returned nothing at all: EOF -/
theorem fpReadline_empty_fin : ∀ (fuel : Nat) (s s' : State) (r k : Nat) (acc : List Cell),
    fpReadline fuel s r k acc = (s', .data []) → (∃ rs : Resp, s.resps[r]? = some rs) → FinAt s' k := by
  intro fuel
  induction fuel with
  | zero => intro s s' r k acc h; simp [fpReadline] at h
  | succ fuel ih =>
    intro s s' r k acc h ⟨rs0, hrs0⟩
    unfold fpReadline at h
    simp only [hrs0] at h
    split at h
    · rename_i n hn
      exfalso
      obtain ⟨g1, g2⟩ := eolIdx_pos _ _ _ hn
      simp at h
      rcases h.2.2 with e | e
      · omega
      · rw [e] at g2; simp at g2; omega
    · generalize hrv : recvInto (setResp s r fun x => { x with buf := [] }) r k bufSize = res at h
      obtain ⟨s2, o⟩ := res
      cases o with
      | got =>
        dsimp only at h
        have hex : ∃ rs : Resp, s2.resps[r]? = some rs := by
          have rel := recvInto_rel (setResp s r fun x => { x with buf := [] }) r k bufSize
          rw [hrv] at rel
          obtain ⟨b, hb⟩ := rel.rsame _ (setResp_at' (fun x => { x with buf := [] }) hrs0)
          exact ⟨_, hb⟩
        exact ih s2 s' r k _ h hex
      | eof =>
        simp at h
        obtain ⟨rfl, _⟩ := h
        exact (recvInto_eof_fin hrv).1
      | exc e => cases h

/-- marking response `r` as "stopped at EOF of socket `k`" while the FIN is pending there -/
theorem setEof_dirty (r k : Nat) (s : State) (hf : (∃ rs : Resp, s.resps[r]? = some rs) → FinAt s k) :
    Dirty r k s (setResp s r fun x => { x with eofAt := some k }) := by
  refine ⟨rfl, by simp [setResp], rfl, ?_, fun _ _ => rfl, ?_, fun sk h => ⟨sk, h, rfl, id⟩⟩
  · intro i hi; simp [setResp, List.getElem?_modify, Ne.symm hi]
  · intro rs h
    refine ⟨_, setResp_at' _ h, rfl, rfl, rfl, Or.inl rfl, rfl, rfl, rfl, rfl, rfl, ?_⟩
    intro k' hk'
    cases hk'
    exact Or.inr ⟨rfl, hf ⟨rs, h⟩⟩

theorem skipTrailers_dirty (r k : Nat) : ∀ (fuel : Nat) (s : State), Dirty r k s (skipTrailers fuel s r k).1 := by
  intro fuel
  induction fuel with
  | zero => intro s; exact Dirty.refl _ _ _
  | succ fuel ih =>
    intro s
    unfold skipTrailers
    generalize hfr : fpReadline (inboundLen s k + 2) s r k [] = res
    obtain ⟨s1, o⟩ := res
    obtain ⟨m, rel, _⟩ := fpReadline_rel _ _ _ _ _ _ _ hfr
    cases o with
    | exc e => exact rel.toP.dirty
    | data line =>
      dsimp only
      split
      · rename_i hemp
        have : line = [] := by simpa using hemp
        subst this
        refine rel.toP.dirty.trans (setEof_dirty r k s1 ?_)
        intro ⟨rs1, h1⟩
        have hex : ∃ rs : Resp, s.resps[r]? = some rs := by
          have hb : r < s.resps.length := by
            rw [← rel.rlen]
            rcases Nat.lt_or_ge r s1.resps.length with h' | h'
            · exact h'
            · rw [List.getElem?_eq_none h'] at h1; cases h1
          exact ⟨_, List.getElem?_eq_getElem hb⟩
        exact fpReadline_empty_fin _ s s1 r k [] hfr hex
      · split
        · exact rel.toP.dirty.trans (setParse_dirty r k s1 _ (fun x => ⟨rfl, rfl, rfl, rfl, rfl, rfl, rfl, rfl, rfl, rfl⟩))
        · exact rel.toP.dirty.trans (ih s1)

theorem readChunkedBody_prov {A : Nat → Attempt → Prop} {s s' : State} {r amt : Nat} {out : DataOut}
    (p : Prov A s) (hc : respChunked s r = true) (h : readChunkedBody s r amt = (s', out)) :
    (∀ d, out = .data d → Prov A s') ∧ (∀ e, out = .exc e → ExcPost A r s') := by
  unfold readChunkedBody at h
  split at h
  · cases h; exact ⟨fun _ _ => p, by intro e he; cases he⟩
  · rename_i rs hr
    split at h
    · cases h; exact ⟨fun _ _ => (closeFp_safe s r).prov p, by intro e he; cases he⟩
    · rename_i hnh
      split at h
      · cases h; exact ⟨fun _ _ => p, by intro e he; cases he⟩
      · rename_i k hk
        dsimp only at h
        generalize inboundLen s k + rs.buf.length + 2 = fuel at h
        generalize hcl : chunkLoop fuel s r k amt [] = res at h
        obtain ⟨s1, o⟩ := res
        have hch : rs.chunked = true := by simpa [respChunked, hr] using hc
        · obtain ⟨q1, q2⟩ := chunkLoop_prov fuel s s1 [] o rs p hr hk hch (by simpa using hnh) hcl
          cases o with
          | exc e => cases h; exact ⟨(by intro d hd; cases hd), fun _ _ => q2 e rfl⟩
          | data d =>
            dsimp only at h
            obtain ⟨p1, rs1, hr1, hk1⟩ := q1 d rfl
            have pf := focus_intro p1 r
            have dd := skipTrailers_dirty r k fuel s1
            generalize skipTrailers fuel s1 r k = res2 at h dd
            obtain ⟨s2, oe⟩ := res2
            have ex := excPost_of_dirty pf hr1 hk1 dd
            cases oe with
            | some e => cases h; exact ⟨(by intro d hd; cases hd), fun _ _ => ex⟩
            | none =>
              cases h
              exact ⟨fun _ _ => ex _ (closeFp_safe s2 r) (closeFp_closed s2 r), by intro e he; cases he⟩

/-! ### `http.client`'s chunk reader -/

theorem fpReadline_dirty (fuel : Nat) (s : State) (r k : Nat) (acc : List Cell) : Dirty r k s (fpReadline fuel s r k acc).1 := by
  obtain ⟨m, rel, _⟩ := fpReadline_rel fuel s r k acc _ _ rfl
  exact rel.toP.dirty

theorem hcDiscardTrailer_dirty (r k : Nat) : ∀ (fuel : Nat) (s : State), Dirty r k s (hcDiscardTrailer fuel s r k).1 := by
  intro fuel
  induction fuel with
  | zero => intro s; exact Dirty.refl _ _ _
  | succ fuel ih =>
    intro s
    unfold hcDiscardTrailer
    have d1 := fpReadline_dirty (inboundLen s k + 2) s r k []
    generalize hfr : fpReadline (inboundLen s k + 2) s r k [] = res at d1
    obtain ⟨s1, o⟩ := res
    cases o with
    | exc e => exact d1
    | data line =>
      dsimp only
      split
      · rename_i hemp
        have : line = [] := by simpa using hemp
        subst this
        refine d1.trans (setEof_dirty r k s1 ?_)
        intro ⟨rs1, h1⟩
        have hex : ∃ rs : Resp, s.resps[r]? = some rs := by
          have hb : r < s.resps.length := by
            rw [← d1.rlen]
            rcases Nat.lt_or_ge r s1.resps.length with h' | h'
            · exact h'
            · rw [List.getElem?_eq_none h'] at h1; cases h1
          exact ⟨_, List.getElem?_eq_getElem hb⟩
        exact fpReadline_empty_fin _ s s1 r k [] hfr hex
      · split
        · exact d1.trans (setParse_dirty r k s1 _ (fun x => ⟨rfl, rfl, rfl, rfl, rfl, rfl, rfl, rfl, rfl, rfl⟩))
        · exact d1.trans (ih s1)

theorem hcToss_rel {s s' : State} {r k : Nat} {cl : Option Nat} {oe : Option Exc} (h : hcToss s r k cl = (s', oe)) :
    ∃ m, ReadRel r k s s' m ∧ (oe = none → (cl = none → m = []) ∧ (cl.isSome = true → m.length = 2)) := by
  unfold hcToss at h
  cases cl with
  | none => cases h; exact ⟨[], ReadRel.refl _ _ _, fun _ => ⟨fun _ => rfl, (by intro h; cases h)⟩⟩
  | some v =>
    dsimp only at h
    generalize hsr : safeRead s r k 2 = res at h
    obtain ⟨s1, o⟩ := res
    obtain ⟨m, rel, hd⟩ := safeRead_rel hsr
    cases o with
    | exc e => cases h; exact ⟨m, rel, by intro h; cases h⟩
    | data d =>
      cases h
      exact ⟨m, rel, fun _ => ⟨(by intro h; cases h), fun _ => (hd d rfl).2⟩⟩

theorem hcNext_dirty (s : State) (r k : Nat) (cl : Option Nat) : Dirty r k s (hcNext s r k cl).1 := by
  unfold hcNext
  generalize hto : hcToss s r k cl = res
  obtain ⟨s1, oe⟩ := res
  obtain ⟨m0, rel0, _⟩ := hcToss_rel hto
  have d0 := rel0.toP.dirty
  cases oe with
  | some e => exact d0
  | none =>
    dsimp only
    have d1 := fpReadline_dirty (inboundLen s1 k + 2) s1 r k []
    generalize fpReadline (inboundLen s1 k + 2) s1 r k [] = res at d1
    obtain ⟨s2, o⟩ := res
    cases o with
    | exc e => exact d0.trans d1
    | data line =>
      dsimp only
      split
      · exact (d0.trans d1).trans (closeFp_dirty s2 r k)
      · have d2 := hcDiscardTrailer_dirty r k (inboundLen s2 k + (match s2.resps[r]? with | some rs => rs.buf.length | none => 0) + 2) s2
        generalize hcDiscardTrailer (inboundLen s2 k + (match s2.resps[r]? with | some rs => rs.buf.length | none => 0) + 2) s2 r k = res at d2
        obtain ⟨s3, oe⟩ := res
        cases oe with
        | some e => exact (d0.trans d1).trans d2
        | none =>
          dsimp only
          exact (((d0.trans d1).trans d2).trans (setParse_dirty r k s3 (fun x => { x with hcLeft := none })
            (fun x => ⟨rfl, rfl, rfl, rfl, rfl, rfl, rfl, rfl, rfl, rfl⟩))).trans (closeFp_dirty _ r k)
      · exact (d0.trans d1).trans (setParse_dirty r k s2 _ (fun x => ⟨rfl, rfl, rfl, rfl, rfl, rfl, rfl, rfl, rfl, rfl⟩))

theorem hcGetChunkLeft_dirty (s : State) (r k : Nat) : Dirty r k s (hcGetChunkLeft s r k).1 := by
  unfold hcGetChunkLeft
  split
  · exact Dirty.refl _ _ _
  · exact hcNext_dirty _ _ _ _

theorem dirty_closed_provF {A : Nat → Attempt → Prop} {s0 s1 : State} {r k : Nat} {X Z : List Cell} {rs : Resp}
    (p : ProvF A s0 (some (r, X, Z))) (hr : s0.resps[r]? = some rs) (hk : rs.fp = some k) (d : Dirty r k s0 s1)
    (hc : respFpClosed s1 r = true) : ProvF A s1 (some (r, X, Z)) := by
  have uniq : ∀ (i : Nat) (ri : Resp), s0.resps[i]? = some ri → ri.fp = some k → i = r :=
    fun i ri h1 h2 => p.fpInj i r ri rs k h1 hr h2 hk
  exact (dirty_safe d uniq (Safe.refl s1) hc).prov p

theorem closeFp_closed_of {s : State} {r i : Nat} (hc : respFpClosed s i = true) : respFpClosed (closeFp s r) i = true :=
  (closeFp_safe s r).closed hc

/-- `_get_chunk_left` at the end of a chunk: the next chunk-size line -/
theorem hcNext_prov {A : Nat → Attempt → Prop} {s s' : State} {r k : Nat} {X Z : List Cell} {rs : Resp} {v : Option Nat}
    (p : ProvF A s (some (r, X, Z))) (hr : s.resps[r]? = some rs) (hk : rs.fp = some k)
    (hch : rs.chunked = true) (hnh : rs.isHead = false) (hcl : ∀ j, rs.hcLeft ≠ some (j + 1))
    (h : hcNext s r k rs.hcLeft = (s', .left v)) :
    ProvF A s' (some (r, X, Z)) ∧
    (v = none → respFpClosed s' r = true) ∧
    (∀ cl, v = some cl → ∃ (rs' : Resp) (m : List Cell) (j : Nat), ReadRelP r k s s' m ∧ s'.resps[r]? = some rs' ∧
      rs'.hcLeft = some cl ∧ cl = j + 1) := by
  have dall := hcNext_dirty s r k rs.hcLeft
  rw [h] at dall
  unfold hcNext at h
  generalize hto : hcToss s r k rs.hcLeft = res at h
  obtain ⟨s1, oe⟩ := res
  obtain ⟨m0, rel0, hm0⟩ := hcToss_rel hto
  cases oe with
  | some e => cases h
  | none =>
    obtain ⟨hm0n, hm0s⟩ := hm0 rfl
    dsimp only at h
    generalize hfr : fpReadline (inboundLen s1 k + 2) s1 r k [] = res at h
    obtain ⟨s2, o⟩ := res
    obtain ⟨m1, rel1, hd1⟩ := fpReadline_rel _ _ _ _ _ _ _ hfr
    cases o with
    | exc e => cases h
    | data line =>
      have hlm : line = m1 := by simpa using hd1 line rfl
      subst hlm
      dsimp only at h
      split at h
      · cases h
      · -- the last chunk: trailer section, `_close_conn()`
        generalize hcDiscardTrailer _ s2 r k = res at h
        obtain ⟨s3, oe⟩ := res
        cases oe with
        | some e => cases h
        | none =>
          cases h
          have hc : respFpClosed (closeFp (setResp s3 r fun x => { x with hcLeft := none }) r) r = true := closeFp_closed _ r
          exact ⟨dirty_closed_provF p hr hk dall hc, fun _ => hc, (by intro cl hcl'; cases hcl')⟩
      · rename_i n hsz
        cases h
        have rel01 := rel0.trans rel1
        obtain ⟨b, hb⟩ := rel01.rsame rs hr
        have relP : ReadRelP r k s (setResp s2 r fun x => { x with hcLeft := some (n + 1) }) (m0 ++ line ++ []) :=
          rel01.toP.trans (setParse_relP r k s2 _ (fun x => ⟨rfl, rfl, rfl, rfl, rfl, rfl, rfl, rfl, rfl, rfl⟩))
        rw [List.append_nil] at relP
        have hr' : (setResp s2 r fun x => { x with hcLeft := some (n + 1) }).resps[r]? =
            some { rs with buf := b, hcLeft := some (n + 1) } := by
          simp [setResp, List.getElem?_modify, hb]
        refine ⟨read_chunk p hr hk hch hnh relP hr' ?_, (by intro hv; cases hv), ?_⟩
        · intro a hd' Rem hc hE hm
          have hml : line <+: Rem.drop m0.length := prefix_drop_of_append hm
          -- where was the parser?
          cases hcL : rs.chunkLeft with
          | some w =>
            exfalso
            cases hhc : rs.hcLeft with
            | some u =>
              have : respPos rs = .bad := by simp [respPos, hcL, hhc]
              rw [this, expect_chunked hc] at hE
              obtain ⟨_, _, f⟩ := hE; exact f
            | none =>
              have hm0' : m0 = [] := hm0n hhc
              subst hm0'
              have hpos : respPos rs ≠ .size := by cases w <;> simp [respPos, hcL, hhc]
              exact expect_no_size hc hpos hE (by simpa using hml) hsz
          | none =>
            cases hhc : rs.hcLeft with
            | none =>
              have hm0' : m0 = [] := hm0n hhc
              subst hm0'
              have hpos : respPos rs = .size := by simp [respPos, hcL, hhc]
              rw [hpos] at hE
              obtain ⟨_, g1⟩ := expect_size_line hc hE (by simpa using hml) hsz
              simp only [respPos, hcL]
              simpa using g1 n rfl
            | some u =>
              cases u with
              | succ j => exact absurd hhc (hcl j)
              | zero =>
                have hpos : respPos rs = .crlf := by simp [respPos, hcL, hhc]
                rw [hpos] at hE
                have hl0 : m0.length = 2 := hm0s (by rw [hhc]; rfl)
                have g0 := expect_crlf_drop (m := m0) hc hE hl0
                obtain ⟨_, g1⟩ := expect_size_line hc g0 hml hsz
                simp only [respPos, hcL]
                have e : (Rem.drop m0.length).drop line.length = Rem.drop (m0 ++ line).length := by
                  rw [List.drop_drop]; congr 1; simp
                rw [← e]; exact g1 n rfl
        · intro cl hcl'
          cases hcl'
          exact ⟨_, _, n, relP, hr', rfl, rfl⟩

theorem hcGetChunkLeft_prov {A : Nat → Attempt → Prop} {s s' : State} {r k : Nat} {X Z : List Cell} {rs : Resp} {v : Option Nat}
    (p : ProvF A s (some (r, X, Z))) (hr : s.resps[r]? = some rs) (hk : rs.fp = some k)
    (hch : rs.chunked = true) (hnh : rs.isHead = false) (h : hcGetChunkLeft s r k = (s', .left v)) :
    ProvF A s' (some (r, X, Z)) ∧
    (v = none → respFpClosed s' r = true) ∧
    (∀ cl, v = some cl → ∃ (rs' : Resp) (m : List Cell) (j : Nat), ReadRelP r k s s' m ∧ s'.resps[r]? = some rs' ∧
      rs'.hcLeft = some cl ∧ cl = j + 1) := by
  unfold hcGetChunkLeft at h
  have hl : hcLeftOf s r = rs.hcLeft := by simp [hcLeftOf, hr]
  rw [hl] at h
  split at h
  · rename_i n hn
    cases h
    exact ⟨p, (by intro hv; cases hv), fun cl hcl => by cases hcl; exact ⟨rs, [], n, ReadRelP.refl _ _ _, hr, hn, rfl⟩⟩
  · rename_i hne
    exact hcNext_prov p hr hk hch hnh (fun j hj => hne j hj) h

theorem hcReadChunked_dirty (r k : Nat) : ∀ (fuel : Nat) (s : State) (amt : Option Nat) (acc : List Cell),
    Dirty r k s (hcReadChunked fuel s r k amt acc).1 := by
  intro fuel
  induction fuel with
  | zero => intro s amt acc; exact Dirty.refl _ _ _
  | succ fuel ih =>
    intro s amt acc
    unfold hcReadChunked
    have d0 := hcGetChunkLeft_dirty s r k
    generalize hcGetChunkLeft s r k = res at d0
    obtain ⟨s1, lo⟩ := res
    cases lo with
    | exc e => exact d0
    | left v =>
      cases v with
      | none => exact d0
      | some cl =>
        dsimp only
        split
        · rename_i n _
          have d1 := safeRead_dirty s1 r k n
          generalize safeRead s1 r k n = res at d1
          obtain ⟨s2, o⟩ := res
          cases o with
          | exc e => exact d0.trans d1
          | data d => exact (d0.trans d1).trans (setParse_dirty r k s2 _ (fun x => ⟨rfl, rfl, rfl, rfl, rfl, rfl, rfl, rfl, rfl, rfl⟩))
        · have d1 := safeRead_dirty s1 r k cl
          generalize safeRead s1 r k cl = res at d1
          obtain ⟨s2, o⟩ := res
          cases o with
          | exc e => exact d0.trans d1
          | data d =>
            exact ((d0.trans d1).trans (setParse_dirty r k s2 (fun x => { x with hcLeft := some 0 })
              (fun x => ⟨rfl, rfl, rfl, rfl, rfl, rfl, rfl, rfl, rfl, rfl⟩))).trans (ih _ _ _)

theorem hcReadChunked_prov {A : Nat → Attempt → Prop} {r k : Nat} {Z : List Cell} : ∀ (fuel : Nat) (s s' : State) (amt : Option Nat)
    (acc X : List Cell) (out : DataOut) (rs : Resp),
    ProvF A s (some (r, X, Z)) → s.resps[r]? = some rs → rs.fp = some k → rs.chunked = true → rs.isHead = false →
    hcReadChunked fuel s r k amt acc = (s', out) →
    (∀ d, out = .data d → ∃ m', d = acc ++ m' ∧ ProvF A s' (some (r, X ++ m', Z))) ∧
    (amt = none → ∀ d, out = .data d → respFpClosed s' r = true) := by
  intro fuel
  induction fuel with
  | zero =>
    intro s s' amt acc X out rs p hr hk hch hnh h
    simp [hcReadChunked] at h; obtain ⟨rfl, rfl⟩ := h
    exact ⟨(by intro d hd; cases hd), by intro _ d hd; cases hd⟩
  | succ fuel ih =>
    intro s s' amt acc X out rs p hr hk hch hnh h
    unfold hcReadChunked at h
    generalize hg : hcGetChunkLeft s r k = res at h
    obtain ⟨s1, lo⟩ := res
    cases lo with
    | exc e => cases h; exact ⟨(by intro d hd; cases hd), by intro _ d hd; cases hd⟩
    | left v =>
      obtain ⟨p1, hnone, hsome⟩ := hcGetChunkLeft_prov p hr hk hch hnh hg
      cases v with
      | none =>
        cases h
        refine ⟨?_, fun _ _ _ => hnone rfl⟩
        intro d hd; cases hd
        exact ⟨[], by simp, by simpa using p1⟩
      | some cl =>
        obtain ⟨rs1, m1, j, rel1, hr1, hl1, hj⟩ := hsome cl rfl
        subst hj
        obtain ⟨rx, hrx, a1, a2, a3, a4, a5, a6, a7, _, _⟩ := rel1.rsame rs hr
        rw [hr1] at hrx; cases hrx
        have hk1 : rs1.fp = some k := by rw [a4]; exact hk
        have hch1 : rs1.chunked = true := by rw [a6]; exact hch
        have hnh1 : rs1.isHead = false := by rw [a3]; exact hnh
        -- the parser stands inside a chunk with `j + 1` bytes left
        have hposE : ∀ a hd Rem, hd.chunked = true → Expect rs1.rid a hd (respPos rs1) X Rem →
            Expect rs1.rid a hd (.data (j + 1)) X Rem ∧ rs1.chunkLeft = none := by
          intro a hd Rem hc hE
          cases hcL : rs1.chunkLeft with
          | some w =>
            exfalso
            have : respPos rs1 = .bad := by cases w <;> simp [respPos, hcL, hl1]
            rw [this, expect_chunked hc] at hE
            obtain ⟨_, _, f⟩ := hE; exact f
          | none =>
            have : respPos rs1 = .data (j + 1) := by simp [respPos, hcL, hl1]
            rw [this] at hE; exact ⟨hE, rfl⟩
        dsimp only at h
        split at h
        · rename_i n hshort
          have hn : n ≤ j + 1 := by
            cases amt with
            | none => cases hshort
            | some n' =>
              dsimp only at hshort
              split at hshort
              · cases hshort; assumption
              · cases hshort
          generalize hsr : safeRead s1 r k n = res at h
          obtain ⟨s2, o⟩ := res
          obtain ⟨m, rel, hd⟩ := safeRead_rel hsr
          cases o with
          | exc e => cases h; exact ⟨(by intro d hd; cases hd), by intro _ d hd; cases hd⟩
          | data d0 =>
            obtain ⟨hdm, hlen⟩ := hd d0 rfl
            subst hdm
            cases h
            have hamt : amt ≠ none := by
              intro e; rw [e] at hshort; cases hshort
            refine ⟨?_, fun e => absurd e hamt⟩
            intro d hd'; cases hd'
            refine ⟨d0, rfl, ?_⟩
            obtain ⟨b, hb⟩ := rel.rsame rs1 hr1
            have relP : ReadRelP r k s1 (setResp s2 r fun x => { x with hcLeft := some (j + 1 - n) }) (d0 ++ []) :=
              rel.toP.trans (setParse_relP r k s2 _ (fun x => ⟨rfl, rfl, rfl, rfl, rfl, rfl, rfl, rfl, rfl, rfl⟩))
            rw [List.append_nil] at relP
            have hr' : (setResp s2 r fun x => { x with hcLeft := some (j + 1 - n) }).resps[r]? =
                some { rs1 with buf := b, hcLeft := some (j + 1 - n) } := by
              simp [setResp, List.getElem?_modify, hb]
            refine read_chunk p1 hr1 hk1 hch1 hnh1 relP hr' ?_
            intro a hd' Rem hc hE hm
            obtain ⟨hE', hcL⟩ := hposE a hd' Rem hc hE
            obtain ⟨g1, g2⟩ := expect_data_take hc hE' hm hlen hn
            rw [hlen]
            rcases Nat.lt_or_ge n (j + 1) with hlt | hge
            · obtain ⟨i, hi⟩ : ∃ i, j + 1 - n = i + 1 := ⟨j - n, by omega⟩
              have := g1 hlt
              simp only [respPos, hcL, hi]
              rw [hi] at this; exact this
            · have hEq : n = j + 1 := by omega
              have := g2 hEq
              have h0 : j + 1 - n = 0 := by omega
              simp only [respPos, hcL, h0]
              exact this
        · generalize hsr : safeRead s1 r k (j + 1) = res at h
          obtain ⟨s2, o⟩ := res
          obtain ⟨m, rel, hd⟩ := safeRead_rel hsr
          cases o with
          | exc e => cases h; exact ⟨(by intro d hd; cases hd), by intro _ d hd; cases hd⟩
          | data d0 =>
            obtain ⟨hdm, hlen⟩ := hd d0 rfl
            subst hdm
            dsimp only at h
            obtain ⟨b, hb⟩ := rel.rsame rs1 hr1
            have relP : ReadRelP r k s1 (setResp s2 r fun x => { x with hcLeft := some 0 }) (d0 ++ []) :=
              rel.toP.trans (setParse_relP r k s2 _ (fun x => ⟨rfl, rfl, rfl, rfl, rfl, rfl, rfl, rfl, rfl, rfl⟩))
            rw [List.append_nil] at relP
            have hr' : (setResp s2 r fun x => { x with hcLeft := some 0 }).resps[r]? =
                some { rs1 with buf := b, hcLeft := some 0 } := by
              simp [setResp, List.getElem?_modify, hb]
            have p2 : ProvF A (setResp s2 r fun x => { x with hcLeft := some 0 }) (some (r, X ++ d0, Z)) := by
              refine read_chunk p1 hr1 hk1 hch1 hnh1 relP hr' ?_
              intro a hd' Rem hc hE hm
              obtain ⟨hE', hcL⟩ := hposE a hd' Rem hc hE
              obtain ⟨_, g2⟩ := expect_data_take hc hE' hm hlen (Nat.le_refl _)
              rw [hlen]
              simp only [respPos, hcL]
              exact g2 rfl
            obtain ⟨i1, i2⟩ := ih _ s' _ _ (X ++ d0) out _ p2 hr' hk1 hch1 hnh1 h
            refine ⟨?_, ?_⟩
            · intro d hd'
              obtain ⟨m'', e1, e2⟩ := i1 d hd'
              exact ⟨d0 ++ m'', by rw [e1]; simp, by simpa using e2⟩
            · intro hnone d hd'
              exact i2 (by rw [hnone]; rfl) d hd'

/-- what the three outcomes of a read mean for the focus -/
def ReadPost (A : Nat → Attempt → Prop) (r : Nat) (X : List Cell) (s' : State) (out : DataOut) : Prop :=
  (∀ d, out = .data d → ProvF A s' (some (r, X ++ d, X ++ d))) ∧
  (∀ e, out = .exc e → ExcPost A r s')

theorem httpRead_prov {A : Nat → Attempt → Prop} {s s' : State} {r : Nat} {X : List Cell} {amt : Option Nat} {out : DataOut}
    (p : ProvF A s (some (r, X, X))) (h : httpRead s r amt = (s', out)) :
    ReadPost A r X s' out ∧ (amt = none → ∀ d, out = .data d → respFpClosed s' r = true) := by
  have triv : ∀ t : State, ProvF A t (some (r, X, X)) → respFpClosed t r = true →
      ReadPost A r X t (.data []) ∧ (amt = none → ∀ d, DataOut.data [] = .data d → respFpClosed t r = true) := by
    intro t pt hc
    refine ⟨⟨?_, ?_⟩, fun _ _ _ => hc⟩
    · intro d hd; cases hd; simpa using pt
    · intro e he; cases he
  unfold httpRead at h
  split at h
  · rename_i hn
    simp at h; obtain ⟨rfl, rfl⟩ := h
    exact triv _ p (by simp [respFpClosed, hn])
  · rename_i rs hrs
    split at h
    · rename_i hfp
      simp at h; obtain ⟨rfl, rfl⟩ := h
      exact triv _ p (by simp [respFpClosed, hrs, hfp])
    · rename_i k hk
      split at h
      · simp at h; obtain ⟨rfl, rfl⟩ := h
        exact triv _ ((closeFp_safe s r).prov p) (closeFp_closed s r)
      · rename_i hhead
        split at h
        · -- `Transfer-Encoding: chunked`: `_read_chunked`
          rename_i hch
          have dd := hcReadChunked_dirty r k (inboundLen s k + rs.buf.length + 2) s amt []
          rw [h] at dd
          obtain ⟨q1, q2⟩ := hcReadChunked_prov _ s s' amt [] X out rs p hrs hk hch (by simpa using hhead) h
          refine ⟨⟨?_, fun _ _ => excPost_of_dirty p hrs hk dd⟩, q2⟩
          intro d hd
          obtain ⟨m', e1, e2⟩ := q1 d hd
          simp at e1; subst e1
          obtain ⟨rs', h1, _, _, a3, _, _, a6, _, _, _⟩ := dd.rsame rs hrs
          exact chunked_refocus_z _ e2 h1 (by rw [a6]; exact hch) (by rw [a3]; simpa using hhead)
        rename_i hch
        have hch : rs.chunked = false := by simpa using hch
        simp only at h
        generalize hfuel : inboundLen s k + 2 = fuel at h
        cases amt with
        | some n =>
          simp only at h
          cases hlen0 : rs.length with
          | none =>
            simp only [hlen0] at h
            generalize hfr : fpRead fuel s r k n [] = res at h
            obtain ⟨s1, o⟩ := res
            obtain ⟨m, rel, hlen, hd⟩ := fpRead_rel _ _ _ _ _ _ _ _ hfr
            have p1 := read_prov p hrs hk rel hch (fun l hl => by rw [hlen0] at hl; cases hl)
            obtain ⟨rs1, hrs1, hl1, hfp1⟩ := rel.resp_at hrs
            cases o with
            | exc e =>
              simp at h; obtain ⟨rfl, rfl⟩ := h
              exact ⟨⟨(by intro d hd; cases hd), fun _ _ => excPost_of_provF p1⟩, by intro h; cases h⟩
            | data d =>
              have hdm : d = m := by simpa using hd d rfl
              subst hdm
              simp only at h
              split at h
              · simp at h; obtain ⟨rfl, rfl⟩ := h
                refine ⟨⟨?_, by intro e he; cases he⟩, by intro h; cases h⟩
                intro d' hd'; cases hd'
                exact closed_refocus _ ((closeFp_safe s1 r).prov p1) (closeFp_closed s1 r)
              · simp at h; obtain ⟨rfl, rfl⟩ := h
                refine ⟨⟨?_, by intro e he; cases he⟩, by intro h; cases h⟩
                intro d' hd'; cases hd'
                exact lennone_refocus _ p1 hrs1 (by rw [hl1, hlen0])
          | some l =>
            simp only [hlen0] at h
            generalize hn' : (if n > l then l else n) = n' at h
            have hb : n' ≤ l := by split at hn' <;> omega
            generalize hfr : fpRead fuel s r k n' [] = res at h
            obtain ⟨s1, o⟩ := res
            obtain ⟨m, rel, hlen, hd⟩ := fpRead_rel _ _ _ _ _ _ _ _ hfr
            have p1 := read_prov p hrs hk rel hch (fun l' hl => by rw [hlen0] at hl; cases hl; omega)
            obtain ⟨rs1, hrs1, hl1, hfp1⟩ := rel.resp_at hrs
            cases o with
            | exc e =>
              simp at h; obtain ⟨rfl, rfl⟩ := h
              exact ⟨⟨(by intro d hd; cases hd), fun _ _ => excPost_of_provF p1⟩, by intro h; cases h⟩
            | data d =>
              have hdm : d = m := by simpa using hd d rfl
              subst hdm
              simp only at h
              split at h
              · simp at h; obtain ⟨rfl, rfl⟩ := h
                refine ⟨⟨?_, by intro e he; cases he⟩, by intro h; cases h⟩
                intro d' hd'; cases hd'
                exact closed_refocus _ ((closeFp_safe s1 r).prov p1) (closeFp_closed s1 r)
              · have p2 := setlen_prov (l' := l - d.length) p1 hrs1 (by rw [hl1, hlen0]) (by simp; omega)
                split at h
                · simp at h; obtain ⟨rfl, rfl⟩ := h
                  refine ⟨⟨?_, by intro e he; cases he⟩, by intro h; cases h⟩
                  intro d' hd'; cases hd'
                  exact (closeFp_safe _ r).prov p2
                · simp at h; obtain ⟨rfl, rfl⟩ := h
                  refine ⟨⟨?_, by intro e he; cases he⟩, by intro h; cases h⟩
                  intro d' hd'; cases hd'
                  exact p2
        | none =>
          simp only at h
          cases hlen0 : rs.length with
          | none =>
            simp only [hlen0] at h
            generalize hfr : fpReadAll fuel s r k [] = res at h
            obtain ⟨s1, o⟩ := res
            obtain ⟨m, rel, hd⟩ := fpReadAll_rel _ _ _ _ _ _ _ hfr
            have p1 := read_prov p hrs hk rel hch (fun l hl => by rw [hlen0] at hl; cases hl)
            cases o with
            | exc e =>
              simp at h; obtain ⟨rfl, rfl⟩ := h
              exact ⟨⟨(by intro d hd; cases hd), fun _ _ => excPost_of_provF p1⟩, by intro _ d hd; cases hd⟩
            | data d =>
              have hdm : d = m := by simpa using hd d rfl
              subst hdm
              simp at h; obtain ⟨rfl, rfl⟩ := h
              refine ⟨⟨?_, by intro e he; cases he⟩, fun _ _ _ => closeFp_closed s1 r⟩
              intro d' hd'; cases hd'
              exact closed_refocus _ ((closeFp_safe s1 r).prov p1) (closeFp_closed s1 r)
          | some l =>
            simp only [hlen0] at h
            generalize hfr : fpRead fuel s r k l [] = res at h
            obtain ⟨s1, o⟩ := res
            obtain ⟨m, rel, hlen, hd⟩ := fpRead_rel _ _ _ _ _ _ _ _ hfr
            have p1 := read_prov p hrs hk rel hch (fun l' hl => by rw [hlen0] at hl; cases hl; omega)
            cases o with
            | exc e =>
              simp at h; obtain ⟨rfl, rfl⟩ := h
              exact ⟨⟨(by intro d hd; cases hd), fun _ _ => excPost_of_provF p1⟩, by intro _ d hd; cases hd⟩
            | data d =>
              have hdm : d = m := by simpa using hd d rfl
              subst hdm
              simp only at h
              split at h
              · simp at h; obtain ⟨rfl, rfl⟩ := h
                exact ⟨⟨(by intro d hd; cases hd), fun _ _ => excPost_of_provF ((closeFp_safe s1 r).prov p1)⟩, by intro _ d hd; cases hd⟩
              · simp at h; obtain ⟨rfl, rfl⟩ := h
                refine ⟨⟨?_, by intro e he; cases he⟩, fun _ _ _ => closeFp_closed _ r⟩
                intro d' hd'; cases hd'
                obtain ⟨rs1, hrs1, hl1, hfp1⟩ := rel.resp_at hrs
                have p2 := setlen_prov (l' := 0) p1 hrs1 (by rw [hl1, hlen0]) (by simp; omega)
                exact (closeFp_safe _ r).prov p2

theorem respClose_closed (s : State) (r : Nat) : respFpClosed (respClose s r) r = true := by
  have h1 := closeFp_closed s r
  unfold respClose
  dsimp only
  generalize closeFp s r = t at h1
  split
  · exact h1
  · split
    · exact (connClose_safe _ _).closed h1
    · exact h1

theorem errorCatcherExit_false_closed (s : State) (r : Nat) : respFpClosed (errorCatcherExit s r false).1 r = true := by
  have h := respClose_closed s r
  have e : (errorCatcherExit s r false) =
      (if respFpClosed (respClose s r) r then releaseConn (respClose s r) r else (respClose s r, none)) := rfl
  rw [e, h]
  exact (releaseConn_safe _ _).closed h

theorem errorCatcherExit_true_raise {s : State} {r : Nat} {e : Exc} (h : (errorCatcherExit s r true).2 = some e) :
    respFpClosed s r = true := by
  have e' : (errorCatcherExit s r true) = (if respFpClosed s r then releaseConn s r else (s, none)) := rfl
  rw [e'] at h
  by_cases hc : respFpClosed s r = true
  · exact hc
  · simp [hc] at h

/-- the `IncompleteRead` test of `_raw_read` -/
def rawMid (r : Nat) (amt : Option Nat) (s : State) (out : DataOut) : State × DataOut :=
  match out, amt with
  | .data d, some n =>
    if n != 0 && d.isEmpty then
      let s := closeFp s r
      match s.resps[r]? with
      | some rs => match rs.length with
        | some l => if l != 0 then (s, DataOut.exc (exc Gen.cU3IncompleteRead)) else (s, out)
        | none => (s, out)
      | none => (s, out)
    else (s, out)
  | _, _ => (s, out)

/-- leaving `_error_catcher` -/
def rawTail (r : Nat) (s : State) (out : DataOut) : State × DataOut :=
  match out with
  | .exc e =>
    match errorCatcherExit s r false with
    | (s, some e') => (s, .exc e')
    | (s, none) => (s, .exc (translateRead e))
  | .data d =>
    match errorCatcherExit s r true with
    | (s, some e') => (s, .exc e')
    | (s, none) => (s, .data d)

theorem rawRead_eq (s : State) (r : Nat) (amt : Option Nat) :
    rawRead s r amt = rawTail r (rawMid r amt (httpRead s r amt).1 (httpRead s r amt).2).1
      (rawMid r amt (httpRead s r amt).1 (httpRead s r amt).2).2 := rfl

/-- `_raw_read` under `_error_catcher` -/
theorem rawRead_prov {A : Nat → Attempt → Prop} {s s' : State} {r : Nat} {X : List Cell} {amt : Option Nat} {out : DataOut}
    (p : ProvF A s (some (r, X, X))) (h : rawRead s r amt = (s', out)) :
    (∀ d, out = .data d → ProvF A s' (some (r, X ++ d, X ++ d))) ∧ (∀ e, out = .exc e → Prov A s') ∧
    (amt = none → ∀ d, out = .data d → respFpClosed s' r = true) := by
  rw [rawRead_eq] at h
  generalize hh : httpRead s r amt = res at h
  obtain ⟨s1, o1⟩ := res
  obtain ⟨post1, cl1⟩ := httpRead_prov p hh
  dsimp only at h
  generalize hmid : rawMid r amt s1 o1 = mid at h
  obtain ⟨s2, o2⟩ := mid
  dsimp only at h
  have post2 : ReadPost A r X s2 o2 ∧ (amt = none → ∀ d, o2 = .data d → respFpClosed s2 r = true) := by
    have keep : ∀ t : State, Safe s1 t → ReadPost A r X t o1 := by
      intro t st
      exact ⟨fun d hd => st.prov (post1.1 d hd), fun e he => (post1.2 e he).safe st⟩
    unfold rawMid at hmid
    split at hmid
    · rename_i d n
      split at hmid
      · dsimp only at hmid
        have st := closeFp_safe s1 r
        have hexc : ReadPost A r X (closeFp s1 r) (.exc (exc Gen.cU3IncompleteRead)) := by
          exact ⟨(by intro d' hd'; cases hd'), fun _ _ => excPost_of_provF (st.prov (post1.1 d rfl))⟩
        split at hmid
        · split at hmid
          · split at hmid
            · cases hmid; exact ⟨hexc, by intro h; cases h⟩
            · cases hmid; exact ⟨keep _ st, by intro h; cases h⟩
          · cases hmid; exact ⟨keep _ st, by intro h; cases h⟩
        · cases hmid; exact ⟨keep _ st, by intro h; cases h⟩
      · cases hmid; exact ⟨keep _ (Safe.refl _), by intro h; cases h⟩
    · cases hmid; exact ⟨keep _ (Safe.refl _), cl1⟩
  obtain ⟨post2, cl2⟩ := post2
  unfold rawTail at h
  cases o2 with
  | exc e =>
    dsimp only at h
    have q := post2.2 e rfl
    have st := errorCatcherExit_safe s2 r false
    have hc := errorCatcherExit_false_closed s2 r
    generalize errorCatcherExit s2 r false = res at h st hc
    obtain ⟨s3, oe⟩ := res
    have pf : Prov A s3 := q s3 st hc
    cases oe <;> (simp at h; obtain ⟨rfl, rfl⟩ := h
                  exact ⟨(by intro d hd; cases hd), fun _ _ => pf, by intro _ d hd; cases hd⟩)
  | data d =>
    dsimp only at h
    have q := post2.1 d rfl
    have st := errorCatcherExit_safe s2 r true
    have hr := @errorCatcherExit_true_raise s2 r
    generalize errorCatcherExit s2 r true = res at h st hr
    obtain ⟨s3, oe⟩ := res
    cases oe with
    | some e' =>
      simp at h; obtain ⟨rfl, rfl⟩ := h
      have hc := st.closed (hr rfl)
      exact ⟨(by intro d hd; cases hd), fun _ _ => closed_unfocus (st.prov q) hc, by intro _ d hd; cases hd⟩
    | none =>
      simp at h; obtain ⟨rfl, rfl⟩ := h
      refine ⟨?_, (by intro e he; cases he), ?_⟩
      · intro d' hd'; cases hd'; exact st.prov q
      · intro ha d' hd'; exact st.closed (cl2 ha d rfl)

/-- `b"".join(response.read_chunked(amt))` -/
theorem readChunked_prov {A : Nat → Attempt → Prop} {s : State} {r amt : Nat} (p : Prov A s) (hc : respChunked s r = true) :
    Prov A (readChunked s r amt).1 := by
  unfold readChunked
  generalize hb : readChunkedBody s r amt = res
  obtain ⟨s1, o⟩ := res
  obtain ⟨q1, q2⟩ := readChunkedBody_prov p hc hb
  dsimp only
  unfold catcherExit
  cases o with
  | exc e =>
    dsimp only
    have st := errorCatcherExit_safe s1 r false
    have hcl := errorCatcherExit_false_closed s1 r
    generalize errorCatcherExit s1 r false = res at st hcl
    obtain ⟨s2, oe⟩ := res
    have := q2 e rfl s2 st hcl
    cases oe <;> exact this
  | data d =>
    dsimp only
    have st := errorCatcherExit_safe s1 r true
    generalize errorCatcherExit s1 r true = res at st
    obtain ⟨s2, oe⟩ := res
    have := st.prov (q1 d rfl)
    cases oe <;> exact this

/-! ### `delivered` only changes in `deliver` -/

def DS (s s' : State) : Prop := ∀ i, delivOf s' i = delivOf s i

theorem DS.refl (s : State) : DS s s := fun _ => rfl
theorem DS.trans {s t u : State} (a : DS s t) (b : DS t u) : DS s u := fun i => (b i).trans (a i)

theorem Safe.ds {s s' : State} (h : Safe s s') : DS s s' := by
  intro i
  unfold delivOf
  cases h1 : s'.resps[i]? with
  | none =>
    have : s.resps[i]? = none := by
      rcases Nat.lt_or_ge i s'.resps.length with h' | h'
      · rw [List.getElem?_eq_getElem h'] at h1; cases h1
      · exact List.getElem?_eq_none (Nat.le_trans h.rlen h')
    rw [this]
  | some rs' =>
    rcases h.rs i rs' h1 with ⟨rs, h0, _, e, _⟩ | ⟨h0, _, e⟩
    · rw [h0]; exact e
    · rw [h0]; exact e

theorem ReadRel.ds {r k : Nat} {s s' : State} {m : List Cell} (h : ReadRel r k s s' m) : DS s s' := by
  intro i
  unfold delivOf
  by_cases hir : i = r
  · subst hir
    cases h0 : s.resps[i]? with
    | none =>
      have : s'.resps[i]? = none := by
        rcases Nat.lt_or_ge i s.resps.length with h' | h'
        · rw [List.getElem?_eq_getElem h'] at h0; cases h0
        · exact List.getElem?_eq_none (by rw [h.rlen]; exact h')
      rw [this]
    | some rs =>
      obtain ⟨b, hb⟩ := h.rsame rs h0
      rw [hb]
  · rw [h.rother i hir]

theorem setResp_ds (s : State) (r : Nat) (g : Resp → Resp) (hg : ∀ x, (g x).delivered = x.delivered) :
    DS s (setResp s r g) := by
  intro i
  unfold delivOf
  simp only [setResp, List.getElem?_modify]
  cases h0 : s.resps[i]? with
  | none => simp
  | some rs =>
    by_cases hri : r = i
    · simp [hri, hg]
    · simp [hri]

theorem Dirty.ds {r k : Nat} {s s' : State} (h : Dirty r k s s') : DS s s' := by
  intro i
  unfold delivOf
  by_cases hir : i = r
  · subst hir
    cases h0 : s.resps[i]? with
    | none =>
      have : s'.resps[i]? = none := by
        rcases Nat.lt_or_ge i s.resps.length with h' | h'
        · rw [List.getElem?_eq_getElem h'] at h0; cases h0
        · exact List.getElem?_eq_none (by rw [h.rlen]; exact h')
      rw [this]
    | some rs =>
      obtain ⟨rs', h1, _, a2, _⟩ := h.rsame rs h0
      rw [h1]; exact a2
  · rw [h.rother i hir]

theorem fpRead_ds (fuel : Nat) (s : State) (r k n : Nat) (acc : List Cell) : DS s (fpRead fuel s r k n acc).1 := by
  obtain ⟨m, rel, _⟩ := fpRead_rel fuel s r k n acc _ _ rfl
  exact rel.ds

theorem fpReadAll_ds (fuel : Nat) (s : State) (r k : Nat) (acc : List Cell) : DS s (fpReadAll fuel s r k acc).1 := by
  obtain ⟨m, rel, _⟩ := fpReadAll_rel fuel s r k acc _ _ rfl
  exact rel.ds

theorem closeFp_ds (s : State) (r : Nat) : DS s (closeFp s r) := (closeFp_safe s r).ds

theorem httpRead_ds (s : State) (r : Nat) (amt : Option Nat) : DS s (httpRead s r amt).1 := by
  unfold httpRead
  split
  · exact DS.refl _
  · rename_i rs hrs
    split
    · exact DS.refl _
    · rename_i k hk
      split
      · exact closeFp_ds _ _
      · split
        · exact (hcReadChunked_dirty r k _ s amt []).ds
        dsimp only
        generalize inboundLen s k + 2 = fuel
        have setl : ∀ (t : State) (l : Nat), DS t (setResp t r fun x => { x with length := some l }) :=
          fun t l => setResp_ds t r _ (fun _ => rfl)
        cases amt with
        | some n =>
          dsimp only
          cases hlen0 : rs.length with
          | none =>
            dsimp only
            have h1 := fpRead_ds fuel s r k n []
            generalize fpRead fuel s r k n [] = res at h1 ⊢
            obtain ⟨s1, o⟩ := res
            cases o with
            | exc e => exact h1
            | data d =>
              dsimp only
              split
              · exact h1.trans (closeFp_ds _ _)
              · exact h1
          | some l =>
            dsimp only
            have key : ∀ n' : Nat, DS s (match fpRead fuel s r k n' [] with
                | (s, DataOut.exc e) => (s, DataOut.exc e)
                | (s, DataOut.data d) =>
                  if (d.isEmpty && n' != 0) = true then (closeFp s r, DataOut.data d)
                  else
                    (if l - d.length = 0 then
                        closeFp (setResp s r fun x => { x with length := some (l - d.length) }) r
                      else setResp s r fun x => { x with length := some (l - d.length) },
                      DataOut.data d)).1 := by
              intro n'
              have h1 := fpRead_ds fuel s r k n' []
              generalize fpRead fuel s r k n' [] = res at h1 ⊢
              obtain ⟨s1, o⟩ := res
              cases o with
              | exc e => exact h1
              | data d =>
                dsimp only
                split
                · exact h1.trans (closeFp_ds _ _)
                · split
                  · exact (h1.trans (setl _ _)).trans (closeFp_ds _ _)
                  · exact h1.trans (setl _ _)
            exact key _
        | none =>
          dsimp only
          cases hlen0 : rs.length with
          | none =>
            dsimp only
            have h1 := fpReadAll_ds fuel s r k []
            generalize fpReadAll fuel s r k [] = res at h1 ⊢
            obtain ⟨s1, o⟩ := res
            cases o with
            | exc e => exact h1
            | data d => exact h1.trans (closeFp_ds _ _)
          | some l =>
            dsimp only
            have h1 := fpRead_ds fuel s r k l []
            generalize fpRead fuel s r k l [] = res at h1 ⊢
            obtain ⟨s1, o⟩ := res
            cases o with
            | exc e => exact h1
            | data d =>
              dsimp only
              split
              · exact h1.trans (closeFp_ds _ _)
              · exact (h1.trans (setl _ _)).trans (closeFp_ds _ _)

theorem rawRead_ds (s : State) (r : Nat) (amt : Option Nat) : DS s (rawRead s r amt).1 := by
  rw [rawRead_eq]
  have h1 := httpRead_ds s r amt
  generalize httpRead s r amt = res at h1 ⊢
  obtain ⟨s1, o1⟩ := res
  dsimp only at h1 ⊢
  have h2 : DS s1 (rawMid r amt s1 o1).1 := by
    unfold rawMid
    split
    · split
      · dsimp only
        split
        · split
          · split <;> exact closeFp_ds _ _
          · exact closeFp_ds _ _
        · exact closeFp_ds _ _
      · exact DS.refl _
    · exact DS.refl _
  generalize rawMid r amt s1 o1 = mid at h2 ⊢
  obtain ⟨s2, o2⟩ := mid
  dsimp only at h2 ⊢
  refine (h1.trans h2).trans ?_
  unfold rawTail
  cases o2 with
  | exc e =>
    dsimp only
    have := (errorCatcherExit_safe s2 r false).ds
    generalize errorCatcherExit s2 r false = res at this ⊢
    obtain ⟨s3, oe⟩ := res
    cases oe <;> exact this
  | data d =>
    dsimp only
    have := (errorCatcherExit_safe s2 r true).ds
    generalize errorCatcherExit s2 r true = res at this ⊢
    obtain ⟨s3, oe⟩ := res
    cases oe <;> exact this

/-! ### what the caller does with a response -/

theorem readAmt_prov {A : Nat → Attempt → Prop} {r n : Nat} : ∀ (fuel : Nat) (s s' : State) (X acc : List Cell) (out : DataOut),
    ProvF A s (some (r, X, X)) → readAmt fuel s r n acc = (s', out) →
    (∀ d, out = .data d → ∃ m, d = acc ++ m ∧ ProvF A s' (some (r, X ++ m, X ++ m))) ∧ (∀ e, out = .exc e → Prov A s') ∧
      DS s s' := by
  intro fuel
  induction fuel with
  | zero =>
    intro s s' X acc out p h
    simp [readAmt] at h; obtain ⟨rfl, rfl⟩ := h
    refine ⟨?_, (by intro e he; cases he), DS.refl _⟩
    intro d hd; cases hd
    exact ⟨[], by simp, by simpa using p⟩
  | succ fuel ih =>
    intro s s' X acc out p h
    unfold readAmt at h
    have hds := rawRead_ds s r (some n)
    generalize hrr : rawRead s r (some n) = res at h hds
    obtain ⟨s1, o⟩ := res
    obtain ⟨q1, q2, _⟩ := rawRead_prov p hrr
    cases o with
    | exc e =>
      simp at h; obtain ⟨rfl, rfl⟩ := h
      exact ⟨(by intro d hd; cases hd), fun _ _ => q2 e rfl, hds⟩
    | data d =>
      dsimp only at h
      split at h
      · simp at h; obtain ⟨rfl, rfl⟩ := h
        refine ⟨?_, (by intro e he; cases he), hds⟩
        intro d' hd'; cases hd'
        exact ⟨d, rfl, q1 d rfl⟩
      · obtain ⟨i1, i2, i3⟩ := ih s1 s' (X ++ d) (acc ++ d) out (q1 d rfl) h
        refine ⟨?_, i2, hds.trans i3⟩
        intro d' hd'
        obtain ⟨m, e1, e2⟩ := i1 d' hd'
        exact ⟨d ++ m, by rw [e1]; simp, by simpa using e2⟩

theorem deliver_safe_like (s : State) (r : Nat) (d : List Cell) :
    (deliver s r d).conns = s.conns ∧ (deliver s r d).socks = s.socks := ⟨rfl, rfl⟩

/-- `HTTPResponse.read(amt)` -/
theorem respRead_prov {A : Nat → Attempt → Prop} {s s' : State} {r : Nat} {amt : Option Nat} {out : DataOut}
    (p : Prov A s) (h : respRead s r amt = (s', out)) : Prov A s' := by
  have pf := focus_intro p r
  unfold respRead at h
  cases amt with
  | none =>
    dsimp only at h
    have hds := rawRead_ds s r none
    generalize hrr : rawRead s r none = res at h hds
    obtain ⟨s1, o⟩ := res
    obtain ⟨q1, q2, _⟩ := rawRead_prov pf hrr
    cases o with
    | exc e => simp at h; obtain ⟨rfl, rfl⟩ := h; exact q2 e rfl
    | data d =>
      simp at h; obtain ⟨rfl, rfl⟩ := h
      have := q1 d rfl
      rw [← hds r] at this
      exact deliver_prov this
  | some n =>
    dsimp only at h
    generalize hrr : readAmt (n + 1) s r n [] = res at h
    obtain ⟨s1, o⟩ := res
    obtain ⟨q1, q2, hds⟩ := readAmt_prov (n + 1) s s1 _ [] o pf hrr
    cases o with
    | exc e => simp at h; obtain ⟨rfl, rfl⟩ := h; exact q2 e rfl
    | data d =>
      simp at h; obtain ⟨rfl, rfl⟩ := h
      obtain ⟨m, e1, e2⟩ := q1 d rfl
      simp at e1; subst e1
      rw [← hds r] at e2
      exact deliver_prov e2

theorem respStream_prov {A : Nat → Attempt → Prop} {r n : Nat} : ∀ (fuel : Nat) (s s' : State) (acc : List Cell) (out : DataOut),
    Prov A s → respStream fuel s r n acc = (s', out) → Prov A s' := by
  intro fuel
  induction fuel with
  | zero =>
    intro s s' acc out p h
    simp [respStream] at h; obtain ⟨rfl, _⟩ := h; exact p
  | succ fuel ih =>
    intro s s' acc out p h
    unfold respStream at h
    split at h
    · simp at h; obtain ⟨rfl, _⟩ := h; exact p
    · generalize hrr : respRead s r (some n) = res at h
      obtain ⟨s1, o⟩ := res
      have p1 := respRead_prov p hrr
      cases o with
      | exc e => simp at h; obtain ⟨rfl, _⟩ := h; exact p1
      | data d => exact ih s1 s' _ out p1 h

/-- `drain_conn()` -/
theorem drainConn_prov {A : Nat → Attempt → Prop} {s : State} {r : Nat} (p : Prov A s) : Prov A (drainConn s r).1 := by
  have pf := focus_intro p r
  unfold drainConn
  generalize hrr : rawRead s r none = res
  obtain ⟨s1, o⟩ := res
  obtain ⟨q1, q2, q3⟩ := rawRead_prov pf hrr
  cases o with
  | exc e => dsimp only; split <;> exact q2 e rfl
  | data d => exact closed_unfocus (q1 d rfl) (q3 rfl d rfl)

theorem disposeResp_prov {A : Nat → Attempt → Prop} {s : State} {r : Nat} (how : How) (p : Prov A s) :
    Prov A (disposeResp s r how).1 := by
  cases how with
  | readAll =>
    unfold disposeResp
    dsimp only
    generalize hrr : respRead s r none = res
    obtain ⟨s1, o⟩ := res
    have := respRead_prov p hrr
    cases o <;> exact this
  | readK k =>
    unfold disposeResp
    dsimp only
    generalize hrr : respRead s r (some k) = res
    obtain ⟨s1, o⟩ := res
    have := respRead_prov p hrr
    cases o <;> exact this
  | readKRelease k =>
    unfold disposeResp
    dsimp only
    generalize hrr : respRead s r (some k) = res
    obtain ⟨s1, o⟩ := res
    have p1 := respRead_prov p hrr
    cases o with
    | exc e => exact p1
    | data d =>
      dsimp only
      have := (releaseConn_safe s1 r).prov p1
      generalize releaseConn s1 r = res at this ⊢
      obtain ⟨s2, oe⟩ := res
      cases oe <;> exact this
  | release =>
    unfold disposeResp
    dsimp only
    have := (releaseConn_safe s r).prov p
    generalize releaseConn s r = res at this ⊢
    obtain ⟨s2, oe⟩ := res
    cases oe <;> exact this
  | drain =>
    unfold disposeResp
    dsimp only
    have := drainConn_prov (r := r) p
    generalize drainConn s r = res at this ⊢
    obtain ⟨s2, oe⟩ := res
    cases oe <;> exact this
  | close => exact (respClose_safe s r).prov p
  | drop =>
    unfold disposeResp
    dsimp only
    split
    · exact p
    · exact (respClose_safe s r).prov p
  | stream k =>
    unfold disposeResp
    dsimp only
    by_cases hc : respChunked s r = true
    · rw [if_pos hc]
      have := readChunked_prov (r := r) (amt := k) p hc
      generalize readChunked s r k = res at this ⊢
      obtain ⟨s1, o⟩ := res
      cases o <;> exact this
    · rw [if_neg hc]
      generalize hrr : respStream _ s r k [] = res
      obtain ⟨s1, o⟩ := res
      have := respStream_prov _ s s1 [] o p hrr
      cases o <;> exact this

theorem dispose_prov {A : Nat → Attempt → Prop} {s : State} (rid : Nat) (how : How) (p : Prov A s) :
    Prov A (dispose s rid how).1 := by
  unfold dispose
  split
  · exact p
  · exact disposeResp_prov how p

/-! ## a request: sending, the head, the new reader -/

/-- parsing a head out of a prefix `B` of `[hd none]^j ++ [hd (some h0)] ++ rest` -/
theorem findHead_prefix (t : Tag) (h0 : Head) (rest : List Cell) : ∀ (j : Nat) (B : List Cell) (i n : Nat) (h : Head),
    B <+: List.replicate j (Cell.hd t none) ++ [Cell.hd t (some h0)] ++ rest →
    findHead B i = some (n, h) →
    h = h0 ∧ n = i + j + 1 ∧ List.replicate j (Cell.hd t none) ++ [Cell.hd t (some h0)] <+: B := by
  intro j
  induction j with
  | zero =>
    intro B i n h hp hf
    cases B with
    | nil => simp [findHead] at hf
    | cons b B' =>
      simp at hp
      obtain ⟨rfl, _⟩ := hp
      simp [findHead] at hf
      obtain ⟨rfl, rfl⟩ := hf
      exact ⟨rfl, by omega, by simp⟩
  | succ j ih =>
    intro B i n h hp hf
    cases B with
    | nil => simp [findHead] at hf
    | cons b B' =>
      simp only [List.replicate_succ, List.cons_append] at hp
      obtain ⟨rfl, hp'⟩ := List.cons_prefix_cons.mp hp
      simp only [findHead] at hf
      obtain ⟨e1, e2, e3⟩ := ih B' (i + 1) n h (by simpa using hp') hf
      refine ⟨e1, by omega, ?_⟩
      simp only [List.replicate_succ, List.cons_append]
      exact List.cons_prefix_cons.mpr ⟨rfl, e3⟩

theorem findHead_nil_prefix (B : List Cell) (i : Nat) (hp : B <+: []) : findHead B i = none := by
  have : B = [] := List.prefix_nil.mp hp
  subst this; rfl

theorem readHead_rel : ∀ (fuel : Nat) (s : State) (r k : Nat) (s' : State) (out : HeadOut),
    readHead fuel s r k = (s', out) →
    ∃ m, ReadRel r k s s' m ∧ ∀ h, out = .ok h → ∃ B n, scanHead B = some (n, h) ∧ h.garbage = false ∧ m = B.take n ∧
      ∀ (rs : Resp) (sk : Sock), s.resps[r]? = some rs → s.socks[k]? = some sk → B <+: rs.buf ++ sk.inbound := by
  intro fuel
  induction fuel with
  | zero =>
    intro s r k s' out h
    simp [readHead] at h; obtain ⟨rfl, rfl⟩ := h
    exact ⟨[], ReadRel.refl _ _ _, by intro h hh; cases hh⟩
  | succ fuel ih =>
    intro s r k s' out h
    unfold readHead at h
    split at h
    · simp at h; obtain ⟨rfl, rfl⟩ := h
      exact ⟨[], ReadRel.refl _ _ _, by intro h hh; cases hh⟩
    · rename_i rs hrs
      split at h
      · rename_i n hd hfind
        dsimp only at h
        have rel := setBuf_rel r k s rs (rs.buf.take n) (fun x => x.buf.drop n) hrs (List.take_append_drop n rs.buf).symm
        split at h
        · simp at h; obtain ⟨rfl, rfl⟩ := h
          exact ⟨_, rel, by intro h hh; cases hh⟩
        · rename_i hgarb
          simp at h; obtain ⟨rfl, rfl⟩ := h
          refine ⟨_, rel, ?_⟩
          intro h' hh; cases hh
          refine ⟨rs.buf, n, hfind, by simpa using hgarb, rfl, ?_⟩
          intro rs' sk h1 _; rw [hrs] at h1; cases h1; exact List.prefix_append _ _
      · have r1 := recvInto_rel s r k (bufSize - rs.buf.length)
        generalize hrv : recvInto s r k (bufSize - rs.buf.length) = res at h r1
        obtain ⟨s1, o⟩ := res
        cases o with
        | got =>
          dsimp only at h
          obtain ⟨m, rm, hm⟩ := ih s1 r k s' out h
          refine ⟨m, by simpa using r1.trans rm, ?_⟩
          intro h' hh
          obtain ⟨B, n, f1, fg, f2, f3⟩ := hm h' hh
          refine ⟨B, n, f1, fg, f2, ?_⟩
          intro rs' sk h1 h2
          obtain ⟨rs1, sk1, e1, e2, e3⟩ := r1.stream rs' sk h1 h2
          have := f3 rs1 sk1 e1 e2
          simp at e3; rw [← e3]; exact this
        | eof =>
          simp at h; obtain ⟨rfl, rfl⟩ := h
          exact ⟨[], r1, by intro h hh; cases hh⟩
        | exc e =>
          simp at h; obtain ⟨rfl, rfl⟩ := h
          exact ⟨[], r1, by intro h hh; cases hh⟩

theorem noteClose_fields (s : State) (k : Nat) :
    (noteClose s k).conns = s.conns ∧ (noteClose s k).resps = s.resps ∧ (noteClose s k).socks = s.socks := by
  unfold noteClose; split <;> exact ⟨rfl, rfl, rfl⟩

theorem closeFp_fields (s : State) (r : Nat) :
    (closeFp s r).conns = s.conns ∧ (closeFp s r).socks = s.socks ∧ (closeFp s r).resps.length = s.resps.length ∧
    (∀ i, i ≠ r → (closeFp s r).resps[i]? = s.resps[i]?) ∧
    (∀ rs : Resp, s.resps[r]? = some rs → ∃ rs' : Resp, (closeFp s r).resps[r]? = some rs' ∧ rs'.fp = none ∧
      rs'.delivered = rs.delivered ∧ rs'.rid = rs.rid ∧ rs'.isHead = rs.isHead ∧ rs'.eofAt = rs.eofAt) := by
  unfold closeFp
  split
  · rename_i h0
    exact ⟨rfl, rfl, rfl, fun _ _ => rfl, fun rs h => by rw [h0] at h; cases h⟩
  · rename_i x h0
    split
    · rename_i h1
      exact ⟨rfl, rfl, rfl, fun _ _ => rfl, fun rs h => by rw [h0] at h; cases h; exact ⟨x, h0, h1, rfl, rfl, rfl, rfl⟩⟩
    · obtain ⟨e1, e2, e3⟩ := noteClose_fields (setResp s r fun x => { x with fp := none, buf := [] }) ‹Nat›
      rw [e1, e2, e3]
      refine ⟨rfl, rfl, by simp [setResp], ?_, ?_⟩
      · intro i hi; simp [setResp, List.getElem?_modify, Ne.symm hi]
      · intro rs h; rw [h0] at h; cases h
        exact ⟨{ x with fp := none, buf := [] }, by simp [setResp, List.getElem?_modify, h0], rfl, rfl, rfl, rfl, rfl⟩

/-- `conn.close()` when `http.client` has no `__response` at hand -/
theorem connClose_fields_nopending (s : State) (c : Nat) (cn : Conn) (hc : s.conns[c]? = some cn) (hp : cn.pending = none) :
    (connClose s c).resps = s.resps ∧ (connClose s c).socks = s.socks ∧
    (connClose s c).conns = s.conns.modify c fun x => { x with sock := none, http := .idle, pending := none, proxyConnected := false } := by
  refine ⟨?_, ?_, connClose_conns s c⟩
  · unfold connClose
    simp only [hc, hp]
    split
    · exact (noteClose_fields _ _).2.1
    · rfl
  · unfold connClose
    simp only [hc, hp]
    split
    · exact (noteClose_fields _ _).2.2
    · rfl

/-- the shape of a state during `getresponse()`: relative to `s0`, one new response (index
`s0.resps.length`), socket `k` and connection `c` may have changed -/
structure HP (k c : Nat) (s0 s : State) : Prop where
  rlen : s.resps.length = s0.resps.length + 1
  rold : ∀ i, i < s0.resps.length → s.resps[i]? = s0.resps[i]?
  slen : s.socks.length = s0.socks.length
  sother : ∀ j, j ≠ k → s.socks[j]? = s0.socks[j]?
  cother : ∀ c', c' ≠ c → s.conns[c']? = s0.conns[c']?
  hsame : ∀ sk : Sock, s0.socks[k]? = some sk → ∃ sk' : Sock, s.socks[k]? = some sk' ∧ sk'.held = sk.held ∧
    (sk.after = .fin → sk'.after = .fin)

theorem HP.new (k c : Nat) (s0 : State) (x : Resp) : HP k c s0 { s0 with resps := s0.resps ++ [x] } :=
  ⟨by simp, fun i hi => List.getElem?_append_left hi, rfl, fun _ _ => rfl, fun _ _ => rfl, fun sk h => ⟨sk, h, rfl, id⟩⟩

theorem HP.read {k c : Nat} {s0 s s' : State} {m : List Cell} (h : HP k c s0 s) (rel : ReadRel s0.resps.length k s s' m) :
    HP k c s0 s' :=
  ⟨by rw [rel.rlen, h.rlen], fun i hi => by rw [rel.rother i (by omega), h.rold i hi], by rw [rel.slen, h.slen],
    fun j hj => by rw [rel.sother j hj, h.sother j hj], fun c' hc' => by rw [rel.conns]; exact h.cother c' hc',
    fun sk hsk => by
      obtain ⟨sk1, g1, g2, g2'⟩ := h.hsame sk hsk
      obtain ⟨sk2, g3, g4, g4'⟩ := rel.hsame sk1 g1
      exact ⟨sk2, g3, by rw [g4, g2], fun hf => g4' (g2' hf)⟩⟩

theorem HP.setResp {k c : Nat} {s0 s : State} (h : HP k c s0 s) (g : Resp → Resp) :
    HP k c s0 (setResp s s0.resps.length g) :=
  ⟨by simp [U3.Pool.setResp, h.rlen],
    fun i hi => by
      have : s0.resps.length ≠ i := by omega
      simp [U3.Pool.setResp, List.getElem?_modify, this, h.rold i hi],
    h.slen, h.sother, h.cother, h.hsame⟩

theorem HP.setConn {k c : Nat} {s0 s : State} (h : HP k c s0 s) (g : Conn → Conn) : HP k c s0 (setConn s c g) :=
  ⟨h.rlen, h.rold, h.slen, h.sother, fun c' hc' => by
    simp [U3.Pool.setConn, List.getElem?_modify, Ne.symm hc', h.cother c' hc'], h.hsame⟩

theorem HP.closeFp {k c : Nat} {s0 s : State} (h : HP k c s0 s) : HP k c s0 (closeFp s s0.resps.length) := by
  obtain ⟨e1, e2, e3, e4, _⟩ := closeFp_fields s s0.resps.length
  exact ⟨by rw [e3, h.rlen], fun i hi => by rw [e4 i (by omega), h.rold i hi], by rw [e2, h.slen],
    fun j hj => by rw [e2]; exact h.sother j hj, fun c' hc' => by rw [e1]; exact h.cother c' hc',
    by rw [e2]; exact h.hsame⟩

theorem HP.connClose {k c : Nat} {s0 s : State} (h : HP k c s0 s) (cn : Conn) (hc : s.conns[c]? = some cn)
    (hp : cn.pending = none) : HP k c s0 (connClose s c) := by
  obtain ⟨e1, e2, e3⟩ := connClose_fields_nopending s c cn hc hp
  exact ⟨by rw [e1, h.rlen], fun i hi => by rw [e1, h.rold i hi], by rw [e2, h.slen], fun j hj => by rw [e2]; exact h.sother j hj,
    fun c' hc' => by rw [e3]; simp [List.getElem?_modify, Ne.symm hc', h.cother c' hc'], by rw [e2]; exact h.hsame⟩

theorem noReader_of_nopending {A : Nat → Attempt → Prop} {f : Focus} {s : State} {c k : Nat} {cn : Conn}
    (p : ProvF A s f) (hc : s.conns[c]? = some cn) (hk : cn.sock = some k) (hp : cn.pending = none) : NoReader s k := by
  intro i rs hi hfp
  have := p.pend i rs c cn k hi hfp hc hk
  rw [hp] at this; cases this

/-- the head phase ended with the new reader closed: nothing else has happened -/
theorem hp_safe {s0 s : State} {k c : Nat} (h : HP k c s0 s) (nr : NoReader s0 k)
    (hr : ∀ rs' : Resp, s.resps[s0.resps.length]? = some rs' → rs'.fp = none ∧ rs'.delivered = [] ∧ rs'.eofAt = none)
    (hc : ∀ cn' : Conn, s.conns[c]? = some cn' → cn'.sock = none ∨
      ∃ cn : Conn, s0.conns[c]? = some cn ∧ cn'.sock = cn.sock ∧ cn'.pending = cn.pending) : Safe s0 s := by
  have hold : ∀ (i : Nat) (rs' : Resp), s.resps[i]? = some rs' → i ≠ s0.resps.length → s0.resps[i]? = some rs' := by
    intro i rs' hi hne
    have : i < s.resps.length := by
      rcases Nat.lt_or_ge i s.resps.length with h' | h'
      · exact h'
      · rw [List.getElem?_eq_none h'] at hi; cases hi
    rw [h.rlen] at this
    rw [← h.rold i (by omega)]; exact hi
  refine ⟨by rw [h.slen]; exact Nat.le_refl _, by rw [h.rlen]; omega, ?_, ?_, ?_, ?_, ?_, ?fin, ?eo⟩
  case fin =>
    intro j ⟨sk, h1, h2⟩
    by_cases hjk : j = k
    · subst hjk
      obtain ⟨sk', g1, _, g3⟩ := h.hsame sk h1
      exact ⟨sk', g1, g3 h2⟩
    · exact ⟨sk, by rw [h.sother j hjk]; exact h1, h2⟩
  case eo =>
    intro i rs' k' h1 h2
    by_cases hi : i = s0.resps.length
    · subst hi; rw [(hr rs' h1).2.2] at h2; cases h2
    · exact Or.inl ⟨rs', hold i rs' h1 hi, h2⟩
  rotate_right
  · intro k' sk' h1
    left
    by_cases hkk : k' = k
    · subst hkk
      have hk0 : k' < s0.socks.length := by
        rw [← h.slen]
        rcases Nat.lt_or_ge k' s.socks.length with h' | h'
        · exact h'
        · rw [List.getElem?_eq_none h'] at h1; cases h1
      obtain ⟨sk2, q1, q2, _⟩ := h.hsame _ (List.getElem?_eq_getElem hk0)
      rw [h1] at q1; cases q1
      exact ⟨_, List.getElem?_eq_getElem hk0, q2⟩
    · exact ⟨sk', by rw [← h.sother k' hkk]; exact h1, rfl⟩
  · intro i rs rs' h1 h2
    have hi : i < s0.resps.length := by
      rcases Nat.lt_or_ge i s0.resps.length with h' | h'
      · exact h'
      · rw [List.getElem?_eq_none h'] at h1; cases h1
    rw [h.rold i hi, h1] at h2; cases h2; exact ⟨rfl, rfl, rfl⟩
  · intro i rs' k' sk h1 h2 h3
    by_cases hi : i = s0.resps.length
    · subst hi; rw [(hr rs' h1).1] at h2; cases h2
    · have h0 := hold i rs' h1 hi
      have hkk : k' ≠ k := by intro e; subst e; exact nr i rs' h0 h2
      exact ⟨sk, by rw [h.sother k' hkk]; exact h3, rfl⟩
  · intro i rs' h1
    by_cases hi : i = s0.resps.length
    · subst hi
      exact Or.inr ⟨List.getElem?_eq_none (Nat.le_refl _), (hr rs' h1).1, (hr rs' h1).2.1⟩
    · exact Or.inl ⟨rs', hold i rs' h1 hi, rfl, rfl, rfl, Or.inr ⟨rfl, rfl, rfl, rfl⟩⟩
  · intro c' cn' k' h1 h2
    left
    by_cases hcc : c' = c
    · subst hcc
      rcases hc cn' h1 with e | ⟨cn, e1, e2, e3⟩
      · rw [e] at h2; cases h2
      · exact ⟨cn, e1, by rw [← e2]; exact h2, Or.inl e3⟩
    · rw [h.cother c' hcc] at h1
      exact ⟨cn', h1, h2, Or.inl rfl⟩

/-- the head phase ended with a head: a new honest reader -/
theorem open_new {A : Nat → Attempt → Prop} {s0 s : State} {c k : Nat} {cn : Conn} {a : Attempt} {h : Head} {rn : Resp} {sk' : Sock}
    (p : Prov A s0) (hc : s0.conns[c]? = some cn) (hk : cn.sock = some k) (hp : cn.pending = none)
    (hp' : HP k c s0 s) (hrn : s.resps[s0.resps.length]? = some rn) (hsk : s.socks[k]? = some sk')
    (hcn : ∀ cn' : Conn, s.conns[c]? = some cn' → cn'.sock = none ∨ (cn'.sock = some k ∧ cn'.pending = some s0.resps.length))
    (hatt : A rn.rid a) (hhd : a.head = some h) (hstat : rn.status = h.status) (hfp : rn.fp = some k) (hdel : rn.delivered = [])
    (hlen : rn.length = initLength h rn.isHead) (hstream : rn.buf ++ sk'.inbound <+: postCells rn.rid a h)
    (hch : rn.chunked = h.chunked) (hcl : rn.chunkLeft = none) (hhl : rn.hcLeft = none) (heo : rn.eofAt = none) : Prov A s := by
  have nr := noReader_of_nopending p hc hk hp
  have hkb : k < s0.socks.length := p.sockB c cn k hc hk
  have hold : ∀ (i : Nat) (rs' : Resp), s.resps[i]? = some rs' → i ≠ s0.resps.length → s0.resps[i]? = some rs' := by
    intro i rs' hi hne
    have : i < s.resps.length := by
      rcases Nat.lt_or_ge i s.resps.length with h' | h'
      · exact h'
      · rw [List.getElem?_eq_none h'] at hi; cases hi
    rw [hp'.rlen] at this
    rw [← hp'.rold i (by omega)]; exact hi
  have holdc : ∀ (c' : Nat) (cn' : Conn) (k' : Nat), s.conns[c']? = some cn' → cn'.sock = some k' →
      (c' = c ∧ k' = k ∧ cn'.pending = some s0.resps.length) ∨ (c' ≠ c ∧ s0.conns[c']? = some cn') := by
    intro c' cn' k' h1 h2
    by_cases hcc : c' = c
    · subst hcc
      rcases hcn cn' h1 with e | ⟨e1, e2⟩
      · rw [e] at h2; cases h2
      · rw [e1] at h2; cases h2; exact Or.inl ⟨rfl, rfl, e2⟩
    · rw [hp'.cother c' hcc] at h1; exact Or.inr ⟨hcc, h1⟩
  refine ⟨?_, ?_, ?_, ?_, ?_, ?_, (by intro _ _ _ h; cases h), ?_, ?eofB⟩
  case eofB =>
    intro i rs' k' h1 h2
    by_cases hi : i = s0.resps.length
    · subst hi; rw [hrn] at h1; cases h1; rw [heo] at h2; cases h2
    · obtain ⟨q1, q2⟩ := p.eofB i rs' k' (hold i rs' h1 hi) h2
      refine ⟨by rw [hp'.slen]; exact q1, ?_⟩
      rcases q2 with ⟨sk, g1, g2⟩ | q2
      · left
        by_cases hkk : k' = k
        · subst hkk
          obtain ⟨sk3, g3, _, g5⟩ := hp'.hsame sk g1
          exact ⟨sk3, g3, g5 g2⟩
        · exact ⟨sk, by rw [hp'.sother k' hkk]; exact g1, g2⟩
      · right
        intro c' cn' hc' hs'
        rcases holdc c' cn' k' hc' hs' with ⟨_, rfl, _⟩ | ⟨_, h0⟩
        · exact q2 c cn hc hk
        · exact q2 c' cn' h0 hs'
  rotate_right
  · intro k' sk2 h1
    by_cases hkk : k' = k
    · subst hkk
      obtain ⟨sk3, q1, q2, _⟩ := hp'.hsame _ (List.getElem?_eq_getElem hkb)
      rw [h1] at q1; cases q1
      rw [q2]; exact p.heldB k' _ (List.getElem?_eq_getElem hkb)
    · rw [hp'.sother k' hkk] at h1; exact p.heldB k' sk2 h1
  · intro c' cn' k' h1 h2
    rw [hp'.slen]
    rcases holdc c' cn' k' h1 h2 with ⟨_, rfl, _⟩ | ⟨_, h0⟩
    · exact hkb
    · exact p.sockB c' cn' k' h0 h2
  · intro i rs' k' h1 h2
    rw [hp'.slen]
    by_cases hi : i = s0.resps.length
    · subst hi; rw [hrn] at h1; cases h1; rw [hfp] at h2; cases h2; exact hkb
    · exact p.fpB i rs' k' (hold i rs' h1 hi) h2
  · intro c1 c2 cn1 cn2 k' h1 h2 h3 h4
    rcases holdc c1 cn1 k' h1 h3 with ⟨rfl, rfl, _⟩ | ⟨n1, g1⟩
    · rcases holdc c2 cn2 _ h2 h4 with ⟨rfl, _, _⟩ | ⟨n2, g2⟩
      · rfl
      · exact p.sockInj _ c2 cn cn2 _ hc g2 hk h4
    · rcases holdc c2 cn2 k' h2 h4 with ⟨rfl, rfl, _⟩ | ⟨n2, g2⟩
      · exact p.sockInj c1 _ cn1 cn _ g1 hc h3 hk
      · exact p.sockInj c1 c2 cn1 cn2 k' g1 g2 h3 h4
  · intro i rs' c' cn' k' h1 h2 h3 h4
    by_cases hi : i = s0.resps.length
    · subst hi; rw [hrn] at h1; cases h1; rw [hfp] at h2; cases h2
      rcases holdc c' cn' _ h3 h4 with ⟨_, _, e⟩ | ⟨n1, g1⟩
      · exact e
      · exact absurd (p.sockInj c' c cn' cn _ g1 hc h4 hk) n1
    · have h0 := hold i rs' h1 hi
      rcases holdc c' cn' k' h3 h4 with ⟨_, rfl, _⟩ | ⟨n1, g1⟩
      · exact absurd h2 (nr i rs' h0)
      · exact p.pend i rs' c' cn' k' h0 h2 g1 h4
  · intro i j r1 r2 k' h1 h2 h3 h4
    by_cases hi : i = s0.resps.length
    · by_cases hj : j = s0.resps.length
      · rw [hi, hj]
      · subst hi; rw [hrn] at h1; cases h1; rw [hfp] at h3; cases h3
        exact absurd h4 (nr j r2 (hold j r2 h2 hj))
    · by_cases hj : j = s0.resps.length
      · subst hj; rw [hrn] at h2; cases h2; rw [hfp] at h4; cases h4
        exact absurd h3 (nr i r1 (hold i r1 h1 hi))
      · exact p.fpInj i j r1 r2 k' (hold i r1 h1 hi) (hold j r2 h2 hj) h3 h4
  · intro i rs' h1
    simp only [Focus.x, Focus.z]
    by_cases hi : i = s0.resps.length
    · subst hi; rw [hrn] at h1; cases h1
      right
      refine ⟨a, h, ⟨hatt, hhd, hstat, hch, by rw [hdel]; exact List.nil_prefix, by rw [hdel]; intro n _; simp,
        by rw [hdel]; exact List.nil_prefix, by rw [hdel]; intro n _; simp, ?_⟩⟩
      intro k' hk'
      rw [hfp] at hk'; cases hk'
      have hpos : respPos rn = .size := by simp [respPos, hcl, hhl]
      refine ⟨sk', postCells rn.rid a h, hsk, by rw [hdel, hpos]; exact expect_init _ _ _, hstream, ?_⟩
      intro n hn
      exact ⟨n, by rw [hlen, lenBound_some hn], by rw [hdel]; simp⟩
    · have h0 := hold i rs' h1 hi
      have := p.resp i rs' h0
      simp only [Focus.x, Focus.z] at this
      rcases this with q | ⟨a', h', fr⟩
      · exact Or.inl q
      · right
        refine ⟨a', h', ⟨fr.att, fr.head, fr.st, fr.ch, fr.dpre, fr.dlen, fr.xpre, fr.xlen, ?_⟩⟩
        intro k' hk'
        obtain ⟨sk, Rem, e1, e2⟩ := fr.opn k' hk'
        have hkk : k' ≠ k := by intro e; subst e; exact nr i rs' h0 hk'
        exact ⟨sk, Rem, by rw [hp'.sother k' hkk]; exact e1, e2⟩

theorem forget_fields (s : State) (c : Nat) :
    (forgetClosedPending s c).resps = s.resps ∧ (forgetClosedPending s c).socks = s.socks ∧
    (∀ c', c' ≠ c → (forgetClosedPending s c).conns[c']? = s.conns[c']?) ∧
    (∀ cn : Conn, s.conns[c]? = some cn → ∃ cn' : Conn, (forgetClosedPending s c).conns[c]? = some cn' ∧
      cn'.sock = cn.sock ∧ cn'.http = cn.http) ∧
    (s.conns[c]? = none → (forgetClosedPending s c).conns[c]? = none) := by
  unfold forgetClosedPending
  split
  · rename_i h0
    exact ⟨rfl, rfl, fun _ _ => rfl, fun cn h => (by rw [h0] at h; cases h), fun _ => h0⟩
  · rename_i cn hcn
    have same : ∀ cn' : Conn, s.conns[c]? = some cn' → ∃ cn'' : Conn, s.conns[c]? = some cn'' ∧ cn''.sock = cn'.sock ∧ cn''.http = cn'.http :=
      fun cn' h => ⟨cn', h, rfl, rfl⟩
    have nn : s.conns[c]? = none → s.conns[c]? = none := id
    split
    · exact ⟨rfl, rfl, fun _ _ => rfl, same, nn⟩
    · split
      · exact ⟨rfl, rfl, fun _ _ => rfl, same, nn⟩
      · split
        · refine ⟨rfl, rfl, ?_, ?_, ?_⟩
          · intro c' hc'; simp [setConn, List.getElem?_modify, Ne.symm hc']
          · intro cn' h; rw [hcn] at h; cases h
            exact ⟨{ cn with pending := none }, by simp [setConn, List.getElem?_modify, hcn], rfl, rfl⟩
          · intro h; rw [hcn] at h; cases h
        · exact ⟨rfl, rfl, fun _ _ => rfl, same, nn⟩

theorem scanHead_server {rid : Nat} {a : Attempt} {H B : List Cell} {n : Nat} {hd : Head} (hH : NoHd H)
    (hB : B <+: H ++ serverNow rid a) (hs : scanHead B = some (n, hd)) (hg : hd.garbage = false) :
    H = [] ∧ a.head = some hd ∧ n = a.headLen - 1 + 1 ∧ headCells rid a.headLen hd <+: B := by
  cases B with
  | nil => simp [scanHead, startsGarbage, findHead] at hs
  | cons c B' =>
    cases H with
    | cons c' H' =>
      exfalso
      simp only [List.cons_append, List.cons_prefix_cons] at hB
      obtain ⟨rfl, _⟩ := hB
      have hc : startsGarbage (c :: B') = true := by
        cases c with
        | hd t fin => exact absurd rfl (hH _ (List.mem_cons_self ..) t fin)
        | body t v => rfl
        | fr t k => rfl
      unfold scanHead at hs
      rw [if_pos hc] at hs
      cases he : eolIdx (c :: B') 0 with
      | none => simp [he] at hs
      | some i =>
        simp [he] at hs
        obtain ⟨_, rfl⟩ := hs
        cases hg
    | nil =>
      rw [List.nil_append] at hB
      cases hh : a.head with
      | none => rw [serverNow_none hh] at hB; cases List.prefix_nil.mp hB
      | some h0 =>
        rw [serverNow_some hh] at hB
        have hB' : c :: B' <+: List.replicate (a.headLen - 1) (Cell.hd (.req rid) none) ++ [Cell.hd (.req rid) (some h0)] ++
            (postCells rid a h0).take ((postCells rid a h0).length - a.hold) := by simpa [headCells] using hB
        have hc : startsGarbage (c :: B') = false := by
          cases hj : a.headLen - 1 with
          | zero =>
            rw [hj] at hB'
            simp only [List.replicate_zero, List.nil_append, List.cons_append, List.cons_prefix_cons] at hB'
            rw [hB'.1]; rfl
          | succ j =>
            rw [hj] at hB'
            simp only [List.replicate_succ, List.cons_append, List.cons_prefix_cons] at hB'
            rw [hB'.1]; rfl
        unfold scanHead at hs
        rw [hc] at hs
        simp only [Bool.false_eq_true, if_false] at hs
        obtain ⟨q1, q2, q3⟩ := findHead_prefix (.req rid) h0 _ (a.headLen - 1) (c :: B') 0 n hd hB' hs
        subst q1
        exact ⟨rfl, rfl, by omega, by simpa [headCells] using q3⟩

theorem getResponse_prov {A : Nat → Attempt → Prop} {s s' : State} {c k rid : Nat} {rc : ReqCfg} {a : Attempt}
    {cn0 : Conn} {sk : Sock} {out : RespOut}
    (p : Prov A s) (hc : s.conns[c]? = some cn0) (hk : cn0.sock = some k) (hsk : s.socks[k]? = some sk)
    (hin : (∃ H, NoHd H ∧ sk.inbound = H ++ serverNow rid a) ∨ sk.inbound = []) (hA : A rid a)
    (h : getResponse s c k rid rc = (s', out)) : Prov A s' := by
  unfold getResponse at h
  have pF := (forget_safe p c).prov p
  obtain ⟨fr, fs, fo, fc, _⟩ := forget_fields s c
  obtain ⟨cn, hcn, hksame, _⟩ := fc cn0 hc
  rw [hk] at hksame
  rw [← fs] at hsk
  generalize forgetClosedPending s c = sF at h pF hcn hsk fr fs fo
  dsimp only at h
  rw [hcn] at h
  dsimp only at h
  split at h
  · simp at h; obtain ⟨rfl, rfl⟩ := h; exact pF
  · rename_i hcheck
    have hpend : cn.pending = none := by
      cases hpp : cn.pending with
      | none => rfl
      | some x => simp [hpp] at hcheck
    have hk' : cn.sock = some k := hksame
    have nr := noReader_of_nopending pF hcn hk' hpend
    generalize hr0 : ({ rid := rid, fp := some k, isHead := rc.isHead } : Resp) = r0 at h
    generalize hs1 : ({ sF with resps := sF.resps ++ [r0] } : State) = s1 at h
    generalize inboundLen s1 k + 2 = fuel at h
    generalize hrh : readHead fuel s1 sF.resps.length k = res at h
    obtain ⟨s2, oh⟩ := res
    obtain ⟨m, rel, hm⟩ := readHead_rel _ _ _ _ _ _ hrh
    have hp1 : HP k c sF s1 := by rw [← hs1]; exact HP.new k c sF r0
    have hp2 := hp1.read rel
    have hc2 : s2.conns[c]? = some cn := by rw [rel.conns, ← hs1]; exact hcn
    have hr1 : s1.resps[sF.resps.length]? = some r0 := by rw [← hs1]; simp
    have hsk1 : s1.socks[k]? = some sk := by rw [← hs1]; exact hsk
    obtain ⟨b, hr2⟩ := rel.rsame _ hr1
    cases oh with
    | exc e =>
      simp at h; obtain ⟨rfl, rfl⟩ := h
      have key : ∀ sE : State, HP k c sF sE → sE.resps[sF.resps.length]? = some { r0 with buf := b } →
          (∀ cn' : Conn, sE.conns[c]? = some cn' → cn'.sock = none ∨ cn' = cn) → Prov A (closeFp sE sF.resps.length) := by
        intro sE hpE hrE hcE
        obtain ⟨e1, e2, e3, e4, e5⟩ := closeFp_fields sE sF.resps.length
        refine (hp_safe hpE.closeFp nr ?_ ?_).prov pF
        · intro rs' hrs'
          obtain ⟨rs'', g1, g2, g3, _, _, g6⟩ := e5 _ hrE
          rw [g1] at hrs'; cases hrs'
          exact ⟨g2, by rw [g3, ← hr0], by rw [g6, ← hr0]⟩
        · intro cn' hcn'
          rw [e1] at hcn'
          rcases hcE cn' hcn' with e | rfl
          · exact Or.inl e
          · exact Or.inr ⟨cn', hcn, rfl, rfl⟩
      split
      · obtain ⟨f1, f2, f3⟩ := connClose_fields_nopending s2 c cn hc2 hpend
        refine key _ ((hp2.connClose cn hc2 hpend).setConn _) (by show (connClose s2 c).resps[_]? = _; rw [f1]; exact hr2) ?_
        intro cn' hcn'
        exact Or.inl (setConn_connClose_sock_none _ _ _ _ hcn')
      · exact key _ hp2 hr2 (fun cn' hcn' => by rw [hc2] at hcn'; cases hcn'; exact Or.inr rfl)
    | ok hd =>
      -- what the head parser found
      obtain ⟨B, n, f1, fg, f2, f3⟩ := hm hd rfl
      have hB := f3 r0 sk hr1 hsk1
      have hbuf0 : r0.buf = [] := by rw [← hr0]
      rw [hbuf0, List.nil_append] at hB
      obtain ⟨rs2, sk2, g1, g2, g3⟩ := rel.stream r0 sk hr1 hsk1
      rw [hr2] at g1; cases g1
      rw [hbuf0, List.nil_append] at g3
      have hserver : a.head = some hd ∧ sk.inbound = serverNow rid a ∧ n = a.headLen - 1 + 1 ∧ headCells rid a.headLen hd <+: B := by
        rcases hin with ⟨H, hH, e⟩ | e
        · rw [e] at hB
          obtain ⟨q0, q1, q2, q3⟩ := scanHead_server hH hB f1 fg
          subst q0
          exact ⟨q1, by simpa using e, q2, q3⟩
        · rw [e] at hB
          have : B = [] := List.prefix_nil.mp hB
          subst this
          simp [scanHead, startsGarbage, findHead] at f1
      obtain ⟨hh0, hinb, q2, q3⟩ := hserver
      rw [hinb, serverNow_some hh0] at g3
      have hmm : m = headCells rid a.headLen hd := by
        obtain ⟨t, ht⟩ := q3
        rw [f2, ← ht, q2]
        unfold headCells
        exact List.take_left' (by simp)
      rw [hmm] at g3
      simp only [List.append_assoc] at g3
      have hstream : b ++ sk2.inbound <+: postCells rid a hd := by
        rw [List.append_cancel_left g3]; exact List.take_prefix _ _
      have hrid : r0.rid = rid := by rw [← hr0]
      have hish : r0.isHead = rc.isHead := by rw [← hr0]
      -- the state after `begin()`
      have fin : ∀ s5 : State, HP k c sF s5 →
          s5.resps[sF.resps.length]? = some { r0 with buf := b, length := initLength hd rc.isHead, status := hd.status, chunked := hd.chunked } →
          s5.socks[k]? = some sk2 →
          (∀ cn' : Conn, s5.conns[c]? = some cn' → cn'.sock = none ∨ (cn'.sock = some k ∧ cn'.pending = some sF.resps.length)) →
          Prov A s5 := by
        intro s5 hp5 hr5 hs5 hc5
        refine open_new (a := a) (h := hd) pF hcn hk' hpend hp5 hr5 hs5 hc5 ?_ hh0 rfl ?_ ?_ ?_ ?_ rfl ?_ ?_ ?_
        · show A r0.rid a; rw [hrid]; exact hA
        · show r0.fp = some k; rw [← hr0]
        · show r0.delivered = []; rw [← hr0]
        · show initLength hd rc.isHead = initLength hd r0.isHead; rw [hish]
        · show b ++ sk2.inbound <+: postCells r0.rid a hd; rw [hrid]; exact hstream
        · show r0.chunkLeft = none; rw [← hr0]
        · show r0.hcLeft = none; rw [← hr0]
        · show r0.eofAt = none; rw [← hr0]
      dsimp only at h
      have hfin : Prov A
          (if (hd.close || ((initLength hd rc.isHead).isNone && !hd.chunked)) = true then
            connClose (setConn (setResp s2 sF.resps.length fun x => { x with length := initLength hd rc.isHead, status := hd.status, chunked := hd.chunked }) c fun x => { x with http := .idle }) c
          else setConn (setConn (setResp s2 sF.resps.length fun x => { x with length := initLength hd rc.isHead, status := hd.status, chunked := hd.chunked }) c fun x => { x with http := .idle }) c fun x => { x with pending := some sF.resps.length }) := by
        generalize hs3 : (setResp s2 sF.resps.length fun x => { x with length := initLength hd rc.isHead, status := hd.status, chunked := hd.chunked }) = s3
        have hp3 : HP k c sF s3 := by rw [← hs3]; exact hp2.setResp _
        have hr3 : s3.resps[sF.resps.length]? = some { r0 with buf := b, length := initLength hd rc.isHead, status := hd.status, chunked := hd.chunked } := by
          rw [← hs3]; simp [setResp, List.getElem?_modify, hr2]
        have hsk3 : s3.socks[k]? = some sk2 := by rw [← hs3]; exact g2
        have hc3 : s3.conns[c]? = some cn := by rw [← hs3]; exact hc2
        generalize hs4 : (setConn s3 c fun x => { x with http := .idle }) = s4
        have hp4 : HP k c sF s4 := by rw [← hs4]; exact hp3.setConn _
        have hr4 : s4.resps[sF.resps.length]? = some { r0 with buf := b, length := initLength hd rc.isHead, status := hd.status, chunked := hd.chunked } := by
          rw [← hs4]; exact hr3
        have hsk4 : s4.socks[k]? = some sk2 := by rw [← hs4]; exact hsk3
        have hc4 : s4.conns[c]? = some { cn with http := .idle } := by
          rw [← hs4]; simp [setConn, List.getElem?_modify, hc3]
        by_cases hw : (hd.close || ((initLength hd rc.isHead).isNone && !hd.chunked)) = true
        · rw [if_pos hw]
          obtain ⟨e1, e2, e3⟩ := connClose_fields_nopending s4 c _ hc4 hpend
          refine fin _ (hp4.connClose _ hc4 hpend) (by rw [e1]; exact hr4) (by rw [e2]; exact hsk4) ?_
          intro cn' hcn'
          exact Or.inl (connClose_sock_none _ _ _ hcn')
        · rw [if_neg hw]
          refine fin _ (hp4.setConn _) hr4 hsk4 ?_
          intro cn' hcn'
          simp [setConn, List.getElem?_modify, hc4] at hcn'
          subst hcn'
          exact Or.inr ⟨hk', rfl⟩
      split at h
      · generalize hrr : respRead _ sF.resps.length none = res at h
        obtain ⟨s6, o6⟩ := res
        have := respRead_prov hfin hrr
        cases o6 <;> (simp at h; obtain ⟨rfl, rfl⟩ := h; exact this)
      · cases h; exact hfin

/-! ### sending -/

/-- the leased connection is either not connected or its kernel buffer is empty (the checkout probe) -/
def Lease (s : State) (c : Nat) : Prop :=
  ∀ (cn : Conn) (k : Nat), s.conns[c]? = some cn → cn.sock = some k →
    ∃ sk : Sock, s.socks[k]? = some sk ∧ sk.inbound = [] ∧ sk.after ≠ .fin

/-- `__response`, if any, is not a closed response (so `forgetClosedPending` does nothing) -/
def Settled (s : State) (c : Nat) : Prop :=
  ∀ (cn : Conn) (r : Nat) (rs : Resp), s.conns[c]? = some cn → cn.pending = some r → s.resps[r]? = some rs → rs.fp.isNone = false

theorem forget_of_settled {s : State} {c : Nat} (h : Settled s c) : forgetClosedPending s c = s := by
  unfold forgetClosedPending
  split
  · rfl
  · rename_i cn hcn
    split
    · rfl
    · rename_i r hr
      split
      · rfl
      · rename_i rs hrs
        have := h cn r rs hcn hr hrs
        simp [this]

theorem settled_forget (s : State) (c : Nat) : Settled (forgetClosedPending s c) c := by
  unfold forgetClosedPending
  split
  · rename_i h0; intro cn r rs h; rw [h0] at h; cases h
  · rename_i cn hcn
    split
    · rename_i hp; intro cn' r rs h1 h2; rw [hcn] at h1; cases h1; rw [hp] at h2; cases h2
    · rename_i r hr
      split
      · rename_i hn; intro cn' r' rs h1 h2 h3; rw [hcn] at h1; cases h1; rw [hr] at h2; cases h2; rw [hn] at h3; cases h3
      · rename_i rs hrs
        split
        · intro cn' r' rs' h1 h2
          simp [setConn, List.getElem?_modify, hcn] at h1
          subst h1; cases h2
        · rename_i hfp
          intro cn' r' rs' h1 h2 h3; rw [hcn] at h1; cases h1; rw [hr] at h2; cases h2; rw [hrs] at h3; cases h3
          cases hq : rs.fp.isNone with
          | false => rfl
          | true => exact absurd hq hfp

theorem settled_congr {s t : State} {c : Nat} (h : Settled s c) (hr : t.resps = s.resps)
    (hc : ∀ cn' : Conn, t.conns[c]? = some cn' → ∃ cn : Conn, s.conns[c]? = some cn ∧ cn'.pending = cn.pending) : Settled t c := by
  intro cn' r rs h1 h2 h3
  obtain ⟨cn, g1, g2⟩ := hc cn' h1
  rw [hr] at h3
  exact h cn r rs g1 (by rw [← g2]; exact h2) h3

theorem getResponse_notReady {s : State} {c k rid : Nat} {rc : ReqCfg} {cn : Conn} (hs : Settled s c)
    (hc : s.conns[c]? = some cn) (hp : cn.pending.isSome = true) :
    getResponse s c k rid rc = (s, .exc (exc Gen.cResponseNotReady)) := by
  unfold getResponse
  rw [forget_of_settled hs]
  simp [hc, hp]

theorem closeFp_congr {s t : State} (r : Nat) (h : s.resps = t.resps) : (closeFp s r).resps = (closeFp t r).resps := by
  unfold closeFp
  rw [h]
  split
  · exact h
  · split
    · exact h
    · rw [(noteClose_fields _ _).2.1, (noteClose_fields _ _).2.1]
      simp [setResp, h]

theorem connClose_socks (s : State) (c : Nat) : (connClose s c).socks = s.socks := by
  unfold connClose
  split
  · rfl
  · split <;> split <;> simp [(closeFp_fields _ _).2.1, (noteClose_fields _ _).2.2, setConn]

theorem connClose_resps_congr {s t : State} (c : Nat) (h1 : s.conns = t.conns) (h2 : s.resps = t.resps) :
    (connClose s c).resps = (connClose t c).resps := by
  unfold connClose
  rw [h1]
  split
  · exact h2
  · split <;> split
    · apply closeFp_congr; rw [(noteClose_fields _ _).2.1, (noteClose_fields _ _).2.1]; exact h2
    · rw [(noteClose_fields _ _).2.1, (noteClose_fields _ _).2.1]; exact h2
    · apply closeFp_congr; exact h2
    · exact h2

theorem connClose_closes_pending {s : State} {c r : Nat} {cn : Conn} (hc : s.conns[c]? = some cn) (hp : cn.pending = some r) :
    respFpClosed (connClose s c) r = true := by
  unfold connClose
  simp only [hc, hp]
  split <;> exact closeFp_closed _ _

theorem postCells_noHd (rid : Nat) (a : Attempt) (h : Head) : NoHd (postCells rid a h) := by
  intro c hc t fin e
  subst e
  have hchunk : ∀ (tg : Tag) (sizes body : List Nat), Cell.hd t fin ∉ chunkCells tg sizes body := by
    intro tg sizes
    induction sizes with
    | nil =>
      intro body
      cases body <;> simp [chunkCells, oneChunk]
    | cons n ns ih =>
      intro body
      cases body with
      | nil => simp [chunkCells]
      | cons b bs =>
        simp only [chunkCells]
        split
        · exact ih _
        · intro hm
          rcases List.mem_append.mp hm with hm | hm
          · simp [oneChunk] at hm
            have := List.mem_of_mem_take hm
            simp at this
          · exact ih _ hm
  have htr : ∀ (tg : Tag) (ms : List Nat), Cell.hd t fin ∉ trailerCells tg ms := by
    intro tg ms
    induction ms with
    | nil => simp [trailerCells]
    | cons m ms ih =>
      intro hm
      simp only [trailerCells, List.mem_append, List.mem_replicate, List.mem_cons, List.mem_nil_iff, or_false] at hm
      rcases hm with (⟨_, hm⟩ | hm | hm) | hm
      · cases hm
      · cases hm
      · cases hm
      · exact ih hm
  unfold postCells framedCells at hc
  rcases List.mem_append.mp hc with hc | hc
  · split at hc
    · rcases List.mem_append.mp hc with hc | hc
      · rcases List.mem_append.mp hc with hc | hc
        · exact hchunk _ _ _ hc
        · simp [lastChunk] at hc
      · exact htr _ _ hc
    · simp at hc
  · simp at hc

theorem serverHeld_noHd (rid : Nat) (a : Attempt) : NoHd (serverHeld rid a) := by
  unfold serverHeld
  split
  · intro c hc; cases hc
  · rename_i h _
    intro c hc
    exact postCells_noHd rid a h c (List.mem_of_mem_drop hc)

/-- every byte the server sends after the head carries the tag of the request it answers, or `stray` -/
theorem postCells_tags (rid : Nat) (a : Attempt) (h : Head) :
    ∀ c ∈ postCells rid a h, cellTag c = .req rid ∨ cellTag c = .stray := by
  have hchunk : ∀ (sizes body : List Nat), ∀ c ∈ chunkCells (.req rid) sizes body, cellTag c = .req rid := by
    intro sizes
    induction sizes with
    | nil =>
      intro body c hc
      cases body with
      | nil => simp [chunkCells] at hc
      | cons b bs =>
        simp only [chunkCells, oneChunk, List.mem_append, List.mem_cons, List.mem_map, List.mem_nil_iff, or_false] at hc
        rcases hc with (((rfl | rfl | rfl) | ⟨v, _, rfl⟩) | rfl | rfl) <;> rfl
    | cons n ns ih =>
      intro body c hc
      cases body with
      | nil => simp [chunkCells] at hc
      | cons b bs =>
        simp only [chunkCells] at hc
        split at hc
        · exact ih _ c hc
        · rcases List.mem_append.mp hc with hc | hc
          · simp only [oneChunk, List.mem_append, List.mem_cons, List.mem_map, List.mem_nil_iff, or_false] at hc
            rcases hc with (((rfl | rfl | rfl) | ⟨v, _, rfl⟩) | rfl | rfl) <;> rfl
          · exact ih _ c hc
  have htr : ∀ (ms : List Nat), ∀ c ∈ trailerCells (.req rid) ms, cellTag c = .req rid := by
    intro ms
    induction ms with
    | nil => intro c hc; simp [trailerCells] at hc; rcases hc with rfl | rfl <;> rfl
    | cons m ms ih =>
      intro c hc
      simp only [trailerCells, List.mem_append, List.mem_replicate, List.mem_cons, List.mem_nil_iff, or_false] at hc
      rcases hc with (⟨_, rfl⟩ | rfl | rfl) | hc
      · rfl
      · rfl
      · rfl
      · exact ih c hc
  intro c hc
  unfold postCells framedCells at hc
  rcases List.mem_append.mp hc with hc | hc
  · left
    split at hc
    · rcases List.mem_append.mp hc with hc | hc
      · rcases List.mem_append.mp hc with hc | hc
        · exact hchunk _ _ c hc
        · simp [lastChunk] at hc; rcases hc with rfl | rfl | rfl <;> rfl
      · exact htr _ c hc
    · obtain ⟨v, _, rfl⟩ := List.mem_map.mp hc; rfl
  · right
    obtain ⟨v, _, rfl⟩ := List.mem_map.mp hc; rfl

theorem serverCells_tags (rid : Nat) (a : Attempt) : ∀ c ∈ serverCells rid a, cellTag c = .req rid ∨ cellTag c = .stray := by
  intro c hc
  unfold serverCells at hc
  split at hc
  · simp at hc
  · rcases List.mem_append.mp hc with hc | hc
    · left
      simp only [headCells, List.mem_append, List.mem_replicate, List.mem_singleton] at hc
      rcases hc with ⟨_, rfl⟩ | rfl <;> rfl
    · exact postCells_tags _ _ _ c hc

/-- what is sent at once and what is held back are, together, the whole reaction -/
theorem serverNow_held (rid : Nat) (a : Attempt) : serverNow rid a ++ serverHeld rid a = serverCells rid a := by
  unfold serverNow serverHeld serverCells
  split
  · rfl
  · simp

/-- case (B): a request was written to a socket whose previous response is still being read;
closing the connection (which `urlopen` is about to do) restores the invariant -/
theorem send_dirty_close {A : Nat → Attempt → Prop} {s : State} {c k r0 : Nat} {cn : Conn} (g : Sock → Sock) (e : Ev)
    (p : Prov A s) (hc : s.conns[c]? = some cn) (hk : cn.sock = some k) (hp : cn.pending = some r0)
    (hh : ∀ x, (g x).held = x.held ∨ NoHd (g x).held) (hnf : ¬ FinAt s k) :
    Prov A (connClose (setSock (logEv s e) k g) c) := by
  have p1 : Prov A (connClose s c) := (connClose_safe s c).prov p
  have nr : NoReader (connClose s c) k := by
    intro i rs' hi hfp
    obtain ⟨rs, a1, a2, _⟩ := (connClose_safe s c).open_old hi hfp
    have := p.pend i rs c cn k a1 a2 hc hk
    rw [hp] at this; cases this
    have hcl := connClose_closes_pending hc hp
    rw [respFpClosed_iff] at hcl
    rw [hcl rs' hi] at hfp; cases hfp
  have hnf' : ¬ FinAt (connClose s c) k := by
    intro ⟨sk, h1, h2⟩; rw [connClose_socks] at h1; exact hnf ⟨sk, h1, h2⟩
  have p2 : Prov A (setSock (connClose s c) k g) := (setSock_safe _ k g (Or.inr nr) hh (Or.inr hnf')).prov p1
  refine (safe_core ?_ ?_ ?_).prov p2
  · show (connClose (setSock (logEv s e) k g) c).conns = (connClose s c).conns
    rw [connClose_conns, connClose_conns]; rfl
  · exact connClose_resps_congr c rfl rfl
  · rw [connClose_socks]; simp [setSock, connClose_socks, logEv]

/-- a successful `connect()`: a brand-new socket for connection `c` -/
theorem connect_ok_safe {A : Nat → Attempt → Prop} {f : Focus} {s : State} (p : ProvF A s f) (c : Nat) (x : Sock) (ev : Ev) (b : Bool)
    (hx : x.held = []) :
    Safe s (setConn (logEv { s with socks := s.socks ++ [x] } ev) c fun y => { y with sock := some s.socks.length, proxyConnected := b }) := by
  refine ⟨by simp [setConn, logEv], Nat.le_refl _, st_of_eq rfl, ?_, ?_, ?_, (appendSock_safe s x hx).hd,
    (appendSock_safe s x hx).fin, eo_of_eq rfl⟩
  · intro i rs' k' sk h1 h2 h3
    refine ⟨sk, ?_, rfl⟩
    have hk : k' < s.socks.length := by
      rcases Nat.lt_or_ge k' s.socks.length with h' | h'
      · exact h'
      · rw [List.getElem?_eq_none h'] at h3; cases h3
    show (s.socks ++ [x])[k']? = some sk
    rw [List.getElem?_append_left hk]; exact h3
  · intro i rs' h; exact Or.inl ⟨rs', h, rfl, rfl, rfl, Or.inr ⟨rfl, rfl, rfl, rfl⟩⟩
  · intro c' cn' k' h1 h2
    have h1' : (s.conns.modify c fun y => { y with sock := some s.socks.length, proxyConnected := b })[c']? = some cn' := h1
    rw [List.getElem?_modify] at h1'
    cases hx : s.conns[c']? with
    | none => simp [hx] at h1'
    | some y =>
      simp [hx] at h1'
      by_cases hcc : c = c'
      · subst hcc
        simp at h1'; subst h1'
        simp at h2; subst h2
        right
        refine ⟨Nat.le_refl _, by simp [setConn, logEv], ?_, ?_⟩
        · intro i rs' hi hfp
          have := p.fpB i rs' _ hi hfp
          omega
        · intro c2 cn2 g1 g2
          have g1' : (s.conns.modify c fun y => { y with sock := some s.socks.length, proxyConnected := b })[c2]? = some cn2 := g1
          rw [List.getElem?_modify] at g1'
          by_cases hc2 : c = c2
          · exact hc2.symm
          · cases hy : s.conns[c2]? with
            | none => simp [hy] at g1'
            | some y2 =>
              simp [hy, hc2] at g1'; subst g1'
              have := p.sockB c2 y2 _ hy g2
              omega
      · simp [hcc] at h1'; subst h1'
        exact Or.inl ⟨y, rfl, h2, Or.inl rfl⟩

theorem connect_spec {A : Nat → Attempt → Prop} {s s' : State} {c : Nat} {a : Attempt} {cn : Conn} {ek : Except Exc Nat}
    (p : Prov A s) (hc : s.conns[c]? = some cn) (h : connect s c a = (s', ek)) :
    Prov A s' ∧ s'.resps = s.resps ∧ (∀ e, ek = .error e → s'.conns = s.conns) ∧
    (∀ k, ek = .ok k → s'.conns[c]? = some { cn with sock := some k, proxyConnected := s.proxy } ∧
      (∃ sk : Sock, s'.socks[k]? = some sk ∧ sk.inbound = [] ∧ sk.after ≠ .fin) ∧ s.socks.length ≤ k) := by
  unfold connect at h
  have ps : Safe s (logEv { s with socks := s.socks ++ [{ seg := a.seg }] } (.connect s.socks.length)) :=
    (appendSock_safe s _ rfl).trans (logEv_safe _ _)
  cases hcon : a.connect <;> simp only [hcon] at h <;> cases h
  · refine ⟨(connect_ok_safe p c _ _ _ rfl).prov p, rfl, (by intro e he; cases he), ?_⟩
    intro k hk; cases hk
    refine ⟨by simp [setConn, logEv, List.getElem?_modify, hc], ⟨{ seg := a.seg }, ?_, rfl, by simp⟩, Nat.le_refl _⟩
    simp [setConn, logEv]
  · exact ⟨(ps.trans (logEv_safe _ _)).prov p, rfl, fun _ _ => rfl, by intro k hk; cases hk⟩
  · exact ⟨(ps.trans (logEv_safe _ _)).prov p, rfl, fun _ _ => rfl, by intro k hk; cases hk⟩
  · exact ⟨p, rfl, fun _ _ => rfl, by intro k hk; cases hk⟩
  · exact ⟨ps.prov p, rfl, fun _ _ => rfl, by intro k hk; cases hk⟩

/-- what `_make_request` knows once `conn.request(...)` has written the request to socket `k` -/
def Sent (A : Nat → Attempt → Prop) (s' : State) (c k rid : Nat) (a : Attempt) : Prop :=
  Settled s' c ∧ ∃ cn : Conn, s'.conns[c]? = some cn ∧ cn.sock = some k ∧
    ((cn.pending = none ∧ Prov A s' ∧ ∃ (sk : Sock) (H : List Cell), s'.socks[k]? = some sk ∧ NoHd H ∧
        sk.inbound = H ++ serverNow rid a) ∨
     (cn.pending.isSome = true ∧ Prov A (connClose s' c)))

theorem send_step {A : Nat → Attempt → Prop} {t : State} {c k : Nat} {cnt : Conn} {skt : Sock}
    (p : Prov A t) (hc : t.conns[c]? = some cnt) (hk : cnt.sock = some k) (hsk : t.socks[k]? = some skt)
    (hin : skt.inbound = []) (hnf : skt.after ≠ .fin) (hst : Settled t c) (rid : Nat) (a : Attempt) :
    Sent A (setSock (logEv t (.send k)) k fun sk =>
        { sk with inbound := sk.inbound ++ (sk.held ++ serverNow rid a), held := serverHeld rid a, after := a.after })
      c k rid a := by
  refine ⟨settled_congr hst rfl (fun cn' h => ⟨cn', h, rfl⟩), cnt, hc, hk, ?_⟩
  have hnf' : ¬ FinAt t k := by
    intro ⟨sk, h1, h2⟩; rw [hsk] at h1; cases h1; exact hnf h2
  cases hp : cnt.pending with
  | none =>
    left
    have nr := noReader_of_nopending p hc hk hp
    refine ⟨rfl, ((logEv_safe t _).trans (setSock_safe _ k _ (Or.inr nr) (fun x => Or.inr (serverHeld_noHd rid a)) (Or.inr hnf'))).prov p, ?_⟩
    refine ⟨{ skt with inbound := skt.inbound ++ (skt.held ++ serverNow rid a), held := serverHeld rid a, after := a.after },
      skt.held, ?_, p.heldB k skt hsk, (by simp [hin])⟩
    simp [setSock, logEv, List.getElem?_modify, hsk]
  | some r0 =>
    right
    exact ⟨rfl, send_dirty_close _ _ p hc hk hp (fun x => Or.inr (serverHeld_noHd rid a)) hnf'⟩

theorem connRequest_spec {A : Nat → Attempt → Prop} {s s' : State} {c rid : Nat} {a : Attempt} {ek : Except Exc Nat}
    (p : Prov A s) (hl : Lease s c) (h : connRequest s c rid a = (s', ek)) :
    (∀ e, ek = .error e → Prov A s' ∧ Lease s' c) ∧ (∀ k, ek = .ok k → Sent A s' c k rid a) := by
  unfold connRequest at h
  have pF := (forget_safe p c).prov p
  obtain ⟨fr, fs, fo, fc, fn⟩ := forget_fields s c
  have hst := settled_forget s c
  have hlF : Lease (forgetClosedPending s c) c := by
    intro cn' k h1 h2
    cases hc0 : s.conns[c]? with
    | none => rw [fn hc0] at h1; cases h1
    | some cn0 =>
      obtain ⟨cn'', g1, g2, _⟩ := fc cn0 hc0
      rw [g1] at h1; cases h1
      rw [fs]; exact hl cn0 k hc0 (by rw [← g2]; exact h2)
  generalize forgetClosedPending s c = sF at h pF hst hlF
  dsimp only at h
  split at h
  · cases h
    exact ⟨fun e _ => ⟨pF, hlF⟩, by intro k hk; cases hk⟩
  · rename_i cn hcn
    split at h
    · cases h
      exact ⟨fun e _ => ⟨pF, hlF⟩, by intro k hk; cases hk⟩
    · have p1 : Prov A (setConn sF c fun x => { x with http := .reqSent }) :=
        (setConn_safe sF c (fun x => { x with http := .reqSent }) (fun x => Or.inr ⟨rfl, rfl⟩)).prov pF
      have hc1 : (setConn sF c fun x => { x with http := .reqSent }).conns[c]? = some { cn with http := .reqSent } := by
        simp [setConn, List.getElem?_modify, hcn]
      have hst1 : Settled (setConn sF c fun x => { x with http := .reqSent }) c := by
        refine settled_congr hst rfl ?_
        intro cn' h'; rw [hc1] at h'; cases h'; exact ⟨cn, hcn, rfl⟩
      have hsk1 : (setConn sF c fun x => { x with http := .reqSent }).socks = sF.socks := rfl
      generalize (setConn sF c fun x => { x with http := .reqSent }) = s1 at h p1 hc1 hst1 hsk1
      cases hsock : cn.sock with
      | some k =>
        simp only [hsock] at h
        obtain ⟨skt, g1, g2⟩ := hlF cn k hcn hsock
        cases hse : sendExc a.send with
        | some e =>
          simp only [hse] at h; cases h
          refine ⟨fun e _ => ⟨p1, ?_⟩, by intro k hk; cases hk⟩
          intro cn' k' h1 h2
          rw [hc1] at h1; cases h1
          rw [hsk1]; exact hlF cn k' hcn h2
        | none =>
          simp only [hse] at h; cases h
          refine ⟨(by intro e he; cases he), ?_⟩
          intro k' hk'; cases hk'
          exact send_step p1 hc1 hsock (by rw [hsk1]; exact g1) g2.1 g2.2 hst1 rid a
      | none =>
        simp only [hsock] at h
        generalize hco : connect s1 c a = res at h
        obtain ⟨s2, ek2⟩ := res
        obtain ⟨p2, hr2, he2, hk2⟩ := connect_spec p1 hc1 hco
        cases ek2 with
        | error e =>
          dsimp only at h; cases h
          refine ⟨fun _ _ => ⟨p2, ?_⟩, by intro k hk; cases hk⟩
          intro cn' k' h1 h2
          rw [he2 e rfl, hc1] at h1; cases h1
          rw [hsock] at h2; cases h2
        | ok k =>
          dsimp only at h
          obtain ⟨hc2, ⟨skt, g1, g2⟩, _⟩ := hk2 k rfl
          have hst2 : Settled s2 c := by
            refine settled_congr hst1 hr2 ?_
            intro cn' h'; rw [hc2] at h'; cases h'; exact ⟨_, hc1, rfl⟩
          cases hse : sendExc a.send with
          | some e =>
            simp only [hse] at h; cases h
            refine ⟨fun e _ => ⟨p2, ?_⟩, by intro k hk; cases hk⟩
            intro cn' k' h1 h2
            rw [hc2] at h1; cases h1
            cases h2
            exact ⟨skt, g1, g2⟩
          | none =>
            simp only [hse] at h; cases h
            refine ⟨(by intro e he; cases he), ?_⟩
            intro k' hk'; cases hk'
            exact send_step p2 hc2 rfl g1 g2.1 g2.2 hst2 rid a

/-- a request rejected between `putrequest()` and `endheaders()`: always an error, the state stays good and the
connection keeps what it had (nothing was connected, nothing was sent) -/
theorem connReject_spec {A : Nat → Attempt → Prop} {s s' : State} {c : Nat} {ek : Except Exc Nat}
    (p : Prov A s) (hl : Lease s c) (h : connReject s c = (s', ek)) :
    (∀ e, ek = .error e → Prov A s' ∧ Lease s' c) ∧ (∀ k, ek ≠ .ok k) := by
  unfold connReject at h
  have pF := (forget_safe p c).prov p
  obtain ⟨fr, fs, fo, fc, fn⟩ := forget_fields s c
  have hlF : Lease (forgetClosedPending s c) c := by
    intro cn' k h1 h2
    cases hc0 : s.conns[c]? with
    | none => rw [fn hc0] at h1; cases h1
    | some cn0 =>
      obtain ⟨cn'', g1, g2, _⟩ := fc cn0 hc0
      rw [g1] at h1; cases h1
      rw [fs]; exact hl cn0 k hc0 (by rw [← g2]; exact h2)
  generalize forgetClosedPending s c = sF at h pF hlF
  dsimp only at h
  split at h
  · cases h
    exact ⟨fun e _ => ⟨pF, hlF⟩, by intro k hk; cases hk⟩
  · rename_i cn hcn
    split at h
    · cases h
      exact ⟨fun e _ => ⟨pF, hlF⟩, by intro k hk; cases hk⟩
    · have p1 : Prov A (setConn sF c fun x => { x with http := .reqSent }) :=
        (setConn_safe sF c (fun x => { x with http := .reqSent }) (fun x => Or.inr ⟨rfl, rfl⟩)).prov pF
      have hc1 : (setConn sF c fun x => { x with http := .reqSent }).conns[c]? = some { cn with http := .reqSent } := by
        simp [setConn, List.getElem?_modify, hcn]
      have hsk1 : (setConn sF c fun x => { x with http := .reqSent }).socks = sF.socks := rfl
      cases h
      refine ⟨fun e _ => ⟨p1, ?_⟩, by intro k hk; cases hk⟩
      intro cn' k' h1 h2
      rw [hc1] at h1; cases h1
      rw [hsk1]; exact hlF cn k' hcn h2

theorem connRequestH_spec {A : Nat → Attempt → Prop} {s s' : State} {c rid : Nat} {a : Attempt} {bad : Bool}
    {ek : Except Exc Nat} (p : Prov A s) (hl : Lease s c) (h : connRequestH s c rid a bad = (s', ek)) :
    (∀ e, ek = .error e → Prov A s' ∧ Lease s' c) ∧ (∀ k, ek = .ok k → Sent A s' c k rid a) := by
  cases bad with
  | false => exact connRequest_spec p hl h
  | true =>
    obtain ⟨g1, g2⟩ := connReject_spec p hl h
    exact ⟨g1, fun k hk => absurd hk (g2 k)⟩

/-! ### `_make_request` -/

/-- a swallowed send error leaves the socket where it was -/
def sendFix (s : State) (c : Nat) (ek : Except Exc Nat) : Except Exc Nat :=
  match ek with
  | .ok k => .ok k
  | .error e =>
    if sendSwallowed e then
      match s.conns[c]? with
      | some cn => match cn.sock with
        | some k => .ok k
        | none => .error (exc Gen.cAttributeError)
      | none => .error (exc Gen.cAttributeError)
    else .error e

def makeTail (s : State) (c rid : Nat) (rc : ReqCfg) (ek : Except Exc Nat) : State × RespOut :=
  match ek with
  | .error e => (s, .exc e)
  | .ok k =>
    match getResponse s c k rid rc with
    | (s, .exc e) => (s, .exc (translateRecv e))
    | (s, .resp r) => attachResp s c r rc

theorem attachResp_prov {A : Nat → Attempt → Prop} {s : State} (c r : Nat) (rc : ReqCfg) (p : Prov A s) :
    Prov A (attachResp s c r rc).1 := by
  have p1 := (setResp_safe s r (fun x => { x with conn := if rc.release then none else some c, hasPool := true })
    (fun x => ⟨rfl, rfl, rfl, Or.inr ⟨rfl, rfl, rfl, rfl⟩⟩)).prov p
  unfold attachResp
  generalize (setResp s r fun x => { x with conn := if rc.release then none else some c, hasPool := true }) = t at p1
  dsimp only
  split
  · have p2 := (releaseConn_safe t r).prov p1
    generalize releaseConn t r = q at p2
    obtain ⟨t2, o⟩ := q
    cases o <;> exact p2
  · exact p1

theorem makeRequest_eq (s : State) (c rid : Nat) (a : Attempt) (rc : ReqCfg) :
    makeRequest s c rid a rc =
      makeTail (connRequestH s c rid a rc.badHeader).1 c rid rc
        (sendFix (connRequestH s c rid a rc.badHeader).1 c (connRequestH s c rid a rc.badHeader).2) := rfl

theorem makeRequest_spec {A : Nat → Attempt → Prop} {s s' : State} {c rid : Nat} {a : Attempt} {rc : ReqCfg} {out : RespOut}
    (p : Prov A s) (hl : Lease s c) (hA : A rid a) (h : makeRequest s c rid a rc = (s', out)) :
    (∀ r, out = .resp r → Prov A s') ∧
    (∀ e, out = .exc e → Prov A (connClose s' c) ∧ (Prov A s' ∨ e = translateRecv (exc Gen.cResponseNotReady))) := by
  rw [makeRequest_eq] at h
  generalize hcr : connRequestH s c rid a rc.badHeader = res at h
  obtain ⟨s1, ek⟩ := res
  obtain ⟨spE, spK⟩ := connRequestH_spec p hl hcr
  dsimp only at h
  -- the tail after a `getresponse()` on a clean connection
  have tail : ∀ (k : Nat) (cn0 : Conn) (sk : Sock), Prov A s1 → s1.conns[c]? = some cn0 → cn0.sock = some k →
      s1.socks[k]? = some sk → ((∃ H, NoHd H ∧ sk.inbound = H ++ serverNow rid a) ∨ sk.inbound = []) →
      makeTail s1 c rid rc (.ok k) = (s', out) →
      (∀ r, out = .resp r → Prov A s') ∧
      (∀ e, out = .exc e → Prov A (connClose s' c) ∧ (Prov A s' ∨ e = translateRecv (exc Gen.cResponseNotReady))) := by
    intro k cn0 sk p1 hc hk hsk hin ht
    unfold makeTail at ht
    dsimp only at ht
    generalize hgr : getResponse s1 c k rid rc = res at ht
    obtain ⟨s2, o⟩ := res
    have p2 := getResponse_prov p1 hc hk hsk hin hA hgr
    cases o with
    | exc e =>
      cases ht
      exact ⟨(by intro r hr; cases hr), fun _ _ => ⟨(connClose_safe _ _).prov p2, Or.inl p2⟩⟩
    | resp r =>
      dsimp only at ht
      have p3 := attachResp_prov c r rc p2
      rw [ht] at p3
      exact ⟨fun _ _ => p3, fun _ _ => ⟨(connClose_safe _ _).prov p3, Or.inl p3⟩⟩
  cases ek with
  | ok k =>
    obtain ⟨hst, cn, hc, hk, hcase⟩ := spK k rfl
    rcases hcase with ⟨hp, p1, sk, H, hsk, hH, hin⟩ | ⟨hp, pc⟩
    · exact tail k cn sk p1 hc hk hsk (Or.inl ⟨H, hH, hin⟩) h
    · unfold sendFix makeTail at h
      dsimp only at h
      rw [getResponse_notReady hst hc hp] at h
      cases h
      exact ⟨(by intro r hr; cases hr), fun e he => by cases he; exact ⟨pc, Or.inr rfl⟩⟩
  | error e =>
    obtain ⟨p1, hl1⟩ := spE e rfl
    have bad : ∀ e', (s1, RespOut.exc e') = (s', out) →
        (∀ r, out = .resp r → Prov A s') ∧
        (∀ e, out = .exc e → Prov A (connClose s' c) ∧ (Prov A s' ∨ e = translateRecv (exc Gen.cResponseNotReady))) := by
      intro e' he'; cases he'
      exact ⟨(by intro r hr; cases hr), fun _ _ => ⟨(connClose_safe _ _).prov p1, Or.inl p1⟩⟩
    unfold sendFix at h
    dsimp only at h
    split at h
    · split at h
      · rename_i cn hcn
        split at h
        · rename_i k hk
          obtain ⟨sk, hsk, hin, _⟩ := hl1 cn k hcn hk
          exact tail k cn sk p1 hcn hk hsk (Or.inr hin) h
        · exact bad _ h
      · exact bad _ h
    · exact bad _ h

/-! ### `urlopen` -/

theorem getConn_lease {s s1 : State} {c : Nat} (h : getConn s = (s1, .ok c)) : Lease s1 c := by
  have fresh : ∀ (t : State), Lease (newConn t).1 (newConn t).2 := by
    intro t cn k h1 h2
    simp [newConn] at h1
    subst h1; cases h2
  unfold getConn at h
  split at h
  · cases h
  · split at h
    · split at h
      · cases h
      · cases h; exact fresh s
    · rename_i item rest hq
      cases item with
      | none => cases h; exact fresh _
      | some c0 =>
        simp only at h
        cases h
        split
        · intro cn k h1 h2
          rw [connClose_sock_none _ _ _ h1] at h2; cases h2
        · rename_i hd
          intro cn k h1 h2
          unfold isDropped at hd
          have h1' : s.conns[c]? = some cn := h1
          simp only [h1', h2] at hd
          unfold sockReadable at hd
          split at hd
          · exact absurd rfl hd
          · rename_i sk hsk
            refine ⟨sk, hsk, ?_, ?_⟩
            · cases hin : sk.inbound with
              | nil => rfl
              | cons x xs => simp [hin] at hd
            · intro haf; simp [haf] at hd

theorem rnr_not_noCleanup (u : Bool) (rt : Retry) (m : Bool) :
    handleError u rt m (translateRecv (exc Gen.cResponseNotReady)).cls ≠ .noCleanup := by
  have h1 : isInst (translateRecv (exc Gen.cResponseNotReady)).cls (Gen.urlopenHandlers.getD 1 []) = false := by decide
  unfold handleError
  rw [h1]
  simp only [Bool.false_eq_true, if_false]
  split
  · split <;> simp
  · simp

theorem discard_some_prov {A : Nat → Attempt → Prop} {s : State} {c : Nat} (p : Prov A (connClose s c)) :
    Prov A (discard s (some c)).1 := (putConn_safe (connClose s c) none).prov p

/-- a whole `urlopen` call (with all its retries and redirects) preserves the invariant -/
theorem request_prov {A : Nat → Attempt → Prop} (rid : Nat) : ∀ (script : List Attempt) (s : State) (rc : ReqCfg) (retries : Retry),
    Prov A s → (∀ a ∈ script, A rid a) → Prov A (request s rid rc retries script).1 := by
  intro script
  induction script with
  | nil => intro s rc retries p _; exact p
  | cons a rest ih =>
    intro s rc retries p hA
    have hA' : ∀ a' ∈ rest, A rid a' := fun a' h => hA a' (List.mem_cons_of_mem _ h)
    have ha : A rid a := hA a (List.mem_cons_self ..)
    -- after an unclean exit: `discard`, then raise or recurse
    have afterDiscard : ∀ (t : State) (x : Option Nat) (e1 : Exc), Prov A (discard t x).1 →
        Prov A (match discard t x with
          | (s, some e') => (s, Result.raised e')
          | (s, none) => (s, Result.raised e1)).1 := by
      intro t x e1 pd
      generalize discard t x = r at pd ⊢
      obtain ⟨s2, o⟩ := r
      cases o <;> exact pd
    have afterDiscardRec : ∀ (t : State) (x : Option Nat) (rc' : ReqCfg) (rt : Retry), Prov A (discard t x).1 →
        Prov A (match discard t x with
          | (s, some e'') => (s, Result.raised e'')
          | (s, none) => request s rid rc' rt rest).1 := by
      intro t x rc' rt pd
      generalize discard t x = r at pd ⊢
      obtain ⟨s2, o⟩ := r
      cases o with
      | some e => exact pd
      | none => exact ih s2 rc' rt pd hA'
    have afterDrain : ∀ (t : State) (r : Nat) (e1 : Exc), Prov A t →
        Prov A (match drainConn t r with
          | (s, some e) => (s, Result.raised e)
          | (s, none) => (s, Result.raised e1)).1 := by
      intro t r e1 pt
      have pd := drainConn_prov (r := r) pt
      generalize drainConn t r = q at pd ⊢
      obtain ⟨s2, o⟩ := q
      cases o <;> exact pd
    -- drain, then the wait between the attempts (which may raise), then recurse
    have afterDrainRec : ∀ (t : State) (r : Nat) (w : Option Exc) (rc' : ReqCfg) (rt : Retry), Prov A t →
        Prov A (match drainConn t r with
          | (s, some e) => (s, Result.raised e)
          | (s, none) =>
            match w with
            | some e => (s, Result.raised e)
            | none => request s rid rc' rt rest).1 := by
      intro t r w rc' rt pt
      have pd := drainConn_prov (r := r) pt
      generalize drainConn t r = q at pd ⊢
      obtain ⟨s2, o⟩ := q
      cases o with
      | some e => exact pd
      | none =>
        cases w with
        | some e => exact pd
        | none => exact ih s2 rc' rt pd hA'
    rw [request]
    -- a failure before the `try:` changes nothing
    cases preflight rc a with
    | some e => exact p
    | none =>
    dsimp only
    -- a `pool_timeout` that `queue.get` rejects: `ValueError` out of `_get_conn`, the state is untouched
    rcases getConnT_cases s rc.badPoolTimeout with hT | ⟨hT, -⟩
    rotate_left
    · rw [hT]
      dsimp only
      have pd := (discard_safe s none).prov p
      split
      · exact p
      · exact afterDiscard _ _ _ pd
      · exact afterDiscard _ _ _ pd
      · exact afterDiscardRec _ _ _ _ pd
    rw [hT]
    generalize hg : getConn s = res
    obtain ⟨s1, eg⟩ := res
    have p1 : Prov A s1 := by have := (getConn_safe s).prov p; rw [hg] at this; exact this
    cases eg with
    | error e =>
      dsimp only
      have pd := (discard_safe s1 none).prov p1
      split
      · exact p1
      · exact afterDiscard _ _ _ pd
      · exact afterDiscard _ _ _ pd
      · exact afterDiscardRec _ _ _ _ pd
    | ok c =>
      dsimp only
      have hl := getConn_lease hg
      generalize hm : makeRequest s1 c rid a rc = res
      obtain ⟨s2, o⟩ := res
      obtain ⟨okr, oke⟩ := makeRequest_spec p1 hl ha hm
      cases o with
      | exc e =>
        dsimp only
        obtain ⟨pc, pe⟩ := oke e rfl
        have pd := discard_some_prov pc
        split
        · rename_i hh
          rcases pe with pe | rfl
          · exact pe
          · exact absurd hh (rnr_not_noCleanup _ _ _)
        · exact afterDiscard _ _ _ pd
        · exact afterDiscard _ _ _ pd
        · exact afterDiscardRec _ _ _ _ pd
      | resp r =>
        dsimp only
        have p2 := okr r rfl
        have pp : Prov A (if rc.release = true then putConn s2 (some c) else (s2, none)).1 := by
          split
          · exact (putConn_safe s2 (some c)).prov p2
          · exact p2
        generalize (if rc.release = true then putConn s2 (some c) else (s2, none)) = q at pp ⊢
        obtain ⟨s3, o3⟩ := q
        cases o3 with
        | some e => exact pp
        | none =>
          dsimp only
          have fin : ∀ (loc ra : Bool) (status : Nat) (w : Option Exc), Prov A
              (if (rc.redirect && isRedirect s3 r loc) = true then
                match retries.incrementResp with
                | none =>
                  if retries.raiseOnRedirect = true then
                    match drainConn s3 r with
                    | (s, some e) => (s, Result.raised e)
                    | (s, none) => (s, Result.raised (exc Gen.cU3MaxRetryError))
                  else (markReturned s3 r, Result.resp r)
                | some retries' =>
                  match drainConn s3 r with
                  | (s, some e) => (s, Result.raised e)
                  | (s, none) =>
                    match w with
                    | some e => (s, Result.raised e)
                    | none => request s rid (if (status == 303) = true then rc.seeOther else rc.hop) retries' rest
              else if retries.isRetry rc.methodRetryable status ra = true then
                match retries.incrementResp with
                | none =>
                  match drainConn s3 r with
                  | (s, some e) => (s, Result.raised e)
                  | (s, none) => (s, Result.raised (exc Gen.cU3MaxRetryError))
                | some retries' =>
                  match drainConn s3 r with
                  | (s, some e) => (s, Result.raised e)
                  | (s, none) =>
                    match w with
                    | some e => (s, Result.raised e)
                    | none => request s rid rc.hop retries' rest
              else (markReturned s3 r, Result.resp r)).1 := by
            intro loc ra status w
            split
            · split
              · split
                · exact afterDrain _ _ _ pp
                · exact (markReturned_safe _ _).prov pp
              · exact afterDrainRec _ _ _ _ _ pp
            · split
              · split
                · exact afterDrain _ _ _ pp
                · exact afterDrainRec _ _ _ _ _ pp
              · exact (markReturned_safe _ _).prov pp
          exact fin _ _ _ _

theorem closePool_prov {A : Nat → Attempt → Prop} {s : State} (p : Prov A s) : Prov A (closePool s) :=
  (closePool_safe s).prov p

/-- every operation of a history preserves the invariant -/
theorem step_prov {A : Nat → Attempt → Prop} {s : State} (op : Op) (p : Prov A s)
    (hA : ∀ rid rc rt script, op = .request rid rc rt script → ∀ a ∈ script, A rid a) : Prov A (step s op).1 := by
  cases op with
  | request rid rc rt script => exact request_prov rid script s rc rt p (hA rid rc rt script rfl)
  | dispose rid how => exact dispose_prov rid how p
  | closePool => exact closePool_prov p

theorem init_prov (A : Nat → Attempt → Prop) (n : Nat) (b pr : Bool) : Prov A (init n b pr) := by
  refine ⟨?_, ?_, ?_, ?_, ?_, ?_, (by intro _ _ _ h; cases h), ?_, ?_⟩ <;> simp [init]

/-! ## histories -/

/-- attempt `a` is scripted for request `rid` somewhere in history `ops` -/
def Scripted (ops : List Op) (rid : Nat) (a : Attempt) : Prop :=
  ∃ rc rt script, Op.request rid rc rt script ∈ ops ∧ a ∈ script

theorem run_prov_gen {A : Nat → Attempt → Prop} : ∀ (ops : List Op) (s : State), Prov A s →
    (∀ op ∈ ops, ∀ rid rc rt script, op = Op.request rid rc rt script → ∀ a ∈ script, A rid a) → Prov A (run s ops) := by
  intro ops
  induction ops with
  | nil => intro s p _; exact p
  | cons op rest ih =>
    intro s p h
    show Prov A (run (step s op).1 rest)
    exact ih _ (step_prov op p (h op (List.mem_cons_self ..))) (fun op' hm => h op' (List.mem_cons_of_mem _ hm))

/-- the provenance invariant holds after every history, from every initial pool -/
theorem run_prov (ops : List Op) (n : Nat) (b pr : Bool) : Prov (Scripted ops) (run (init n b pr) ops) := by
  refine run_prov_gen ops _ (init_prov _ n b pr) ?_
  intro op hm rid rc rt script he a ha
  exact ⟨rc, rt, script, he ▸ hm, ha⟩

/-- every byte delivered for response `r` was sent by the server in reaction to `r`'s own request -/
def ownBytes (r : Resp) : Bool := r.delivered.all fun c => cellTag c == .req r.rid

/-- the scripted server marks as `stray` only bytes that lie beyond the declared end of the reply:
either there are none, or the reply is chunked (the chunked coding delimits itself), or it is one that
never has a body (1xx, 204, 304), or its `Content-Length` does not exceed the body actually sent -/
def WellFramed (a : Attempt) : Prop :=
  a.stray = [] ∨ ∃ h, a.head = some h ∧
    (h.chunked = true ∨ (h.status = 204 ∨ h.status = 304 ∨ (100 ≤ h.status ∧ h.status < 200)) ∨
      ∃ n, h.cl = some n ∧ n ≤ a.body.length)

theorem prefix_body_of_framed {rs : Resp} {a : Attempt} {h : Head} (hw : WellFramed a) (hh : a.head = some h)
    (hp : rs.delivered <+: deliverable rs.rid a h) (hl : ∀ n, lenBound h rs.isHead = some n → rs.delivered.length ≤ n) :
    rs.delivered <+: a.body.map (Cell.body (.req rs.rid)) := by
  by_cases hc : h.chunked = true
  · simpa [deliverable, hc, payloadCells] using hp
  have hc : h.chunked = false := by simpa using hc
  have hp : rs.delivered <+: bodyCells rs.rid a := by simpa [deliverable, hc] using hp
  rw [lenBound_plain hc] at hl
  have hbody : a.body.map (Cell.body (.req rs.rid)) <+: bodyCells rs.rid a := List.prefix_append _ _
  rcases hw with hw | ⟨h', hh', hw⟩
  · simpa [bodyCells, payloadCells, strayCells, hw] using hp
  · rw [hh] at hh'; cases hh'
    have hlen : rs.delivered.length ≤ (a.body.map (Cell.body (.req rs.rid))).length := by
      rcases hw with hw | hw | ⟨n, hn, hle⟩
      · rw [hc] at hw; cases hw
      · have : initLength h rs.isHead = some 0 := by
          unfold initLength noBody
          rcases hw with e | e | ⟨e1, e2⟩ <;> simp [*]
        have := hl 0 this
        omega
      · by_cases hnb : noBody h.status rs.isHead = true
        · have := hl 0 (by simp [initLength, hnb]); omega
        · have := hl n (by simp [initLength, hnb, hn, hc]); simp; omega
    exact List.prefix_of_prefix_length_le hp hbody hlen

theorem ownBytes_of_prefix {rs : Resp} {l : List Nat} (hp : rs.delivered <+: l.map (Cell.body (.req rs.rid))) :
    ownBytes rs = true := by
  unfold ownBytes
  rw [List.all_eq_true]
  intro c hc
  obtain ⟨t, ht⟩ := hp
  have : c ∈ l.map (Cell.body (.req rs.rid)) := by rw [← ht]; exact List.mem_append_left _ hc
  obtain ⟨v, _, rfl⟩ := List.mem_map.mp this
  simp [cellTag]

end U3.Pool
