import U3.Lemmas.RespRead
/-! `__iter__` re-splits the streamed chunks on `\n` without losing or reordering a byte. -/
namespace U3.Resp
open U3

/-- joining the parts of `splitOn1 c s` with `c` gives `s` back -/
theorem splitOn1_join (c : Nat) : ∀ (s : List Nat),
    ∃ p ps, splitOn1 c s = p :: ps ∧ p ++ (ps.map (fun q => c :: q)).flatten = s := by
  intro s
  induction s with
  | nil => exact ⟨[], [], rfl, rfl⟩
  | cons x t ih =>
    obtain ⟨p, ps, h1, h2⟩ := ih
    unfold splitOn1
    by_cases hx : x = c
    · rw [if_pos hx]
      refine ⟨[], p :: ps, by rw [h1], ?_⟩
      simp [h2, hx]
    · rw [if_neg hx, h1]
      exact ⟨x :: p, ps, rfl, by simp [h2]⟩

/-- … and there are at least two parts when `c` occurs -/
theorem splitOn1_two (c : Nat) : ∀ (s : List Nat), s.contains c = true →
    ∃ p q qs, splitOn1 c s = p :: q :: qs := by
  intro s
  induction s with
  | nil => intro h; simp at h
  | cons x t ih =>
    intro h
    unfold splitOn1
    by_cases hx : x = c
    · rw [if_pos hx]
      obtain ⟨p, ps, h1, _⟩ := splitOn1_join c t
      exact ⟨[], p, ps, by rw [h1]⟩
    · rw [if_neg hx]
      have ht : t.contains c = true := by
        simp only [List.contains_cons, Bool.or_eq_true, beq_iff_eq] at h
        rcases h with h | h
        · exact absurd h.symm hx
        · exact h
      obtain ⟨p, q, qs, h1⟩ := ih ht
      rw [h1]
      exact ⟨x :: p, q, qs, rfl⟩

/-- the lines cut out of one chunk that contains `\n`, followed by the new carry, are the old carry
followed by the chunk -/
theorem iter_chunk_flatten (chunk carry : Bytes) (h : chunk.contains LF = true) :
    (carry ++ (splitOn1 LF chunk).headD [] ++ [LF]) ++
      (((splitOn1 LF chunk).drop 1).dropLast.map (· ++ [LF])).flatten ++ (splitOn1 LF chunk).getLastD []
      = carry ++ chunk := by
  obtain ⟨p, q, qs, h1⟩ := splitOn1_two LF chunk h
  obtain ⟨p', ps', h2, h3⟩ := splitOn1_join LF chunk
  rw [h1] at h2
  simp only [List.cons.injEq] at h2
  obtain ⟨rfl, rfl⟩ := h2
  rw [h1]
  simp only [List.headD_cons, List.drop_succ_cons, List.drop_zero]
  rw [← h3]
  -- (q :: qs) = init ++ [last]
  have hsplit : ∀ (l : List Bytes) (a : Bytes),
      ((a :: l).dropLast.map (· ++ [LF])).flatten ++ (a :: l).getLastD [] ++ [] =
        (((a :: l).map (fun q => LF :: q)).flatten).drop 1 := by
    intro l
    induction l with
    | nil => intro a; simp
    | cons b t ih =>
      intro a
      have := ih b
      simp only [List.dropLast_cons_cons, List.map_cons, List.flatten_cons, List.getLastD_cons] at this ⊢
      simp only [List.append_nil] at this ⊢
      rw [List.append_assoc, this]
      simp
  have hq := hsplit qs q
  simp only [List.append_nil] at hq
  have hlast : (p :: q :: qs).getLastD [] = (q :: qs).getLastD [] := by simp
  rw [hlast, List.append_assoc, List.append_assoc, List.append_assoc, hq]
  simp

theorem iterSplit_flatten : ∀ (ps : List Bytes) (carry : Bytes),
    (iterSplit ps carry).flatten = carry ++ ps.flatten := by
  intro ps
  induction ps with
  | nil =>
    intro carry
    unfold iterSplit
    split
    · rename_i h; simp [List.isEmpty_iff.mp h]
    · simp
  | cons chunk rest ih =>
    intro carry
    unfold iterSplit
    split
    · rename_i h
      simp only [List.flatten_cons, List.flatten_append, ih]
      have := iter_chunk_flatten chunk carry h
      rw [← List.append_assoc, this, List.append_assoc]
    · rw [ih]; simp

section
variable {σ δ : Type} (S : Src σ) (D : Dec δ) (cfg : Cfg δ) {G : δ → Bytes → Bytes → Prop}

/-- iteration over a non-chunked response, started anywhere in the body: terminates, never raises,
and the lines it yields concatenate to everything that was left -/
theorem iter_concat {rem : σ → Bytes} {I : σ → Option Int → Prop}
    (hR : RawReadSpec S cfg rem I) (hA : RawReadAllSpec S cfg rem I) (hD : StreamLaw D G)
    (hCN : ClosesN S cfg rem I) (hCA : ClosesAll S cfg I) (hZ : ClosedNil S rem I)
    (hnc : cfg.chunked = false) (r : R σ δ) (rest : Bytes) (hinv : Inv cfg rem I G r rest)
    (hfuelS : 2 * rest.length + 1 < cfg.fuel) (hfuel : (rem r.fp).length + 1 < cfg.fuel) :
    ∃ lines r', iter S D cfg r = ((lines, none), r') ∧ lines.flatten = rest ∧ Inv cfg rem I G r' [] := by
  obtain ⟨ps, r', h1, h2, h3⟩ := streamLoop_concat S D cfg hR hA hD hCN hCA hZ (some 65536) (by simp)
    (some true) rfl cfg.fuel r rest [] hinv (by split <;> omega) hfuel
  have hs : stream S D cfg r (some 65536) (some true) = ((ps, none), r') := by
    unfold stream
    simp only [hnc, Bool.false_eq_true, if_false]
    simpa using h1
  refine ⟨iterSplit ps [], r', ?_, by rw [iterSplit_flatten, h2]; rfl, h3⟩
  unfold iter
  rw [hs]

end

end U3.Resp
