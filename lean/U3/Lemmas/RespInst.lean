import U3.Lemmas.RespRead
import U3.Lemmas.RespRead1
import U3.Lemmas.RespIO
/-! Concrete instances of the abstract hypotheses of Lemmas/RespRead: the `http.client` body reader
on a well-framed Content-Length or close-delimited body satisfies `RawReadSpec` and
`RawReadAllSpec` for every network segmentation. -/
namespace U3.Resp
open U3

/-- the raw body bytes a non-chunked `http.client` response will still deliver -/
def hRem (h : H) : Bytes :=
  match h.fp with
  | none => []
  | some f =>
    match h.length with
    | some l => f.content.take l
    | none => f.content

/-- a well-framed non-chunked body: not HEAD, not chunked, and while the file is open all the
bytes the Content-Length promises are (or will be) there -/
structure HInv (h : H) : Prop where
  head : h.head = false
  chunked : h.chunked = false
  avail : ∀ f, h.fp = some f → h.closed = false ∧ ∀ l, h.length = some l → l ≤ f.content.length

/-- `length_remaining` is in step with `http.client`: the number of body bytes still to come, or
`None` on a close-delimited body -/
def LR (h : H) (lr : Option Int) : Prop :=
  lr = some ((hRem h).length : Int) ∨ (lr = none ∧ (h.fp = none ∨ h.length = none))

def HI (h : H) (lr : Option Int) : Prop := HInv h ∧ LR h lr

theorem hRem_close (h : H) : hRem h.close = [] := rfl
theorem hRem_closeConn (h : H) : hRem h.closeConn = [] := rfl

theorem HInv_close (h : H) (hi : HInv h) : HInv h.close :=
  ⟨hi.head, hi.chunked, fun f hf => by simp [H.close] at hf⟩

/-- `HTTPResponse.read(a)`, `a > 0`, on a well-framed body -/
theorem hRead_some_spec (h : H) (a : Nat) (ha : 0 < a) (hi : HInv h) :
    ∃ h', hRead h (some a) = (.ok ((hRem h).take a), h') ∧ hRem h' = (hRem h).drop a ∧ HInv h' ∧
      ((h.fp = none ∨ h.length = none) → (h'.fp = none ∨ h'.length = none)) := by
  obtain ⟨hh, hc, hav⟩ := hi
  cases hf : h.fp with
  | none =>
    refine ⟨h, ?_, ?_, ⟨hh, hc, hav⟩, fun _ => Or.inl hf⟩
    · simp [hRead, hf, hRem]
    · simp [hRem, hf]
  | some f =>
    obtain ⟨hcl, hlen⟩ := hav f hf
    cases hl : h.length with
    | none =>
      have hrem : hRem h = f.content := by simp [hRem, hf, hl]
      rw [hrem]
      have hs := fpRead_spec f a
      generalize hr : fpRead f a = res at hs
      obtain ⟨s, f'⟩ := res
      simp only [] at hs
      obtain ⟨hs1, hs2, _⟩ := hs
      by_cases he : s.isEmpty = true
      · -- EOF
        have hc0 : f.content = [] := by
          have : f.content.take a = [] := by rw [← hs1]; exact List.isEmpty_iff.mp he
          rcases List.take_eq_nil_iff.mp this with h0 | h0
          · omega
          · exact h0
        refine ⟨{ h with fp := some f' }.closeConn, ?_, ?_, ⟨hh, hc, fun g hg => by simp [H.closeConn] at hg⟩,
          fun _ => Or.inl rfl⟩
        · unfold hRead
          simp only [hf, hh, hc, hl, hr]
          have hane : a ≠ 0 := by omega
          simp [hane, hc0, List.isEmpty_iff.mp he]
        · simp [hRem, hc0, H.closeConn]
      · refine ⟨{ h with fp := some f' }, ?_, ?_, ⟨hh, hc, fun g hg => ⟨hcl, fun l hl' => by simp [hl] at hl'⟩⟩,
          fun _ => Or.inr hl⟩
        · unfold hRead
          simp only [hf, hh, hc, hl, hr]
          have : ¬ ((a = 0 ∨ f.content = []) ∧ ¬ a = 0) := by
            intro ⟨h1, h2⟩
            rcases h1 with h1 | h1
            · exact h2 h1
            · exact he (by simp [hs1, h1])
          simp [hs1, this]
        · simp [hRem, hs2, hl]
    | some l =>
      have hle := hlen l hl
      have hrem : hRem h = f.content.take l := by simp [hRem, hf, hl]
      rw [hrem]
      have hs := fpRead_spec f (if a > l then l else a)
      generalize hr : fpRead f (if a > l then l else a) = res at hs
      obtain ⟨s, f'⟩ := res
      simp only [] at hs
      obtain ⟨hs1, hs2, _⟩ := hs
      have hmin : (if a > l then l else a) = min a l := by split <;> omega
      have hslen : s.length = min a l := by rw [hs1, hmin, List.length_take]; omega
      have hdata : s = (f.content.take l).take a := by
        rw [hs1, hmin, List.take_take]
      by_cases hl0 : l - s.length = 0
      · -- the body ends with this read
        refine ⟨{ h with fp := some f', length := some 0 }.closeConn, ?_, ?_,
          ⟨hh, hc, fun g hg => by simp [H.closeConn] at hg⟩, fun _ => Or.inl rfl⟩
        · unfold hRead
          simp only [hf, hh, hc, hl, hr]
          have : ¬ (s.isEmpty = true ∧ (if a > l then l else a) ≠ 0) := by
            intro ⟨h1, h2⟩
            have : s.length = 0 := by simp [List.isEmpty_iff.mp h1]
            omega
          simp only [this, if_false, hl0]
          simp [hdata]
        · have : (f.content.take l).drop a = [] := by
            apply List.drop_eq_nil_of_le
            rw [List.length_take]; omega
          simp [hRem, this, H.closeConn]
      · refine ⟨{ h with fp := some f', length := some (l - s.length) }, ?_, ?_,
          ⟨hh, hc, fun g hg => ⟨hcl, fun l' hl' => ?_⟩⟩, fun hx => by simp at hx⟩
        · unfold hRead
          simp only [hf, hh, hc, hl, hr]
          have : ¬ (s.isEmpty = true ∧ (if a > l then l else a) ≠ 0) := by
            intro ⟨h1, h2⟩
            have : s.length = 0 := by simp [List.isEmpty_iff.mp h1]
            omega
          simp only [this, if_false, hl0]
          simp [hdata]
        · have hal : a < l := by omega
          have : min a l = a := by omega
          simp only [hRem]
          rw [hs2, hmin, this, hslen, this, List.drop_take]
        · simp only [Option.some.injEq] at hg hl'
          subst hg hl'
          rw [hs2, List.length_drop]; omega

/-- `HTTPResponse.read()` on a well-framed body -/
theorem hRead_none_spec (h : H) (hi : HInv h) :
    ∃ h', hRead h none = (.ok (hRem h), h') ∧ h'.fp = none ∧ HInv h' := by
  obtain ⟨hh, hc, hav⟩ := hi
  cases hf : h.fp with
  | none => exact ⟨h, by simp [hRead, hf, hRem], hf, ⟨hh, hc, hav⟩⟩
  | some f =>
    obtain ⟨hcl, hlen⟩ := hav f hf
    cases hl : h.length with
    | none =>
      refine ⟨h.closeConn, ?_, rfl, ⟨hh, hc, fun g hg => by simp [H.closeConn] at hg⟩⟩
      unfold hRead
      simp [hf, hh, hc, hl, hRem, fpReadAll]
    | some l =>
      obtain ⟨f', he, _, _⟩ := hSafeRead_ok h f l hf (hlen l hl)
      refine ⟨{ { h with fp := some f' }.closeConn with length := some 0 }, ?_, rfl,
        ⟨hh, hc, fun g hg => by simp [H.closeConn] at hg⟩⟩
      unfold hRead
      simp only [hf, hh, hc, hl, he]
      simp [hRem, hf, hl]

section
variable {σ δ : Type} (S : Src σ)

theorem errorCatcher_ok {α : Type} (r : R σ δ) (x : α) :
    ∃ r', errorCatcher S r (.ok x) = (.ok x, r') ∧ r'.fp = r.fp ∧ r'.buf = r.buf ∧
      r'.decoder = r.decoder ∧ r'.hasDecoded = r.hasDecoded ∧ r'.lengthRemaining = r.lengthRemaining ∧
      r'.body = r.body ∧ r'.fpBytesRead = r.fpBytesRead := by
  unfold errorCatcher releaseConn
  simp only []
  split
  · split
    · exact ⟨_, rfl, rfl, rfl, rfl, rfl, rfl, rfl, rfl⟩
    · exact ⟨_, rfl, rfl, rfl, rfl, rfl, rfl, rfl, rfl⟩
  · exact ⟨_, rfl, rfl, rfl, rfl, rfl, rfl, rfl, rfl⟩

/-- `_raw_read(amt)` (not `read1`) when the underlying `read` returns normally and the
`IncompleteRead` test does not fire -/
theorem rawRead_ok (cfg : Cfg δ) (r : R σ δ) (amt : Option Nat) (data : Bytes) (fp' : σ)
    (hres : (if S.closed r.fp then ((Except.ok [] : Except HErr Bytes), r.fp) else S.read r.fp amt) = (.ok data, fp'))
    (hno : ¬ (amt ≠ none ∧ amt ≠ some 0 ∧ data.isEmpty ∧
              cfg.enforce = true ∧ r.lengthRemaining ≠ none ∧ r.lengthRemaining ≠ some 0)) :
    ∃ r', rawRead S cfg r amt false = (.ok data, r') ∧
      r'.fp = (if amt ≠ none ∧ amt ≠ some 0 ∧ data.isEmpty then S.close fp' else fp') ∧
      r'.lengthRemaining = (if data.isEmpty then r.lengthRemaining
                            else r.lengthRemaining.map (· - (data.length : Int))) ∧
      r'.buf = r.buf ∧ r'.decoder = r.decoder ∧ r'.hasDecoded = r.hasDecoded ∧ r'.body = r.body := by
  unfold rawRead
  have hres' : (if S.closed r.fp = true then ((Except.ok [] : Except HErr Bytes), r.fp)
      else if false = true then S.read1 r.fp amt else S.read r.fp amt) = (.ok data, fp') := by
    simpa using hres
  simp only [hres']
  by_cases hc : amt ≠ none ∧ amt ≠ some 0 ∧ data.isEmpty
  · have hno' : ¬ (cfg.enforce = true ∧ r.lengthRemaining ≠ none ∧ r.lengthRemaining ≠ some 0) :=
      fun h => hno ⟨hc.1, hc.2.1, hc.2.2, h⟩
    rw [if_pos hc, if_neg hno']
    obtain ⟨r', e0, e1, e2, e3, e4, e5, e6, _⟩ :=
      errorCatcher_ok S ({ { r with fp := fp' } with fp := S.close fp' } : R σ δ) data
    simp only [e0]
    rw [if_pos hc.2.2]
    exact ⟨r', rfl, by rw [if_pos hc]; exact e1, by rw [if_pos hc.2.2]; exact e5, e2, e3, e4, e6⟩
  · rw [if_neg hc]
    simp only [Bool.false_eq_true, false_and, if_false]
    obtain ⟨r', e0, e1, e2, e3, e4, e5, e6, _⟩ := errorCatcher_ok S ({ r with fp := fp' } : R σ δ) data
    simp only [e0]
    by_cases hd : data.isEmpty = true
    · rw [if_pos hd]
      exact ⟨r', rfl, by rw [if_neg hc]; exact e1, by rw [if_pos hd]; exact e5, e2, e3, e4, e6⟩
    · rw [if_neg hd]
      refine ⟨_, rfl, by rw [if_neg hc]; exact e1, ?_, e2, e3, e4, e6⟩
      rw [if_neg hd]; show Option.map _ r'.lengthRemaining = _; rw [e5]

/-- `_raw_read(amt, read1=True)` when the underlying `read1` returns normally and neither
`IncompleteRead` test fires -/
theorem rawRead1_ok (cfg : Cfg δ) (r : R σ δ) (amt : Option Nat) (data : Bytes) (fp' : σ)
    (hres : (if S.closed r.fp then ((Except.ok [] : Except HErr Bytes), r.fp) else S.read1 r.fp amt) = (.ok data, fp'))
    (hno : ¬ (data.isEmpty ∧ cfg.enforce = true ∧ r.lengthRemaining ≠ none ∧ r.lengthRemaining ≠ some 0)) :
    ∃ r', rawRead S cfg r amt true = (.ok data, r') ∧
      r'.fp = (if (amt ≠ some 0 ∧ data.isEmpty) ∨ r.lengthRemaining = some (data.length : Int)
               then S.close fp' else fp') ∧
      r'.lengthRemaining = (if data.isEmpty then r.lengthRemaining
                            else r.lengthRemaining.map (· - (data.length : Int))) ∧
      r'.buf = r.buf ∧ r'.decoder = r.decoder ∧ r'.hasDecoded = r.hasDecoded ∧ r'.body = r.body := by
  unfold rawRead
  have hres' : (if S.closed r.fp = true then ((Except.ok [] : Except HErr Bytes), r.fp)
      else S.read1 r.fp amt) = (.ok data, fp') := by
    simpa using hres
  simp only [if_true, hres']
  have hno' : ¬ (cfg.enforce = true ∧ r.lengthRemaining ≠ none ∧ r.lengthRemaining ≠ some 0) ∨ data.isEmpty = false := by
    by_cases hd : data.isEmpty = true
    · left; intro h; exact hno ⟨hd, h⟩
    · right; simpa using hd
  -- the final bookkeeping, common to all branches
  have fin : ∀ (r1 : R σ δ), r1.fp = (if (amt ≠ some 0 ∧ data.isEmpty) ∨ r.lengthRemaining = some (data.length : Int)
               then S.close fp' else fp') → r1.lengthRemaining = r.lengthRemaining → r1.buf = r.buf →
      r1.decoder = r.decoder → r1.hasDecoded = r.hasDecoded → r1.body = r.body →
      ∃ r', (match errorCatcher S r1 (Except.ok data : Except RawExc Bytes) with
          | (.error e, r) => (Except.error e, r)
          | (.ok data, r) =>
            if data.isEmpty then (.ok data, r)
            else (.ok data, { r with fpBytesRead := r.fpBytesRead + data.length,
                                     lengthRemaining := r.lengthRemaining.map (· - (data.length : Int)) })) = (.ok data, r') ∧
        r'.fp = (if (amt ≠ some 0 ∧ data.isEmpty) ∨ r.lengthRemaining = some (data.length : Int)
               then S.close fp' else fp') ∧
        r'.lengthRemaining = (if data.isEmpty then r.lengthRemaining
                              else r.lengthRemaining.map (· - (data.length : Int))) ∧
        r'.buf = r.buf ∧ r'.decoder = r.decoder ∧ r'.hasDecoded = r.hasDecoded ∧ r'.body = r.body := by
    intro r1 a1 a2 a3 a4 a5 a6
    obtain ⟨r', e0, e1, e2, e3, e4, e5, e6, _⟩ := errorCatcher_ok S r1 data
    simp only [e0]
    by_cases hd : data.isEmpty = true
    · rw [if_pos hd]
      exact ⟨r', rfl, by rw [e1, a1], by rw [if_pos hd, e5, a2], by rw [e2, a3], by rw [e3, a4], by rw [e4, a5],
        by rw [e6, a6]⟩
    · rw [if_neg hd]
      refine ⟨_, rfl, by show r'.fp = _; rw [e1, a1], ?_, by show r'.buf = _; rw [e2, a3],
        by show r'.decoder = _; rw [e3, a4], by show r'.hasDecoded = _; rw [e4, a5], by show r'.body = _; rw [e6, a6]⟩
      rw [if_neg hd]; show Option.map _ r'.lengthRemaining = _; rw [e5, a2]
  by_cases hc1 : amt ≠ none ∧ amt ≠ some 0 ∧ data.isEmpty
  · have hraise : ¬ (cfg.enforce = true ∧ r.lengthRemaining ≠ none ∧ r.lengthRemaining ≠ some 0) := by
      rcases hno' with h | h
      · exact h
      · rw [hc1.2.2] at h; cases h
    rw [if_pos hc1, if_neg hraise]
    exact fin _ (by rw [if_pos (Or.inl ⟨hc1.2.1, hc1.2.2⟩)]) rfl rfl rfl rfl rfl
  · rw [if_neg hc1]
    by_cases hc2 : (amt ≠ some 0 ∧ data.isEmpty) ∨ r.lengthRemaining = some (data.length : Int)
    · have hc2' : True ∧ ((amt ≠ some 0 ∧ data.isEmpty = true) ∨ r.lengthRemaining = some (data.length : Int)) :=
        ⟨trivial, hc2⟩
      rw [if_pos hc2']
      have hraise : ¬ (data.isEmpty = true ∧ cfg.enforce = true ∧ r.lengthRemaining ≠ none ∧ r.lengthRemaining ≠ some 0) :=
        fun h => hno h
      rw [if_neg hraise]
      exact fin _ (by rw [if_pos hc2]) rfl rfl rfl rfl rfl
    · have hc2' : ¬ (True ∧ ((amt ≠ some 0 ∧ data.isEmpty = true) ∨ r.lengthRemaining = some (data.length : Int))) :=
        fun h => hc2 h.2
      rw [if_neg hc2']
      exact fin _ (by rw [if_neg hc2]) rfl rfl rfl rfl rfl

end

theorem LR_nil {h : H} {lr : Option Int} (hlr : LR h lr) (hrem : hRem h = []) : lr = none ∨ lr = some 0 := by
  rcases hlr with h1 | ⟨h1, _⟩
  · right; rw [h1, hrem]; rfl
  · left; exact h1

theorem LR_step {h h' : H} {lr : Option Int} (a : Nat) (hlr : LR h lr)
    (hrem : hRem h' = (hRem h).drop a)
    (hkeep : (h.fp = none ∨ h.length = none) → (h'.fp = none ∨ h'.length = none)) :
    LR h' (lr.map (· - (((hRem h).take a).length : Int))) := by
  rcases hlr with h1 | ⟨h1, h2⟩
  · left
    rw [h1, hrem]
    simp only [Option.map_some, List.length_take, List.length_drop, Option.some.injEq]
    omega
  · right
    exact ⟨by rw [h1]; rfl, hkeep h2⟩

/-- `_raw_read(a)` over `http.client` on a well-framed Content-Length / close-delimited body:
exactly the next `min a |rest|` raw bytes, for every segmentation, never an exception -/
theorem hSrc_rawReadSpec {δ : Type} (cfg : Cfg δ) : RawReadSpec (δ := δ) hSrc cfg hRem HI := by
  constructor
  intro r a ha ⟨hi, hlr⟩
  have ha0 : a ≠ 0 := by omega
  -- what the underlying read returns
  have hres : ∃ h', (if hSrc.closed r.fp then ((Except.ok [] : Except HErr Bytes), r.fp) else hSrc.read r.fp (some a))
      = (.ok ((hRem r.fp).take a), h') ∧ hRem h' = (hRem r.fp).drop a ∧ HInv h' ∧
      ((r.fp.fp = none ∨ r.fp.length = none) → (h'.fp = none ∨ h'.length = none)) := by
    by_cases hcl : r.fp.closed = true
    · have hfp : r.fp.fp = none := by
        cases hf : r.fp.fp with
        | none => rfl
        | some f => have := (hi.avail f hf).1; rw [hcl] at this; cases this
      have hrem : hRem r.fp = [] := by simp [hRem, hfp]
      exact ⟨r.fp, by simp [hSrc, hcl, hrem], by simp [hrem], hi, fun _ => Or.inl hfp⟩
    · obtain ⟨h', e1, e2, e3, e4⟩ := hRead_some_spec r.fp a ha hi
      exact ⟨h', by simp [hSrc, hcl, e1], e2, e3, e4⟩
  obtain ⟨h', hres, hrem', hi', hkeep⟩ := hres
  by_cases hd : ((hRem r.fp).take a).isEmpty = true
  · -- end of the body
    have hrem : hRem r.fp = [] := by
      rcases List.take_eq_nil_iff.mp (List.isEmpty_iff.mp hd) with h0 | h0
      · omega
      · exact h0
    have hlr0 := LR_nil hlr hrem
    obtain ⟨r', e0, e1, e2, e3, e4, e5, _⟩ := rawRead_ok hSrc cfg r (some a) _ h' hres (by
      rintro ⟨_, _, _, _, h5, h6⟩
      rcases hlr0 with h0 | h0
      · exact h5 h0
      · exact h6 h0)
    have hc : (some a ≠ none ∧ some a ≠ some 0 ∧ ((hRem r.fp).take a).isEmpty = true) := ⟨by simp, by simp [ha0], hd⟩
    rw [if_pos hc] at e1
    rw [if_pos hd] at e2
    refine ⟨r', e0, ?_, ⟨?_, ?_⟩, e3, e4, e5⟩
    · rw [e1, hrem]; simp [hSrc, hRem_close]
    · rw [e1]; exact HInv_close h' hi'
    · rw [e1, e2]
      rcases hlr0 with h0 | h0
      · right; exact ⟨h0, Or.inl rfl⟩
      · left; rw [h0]; rfl
  · obtain ⟨r', e0, e1, e2, e3, e4, e5, _⟩ := rawRead_ok hSrc cfg r (some a) _ h' hres (by
      rintro ⟨_, _, h3, _⟩; exact hd h3)
    have hc : ¬ (some a ≠ none ∧ some a ≠ some 0 ∧ ((hRem r.fp).take a).isEmpty = true) := fun h => hd h.2.2
    rw [if_neg hc] at e1
    rw [if_neg hd] at e2
    refine ⟨r', e0, by rw [e1]; exact hrem', ⟨by rw [e1]; exact hi', ?_⟩, e3, e4, e5⟩
    rw [e1, e2]
    exact LR_step a hlr hrem' hkeep

/-- `_raw_read()` (no amount) over `http.client` on a well-framed body: everything that is left -/
theorem hSrc_rawReadAllSpec {δ : Type} (cfg : Cfg δ) : RawReadAllSpec (δ := δ) hSrc cfg hRem HI := by
  constructor
  intro r ⟨hi, hlr⟩
  have hres : ∃ h', (if hSrc.closed r.fp then ((Except.ok [] : Except HErr Bytes), r.fp) else hSrc.read r.fp none)
      = (.ok (hRem r.fp), h') ∧ h'.fp = none ∧ HInv h' := by
    by_cases hcl : r.fp.closed = true
    · have hfp : r.fp.fp = none := by
        cases hf : r.fp.fp with
        | none => rfl
        | some f => have := (hi.avail f hf).1; rw [hcl] at this; cases this
      have hrem : hRem r.fp = [] := by simp [hRem, hfp]
      exact ⟨r.fp, by simp [hSrc, hcl, hrem], hfp, hi⟩
    · obtain ⟨h', e1, e2, e3⟩ := hRead_none_spec r.fp hi
      exact ⟨h', by simp [hSrc, hcl, e1], e2, e3⟩
  obtain ⟨h', hres, hfp', hi'⟩ := hres
  obtain ⟨r', e0, e1, e2, e3, e4, e5, e6⟩ := rawRead_ok hSrc cfg r none _ h' hres (by simp)
  have hc : ¬ ((none : Option Nat) ≠ none ∧ (none : Option Nat) ≠ some 0 ∧ (hRem r.fp).isEmpty = true) := by simp
  rw [if_neg hc] at e1
  have hrem' : hRem h' = [] := by simp [hRem, hfp']
  refine ⟨r', e0, by rw [e1]; exact hrem', ⟨by rw [e1]; exact hi', ?_⟩, e3, e4, e5, e6⟩
  rw [e1, e2]
  by_cases hd : (hRem r.fp).isEmpty = true
  · rw [if_pos hd]
    rcases LR_nil hlr (List.isEmpty_iff.mp hd) with h0 | h0
    · right; exact ⟨h0, Or.inl hfp'⟩
    · left; rw [h0, hrem']; rfl
  · rw [if_neg hd]
    rcases hlr with h1 | ⟨h1, _⟩
    · left; rw [h1, hrem']; simp
    · right; exact ⟨by rw [h1]; rfl, Or.inl hfp'⟩

/-- `HTTPResponse.read1(n)` (`n ≠ 0`) on a well-framed body: some prefix of what is left -/
theorem hRead1_spec (h : H) (n : Option Nat) (hn : n ≠ some 0) (hi : HInv h) :
    ∃ k h', hRead1 h n = (.ok ((hRem h).take k), h') ∧ hRem h' = (hRem h).drop k ∧
      (hRem h ≠ [] → 0 < k) ∧ (∀ a, n = some a → k ≤ a) ∧ HInv h' ∧
      ((h.fp = none ∨ h.length = none) → (h'.fp = none ∨ h'.length = none)) := by
  obtain ⟨hh, hc, hav⟩ := hi
  cases hf : h.fp with
  | none =>
    refine ⟨0, h, by simp [hRead1, hf, hRem], by simp [hRem, hf], by simp [hRem, hf], fun a _ => Nat.zero_le _,
      ⟨hh, hc, hav⟩, fun _ => Or.inl hf⟩
  | some f =>
    obtain ⟨hcl, hlen⟩ := hav f hf
    cases hl : h.length with
    | none =>
      have hrem : hRem h = f.content := by simp [hRem, hf, hl]
      rw [hrem]
      have hnn : 0 < n.getD bufSize := by
        cases n with
        | none => simp [bufSize]
        | some a => simp; exact Nat.pos_of_ne_zero (fun h0 => hn (by rw [h0]))
      obtain ⟨d, hd1, hd2, hd3, hd4, _⟩ := fpRead1_spec f (n.getD bufSize)
      generalize hr : fpRead1 f (n.getD bufSize) = res at hd1 hd2
      obtain ⟨d', f'⟩ := res
      simp only [] at hd1 hd2
      subst hd1
      have htake : d' = f.content.take d'.length := by rw [← hd2]; simp
      have hdrop : f'.content = f.content.drop d'.length := by rw [← hd2]; simp
      by_cases he : d'.isEmpty = true
      · have hd0 : d' = [] := List.isEmpty_iff.mp he
        have hc0 : f.content = [] := by
          cases hcc : f.content with
          | nil => rfl
          | cons x t => exact absurd hd0 (hd4 hnn (by rw [hcc]; simp))
        refine ⟨0, { h with fp := some f' }.closeConn, ?_, by simp [hRem, hc0, H.closeConn], by simp [hc0],
          fun a _ => Nat.zero_le _, ⟨hh, hc, fun g hg => by simp [H.closeConn] at hg⟩, fun _ => Or.inl rfl⟩
        unfold hRead1
        simp only [hf, hh, hc, hl, hr, Bool.false_eq_true, if_false]
        simp [hd0, hn]
      · have hne : d' ≠ [] := fun h0 => he (by simp [h0])
        refine ⟨d'.length, { h with fp := some f' }, ?_, by simp [hRem, hl, hdrop],
          fun _ => List.length_pos_iff.mpr hne, ?_,
          ⟨hh, hc, fun g hg => ⟨hcl, fun l hl' => by simp [hl] at hl'⟩⟩, fun _ => Or.inr hl⟩
        · unfold hRead1
          simp only [hf, hh, hc, hl, hr, Bool.false_eq_true, if_false]
          have : ¬ (d'.isEmpty = true ∧ n ≠ some 0) := fun h => he h.1
          simp only [this, if_false]
          rw [← htake]
        · intro a ha; subst ha; simpa using hd3
    | some l =>
      have hle := hlen l hl
      have hrem : hRem h = f.content.take l := by simp [hRem, hf, hl]
      rw [hrem]
      -- the amount `http.client` asks the BufferedReader for
      obtain ⟨nn, hnl, hpos, hna, hkey⟩ : ∃ nn, nn ≤ l ∧ (0 < l → 0 < nn) ∧ (∀ a, n = some a → nn ≤ a) ∧
          hRead1 h n =
            (if (fpRead1 f nn).1.isEmpty = true ∧ some nn ≠ some 0 then
              (.ok (fpRead1 f nn).1, { h with fp := some (fpRead1 f nn).2 }.closeConn)
             else (.ok (fpRead1 f nn).1,
                { h with fp := some (fpRead1 f nn).2, length := some (l - (fpRead1 f nn).1.length) })) := by
        cases n with
        | none =>
          refine ⟨l, Nat.le_refl _, id, fun a h => by simp at h, ?_⟩
          unfold hRead1
          simp only [hf, hh, hc, hl, Bool.false_eq_true, if_false, Option.getD_some]
        | some a =>
          have ha0 : a ≠ 0 := fun h0 => hn (by rw [h0])
          by_cases hgt : a > l
          · refine ⟨l, Nat.le_refl _, id, fun b hb => by simp at hb; omega, ?_⟩
            unfold hRead1
            simp only [hf, hh, hc, hl, Bool.false_eq_true, if_false, hgt, if_true, Option.getD_some]
          · refine ⟨a, by omega, fun _ => Nat.pos_of_ne_zero ha0, fun b hb => by simp at hb; omega, ?_⟩
            unfold hRead1
            simp only [hf, hh, hc, hl, Bool.false_eq_true, if_false, hgt, Option.getD_some]
      obtain ⟨d, hd1, hd2, hd3, hd4, _⟩ := fpRead1_spec f nn
      generalize hr : fpRead1 f nn = res at hd1 hd2
      obtain ⟨d', f'⟩ := res
      simp only [] at hd1 hd2
      subst hd1
      have htake : d' = f.content.take d'.length := by rw [← hd2]; simp
      have hdrop : f'.content = f.content.drop d'.length := by rw [← hd2]; simp
      have hdl : d'.length ≤ l := Nat.le_trans hd3 hnl
      have hnoclose : ¬ (d'.isEmpty = true ∧ some nn ≠ some 0) := by
        intro ⟨h1, h2⟩
        have hnn0 : 0 < nn := Nat.pos_of_ne_zero (fun h0 => h2 (by rw [h0]))
        have hc1 : f.content ≠ [] := by
          intro h0; rw [h0] at hle; simp at hle; omega
        exact hd4 hnn0 hc1 (List.isEmpty_iff.mp h1)
      refine ⟨d'.length, { h with fp := some f', length := some (l - d'.length) }, ?_, ?_, ?_, ?_,
        ⟨hh, hc, fun g hg => ⟨hcl, fun l' hl' => ?_⟩⟩, fun hx => by simp at hx⟩
      · rw [hkey, hr]
        simp only [hnoclose, if_false]
        congr 2
        rw [List.take_take, Nat.min_eq_left hdl]
        exact htake
      · simp only [hRem]
        rw [hdrop, List.drop_take]
      · intro hne
        have hl0 : 0 < l := by
          cases l with
          | zero => simp at hne
          | succ l => omega
        have hc1 : f.content ≠ [] := by
          intro h0; rw [h0] at hle; simp at hle; omega
        exact List.length_pos_iff.mpr (hd4 (hpos hl0) hc1)
      · intro a ha; exact Nat.le_trans hd3 (hna a ha)
      · simp only [Option.some.injEq] at hg hl'
        subst hg hl'
        rw [hdrop, List.length_drop]; omega

/-- `_raw_read(amt, read1=True)` over `http.client` on a well-framed Content-Length /
close-delimited body: a non-empty prefix of what is left (empty only at the end), at most `amt`
bytes, for every segmentation, never an exception -/
theorem hSrc_rawRead1Spec {δ : Type} (cfg : Cfg δ) : RawRead1Spec (δ := δ) hSrc cfg hRem HI := by
  constructor
  intro r amt hamt ⟨hi, hlr⟩
  have hres : ∃ k h', (if hSrc.closed r.fp then ((Except.ok [] : Except HErr Bytes), r.fp) else hSrc.read1 r.fp amt)
      = (.ok ((hRem r.fp).take k), h') ∧ hRem h' = (hRem r.fp).drop k ∧
      (hRem r.fp ≠ [] → 0 < k) ∧ (∀ a, amt = some a → k ≤ a) ∧ HInv h' ∧
      ((r.fp.fp = none ∨ r.fp.length = none) → (h'.fp = none ∨ h'.length = none)) := by
    by_cases hcl : r.fp.closed = true
    · have hfp : r.fp.fp = none := by
        cases hf : r.fp.fp with
        | none => rfl
        | some f => have := (hi.avail f hf).1; rw [hcl] at this; cases this
      have hrem : hRem r.fp = [] := by simp [hRem, hfp]
      exact ⟨0, r.fp, by simp [hSrc, hcl, hrem], by simp [hrem], by simp [hrem], fun a _ => Nat.zero_le _, hi,
        fun _ => Or.inl hfp⟩
    · obtain ⟨k, h', e1, e2, e3, e4, e5, e6⟩ := hRead1_spec r.fp amt hamt hi
      exact ⟨k, h', by simp [hSrc, hcl, e1], e2, e3, e4, e5, e6⟩
  obtain ⟨k, h', hres, hrem', hk, hka, hi', hkeep⟩ := hres
  have hempty : ((hRem r.fp).take k).isEmpty = true → hRem r.fp = [] := by
    intro hd
    cases hr : hRem r.fp with
    | nil => rfl
    | cons x t =>
      have hk0 := hk (by rw [hr]; simp)
      rw [hr] at hd
      cases k with
      | zero => omega
      | succ k => simp at hd
  obtain ⟨r', e0, e1, e2, e3, e4, e5, _⟩ := rawRead1_ok hSrc cfg r amt _ h' hres (by
    rintro ⟨h1, _, h3, h4⟩
    rcases LR_nil hlr (hempty h1) with h0 | h0
    · exact h3 h0
    · exact h4 h0)
  refine ⟨k, r', e0, ?_, hk, hka, ?_, e3, e4, e5⟩
  · -- what is left
    rw [e1]
    split
    · rename_i hc
      show hRem (H.close h') = _
      rw [hRem_close]
      rcases hc with ⟨_, hd⟩ | hc
      · rw [hempty hd]; simp
      · rcases hlr with h1 | ⟨h1, _⟩
        · rw [h1] at hc
          simp only [Option.some.injEq, List.length_take] at hc
          have : (hRem r.fp).length ≤ k := by omega
          exact (List.drop_eq_nil_of_le this).symm
        · rw [h1] at hc; cases hc
    · exact hrem'
  · rw [e1, e2]
    split
    · rename_i hc
      refine ⟨HInv_close h' hi', ?_⟩
      show LR (H.close h') _
      rcases hc with ⟨_, hd⟩ | hc
      · rw [if_pos hd]
        rcases LR_nil hlr (hempty hd) with h0 | h0
        · right; exact ⟨h0, Or.inl rfl⟩
        · left; rw [h0]; rfl
      · left
        rw [hRem_close]
        by_cases hd : ((hRem r.fp).take k).isEmpty = true
        · rw [if_pos hd]
          rcases LR_nil hlr (hempty hd) with h0 | h0
          · rw [h0] at hc; cases hc
          · rw [h0]; rfl
        · rw [if_neg hd, hc]
          simp
    · rename_i hc
      have hd : ¬ ((hRem r.fp).take k).isEmpty = true := fun hd => hc (Or.inl ⟨hamt, hd⟩)
      rw [if_neg hd]
      exact ⟨hi', LR_step k hlr hrem' hkeep⟩

/-! ### the closing laws used by `stream` -/

theorem hSrc_closedNil : ClosedNil hSrc hRem HI := by
  intro h lr _ hcl
  have : h.fp = none := by
    cases hf : h.fp with
    | none => rfl
    | some f => simp [hSrc, H.isclosed, hf] at hcl
  simp [hRem, this]

theorem hSrc_closesN {δ : Type} (cfg : Cfg δ) : ClosesN (δ := δ) hSrc cfg hRem HI := by
  intro r a ha ⟨hi, hlr⟩ hrem
  have ha0 : a ≠ 0 := by omega
  have hres : ∃ h', (if hSrc.closed r.fp then ((Except.ok [] : Except HErr Bytes), r.fp) else hSrc.read r.fp (some a))
      = (.ok ((hRem r.fp).take a), h') := by
    by_cases hcl : r.fp.closed = true
    · exact ⟨r.fp, by simp [hSrc, hcl, hrem]⟩
    · obtain ⟨h', e1, _⟩ := hRead_some_spec r.fp a ha hi
      exact ⟨h', by simp [hSrc, hcl, e1]⟩
  obtain ⟨h', hres⟩ := hres
  have hlr0 := LR_nil hlr hrem
  obtain ⟨r', e0, e1, _⟩ := rawRead_ok hSrc cfg r (some a) _ h' hres (by
    rintro ⟨_, _, _, _, h5, h6⟩
    rcases hlr0 with h0 | h0
    · exact h5 h0
    · exact h6 h0)
  rw [e0]
  show hSrc.isclosed r'.fp = true
  rw [e1, if_pos ⟨by simp, by simp [ha0], by simp [hrem]⟩]
  rfl

theorem hSrc_closesAll {δ : Type} (cfg : Cfg δ) : ClosesAll (δ := δ) hSrc cfg HI := by
  intro r ⟨hi, hlr⟩
  have hres : ∃ h', (if hSrc.closed r.fp then ((Except.ok [] : Except HErr Bytes), r.fp) else hSrc.read r.fp none)
      = (.ok (hRem r.fp), h') ∧ h'.fp = none := by
    by_cases hcl : r.fp.closed = true
    · have hfp : r.fp.fp = none := by
        cases hf : r.fp.fp with
        | none => rfl
        | some f => have := (hi.avail f hf).1; rw [hcl] at this; cases this
      have hrem : hRem r.fp = [] := by simp [hRem, hfp]
      exact ⟨r.fp, by simp [hSrc, hcl, hrem], hfp⟩
    · obtain ⟨h', e1, e2, _⟩ := hRead_none_spec r.fp hi
      exact ⟨h', by simp [hSrc, hcl, e1], e2⟩
  obtain ⟨h', hres, hfp'⟩ := hres
  obtain ⟨r', e0, e1, _⟩ := rawRead_ok hSrc cfg r none _ h' hres (by simp)
  rw [e0]
  show hSrc.isclosed r'.fp = true
  rw [e1, if_neg (by simp)]
  simp [hSrc, H.isclosed, hfp']

end U3.Resp
