import U3.Lemmas.RespRead1
import U3.Lemmas.RespIter
/-! Interleavings over the whole API: `read`, `read1`, `readinto`, and the generators `stream` /
iteration (run to completion) as *members* of call sequences on a non-chunked body.  Every call
preserves the read-family invariant; the pieces of all calls, in order, followed by what is still
owed, are the payload.

A generator that is abandoned half-way on a non-chunked body is a sequence of `read(amt)` calls
(that is what `stream` does between two `yield`s), so partial consumption is covered by the `read`
members. -/
namespace U3.Resp
open U3

section
variable {σ δ : Type} (S : Src σ) (D : Dec δ) (cfg : Cfg δ)

/-- a call of the reading API -/
inductive Call
  | read (amt : Option Nat)
  | read1 (amt : Option Nat)
  | readinto (k : Nat)
  | stream (amt : Option Nat)
  | iter
deriving Repr, DecidableEq

def single (x : Except Exc Bytes × R σ δ) : Gen × R σ δ :=
  match x with
  | (.ok d, r) => (([d], none), r)
  | (.error e, r) => (([], some e), r)

/-- the pieces one call returns / yields, and the exception that ended it (if any) -/
def runCall (dco : Option Bool) (r : R σ δ) : Call → Gen × R σ δ
  | .read a => single (read S D cfg r a dco)
  | .read1 a => single (read1 S D cfg r a dco)
  | .readinto k => single (readinto S D cfg r k)
  | .stream a => stream S D cfg r a dco
  | .iter => iter S D cfg r

/-- a sequence of calls, stopped at the first exception: the pieces of each call -/
def callSeqG (dco : Option Bool) : List Call → R σ δ → (List (List Bytes) × Option Exc) × R σ δ
  | [], r => (([], none), r)
  | c :: t, r =>
    match runCall S D cfg dco r c with
    | ((ps, some e), r) => (([ps], some e), r)
    | ((ps, none), r) =>
      match callSeqG dco t r with
      | ((pss, e), r) => ((ps :: pss, e), r)

/-- a `stream` that ended normally left the file closed and the buffer empty -/
theorem streamLoop_end (amt : Option Nat) (dco : Option Bool) :
    ∀ (fuel : Nat) (r : R σ δ) (acc ps : List Bytes) (r' : R σ δ),
      streamLoop S D cfg amt dco fuel r acc = ((ps, none), r') →
      S.isclosed r'.fp = true ∧ bqLen r'.buf = 0 := by
  intro fuel
  induction fuel with
  | zero => intro r acc ps r' h; simp [streamLoop] at h
  | succ k ih =>
    intro r acc ps r' h
    unfold streamLoop at h
    by_cases hc : (!S.isclosed r.fp) = true ∨ bqLen r.buf > 0
    · rw [if_pos hc] at h
      generalize read S D cfg r amt dco = res at h
      obtain ⟨x, r1⟩ := res
      cases x with
      | error e => simp at h
      | ok d => exact ih _ _ _ _ h
    · rw [if_neg hc] at h
      simp only [Prod.mk.injEq, and_true] at h
      obtain ⟨_, rfl⟩ := h
      constructor
      · cases hcl : S.isclosed r.fp with
        | true => rfl
        | false => exact absurd (Or.inl (by simp [hcl])) hc
      · have : ¬ bqLen r.buf > 0 := fun h => hc (Or.inr h)
        omega

variable {G : δ → Bytes → Bytes → Prop}

/-- one call of the whole API on a non-chunked body, decoding on -/
theorem runCall_spec {rem : σ → Bytes} {I : σ → Option Int → Prop}
    (hR : RawReadSpec S cfg rem I) (hA : RawReadAllSpec S cfg rem I) (hR1 : RawRead1Spec S cfg rem I)
    (hD : StreamLaw D G) (hCN : ClosesN S cfg rem I) (hCA : ClosesAll S cfg I) (hZ : ClosedNil S rem I)
    (dco : Option Bool) (hdc : dco.getD cfg.decodeDefault = true) (hdef : cfg.decodeDefault = true)
    (hnc : cfg.chunked = false) (c : Call) (hc : c ≠ .stream (some 0)) (r : R σ δ) (rest : Bytes)
    (hinv : Inv cfg rem I G r rest)
    (hfuelS : 2 * rest.length + 1 < cfg.fuel) (hfuel : (rem r.fp).length + 1 < cfg.fuel) :
    ∃ ps r' rest', runCall S D cfg dco r c = ((ps, none), r') ∧ Inv cfg rem I G r' rest' ∧
      ps.flatten ++ rest' = rest ∧ (rem r'.fp).length ≤ (rem r.fp).length := by
  cases c with
  | read a =>
    obtain ⟨out, r1, rest1, h1, h2, h3, h4, _⟩ := read_any_spec S D cfg hR hA hD a r rest dco hdc hinv hfuel
    exact ⟨[out], r1, rest1, by simp [runCall, single, h1], h2, by simpa using h3, h4⟩
  | read1 a =>
    obtain ⟨out, r1, rest1, h1, h2, h3, h4, _⟩ := read1_spec S D cfg hR1 hD a r rest dco hdc hinv hfuel
    exact ⟨[out], r1, rest1, by simp [runCall, single, h1], h2, by simpa using h3, h4⟩
  | readinto k =>
    obtain ⟨out, r1, rest1, h1, h2, h3, h4, _⟩ := read_any_spec S D cfg hR hA hD (some k) r rest none
      (by simpa using hdef) hinv hfuel
    exact ⟨[out], r1, rest1, by simp [runCall, single, readinto, h1], h2, by simpa using h3, h4⟩
  | stream a =>
    have ha : a ≠ some 0 := fun h0 => hc (by rw [h0])
    obtain ⟨ps, r', h1, h2, h3⟩ := streamLoop_concat S D cfg hR hA hD hCN hCA hZ a ha dco hdc cfg.fuel r rest []
      hinv (by split <;> omega) hfuel
    have h1' : streamLoop S D cfg a dco cfg.fuel r [] = ((ps, none), r') := by simpa using h1
    have hcl := (streamLoop_end S D cfg a dco cfg.fuel r [] ps r' h1').1
    have hrem : rem r'.fp = [] := hZ r'.fp r'.lengthRemaining h3.framing hcl
    refine ⟨ps, r', [], ?_, h3, by simpa using h2, by rw [hrem]; exact Nat.zero_le _⟩
    simp only [runCall, stream, hnc, Bool.false_eq_true, if_false]
    exact h1'
  | iter =>
    obtain ⟨ps, r', h1, h2, h3⟩ := streamLoop_concat S D cfg hR hA hD hCN hCA hZ (some 65536) (by simp)
      (some true) rfl cfg.fuel r rest [] hinv (by split <;> omega) hfuel
    have h1' : streamLoop S D cfg (some 65536) (some true) cfg.fuel r [] = ((ps, none), r') := by simpa using h1
    have hcl := (streamLoop_end S D cfg _ _ cfg.fuel r [] ps r' h1').1
    have hrem : rem r'.fp = [] := hZ r'.fp r'.lengthRemaining h3.framing hcl
    have hs : stream S D cfg r (some 65536) (some true) = ((ps, none), r') := by
      unfold stream
      simp only [hnc, Bool.false_eq_true, if_false]
      exact h1'
    refine ⟨iterSplit ps [], r', [], ?_, h3, ?_, by rw [hrem]; exact Nat.zero_le _⟩
    · simp only [runCall, iter, hs]
    · rw [iterSplit_flatten, h2]; simp

/-- **concatenation over the whole API** (non-chunked body, decoding on): whatever the calls, none
raises, and the pieces of all calls in order, followed by what is still owed, are the payload -/
theorem callSeqG_concat {rem : σ → Bytes} {I : σ → Option Int → Prop}
    (hR : RawReadSpec S cfg rem I) (hA : RawReadAllSpec S cfg rem I) (hR1 : RawRead1Spec S cfg rem I)
    (hD : StreamLaw D G) (hCN : ClosesN S cfg rem I) (hCA : ClosesAll S cfg I) (hZ : ClosedNil S rem I)
    (dco : Option Bool) (hdc : dco.getD cfg.decodeDefault = true) (hdef : cfg.decodeDefault = true)
    (hnc : cfg.chunked = false) :
    ∀ (calls : List Call) (r : R σ δ) (rest : Bytes), (∀ c ∈ calls, c ≠ .stream (some 0)) →
      Inv cfg rem I G r rest → 2 * rest.length + 1 < cfg.fuel → (rem r.fp).length + 1 < cfg.fuel →
      ∃ pss r' rest', callSeqG S D cfg dco calls r = ((pss, none), r') ∧ Inv cfg rem I G r' rest' ∧
        pss.flatten.flatten ++ rest' = rest ∧ pss.length = calls.length := by
  intro calls
  induction calls with
  | nil => intro r rest _ hinv _ _; exact ⟨[], r, rest, rfl, hinv, rfl, rfl⟩
  | cons c t ih =>
    intro r rest hcs hinv hfS hf
    obtain ⟨ps, r1, rest1, h1, hinv1, hcat1, hlen1⟩ := runCall_spec S D cfg hR hA hR1 hD hCN hCA hZ dco hdc hdef hnc
      c (hcs c (by simp)) r rest hinv hfS hf
    have hrl : rest1.length ≤ rest.length := by
      rw [← hcat1, List.length_append]; omega
    obtain ⟨pss, r2, rest2, h2, hinv2, hcat2, hl2⟩ := ih r1 rest1 (fun x hx => hcs x (by simp [hx])) hinv1
      (by omega) (by omega)
    refine ⟨ps :: pss, r2, rest2, ?_, hinv2, ?_, by simp [hl2]⟩
    · simp only [callSeqG, h1, h2]
    · rw [List.flatten_cons, List.flatten_append, List.append_assoc, hcat2, hcat1]

end
end U3.Resp
