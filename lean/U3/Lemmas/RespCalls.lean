import U3.Lemmas.RespRead1
import U3.Lemmas.RespIter
/-! Interleavings over the whole API: `read`, `read1`, `readinto`, and the generators `stream` /
iteration (run to completion) as *members* of call sequences on a non-chunked body.  Every call
preserves the read-family invariant; the pieces of all calls, in order, followed by what is still
owed, are the payload.

A generator that is abandoned half-way on a non-chunked body is a sequence of `read(amt)` calls
(that is what `stream` does between two `yield`s), so partial consumption is covered by the `read`
members. -/
namespace U3.Resp
open U3

section
variable {σ δ : Type} (S : Src σ) (D : Dec δ) (cfg : Cfg δ)

/-- a call of the reading API -/
inductive Call
  | read (amt : Option Nat)
  | read1 (amt : Option Nat)
  | readinto (k : Nat)
  | stream (amt : Option Nat)
  | iter
deriving Repr, DecidableEq

def single (x : Except Exc Bytes × R σ δ) : Gen × R σ δ :=
  match x with
  | (.ok d, r) => (([d], none), r)
  | (.error e, r) => (([], some e), r)

/-- the pieces one call returns / yields, and the exception that ended it (if any) -/
def runCall (dco : Option Bool) (r : R σ δ) : Call → Gen × R σ δ
  | .read a => single (read S D cfg r a dco)
  | .read1 a => single (read1 S D cfg r a dco)
  | .readinto k => single (readinto S D cfg r k)
  | .stream a => stream S D cfg r a dco
  | .iter => iter S D cfg r

/-- a sequence of calls, stopped at the first exception: the pieces of each call -/
def callSeqG (dco : Option Bool) : List Call → R σ δ → (List (List Bytes) × Option Exc) × R σ δ
  | [], r => (([], none), r)
  | c :: t, r =>
    match runCall S D cfg dco r c with
    | ((ps, some e), r) => (([ps], some e), r)
    | ((ps, none), r) =>
      match callSeqG dco t r with
      | ((pss, e), r) => ((ps :: pss, e), r)

/-- a `stream` that ended normally left the file closed and the buffer empty -/
theorem streamLoop_end (amt : Option Nat) (dco : Option Bool) :
    ∀ (fuel : Nat) (r : R σ δ) (acc ps : List Bytes) (r' : R σ δ),
      streamLoop S D cfg amt dco fuel r acc = ((ps, none), r') →
      S.isclosed r'.fp = true ∧ bqLen r'.buf = 0 := by
  intro fuel
  induction fuel with
  | zero => intro r acc ps r' h; simp [streamLoop] at h
  | succ k ih =>
    intro r acc ps r' h
    unfold streamLoop at h
    by_cases hc : (!S.isclosed r.fp) = true ∨ bqLen r.buf > 0
    · rw [if_pos hc] at h
      generalize read S D cfg r amt dco = res at h
      obtain ⟨x, r1⟩ := res
      cases x with
      | error e => simp at h
      | ok d => exact ih _ _ _ _ h
    · rw [if_neg hc] at h
      simp only [Prod.mk.injEq, and_true] at h
      obtain ⟨_, rfl⟩ := h
      constructor
      · cases hcl : S.isclosed r.fp with
        | true => rfl
        | false => exact absurd (Or.inl (by simp [hcl])) hc
      · have : ¬ bqLen r.buf > 0 := fun h => hc (Or.inr h)
        omega

variable {G : δ → Bytes → Bytes → Prop}

/-- one call of the whole API on a non-chunked body, decoding on -/
theorem runCall_spec {rem : σ → Bytes} {I : σ → Option Int → Prop}
    (hR : RawReadSpec S cfg rem I) (hA : RawReadAllSpec S cfg rem I) (hR1 : RawRead1Spec S cfg rem I)
    (hD : StreamLaw D G) (hCN : ClosesN S cfg rem I) (hCA : ClosesAll S cfg I) (hZ : ClosedNil S rem I)
    (dco : Option Bool) (hdc : dco.getD cfg.decodeDefault = true) (hdef : cfg.decodeDefault = true)
    (hnc : cfg.chunked = false) (c : Call) (hc : c ≠ .stream (some 0)) (r : R σ δ) (rest : Bytes)
    (hinv : Inv cfg rem I G r rest)
    (hfuelS : 2 * rest.length + 1 < cfg.fuel) (hfuel : (rem r.fp).length + 1 < cfg.fuel) :
    ∃ ps r' rest', runCall S D cfg dco r c = ((ps, none), r') ∧ Inv cfg rem I G r' rest' ∧
      ps.flatten ++ rest' = rest ∧ (rem r'.fp).length ≤ (rem r.fp).length := by
  cases c with
  | read a =>
    obtain ⟨out, r1, rest1, h1, h2, h3, h4, _⟩ := read_any_spec S D cfg hR hA hD a r rest dco hdc hinv hfuel
    exact ⟨[out], r1, rest1, by simp [runCall, single, h1], h2, by simpa using h3, h4⟩
  | read1 a =>
    obtain ⟨out, r1, rest1, h1, h2, h3, h4, _⟩ := read1_spec S D cfg hR1 hD a r rest dco hdc hinv hfuel
    exact ⟨[out], r1, rest1, by simp [runCall, single, h1], h2, by simpa using h3, h4⟩
  | readinto k =>
    obtain ⟨out, r1, rest1, h1, h2, h3, h4, _⟩ := read_any_spec S D cfg hR hA hD (some k) r rest none
      (by simpa using hdef) hinv hfuel
    exact ⟨[out], r1, rest1, by simp [runCall, single, readinto, h1], h2, by simpa using h3, h4⟩
  | stream a =>
    have ha : a ≠ some 0 := fun h0 => hc (by rw [h0])
    obtain ⟨ps, r', h1, h2, h3⟩ := streamLoop_concat S D cfg hR hA hD hCN hCA hZ a ha dco hdc cfg.fuel r rest []
      hinv (by split <;> omega) hfuel
    have h1' : streamLoop S D cfg a dco cfg.fuel r [] = ((ps, none), r') := by simpa using h1
    have hcl := (streamLoop_end S D cfg a dco cfg.fuel r [] ps r' h1').1
    have hrem : rem r'.fp = [] := hZ r'.fp r'.lengthRemaining h3.framing hcl
    refine ⟨ps, r', [], ?_, h3, by simpa using h2, by rw [hrem]; exact Nat.zero_le _⟩
    simp only [runCall, stream, hnc, Bool.false_eq_true, if_false]
    exact h1'
  | iter =>
    obtain ⟨ps, r', h1, h2, h3⟩ := streamLoop_concat S D cfg hR hA hD hCN hCA hZ (some 65536) (by simp)
      (some true) rfl cfg.fuel r rest [] hinv (by split <;> omega) hfuel
    have h1' : streamLoop S D cfg (some 65536) (some true) cfg.fuel r [] = ((ps, none), r') := by simpa using h1
    have hcl := (streamLoop_end S D cfg _ _ cfg.fuel r [] ps r' h1').1
    have hrem : rem r'.fp = [] := hZ r'.fp r'.lengthRemaining h3.framing hcl
    have hs : stream S D cfg r (some 65536) (some true) = ((ps, none), r') := by
      unfold stream
      simp only [hnc, Bool.false_eq_true, if_false]
      exact h1'
    refine ⟨iterSplit ps [], r', [], ?_, h3, ?_, by rw [hrem]; exact Nat.zero_le _⟩
    · simp only [runCall, iter, hs]
    · rw [iterSplit_flatten, h2]; simp

/-- **concatenation over the whole API** (non-chunked body, decoding on): whatever the calls, none
raises, and the pieces of all calls in order, followed by what is still owed, are the payload -/
theorem callSeqG_concat {rem : σ → Bytes} {I : σ → Option Int → Prop}
    (hR : RawReadSpec S cfg rem I) (hA : RawReadAllSpec S cfg rem I) (hR1 : RawRead1Spec S cfg rem I)
    (hD : StreamLaw D G) (hCN : ClosesN S cfg rem I) (hCA : ClosesAll S cfg I) (hZ : ClosedNil S rem I)
    (dco : Option Bool) (hdc : dco.getD cfg.decodeDefault = true) (hdef : cfg.decodeDefault = true)
    (hnc : cfg.chunked = false) :
    ∀ (calls : List Call) (r : R σ δ) (rest : Bytes), (∀ c ∈ calls, c ≠ .stream (some 0)) →
      Inv cfg rem I G r rest → 2 * rest.length + 1 < cfg.fuel → (rem r.fp).length + 1 < cfg.fuel →
      ∃ pss r' rest', callSeqG S D cfg dco calls r = ((pss, none), r') ∧ Inv cfg rem I G r' rest' ∧
        pss.flatten.flatten ++ rest' = rest ∧ pss.length = calls.length := by
  intro calls
  induction calls with
  | nil => intro r rest _ hinv _ _; exact ⟨[], r, rest, rfl, hinv, rfl, rfl⟩
  | cons c t ih =>
    intro r rest hcs hinv hfS hf
    obtain ⟨ps, r1, rest1, h1, hinv1, hcat1, hlen1⟩ := runCall_spec S D cfg hR hA hR1 hD hCN hCA hZ dco hdc hdef hnc
      c (hcs c (by simp)) r rest hinv hfS hf
    have hrl : rest1.length ≤ rest.length := by
      rw [← hcat1, List.length_append]; omega
    obtain ⟨pss, r2, rest2, h2, hinv2, hcat2, hl2⟩ := ih r1 rest1 (fun x hx => hcs x (by simp [hx])) hinv1
      (by omega) (by omega)
    refine ⟨ps :: pss, r2, rest2, ?_, hinv2, ?_, by simp [hl2]⟩
    · simp only [callSeqG, h1, h2]
    · rw [List.flatten_cons, List.flatten_append, List.append_assoc, hcat2, hcat1]


/-! ## decoding off -/

/-- `read(a)`, `a > 0`, with `decode_content=False` on an undecoded response: the next raw bytes;
the file is left as `_raw_read(a)` left it -/
theorem read_raw_some {rem : σ → Bytes} {I : σ → Option Int → Prop} (hR : RawReadSpec S cfg rem I)
    (dco : Option Bool) (hdc : dco.getD cfg.decodeDefault = false) (a : Nat) (ha : 0 < a)
    (r : R σ δ) (raw : Bytes) (hinv : RawInv rem I r raw) :
    ∃ r', read S D cfg r (some a) dco = (.ok (raw.take a), r') ∧ RawInv rem I r' (raw.drop a) ∧
      (ClosesN S cfg rem I → raw = [] → S.isclosed r'.fp = true) := by
  obtain ⟨hI, hu, hb, hl⟩ := hinv
  obtain ⟨g1, g2, g3, g4⟩ := initDec_other cfg r
  unfold read
  simp only [hdc]
  generalize initDec cfg r = r0 at *
  have hI0 : I r0.fp r0.lengthRemaining := by rw [g1, g3]; exact hI
  have hb0 : bqLen r0.buf = 0 := by rw [g2]; exact hb
  have hlt : ¬ bqLen r0.buf ≥ a := by omega
  simp only [hlt, if_false]
  obtain ⟨r1, h1, hrem1, hI1, hb1, _, hh1⟩ := hR.spec r0 a ha hI0
  have hcl : ClosesN S cfg rem I → raw = [] → S.isclosed r1.fp = true := by
    intro hC hr
    have := hC r0 a ha hI0 (by rw [g1, hl, hr])
    rw [h1] at this
    exact this
  rw [h1]
  simp only []
  have hbq : bqLen r1.buf = 0 := by rw [hb1]; exact hb0
  have hhd : r1.hasDecoded = false := by rw [hh1, g4]; exact hu
  refine ⟨r1, ?_, ⟨hI1, hhd, hbq, by rw [hrem1, g1, hl]⟩, hcl⟩
  rw [g1, hl]
  by_cases hc : (raw.take a).isEmpty = true ∧ bqLen r1.buf = 0
  · rw [if_pos hc]
  · rw [if_neg hc]
    simp [hhd]

/-- `read()` with `decode_content=False` on an undecoded response: all the raw bytes that are left -/
theorem read_raw_none {rem : σ → Bytes} {I : σ → Option Int → Prop} (hA : RawReadAllSpec S cfg rem I)
    (dco : Option Bool) (hdc : dco.getD cfg.decodeDefault = false)
    (r : R σ δ) (raw : Bytes) (hinv : RawInv rem I r raw) :
    ∃ r', read S D cfg r none dco = (.ok raw, r') ∧ RawInv rem I r' [] ∧
      (ClosesAll S cfg I → S.isclosed r'.fp = true) := by
  obtain ⟨hI, hu, hb, hl⟩ := hinv
  obtain ⟨g1, g2, g3, g4⟩ := initDec_other cfg r
  unfold read
  simp only [hdc]
  generalize initDec cfg r = r0 at *
  have hI0 : I r0.fp r0.lengthRemaining := by rw [g1, g3]; exact hI
  have hb0 : bqLen r0.buf = 0 := by rw [g2]; exact hb
  obtain ⟨r1, h1, hrem1, hI1, hb1, _, hh1, _⟩ := hA.spec r0 hI0
  have hcl : ClosesAll S cfg I → S.isclosed r1.fp = true := by
    intro hC
    have := hC r0 hI0
    rw [h1] at this
    exact this
  rw [h1]
  simp only []
  have hbq : bqLen r1.buf = 0 := by rw [hb1]; exact hb0
  have hhd : r1.hasDecoded = false := by rw [hh1, g4]; exact hu
  refine ⟨r1, ?_, ⟨hI1, hhd, hbq, hrem1⟩, hcl⟩
  rw [g1, hl]
  by_cases hc : raw.isEmpty = true ∧ bqLen r1.buf = 0
  · rw [if_pos hc]
  · rw [if_neg hc]
    simp [decode, hhd, prependBuffered, hbq]

/-- the non-chunked branch of `stream(amt, decode_content=False)` from an undecoded state:
terminates, never raises, the pieces are the raw bytes that were left -/
theorem streamLoop_concat_raw {rem : σ → Bytes} {I : σ → Option Int → Prop}
    (hR : RawReadSpec S cfg rem I) (hA : RawReadAllSpec S cfg rem I)
    (hCN : ClosesN S cfg rem I) (hCA : ClosesAll S cfg I) (hZ : ClosedNil S rem I)
    (amt : Option Nat) (hamt : amt ≠ some 0) (dco : Option Bool) (hdc : dco.getD cfg.decodeDefault = false) :
    ∀ (fuel : Nat) (r : R σ δ) (raw : Bytes) (acc : List Bytes), RawInv rem I r raw →
      2 * raw.length + (if S.isclosed r.fp = true then 0 else 1) < fuel →
      ∃ ps r', streamLoop S D cfg amt dco fuel r acc = ((acc ++ ps, none), r') ∧ ps.flatten = raw ∧
        RawInv rem I r' [] := by
  intro fuel
  induction fuel with
  | zero => intro r raw acc _ h; omega
  | succ k ih =>
    intro r raw acc hinv hm
    unfold streamLoop
    have hb : ¬ bqLen r.buf > 0 := by have := hinv.nobuf; omega
    by_cases hc : (!S.isclosed r.fp) = true ∨ bqLen r.buf > 0
    · rw [if_pos hc]
      have hopen : S.isclosed r.fp = false := by
        rcases hc with h | h
        · simpa using h
        · exact absurd h hb
      rw [hopen] at hm
      simp only [Bool.false_eq_true, if_false] at hm
      -- one read
      have hstep : ∃ out r1, read S D cfg r amt dco = (.ok out, r1) ∧ RawInv rem I r1 (raw.drop out.length) ∧
          out = raw.take out.length ∧ (out = [] → S.isclosed r1.fp = true) := by
        cases amt with
        | none =>
          obtain ⟨r1, h1, h2, h3⟩ := read_raw_none S D cfg hA dco hdc r raw hinv
          exact ⟨raw, r1, h1, by simpa using h2, by simp, fun _ => h3 hCA⟩
        | some a =>
          have ha : 0 < a := Nat.pos_of_ne_zero (fun h0 => hamt (by rw [h0]))
          obtain ⟨r1, h1, h2, h3⟩ := read_raw_some S D cfg hR dco hdc a ha r raw hinv
          refine ⟨raw.take a, r1, h1, ?_, ?_, ?_⟩
          · rw [List.length_take]
            by_cases hle : a ≤ raw.length
            · rw [Nat.min_eq_left hle]; exact h2
            · rw [Nat.min_eq_right (by omega)]
              have e1 : raw.drop a = [] := List.drop_eq_nil_of_le (by omega)
              have e2 : raw.drop raw.length = [] := List.drop_eq_nil_of_le (Nat.le_refl _)
              rw [e2, ← e1]; exact h2
          · rw [List.length_take]
            by_cases hle : a ≤ raw.length
            · rw [Nat.min_eq_left hle]
            · rw [Nat.min_eq_right (by omega), List.take_of_length_le (by omega), List.take_of_length_le (Nat.le_refl _)]
          · intro h0
            apply h3 hCN
            rcases List.take_eq_nil_iff.mp h0 with h | h
            · omega
            · exact h
      obtain ⟨out, r1, h1, hinv1, hout, hcl1⟩ := hstep
      rw [h1]
      simp only []
      obtain ⟨ps, r', e1, e2, e3⟩ := ih r1 (raw.drop out.length) (if out.isEmpty then acc else acc ++ [out]) hinv1
        (by
          by_cases ho : out = []
          · rw [hcl1 ho]; simp [ho]; omega
          · have h1 : 0 < out.length := List.length_pos_iff.mpr ho
            have h2 : out.length ≤ raw.length := by
              have := congrArg List.length hout
              rw [List.length_take] at this; omega
            rw [List.length_drop]
            split <;> omega)
      rw [e1]
      by_cases ho : out = []
      · subst ho
        exact ⟨ps, r', by simp, by simpa using e2, e3⟩
      · have : out.isEmpty = false := by simpa [List.isEmpty_iff] using ho
        refine ⟨[out] ++ ps, r', by simp [this], ?_, e3⟩
        rw [List.flatten_append, e2]
        simp only [List.flatten_cons, List.flatten_nil, List.append_nil]
        conv => rhs; rw [← List.take_append_drop out.length raw]
        rw [← hout]
    · rw [if_neg hc]
      have hcl : S.isclosed r.fp = true := by
        cases h : S.isclosed r.fp with
        | true => rfl
        | false => exact absurd (Or.inl (by simp [h])) hc
      have hrem : rem r.fp = [] := hZ r.fp r.lengthRemaining hinv.framing hcl
      have hr : raw = [] := by rw [← hinv.left]; exact hrem
      subst hr
      exact ⟨[], r, by simp, rfl, hinv⟩

/-- one call of the API on a non-chunked body with decoding off (iteration always decodes and is
not a member) -/
theorem runCall_raw_spec {rem : σ → Bytes} {I : σ → Option Int → Prop}
    (hR : RawReadSpec S cfg rem I) (hA : RawReadAllSpec S cfg rem I) (hR1 : RawRead1Spec S cfg rem I)
    (hCN : ClosesN S cfg rem I) (hCA : ClosesAll S cfg I) (hZ : ClosedNil S rem I)
    (dco : Option Bool) (hdc : dco.getD cfg.decodeDefault = false) (hdef : cfg.decodeDefault = false)
    (hnc : cfg.chunked = false) (c : Call) (hc : c ≠ .stream (some 0)) (hi : c ≠ .iter) (r : R σ δ) (raw : Bytes)
    (hinv : RawInv rem I r raw) (hfuelS : 2 * raw.length + 1 < cfg.fuel) :
    ∃ ps r' raw', runCall S D cfg dco r c = ((ps, none), r') ∧ RawInv rem I r' raw' ∧
      ps.flatten ++ raw' = raw := by
  cases c with
  | read a =>
    obtain ⟨out, r1, raw1, h1, h2, h3, _⟩ := runRCall_raw S D cfg hR hA hR1 dco hdc (.read a) r raw hinv
    have h1' : read S D cfg r a dco = (.ok out, r1) := h1
    exact ⟨[out], r1, raw1, by simp [runCall, single, h1'], h2, by simpa using h3⟩
  | read1 a =>
    obtain ⟨out, r1, raw1, h1, h2, h3, _⟩ := runRCall_raw S D cfg hR hA hR1 dco hdc (.read1 a) r raw hinv
    have h1' : read1 S D cfg r a dco = (.ok out, r1) := h1
    exact ⟨[out], r1, raw1, by simp [runCall, single, h1'], h2, by simpa using h3⟩
  | readinto k =>
    obtain ⟨out, r1, raw1, h1, h2, h3, _⟩ := runRCall_raw S D cfg hR hA hR1 none (by simpa using hdef)
      (.read (some k)) r raw hinv
    have h1' : read S D cfg r (some k) none = (.ok out, r1) := h1
    exact ⟨[out], r1, raw1, by simp [runCall, single, readinto, h1'], h2, by simpa using h3⟩
  | stream a =>
    have ha : a ≠ some 0 := fun h0 => hc (by rw [h0])
    obtain ⟨ps, r', h1, h2, h3⟩ := streamLoop_concat_raw S D cfg hR hA hCN hCA hZ a ha dco hdc cfg.fuel r raw []
      hinv (by split <;> omega)
    refine ⟨ps, r', [], ?_, h3, by simpa using h2⟩
    simp only [runCall, stream, hnc, Bool.false_eq_true, if_false]
    simpa using h1
  | iter => exact absurd rfl hi

/-- **concatenation over the API with decoding off** (non-chunked body): the pieces of all calls
followed by what is still to come are the raw payload -/
theorem callSeqG_concat_raw {rem : σ → Bytes} {I : σ → Option Int → Prop}
    (hR : RawReadSpec S cfg rem I) (hA : RawReadAllSpec S cfg rem I) (hR1 : RawRead1Spec S cfg rem I)
    (hCN : ClosesN S cfg rem I) (hCA : ClosesAll S cfg I) (hZ : ClosedNil S rem I)
    (dco : Option Bool) (hdc : dco.getD cfg.decodeDefault = false) (hdef : cfg.decodeDefault = false)
    (hnc : cfg.chunked = false) :
    ∀ (calls : List Call) (r : R σ δ) (raw : Bytes), (∀ c ∈ calls, c ≠ .stream (some 0) ∧ c ≠ .iter) →
      RawInv rem I r raw → 2 * raw.length + 1 < cfg.fuel →
      ∃ pss r' raw', callSeqG S D cfg dco calls r = ((pss, none), r') ∧ RawInv rem I r' raw' ∧
        pss.flatten.flatten ++ raw' = raw ∧ pss.length = calls.length := by
  intro calls
  induction calls with
  | nil => intro r raw _ hinv _; exact ⟨[], r, raw, rfl, hinv, rfl, rfl⟩
  | cons c t ih =>
    intro r raw hcs hinv hfS
    obtain ⟨ps, r1, raw1, h1, hinv1, hcat1⟩ := runCall_raw_spec S D cfg hR hA hR1 hCN hCA hZ dco hdc hdef hnc
      c (hcs c (by simp)).1 (hcs c (by simp)).2 r raw hinv hfS
    have hrl : raw1.length ≤ raw.length := by
      rw [← hcat1, List.length_append]; omega
    obtain ⟨pss, r2, raw2, h2, hinv2, hcat2, hl2⟩ := ih r1 raw1 (fun x hx => hcs x (by simp [hx])) hinv1 (by omega)
    refine ⟨ps :: pss, r2, raw2, ?_, hinv2, ?_, by simp [hl2]⟩
    · simp only [callSeqG, h1, h2]
    · rw [List.flatten_cons, List.flatten_append, List.append_assoc, hcat2, hcat1]

end
end U3.Resp
