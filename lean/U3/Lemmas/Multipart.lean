import U3.Model.Multipart
/-! Helper lemmas for C20 (multipart encoder / strict parser round trip). Core Lean only. -/
namespace U3.Multipart
open U3

/-! ## `cut`: split at the first occurrence -/

/-- `d` does not occur in `l` at any offset `< n` -/
def NoOccBefore (d l : List Nat) (n : Nat) : Prop := ∀ j, j < n → ¬ d <+: l.drop j

theorem cut_spec (d a b : List Nat) (h : NoOccBefore d (a ++ d ++ b) a.length) :
    cut d (a ++ d ++ b) = some (a, b) := by
  induction a with
  | nil =>
    cases hd : d with
    | nil => cases b <;> simp [cut]
    | cons y ys =>
      simp only [List.nil_append, List.cons_append, cut]
      have : (y :: ys).isPrefixOf (y :: (ys ++ b)) = true := by
        rw [List.isPrefixOf_iff_prefix]; exact ⟨b, by simp⟩
      simp [this]
  | cons x xs ih =>
    have h0 : ¬ d <+: (x :: xs ++ d ++ b) := by
      have := h 0 (by simp)
      simpa using this
    have hrest : NoOccBefore d (xs ++ d ++ b) xs.length := by
      intro j hj hp
      exact h (j+1) (by simp; omega) (by simpa using hp)
    simp only [List.cons_append, cut]
    have : d.isPrefixOf (x :: (xs ++ d ++ b)) = false := by
      rw [Bool.eq_false_iff]; intro hc
      rw [List.isPrefixOf_iff_prefix] at hc
      exact h0 (by simpa using hc)
    simp only [List.append_assoc] at this ⊢
    rw [this]
    have ih' := ih hrest
    simp only [List.append_assoc] at ih'
    simp [ih']

/-- a delimiter whose first element does not recur in it cannot straddle the end of `a`: if it is
not inside `a`, its first occurrence in `a ++ d ++ b` is the one written -/
theorem noOcc_of_head_unique (x : Nat) (t a b : List Nat) (hx : x ∉ t) (h : ¬ (x :: t) <:+: a) :
    NoOccBefore (x :: t) (a ++ (x :: t) ++ b) a.length := by
  intro j hj hp
  have hu : a.drop j <+: a.drop j ++ ((x :: t) ++ b) := List.prefix_append _ _
  have hd : (a ++ (x :: t) ++ b).drop j = a.drop j ++ ((x :: t) ++ b) := by
    rw [List.append_assoc, List.drop_append_of_le_length (by omega)]
  rw [hd] at hp
  by_cases hl : (x :: t).length ≤ (a.drop j).length
  · have : (x :: t) <+: a.drop j := List.prefix_of_prefix_length_le hp hu hl
    exact h (List.IsInfix.trans this.isInfix (List.drop_suffix j a).isInfix)
  · have hlt : (a.drop j).length ≤ (x :: t).length := by omega
    have hud : a.drop j <+: (x :: t) := List.prefix_of_prefix_length_le hu hp hlt
    obtain ⟨w, hw⟩ := hud
    have hune : a.drop j ≠ [] := by
      intro he
      have := congrArg List.length he
      simp at this; omega
    have hp2 : a.drop j ++ w <+: a.drop j ++ ((x :: t) ++ b) := by rw [hw]; exact hp
    rw [List.prefix_append_right_inj] at hp2
    -- w is a non-empty prefix of x :: t ++ b, and a proper suffix of x :: t
    cases hu' : a.drop j with
    | nil => exact hune hu'
    | cons y u' =>
      rw [hu'] at hw
      cases w with
      | nil =>
        have := congrArg List.length hw
        simp [hu'] at hl this
        omega
      | cons z w' =>
        have hz : z = x := by
          obtain ⟨r, hr⟩ := hp2
          simp at hr
          exact hr.1
        simp only [List.cons_append, List.cons.injEq] at hw
        have : x ∈ t := by
          rw [← hw.2, hz]
          simp
        exact hx this

theorem cut_of_not_infix (x : Nat) (t a b : List Nat) (hx : x ∉ t) (h : ¬ (x :: t) <:+: a) :
    cut (x :: t) (a ++ (x :: t) ++ b) = some (a, b) :=
  cut_spec _ _ _ (noOcc_of_head_unique x t a b hx h)

theorem not_infix_of_not_mem (x : Nat) (t a : List Nat) (h : x ∉ a) : ¬ (x :: t) <:+: a := by
  intro hi
  exact h (hi.subset (by simp))

theorem cut_of_not_mem (x : Nat) (t a b : List Nat) (hx : x ∉ t) (h : x ∉ a) :
    cut (x :: t) (a ++ (x :: t) ++ b) = some (a, b) :=
  cut_of_not_infix x t a b hx (not_infix_of_not_mem x t a h)

theorem stripPrefix_append (p s : List Nat) : stripPrefix p (p ++ s) = some s := by
  unfold stripPrefix
  have : p.isPrefixOf (p ++ s) = true := by
    rw [List.isPrefixOf_iff_prefix]; exact List.prefix_append _ _
  simp [this]


/-! ## escaping -/

/-- what the property needs of the escape table: `"`, CR, LF have an entry and no replacement text
contains one of them -/
def tableSafe (t : List (Nat × Str)) : Bool :=
  t.all (fun p => !p.2.contains 34 && !p.2.contains 13 && !p.2.contains 10) &&
  [10, 13, 34].all (fun k => (t.lookup k).isSome)

theorem lookup_mem (t : List (Nat × Str)) (c : Nat) (r : Str) (h : t.lookup c = some r) :
    ∃ k, (k, r) ∈ t := by
  induction t with
  | nil => simp [List.lookup] at h
  | cons p t ih =>
    obtain ⟨k, v⟩ := p
    simp only [List.lookup] at h
    split at h
    · exact ⟨k, by simp_all⟩
    · obtain ⟨k', hk⟩ := ih h
      exact ⟨k', by simp [hk]⟩

theorem escChar_safe_of_table (t : List (Nat × Str)) (ht : tableSafe t = true) (c : Nat) :
    ∀ r, (match t.lookup c with | some r => r | none => [c]) = r → 34 ∉ r ∧ 13 ∉ r ∧ 10 ∉ r := by
  intro r hr
  simp only [tableSafe, Bool.and_eq_true, List.all_eq_true] at ht
  obtain ⟨hall, hkeys⟩ := ht
  cases hl : t.lookup c with
  | some r' =>
    rw [hl] at hr
    subst hr
    obtain ⟨k, hk⟩ := lookup_mem t c r' hl
    have := hall _ hk
    simp at this
    exact ⟨this.1.1, this.1.2, this.2⟩
  | none =>
    rw [hl] at hr
    subst hr
    have h10 := hkeys 10 (by simp)
    have h13 := hkeys 13 (by simp)
    have h34 := hkeys 34 (by simp)
    refine ⟨?_, ?_, ?_⟩ <;> (intro hm; simp at hm; subst hm; simp [hl] at h10 h13 h34)

theorem tableSafe_gen : tableSafe Gen.escapeTable = true := by decide

theorem escChar_safe (c : Nat) : 34 ∉ escChar c ∧ 13 ∉ escChar c ∧ 10 ∉ escChar c :=
  escChar_safe_of_table Gen.escapeTable tableSafe_gen c (escChar c) rfl

theorem escape_safe (v : Str) : 34 ∉ escape v ∧ 13 ∉ escape v ∧ 10 ∉ escape v := by
  unfold escape
  refine ⟨?_, ?_, ?_⟩ <;>
  · intro h
    rw [List.mem_flatMap] at h
    obtain ⟨c, _, hc⟩ := h
    have := escChar_safe c
    simp_all

/-! ## UTF-8 -/

theorem utf8_append (a b : Str) :
    utf8 (a ++ b) = match utf8 a, utf8 b with
      | some x, some y => some (x ++ y)
      | _, _ => none := by
  induction a with
  | nil => cases hb : utf8 b <;> simp [utf8, hb]
  | cons c t ih =>
    simp only [List.cons_append, utf8, ih]
    cases utf8Char c <;> cases utf8 t <;> cases utf8 b <;> simp

theorem utf8_append_some (a b : Str) (x y : Bytes) (ha : utf8 a = some x) (hb : utf8 b = some y) :
    utf8 (a ++ b) = some (x ++ y) := by
  rw [utf8_append, ha, hb]

theorem utf8_append_inv (a b : Str) (z : Bytes) (h : utf8 (a ++ b) = some z) :
    ∃ x y, utf8 a = some x ∧ utf8 b = some y ∧ z = x ++ y := by
  rw [utf8_append] at h
  cases ha : utf8 a <;> cases hb : utf8 b <;> simp [ha, hb] at h
  exact ⟨_, _, rfl, rfl, h.symm⟩

/-- an ASCII byte in the encoding of a code point is that code point -/
theorem utf8Char_ascii (c : Nat) (bs : Bytes) (h : utf8Char c = some bs) (x : Nat) (hx : x ∈ bs)
    (hlt : x < 128) : x = c := by
  unfold utf8Char at h
  split at h
  · simp at h; subst h; simpa using hx
  · split at h
    · simp at h; subst h; simp at hx; omega
    · split at h
      · split at h
        · simp at h
        · simp at h; subst h; simp at hx; omega
      · split at h
        · simp at h; subst h; simp at hx; omega
        · simp at h

theorem utf8_mem_ascii (s : Str) (b : Bytes) (h : utf8 s = some b) (x : Nat) (hlt : x < 128)
    (hx : x ∈ b) : x ∈ s := by
  induction s generalizing b with
  | nil => simp [utf8] at h; subst h; simp at hx
  | cons c t ih =>
    simp only [utf8] at h
    cases hc : utf8Char c <;> cases ht : utf8 t <;> simp [hc, ht] at h
    subst h
    rw [List.mem_append] at hx
    cases hx with
    | inl h1 => have := utf8Char_ascii c _ hc x h1 hlt; simp [this]
    | inr h2 => simp [ih _ ht h2]

theorem utf8_ascii (s : Str) (h : ∀ c ∈ s, c < 128) : utf8 s = some s := by
  induction s with
  | nil => rfl
  | cons c t ih =>
    have hc : c < 128 := h c (by simp)
    have ht := ih (fun x hx => h x (by simp [hx]))
    simp [utf8, utf8Char, hc, ht]


/-! ## header block -/

/-- the wire form of one header line -/
def lineBytes (kv : Bytes × Bytes) : Bytes := kv.1 ++ colonSp ++ kv.2 ++ crlf

theorem partBytes_eq (p : Part) : partBytes p = p.headers.flatMap lineBytes ++ crlf ++ p.data := rfl

theorem joinWith_snoc (sep : List Nat) (ls : List (List Nat)) :
    joinWith sep (ls ++ [sep]) = ls.flatMap (fun l => l ++ sep) ++ sep := by
  induction ls with
  | nil => simp [joinWith]
  | cons l t ih =>
    cases t with
    | nil => simp [joinWith]
    | cons l2 t2 =>
      simp only [List.cons_append, joinWith] at ih ⊢
      rw [ih]
      simp

theorem renderHeaders_eq (f : RequestField) :
    renderHeaders f = (headerLines f).flatMap (fun kv => headerLine kv ++ crlf) ++ crlf := by
  unfold renderHeaders
  rw [joinWith_snoc, List.flatMap_map]

theorem utf8_crlf : utf8 crlf = some crlf := by decide
theorem utf8_colonSp : utf8 colonSp = some colonSp := by decide

theorem utf8_lines (ls : List (Str × Str)) :
    utf8 (ls.flatMap (fun kv => headerLine kv ++ crlf)) =
      (allSome (ls.map utf8Pair)).map (fun hs => hs.flatMap lineBytes) := by
  induction ls with
  | nil => simp [utf8, allSome]
  | cons kv t ih =>
    obtain ⟨k, v⟩ := kv
    simp only [List.flatMap_cons, List.map_cons, allSome]
    rw [utf8_append, ih]
    simp only [headerLine, utf8Pair]
    rw [utf8_append, utf8_crlf, utf8_append, utf8_append, utf8_colonSp]
    cases utf8 k <;> cases utf8 v <;> cases allSome (t.map utf8Pair) <;> simp [lineBytes]

/-- the encoder's header block + data is the wire form of the part the field specifies -/
theorem encodeField_eq (b : Bytes) (f : RequestField) (x : Bytes) (h : encodeField b f = some x) :
    ∃ p, partOf f = some p ∧ x = dashdash ++ b ++ crlf ++ partBytes p ++ crlf := by
  unfold encodeField at h
  rw [renderHeaders_eq, utf8_append, utf8_lines, utf8_crlf] at h
  unfold partOf
  cases hl : allSome ((headerLines f).map utf8Pair) <;> cases hd : dataBytes f.data <;>
    simp [hl, hd] at h
  subst h
  exact ⟨_, rfl, by simp [partBytes_eq]⟩

/-- requirements on a part's header lines for the strict parser to read them back -/
def PartOK (p : Part) : Prop := ∀ kv ∈ p.headers, 58 ∉ kv.1 ∧ 13 ∉ kv.1 ∧ 13 ∉ kv.2

theorem length_flatMap_lineBytes (hs : List (Bytes × Bytes)) : hs.length ≤ (hs.flatMap lineBytes).length := by
  induction hs with
  | nil => simp
  | cons kv t ih =>
    have : 0 < (lineBytes kv).length := by simp [lineBytes, crlf]; omega
    simp only [List.flatMap_cons, List.length_append, List.length_cons]
    omega

theorem parseHeaders_spec (hs : List (Bytes × Bytes)) (data : Bytes)
    (hok : ∀ kv ∈ hs, 58 ∉ kv.1 ∧ 13 ∉ kv.1 ∧ 13 ∉ kv.2) (fuel : Nat) (hf : hs.length < fuel) :
    parseHeaders fuel (hs.flatMap lineBytes ++ crlf ++ data) = some (hs, data) := by
  induction hs generalizing fuel with
  | nil =>
    cases fuel with
    | zero => simp at hf
    | succ n => simp [parseHeaders, crlf, List.isPrefixOf]
  | cons kv t ih =>
    cases fuel with
    | zero => simp at hf
    | succ n =>
      obtain ⟨k, v⟩ := kv
      obtain ⟨hk58, hk13, hv13⟩ := hok (k, v) (by simp)
      have hline13 : 13 ∉ k ++ colonSp ++ v := by simp [colonSp, hk13, hv13]
      have hs_eq : (((k, v) :: t).flatMap lineBytes ++ crlf ++ data) =
          (k ++ colonSp ++ v) ++ (13 :: [10]) ++ (t.flatMap lineBytes ++ crlf ++ data) := by
        simp [lineBytes, crlf]
      have hnp : crlf.isPrefixOf (((k, v) :: t).flatMap lineBytes ++ crlf ++ data) = false := by
        rw [hs_eq]
        cases hk : k with
        | nil => simp [colonSp, crlf, List.isPrefixOf]
        | cons y k' =>
          have : y ≠ 13 := by intro he; apply hk13; simp [hk, he]
          simp [crlf, List.isPrefixOf]
          intro h; exact absurd h.symm this
      have hcut1 := cut_of_not_mem 13 [10] (k ++ colonSp ++ v) (t.flatMap lineBytes ++ crlf ++ data)
        (by simp) hline13
      have hcut2 := cut_of_not_mem 58 [32] k v (by simp) hk58
      have ih' := ih (fun kv h => hok kv (by simp [h])) n (by simp at hf; omega)
      unfold parseHeaders
      rw [hnp]
      simp only [Bool.false_eq_true, ↓reduceIte]
      rw [hs_eq]
      simp only [crlf] at hcut1 ⊢
      rw [hcut1]
      simp only [colonSp] at hcut2 ⊢
      rw [hcut2]
      have ih'' : parseHeaders n (List.flatMap lineBytes t ++ 13 :: 10 :: data) = some (t, data) := by
        simpa [crlf] using ih'
      simp [ih'']

theorem parsePart_spec (p : Part) (hok : PartOK p) : parsePart (partBytes p) = some p := by
  unfold parsePart
  rw [partBytes_eq, parseHeaders_spec p.headers p.data hok]
  · simp
  · have := length_flatMap_lineBytes p.headers
    simp only [List.length_append]; omega


/-! ## the body -/

/-- `CRLF--boundary` -/
def delim (b : Bytes) : Bytes := crlf ++ dashdash ++ b

/-- what follows the first dash-boundary in the wire form of a list of parts -/
def serTail (b : Bytes) : List Part → Bytes
  | [] => dashdash ++ crlf
  | p :: t => crlf ++ partBytes p ++ delim b ++ serTail b t

/-- the wire form of a list of parts -/
def serialize (b : Bytes) (ps : List Part) : Bytes := dashdash ++ b ++ serTail b ps

theorem length_serTail (b : Bytes) (ps : List Part) : ps.length < (serTail b ps).length := by
  induction ps with
  | nil => simp [serTail, dashdash, crlf]
  | cons p t ih => simp only [serTail, List.length_append, List.length_cons]; simp [crlf]; omega

theorem parseParts_spec (b : Bytes) (hb : 13 ∉ b) (ps : List Part)
    (hok : ∀ p ∈ ps, PartOK p ∧ ¬ delim b <:+: partBytes p) (fuel : Nat) (hf : ps.length < fuel) :
    parseParts (delim b) fuel (serTail b ps) = some ps := by
  induction ps generalizing fuel with
  | nil =>
    cases fuel with
    | zero => simp at hf
    | succ n => simp [parseParts, serTail]
  | cons p t ih =>
    cases fuel with
    | zero => simp at hf
    | succ n =>
      obtain ⟨hpok, hni⟩ := hok p (by simp)
      have ih' := ih (fun q h => hok q (by simp [h])) n (by simp at hf; omega)
      have hne : serTail b (p :: t) ≠ dashdash ++ crlf := by
        simp [serTail, crlf, dashdash]
      have hsp : stripPrefix crlf (serTail b (p :: t)) = some (partBytes p ++ delim b ++ serTail b t) := by
        simp only [serTail, List.append_assoc]
        exact stripPrefix_append _ _
      have hd : delim b = 13 :: (10 :: 45 :: 45 :: b) := by simp [delim, crlf, dashdash]
      have hcut : cut (delim b) (partBytes p ++ delim b ++ serTail b t) = some (partBytes p, serTail b t) := by
        rw [hd] at hni ⊢
        exact cut_of_not_infix 13 _ _ _ (by simp [hb]) hni
      unfold parseParts
      rw [if_neg hne, hsp]
      simp only
      rw [hcut]
      simp only
      rw [parsePart_spec p hpok, ih']

theorem parseMultipart_serialize (b : Bytes) (hb : 13 ∉ b) (ps : List Part)
    (hok : ∀ p ∈ ps, PartOK p ∧ ¬ delim b <:+: partBytes p) :
    parseMultipart b (serialize b ps) = some ps := by
  unfold parseMultipart serialize
  rw [stripPrefix_append]
  simp only
  have := parseParts_spec b hb ps hok ((serTail b ps).length + 1) (by have := length_serTail b ps; omega)
  simpa [delim] using this

theorem encodeFields_eq (b : Bytes) (fs : List RequestField) (x : Bytes) (h : encodeFields b fs = some x) :
    ∃ ps, allSome (fs.map partOf) = some ps ∧
      x ++ dashdash ++ b ++ dashdash ++ crlf = serialize b ps := by
  induction fs generalizing x with
  | nil =>
    simp [encodeFields] at h; subst h
    exact ⟨[], rfl, by simp [serialize, serTail]⟩
  | cons f t ih =>
    simp only [encodeFields] at h
    cases hf : encodeField b f <;> cases ht : encodeFields b t <;> simp [hf, ht] at h
    subst h
    obtain ⟨p, hp, hx⟩ := encodeField_eq b f _ hf
    obtain ⟨ps, hps, hr⟩ := ih _ ht
    refine ⟨p :: ps, by simp [allSome, hp, hps], ?_⟩
    subst hx
    simp only [serialize, serTail, delim, List.append_assoc] at hr ⊢
    rw [hr]

theorem allSome_mem {α β : Type} (f : α → Option β) (l : List α) (r : List β)
    (h : allSome (l.map f) = some r) : ∀ y ∈ r, ∃ x ∈ l, f x = some y := by
  induction l generalizing r with
  | nil => simp [allSome] at h; subst h; simp
  | cons a t ih =>
    simp only [List.map_cons, allSome] at h
    cases ha : f a <;> cases ht : allSome (t.map f) <;> simp [ha, ht] at h
    subst h
    intro y hy
    simp at hy
    cases hy with
    | inl h1 => exact ⟨a, by simp, by simp [ha, h1]⟩
    | inr h2 =>
      obtain ⟨x, hx, hfx⟩ := ih _ ht y h2
      exact ⟨x, by simp [hx], hfx⟩

theorem allSome_length {α : Type} (l : List (Option α)) (r : List α) (h : allSome l = some r) :
    r.length = l.length := by
  induction l generalizing r with
  | nil => simp [allSome] at h; subst h; rfl
  | cons a t ih =>
    simp only [allSome] at h
    cases a <;> cases ht : allSome t <;> simp [ht] at h
    subst h
    simp [ih _ ht]

/-- the caller-written header text of a field is benign: no `:` in a header name, no CR in a header
name or value (as rendered) -/
def FieldSafe (f : RequestField) : Prop := ∀ kv ∈ headerLines f, 58 ∉ kv.1 ∧ 13 ∉ kv.1 ∧ 13 ∉ kv.2

theorem partOK_of_fieldSafe (f : RequestField) (p : Part) (hs : FieldSafe f) (hp : partOf f = some p) :
    PartOK p := by
  unfold partOf at hp
  cases hl : allSome ((headerLines f).map utf8Pair) <;> cases hd : dataBytes f.data <;>
    simp [hl, hd] at hp
  subst hp
  intro kv hkv
  obtain ⟨kv0, hmem, hu⟩ := allSome_mem utf8Pair _ _ hl kv hkv
  obtain ⟨h58, h13, h13'⟩ := hs kv0 hmem
  unfold utf8Pair at hu
  cases hk : utf8 kv0.1 <;> cases hv : utf8 kv0.2 <;> simp [hk, hv] at hu
  subst hu
  exact ⟨fun h => h58 (utf8_mem_ascii _ _ hk 58 (by omega) h),
         fun h => h13 (utf8_mem_ascii _ _ hk 13 (by omega) h),
         fun h => h13' (utf8_mem_ascii _ _ hv 13 (by omega) h)⟩


/-! ## `Content-Disposition` parameters -/

def paramBytes (kv : Bytes × Bytes) : Bytes := kv.1 ++ [61, 34] ++ kv.2 ++ [34]

def ParamOK (kv : Bytes × Bytes) : Prop :=
  isToken kv.1 = true ∧ 61 ∉ kv.1 ∧ 34 ∉ kv.2 ∧ 13 ∉ kv.2 ∧ 10 ∉ kv.2

theorem parseParams_spec (ps : List (Bytes × Bytes)) (hne : ps ≠ []) (hok : ∀ kv ∈ ps, ParamOK kv)
    (fuel : Nat) (hf : ps.length ≤ fuel) :
    parseParams fuel (joinWith semiSp (ps.map paramBytes)) = some ps := by
  induction ps generalizing fuel with
  | nil => exact absurd rfl hne
  | cons kv t ih =>
    obtain ⟨k, v⟩ := kv
    obtain ⟨htok, h61, h34, h13, h10⟩ := hok (k, v) (by simp)
    cases fuel with
    | zero => simp at hf
    | succ n =>
      cases t with
      | nil =>
        have e : joinWith semiSp ([(k, v)].map paramBytes) = k ++ (61 :: [34]) ++ (v ++ (34 :: []) ++ []) := by
          simp [joinWith, paramBytes]
        have c1 := cut_of_not_mem 61 [34] k (v ++ (34 :: []) ++ []) (by simp) h61
        have c2 := cut_of_not_mem 34 [] v [] (by simp) h34
        rw [e]
        unfold parseParams
        rw [c1]
        simp only
        rw [c2]
        simp [htok, h13, h10]
      | cons kv2 t2 =>
        have ih' := ih (by simp) (fun q h => hok q (by simp [h])) n (by simp at hf ⊢; omega)
        have e : joinWith semiSp (((k, v) :: kv2 :: t2).map paramBytes) =
            k ++ (61 :: [34]) ++ (v ++ (34 :: []) ++ (semiSp ++ joinWith semiSp ((kv2 :: t2).map paramBytes))) := by
          simp [joinWith, paramBytes]
        have c1 := cut_of_not_mem 61 [34] k
          (v ++ (34 :: []) ++ (semiSp ++ joinWith semiSp ((kv2 :: t2).map paramBytes))) (by simp) h61
        have c2 := cut_of_not_mem 34 [] v (semiSp ++ joinWith semiSp ((kv2 :: t2).map paramBytes)) (by simp) h34
        rw [e]
        unfold parseParams
        rw [c1]
        simp only
        rw [c2]
        have hnem : (semiSp ++ joinWith semiSp ((kv2 :: t2).map paramBytes)).isEmpty = false := by
          simp [semiSp]
        simp only [htok, hnem, stripPrefix_append, ih']
        simp [h13, h10]

theorem parseDisposition_spec (ty : Bytes) (htok : isToken ty = true) (h59 : 59 ∉ ty)
    (ps : List (Bytes × Bytes)) (hne : ps ≠ []) (hok : ∀ kv ∈ ps, ParamOK kv) :
    parseDisposition (ty ++ semiSp ++ joinWith semiSp (ps.map paramBytes)) = some (ty, ps) := by
  unfold parseDisposition
  have c := cut_of_not_mem 59 [32] ty (joinWith semiSp (ps.map paramBytes)) (by simp) h59
  simp only [semiSp] at c ⊢
  rw [c]
  simp only [htok, ↓reduceIte]
  have := parseParams_spec ps hne hok ((joinWith [59, 32] (ps.map paramBytes)).length + 1) (by
    have : ps.length ≤ (joinWith [59, 32] (ps.map paramBytes)).length := by
      clear c hok hne
      induction ps with
      | nil => simp
      | cons a t ih =>
        cases t with
        | nil => simp [joinWith, paramBytes]; omega
        | cons b t2 =>
          simp only [List.map_cons, joinWith, List.length_append, List.length_cons] at ih ⊢
          omega
    omega)
  simp only [semiSp] at this
  rw [this]
  rfl


/-! ## fields made by `from_tuples` -/

theorem dispositionValue_ne (cd : Option Str) (n : Str) (fn : Option Str) :
    (dispositionValue cd n fn).isEmpty = false := by
  unfold dispositionValue
  cases cd with
  | none => simp [strOr, formData]
  | some s =>
    by_cases h : s.isEmpty
    · simp [strOr, h, formData]
    · simp [strOr, h]
      intro h1
      simp [h1] at h

/-- the header dict `make_multipart` leaves on a fresh field, and the lines rendered from it -/
theorem headerLines_fresh (n : Str) (fn : Option Str) (d : Data) (cd ct cl : Option Str) :
    headerLines (makeMultipart ⟨n, fn, d, []⟩ cd ct cl) =
      (cdName, dispositionValue cd n fn) ::
        ((match truthy ct with | some c => [(ctName, c)] | none => []) ++
         (match truthy cl with | some c => [(clName, c)] | none => [])) := by
  have hne := dispositionValue_ne cd n fn
  have e : (makeMultipart ⟨n, fn, d, []⟩ cd ct cl).headers =
      [(cdName, some (dispositionValue cd n fn)), (ctName, ct), (clName, cl)] := by
    simp [makeMultipart, dictSet, cdName, ctName, clName]
  unfold headerLines
  rw [e]
  generalize dispositionValue cd n fn = dv at hne ⊢
  have hdv : truthy (some dv) = some dv := by simp [truthy, hne]
  cases htc : truthy ct <;> cases htl : truthy cl <;>
    simp [Gen.sortKeys, List.lookup, cdName, ctName, clName, hdv, htc, htl]


theorem formatParam_safe (k v : Str) (c : Nat) (hc : c = 13 ∨ c = 10) (hk : c ∉ k) :
    c ∉ formatParam k v := by
  have := escape_safe v
  unfold formatParam
  rcases hc with rfl | rfl <;> simp [hk, this]

theorem dispositionValue_eq (cd : Option Str) (n : Str) (fn : Option Str) :
    dispositionValue cd n fn = strOr cd formData ++ semiSp ++
      joinWith semiSp ((match fn with
        | none => [(nameKey, n)]
        | some f => [(nameKey, n), (filenameKey, f)]).map fun (kv : Str × Str) => formatParam kv.1 kv.2) := by
  cases fn <;> simp [dispositionValue, renderParts, joinWith]

/-- whatever the name and the filename, the `Content-Disposition` value has no CR and no LF -/
theorem dispositionValue_safe (cd : Option Str) (n : Str) (fn : Option Str) (c : Nat)
    (hc : c = 13 ∨ c = 10) (hcd : ∀ s, cd = some s → c ∉ s) : c ∉ dispositionValue cd n fn := by
  have h1 : c ∉ strOr cd formData := by
    cases cd with
    | none => rcases hc with rfl | rfl <;> simp [strOr, formData]
    | some s =>
      have := hcd s rfl
      by_cases he : s.isEmpty
      · rcases hc with rfl | rfl <;> simp [strOr, he, formData]
      · simpa [strOr, he] using this
  have h2 : c ∉ semiSp := by rcases hc with rfl | rfl <;> simp [semiSp]
  have hn : c ∉ nameKey := by rcases hc with rfl | rfl <;> simp [nameKey]
  have hf : c ∉ filenameKey := by rcases hc with rfl | rfl <;> simp [filenameKey]
  have p1 := formatParam_safe nameKey n c hc hn
  rw [dispositionValue_eq]
  cases fn with
  | none => simp [joinWith, h1, h2, p1]
  | some f =>
    have p2 := formatParam_safe filenameKey f c hc hf
    simp [joinWith, h1, h2, p1, p2]

theorem truthy_some (o : Option Str) (c : Str) (h : truthy o = some c) : o = some c := by
  cases o with
  | none => simp [truthy] at h
  | some s =>
    simp only [truthy] at h
    split at h <;> simp_all

theorem fieldSafe_fresh (n : Str) (fn : Option Str) (d : Data) (cd ct cl : Option Str)
    (hcd : ∀ s, cd = some s → 13 ∉ s) (hct : ∀ s, ct = some s → 13 ∉ s) (hcl : ∀ s, cl = some s → 13 ∉ s) :
    FieldSafe (makeMultipart ⟨n, fn, d, []⟩ cd ct cl) := by
  unfold FieldSafe
  rw [headerLines_fresh]
  intro kv hkv
  simp only [List.mem_cons, List.mem_append] at hkv
  rcases hkv with rfl | hkv | hkv
  · exact ⟨by simp [cdName], by simp [cdName], dispositionValue_safe cd n fn 13 (Or.inl rfl) hcd⟩
  · cases h : truthy ct with
    | none => simp [h] at hkv
    | some c =>
      simp [h] at hkv; subst hkv
      exact ⟨by simp [ctName], by simp [ctName], hct c (truthy_some _ _ h)⟩
  · cases h : truthy cl with
    | none => simp [h] at hkv
    | some c =>
      simp [h] at hkv; subst hkv
      exact ⟨by simp [clName], by simp [clName], hcl c (truthy_some _ _ h)⟩

theorem guessContentType_safe (mt : Str → Option Str) (hmt : ∀ fn t, mt fn = some t → 13 ∉ t)
    (fn : Option Str) : 13 ∉ guessContentType mt fn := by
  unfold guessContentType
  cases fn with
  | none => simp [octetStream]
  | some f =>
    simp only
    split
    · simp [octetStream]
    · cases h : mt f with
      | none => simp [strOr, octetStream]
      | some t =>
        have := hmt f t h
        by_cases he : t.isEmpty
        · simp [strOr, he, octetStream]
        · simpa [strOr, he] using this

/-- the content type a tuple value specifies -/
def TupleValue.contentType (mt : Str → Option Str) : TupleValue → Option Str
  | .plain _ => none
  | .file2 fn _ => some (guessContentType mt fn)
  | .file3 _ _ ct => ct

def TupleValue.filename : TupleValue → Option Str
  | .plain _ => none
  | .file2 fn _ => fn
  | .file3 fn _ _ => fn

def TupleValue.data : TupleValue → Data
  | .plain d => d
  | .file2 _ d => d
  | .file3 _ d _ => d

theorem fromTuples_eq (mt : Str → Option Str) (n : Str) (v : TupleValue) :
    fromTuples mt n v = makeMultipart ⟨n, v.filename, v.data, []⟩ none (v.contentType mt) none := by
  cases v <;> rfl

theorem headerLines_fromTuples (mt : Str → Option Str) (n : Str) (v : TupleValue) :
    headerLines (fromTuples mt n v) =
      (cdName, dispositionValue none n v.filename) ::
        (match truthy (v.contentType mt) with | some c => [(ctName, c)] | none => []) := by
  rw [fromTuples_eq, headerLines_fresh]
  simp [truthy]

theorem fieldSafe_fromTuples (mt : Str → Option Str) (hmt : ∀ fn t, mt fn = some t → 13 ∉ t)
    (n : Str) (v : TupleValue) (hct : ∀ fn d ct, v = .file3 fn d (some ct) → 13 ∉ ct) :
    FieldSafe (fromTuples mt n v) := by
  rw [fromTuples_eq]
  apply fieldSafe_fresh
  · simp
  · intro s hs
    cases v with
    | plain d => simp [TupleValue.contentType] at hs
    | file2 fn d =>
      simp [TupleValue.contentType] at hs
      rw [← hs]; exact guessContentType_safe mt hmt fn
    | file3 fn d ct =>
      simp [TupleValue.contentType] at hs
      exact hct fn d s (by rw [hs])
  · simp

/-! ## the disposition value on the wire -/

theorem utf8_const_formData : utf8 formData = some formData := by decide
theorem utf8_const_semiSp : utf8 semiSp = some semiSp := by decide
theorem utf8_const_nameKey : utf8 nameKey = some nameKey := by decide
theorem utf8_const_filenameKey : utf8 filenameKey = some filenameKey := by decide
theorem utf8_const_eqq : utf8 [61, 34] = some [61, 34] := by decide
theorem utf8_const_q : utf8 [34] = some [34] := by decide

theorem utf8_formatParam (k v : Str) (kb : Bytes) (hk : utf8 k = some kb) :
    utf8 (formatParam k v) = (utf8 (escape v)).map fun ev => paramBytes (kb, ev) := by
  unfold formatParam
  rw [utf8_append, utf8_append, utf8_append, hk, utf8_const_eqq, utf8_const_q]
  cases utf8 (escape v) <;> simp [paramBytes]

theorem utf8_disposition (n : Str) (fn : Option Str) (v : Bytes)
    (h : utf8 (dispositionValue none n fn) = some v) :
    ∃ en, utf8 (escape n) = some en ∧
      match fn with
      | none => v = formData ++ semiSp ++ joinWith semiSp ([(nameKey, en)].map paramBytes)
      | some f => ∃ ef, utf8 (escape f) = some ef ∧
          v = formData ++ semiSp ++ joinWith semiSp ([(nameKey, en), (filenameKey, ef)].map paramBytes) := by
  rw [dispositionValue_eq] at h
  cases fn with
  | none =>
    simp only [strOr, List.map_cons, List.map_nil, joinWith] at h
    rw [utf8_append, utf8_append, utf8_const_formData, utf8_const_semiSp,
      utf8_formatParam _ _ _ utf8_const_nameKey] at h
    cases he : utf8 (escape n) <;> simp [he] at h
    exact ⟨_, rfl, by simp [joinWith, ← h]⟩
  | some f =>
    simp only [strOr, List.map_cons, List.map_nil, joinWith] at h
    rw [utf8_append, utf8_append, utf8_append, utf8_append, utf8_const_formData, utf8_const_semiSp,
      utf8_formatParam _ _ _ utf8_const_nameKey, utf8_formatParam _ _ _ utf8_const_filenameKey] at h
    cases he : utf8 (escape n) <;> cases hf : utf8 (escape f) <;> simp [he, hf] at h
    exact ⟨_, rfl, _, hf, by simp [joinWith, ← h]⟩

theorem paramOK_escaped (k : Bytes) (htok : isToken k = true) (h61 : 61 ∉ k) (v : Str) (ev : Bytes)
    (h : utf8 (escape v) = some ev) : ParamOK (k, ev) := by
  have hs := escape_safe v
  exact ⟨htok, h61,
    fun hm => hs.1 (utf8_mem_ascii _ _ h 34 (by omega) hm),
    fun hm => hs.2.1 (utf8_mem_ascii _ _ h 13 (by omega) hm),
    fun hm => hs.2.2 (utf8_mem_ascii _ _ h 10 (by omega) hm)⟩


/-! ## boundaries -/

theorem latin1_eq (s : Str) (b : Bytes) (h : latin1 s = some b) : b = s := by
  unfold latin1 at h
  split at h <;> simp_all

theorem hexDigit_ne_cr (n : Nat) (h : n < 16) : hexDigit n ≠ 13 ∧ hexDigit n < 256 := by
  unfold hexDigit
  split <;> omega

theorem chooseBoundary_safe (rand : Bytes) :
    13 ∉ chooseBoundary rand ∧ latin1 (chooseBoundary rand) = some (chooseBoundary rand) := by
  have hall : ∀ c ∈ chooseBoundary rand, c ≠ 13 ∧ c < 256 := by
    intro c hc
    simp only [chooseBoundary, hexlify, List.mem_flatMap] at hc
    obtain ⟨x, _, hx⟩ := hc
    simp at hx
    rcases hx with rfl | rfl
    · exact hexDigit_ne_cr _ (Nat.mod_lt _ (by omega))
    · exact hexDigit_ne_cr _ (Nat.mod_lt _ (by omega))
  refine ⟨fun h => (hall 13 h).1 rfl, ?_⟩
  unfold latin1
  have : (chooseBoundary rand).all (· < 256) = true := by
    rw [List.all_eq_true]
    intro c hc
    simpa using (hall c hc).2
  simp [this]

/-- the whole round trip on field objects -/
theorem roundtrip_fields (fs : List RequestField) (boundary : Str) (body : Bytes) (ct : Str)
    (henc : encodeMultipart fs boundary = .ok (body, ct))
    (hcr : 13 ∉ boundary)
    (hsafe : ∀ f ∈ fs, FieldSafe f)
    (hb : ∀ f ∈ fs, ∀ p, partOf f = some p → ¬ delim boundary <:+: partBytes p) :
    ∃ ps, allSome (fs.map partOf) = some ps ∧ parseMultipart boundary body = some ps := by
  unfold encodeMultipart at henc
  cases hl : latin1 boundary with
  | none => simp [hl] at henc
  | some b =>
    have hbe := latin1_eq _ _ hl
    subst hbe
    cases he : encodeFields b fs with
    | none => simp [hl, he] at henc
    | some x =>
      simp [hl, he] at henc
      obtain ⟨ps, hps, hser⟩ := encodeFields_eq _ fs x he
      refine ⟨ps, hps, ?_⟩
      rw [← henc.1]
      have : x ++ (dashdash ++ (b ++ (dashdash ++ crlf))) = serialize b ps := by
        rw [← hser]; simp
      rw [this]
      apply parseMultipart_serialize _ hcr
      intro p hp
      obtain ⟨f, hf, hpf⟩ := allSome_mem partOf fs ps hps p hp
      exact ⟨partOK_of_fieldSafe f p (hsafe f hf) hpf, hb f hf p hpf⟩

/-! ## injectivity of the escaping on `%`-free text -/

/-- what injectivity needs of the table (checked on the table read from the source): the three
replacement texts have the same length, start with `%` and are pairwise different — their exact
spelling (e.g. hex case) does not matter -/
theorem escTable_shape0 :
    ∀ k ∈ [10, 13, 34], (escChar k).length = 3 ∧ (escChar k).head? = some 37 ∧
      ∀ k' ∈ [10, 13, 34], escChar k = escChar k' → k = k' := by
  decide

theorem escTable_shape (k : Nat) (hk : k ∈ [10, 13, 34]) :
    (escChar k).length = 3 ∧ (∃ tl, escChar k = 37 :: tl) ∧
      ∀ k' ∈ [10, 13, 34], escChar k = escChar k' → k = k' := by
  obtain ⟨h1, h2, h3⟩ := escTable_shape0 k hk
  refine ⟨h1, ?_, h3⟩
  cases he : escChar k with
  | nil => simp [he] at h2
  | cons x tl => simp [he] at h2; exact ⟨tl, by rw [h2]⟩

theorem escChar_cases (c : Nat) : c ∈ [10, 13, 34] ∨ (c ∉ [10, 13, 34] ∧ escChar c = [c]) := by
  by_cases h : c ∈ [10, 13, 34]
  · exact Or.inl h
  · refine Or.inr ⟨h, ?_⟩
    simp at h
    have e1 : (c == 10) = false := by simp [h.1]
    have e2 : (c == 13) = false := by simp [h.2.1]
    have e3 : (c == 34) = false := by simp [h.2.2]
    simp [escChar, Gen.escapeTable, List.lookup, e1, e2, e3]

theorem escChar_ne_nil (c : Nat) : escChar c ≠ [] := by
  rcases escChar_cases c with h | ⟨_, e⟩
  · obtain ⟨_, ⟨tl, e⟩, _⟩ := escTable_shape c h
    simp [e]
  · simp [e]

/-- on `%`-free text the escaping is injective (so decodable): two different names cannot be sent
as the same parameter unless one of them already contains a literal `%` -/
theorem escape_injective_no_pct (a b : Str) (ha : 37 ∉ a) (hb : 37 ∉ b) (h : escape a = escape b) :
    a = b := by
  induction a generalizing b with
  | nil =>
    cases b with
    | nil => rfl
    | cons c t =>
      exfalso
      simp only [escape, List.flatMap_nil, List.flatMap_cons] at h
      exact escChar_ne_nil c (List.append_eq_nil_iff.mp h.symm).1
  | cons c t ih =>
    cases b with
    | nil =>
      exfalso
      simp only [escape, List.flatMap_nil, List.flatMap_cons] at h
      exact escChar_ne_nil c (List.append_eq_nil_iff.mp h).1
    | cons c' t' =>
      have hc : c ≠ 37 := fun e => ha (by simp [e])
      have hc' : c' ≠ 37 := fun e => hb (by simp [e])
      have hat : 37 ∉ t := fun e => ha (by simp [e])
      have hbt : 37 ∉ t' := fun e => hb (by simp [e])
      simp only [escape, List.flatMap_cons] at h
      have key : c = c' ∧ t.flatMap escChar = t'.flatMap escChar := by
        rcases escChar_cases c with hs | ⟨hn, e⟩ <;> rcases escChar_cases c' with hs' | ⟨hn', e'⟩
        · obtain ⟨l1, _, inj⟩ := escTable_shape c hs
          obtain ⟨l2, _, _⟩ := escTable_shape c' hs'
          obtain ⟨h1, h2⟩ := List.append_inj h (by omega)
          exact ⟨inj c' hs' h1, h2⟩
        · obtain ⟨_, ⟨tl, e1⟩, _⟩ := escTable_shape c hs
          rw [e1, e'] at h
          simp at h
          exact absurd h.1.symm hc'
        · obtain ⟨_, ⟨tl, e1⟩, _⟩ := escTable_shape c' hs'
          rw [e1, e] at h
          simp at h
          exact absurd h.1 hc
        · rw [e, e'] at h
          simpa using h
      rw [key.1, ih t' hat hbt key.2]

end U3.Multipart
