import U3.Model.Url
import U3.Lemmas.Url
import U3.Lemmas.UrlCase
import U3.Lemmas.UrlHost
import U3.Lemmas.UrlHostCase
/-!
# Re-parsing the string form

`parse_url(u.url) == u` for every `u` a successful http / https parse returns whose host has not the
`zone25` shape of the known finding.  Helper lemmas for `U3.Props.C14` (core Lean only).
-/
namespace U3.Url
open U3

/-! ## `str(port)` and back -/

theorem decNat_append_single (ds : Str) (d : Nat) : decNat (ds ++ [d]) = decNat ds * 10 + (d - 48) := by
  simp [decNat, List.foldl_append]

theorem decDigits_spec (f : Nat) : ∀ (n : Nat) (acc : Str), n ≤ f →
    ∃ ds, decDigits (f + 1) n acc = ds ++ acc ∧ (∀ c ∈ ds, isDigitC c = true) ∧ decNat ds = n ∧ ds ≠ [] ∧
      (ds.head? = some 48 → n = 0) ∧ ∀ k, n < 10 ^ (k + 1) → ds.length ≤ k + 1 := by
  induction f with
  | zero =>
    intro n acc hn
    have : n = 0 := by omega
    subst this
    exact ⟨[48], by simp [decDigits], by simp [isDigitC], by simp [decNat], by simp, fun _ => rfl,
      fun k _ => by simp⟩
  | succ f ih =>
    intro n acc hn
    by_cases h10 : n / 10 = 0
    · refine ⟨[48 + n % 10], by simp [decDigits, h10], ?_, ?_, by simp, ?_, fun k _ => by simp⟩
      · intro c hc
        simp only [List.mem_singleton] at hc
        subst hc
        simp only [isDigitC, Bool.and_eq_true, decide_eq_true_eq]
        omega
      · simp only [decNat, List.foldl_cons, List.foldl_nil]; omega
      · intro h
        simp only [List.head?_cons, Option.some.injEq] at h
        omega
    · obtain ⟨ds, h1, h2, h3, h4, h5, h6⟩ := ih (n / 10) ((48 + n % 10) :: acc) (by omega)
      refine ⟨ds ++ [48 + n % 10], ?_, ?_, ?_, by simp, ?_, ?_⟩
      · rw [decDigits]
        simp only [h10, if_false, h1]
        simp
      · intro c hc
        rcases List.mem_append.mp hc with hc | hc
        · exact h2 c hc
        · simp only [List.mem_singleton] at hc
          subst hc
          simp only [isDigitC, Bool.and_eq_true, decide_eq_true_eq]
          omega
      · rw [decNat_append_single, h3]; omega
      · intro h
        cases ds with
        | nil => exact absurd rfl h4
        | cons d t =>
          simp only [List.cons_append, List.head?_cons, Option.some.injEq] at h
          have := h5 (by simp [h])
          exact absurd this h10
      · intro k hk
        cases k with
        | zero => simp at hk; omega
        | succ k =>
          have : n / 10 < 10 ^ (k + 1) := by
            apply Nat.div_lt_of_lt_mul
            rw [Nat.pow_succ] at hk
            omega
          have := h6 k this
          simp only [List.length_append, List.length_singleton]
          omega

/-- `str(n)`: decimal digits, no leading zero (except `"0"`), value `n`, at most 5 digits below 10⁵ -/
theorem natToDec_spec (n : Nat) :
    (∀ c ∈ natToDec n, isDigitC c = true) ∧ decNat (natToDec n) = n ∧ natToDec n ≠ [] ∧
    ((natToDec n).head? = some 48 → n = 0) ∧ (n < 100000 → (natToDec n).length ≤ 5) := by
  obtain ⟨ds, h1, h2, h3, h4, h5, h6⟩ := decDigits_spec n n [] (Nat.le_refl n)
  have e : natToDec n = ds := by simp [natToDec, h1]
  rw [e]
  exact ⟨h2, h3, h4, h5, fun hn => h6 4 (by simpa using hn)⟩

/-- `_HOST_PORT_RE` reads a rendered port back: `":" + str(p)` gives the capture `str(p)` -/
theorem portPart_natToDec (p : Nat) (hp : p ≤ 65535) :
    portPart (58 :: natToDec p) = some (some (natToDec p)) := by
  obtain ⟨hd, -, hne, h0, hlen⟩ := natToDec_spec p
  simp only [portPart]
  by_cases hz : p = 0
  · subst hz; decide
  · have hhead : (natToDec p).dropWhile (· == 48) = natToDec p := by
      cases hds : natToDec p with
      | nil => rfl
      | cons d t =>
        have : d ≠ 48 := by
          intro e
          rw [hds] at h0
          exact hz (h0 (by simp [e]))
        have hb : (d == 48) = false := by simpa using this
        simp only [List.dropWhile, hb]
    have hall : (natToDec p).all isDigitC = true := by
      rw [List.all_eq_true]; exact hd
    have hl := hlen (by omega)
    have hie : (natToDec p).isEmpty = false := by simpa using hne
    simp [portCapture, hhead, hie, hall, hl]

theorem portToInt_natToDec (p : Nat) (hp : p ≤ 65535) : portToInt (some (natToDec p)) = .ok (some p) := by
  simp [portToInt, (natToDec_spec p).2.1, hp]

/-! ## the scanner and `.`-separated labels -/

theorem hex2_append_sep (k : Nat) (hk : isHexC k = false) (x y : Str) : hex2 (x ++ k :: y) = hex2 x := by
  match x with
  | [] => cases y <;> simp [hex2, hk]
  | [a] => simp [hex2, hk]
  | a :: b :: t => simp [hex2]

theorem tokAux_append_sep (k : Nat) (hk : isHexC k = false) (hk37 : k ≠ 37) (n : Nat) :
    ∀ (x y : Str), x.length ≤ n → tokAux 0 (x ++ k :: y) = tokAux 0 x ++ Tok.chr k :: tokAux 0 y := by
  induction n with
  | zero =>
    intro x y hx
    have : x = [] := by cases x with | nil => rfl | cons _ _ => simp at hx
    subst this
    simp [tokAux, hk37]
  | succ n ih =>
    intro x y hx
    cases x with
    | nil => simp [tokAux, hk37]
    | cons c t =>
      simp only [List.length_cons, Nat.add_le_add_iff_right] at hx
      simp only [List.cons_append, tokAux]
      by_cases hc : c = 37
      · simp only [hc, if_true, hex2_append_sep k hk]
        cases hh : hex2 t with
        | none => simp only; rw [ih t y hx]; simp
        | some ab =>
          obtain ⟨a, b⟩ := ab
          obtain ⟨t', rfl, -, -⟩ := hex2_some hh
          simp only [List.cons_append, tokAux]
          have : t'.length ≤ n := by simp only [List.length_cons] at hx; omega
          rw [ih t' y this]
      · simp only [hc, if_false]
        rw [ih t y hx]; simp

/-- a `.` never takes part in an escape: the scan of `x.y` is the scan of `x`, `.`, the scan of `y` -/
theorem tokenize_append_dot (x y : Str) :
    tokenize (x ++ 46 :: y) = tokenize x ++ Tok.chr 46 :: tokenize y :=
  tokAux_append_sep 46 (by decide) (by decide) x.length x y (Nat.le_refl _)

theorem tokenize_join_all (p : Tok → Bool) (hp : p (.chr 46) = true) (L : List Str)
    (h : ∀ l ∈ L, (tokenize l).all p = true) : (tokenize (joinWith [46] L)).all p = true := by
  induction L with
  | nil => rfl
  | cons x r ih =>
    cases r with
    | nil => simpa [joinWith] using h x (List.mem_cons_self ..)
    | cons y t =>
      simp only [joinWith, List.append_assoc, List.singleton_append]
      rw [tokenize_append_dot, List.all_append, List.all_cons, hp, h x (List.mem_cons_self ..),
        ih (fun l hl => h l (List.mem_cons_of_mem _ hl))]
      rfl

theorem tokenize_split_all (p : Tok → Bool) (x : Str) (h : (tokenize x).all p = true) :
    ∀ l ∈ splitOn1 46 x, (tokenize l).all p = true := by
  have hj := joinWith_splitOn1 46 x
  have hno := splitOn1_no_sep 46 x
  generalize splitOn1 46 x = L at hj hno
  induction L generalizing x with
  | nil => simp
  | cons a r ih =>
    cases r with
    | nil =>
      simp only [joinWith] at hj
      subst hj
      simpa using h
    | cons b t =>
      simp only [joinWith, List.append_assoc, List.singleton_append] at hj
      rw [← hj, tokenize_append_dot, List.all_append, List.all_cons, Bool.and_eq_true, Bool.and_eq_true] at h
      intro l hl
      rcases List.mem_cons.mp hl with rfl | hl
      · exact h.1
      · exact ih (joinWith [46] (b :: t)) h.2.2 rfl (fun q hq => hno q (List.mem_cons_of_mem _ hq)) l hl

/-! ## the host a parse carries can be read back by `_HOST_PORT_RE` -/

theorem regNameTok_lower (t : Tok) : regNameTok t.lower = regNameTok t := by
  cases t with
  | esc a b => rfl
  | chr c =>
    simp only [Tok.lower, regNameTok, regNameChar]
    have e : ∀ k, (k < 65 ∨ (90 < k ∧ k < 97) ∨ 122 < k) → (lowerC c == k) = (c == k) := by
      intro k hk
      rw [Bool.eq_iff_iff]; simp only [beq_iff_eq]; exact lowerC_eq_iff c k hk
    rw [e 91 (by omega), e 93 (by omega), e 37 (by omega), e 58 (by omega), e 47 (by omega), e 63 (by omega),
      e 35 (by omega)]

theorem tokenize_no_pct (r : Str) (h37 : ∀ c ∈ r, c ≠ 37) : tokenize r = r.map Tok.chr := by
  induction r with
  | nil => rfl
  | cons c t ih =>
    have hc := h37 c (List.mem_cons_self ..)
    have := ih (fun x hx => h37 x (List.mem_cons_of_mem _ hx))
    simp only [tokenize] at this ⊢
    simp only [tokAux, hc, if_false, List.map_cons, this]

theorem ldh_tokens {r : Str} (h : ∀ c ∈ r, ldhC c = true) : (tokenize r).all regNameTok = true := by
  have h37 : ∀ c ∈ r, c ≠ 37 := fun c hc => (ldhC_facts (h c hc)).2.2.2.2
  rw [tokenize_no_pct r h37, List.all_map, List.all_eq_true]
  intro c hc
  have hf := h c hc
  simp only [ldhC, isLowerC, isDigitC, Bool.or_eq_true, Bool.and_eq_true, decide_eq_true_eq, beq_iff_eq] at hf
  have : c ≠ 91 ∧ c ≠ 93 ∧ c ≠ 37 ∧ c ≠ 58 ∧ c ≠ 47 ∧ c ≠ 63 ∧ c ≠ 35 := by omega
  simp [regNameTok, regNameChar, this]

/-- the host `_normalize_host` returns for a host text `_HOST_PORT_RE` captured is again such a text -/
theorem normalizeHost_readable {idna : Str → Option Str} (hc : IdnaLdh idna) {sc : Option Str}
    (hs : Normalizable sc) {x h : Str} (hx : regText x = true ∨ ipv6AddrzMatch x = true)
    (hh : normalizeHost idna (some x) sc = .ok (some h)) : regText h = true ∨ ipv6AddrzMatch h = true := by
  by_cases h6 : ipv6AddrzMatch x = true
  · right
    obtain ⟨y, hy, hsh⟩ := normalizeHost_of_literal idna hs h6
    rw [hy] at hh
    simp only [Except.ok.injEq, Option.some.injEq] at hh
    subst hh
    rcases hsh with ⟨-, -, hl⟩ | ⟨-, hz⟩
    · exact hl.1
    · exact hz.1
  · left
    have h6' : ipv6AddrzMatch x = false := by simpa using h6
    have hrx : regText x = true := by
      rcases hx with hx | hx
      · exact hx
      · exact absurd hx h6
    by_cases h4 : ipv4Match x = true
    · have hn := ipv4Match_name h4
      rw [name_fixed idna hs hn] at hh
      simp only [Except.ok.injEq, Option.some.injEq] at hh
      subst hh; exact hrx
    · have h4' : ipv4Match x = false := by simpa using h4
      obtain ⟨hreg, h92, h64, -⟩ := regText_facts hrx
      have hchars := normalizeHost_name_chars hs h6' h4' hh
      have hno : ∀ k, (k < 65 ∨ (90 < k ∧ k < 97) ∨ 122 < k) → k ≠ 46 → ldhC k = false → k ∉ x → k ∉ h := by
        intro k hk h46 hl hkx hkh
        rcases hchars k hkh with e | ⟨y, hy, -, e⟩ | ⟨l, r, hlr, hkr⟩
        · exact h46 e
        · exact hkx (((lowerC_eq_iff y k hk).mp e.symm) ▸ hy)
        · rw [hc l r hlr k hkr] at hl; simp at hl
      have htok : (tokenize h).all regNameTok = true := by
        unfold normalizeHost at hh
        simp only [hs.eq, if_true, h6', h4', Bool.false_eq_true, if_false] at hh
        split at hh
        · simp only [Except.ok.injEq, Option.some.injEq] at hh; subst hh
          rename_i he
          have : x = [] := by simpa using he
          subst this; rfl
        · obtain ⟨ls, hls, h2⟩ := bind_ok hh
          simp only [Except.ok.injEq, Option.some.injEq] at h2
          subst h2
          apply tokenize_join_all regNameTok (by decide)
          intro y hy
          obtain ⟨l, hl, hly⟩ := mapM_ok _ _ _ hls y hy
          have hlt := tokenize_split_all regNameTok x (by rw [List.all_eq_true]; exact hreg) l hl
          unfold idnaEncode at hly
          split at hly
          · simp only [Except.ok.injEq] at hly; subst hly
            rw [tokenize_lower, List.all_map]
            simpa [Function.comp_def, regNameTok_lower] using hlt
          · split at hly
            · rename_i r hr
              simp only [Except.ok.injEq] at hly; subst hly
              exact ldh_tokens (hc l _ hr)
            · simp at hly
      have n92 := hno 92 (by omega) (by omega) (by decide) h92
      have n64 := hno 64 (by omega) (by omega) (by decide) h64
      simp [regText, htok, n92, n64]

theorem rpart_none {c : Nat} {s : Str} (h : rpart c s = none) : c ∉ s := by
  induction s with
  | nil => simp
  | cons x t ih =>
    simp only [rpart] at h
    cases hr : rpart c t with
    | some pr => rw [hr] at h; simp at h
    | none =>
      rw [hr] at h
      simp only at h
      split at h
      · simp at h
      · rename_i hxc
        simp only [List.mem_cons, not_or]
        exact ⟨Ne.symm hxc, ih hr⟩

theorem rpart_some {c : Nat} {s a b : Str} (h : rpart c s = some (a, b)) : s = a ++ c :: b ∧ c ∉ b := by
  induction s generalizing a with
  | nil => simp [rpart] at h
  | cons x t ih =>
    simp only [rpart] at h
    cases hr : rpart c t with
    | some pr =>
      obtain ⟨a', b'⟩ := pr
      rw [hr] at h
      simp only [Option.some.injEq, Prod.mk.injEq] at h
      obtain ⟨rfl, rfl⟩ := h
      obtain ⟨e, hn⟩ := ih hr
      exact ⟨by rw [e]; rfl, hn⟩
    | none =>
      rw [hr] at h
      simp only at h
      split at h
      · rename_i hxc
        simp only [Option.some.injEq, Prod.mk.injEq] at h
        obtain ⟨rfl, rfl⟩ := h
        exact ⟨by rw [hxc]; rfl, rpart_none hr⟩
      · simp at h

/-- the text after the last `@`: free of `@`, made of characters of the whole -/
theorem rpartitionAt_snd (s : Str) : 64 ∉ (rpartitionAt s).2 ∧ ∀ c ∈ (rpartitionAt s).2, c ∈ s := by
  unfold rpartitionAt
  cases hr : rpart 64 s with
  | none => exact ⟨rpart_none hr, fun c hc => hc⟩
  | some pr =>
    obtain ⟨a, b⟩ := pr
    obtain ⟨e, hn⟩ := rpart_some hr
    exact ⟨hn, fun c hc => by rw [e]; simp [hc]⟩

/-- `_HOST_PORT_RE` on a text without backslash and `@` captures a reg-name text or a matched literal -/
theorem hostPortRe_readable {hp h : Str} {p : Option Str} (hm : hostPortRe hp = some (h, p))
    (h92 : 92 ∉ hp) (h64 : 64 ∉ hp) : regText h = true ∨ ipv6AddrzMatch h = true := by
  unfold hostPortRe at hm
  simp only at hm
  split at hm
  · simp only [Option.some.injEq, Prod.mk.injEq] at hm
    left
    have hjoin : renderToks ((tokenize hp).takeWhile regNameTok) ++
        renderToks ((tokenize hp).dropWhile regNameTok) = hp := by
      rw [← render_append, List.takeWhile_append_dropWhile, render_tokenize]
    have hrun : ∀ t ∈ (tokenize hp).takeWhile regNameTok, regNameTok t = true := fun t ht => mem_takeWhile_tok ht
    have hok : ∀ t ∈ (tokenize hp).takeWhile regNameTok, t.ok = true :=
      fun t ht => tokenize_ok hp t ((List.takeWhile_prefix _).subset ht)
    have hsub : ∀ c ∈ h, c ∈ hp := by
      intro c hc
      rw [← hjoin]
      rw [← hm.1] at hc
      exact List.mem_append_left _ hc
    have htok : tokenize h = (tokenize hp).takeWhile regNameTok := by
      rw [← hm.1]
      exact tokenize_render _ (fun t ht => regNameTok_stable (hok t ht) (hrun t ht))
    have n92 : 92 ∉ h := fun e => h92 (hsub 92 e)
    have n64 : 64 ∉ h := fun e => h64 (hsub 64 e)
    simp only [regText, htok, Bool.and_eq_true, List.all_eq_true, Bool.not_eq_true', List.contains_eq_mem,
      decide_eq_false_iff_not]
    exact ⟨⟨hrun, n92⟩, n64⟩
  · right
    rcases hostPortRe_host (hp := hp) (h := h) (p := p) (by
      unfold hostPortRe; simp only; rename_i hnone; rw [hnone]; exact hm) with h91 | h6
    · -- the bracket alternative always captures a text starting with `[`
      exfalso
      unfold hostPortBracket at hm
      split at hm
      · simp only at hm
        split at hm
        · split at hm
          · cases hpp : portPart _ with
            | none => rw [hpp] at hm; simp at hm
            | some q =>
              rw [hpp] at hm
              simp only [Option.map_some, Option.some.injEq, Prod.mk.injEq] at hm
              exact h91 (by rw [← hm.1]; exact List.mem_cons_self ..)
          · simp at hm
        · simp at hm
      · simp at hm
    · exact h6

/-! ## what a successful http / https parse returns -/

/-- the facts about a parsed `Url` the round trip needs -/
structure Parsed (sch : Str) (u : Url) : Prop where
  scheme : u.scheme = some sch
  auth_nf : ∀ a, u.auth = some a → a ≠ [] ∧ NormalForm Gen.userinfoChars a
  host_none : u.host = none → u.auth = none ∧ u.port = none
  host_ok : ∀ h, u.host = some h → (regText h = true ∨ ipv6AddrzMatch h = true) ∧
      (h = [] → u.auth.isSome = true ∨ u.port.isSome = true)
  port_le : ∀ p, u.port = some p → p ≤ 65535
  path_ok : ∀ p, u.path = some p → (p = [] ∧ (u.query.isSome = true ∨ u.fragment.isSome = true)) ∨
      (p.head? = some 47 ∧ NormalForm Gen.pathChars p ∧ CleanJoin p)
  path_none : u.path = none → u.query = none ∧ u.fragment = none
  query_nf : ∀ q, u.query = some q → NormalForm Gen.queryChars q
  frag_nf : ∀ f, u.fragment = some f → NormalForm Gen.fragmentChars f

theorem splitAuthority_chars {s a : Str} (h : (splitAuthority s).1 = some a) : ∀ c ∈ a, authChar c = true := by
  unfold splitAuthority at h
  split at h
  · simp only [Option.some.injEq] at h
    subst h
    exact fun c hc => mem_takeWhile_p hc
  · simp at h

theorem authChar_92 {a : Str} (h : ∀ c ∈ a, authChar c = true) : 92 ∉ a := by
  intro e
  have := h 92 e
  simp [authChar] at this

theorem finalPath_head {pa : Str} (hne : pa ≠ []) : (finalPath pa).head? = some 47 := by
  unfold finalPath
  have hie : pa.isEmpty = false := by simpa using hne
  by_cases hh : pa.head? = some 47
  · simp [hie, hh]
  · simp [hie, hh]

theorem parsed_of_parse {idna : Str → Option Str} (hc : IdnaLdh idna) (hne : ∀ l r, idna l = some r → r ≠ [])
    {s : Str} {u : Url} (h : parseUrlWith idna s = .ok u) {sch : Str} (hs : u.scheme = some sch)
    (hsch : sch = [104, 116, 116, 112] ∨ sch = [104, 116, 116, 112, 115]) : Parsed sch u := by
  have hnorm : Normalizable u.scheme := by
    rw [hs]; rcases hsch with rfl | rfl <;> (unfold Normalizable; decide)
  have hempty := empty_host_has_port_or_userinfo idna hne s u h
  have hhostread : ∀ x, u.host = some x → regText x = true ∨ ipv6AddrzMatch x = true := by
    intro x hx
    rcases parseUrlWith_ok' h with rfl | ⟨sc, au, ho, po, pa, q, f, hcore, rfl⟩
    · simp only [parseUrlWith, List.isEmpty_nil, if_true, Except.ok.injEq] at h
      subst h; simp [Url.empty] at hx
    · obtain ⟨h0, port, hsc, hpa, -, hhost⟩ := parseCore_ok' hcore
      have hscl : sc.map lower = sc := by
        rw [hsc]; cases (splitScheme (if schemeRe s = true then s else 47 :: 47 :: s)).1 <;> simp
      simp only [mkUrl, hscl] at hx hnorm
      subst hx
      generalize hauthy : (splitAuthority (splitScheme (if schemeRe s = true then s else 47 :: 47 :: s)).2).1 = authy at hpa
      cases authy with
      | none =>
        simp only [parseAuthority, Except.ok.injEq, Prod.mk.injEq] at hpa
        obtain ⟨-, rfl, -⟩ := hpa
        simp [normalizeHost] at hhost
      | some a =>
        unfold parseAuthority at hpa
        simp only at hpa
        split at hpa
        · simp only [Except.ok.injEq, Prod.mk.injEq] at hpa
          obtain ⟨-, rfl, -⟩ := hpa
          simp [normalizeHost] at hhost
        · split at hpa
          · simp at hpa
          · rename_i hx pp hre
            simp only [Except.ok.injEq, Prod.mk.injEq] at hpa
            obtain ⟨-, hh0, -⟩ := hpa
            rcases ite_none_some hh0 with ⟨-, rfl⟩ | ⟨-, rfl⟩
            · simp [normalizeHost] at hhost
            · have hach := splitAuthority_chars hauthy
              have hsnd := rpartitionAt_snd a
              have h92 : 92 ∉ (rpartitionAt a).2 := fun e => authChar_92 hach (hsnd.2 92 e)
              exact normalizeHost_readable hc hnorm (hostPortRe_readable hre h92 hsnd.1) hhost
  rcases parseUrlWith_ok' h with rfl | ⟨sc, au, ho, po, pa, q, f, hcore, rfl⟩
  · simp only [parseUrlWith, List.isEmpty_nil, if_true, Except.ok.injEq] at h
    subst h; simp [Url.empty] at hs
  · obtain ⟨sc0, authority, p0, q0, f0, h0, port, hsc, hauth, hport, hhost, hpa, hq, hf⟩ := parseCore_ok hcore
    have hn : normalizeUriOf sc0 = true := by
      apply normalizeUriOf_of_scheme
      rw [← hsc]
      have : (mkUrl sc au ho po (if pa.isEmpty then (if q.isSome || f.isSome then some [] else none) else some pa)
          q f).scheme = sc.map lower := rfl
      rw [this] at hs
      rw [hs]
      rcases hsch with rfl | rfl <;> simp
    rw [hn] at hauth hpa hq hf
    refine ⟨hs, ?_, ?_, ?_, ?_, ?_, ?_, ?_, ?_⟩
    · intro a ha
      have ha' : au = some a := by simpa [mkUrl] using ha
      refine ⟨?_, parseAuthority_auth_normal hauth a ha'⟩
      -- the userinfo is the encoding of a non-empty text
      unfold parseAuthority at hauth
      split at hauth
      · simp only [Except.ok.injEq, Prod.mk.injEq] at hauth
        rw [← hauth.1] at ha'; simp at ha'
      · split at hauth
        · simp only [Except.ok.injEq, Prod.mk.injEq] at hauth
          rw [← hauth.1] at ha'; simp at ha'
        · simp only at hauth
          split at hauth
          · simp at hauth
          · simp only [Except.ok.injEq, Prod.mk.injEq, if_true] at hauth
            rw [← hauth.1] at ha'
            split at ha'
            · simp at ha'
            · rename_i hnem
              simp only [Option.some.injEq] at ha'
              rw [← ha']
              exact encode_ne_nil _ (by simpa using hnem)
    · intro hnone
      have hho : ho = none := by simpa [mkUrl] using hnone
      subst hho
      have h0n : h0 = none := by
        cases h0 with
        | none => rfl
        | some x => obtain ⟨y, hy⟩ := normalizeHost_some hhost; simp at hy
      subst h0n
      simp only [mkUrl]
      unfold parseAuthority at hauth
      split at hauth
      · simp only [Except.ok.injEq, Prod.mk.injEq] at hauth
        obtain ⟨rfl, -, rfl⟩ := hauth
        simp only [portToInt, Except.ok.injEq] at hport
        exact ⟨rfl, hport.symm⟩
      · split at hauth
        · simp only [Except.ok.injEq, Prod.mk.injEq] at hauth
          obtain ⟨rfl, -, rfl⟩ := hauth
          simp only [portToInt, Except.ok.injEq] at hport
          exact ⟨rfl, hport.symm⟩
        · simp only at hauth
          split at hauth
          · simp at hauth
          · simp only [Except.ok.injEq, Prod.mk.injEq] at hauth
            obtain ⟨rfl, hh0, rfl⟩ := hauth
            rcases ite_none_some hh0 with ⟨hcnd, -⟩ | ⟨-, e⟩
            · simp only [Bool.and_eq_true, Option.isNone_iff_eq_none] at hcnd
              rw [hcnd.1.2] at hport
              simp only [portToInt, Except.ok.injEq] at hport
              exact ⟨hcnd.1.1, hport.symm⟩
            · simp at e
    · intro x hx
      exact ⟨hhostread x hx, fun e => hempty (by rw [hx, e])⟩
    · intro p hp
      exact portToInt_ok hport p (by simpa [mkUrl] using hp)
    · intro x hx
      by_cases hpe : pa.isEmpty = true
      · left
        have : pa = [] := by simpa using hpe
        subst this
        simp only [mkUrl, List.isEmpty_nil, if_true] at hx ⊢
        by_cases hqf : (q.isSome || f.isSome) = true
        · simp only [hqf, if_true] at hx
          simp only [List.isEmpty_nil, Bool.not_true, Bool.false_and, Bool.false_eq_true, if_false,
            Option.some.injEq] at hx
          exact ⟨hx.symm, by simpa using hqf⟩
        · simp [hqf] at hx
      · right
        have hpne : pa ≠ [] := by simpa using hpe
        have e := mkUrl_path hx
        rw [e]
        refine ⟨finalPath_head hpne, ?_, ?_⟩
        · have hpn : NormalForm Gen.pathChars pa := hpa ▸ normPath_normal p0
          unfold finalPath
          split
          · exact normalForm_cons _ 47 _ (by decide) hpn
          · exact hpn
        · rw [hpa]; exact finalPath_clean p0
    · intro hnone
      simp only [mkUrl] at hnone ⊢
      by_cases hpe : pa.isEmpty = true
      · simp only [hpe, if_true] at hnone
        by_cases hqf : (q.isSome || f.isSome) = true
        · simp [hqf] at hnone
        · simp only [Bool.or_eq_true, not_or, Bool.not_eq_true, Option.isSome_eq_false_iff,
            Option.isNone_iff_eq_none] at hqf
          exact hqf
      · simp only [hpe, Bool.false_eq_true, if_false] at hnone
        split at hnone <;> simp at hnone
    · intro x hx
      exact normOpt_normal encSet_query x (by rw [← hq]; simpa [mkUrl] using hx)
    · intro x hx
      exact normOpt_normal encSet_fragment x (by rw [← hf]; simpa [mkUrl] using hx)

/-! ## the string form, cut where `_URI_RE` cuts it -/

/-- `[userinfo@]host[:port]` as `Url.url` writes it -/
def authText (u : Url) : Str :=
  (match u.auth with | some a => a ++ [64] | none => []) ++
  ((match u.host with | some h => h | none => []) ++
   (match u.port with | some p => 58 :: natToDec p | none => []))

/-- `path[?query][#fragment]` as `Url.url` writes it -/
def tailText (u : Url) : Str :=
  (match u.path with | some p => p | none => []) ++
  ((match u.query with | some q => 63 :: q | none => []) ++
   (match u.fragment with | some f => 35 :: f | none => []))

theorem render_eq (u : Url) {sch : Str} (hs : u.scheme = some sch) :
    u.render = sch ++ 58 :: 47 :: 47 :: (authText u ++ tailText u) := by
  simp only [Url.render, hs, authText, tailText, List.append_assoc, List.cons_append, List.nil_append]
  cases u.auth <;> cases u.host <;> cases u.port <;> cases u.path <;> cases u.query <;> cases u.fragment <;> rfl

theorem normalForm_not_mem {A : List Nat} {z : Str} (k : Nat) (hkA : mem A k = false) (hk37 : k ≠ 37)
    (hkh : isHexUp k = false) (h : NormalForm A z) : k ∉ z := by
  obtain ⟨ts, hg, rfl⟩ := h
  simp only [renderToks, List.mem_flatMap, not_exists, not_and]
  intro t ht
  have := hg t ht
  cases t with
  | chr d =>
    simp only [Tok.good, Bool.and_eq_true] at this
    simp only [Tok.text, List.mem_singleton]
    intro e; subst e
    rw [hkA] at this; simp at this
  | esc a b =>
    simp only [Tok.good, Bool.and_eq_true] at this
    simp only [Tok.text, List.mem_cons, List.not_mem_nil, or_false, not_or]
    refine ⟨hk37, ?_, ?_⟩
    · intro e; subst e; rw [this.1] at hkh; simp at hkh
    · intro e; subst e; rw [this.2] at hkh; simp at hkh

theorem rpart_none_of_not_mem' (c : Nat) (s : Str) (h : c ∉ s) : rpart c s = none := by
  induction s with
  | nil => rfl
  | cons x t ih =>
    have hx : x ≠ c := fun e => h (e ▸ List.mem_cons_self ..)
    have ht := ih (fun hm => h (List.mem_cons_of_mem _ hm))
    simp [rpart, ht, hx]

theorem rpart_append' (c : Nat) (a X : Str) (h : c ∉ X) : rpart c (a ++ c :: X) = some (a, X) := by
  induction a with
  | nil => simp [rpart, rpart_none_of_not_mem' c X h]
  | cons x t ih => simp [rpart, ih]

theorem digits_auth {d : Str} (h : ∀ c ∈ d, isDigitC c = true) : ∀ c ∈ d, authChar c = true ∧ c ≠ 64 := by
  intro c hc
  exact hexC_auth (Or.inl (digit_hex (h c hc)))

theorem readable_auth {h : Str} (hh : regText h = true ∨ ipv6AddrzMatch h = true) :
    ∀ c ∈ h, authChar c = true ∧ c ≠ 64 := by
  rcases hh with hr | hl
  · intro c hc
    refine ⟨regText_authChar hr c hc, ?_⟩
    intro e; subst e
    exact (regText_facts hr).2.2.1 hc
  · exact literal_auth hl

theorem userinfo_auth {a : Str} (h : NormalForm Gen.userinfoChars a) : ∀ c ∈ a, authChar c = true := by
  intro c hc
  apply authChar_of_ne
  refine ⟨?_, ?_, ?_, ?_⟩ <;> (intro e; subst e; revert hc)
  · exact normalForm_not_mem 92 (by decide) (by decide) (by decide) h
  · exact normalForm_not_mem 47 (by decide) (by decide) (by decide) h
  · exact normalForm_not_mem 63 (by decide) (by decide) (by decide) h
  · exact normalForm_not_mem 35 (by decide) (by decide) (by decide) h

/-- `host[:port]` as written: free of `@`, all authority characters -/
theorem hostPort_chars {sch : Str} {u : Url} (hp : Parsed sch u) :
    ∀ c ∈ ((match u.host with | some h => h | none => []) ++
      (match u.port with | some p => 58 :: natToDec p | none => [])), authChar c = true ∧ c ≠ 64 := by
  intro c hc
  rcases List.mem_append.mp hc with hc | hc
  · cases hh : u.host with
    | none => rw [hh] at hc; simp at hc
    | some h => rw [hh] at hc; exact readable_auth (hp.host_ok h hh).1 c hc
  · cases hpo : u.port with
    | none => rw [hpo] at hc; simp at hc
    | some p =>
      rw [hpo] at hc
      rcases List.mem_cons.mp hc with rfl | hc
      · decide
      · exact digits_auth (natToDec_spec p).1 c hc

theorem authText_chars {sch : Str} {u : Url} (hp : Parsed sch u) : ∀ c ∈ authText u, authChar c = true := by
  intro c hc
  unfold authText at hc
  rcases List.mem_append.mp hc with hc | hc
  · cases ha : u.auth with
    | none => rw [ha] at hc; simp at hc
    | some a =>
      rw [ha] at hc
      rcases List.mem_append.mp hc with hc | hc
      · exact userinfo_auth (hp.auth_nf a ha).2 c hc
      · simp only [List.mem_singleton] at hc; subst hc; decide
  · exact (hostPort_chars hp c hc).1

/-- the text after the authority is empty or starts with `/`, `?` or `#` -/
theorem tailText_head {sch : Str} {u : Url} (hp : Parsed sch u) :
    tailText u = [] ∨ ∃ c t, tailText u = c :: t ∧ authChar c = false := by
  unfold tailText
  cases hpa : u.path with
  | some p =>
    rcases hp.path_ok p hpa with ⟨rfl, -⟩ | ⟨hh, -, -⟩
    · cases hq : u.query with
      | some q => exact Or.inr ⟨63, _, rfl, by decide⟩
      | none =>
        cases hf : u.fragment with
        | some f => exact Or.inr ⟨35, _, rfl, by decide⟩
        | none => exact Or.inl rfl
    · cases p with
      | nil => simp at hh
      | cons c t =>
        simp only [List.head?_cons, Option.some.injEq] at hh
        subst hh
        exact Or.inr ⟨47, _, rfl, by decide⟩
  | none =>
    obtain ⟨hq, hf⟩ := hp.path_none hpa
    rw [hq, hf]; exact Or.inl rfl

theorem splitAuthority_render {sch : Str} {u : Url} (hp : Parsed sch u) :
    splitAuthority (47 :: 47 :: (authText u ++ tailText u)) = (some (authText u), tailText u) := by
  have hall := authText_chars hp
  simp only [splitAuthority]
  rcases tailText_head hp with e | ⟨c, t, e, hc⟩
  · rw [e, List.append_nil, (takeWhile_all _ hall).1, (takeWhile_all _ hall).2]
  · rw [e, (takeWhile_append_stop _ c t hall hc).1, (takeWhile_append_stop _ c t hall hc).2]

theorem splitPQF_render {sch : Str} {u : Url} (hp : Parsed sch u) :
    splitPQF (tailText u) = (u.path.getD [], u.query, u.fragment) := by
  have hpath : ∀ c ∈ u.path.getD [], pathChar c = true := by
    intro c hc
    cases hpa : u.path with
    | none => rw [hpa] at hc; simp at hc
    | some p =>
      rw [hpa] at hc
      simp only [Option.getD_some] at hc
      rcases hp.path_ok p hpa with ⟨rfl, -⟩ | ⟨-, hnf, -⟩
      · simp at hc
      · have n63 := normalForm_not_mem 63 (by decide) (by decide) (by decide) hnf
        have n35 := normalForm_not_mem 35 (by decide) (by decide) (by decide) hnf
        have : c ≠ 63 ∧ c ≠ 35 := ⟨fun e => n63 (e ▸ hc), fun e => n35 (e ▸ hc)⟩
        simp [pathChar, this]
  have hquery : ∀ q, u.query = some q → ∀ c ∈ q, queryChar c = true := by
    intro q hq c hc
    have n35 := normalForm_not_mem 35 (by decide) (by decide) (by decide) (hp.query_nf q hq)
    have : c ≠ 35 := fun e => n35 (e ▸ hc)
    simp [queryChar, this]
  have e0 : tailText u = u.path.getD [] ++
      ((match u.query with | some q => 63 :: q | none => []) ++
       (match u.fragment with | some f => 35 :: f | none => [])) := by
    unfold tailText; cases u.path <;> rfl
  rw [e0]
  generalize u.path.getD [] = P at hpath
  unfold splitPQF
  cases hq : u.query with
  | some q =>
    have s1 := takeWhile_append_stop P 63 (q ++ (match u.fragment with | some f => 35 :: f | none => []))
      hpath (by decide)
    simp only [List.cons_append, s1.1, s1.2]
    have hqc := hquery q hq
    cases hf : u.fragment with
    | some f =>
      have s2 := takeWhile_append_stop q 35 f hqc (by decide)
      simp only [s2.1, s2.2]
    | none =>
      simp only [List.append_nil, (takeWhile_all q hqc).1, (takeWhile_all q hqc).2]
  | none =>
    cases hf : u.fragment with
    | some f =>
      have s1 := takeWhile_append_stop P 35 f hpath (by decide)
      simp only [List.nil_append, s1.1, s1.2]
    | none =>
      simp only [List.append_nil, (takeWhile_all P hpath).1, (takeWhile_all P hpath).2]

/-! ## reading the authority back -/

theorem hostPortRe_readable_text {h : Str} (hh : regText h = true ∨ ipv6AddrzMatch h = true) (A : Str)
    (hA : A = [] ∨ ∃ t, A = 58 :: t) : hostPortRe (h ++ A) = (portPart A).map (fun p => (h, p)) := by
  rcases hh with hr | hl
  · exact hostPortRe_regText hr A hA
  · exact hostPortRe_literal hl A

/-- the `if authority:` block on the written authority gives the components back -/
theorem parseAuthority_render {sch : Str} {u : Url} (hp : Parsed sch u) :
    parseAuthority true (some (authText u)) = .ok (u.auth, u.host, u.port.map natToDec) := by
  cases hh : u.host with
  | none =>
    obtain ⟨ha, hpo⟩ := hp.host_none hh
    simp [authText, hh, ha, hpo, parseAuthority]
  | some h =>
    obtain ⟨hread, hemp⟩ := hp.host_ok h hh
    -- the port text
    have hA : ∀ A, A = (match u.port with | some p => 58 :: natToDec p | none => []) →
        (A = [] ∨ ∃ t, A = 58 :: t) ∧ portPart A = some (u.port.map natToDec) := by
      intro A e
      cases hpo : u.port with
      | none => rw [hpo] at e; subst e; exact ⟨Or.inl rfl, rfl⟩
      | some p =>
        rw [hpo] at e; subst e
        exact ⟨Or.inr ⟨_, rfl⟩, portPart_natToDec p (hp.port_le p hpo)⟩
    have h64 : 64 ∉ h ++ (match u.port with | some p => 58 :: natToDec p | none => []) := by
      intro e
      have := hostPort_chars hp 64 (by rw [hh]; exact e)
      exact this.2 rfl
    generalize hAdef : (match u.port with | some p => 58 :: natToDec p | none => []) = A at h64
    obtain ⟨hAform, hAport⟩ := hA A hAdef.symm
    have hre : hostPortRe (h ++ A) = some (h, u.port.map natToDec) := by
      rw [hostPortRe_readable_text hread A hAform, hAport]; rfl
    have hportne : ∀ d, u.port.map natToDec = some d → d.isEmpty = false := by
      intro d hd
      cases hpo : u.port with
      | none => rw [hpo] at hd; simp at hd
      | some p =>
        rw [hpo] at hd
        simp only [Option.map_some, Option.some.injEq] at hd
        subst hd
        simpa using (natToDec_spec p).2.2.1
    cases ha : u.auth with
    | none =>
      have hne : (h ++ A).isEmpty = false := by
        cases h with
        | cons _ _ => rfl
        | nil =>
          have := hemp rfl
          rw [ha] at this
          simp only [Option.isSome_none, Bool.false_eq_true, false_or] at this
          cases hpo : u.port with
          | none => rw [hpo] at this; simp at this
          | some p => rw [hpo] at hAdef; rw [← hAdef]; rfl
      have hrp : rpartitionAt (h ++ A) = ([], h ++ A) := by
        simp [rpartitionAt, rpart_none_of_not_mem' 64 _ h64]
      have hhost : (if ((none : Option Str).isNone && (u.port.map natToDec).isNone && h.isEmpty) = true
          then none else some h) = some h := by
        by_cases he : h = []
        · have := hemp he
          rw [ha] at this
          simp only [Option.isSome_none, Bool.false_eq_true, false_or] at this
          cases hpo : u.port with
          | none => rw [hpo] at this; simp at this
          | some p => simp
        · have : h.isEmpty = false := by simpa using he
          simp [this]
      unfold parseAuthority
      simp only [authText, ha, hh, List.nil_append, hAdef, hne, Bool.false_eq_true, if_false, hrp, hre,
        List.isEmpty_nil, if_true]
      cases hD : u.port.map natToDec with
      | none =>
        rw [hD] at hhost
        simp only [Option.isNone_none, Bool.true_and] at hhost ⊢
        rw [hhost]
      | some d =>
        simp [hportne d hD]
    | some a =>
      obtain ⟨hane, hanf⟩ := hp.auth_nf a ha
      have hne : (a ++ [64] ++ (h ++ A)).isEmpty = false := by cases a <;> rfl
      have hrp : rpartitionAt (a ++ [64] ++ (h ++ A)) = (a, h ++ A) := by
        have : a ++ [64] ++ (h ++ A) = a ++ 64 :: (h ++ A) := by simp
        rw [this]
        simp [rpartitionAt, rpart_append' 64 a _ h64]
      have hae : a.isEmpty = false := by simpa using hane
      unfold parseAuthority
      simp only [authText, ha, hh, hAdef, hne, Bool.false_eq_true, if_false, hrp, hre, hae, if_true,
        encode_keeps' encSet_userinfo hanf, Option.isNone_some, Bool.false_and]
      cases hD : u.port.map natToDec with
      | none => rfl
      | some d => simp [hportne d hD]

/-! ## the round trip -/

theorem front_render (sch : Str) (hsch : sch = [104, 116, 116, 112] ∨ sch = [104, 116, 116, 112, 115]) (R : Str) :
    schemeRe (sch ++ 58 :: R) = true ∧ splitScheme (sch ++ 58 :: R) = (some sch, R) ∧ lower sch = sch ∧
    normalizeUriOf (some sch) = true ∧ (sch ++ 58 :: R).isEmpty = false := by
  rcases hsch with rfl | rfl
  · exact ⟨rfl, rfl, rfl, by decide, rfl⟩
  · exact ⟨rfl, rfl, rfl, by decide, rfl⟩

theorem normPath_fixed {p : Str} (h : p = [] ∨ (NormalForm Gen.pathChars p ∧ CleanJoin p)) :
    normPath true p = p := by
  rcases h with rfl | ⟨hn, hcj⟩
  · rfl
  · unfold normPath
    split
    · rw [cleanJoin_fixed hcj, encode_keeps' encSet_path hn]
    · rfl

theorem normOpt_fixed {A : List Nat} (hA : EncSet A) {q : Option Str} (h : ∀ x, q = some x → NormalForm A x) :
    normOpt true A q = q := by
  cases q with
  | none => rfl
  | some x =>
    unfold normOpt
    simp only
    split
    · rw [encode_keeps' hA (h x rfl)]
    · rfl

theorem portToInt_render {sch : Str} {u : Url} (hp : Parsed sch u) :
    portToInt (u.port.map natToDec) = .ok u.port := by
  cases hpo : u.port with
  | none => rfl
  | some p => exact portToInt_natToDec p (hp.port_le p hpo)

theorem parseCore_render {idna : Str → Option Str} {sch : Str}
    (hsch : sch = [104, 116, 116, 112] ∨ sch = [104, 116, 116, 112, 115]) {u : Url} (hp : Parsed sch u)
    (hfix : ∀ h, u.host = some h → normalizeHost idna (some h) (some sch) = .ok (some h)) :
    parseCore idna (sch ++ 58 :: 47 :: 47 :: (authText u ++ tailText u)) =
      .ok (some sch, u.auth, u.host, u.port, u.path.getD [], u.query, u.fragment) := by
  obtain ⟨f1, f2, f3, f4, -⟩ := front_render sch hsch (47 :: 47 :: (authText u ++ tailText u))
  have hnh : normalizeHost idna u.host (some sch) = .ok u.host := by
    cases hh : u.host with
    | none => rfl
    | some h => exact hfix h hh
  have hpath : normPath true (u.path.getD []) = u.path.getD [] := by
    apply normPath_fixed
    cases hpa : u.path with
    | none => exact Or.inl rfl
    | some p =>
      rcases hp.path_ok p hpa with ⟨rfl, -⟩ | ⟨-, h1, h2⟩
      · exact Or.inl rfl
      · exact Or.inr ⟨h1, h2⟩
  unfold parseCore
  simp only [f1, if_true, f2, splitAuthority_render hp, splitPQF_render hp, f4, parseAuthority_render hp,
    Option.map_some, f3, bind, Except.bind, portToInt_render hp, hnh, pure, Except.pure, hpath,
    normOpt_fixed encSet_query hp.query_nf, normOpt_fixed encSet_fragment hp.frag_nf]

/-- **Re-parsing the string form gives the same `Url`**, for every `Url` with the properties of a
parsed http / https URL (`Parsed`) whose host is a fixed point of `_normalize_host` -/
theorem reparse_of_parsed {idna : Str → Option Str} {sch : Str}
    (hsch : sch = [104, 116, 116, 112] ∨ sch = [104, 116, 116, 112, 115]) {u : Url} (hp : Parsed sch u)
    (hfix : ∀ h, u.host = some h → normalizeHost idna (some h) (some sch) = .ok (some h)) :
    parseUrlWith idna u.render = .ok u := by
  obtain ⟨-, -, f3, -, f5⟩ := front_render sch hsch (47 :: 47 :: (authText u ++ tailText u))
  rw [render_eq u hp.scheme]
  unfold parseUrlWith
  rw [f5]
  simp only [Bool.false_eq_true, if_false, parseCore_render hsch hp hfix, funnel]
  -- what `Url.__new__` makes of the components is `u` itself
  obtain ⟨sc, au, ho, po, pa, q, f⟩ := u
  have hs := hp.scheme
  have hpo := hp.path_ok
  have hpn := hp.path_none
  simp only at hs hpo hpn
  subst hs
  simp only [mkUrl, Option.map_some, f3, Except.ok.injEq, Url.mk.injEq, true_and]
  cases pa with
  | none =>
    obtain ⟨rfl, rfl⟩ := hpn rfl
    simp
  | some p =>
    rcases hpo p rfl with ⟨rfl, hqf⟩ | ⟨hh, -, -⟩
    · have : (q.isSome || f.isSome) = true := by simpa using hqf
      simp [this]
    · cases p with
      | nil => simp at hh
      | cons c t =>
        simp only [List.head?_cons, Option.some.injEq] at hh
        subst hh
        simp

/-- **`parse_url(parse_url(s).url) == parse_url(s)`** for every http / https parse whose host has not
the `zone25` shape of the known finding.  Contracts on the IDNA oracle: `IdnaLdh`, no empty answer. -/
theorem reparse {idna : Str → Option Str} (hc : IdnaLdh idna) (hne : ∀ l r, idna l = some r → r ≠ [])
    {s : Str} {u : Url} (h : parseUrlWith idna s = .ok u) {sch : Str} (hs : u.scheme = some sch)
    (hsch : sch = [104, 116, 116, 112] ∨ sch = [104, 116, 116, 112, 115])
    (h25 : ∀ x, u.host = some x → zone25 x = false) : parseUrlWith idna u.render = .ok u := by
  have hnorm : Normalizable u.scheme := by
    rw [hs]; rcases hsch with rfl | rfl <;> (unfold Normalizable; decide)
  apply reparse_of_parsed hsch (parsed_of_parse hc hne h hs hsch)
  intro x hx
  have := parsed_host_fixed hc h hnorm hx (h25 x hx)
  rw [hs] at this
  exact this

end U3.Url
