import U3.Model.Headers
/-! Helper lemmas for C16 (refinement of the grouped representation to the flat line list). -/
set_option linter.unusedSimpArgs false
namespace U3.Headers
open U3

def Inv (h : HD) : Prop :=
  (h.map (·.key)).Nodup ∧ ∀ e ∈ h, e.key = lower e.name ∧ e.vals ≠ []

def lines (e : Entry) : Flat := e.vals.map (fun v => (e.name, v))

theorem iteritems_cons (e : Entry) (t : HD) : iteritems (e :: t) = lines e ++ iteritems t := by
  simp [iteritems, lines]

@[simp] theorem iteritems_nil : iteritems [] = [] := rfl

theorem Inv.tail {e : Entry} {t : HD} (h : Inv (e :: t)) : Inv t := by
  obtain ⟨hnd, hall⟩ := h
  simp only [List.map_cons, List.nodup_cons] at hnd
  exact ⟨hnd.2, fun e' he' => hall e' (List.mem_cons_of_mem _ he')⟩

theorem Inv.head {e : Entry} {t : HD} (h : Inv (e :: t)) : e.key = lower e.name ∧ e.vals ≠ [] :=
  h.2 e List.mem_cons_self

theorem Inv.head_notin {e : Entry} {t : HD} (h : Inv (e :: t)) : e.key ∉ t.map (·.key) := by
  have := h.1
  simp only [List.map_cons, List.nodup_cons] at this
  exact this.1

theorem inv_nil : Inv [] := ⟨by simp, by simp⟩

/-- no line of the flat view of `h` has the (lower-cased) name `lk` when `lk` is not a key -/
theorem fHas_iteritems_of_not_mem (h : HD) (k : Str) (hinv : ∀ e ∈ h, e.key = lower e.name)
    (hk : lower k ∉ h.map (·.key)) : fHas (iteritems h) k = false := by
  induction h with
  | nil => simp [fHas]
  | cons e t ih =>
    simp only [List.map_cons, List.mem_cons, not_or] at hk
    have ht := ih (fun e he => hinv e (List.mem_cons_of_mem _ he)) hk.2
    have he := hinv e List.mem_cons_self
    rw [iteritems_cons]
    simp only [fHas, List.any_append, Bool.or_eq_false_iff] at ht ⊢
    refine ⟨?_, ht⟩
    simp only [lines, List.any_map, List.any_eq_false, Function.comp, beq_iff_eq]
    intro v _ hh
    exact hk.1 (by rw [he]; exact hh.symm)

theorem fHas_lines (e : Entry) (k : Str) (hne : e.vals ≠ []) :
    fHas (lines e) k = (lower e.name == lower k) := by
  cases hv : e.vals with
  | nil => exact absurd hv hne
  | cons a t =>
    simp only [fHas, lines, hv, List.map_cons, List.any_cons, List.any_map]
    by_cases h : lower e.name = lower k
    · simp [h]
    · simp [h, Function.comp_def]

theorem fHas_append (a b : Flat) (k : Str) : fHas (a ++ b) k = (fHas a k || fHas b k) := by
  simp [fHas]

/-- `hasKey` is a function of the flat view -/
theorem hasKey_eq_fHas (h : HD) (k : Str) (hinv : Inv h) : hasKey h k = fHas (iteritems h) k := by
  induction h with
  | nil => simp [hasKey, fHas]
  | cons e t ih =>
    have ht := ih hinv.tail
    have he := hinv.head
    rw [iteritems_cons, fHas_append, fHas_lines e k he.2, ← ht]
    simp only [hasKey, List.any_cons]
    rw [he.1]

/-! ### add -/

theorem specAdd_block (n : Str) (vs : List Str) (hne : vs ≠ []) (rest : Flat) (k v : Str)
    (hn : lower n = lower k) (hrest : fHas rest k = false) :
    specAdd (vs.map (fun x => (n, x)) ++ rest) k v = (vs ++ [v]).map (fun x => (n, x)) ++ rest := by
  induction vs with
  | nil => exact absurd rfl hne
  | cons a t ih =>
    cases t with
    | nil => simp [specAdd, hn, hrest]
    | cons b t' =>
      have := ih (by simp)
      simp only [List.map_cons, List.cons_append, specAdd, hn, ↓reduceIte] at this ⊢
      have hk : fHas ((n, b) :: (List.map (fun x => (n, x)) t' ++ rest)) k = true := by
        simp [fHas, hn]
      rw [hk]; simp only [↓reduceIte]
      rw [this]

theorem specAdd_skip (n : Str) (vs : List Str) (rest : Flat) (k v : Str) (hn : lower n ≠ lower k) :
    specAdd (vs.map (fun x => (n, x)) ++ rest) k v = vs.map (fun x => (n, x)) ++ specAdd rest k v := by
  induction vs with
  | nil => simp
  | cons a t ih => simp [specAdd, hn, ih]

theorem add_refines (h : HD) (k v : Str) (hinv : Inv h) :
    iteritems (add h k v false) = specAdd (iteritems h) k v := by
  induction h with
  | nil => simp [add, iteritems, specAdd]
  | cons e t ih =>
    have he := hinv.head
    unfold add
    split
    · rename_i hk
      rw [iteritems_cons, iteritems_cons]
      have hrest : fHas (iteritems t) k = false :=
        fHas_iteritems_of_not_mem t k (fun e' he' => (hinv.tail.2 e' he').1) (by rw [← hk]; exact hinv.head_notin)
      have := specAdd_block e.name e.vals he.2 (iteritems t) k v (by rw [← he.1]; exact hk) hrest
      simpa [lines] using this.symm
    · rename_i hk
      rw [iteritems_cons, iteritems_cons, ih hinv.tail]
      have := specAdd_skip e.name e.vals (iteritems t) k v (by rw [← he.1]; exact hk)
      simpa [lines] using this.symm

/-! ### add with combine -/

theorem modLast_map (n : Str) (f : Str → Str) (vs : List Str) :
    (modLast f vs).map (fun x => (n, x)) =
      match vs.map (fun x => (n, x)) with
      | [] => []
      | l => l.dropLast ++ [(n, f (vs.getLast?.getD []))] := by
  induction vs with
  | nil => simp [modLast]
  | cons a t ih =>
    cases t with
    | nil => simp [modLast]
    | cons b t' =>
      simp only [modLast, List.map_cons] at ih ⊢
      rw [ih]
      simp [List.dropLast]

theorem specAddC_block (n : Str) (vs : List Str) (hne : vs ≠ []) (rest : Flat) (k v : Str)
    (hn : lower n = lower k) (hrest : fHas rest k = false) :
    specAddC (vs.map (fun x => (n, x)) ++ rest) k v =
      (modLast (fun x => x ++ commaSp ++ v) vs).map (fun x => (n, x)) ++ rest := by
  induction vs with
  | nil => exact absurd rfl hne
  | cons a t ih =>
    cases t with
    | nil => simp [specAddC, hn, hrest, modLast]
    | cons b t' =>
      have := ih (by simp)
      simp only [List.map_cons, List.cons_append, specAddC, hn, ↓reduceIte, modLast] at this ⊢
      have hk : fHas ((n, b) :: (List.map (fun x => (n, x)) t' ++ rest)) k = true := by
        simp [fHas, hn]
      rw [hk]; simp only [↓reduceIte]
      rw [this]

theorem specAddC_skip (n : Str) (vs : List Str) (rest : Flat) (k v : Str) (hn : lower n ≠ lower k) :
    specAddC (vs.map (fun x => (n, x)) ++ rest) k v = vs.map (fun x => (n, x)) ++ specAddC rest k v := by
  induction vs with
  | nil => simp
  | cons a t ih => simp [specAddC, hn, ih]

theorem addC_refines (h : HD) (k v : Str) (hinv : Inv h) :
    iteritems (add h k v true) = specAddC (iteritems h) k v := by
  induction h with
  | nil => simp [add, iteritems, specAddC]
  | cons e t ih =>
    have he := hinv.head
    unfold add
    split
    · rename_i hk
      rw [iteritems_cons, iteritems_cons]
      have hrest : fHas (iteritems t) k = false :=
        fHas_iteritems_of_not_mem t k (fun e' he' => (hinv.tail.2 e' he').1) (by rw [← hk]; exact hinv.head_notin)
      have := specAddC_block e.name e.vals he.2 (iteritems t) k v (by rw [← he.1]; exact hk) hrest
      simpa [lines] using this.symm
    · rename_i hk
      rw [iteritems_cons, iteritems_cons, ih hinv.tail]
      have := specAddC_skip e.name e.vals (iteritems t) k v (by rw [← he.1]; exact hk)
      simpa [lines] using this.symm

/-! ### assignment -/

theorem filter_not_lines_same (e : Entry) (k : Str) (hn : lower e.name = lower k) :
    (lines e).filter (fun q => !(lower q.1 == lower k)) = [] := by
  simp [lines, List.filter_eq_nil_iff, hn]

theorem filter_not_lines_other (e : Entry) (k : Str) (hn : lower e.name ≠ lower k) :
    (lines e).filter (fun q => !(lower q.1 == lower k)) = lines e := by
  simp [lines, List.filter_eq_self, hn]

theorem filter_not_of_fHas_false (f : Flat) (k : Str) (h : fHas f k = false) :
    f.filter (fun q => !(lower q.1 == lower k)) = f := by
  simp only [fHas, List.any_eq_false, beq_iff_eq] at h
  simp only [List.filter_eq_self, Bool.not_eq_true', beq_eq_false_iff_ne, ne_eq]
  intro a ha; exact h a ha

theorem specSet_skip (n : Str) (vs : List Str) (rest : Flat) (k v : Str) (hn : lower n ≠ lower k) :
    specSet (vs.map (fun x => (n, x)) ++ rest) k v = vs.map (fun x => (n, x)) ++ specSet rest k v := by
  induction vs with
  | nil => simp
  | cons a t ih => simp [specSet, hn, ih]

theorem specSet_block (n : Str) (vs : List Str) (hne : vs ≠ []) (rest : Flat) (k v : Str)
    (hn : lower n = lower k) (hrest : fHas rest k = false) :
    specSet (vs.map (fun x => (n, x)) ++ rest) k v = (k, v) :: rest := by
  cases vs with
  | nil => exact absurd rfl hne
  | cons a t =>
    simp only [List.map_cons, List.cons_append, specSet, hn, ↓reduceIte, List.filter_append]
    rw [filter_not_of_fHas_false rest k hrest]
    have : (List.map (fun x => (n, x)) t).filter (fun q => !(lower q.1 == lower k)) = [] := by
      simp [List.filter_eq_nil_iff, hn]
    rw [this]; rfl

theorem set_refines (h : HD) (k v : Str) (hinv : Inv h) :
    iteritems (setItem h k v) = specSet (iteritems h) k v := by
  induction h with
  | nil => simp [setItem, iteritems, specSet]
  | cons e t ih =>
    have he := hinv.head
    unfold setItem
    split
    · rename_i hk
      rw [iteritems_cons, iteritems_cons]
      have hrest : fHas (iteritems t) k = false :=
        fHas_iteritems_of_not_mem t k (fun e' he' => (hinv.tail.2 e' he').1) (by rw [← hk]; exact hinv.head_notin)
      have := specSet_block e.name e.vals he.2 (iteritems t) k v (by rw [← he.1]; exact hk) hrest
      simpa [lines] using this.symm
    · rename_i hk
      rw [iteritems_cons, iteritems_cons, ih hinv.tail]
      have := specSet_skip e.name e.vals (iteritems t) k v (by rw [← he.1]; exact hk)
      simpa [lines] using this.symm

/-! ### deletion -/

theorem iteritems_filter (h : HD) (k : Str) (hinv : ∀ e ∈ h, e.key = lower e.name) :
    iteritems (h.filter (fun e => !(e.key == lower k))) =
      (iteritems h).filter (fun q => !(lower q.1 == lower k)) := by
  induction h with
  | nil => simp
  | cons e t ih =>
    have he := hinv e List.mem_cons_self
    have iht := ih (fun e' he' => hinv e' (List.mem_cons_of_mem _ he'))
    rw [iteritems_cons, List.filter_append, ← iht]
    by_cases hk : e.key = lower k
    · have : (e :: t).filter (fun e => !(e.key == lower k)) = t.filter (fun e => !(e.key == lower k)) := by
        simp [List.filter_cons, hk]
      rw [this, filter_not_lines_same e k (by rw [← he]; exact hk)]; simp
    · have : (e :: t).filter (fun e => !(e.key == lower k)) = e :: t.filter (fun e => !(e.key == lower k)) := by
        simp [List.filter_cons, hk]
      rw [this, iteritems_cons, filter_not_lines_other e k (by rw [← he]; exact hk)]

theorem del_refines (h : HD) (k : Str) (hinv : Inv h) :
    (delItem h k).map iteritems = specDel (iteritems h) k := by
  unfold delItem specDel
  rw [hasKey_eq_fHas h k hinv]
  split
  · simp only [Option.map_some]
    rw [iteritems_filter h k (fun e he => (hinv.2 e he).1)]
  · rfl

/-! ### observations are functions of the flat view -/

theorem getlist_cons (e : Entry) (t : HD) (k : Str) :
    getlist (e :: t) k = if e.key = lower k then e.vals else getlist t k := by
  unfold getlist lookup
  by_cases hk : e.key = lower k <;> simp [List.find?_cons, hk]

theorem specGetlist_append (a b : Flat) (k : Str) :
    specGetlist (a ++ b) k = specGetlist a k ++ specGetlist b k := by
  simp [specGetlist]

theorem specGetlist_lines_same (e : Entry) (k : Str) (hn : lower e.name = lower k) :
    specGetlist (lines e) k = e.vals := by
  simp [specGetlist, lines, List.filter_map, Function.comp_def, hn]

theorem specGetlist_lines_other (e : Entry) (k : Str) (hn : lower e.name ≠ lower k) :
    specGetlist (lines e) k = [] := by
  simp [specGetlist, lines, List.filter_map, Function.comp_def, hn]

theorem specGetlist_of_fHas_false (f : Flat) (k : Str) (h : fHas f k = false) : specGetlist f k = [] := by
  simp only [fHas, List.any_eq_false, beq_iff_eq] at h
  simp only [specGetlist, List.map_eq_nil_iff, List.filter_eq_nil_iff, beq_iff_eq]
  intro a ha; exact h a ha

theorem getlist_refines (h : HD) (k : Str) (hinv : Inv h) :
    getlist h k = specGetlist (iteritems h) k := by
  induction h with
  | nil => simp [getlist, lookup, specGetlist]
  | cons e t ih =>
    have he := hinv.head
    rw [getlist_cons, iteritems_cons, specGetlist_append]
    split
    · rename_i hk
      have hrest : fHas (iteritems t) k = false :=
        fHas_iteritems_of_not_mem t k (fun e' he' => (hinv.tail.2 e' he').1) (by rw [← hk]; exact hinv.head_notin)
      rw [specGetlist_lines_same e k (by rw [← he.1]; exact hk), specGetlist_of_fHas_false _ _ hrest]; simp
    · rename_i hk
      rw [specGetlist_lines_other e k (by rw [← he.1]; exact hk), ih hinv.tail]; simp

/-! ### the invariant is preserved -/

theorem setItem_keys (h : HD) (k v : Str) :
    (setItem h k v).map (·.key) = if lower k ∈ h.map (·.key) then h.map (·.key) else h.map (·.key) ++ [lower k] := by
  induction h with
  | nil => simp [setItem]
  | cons e t ih =>
    unfold setItem
    by_cases hk : e.key = lower k
    · simp [hk]
    · simp only [hk, ↓reduceIte, List.map_cons, ih, List.mem_cons]
      have : ¬ lower k = e.key := fun h => hk h.symm
      by_cases hm : lower k ∈ t.map (·.key) <;> simp [hm, this]

theorem setItem_mem (h : HD) (k v : Str) (e : Entry) (he : e ∈ setItem h k v) :
    e ∈ h ∨ e = ⟨lower k, k, [v]⟩ := by
  induction h with
  | nil => simp [setItem] at he; exact Or.inr he
  | cons a t ih =>
    unfold setItem at he
    split at he
    · simp only [List.mem_cons] at he
      rcases he with he | he
      · exact Or.inr he
      · exact Or.inl (List.mem_cons_of_mem _ he)
    · simp only [List.mem_cons] at he
      rcases he with he | he
      · exact Or.inl (by simp [he])
      · rcases ih he with h1 | h1
        · exact Or.inl (List.mem_cons_of_mem _ h1)
        · exact Or.inr h1

theorem nodup_append_singleton {α} [DecidableEq α] (l : List α) (a : α) (h : l.Nodup) (ha : a ∉ l) :
    (l ++ [a]).Nodup := by
  rw [List.nodup_append]
  refine ⟨h, by simp, ?_⟩
  intro x hx y hy
  simp only [List.mem_singleton] at hy
  subst hy
  intro hxy; subst hxy; exact ha hx

theorem setItem_inv (h : HD) (k v : Str) (hinv : Inv h) : Inv (setItem h k v) := by
  refine ⟨?_, ?_⟩
  · rw [setItem_keys]
    split
    · exact hinv.1
    · rename_i hk; exact nodup_append_singleton _ _ hinv.1 hk
  · intro e he
    rcases setItem_mem h k v e he with h1 | h1
    · exact hinv.2 e h1
    · subst h1; simp

theorem add_keys (h : HD) (k v : Str) (c : Bool) :
    (add h k v c).map (·.key) = if lower k ∈ h.map (·.key) then h.map (·.key) else h.map (·.key) ++ [lower k] := by
  induction h with
  | nil => simp [add]
  | cons e t ih =>
    unfold add
    by_cases hk : e.key = lower k
    · cases c <;> simp [hk]
    · simp only [hk, ↓reduceIte, List.map_cons, ih, List.mem_cons]
      have : ¬ lower k = e.key := fun h => hk h.symm
      by_cases hm : lower k ∈ t.map (·.key) <;> simp [hm, this]

theorem modLast_ne_nil (f : Str → Str) (l : List Str) (h : l ≠ []) : modLast f l ≠ [] := by
  match l with
  | [] => exact absurd rfl h
  | [x] => simp [modLast]
  | x :: y :: t => simp [modLast]

theorem add_mem (h : HD) (k v : Str) (c : Bool) (e : Entry) (he : e ∈ add h k v c) :
    e ∈ h ∨ e = ⟨lower k, k, [v]⟩ ∨
      ∃ e0 ∈ h, e.key = e0.key ∧ e.name = e0.name ∧ (e0.vals ≠ [] → e.vals ≠ []) := by
  induction h with
  | nil => simp [add] at he; exact Or.inr (Or.inl he)
  | cons a t ih =>
    unfold add at he
    split at he
    · simp only [List.mem_cons] at he
      rcases he with he | he
      · refine Or.inr (Or.inr ⟨a, List.mem_cons_self, ?_⟩)
        cases c
        · simp at he; subst he; simp
        · simp at he; subst he; exact ⟨rfl, rfl, fun hne => modLast_ne_nil _ _ hne⟩
      · exact Or.inl (List.mem_cons_of_mem _ he)
    · simp only [List.mem_cons] at he
      rcases he with he | he
      · exact Or.inl (by simp [he])
      · rcases ih he with h1 | h1 | ⟨e0, h0, h1⟩
        · exact Or.inl (List.mem_cons_of_mem _ h1)
        · exact Or.inr (Or.inl h1)
        · exact Or.inr (Or.inr ⟨e0, List.mem_cons_of_mem _ h0, h1⟩)

theorem add_inv (h : HD) (k v : Str) (c : Bool) (hinv : Inv h) : Inv (add h k v c) := by
  refine ⟨?_, ?_⟩
  · rw [add_keys]
    split
    · exact hinv.1
    · rename_i hk; exact nodup_append_singleton _ _ hinv.1 hk
  · intro e he
    rcases add_mem h k v c e he with h1 | h1 | ⟨e0, h0, hk, hn, hv⟩
    · exact hinv.2 e h1
    · subst h1; simp
    · have := hinv.2 e0 h0
      exact ⟨by rw [hk, hn]; exact this.1, hv this.2⟩

theorem filter_inv (h : HD) (p : Entry → Bool) (hinv : Inv h) : Inv (h.filter p) := by
  refine ⟨?_, fun e he => hinv.2 e (List.mem_filter.mp he).1⟩
  have : (h.filter p).map (·.key) = ((h.filter p).map (·.key)) := rfl
  exact (List.Nodup.sublist ((List.filter_sublist).map _) hinv.1)

theorem delItem_inv (h h' : HD) (k : Str) (hinv : Inv h) (hd : delItem h k = some h') : Inv h' := by
  unfold delItem at hd
  split at hd
  · simp at hd; subst hd; exact filter_inv h _ hinv
  · simp at hd

theorem discard_inv (h : HD) (k : Str) (hinv : Inv h) : Inv (discard h k) := by
  unfold discard
  cases hd : delItem h k with
  | none => simpa using hinv
  | some h' => simpa using delItem_inv h h' k hinv hd

theorem extend_inv (ps : List (Str × Str)) (h : HD) (hinv : Inv h) : Inv (extend h ps) := by
  unfold extend
  induction ps generalizing h with
  | nil => simpa
  | cons p t ih => simp only [List.foldl_cons]; exact ih _ (add_inv h p.1 p.2 false hinv)

theorem update_inv (ps : List (Str × Str)) (h : HD) (hinv : Inv h) : Inv (update h ps) := by
  unfold update
  induction ps generalizing h with
  | nil => simpa
  | cons p t ih => simp only [List.foldl_cons]; exact ih _ (setItem_inv h p.1 p.2 hinv)

theorem pmc_inv (h : HD) (hinv : Inv h) : Inv (prepareForMethodChange h) := by
  unfold prepareForMethodChange
  generalize contentSpecific = l
  induction l generalizing h with
  | nil => simpa
  | cons p t ih => simp only [List.foldl_cons]; exact ih _ (discard_inv h p hinv)

/-- folded refinement: `extend` is the fold of the reference `add` -/
theorem extend_refines (ps : List (Str × Str)) (h : HD) (hinv : Inv h) :
    iteritems (extend h ps) = ps.foldl (fun f p => specAdd f p.1 p.2) (iteritems h) := by
  unfold extend
  induction ps generalizing h with
  | nil => simp
  | cons p t ih =>
    simp only [List.foldl_cons]
    rw [ih _ (add_inv h p.1 p.2 false hinv), add_refines h p.1 p.2 hinv]

theorem update_refines (ps : List (Str × Str)) (h : HD) (hinv : Inv h) :
    iteritems (update h ps) = ps.foldl (fun f p => specSet f p.1 p.2) (iteritems h) := by
  unfold update
  induction ps generalizing h with
  | nil => simp
  | cons p t ih =>
    simp only [List.foldl_cons]
    rw [ih _ (setItem_inv h p.1 p.2 hinv), set_refines h p.1 p.2 hinv]

/-! ### frame lemmas on the reference: lines of other names stay in place and in order -/

theorem specAdd_frame (f : Flat) (k v : Str) : (specAdd f k v).filter (other k) = f.filter (other k) := by
  induction f with
  | nil => simp [specAdd, other]
  | cons p t ih =>
    unfold specAdd
    split
    · rename_i hp
      split
      · simp [List.filter_cons, ih]
      · simp [List.filter_cons, other, hp]
    · simp [List.filter_cons, ih]

theorem specAddC_frame (f : Flat) (k v : Str) : (specAddC f k v).filter (other k) = f.filter (other k) := by
  induction f with
  | nil => simp [specAddC, other]
  | cons p t ih =>
    unfold specAddC
    split
    · rename_i hp
      split
      · simp [List.filter_cons, ih]
      · simp [List.filter_cons, other, hp]
    · simp [List.filter_cons, ih]

theorem specSet_frame (f : Flat) (k v : Str) : (specSet f k v).filter (other k) = f.filter (other k) := by
  induction f with
  | nil => simp [specSet, other]
  | cons p t ih =>
    unfold specSet
    split
    · rename_i hp
      simp only [List.filter_cons, other, hp, beq_self_eq_true, Bool.not_true, Bool.false_eq_true, ↓reduceIte, List.filter_filter]
      congr 1; funext q; simp [other]
    · simp [List.filter_cons, ih]

/-- what `specAdd` does to the lines of the name itself: one more value at the end -/
theorem specAdd_getlist (f : Flat) (k v : Str) : specGetlist (specAdd f k v) k = specGetlist f k ++ [v] := by
  induction f with
  | nil => simp [specAdd, specGetlist]
  | cons p t ih =>
    unfold specAdd
    split
    · rename_i hp
      split
      · simp only [specGetlist, List.filter_cons, hp, beq_self_eq_true, ↓reduceIte, List.map_cons, List.cons_append] at ih ⊢
        rw [ih]
      · rename_i hh
        have ht : specGetlist t k = [] := specGetlist_of_fHas_false t k (by simpa using hh)
        simp only [specGetlist] at ht
        simp [specGetlist, List.filter_cons, hp, ht]
    · rename_i hp
      simp only [specGetlist, List.filter_cons, hp, beq_iff_eq, ↓reduceIte] at ih ⊢
      exact ih

theorem specSet_getlist (f : Flat) (k v : Str) : specGetlist (specSet f k v) k = [v] := by
  induction f with
  | nil => simp [specSet, specGetlist]
  | cons p t ih =>
    unfold specSet
    split
    · simp [specGetlist, List.filter_cons, List.filter_filter]
    · rename_i hp
      simp only [specGetlist, List.filter_cons, hp, beq_iff_eq, ↓reduceIte] at ih ⊢
      exact ih

/-! ### lookups, copy, merged view -/

theorem lookup_of_mem (h : HD) (hinv : Inv h) (e : Entry) (he : e ∈ h) : lookup h e.key = some e := by
  induction h with
  | nil => simp at he
  | cons a t ih =>
    simp only [List.mem_cons] at he
    unfold lookup
    rcases he with he | he
    · subst he; simp
    · have hne : ¬ a.key = e.key := by
        intro heq
        exact hinv.head_notin (by rw [heq]; exact List.mem_map_of_mem he)
      have hb : (a.key == e.key) = false := by simpa using hne
      simp only [List.find?_cons, hb]
      exact ih hinv.tail he

theorem getlist_of_mem (h : HD) (hinv : Inv h) (e : Entry) (he : e ∈ h) : getlist h e.name = e.vals := by
  unfold getlist
  rw [← (hinv.2 e he).1, lookup_of_mem h hinv e he]

theorem lookup_none_of_not_mem (h : HD) (lk : Str) (hk : lk ∉ h.map (·.key)) : lookup h lk = none := by
  unfold lookup
  simp only [List.find?_eq_none, beq_iff_eq]
  intro e he heq
  exact hk (by rw [← heq]; exact List.mem_map_of_mem he)

theorem lookup_some_key (h : HD) (lk : Str) (e : Entry) (hl : lookup h lk = some e) : e.key = lk ∧ e ∈ h := by
  unfold lookup at hl
  have := List.find?_some hl
  exact ⟨by simpa using this, List.mem_of_find?_eq_some hl⟩

theorem hasKey_iff (h : HD) (k : Str) : hasKey h k = true ↔ lower k ∈ h.map (·.key) := by
  unfold hasKey
  rw [List.any_eq_true, List.mem_map]
  constructor
  · rintro ⟨e, he, hk⟩; exact ⟨e, he, by simpa using hk⟩
  · rintro ⟨e, he, hk⟩; exact ⟨e, he, by simpa using hk⟩

theorem getItem_eq (h : HD) (k : Str) :
    getItem h k = if hasKey h k then some (merged (getlist h k)) else none := by
  unfold getItem getlist
  cases hl : lookup h (lower k) with
  | none =>
    have : hasKey h k = false := by
      rw [Bool.eq_false_iff]; intro hk
      rw [hasKey_iff] at hk
      obtain ⟨e, he, hke⟩ := List.mem_map.mp hk
      unfold lookup at hl
      simp only [List.find?_eq_none, beq_iff_eq] at hl
      exact hl e he hke
    simp [this]
  | some e =>
    have := lookup_some_key h _ e hl
    have hk : hasKey h k = true := by
      rw [hasKey_iff, ← this.1]; exact List.mem_map_of_mem this.2
    simp [hk]

theorem getItem_refines (h : HD) (k : Str) (hinv : Inv h) : getItem h k = specGet (iteritems h) k := by
  rw [getItem_eq, hasKey_eq_fHas h k hinv, getlist_refines h k hinv]; rfl

theorem discard_refines (h : HD) (k : Str) (hinv : Inv h) :
    iteritems (discard h k) = specDiscard (iteritems h) k := by
  unfold discard delItem specDiscard
  rw [hasKey_eq_fHas h k hinv]
  split
  · rename_i hk
    simp only [Option.getD_some]
    exact iteritems_filter h k (fun e he => (hinv.2 e he).1)
  · rename_i hk
    simp only [Option.getD_none]
    exact (filter_not_of_fHas_false _ k (by simpa using hk)).symm

theorem copyFrom_step (other : HD) (hinv : Inv other) (pre suf : HD) (hsplit : other = pre ++ suf) :
    suf.foldl (fun acc e =>
      let ent : Entry := ⟨lower e.name, e.name, getlist other e.name⟩
      if acc.any (fun x => x.key == ent.key) then acc.map (fun x => if x.key == ent.key then ent else x)
      else acc ++ [ent]) pre = pre ++ suf := by
  induction suf generalizing pre with
  | nil => simp
  | cons e t ih =>
    have hmem : e ∈ other := by rw [hsplit]; simp
    have hk := (hinv.2 e hmem).1
    have hv := getlist_of_mem other hinv e hmem
    have hnot : (pre.any fun x => x.key == lower e.name) = false := by
      rw [List.any_eq_false]
      intro x hx
      simp only [beq_iff_eq]
      intro heq
      have hnd := hinv.1
      rw [hsplit, List.map_append, List.nodup_append] at hnd
      exact hnd.2.2 x.key (List.mem_map_of_mem hx) e.key (by simp) (by rw [heq, hk])
    simp only [List.foldl_cons, hnot, Bool.false_eq_true, ↓reduceIte, hv]
    have : (⟨lower e.name, e.name, e.vals⟩ : Entry) = e := by
      cases e; simp_all
    rw [this]
    have := ih (pre ++ [e]) (by rw [hsplit]; simp)
    simpa using this

theorem copy_eq (h : HD) (hinv : Inv h) : copy h = h := by
  unfold copy copyFrom
  have := copyFrom_step h hinv [] h (by simp)
  simpa using this

theorem specNamesAux_skip (seen : List Str) (n : Str) (vs : List Str) (rest : Flat)
    (hs : seen.contains (lower n) = true) :
    specNamesAux seen (vs.map (fun x => (n, x)) ++ rest) = specNamesAux seen rest := by
  induction vs with
  | nil => simp
  | cons a t ih =>
    simp only [List.map_cons, List.cons_append, specNamesAux, hs, ↓reduceIte]
    exact ih

theorem specNames_refines_aux (h : HD) (hinv : Inv h) (seen : List Str)
    (hdis : ∀ k ∈ h.map (·.key), k ∉ seen) : specNamesAux seen (iteritems h) = iterKeys h := by
  induction h generalizing seen with
  | nil => simp [specNamesAux, iterKeys]
  | cons e t ih =>
    have he := hinv.head
    rw [iteritems_cons]
    cases hv : e.vals with
    | nil => exact absurd hv he.2
    | cons a vs =>
      have hns : seen.contains (lower e.name) = false := by
        rw [← he.1]
        have := hdis e.key (by simp)
        simpa using this
      simp only [lines, hv, List.map_cons, List.cons_append, specNamesAux, hns, Bool.false_eq_true, ↓reduceIte, iterKeys]
      rw [specNamesAux_skip _ e.name vs _ (by simp)]
      congr 1
      apply ih hinv.tail
      intro k hk
      simp only [List.mem_cons, not_or]
      refine ⟨?_, hdis k (by simp [hk])⟩
      intro heq
      exact hinv.head_notin (by rw [he.1, ← heq]; exact hk)

theorem itermerged_refines (h : HD) (hinv : Inv h) : itermerged h = specMerged (iteritems h) := by
  unfold specMerged specNames
  rw [specNames_refines_aux h hinv [] (by simp)]
  unfold itermerged iterKeys
  rw [List.map_map]
  apply List.map_congr_left
  intro e he
  simp only [Function.comp]
  rw [← getlist_refines h e.name hinv, getlist_of_mem h hinv e he]

theorem iteritems_eq_nil (h : HD) (hinv : Inv h) : iteritems h = [] ↔ h = [] := by
  cases h with
  | nil => simp
  | cons e t =>
    have he := hinv.head
    rw [iteritems_cons]
    cases hv : e.vals with
    | nil => exact absurd hv he.2
    | cons a vs => simp [lines, hv]

theorem iteritems_head (e : Entry) (t : HD) (hinv : Inv (e :: t)) :
    ∃ v rest, iteritems (e :: t) = (e.name, v) :: rest := by
  have he := hinv.head
  rw [iteritems_cons]
  cases hv : e.vals with
  | nil => exact absurd hv he.2
  | cons a vs => exact ⟨a, vs.map (fun v => (e.name, v)) ++ iteritems t, by simp [lines, hv]⟩

theorem pop_refines (h : HD) (k : Str) (hinv : Inv h) :
    (pop h k).map (fun r => (iteritems r.1, r.2)) = specPop (iteritems h) k := by
  unfold pop specPop
  rw [getItem_refines h k hinv]
  cases hg : specGet (iteritems h) k with
  | none => simp
  | some v =>
    have hk : hasKey h k = true := by
      rw [hasKey_eq_fHas h k hinv]
      unfold specGet at hg
      split at hg
      · assumption
      · simp at hg
    have hd : delItem h k = some (discard h k) := by
      unfold discard delItem; simp [hk]
    rw [hd]
    simp [discard_refines h k hinv]

theorem pop_inv (h h' : HD) (k v : Str) (hinv : Inv h) (hp : pop h k = some (h', v)) : Inv h' := by
  unfold pop at hp
  split at hp
  · rename_i hd; simp at hp; rw [← hp.1]; exact delItem_inv h _ k hinv (by assumption)
  · simp at hp

theorem setdefault_inv (h : HD) (k d : Str) (hinv : Inv h) : Inv (setdefault h k d).1 := by
  unfold setdefault
  split
  · exact hinv
  · exact setItem_inv h k d hinv

theorem popitem_inv (h h' : HD) (k v : Str) (hinv : Inv h) (hp : popitem h = some (h', k, v)) : Inv h' := by
  unfold popitem at hp
  split at hp
  · simp at hp
  · split at hp
    · rename_i hpop
      simp at hp
      rw [← hp.1]
      exact pop_inv _ _ _ _ hinv hpop
    · simp at hp

end U3.Headers
