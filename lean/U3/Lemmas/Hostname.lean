import U3.Model.Hostname
/-! Helper lemmas for `U3/Props/C08.lean`. -/
namespace U3.Hostname
open U3

instance instDecEqExcept {ε α} [DecidableEq ε] [DecidableEq α] : DecidableEq (Except ε α)
  | .ok a, .ok b => if h : a = b then isTrue (by rw [h]) else isFalse (by intro h'; cases h'; exact h rfl)
  | .error a, .error b => if h : a = b then isTrue (by rw [h]) else isFalse (by intro h'; cases h'; exact h rfl)
  | .ok _, .error _ => isFalse (by intro h; cases h)
  | .error _, .ok _ => isFalse (by intro h; cases h)

/-! ### ASCII lower-casing never creates or destroys a `*` or a `.` -/

theorem lowerC_eq_star {c : Nat} : lowerC c = star ↔ c = star := by
  unfold lowerC star; split <;> omega

theorem lowerC_eq_dot {c : Nat} : lowerC c = dot ↔ c = dot := by
  unfold lowerC dot; split <;> omega

theorem star_mem_lower {s : Str} : star ∈ lower s ↔ star ∈ s := by
  induction s with
  | nil => simp [lower]
  | cons a t ih =>
    simp only [lower, List.map_cons, List.mem_cons] at ih ⊢
    rw [ih, eq_comm, lowerC_eq_star, eq_comm]

theorem dot_mem_lower {s : Str} : dot ∈ lower s ↔ dot ∈ s := by
  induction s with
  | nil => simp [lower]
  | cons a t ih =>
    simp only [lower, List.map_cons, List.mem_cons] at ih ⊢
    rw [ih, eq_comm, lowerC_eq_dot, eq_comm]

theorem star_mem_of_lower_eq {s t : Str} (h : lower s = lower t) (hs : star ∈ s) : star ∈ t := by
  rw [← star_mem_lower] at hs ⊢; rwa [← h]

theorem dot_notin_of_lower_eq {s t : Str} (h : lower s = lower t) (hs : dot ∉ s) : dot ∉ t := by
  rw [← dot_mem_lower] at hs ⊢; rwa [← h]

/-! ### `split(".")` / `".".join` -/

theorem mem_of_mem_splitOn1 {c x : Nat} {s l : List Nat} (hl : l ∈ splitOn1 c s) (hx : x ∈ l) : x ∈ s := by
  induction s generalizing l with
  | nil => simp [splitOn1] at hl; subst hl; simp at hx
  | cons a t ih =>
    unfold splitOn1 at hl
    split at hl
    · rcases List.mem_cons.1 hl with h | h
      · subst h; simp at hx
      · exact List.mem_cons_of_mem _ (ih h hx)
    · split at hl
      · simp at hl; subst hl; simp at hx; subst hx; simp
      · rename_i p ps hp
        rcases List.mem_cons.1 hl with h | h
        · subst h
          rcases List.mem_cons.1 hx with h' | h'
          · subst h'; simp
          · exact List.mem_cons_of_mem _ (ih (by rw [hp]; simp) h')
        · exact List.mem_cons_of_mem _ (ih (by rw [hp]; simp [h]) hx)

theorem sep_notin_of_mem_splitOn1 {c : Nat} {s l : List Nat} (hl : l ∈ splitOn1 c s) : c ∉ l := by
  induction s generalizing l with
  | nil => simp [splitOn1] at hl; subst hl; simp
  | cons a t ih =>
    unfold splitOn1 at hl
    split at hl
    · rcases List.mem_cons.1 hl with h | h
      · subst h; simp
      · exact ih h
    · rename_i hne
      split at hl
      · simp at hl; subst hl; simp; exact fun h => hne h.symm
      · rename_i p ps hp
        rcases List.mem_cons.1 hl with h | h
        · subst h
          intro hc
          rcases List.mem_cons.1 hc with h' | h'
          · exact hne h'.symm
          · exact ih (by rw [hp]; simp) h'
        · exact ih (by rw [hp]; simp [h])

/-- splitting a dot-free label followed by `.` and more text -/
theorem splitOn1_append_sep {c : Nat} (l t : List Nat) (hl : c ∉ l) :
    splitOn1 c (l ++ c :: t) = l :: splitOn1 c t := by
  induction l with
  | nil => simp [splitOn1]
  | cons a l ih =>
    have ha : a ≠ c := fun h => hl (by simp [h])
    have hl' : c ∉ l := fun h => hl (List.mem_cons_of_mem _ h)
    simp only [List.cons_append]
    rw [splitOn1, if_neg ha, ih hl']

theorem splitOn1_of_notin {c : Nat} (l : List Nat) (hl : c ∉ l) : splitOn1 c l = [l] := by
  induction l with
  | nil => simp [splitOn1]
  | cons a l ih =>
    have ha : a ≠ c := fun h => hl (by simp [h])
    have hl' : c ∉ l := fun h => hl (List.mem_cons_of_mem _ h)
    rw [splitOn1, if_neg ha, ih hl']

/-- `".".join(labels).split(".") == labels` for dot-free labels -/
theorem splitOn1_join (ls : List Str) (hne : ls ≠ []) (hd : ∀ l ∈ ls, dot ∉ l) :
    splitOn1 dot (joinWith [dot] ls) = ls := by
  induction ls with
  | nil => exact absurd rfl hne
  | cons a t ih =>
    cases t with
    | nil => simpa [joinWith] using splitOn1_of_notin a (hd a (by simp))
    | cons b t' =>
      have h1 : joinWith [dot] (a :: b :: t') = a ++ dot :: joinWith [dot] (b :: t') := by
        simp [joinWith]
      rw [h1, splitOn1_append_sep a _ (hd a (by simp)), ih (by simp) (fun l hl => hd l (List.mem_cons_of_mem _ hl))]

theorem joinWith_cons_ne_nil (a : Str) (t : List Str) (ha : a ≠ []) : joinWith [dot] (a :: t) ≠ [] := by
  cases t with
  | nil => simpa [joinWith] using ha
  | cons b t' => simp [joinWith, ha]

/-- number of stars of a string = sum over its labels -/
theorem count_star_split (s : Str) :
    s.count star = ((splitOn1 dot s).map (List.count star)).sum := by
  induction s with
  | nil => simp [splitOn1]
  | cons a t ih =>
    unfold splitOn1
    split
    · rename_i h; subst h
      rw [List.count_cons_of_ne (by decide)]
      simpa using ih
    · split
      · rename_i h; exact absurd h (splitOn1_ne_nil dot t)
      · rename_i p ps hp
        rw [hp] at ih
        simp only [List.map_cons, List.sum_cons, List.count_cons] at ih ⊢
        omega

theorem exists_star_of_sum_pos {r : List Str} (h : 0 < (r.map (List.count star)).sum) : ∃ l ∈ r, star ∈ l := by
  induction r with
  | nil => simp at h
  | cons a t ih =>
    simp only [List.map_cons, List.sum_cons] at h
    by_cases ha : a.count star = 0
    · obtain ⟨l, hl, hs⟩ := ih (by omega)
      exact ⟨l, List.mem_cons_of_mem _ hl, hs⟩
    · exact ⟨a, by simp, Classical.byContradiction fun hn => ha (List.count_eq_zero.2 hn)⟩

/-! ### `labelsEqCI` -/

theorem labelsEqCI_iff {as bs : List Str} : labelsEqCI as bs = true ↔ as.map lower = bs.map lower := by
  induction as generalizing bs with
  | nil => cases bs <;> simp [labelsEqCI]
  | cons a as ih => cases bs <;> simp [labelsEqCI, ih]

theorem labelsEqCI_mem {as bs : List Str} (h : labelsEqCI as bs = true) {a : Str} (ha : a ∈ as) :
    ∃ b ∈ bs, lower a = lower b := by
  induction as generalizing bs with
  | nil => simp at ha
  | cons x as ih =>
    cases bs with
    | nil => simp [labelsEqCI] at h
    | cons y bs =>
      simp only [labelsEqCI, Bool.and_eq_true, beq_iff_eq] at h
      rcases List.mem_cons.1 ha with h' | h'
      · subst h'; exact ⟨y, by simp, h.1⟩
      · obtain ⟨b, hb, hab⟩ := ih h.2 h'
        exact ⟨b, List.mem_cons_of_mem _ hb, hab⟩

/-! ### `_dnsname_match` unfolded -/

theorem split_cons_of_ne_nil (s : Str) : ∃ l r, splitOn1 dot s = l :: r := by
  cases h : splitOn1 dot s with
  | nil => exact absurd h (splitOn1_ne_nil dot s)
  | cons l r => exact ⟨l, r, rfl⟩

/-- the three outcomes of `_dnsname_match`, by the number of stars in the left-most label -/
theorem dnsnameMatch_eq {san host leftmost : Str} {remainder : List Str} (hne : san ≠ [])
    (hs : splitOn1 dot san = leftmost :: remainder) :
    dnsnameMatch san host =
      if leftmost.count star > 1 then .error .certificateError
      else if leftmost.count star = 0 then .ok (lower san == lower host)
      else .ok (matchPats
        (if leftmost = [star] then .plus
         else if xnPrefix.isPrefixOf (lower leftmost) || xnPrefix.isPrefixOf (lower host) then .literal leftmost
         else .glob leftmost) remainder host) := by
  unfold dnsnameMatch
  have : san.isEmpty = false := by cases san <;> simp_all
  simp only [this, hs]
  rfl

theorem dnsnameMatch_nil (host : Str) : dnsnameMatch [] host = .ok false := by
  simp [dnsnameMatch]

/-- the only exception `_dnsname_match` raises is `CertificateError` -/
theorem dnsnameMatch_error {san host : Str} {e : Exc} (h : dnsnameMatch san host = .error e) :
    e = .certificateError := by
  by_cases hn : san = []
  · subst hn; rw [dnsnameMatch_nil] at h; cases h
  · obtain ⟨l, r, hsp⟩ := split_cons_of_ne_nil san
    rw [dnsnameMatch_eq hn hsp] at h
    split at h
    · cases h; rfl
    · split at h <;> cases h

/-- `s.lower().startswith("xn--")`: the first four characters spell the ACE prefix in any capitalisation -/
theorem xnPrefix_lower_iff (s : Str) : xnPrefix.isPrefixOf (lower s) = true ↔ lower (s.take 4) = xnPrefix := by
  rw [List.isPrefixOf_iff_prefix, List.prefix_iff_eq_take]
  simp only [lower, List.map_take, xnPrefix, List.length_cons, List.length_nil]
  exact eq_comm

theorem matchPats_true {p : LeftPat} {remainder : List Str} {host : Str} (h : matchPats p remainder host = true) :
    ∃ h0 hs, splitOn1 dot host = h0 :: hs ∧ matchLeft p h0 = true ∧ labelsEqCI remainder hs = true := by
  unfold matchPats at h
  split at h
  · simp at h
  · rename_i h0 hs heq
    simp only [Bool.and_eq_true] at h
    exact ⟨h0, hs, heq, h.1, h.2⟩

/-! ### `match_hostname` loops -/

theorem kDNS_ne_kIP : kDNS ≠ kIP := by decide

theorem sanLoop_dns_some (host : Str) (ip : IpAddr) (value : Str) (rest : List (Str × Str)) (names : List Str) :
    sanLoop host (some ip) ((kDNS, value) :: rest) names = sanLoop host (some ip) rest (names ++ [value]) := by
  rw [sanLoop]; simp

theorem sanLoop_ip_some_err {host : Str} {ip : IpAddr} {value : Str} {x : Exc} (hm : ipaddressMatch value ip = .error x)
    (rest : List (Str × Str)) (names : List Str) :
    sanLoop host (some ip) ((kIP, value) :: rest) names = .error x := by
  rw [sanLoop]; simp [show ¬ kIP = kDNS by decide, hm]

theorem sanLoop_ip_some_true {host : Str} {ip : IpAddr} {value : Str} (hm : ipaddressMatch value ip = .ok true)
    (rest : List (Str × Str)) (names : List Str) :
    sanLoop host (some ip) ((kIP, value) :: rest) names = .ok none := by
  rw [sanLoop]; simp [show ¬ kIP = kDNS by decide, hm]

theorem sanLoop_ip_some_false {host : Str} {ip : IpAddr} {value : Str} (hm : ipaddressMatch value ip = .ok false)
    (rest : List (Str × Str)) (names : List Str) :
    sanLoop host (some ip) ((kIP, value) :: rest) names = sanLoop host (some ip) rest (names ++ [value]) := by
  rw [sanLoop]; simp [show ¬ kIP = kDNS by decide, hm]

theorem sanLoop_other {key : Str} (hk : key ≠ kDNS) (hk2 : key ≠ kIP) (host : Str) (hip : Option IpAddr)
    (value : Str) (rest : List (Str × Str)) (names : List Str) :
    sanLoop host hip ((key, value) :: rest) names = sanLoop host hip rest names := by
  rw [sanLoop.eq_def]; simp [hk, hk2]

/-- DNS host, dNSName entry that matches: the function returns -/
theorem sanLoop_dns_none_true {host value : Str} (hm : dnsnameMatch value host = .ok true)
    (rest : List (Str × Str)) (names : List Str) :
    sanLoop host none ((kDNS, value) :: rest) names = .ok none := by
  rw [sanLoop]; simp [hm]

/-- DNS host, dNSName entry that does not match — or is malformed (`CertificateError` is passed
over): the loop goes on with the remaining entries -/
theorem sanLoop_dns_none_skip {host value : Str} (hm : dnsnameMatch value host ≠ .ok true)
    (rest : List (Str × Str)) (names : List Str) :
    sanLoop host none ((kDNS, value) :: rest) names = sanLoop host none rest (names ++ [value]) := by
  rw [sanLoop]
  cases hd : dnsnameMatch value host with
  | error e => cases dnsnameMatch_error hd; simp
  | ok b =>
    cases b with
    | true => exact absurd hd hm
    | false => simp

/-- DNS host: an iPAddress entry is only recorded -/
theorem sanLoop_ip_none (host value : Str) (rest : List (Str × Str)) (names : List Str) :
    sanLoop host none ((kIP, value) :: rest) names = sanLoop host none rest (names ++ [value]) := by
  rw [sanLoop]; simp [show ¬ kIP = kDNS by decide]

/-- DNS host: the SAN loop never raises (malformed dNSName entries are passed over, iPAddress
entries are not parsed) -/
theorem sanLoop_dns_host_no_error {host : Str} {san : List (Str × Str)} {names : List Str} (x : Exc) :
    sanLoop host none san names ≠ .error x := by
  induction san generalizing names with
  | nil => simp [sanLoop]
  | cons e rest ih =>
    obtain ⟨key, value⟩ := e
    by_cases hk : key = kDNS
    · subst hk
      by_cases hm : dnsnameMatch value host = .ok true
      · rw [sanLoop_dns_none_true hm]; simp
      · rw [sanLoop_dns_none_skip hm]; exact ih
    · by_cases hk2 : key = kIP
      · subst hk2; rw [sanLoop_ip_none]; exact ih
      · rw [sanLoop_other hk hk2]; exact ih

/-- DNS host: the SAN loop returns iff some dNSName entry matches — wherever it stands in the list -/
theorem sanLoop_dns_host_iff {host : Str} {san : List (Str × Str)} {names : List Str} :
    sanLoop host none san names = .ok none ↔ ∃ e ∈ san, e.1 = kDNS ∧ dnsnameMatch e.2 host = .ok true := by
  induction san generalizing names with
  | nil => simp [sanLoop]
  | cons e rest ih =>
    obtain ⟨key, value⟩ := e
    have skip : ∀ names', ¬ (key = kDNS ∧ dnsnameMatch value host = .ok true) →
        sanLoop host none ((key, value) :: rest) names = sanLoop host none rest names' →
        (sanLoop host none ((key, value) :: rest) names = .ok none ↔
          ∃ e ∈ (key, value) :: rest, e.1 = kDNS ∧ dnsnameMatch e.2 host = .ok true) := by
      intro names' hno heq
      rw [heq, ih]
      constructor
      · rintro ⟨e, he, h⟩; exact ⟨e, List.mem_cons_of_mem _ he, h⟩
      · rintro ⟨e, he, h⟩
        rcases List.mem_cons.1 he with h' | h'
        · subst h'; exact absurd h hno
        · exact ⟨e, h', h⟩
    by_cases hk : key = kDNS
    · subst hk
      by_cases hm : dnsnameMatch value host = .ok true
      · rw [sanLoop_dns_none_true hm]
        exact ⟨fun _ => ⟨(kDNS, value), by simp, rfl, hm⟩, fun _ => rfl⟩
      · exact skip _ (fun h => hm h.2) (sanLoop_dns_none_skip hm ..)
    · by_cases hk2 : key = kIP
      · subst hk2; exact skip _ (fun h => hk h.1) (sanLoop_ip_none ..)
      · exact skip _ (fun h => hk h.1) (sanLoop_other hk hk2 ..)

/-- with an IP host, the SAN loop can only return through an iPAddress entry that matches -/
theorem sanLoop_ip_match {host : Str} {ip : IpAddr} {san : List (Str × Str)} {names : List Str}
    (h : sanLoop host (some ip) san names = .ok none) :
    ∃ e ∈ san, e.1 = kIP ∧ ipaddressMatch e.2 ip = .ok true := by
  induction san generalizing names with
  | nil => simp [sanLoop] at h
  | cons e rest ih =>
    obtain ⟨key, value⟩ := e
    have lift : (∃ e ∈ rest, e.1 = kIP ∧ ipaddressMatch e.2 ip = .ok true) →
        ∃ e ∈ (key, value) :: rest, e.1 = kIP ∧ ipaddressMatch e.2 ip = .ok true := by
      rintro ⟨e', he', h'⟩; exact ⟨e', List.mem_cons_of_mem _ he', h'⟩
    by_cases hk : key = kDNS
    · subst hk; rw [sanLoop_dns_some] at h; exact lift (ih h)
    · by_cases hk2 : key = kIP
      · subst hk2
        cases hm : ipaddressMatch value ip with
        | error x => rw [sanLoop_ip_some_err hm] at h; cases h
        | ok b =>
          cases b with
          | true => exact ⟨(kIP, value), by simp, rfl, hm⟩
          | false => rw [sanLoop_ip_some_false hm] at h; exact lift (ih h)
      · rw [sanLoop_other hk hk2] at h; exact lift (ih h)

/-- the names collected by the loop: never fewer than before, and non-empty once a dNSName or
iPAddress entry has been passed -/
theorem sanLoop_names {host : Str} {hip : Option IpAddr} {san : List (Str × Str)} {names names' : List Str}
    (h : sanLoop host hip san names = .ok (some names')) :
    (names ≠ [] → names' ≠ []) ∧ ((∃ e ∈ san, e.1 = kDNS ∨ e.1 = kIP) → names' ≠ []) := by
  induction san generalizing names with
  | nil =>
    simp only [sanLoop, Except.ok.injEq, Option.some.injEq] at h
    subst h; simp
  | cons e rest ih =>
    obtain ⟨key, value⟩ := e
    have happ : names ++ [value] ≠ [] := by simp
    unfold sanLoop at h
    split at h
    · rename_i hk
      split at h
      · split at h
        · have := ih h
          exact ⟨fun _ => this.1 happ, fun _ => this.1 happ⟩
        · cases h
        · cases h
        · have := ih h
          exact ⟨fun _ => this.1 happ, fun _ => this.1 happ⟩
      · have := ih h
        exact ⟨fun _ => this.1 happ, fun _ => this.1 happ⟩
    · rename_i hk
      split at h
      · rename_i hk2
        split at h
        · split at h
          · cases h
          · cases h
          · have := ih h
            exact ⟨fun _ => this.1 happ, fun _ => this.1 happ⟩
        · have := ih h
          exact ⟨fun _ => this.1 happ, fun _ => this.1 happ⟩
      · rename_i hk2
        have := ih h
        refine ⟨this.1, ?_⟩
        rintro ⟨e', he', hk'⟩
        rcases List.mem_cons.1 he' with h' | h'
        · subst h'; simp at hk'; rcases hk' with h'' | h''
          · exact absurd h'' hk
          · exact absurd h'' hk2
        · exact this.2 ⟨e', h', hk'⟩

/-- IP host, every iPAddress entry parses: the loop returns iff some entry has the host's value -/
theorem sanLoop_ip_iff {host : Str} {ip : IpAddr} {san : List (Str × Str)} {names : List Str}
    (hp : ∀ e ∈ san, e.1 = kIP → (ipAddress (rstrip e.2)).isSome) :
    (sanLoop host (some ip) san names = .ok none ↔
      ∃ e ∈ san, e.1 = kIP ∧ ∃ a, ipAddress (rstrip e.2) = some a ∧ a.packed = ip.packed) ∧
    (∀ x, sanLoop host (some ip) san names ≠ .error x) := by
  induction san generalizing names with
  | nil => simp [sanLoop]
  | cons e rest ih =>
    obtain ⟨key, value⟩ := e
    have hrest : ∀ e ∈ rest, e.1 = kIP → (ipAddress (rstrip e.2)).isSome :=
      fun e he => hp e (List.mem_cons_of_mem _ he)
    have IH := fun names => ih (names := names) hrest
    -- the entry at the head contributes nothing: the statement moves to the tail
    have skip : ∀ names', ¬ (key = kIP ∧ ∃ a, ipAddress (rstrip value) = some a ∧ a.packed = ip.packed) →
        sanLoop host (some ip) ((key, value) :: rest) names = sanLoop host (some ip) rest names' →
        (sanLoop host (some ip) ((key, value) :: rest) names = .ok none ↔
          ∃ e ∈ (key, value) :: rest, e.1 = kIP ∧ ∃ a, ipAddress (rstrip e.2) = some a ∧ a.packed = ip.packed) ∧
        (∀ x, sanLoop host (some ip) ((key, value) :: rest) names ≠ .error x) := by
      intro names' hno heq
      rw [heq]
      refine ⟨?_, (IH _).2⟩
      rw [(IH _).1]
      constructor
      · rintro ⟨e, he, h⟩; exact ⟨e, List.mem_cons_of_mem _ he, h⟩
      · rintro ⟨e, he, h⟩
        rcases List.mem_cons.1 he with h' | h'
        · subst h'; exact absurd h hno
        · exact ⟨e, h', h⟩
    by_cases hk : key = kDNS
    · exact skip _ (fun h => kDNS_ne_kIP (hk ▸ h.1)) (by subst hk; exact sanLoop_dns_some ..)
    · by_cases hk2 : key = kIP
      · obtain ⟨a, ha⟩ := Option.isSome_iff_exists.1 (hp (key, value) (by simp) hk2)
        simp only at ha
        by_cases heq : a.packed = ip.packed
        · have : sanLoop host (some ip) ((key, value) :: rest) names = .ok none := by
            subst hk2; exact sanLoop_ip_some_true (by simp [ipaddressMatch, ha, heq]) ..
          rw [this]
          exact ⟨⟨fun _ => ⟨(key, value), by simp, hk2, a, ha, heq⟩, fun _ => rfl⟩, by simp⟩
        · refine skip (names ++ [value]) ?_ ?_
          · rintro ⟨_, a', ha', heq'⟩
            rw [ha] at ha'; cases ha'; exact heq heq'
          · subst hk2; exact sanLoop_ip_some_false (by simp [ipaddressMatch, ha, heq]) ..
      · exact skip _ (fun h => hk2 h.1) (sanLoop_other hk hk2 ..)

/-! ### fingerprints -/

theorem unhexlify_some_hex : ∀ {s : Str} {b : Bytes}, unhexlify s = some b → ∀ c ∈ s, (hexVal c).isSome
  | [], _, _ => by simp
  | [_], _, h => by simp [unhexlify] at h
  | a :: c :: t, _, h => by
    unfold unhexlify at h
    split at h
    · rename_i x y r hx hy hr
      have ih := unhexlify_some_hex hr
      intro d hd
      simp only [List.mem_cons] at hd
      rcases hd with h' | h' | h'
      · subst h'; simp [hx]
      · subst h'; simp [hy]
      · exact ih d h'
    · cases h

theorem hexVal_lt_128 {c : Nat} (h : (hexVal c).isSome) : c < 128 := by
  unfold hexVal at h
  split at h
  · omega
  · split at h
    · omega
    · split at h
      · omega
      · simp at h

theorem lowerC_upperC (c : Nat) : lowerC (upperC c) = lowerC c := by
  unfold lowerC upperC; split <;> split <;> (try split) <;> omega

theorem upperC_ne_colon {c : Nat} : (upperC c != colon) = (c != colon) := by
  have : upperC c = colon ↔ c = colon := by unfold upperC colon; split <;> omega
  rw [Bool.eq_iff_iff]; simp [this]

theorem normPin_upper (p : Str) : normPin (upper p) = normPin p := by
  induction p with
  | nil => rfl
  | cons a t ih =>
    simp only [normPin, upper, lower, List.map_cons, List.filter_cons] at ih ⊢
    rw [upperC_ne_colon]
    split
    · simp only [List.map_cons, lowerC_upperC]; rw [ih]
    · exact ih

theorem normPin_insert_colon (a b : Str) : normPin (a ++ colon :: b) = normPin (a ++ b) := by
  simp [normPin, List.filter_append]

end U3.Hostname
