import U3.Lemmas.RespRead
/-! `zstd_multiframe`: the (repaired) `ZstdDecoder` wrapper obeys the streaming law for EVERY
byte-step `decompressobj` — in particular a frame that ends exactly at the end of one
`decompress()` input may be followed by another frame in the next input.

The wrapper is characterised by a byte fold `zsRun` (restart with a fresh `decompressobj` whenever
the current one is at `eof` and another byte arrives), which is compositional by construction;
`zsDecompress` (feed, then the `while eof and unused_data` loop, with its fuel) computes it. -/
namespace U3.Resp
open U3

section
variable {ρ : Type} (O : RawObj ρ)

/-- byte-wise semantics of the wrapper: returns the final core state and the output -/
def zsRun : ρ → Bytes → Except ZErr (ρ × Bytes)
  | s, [] => .ok (s, [])
  | s, b :: t =>
    let s0 := if O.eof s then O.init else s
    if O.eof s0 then .error .error
    else match O.step s0 b with
      | .error e => .error e
      | .ok (s1, o) =>
        match zsRun s1 t with
        | .error e => .error e
        | .ok (s2, o2) => .ok (s2, o ++ o2)

theorem zsRun_cons (s : ρ) (b : Nat) (t : Bytes) :
    zsRun O s (b :: t) =
      if O.eof (if O.eof s then O.init else s) then .error .error
      else match O.step (if O.eof s then O.init else s) b with
        | .error e => .error e
        | .ok (s1, o) =>
          match zsRun O s1 t with
          | .error e => .error e
          | .ok (s2, o2) => .ok (s2, o ++ o2) := by
  rw [zsRun]

theorem zsRun_nil (s : ρ) : zsRun O s [] = .ok (s, []) := by rw [zsRun]

theorem zsRun_append (a b : Bytes) : ∀ (s s2 : ρ) (p : Bytes), zsRun O s (a ++ b) = .ok (s2, p) →
    ∃ s1 o p', zsRun O s a = .ok (s1, o) ∧ zsRun O s1 b = .ok (s2, p') ∧ p = o ++ p' := by
  induction a with
  | nil => intro s s2 p h; exact ⟨s, [], p, zsRun_nil O s, by simpa using h, rfl⟩
  | cons x t ih =>
    intro s s2 p h
    rw [List.cons_append, zsRun_cons] at h
    rw [zsRun_cons]
    generalize (if O.eof s = true then O.init else s) = s0 at h ⊢
    by_cases he : O.eof s0 = true
    · rw [if_pos he] at h; cases h
    · rw [if_neg he] at h ⊢
      cases hstep : O.step s0 x with
      | error e => rw [hstep] at h; cases h
      | ok r1 =>
        obtain ⟨s1, o⟩ := r1
        rw [hstep] at h
        simp only [] at h ⊢
        cases hrun : zsRun O s1 (t ++ b) with
        | error e => rw [hrun] at h; cases h
        | ok r2 =>
          obtain ⟨s2', o2⟩ := r2
          rw [hrun] at h
          simp only [Except.ok.injEq, Prod.mk.injEq] at h
          obtain ⟨rfl, rfl⟩ := h
          obtain ⟨s1', o', p', h1, h2, h3⟩ := ih s1 s2' o2 hrun
          refine ⟨s1', o ++ o', p', ?_, h2, ?_⟩
          · rw [h1]
          · rw [h3, List.append_assoc]

/-- from a state that is not at `eof` the restart test of `zsRun` is void -/
theorem zsRun_noteof (s : ρ) (he : O.eof s = false) (data : Bytes) :
    zsRun O (if O.eof s = true then O.init else s) data = zsRun O s data := by
  simp [he]

/-- `zsRun` from an `eof` state is `zsRun` from a fresh one (on non-empty input) -/
theorem zsRun_restart (s : ρ) (he : O.eof s = true) (b : Nat) (t : Bytes) :
    zsRun O s (b :: t) = zsRun O O.init (b :: t) := by
  rw [zsRun_cons, zsRun_cons]
  simp only [he, if_true]
  by_cases hi : O.eof O.init = true
  · simp [hi]
  · simp [hi]

/-- a run that starts by restarting succeeded, so a fresh `decompressobj` is not at `eof` -/
theorem zsRun_init_noteof (b : Nat) (t : Bytes) (s2 : ρ) (o : Bytes)
    (h : zsRun O O.init (b :: t) = .ok (s2, o)) : O.eof O.init = false := by
  cases hi : O.eof O.init with
  | false => rfl
  | true => rw [zsRun_cons] at h; simp [hi] at h

/-- `feedLoop` computes a prefix of `zsRun`: it stops at the end of the frame -/
theorem feedLoop_run : ∀ (data : Bytes) (s s2 : ρ) (o : Bytes), zsRun O s data = .ok (s2, o) →
    ∃ s' out rest, feedLoop O s data [] = .ok (s', out, rest) ∧
      ∃ o', zsRun O s' rest = .ok (s2, o') ∧ o = out ++ o' ∧
        (rest ≠ [] → O.eof s' = true) ∧ rest.length ≤ data.length ∧
        (O.eof s = false → data ≠ [] → rest.length < data.length) := by
  intro data
  induction data with
  | nil =>
    intro s s2 o h
    refine ⟨s, [], [], by simp [feedLoop], o, h, rfl, fun h => absurd rfl h, Nat.le_refl _, fun _ h => absurd rfl h⟩
  | cons x t ih =>
    intro s s2 o h
    rw [feedLoop_cons]
    by_cases he : O.eof s = true
    · rw [if_pos he]
      exact ⟨s, [], x :: t, rfl, o, h, rfl, fun _ => he, Nat.le_refl _, fun h0 => by rw [he] at h0; cases h0⟩
    · rw [if_neg he]
      have he' : O.eof s = false := by simpa using he
      rw [zsRun_cons] at h
      simp only [he', Bool.false_eq_true, if_false] at h
      cases hstep : O.step s x with
      | error e => rw [hstep] at h; cases h
      | ok r1 =>
        obtain ⟨s1, ob⟩ := r1
        rw [hstep] at h
        simp only [] at h ⊢
        cases hrun : zsRun O s1 t with
        | error e => rw [hrun] at h; cases h
        | ok r2 =>
          obtain ⟨s2', o2⟩ := r2
          rw [hrun] at h
          simp only [Except.ok.injEq, Prod.mk.injEq] at h
          obtain ⟨rfl, rfl⟩ := h
          obtain ⟨s', out, rest, h1, o', h2, h3, h4, h5, _⟩ := ih s1 s2' o2 hrun
          rw [feedLoop_acc, h1]
          refine ⟨s', ob ++ out, rest, by simp [Except.map], o', h2, by rw [h3, List.append_assoc], h4, ?_, ?_⟩
          · simp only [List.length_cons]; omega
          · intro _ _; simp only [List.length_cons]; omega

/-- the `while self._obj.eof and self._obj.unused_data` loop finishes what `zsRun` prescribes -/
theorem zsLoop_run : ∀ (fuel : Nat) (z : ZObj ρ) (parts : Bytes) (s2 : ρ) (o : Bytes),
    z.unused.length < fuel → (z.unused ≠ [] → O.eof z.st = true) →
    zsRun O z.st z.unused = .ok (s2, o) →
    zsLoop O fuel z parts = (.ok (parts ++ o), ⟨s2, []⟩) := by
  intro fuel
  induction fuel with
  | zero => intro z parts s2 o h; omega
  | succ k ih =>
    intro z parts s2 o hf hinv hrun
    unfold zsLoop
    by_cases hc : O.eof z.st = true ∧ (!z.unused.isEmpty) = true
    · rw [if_pos hc]
      simp only []
      obtain ⟨he, hne⟩ := hc
      cases hu : z.unused with
      | nil => simp [hu] at hne
      | cons b t =>
        rw [hu] at hrun
        rw [zsRun_restart O z.st he] at hrun
        -- a fresh decompressobj is not at eof, else `zsRun` would have failed
        have hinit : O.eof O.init = false := zsRun_init_noteof O b t s2 o hrun
        obtain ⟨s', out, rest, h1, o', h2, h3, h4, _, h6⟩ := feedLoop_run O (b :: t) O.init s2 o hrun
        have hlt := h6 hinit (by simp)
        have hfeed : zstdFeed O (ZObj.fresh O) (b :: t) = .ok (out, ⟨s', rest⟩) := by
          simp [zstdFeed, ZObj.fresh, hinit, h1]
        rw [hfeed]
        simp only []
        rw [ih ⟨s', rest⟩ (parts ++ out) s2 o' (by simp only []; rw [hu] at hf; simp only [List.length_cons] at hf hlt; omega)
          h4 h2]
        rw [h3, List.append_assoc]
    · rw [if_neg hc]
      have hu : z.unused = [] := by
        cases hu : z.unused with
        | nil => rfl
        | cons b t =>
          exfalso; apply hc
          exact ⟨hinv (by simp [hu]), by simp [hu]⟩
      rw [hu, zsRun_nil] at hrun
      simp only [Except.ok.injEq, Prod.mk.injEq] at hrun
      obtain ⟨rfl, rfl⟩ := hrun
      cases z with
      | mk st unused => simp only [] at hu; subst hu; simp

/-- **`ZstdDecoder.decompress`** (repaired) computes `zsRun` -/
theorem zsDecompress_run (z : ZObj ρ) (data : Bytes) (s2 : ρ) (o : Bytes)
    (hu : z.unused = []) (hrun : zsRun O z.st data = .ok (s2, o)) :
    zsDecompress O z data = (.ok o, ⟨s2, []⟩) := by
  cases data with
  | nil =>
    rw [zsRun_nil] at hrun
    simp only [Except.ok.injEq, Prod.mk.injEq] at hrun
    obtain ⟨rfl, rfl⟩ := hrun
    cases z with
    | mk st unused => simp only [] at hu; subst hu; simp [zsDecompress]
  | cons b t =>
    unfold zsDecompress
    simp only [List.isEmpty_cons, Bool.false_eq_true, if_false]
    -- the object the data is fed to, and its core state
    have hst : (if O.eof z.st = true then ZObj.fresh O else z).st = (if O.eof z.st = true then O.init else z.st) := by
      split <;> rfl
    generalize hz0 : (if O.eof z.st = true then ZObj.fresh O else z) = z0 at hst
    have hrun0 : zsRun O z0.st (b :: t) = .ok (s2, o) ∧ O.eof z0.st = false := by
      rw [hst]
      by_cases he : O.eof z.st = true
      · rw [if_pos he]
        rw [zsRun_restart O z.st he] at hrun
        exact ⟨hrun, zsRun_init_noteof O b t s2 o hrun⟩
      · rw [if_neg he]; exact ⟨hrun, by simpa using he⟩
    obtain ⟨hrun0, he0⟩ := hrun0
    obtain ⟨s', out, rest, h1, o', h2, h3, h4, h5, _⟩ := feedLoop_run O (b :: t) z0.st s2 o hrun0
    have hfeed : zstdFeed O z0 (b :: t) = .ok (out, ⟨s', rest⟩) := by
      simp [zstdFeed, he0, h1]
    rw [hfeed]
    simp only []
    rw [zsLoop_run O _ ⟨s', rest⟩ out s2 o' (by simp only [List.length_cons] at h5 ⊢; omega) h4 h2, h3]

/-- "a `ZstdDecoder` in state `z` that is still to receive `raw` will still deliver `p`": the
remaining input is a sequence of complete frames (the first possibly begun) decoding to `p` -/
def ZsG (z : ZObj ρ) (raw p : Bytes) : Prop :=
  z.unused = [] ∧ ∃ s2, zsRun O z.st raw = .ok (s2, p) ∧ O.eof s2 = true

/-- `zstd_multiframe`: the repaired wrapper obeys the streaming law, for any `decompressobj` -/
theorem zsDec_streamLaw : StreamLaw (zsDec O) (ZsG O) := by
  constructor
  · intro z a b p ⟨hu, s2, hrun, he⟩
    obtain ⟨s1, o, p', h1, h2, h3⟩ := zsRun_append O a b z.st s2 p hrun
    exact ⟨o, ⟨s1, []⟩, zsDecompress_run O z a s1 o hu h1, p', h3, rfl, s2, h2, he⟩
  · intro z p ⟨hu, s2, hrun, he⟩
    rw [zsRun_nil] at hrun
    simp only [Except.ok.injEq, Prod.mk.injEq] at hrun
    obtain ⟨rfl, rfl⟩ := hrun
    exact ⟨rfl, z, by simp [zsDec, zsFlush, he], hu, z.st, rfl, he⟩

end

/-- decidable form of `ZsG` for a fresh decoder (used by the non-vacuity examples) -/
def zsOk {ρ : Type} (O : RawObj ρ) (s : ρ) (raw p : Bytes) : Bool :=
  match zsRun O s raw with
  | .ok (s2, o) => o == p && O.eof s2
  | .error _ => false

theorem ZsG_of_zsOk {ρ : Type} (O : RawObj ρ) (z : ZObj ρ) (raw p : Bytes) (hu : z.unused = [])
    (h : zsOk O z.st raw p = true) : ZsG O z raw p := by
  unfold zsOk at h
  cases hr : zsRun O z.st raw with
  | error e => rw [hr] at h; cases h
  | ok r =>
    obtain ⟨s2, o⟩ := r
    rw [hr] at h
    simp only [Bool.and_eq_true, beq_iff_eq] at h
    exact ⟨hu, s2, by rw [← h.1]; exact hr, h.2⟩

/-! ### lifted to the concrete decoder family `cdDec` (`Content-Encoding: zstd`) -/

def CDG (c : CD) (raw p : Bytes) : Prop :=
  match c with
  | .one (.zstd z) => ZsG zstdObj z raw p
  | _ => False

theorem cdDec_streamLaw_zstd : StreamLaw cdDec CDG := by
  constructor
  · intro c a b p h
    match c, h with
    | .one (.zstd z), h =>
      obtain ⟨o, z', h1, p', h2, h3⟩ := (zsDec_streamLaw zstdObj).feed z a b p h
      refine ⟨o, .one (.zstd z'), ?_, p', h2, h3⟩
      have h1' : zsDecompress zstdObj z a = (.ok o, z') := h1
      simp [cdDec, cd1Dec, h1']
  · intro c p h
    match c, h with
    | .one (.zstd z), h =>
      obtain ⟨hp, z', h1, h2⟩ := (zsDec_streamLaw zstdObj).done z p h
      refine ⟨hp, .one (.zstd z'), ?_, h2⟩
      have h1' : zsFlush zstdObj z = (.ok [], z') := h1
      simp [cdDec, cd1Dec, h1']

end U3.Resp
