import U3.Model.Url
import U3.Lemmas.Url
import U3.Lemmas.UrlCase
/-!
# What `_normalize_host` returns, and which hosts it leaves alone

Shapes of the host component (`NameHost`, `LiteralHost`, `ZonedHost`), the result of `normalizeHost`
on each branch, its fixed points, and the same for every host a successful `parse_url` carries.
Helper lemmas for `U3.Props.C14` (core Lean only).
-/
namespace U3.Url
open U3

/-! ## the contract of the uninterpreted `idna.encode` -/

/-- lower-case letter, digit, `-` or `.` -/
def ldhC (c : Nat) : Bool := isLowerC c || isDigitC c || c == 45 || c == 46

/-- **Contract of `idna.encode(label.lower(), strict=True, std3_rules=True)`**: an answer consists of
lower-case letters, digits, `-` (an A-label `xn--…` is made of these) and `.` only. -/
def IdnaLdh (idna : Str → Option Str) : Prop := ∀ l r, idna l = some r → ∀ c ∈ r, ldhC c = true

theorem ldhC_facts {c : Nat} (h : ldhC c = true) :
    c < 128 ∧ lowerC c = c ∧ c ≠ 91 ∧ c ≠ 93 ∧ c ≠ 37 := by
  simp only [ldhC, isLowerC, isDigitC, Bool.or_eq_true, Bool.and_eq_true, decide_eq_true_eq, beq_iff_eq] at h
  refine ⟨by omega, ?_, by omega, by omega, by omega⟩
  unfold lowerC; split <;> omega

theorem lower_eq_self_of_forall {s : Str} (h : ∀ c ∈ s, lowerC c = c) : lower s = s := by
  induction s with
  | nil => rfl
  | cons c t ih =>
    rw [lower_cons, h c (List.mem_cons_self ..), ih (fun x hx => h x (List.mem_cons_of_mem _ hx))]

theorem forall_of_lower_eq_self {s : Str} (h : lower s = s) : ∀ c ∈ s, lowerC c = c := by
  induction s with
  | nil => simp
  | cons c t ih =>
    simp only [lower_cons, List.cons.injEq] at h
    intro x hx
    rcases List.mem_cons.mp hx with rfl | hx
    · exact h.1
    · exact ih h.2 x hx

/-- the contract used by the lower-casing theorems follows from the LDH contract -/
theorem IdnaLdh.lower {idna : Str → Option Str} (hc : IdnaLdh idna) : ∀ l r, idna l = some r → lower r = r :=
  fun l r h => lower_eq_self_of_forall (fun c hcm => (ldhC_facts (hc l r h c hcm)).2.1)

/-! ## shapes of a host -/

/-- the zone id of a bracketed literal: the text after the first `%`, up to the `]` -/
def zoneOf (h : Str) : Str := ((h.dropWhile (· != 37)).takeWhile (· != 93)).drop 1

/-- **the shape of the known finding `zone-25-prefix`**: a bracketed IPv6 literal whose zone id starts
with `25` and goes on (so that `_normalize_host` takes the `25` for the RFC 6874 delimiter again) -/
def zone25 (h : Str) : Bool := ipv6AddrzMatch h && isPrefix [50, 53] (zoneOf h) && zoneOf h != [50, 53]

/-- an ASCII, lower-case text that is not a bracketed IPv6 literal (reg-names incl. A-labels, dotted
quads, the empty host) -/
def NameHost (h : Str) : Prop := h.all (· < 128) = true ∧ lower h = h ∧ ipv6AddrzMatch h = false

/-- a lower-case bracketed IPv6 literal without zone id -/
def LiteralHost (h : Str) : Prop := ipv6AddrzMatch h = true ∧ 37 ∉ h ∧ lower h = h

/-- a bracketed IPv6 literal with lower-case address part, `%`, and a zone id in normal form
(unreserved characters and upper-case escapes) -/
def ZonedHost (h : Str) : Prop :=
  ipv6AddrzMatch h = true ∧ lower (h.takeWhile (· != 37)) = h.takeWhile (· != 37) ∧
  ∃ z, (h.dropWhile (· != 37)).takeWhile (· != 93) = 37 :: z ∧ NormalForm Gen.unreservedChars z

/-! ## small list facts -/

theorem dropWhile_ne_cases (k : Nat) (s : Str) :
    s.dropWhile (· != k) = [] ∨ ∃ r, s.dropWhile (· != k) = k :: r := by
  induction s with
  | nil => exact Or.inl rfl
  | cons c t ih =>
    by_cases hc : c = k
    · subst hc; right; exact ⟨t, by simp [List.dropWhile]⟩
    · have : (c != k) = true := by simpa using hc
      simpa [List.dropWhile, this] using ih

theorem not_mem_takeWhile_ne (k : Nat) (s : Str) : k ∉ s.takeWhile (· != k) := by
  intro h
  have := mem_takeWhile_p h
  simp at this

theorem dropWhile_ne_nil_of_not_mem {k : Nat} {s : Str} (h : k ∉ s) : s.dropWhile (· != k) = [] :=
  (takeWhile_all s (fun x hx => by simp only [bne_iff_ne, ne_eq]; intro e; subst e; exact h hx)).2

theorem takeWhile_ne_of_not_mem {k : Nat} {s : Str} (h : k ∉ s) : s.takeWhile (· != k) = s :=
  (takeWhile_all s (fun x hx => by simp only [bne_iff_ne, ne_eq]; intro e; subst e; exact h hx)).1

theorem not_mem_of_dropWhile_nil {k : Nat} {s : Str} (h : s.dropWhile (· != k) = []) : k ∉ s := by
  have e : s = s.takeWhile (· != k) := by
    have := (List.takeWhile_append_dropWhile (p := (· != k)) (l := s)).symm
    rw [h, List.append_nil] at this
    exact this
  rw [e]; exact not_mem_takeWhile_ne k s

theorem split_at_ne (k : Nat) (a r : Str) (ha : k ∉ a) :
    (a ++ k :: r).takeWhile (· != k) = a ∧ (a ++ k :: r).dropWhile (· != k) = k :: r :=
  takeWhile_append_stop a k r
    (fun x hx => by simp only [bne_iff_ne, ne_eq]; intro e; subst e; exact ha hx) (by simp)

theorem mem_joinWith {sep : Str} {l : List Str} {c : Nat} (h : c ∈ joinWith sep l) :
    c ∈ sep ∨ ∃ y ∈ l, c ∈ y := by
  induction l with
  | nil => simp [joinWith] at h
  | cons x r ih =>
    cases r with
    | nil => exact Or.inr ⟨x, List.mem_cons_self .., by simpa [joinWith] using h⟩
    | cons y t =>
      simp only [joinWith, List.mem_append] at h
      rcases h with (h | h) | h
      · exact Or.inr ⟨x, List.mem_cons_self .., h⟩
      · exact Or.inl h
      · rcases ih h with h | ⟨z, hz, hcz⟩
        · exact Or.inl h
        · exact Or.inr ⟨z, List.mem_cons_of_mem _ hz, hcz⟩

theorem mem_of_mem_splitOn1 {c : Nat} {s p : Str} (hp : p ∈ splitOn1 c s) : ∀ x ∈ p, x ∈ s := by
  induction s generalizing p with
  | nil => simp [splitOn1] at hp; subst hp; simp
  | cons a t ih =>
    unfold splitOn1 at hp
    split at hp
    · rcases List.mem_cons.mp hp with rfl | hp
      · simp
      · intro x hx; exact List.mem_cons_of_mem _ (ih hp x hx)
    · cases hs : splitOn1 c t with
      | nil => exact absurd hs (splitOn1_ne_nil c t)
      | cons q qs =>
        rw [hs] at hp ih
        simp only at hp
        rcases List.mem_cons.mp hp with rfl | hp
        · intro x hx
          rcases List.mem_cons.mp hx with rfl | hx
          · exact List.mem_cons_self ..
          · exact List.mem_cons_of_mem _ (ih (List.mem_cons_self ..) x hx)
        · intro x hx; exact List.mem_cons_of_mem _ (ih (List.mem_cons_of_mem _ hp) x hx)

theorem joinWith_cons_cons' (sep x : Str) (L : List Str) (hL : L ≠ []) :
    joinWith sep (x :: L) = x ++ sep ++ joinWith sep L := by
  cases L with
  | nil => exact absurd rfl hL
  | cons y t => rfl

/-- `c.join(s.split(c)) == s` -/
theorem joinWith_splitOn1 (c : Nat) (s : Str) : joinWith [c] (splitOn1 c s) = s := by
  induction s with
  | nil => rfl
  | cons x t ih =>
    unfold splitOn1
    split
    · rename_i hx
      rw [joinWith_cons_cons' _ _ _ (splitOn1_ne_nil c t), ih, hx]; rfl
    · cases hs : splitOn1 c t with
      | nil => exact absurd hs (splitOn1_ne_nil c t)
      | cons p ps =>
        simp only
        rw [hs] at ih
        cases ps with
        | nil => simp only [joinWith] at ih ⊢; rw [ih]
        | cons q r =>
          simp only [joinWith] at ih ⊢
          rw [← ih]; simp

/-! ## the structure of a bracketed literal -/

/-- `_IPV6_ADDRZ_RE` matches exactly `[` c `]` with no `]` inside and `c` an address with optional zone -/
theorem ipv6AddrzMatch_iff (h : Str) :
    ipv6AddrzMatch h = true ↔ ∃ c, h = 91 :: c ++ [93] ∧ 93 ∉ c ∧ bracketOk c = true := by
  constructor
  · intro hm
    cases h with
    | nil => simp [ipv6AddrzMatch] at hm
    | cons x t =>
      by_cases hx : x = 91
      · subst hx
        simp only [ipv6AddrzMatch, Bool.and_eq_true, decide_eq_true_eq, Bool.not_eq_true',
          List.contains_eq_mem, decide_eq_false_iff_not] at hm
        obtain ⟨⟨h1, h2⟩, h3⟩ := hm
        refine ⟨t.dropLast, ?_, h2, h3⟩
        obtain ⟨ys, rfl⟩ := List.getLast?_eq_some_iff.mp h1
        simp
      · exfalso
        unfold ipv6AddrzMatch at hm
        split at hm
        · rename_i heq; injection heq with h1 _; exact hx h1
        · simp at hm
  · rintro ⟨c, rfl, h93, hb⟩
    simp [ipv6AddrzMatch, h93, hb]

theorem bracketOk_nozone {c : Str} (h37 : 37 ∉ c) : bracketOk c = isIPv6 c := by
  simp [bracketOk, takeWhile_ne_of_not_mem h37, dropWhile_ne_nil_of_not_mem h37]

theorem bracketOk_zone (a z : Str) (ha : 37 ∉ a) :
    bracketOk (a ++ 37 :: z) = (isIPv6 a && (!z.isEmpty && (tokenize z).all zoneTok)) := by
  have := split_at_ne 37 a z ha
  simp [bracketOk, this.1, this.2, isZone]

/-- the text between the brackets, taken apart at the first `%` -/
theorem bracket_cases (c : Str) (hb : bracketOk c = true) :
    (37 ∉ c ∧ isIPv6 c = true) ∨
    ∃ a z, c = a ++ 37 :: z ∧ 37 ∉ a ∧ isIPv6 a = true ∧ z ≠ [] ∧ (tokenize z).all zoneTok = true := by
  rcases dropWhile_ne_cases 37 c with hd | ⟨z, hd⟩
  · have h37 := not_mem_of_dropWhile_nil hd
    left
    exact ⟨h37, by rw [← bracketOk_nozone h37]; exact hb⟩
  · right
    have hc : c = c.takeWhile (· != 37) ++ 37 :: z := by
      rw [← hd, List.takeWhile_append_dropWhile]
    have ha := not_mem_takeWhile_ne 37 c
    rw [hc, bracketOk_zone _ z ha] at hb
    simp only [Bool.and_eq_true, Bool.not_eq_true', List.isEmpty_eq_false_iff] at hb
    exact ⟨_, z, hc, ha, hb.1, hb.2.1, hb.2.2⟩

/-! ## facts about normal-form zone ids -/

theorem encode_keeps' {A : List Nat} (hA : EncSet A) {s : Str} (h : NormalForm A s) :
    encodeInvalidChars A s = s := by
  obtain ⟨ts, hg, rfl⟩ := h
  exact encode_fixed A hA.2 ts hg

theorem tokenize_eq_nil {s : Str} (h : tokenize s = []) : s = [] := by
  have := render_tokenize s
  rw [h] at this
  exact this.symm

theorem encode_ne_nil (A : List Nat) {s : Str} (h : s ≠ []) : encodeInvalidChars A s ≠ [] := by
  intro e
  rw [encodeInvalidChars_eq] at e
  exact h (tokenize_eq_nil (encToks_nil A _ _ (tokenize_ok s) e))

theorem good_unreserved_zoneTok {t : Tok} (h : t.good Gen.unreservedChars = true) : zoneTok t = true := by
  cases t with
  | chr c =>
    simp only [Tok.good, Bool.and_eq_true] at h
    exact h.1.1
  | esc a b => rfl

theorem good_unreserved_no93 {t : Tok} (h : t.good Gen.unreservedChars = true) : 93 ∉ t.text := by
  cases t with
  | chr c =>
    simp only [Tok.good, Bool.and_eq_true] at h
    simp only [Tok.text, List.mem_singleton]
    intro e; subst e
    have : mem Gen.unreservedChars 93 = false := by decide
    rw [this] at h
    exact absurd h.1.1 (by simp)
  | esc a b =>
    simp only [Tok.good, Bool.and_eq_true] at h
    have ha := isHexUp_cases h.1
    have hb := isHexUp_cases h.2
    simp only [Tok.text, List.mem_cons, List.not_mem_nil, or_false, not_or]
    refine ⟨by omega, ?_, ?_⟩
    · intro e; subst e; simp at ha
    · intro e; subst e; simp at hb

/-- a zone id in normal form: scanned into zone tokens, free of `]` -/
theorem normalForm_zone {z : Str} (h : NormalForm Gen.unreservedChars z) :
    (tokenize z).all zoneTok = true ∧ 93 ∉ z := by
  obtain ⟨ts, hg, rfl⟩ := h
  constructor
  · rw [tokenize_render ts (fun t ht => good_stable (hg t ht)), List.all_eq_true]
    exact fun t ht => good_unreserved_zoneTok (hg t ht)
  · simp only [renderToks, List.mem_flatMap, not_exists, not_and]
    exact fun t ht => good_unreserved_no93 (hg t ht)

/-! ## `_normalize_host` on a bracketed literal -/

/-- `scheme in _NORMALIZABLE_SCHEMES` -/
def Normalizable (sc : Option Str) : Prop := Gen.normalizableSchemes.contains sc = true

theorem Normalizable.eq {sc : Option Str} (h : Normalizable sc) : Gen.normalizableSchemes.contains sc = true := h

/-- the zone id `_normalize_host` keeps: a leading `25` that is followed by more is taken for the
RFC 6874 delimiter `%25` and dropped -/
def zoneIdOf (z : Str) : Str := if isPrefix [50, 53] z && z != [50, 53] then z.drop 2 else z

theorem zoneId_eq (z : Str) :
    (if isPrefix pct25 (37 :: z) && (37 :: z) != pct25 then (37 :: z).drop 3 else (37 :: z).drop 1) =
      zoneIdOf z := by
  have hp : isPrefix pct25 (37 :: z) = isPrefix [50, 53] z := by simp [isPrefix, pct25]
  have hq : ((37 :: z) != pct25) = (z != [50, 53]) := by
    rw [Bool.eq_iff_iff]
    simp only [pct25, bne_iff_ne, ne_eq, List.cons.injEq, true_and]
  rw [hp, hq]
  rfl

theorem zoneIdOf_ne_nil {z : Str} (h : z ≠ []) : zoneIdOf z ≠ [] := by
  unfold zoneIdOf
  split
  · rename_i hc
    simp only [Bool.and_eq_true, bne_iff_ne, ne_eq] at hc
    match z, hc with
    | [], hc => simp [isPrefix] at hc
    | [_], hc => simp [isPrefix] at hc
    | [x, y], hc =>
      exfalso
      have := hc.1
      simp [isPrefix] at this
      exact hc.2 (by rw [this.1, this.2])
    | _ :: _ :: _ :: _, _ => simp
  · exact h

theorem not_empty_of_match {h : Str} (hm : ipv6AddrzMatch h = true) : h.isEmpty = false := by
  cases h with
  | nil => simp [ipv6AddrzMatch] at hm
  | cons _ _ => rfl

theorem normalizeHost_literal_nozone (idna : Str → Option Str) {sc : Option Str} (hs : Normalizable sc)
    {h : Str} (hm : ipv6AddrzMatch h = true) (h37 : 37 ∉ h) :
    normalizeHost idna (some h) sc = .ok (some (lower h)) := by
  unfold normalizeHost
  simp only [not_empty_of_match hm, Bool.false_eq_true, if_false, hs.eq, if_true, hm,
    dropWhile_ne_nil_of_not_mem h37, List.isEmpty_nil]

theorem normalizeHost_literal_zone (idna : Str → Option Str) {sc : Option Str} (hs : Normalizable sc)
    (a z : Str) (ha : 37 ∉ a) (hz : 93 ∉ z)
    (hm : ipv6AddrzMatch (91 :: (a ++ 37 :: (z ++ [93]))) = true) :
    normalizeHost idna (some (91 :: (a ++ 37 :: (z ++ [93])))) sc =
      .ok (some (91 :: (lower a ++ 37 :: (encodeInvalidChars Gen.unreservedChars (zoneIdOf z) ++ [93])))) := by
  have h1 := split_at_ne 37 (91 :: a) (z ++ [93]) (by simp [ha])
  have h2 := split_at_ne 93 (37 :: z) [] (by simp [hz])
  simp only [List.cons_append] at h1 h2
  unfold normalizeHost
  simp only [not_empty_of_match hm, Bool.false_eq_true, if_false, hs.eq, if_true, hm, h1.1, h1.2,
    List.isEmpty_cons, h2.1, h2.2, zoneId_eq]
  simp [lower_cons, lowerC]

/-- the same without the side condition on `z`: a matched literal has no `]` inside -/
theorem normalizeHost_literal_zone' (idna : Str → Option Str) {sc : Option Str} (hs : Normalizable sc)
    (a z : Str) (ha : 37 ∉ a)
    (hm : ipv6AddrzMatch (91 :: (a ++ 37 :: (z ++ [93]))) = true) :
    normalizeHost idna (some (91 :: (a ++ 37 :: (z ++ [93])))) sc =
      .ok (some (91 :: (lower a ++ 37 :: (encodeInvalidChars Gen.unreservedChars (zoneIdOf z) ++ [93])))) := by
  apply normalizeHost_literal_zone idna hs a z ha _ hm
  obtain ⟨c, hc, h93, -⟩ := (ipv6AddrzMatch_iff _).mp hm
  have e : (a ++ 37 :: z) ++ [93] = c ++ [93] := by
    simp only [List.cons_append, List.cons.injEq, true_and] at hc
    simpa using hc
  have := List.append_cancel_right e
  subst this
  intro hz
  exact h93 (by simp [hz])

theorem zoned_built (a E : Str) (ha6 : isIPv6 a = true) (ha37 : 37 ∉ a) (ha93 : 93 ∉ a) (hal : lower a = a)
    (hE : NormalForm Gen.unreservedChars E) (hne : E ≠ []) :
    ZonedHost (91 :: (a ++ 37 :: (E ++ [93]))) := by
  obtain ⟨htok, hE93⟩ := normalForm_zone hE
  have h1 := split_at_ne 37 (91 :: a) (E ++ [93]) (by simp [ha37])
  have h2 := split_at_ne 93 (37 :: E) [] (by simp [hE93])
  simp only [List.cons_append] at h1 h2
  refine ⟨?_, ?_, E, ?_, hE⟩
  · rw [ipv6AddrzMatch_iff]
    refine ⟨a ++ 37 :: E, by simp, ?_, ?_⟩
    · simp [ha93, hE93]
    · rw [bracketOk_zone a E ha37, ha6, htok]
      simpa using hne
  · rw [h1.1, lower_cons, hal]; rfl
  · rw [h1.2]; exact h2.1

theorem literal_built {h : Str} (hm : ipv6AddrzMatch h = true) (h37 : 37 ∉ h) : LiteralHost (lower h) :=
  ⟨by rw [ipv6AddrzMatch_lower]; exact hm, by rw [mem_lower_iff 37 (by omega)]; exact h37, lower_idem h⟩

/-- **`_normalize_host` of a bracketed literal**: the whole text lower-cased when there is no zone id;
otherwise the address part lower-cased, `%`, the zone id (RFC 6874 delimiter dropped) percent-encoded -/
theorem normalizeHost_of_literal (idna : Str → Option Str) {sc : Option Str} (hs : Normalizable sc)
    {h : Str} (hm : ipv6AddrzMatch h = true) :
    ∃ h', normalizeHost idna (some h) sc = .ok (some h') ∧
      ((37 ∉ h ∧ h' = lower h ∧ LiteralHost h') ∨ (37 ∈ h ∧ ZonedHost h')) := by
  obtain ⟨c, rfl, h93, hb⟩ := (ipv6AddrzMatch_iff h).mp hm
  rcases bracket_cases c hb with ⟨h37, -⟩ | ⟨a, z, rfl, ha37, ha6, hzne, hztok⟩
  · have h37' : 37 ∉ 91 :: c ++ [93] := by simp [h37]
    exact ⟨_, normalizeHost_literal_nozone idna hs hm h37', Or.inl ⟨h37', rfl, literal_built hm h37'⟩⟩
  · have hz93 : 93 ∉ z := fun e => h93 (by simp [e])
    have ha93 : 93 ∉ a := fun e => h93 (by simp [e])
    have e : 91 :: (a ++ 37 :: z) ++ [93] = 91 :: (a ++ 37 :: (z ++ [93])) := by simp
    rw [e] at hm ⊢
    refine ⟨_, normalizeHost_literal_zone idna hs a z ha37 hz93 hm, Or.inr ⟨by simp, ?_⟩⟩
    apply zoned_built
    · rw [isIPv6_lower]; exact ha6
    · rw [mem_lower_iff 37 (by omega)]; exact ha37
    · rw [mem_lower_iff 93 (by omega)]; exact ha93
    · exact lower_idem a
    · exact encode_normal _ encSet_unreserved.1 encSet_unreserved.2 _
    · exact encode_ne_nil _ (zoneIdOf_ne_nil hzne)

/-! ## fixed points of `_normalize_host` -/

theorem normalizeHost_not_normalizable (idna : Str → Option Str) {sc : Option Str} (hs : ¬ Normalizable sc)
    (h : Option Str) : normalizeHost idna h sc = .ok h := by
  have hs' : Gen.normalizableSchemes.contains sc = false := by simpa [Normalizable] using hs
  cases h with
  | none => rfl
  | some x =>
    unfold normalizeHost
    simp only [hs', Bool.false_eq_true, if_false]
    split <;> rfl

theorem literal_fixed (idna : Str → Option Str) {sc : Option Str} (hs : Normalizable sc) {h : Str}
    (hl : LiteralHost h) : normalizeHost idna (some h) sc = .ok (some h) := by
  rw [normalizeHost_literal_nozone idna hs hl.1 hl.2.1, hl.2.2]

theorem zoneOf_of {h z : Str} (hz : (h.dropWhile (· != 37)).takeWhile (· != 93) = 37 :: z) : zoneOf h = z := by
  simp [zoneOf, hz]

theorem zoned_fixed (idna : Str → Option Str) {sc : Option Str} (hs : Normalizable sc) {h : Str}
    (hz : ZonedHost h) (h25 : zone25 h = false) : normalizeHost idna (some h) sc = .ok (some h) := by
  obtain ⟨h6, hl, z, hz, hnf⟩ := hz
  have hzo := zoneOf_of hz
  have hid : zoneIdOf z = z := by
    unfold zoneIdOf
    simp only [zone25, h6, hzo, Bool.true_and] at h25
    rw [h25]; rfl
  have hr : h.dropWhile (· != 37) ≠ [] := by
    intro e; rw [e] at hz; simp at hz
  have hre : (h.dropWhile (· != 37)).isEmpty = false := by simpa using hr
  unfold normalizeHost
  simp only [not_empty_of_match h6, Bool.false_eq_true, if_false, hs.eq, if_true, h6, hre, hz, zoneId_eq, hid,
    hl, encode_keeps' encSet_unreserved hnf]
  have e1 : [37] ++ z = (h.dropWhile (· != 37)).takeWhile (· != 93) := by rw [hz]; rfl
  rw [List.append_assoc, List.append_assoc, ← List.append_assoc [37] z, e1, List.takeWhile_append_dropWhile,
    List.takeWhile_append_dropWhile]

theorem mapM_idnaEncode_ascii (idna : Str → Option Str) (l : List Str) (h : ∀ x ∈ l, x.all (· < 128) = true) :
    l.mapM (idnaEncode idna) = .ok (l.map lower) := by
  induction l with
  | nil => rfl
  | cons x r ih =>
    rw [List.mapM_cons]
    have hx : idnaEncode idna x = .ok (lower x) := by
      unfold idnaEncode; rw [if_pos (h x (List.mem_cons_self ..))]
    rw [hx, ih (fun y hy => h y (List.mem_cons_of_mem _ hy))]
    rfl

/-- `_normalize_host` of an ASCII text that is neither a bracketed literal nor a dotted quad: the text
in lower case (no label is handed to IDNA) -/
theorem normalizeHost_ascii_name (idna : Str → Option Str) {sc : Option Str} (hs : Normalizable sc) {h : Str}
    (hne : h ≠ []) (ha : h.all (· < 128) = true) (h6 : ipv6AddrzMatch h = false) (h4 : ipv4Match h = false) :
    normalizeHost idna (some h) sc = .ok (some (lower h)) := by
  have hie : h.isEmpty = false := by simpa using hne
  unfold normalizeHost
  simp only [hs.eq, if_true, hie, Bool.false_eq_true, if_false, h6, h4]
  have hlab : ∀ x ∈ splitOn1 46 h, x.all (· < 128) = true := by
    intro x hx
    simp only [List.all_eq_true, decide_eq_true_eq] at ha ⊢
    exact fun y hy => ha y (mem_of_mem_splitOn1 hx y hy)
  simp only [bind, Except.bind, mapM_idnaEncode_ascii idna _ hlab]
  have : joinWith [46] ((splitOn1 46 h).map lower) = lower (joinWith [46] (splitOn1 46 h)) := by
    rw [lower_joinWith]; rfl
  rw [this, joinWith_splitOn1]

theorem name_fixed (idna : Str → Option Str) {sc : Option Str} (hs : Normalizable sc) {h : Str}
    (hn : NameHost h) : normalizeHost idna (some h) sc = .ok (some h) := by
  obtain ⟨ha, hl, h6⟩ := hn
  by_cases hne : h = []
  · subst hne; rfl
  · by_cases h4 : ipv4Match h = true
    · have hie : h.isEmpty = false := by simpa using hne
      unfold normalizeHost
      simp only [hs.eq, if_true, hie, Bool.false_eq_true, if_false, h6, h4]
    · rw [normalizeHost_ascii_name idna hs hne ha h6 (by simpa using h4), hl]

/-! ## `_normalize_host` on a dotted quad and on a name -/

theorem isDec13_digits {p : Str} (h : isDec13 p = true) : ∀ c ∈ p, isDigitC c = true := by
  simp only [isDec13, Bool.and_eq_true, List.all_eq_true] at h
  exact h.2

/-- a dotted quad consists of digits and dots -/
theorem isIPv4_chars {p : Str} (h : isIPv4 p = true) : ∀ c ∈ p, isDigitC c = true ∨ c = 46 := by
  rw [isIPv4_eq] at h
  have hj := joinWith_splitOn1 46 p
  generalize splitOn1 46 p = l at h hj
  rcases l with _ | ⟨a, _ | ⟨b, _ | ⟨c, _ | ⟨d, _ | ⟨e, t⟩⟩⟩⟩⟩ <;> simp only [isIPv4L, Bool.false_eq_true] at h
  simp only [Bool.and_eq_true] at h
  obtain ⟨⟨⟨h1, h2⟩, h3⟩, h4⟩ := h
  intro x hx
  rw [← hj] at hx
  rcases mem_joinWith hx with hx | ⟨y, hy, hxy⟩
  · right; simpa using hx
  · left
    simp only [List.mem_cons, List.not_mem_nil, or_false] at hy
    rcases hy with rfl | rfl | rfl | rfl
    · exact isDec13_digits h1 x hxy
    · exact isDec13_digits h2 x hxy
    · exact isDec13_digits h3 x hxy
    · exact isDec13_digits h4 x hxy

theorem mem_of_mem_stripNl {s : Str} {c : Nat} (h : c ∈ s) : c ∈ stripNl s ∨ c = 10 := by
  unfold stripNl
  split
  · rename_i hl
    obtain ⟨ys, rfl⟩ := List.getLast?_eq_some_iff.mp hl
    simp only [List.dropLast_concat]
    simpa using h
  · exact Or.inl h

/-- a host `_IPV4_RE` matches is ASCII and has no letters (digits, dots, possibly a final newline) -/
theorem ipv4Match_chars {h : Str} (hm : ipv4Match h = true) : ∀ c ∈ h, c < 128 ∧ lowerC c = c ∧ c ≠ 91 := by
  intro c hc
  have key : isDigitC c = true ∨ c = 46 ∨ c = 10 := by
    rcases mem_of_mem_stripNl hc with h1 | h1
    · rcases isIPv4_chars hm c h1 with h2 | h2
      · exact Or.inl h2
      · exact Or.inr (Or.inl h2)
    · exact Or.inr (Or.inr h1)
  simp only [isDigitC, Bool.and_eq_true, decide_eq_true_eq] at key
  refine ⟨by omega, ?_, by omega⟩
  unfold lowerC; split <;> omega

theorem all_lt_of_forall {s : Str} (h : ∀ c ∈ s, c < 128) : s.all (· < 128) = true := by
  simpa [List.all_eq_true] using h

theorem not_match_of_no91 {h : Str} (h91 : 91 ∉ h) : ipv6AddrzMatch h = false := by
  unfold ipv6AddrzMatch
  split
  · exact absurd (List.mem_cons_self ..) h91
  · rfl

theorem ipv4Match_name {h : Str} (hm : ipv4Match h = true) : NameHost h := by
  have hc := ipv4Match_chars hm
  exact ⟨all_lt_of_forall (fun c hcm => (hc c hcm).1),
    lower_eq_self_of_forall (fun c hcm => (hc c hcm).2.1),
    not_match_of_no91 (fun e => (hc 91 e).2.2 rfl)⟩

/-- every character of an encoded label: the lower-case form of an ASCII character of the label, or a
character of an IDNA answer -/
theorem idnaEncode_chars {idna : Str → Option Str} {l y : Str} (h : idnaEncode idna l = .ok y) :
    (∀ c ∈ y, ∃ x ∈ l, x < 128 ∧ c = lowerC x) ∨ idna l = some y := by
  unfold idnaEncode at h
  split at h
  · rename_i ha
    simp only [Except.ok.injEq] at h; subst h
    left
    intro c hc
    simp only [lower, List.mem_map] at hc
    obtain ⟨x, hx, rfl⟩ := hc
    simp only [List.all_eq_true, decide_eq_true_eq] at ha
    exact ⟨x, hx, ha x hx, rfl⟩
  · split at h
    · rename_i r hr
      simp only [Except.ok.injEq] at h; subst h
      exact Or.inr hr
    · simp at h

/-- the label branch of `_normalize_host`, character by character -/
theorem normalizeHost_name_chars {idna : Str → Option Str} {sc : Option Str} (hs : Normalizable sc) {h h' : Str}
    (h6 : ipv6AddrzMatch h = false) (h4 : ipv4Match h = false)
    (hh : normalizeHost idna (some h) sc = .ok (some h')) :
    ∀ c ∈ h', c = 46 ∨ (∃ x ∈ h, x < 128 ∧ c = lowerC x) ∨ ∃ l r, idna l = some r ∧ c ∈ r := by
  unfold normalizeHost at hh
  simp only [hs.eq, if_true, h6, h4, Bool.false_eq_true, if_false] at hh
  split at hh
  · simp only [Except.ok.injEq, Option.some.injEq] at hh; subst hh
    rename_i he
    have : h = [] := by simpa using he
    subst this; simp
  · obtain ⟨ls, hls, h2⟩ := bind_ok hh
    simp only [Except.ok.injEq, Option.some.injEq] at h2
    subst h2
    intro c hc
    rcases mem_joinWith hc with hc | ⟨y, hy, hcy⟩
    · left; simpa using hc
    · right
      obtain ⟨l, hl, hly⟩ := mapM_ok _ _ _ hls y hy
      rcases idnaEncode_chars hly with hk | hk
      · obtain ⟨x, hx, hx128, rfl⟩ := hk c hcy
        exact Or.inl ⟨x, mem_of_mem_splitOn1 hl x hx, hx128, rfl⟩
      · exact Or.inr ⟨l, y, hk, hcy⟩

/-- the label branch yields an ASCII lower-case text, which has a `[` only if the input has one -/
theorem normalizeHost_name_out {idna : Str → Option Str} (hc : IdnaLdh idna) {sc : Option Str}
    (hs : Normalizable sc) {h h' : Str} (h6 : ipv6AddrzMatch h = false) (h4 : ipv4Match h = false)
    (hh : normalizeHost idna (some h) sc = .ok (some h')) :
    h'.all (· < 128) = true ∧ lower h' = h' ∧ (91 ∉ h → 91 ∉ h') := by
  have key := normalizeHost_name_chars hs h6 h4 hh
  have each : ∀ c ∈ h', c < 128 ∧ lowerC c = c ∧ (91 ∉ h → c ≠ 91) := by
    intro c hcm
    rcases key c hcm with rfl | ⟨x, hx, hx128, rfl⟩ | ⟨l, r, hlr, hcr⟩
    · exact ⟨by omega, rfl, fun _ => by omega⟩
    · refine ⟨lowerC_lt128.mpr hx128, lowerC_idem x, ?_⟩
      intro h91 e
      exact h91 (((lowerC_eq_iff x 91 (by omega)).mp e) ▸ hx)
    · have := ldhC_facts (hc l r hlr c hcr)
      exact ⟨this.1, this.2.1, fun _ => this.2.2.1⟩
  exact ⟨all_lt_of_forall (fun c hcm => (each c hcm).1),
    lower_eq_self_of_forall (fun c hcm => (each c hcm).2.1),
    fun h91 e => (each 91 e).2.2 h91 rfl⟩

/-- with the weaker contract "answers are lower-case" the label branch still yields a lower-case text -/
theorem normalizeHost_name_lower {idna : Str → Option Str} (hc : ∀ l r, idna l = some r → lower r = r)
    {sc : Option Str} (hs : Normalizable sc) {h h' : Str} (h6 : ipv6AddrzMatch h = false)
    (h4 : ipv4Match h = false) (hh : normalizeHost idna (some h) sc = .ok (some h')) : lower h' = h' := by
  have key := normalizeHost_name_chars hs h6 h4 hh
  apply lower_eq_self_of_forall
  intro c hcm
  rcases key c hcm with rfl | ⟨x, -, -, rfl⟩ | ⟨l, r, hlr, hcr⟩
  · rfl
  · exact lowerC_idem x
  · exact forall_of_lower_eq_self (hc l r hlr) c hcr

/-- an ASCII host's labels never reach IDNA: the label branch is plain lower-casing -/
theorem normalizeHost_ascii {idna : Str → Option Str} {sc : Option Str} (hs : Normalizable sc) {h h' : Str}
    (ha : h.all (· < 128) = true) (h6 : ipv6AddrzMatch h = false) (h4 : ipv4Match h = false)
    (hh : normalizeHost idna (some h) sc = .ok (some h')) : h' = lower h := by
  by_cases hne : h = []
  · subst hne
    simp only [normalizeHost, List.isEmpty_nil, if_true, Except.ok.injEq, Option.some.injEq] at hh
    exact hh.symm
  · rw [normalizeHost_ascii_name idna hs hne ha h6 h4] at hh
    simp only [Except.ok.injEq, Option.some.injEq] at hh
    exact hh.symm

/-! ## every result of `_normalize_host` -/

/-- **The shape of every `_normalize_host` result** (normalizable scheme, LDH contract for IDNA): a
bracketed literal gives a lower-case literal / a zoned literal in parsed form; anything else gives an
ASCII lower-case text -/
theorem normalizeHost_out {idna : Str → Option Str} (hc : IdnaLdh idna) {sc : Option Str}
    (hs : Normalizable sc) {h h' : Str} (hh : normalizeHost idna (some h) sc = .ok (some h')) :
    (ipv6AddrzMatch h = true ∧ ((37 ∉ h ∧ LiteralHost h') ∨ (37 ∈ h ∧ ZonedHost h'))) ∨
    (ipv6AddrzMatch h = false ∧ h'.all (· < 128) = true ∧ lower h' = h' ∧ (91 ∉ h → 91 ∉ h')) := by
  by_cases h6 : ipv6AddrzMatch h = true
  · left
    obtain ⟨x, hx, hsh⟩ := normalizeHost_of_literal idna hs h6
    rw [hx] at hh
    simp only [Except.ok.injEq, Option.some.injEq] at hh
    subst hh
    refine ⟨h6, ?_⟩
    rcases hsh with ⟨a, -, b⟩ | ⟨a, b⟩
    · exact Or.inl ⟨a, b⟩
    · exact Or.inr ⟨a, b⟩
  · right
    have h6' : ipv6AddrzMatch h = false := by simpa using h6
    refine ⟨h6', ?_⟩
    by_cases h4 : ipv4Match h = true
    · have hn := ipv4Match_name h4
      rw [name_fixed idna hs hn] at hh
      simp only [Except.ok.injEq, Option.some.injEq] at hh
      subst hh
      exact ⟨hn.1, hn.2.1, fun e => e⟩
    · exact normalizeHost_name_out hc hs h6' (by simpa using h4) hh

/-- a `NameHost` result whenever the input has no `[` or the result is no literal -/
theorem nameHost_of_out {h' : Str} (ha : h'.all (· < 128) = true) (hl : lower h' = h')
    (h6 : ipv6AddrzMatch h' = false) : NameHost h' := ⟨ha, hl, h6⟩

/-! ## idempotence -/

/-- a result of one of the three shapes is a fixed point unless it has the shape of the finding -/
theorem shape_fixed (idna : Str → Option Str) {sc : Option Str} (hs : Normalizable sc) {h : Str}
    (hsh : NameHost h ∨ LiteralHost h ∨ ZonedHost h) (h25 : zone25 h = false) :
    normalizeHost idna (some h) sc = .ok (some h) := by
  rcases hsh with hn | hl | hz
  · exact name_fixed idna hs hn
  · exact literal_fixed idna hs hl
  · exact zoned_fixed idna hs hz h25

/-- where a `_normalize_host` result can be a bracketed literal although the input is none: only when a
non-ASCII label sits between brackets (then the IDNA answer may complete a literal).  For ASCII hosts,
hosts without `[` and bracketed literals this is excluded -/
theorem literal_of_literal {idna : Str → Option Str} (hc : IdnaLdh idna) {sc : Option Str}
    (hs : Normalizable sc) {h h' : Str} (hh : normalizeHost idna (some h) sc = .ok (some h'))
    (hsrc : h.all (· < 128) = true ∨ 91 ∉ h ∨ ipv6AddrzMatch h = true) :
    ipv6AddrzMatch h' = true → ipv6AddrzMatch h = true := by
  intro hm'
  by_cases h6 : ipv6AddrzMatch h = true
  · exact h6
  · exfalso
    have h6' : ipv6AddrzMatch h = false := by simpa using h6
    rcases hsrc with ha | h91 | h6''
    · by_cases h4 : ipv4Match h = true
      · have hn := ipv4Match_name h4
        rw [name_fixed idna hs hn] at hh
        simp only [Except.ok.injEq, Option.some.injEq] at hh
        subst hh
        rw [h6'] at hm'; simp at hm'
      · have := normalizeHost_ascii hs ha h6' (by simpa using h4) hh
        rw [this, ipv6AddrzMatch_lower, h6'] at hm'
        simp at hm'
    · rcases normalizeHost_out hc hs hh with ⟨h6'', -⟩ | ⟨-, -, -, hk⟩
      · exact h6 h6''
      · rw [not_match_of_no91 (hk h91)] at hm'; simp at hm'
    · exact h6 h6''

/-- **`_normalize_host` is idempotent** on every host that is ASCII, has no `[`, or is a bracketed
literal — unless the result has the `zone25` shape of the known finding -/
theorem normalizeHost_idempotent {idna : Str → Option Str} (hc : IdnaLdh idna) (h : Option Str)
    (sc : Option Str) (h' : Option Str) (hh : normalizeHost idna h sc = .ok h')
    (hsrc : ∀ x, h = some x → x.all (· < 128) = true ∨ 91 ∉ x ∨ ipv6AddrzMatch x = true)
    (h25 : ∀ y, h' = some y → zone25 y = false) :
    normalizeHost idna h' sc = .ok h' := by
  by_cases hs : Normalizable sc
  · cases h with
    | none =>
      simp only [normalizeHost, Except.ok.injEq] at hh
      subst hh; rfl
    | some x =>
      obtain ⟨y, rfl⟩ := normalizeHost_some hh
      apply shape_fixed idna hs _ (h25 y rfl)
      rcases normalizeHost_out hc hs hh with ⟨-, ⟨-, hl⟩ | ⟨-, hz⟩⟩ | ⟨h6, ha, hl, -⟩
      · exact Or.inr (Or.inl hl)
      · exact Or.inr (Or.inr hz)
      · left
        refine ⟨ha, hl, ?_⟩
        cases hm : ipv6AddrzMatch y with
        | false => rfl
        | true =>
          have := literal_of_literal hc hs hh (hsrc x rfl) hm
          rw [h6] at this; simp at this
  · exact normalizeHost_not_normalizable idna hs h'

/-! ## the `zone25` exclusion is exact -/

/-- a normal-form text that starts with a non-`%` character: the rest is in normal form too -/
theorem normalForm_tail {A : List Nat} {c : Nat} {s : Str} (hc : c ≠ 37) (h : NormalForm A (c :: s)) :
    NormalForm A s := by
  obtain ⟨ts, hg, e⟩ := h
  cases ts with
  | nil => simp at e
  | cons t r =>
    cases t with
    | chr d =>
      simp only [render_cons, Tok.text, List.cons_append, List.nil_append, List.cons.injEq] at e
      exact ⟨r, fun x hx => hg x (List.mem_cons_of_mem _ hx), e.2⟩
    | esc a b =>
      simp only [render_cons, Tok.text, List.cons_append, List.cons.injEq] at e
      exact absurd e.1 hc

/-- **the exclusion is exact**: a zoned literal in parsed form whose zone id starts with `25` and goes
on is *not* a fixed point — `_normalize_host` strips the `25` (the result is two characters shorter) -/
theorem zoned25_not_fixed (idna : Str → Option Str) {sc : Option Str} (hs : Normalizable sc) {h : Str}
    (hz : ZonedHost h) (h25 : zone25 h = true) : normalizeHost idna (some h) sc ≠ .ok (some h) := by
  obtain ⟨h6, hl, z, hz, hnf⟩ := hz
  have hzo := zoneOf_of hz
  simp only [zone25, h6, hzo, Bool.true_and, Bool.and_eq_true, bne_iff_ne, ne_eq] at h25
  obtain ⟨r, rfl⟩ : ∃ r, z = 50 :: 53 :: r := by
    match z, h25.1 with
    | [], hp => simp [isPrefix] at hp
    | [_], hp => simp [isPrefix] at hp
    | x :: y :: r, hp =>
      simp only [isPrefix, List.length_cons, List.length_nil, List.take_succ_cons, List.take_zero] at hp
      simp only [Bool.and_eq_true, decide_eq_true_eq, beq_iff_eq, List.cons.injEq, and_true] at hp
      exact ⟨r, by rw [hp.2.1, hp.2.2]⟩
  have hid : zoneIdOf (50 :: 53 :: r) = r := by
    unfold zoneIdOf
    have : (isPrefix [50, 53] (50 :: 53 :: r) && (50 :: 53 :: r) != [50, 53]) = true := by
      simp only [Bool.and_eq_true, bne_iff_ne, ne_eq]
      exact ⟨h25.1, h25.2⟩
    rw [this]; rfl
  have hnr : NormalForm Gen.unreservedChars r := normalForm_tail (by omega) (normalForm_tail (by omega) hnf)
  have hr : h.dropWhile (· != 37) ≠ [] := by
    intro e; rw [e] at hz; simp at hz
  have hre : (h.dropWhile (· != 37)).isEmpty = false := by simpa using hr
  have hsplit : h = h.takeWhile (· != 37) ++ (37 :: 50 :: 53 :: r ++
      (h.dropWhile (· != 37)).dropWhile (· != 93)) := by
    rw [← hz, List.takeWhile_append_dropWhile, List.takeWhile_append_dropWhile]
  intro e
  unfold normalizeHost at e
  simp only [not_empty_of_match h6, Bool.false_eq_true, if_false, hs.eq, if_true, h6, hre, hz, zoneId_eq, hid,
    hl, encode_keeps' encSet_unreserved hnr, Except.ok.injEq, Option.some.injEq] at e
  have hlen := congrArg List.length e
  conv at hlen => rhs; rw [hsplit]
  simp only [List.length_append, List.length_cons, List.length_nil] at hlen
  omega

/-! ## the hosts `_HOST_PORT_RE` hands to `_normalize_host` -/

theorem hexC_ne91 {c : Nat} (h : isHexC c = true) : c ≠ 91 := by
  simp only [isHexC, isDigitC, Bool.or_eq_true, Bool.and_eq_true, decide_eq_true_eq] at h
  omega

/-- the reg-name run contains no `[` -/
theorem regName_no91 (ts : List Tok) (hok : ∀ t ∈ ts, t.ok = true) (hr : ∀ t ∈ ts, regNameTok t = true) :
    91 ∉ renderToks ts := by
  simp only [renderToks, List.mem_flatMap, not_exists, not_and]
  intro t ht
  have hk := hok t ht
  have hrt := hr t ht
  cases t with
  | chr c =>
    simp only [Tok.text, List.mem_singleton]
    intro e; subst e
    simp [regNameTok, regNameChar] at hrt
  | esc a b =>
    simp only [Tok.ok, Bool.and_eq_true] at hk
    simp only [Tok.text, List.mem_cons, List.not_mem_nil, or_false, not_or]
    exact ⟨by omega, Ne.symm (hexC_ne91 hk.1), Ne.symm (hexC_ne91 hk.2)⟩

/-- **what `_HOST_PORT_RE` captures as the host**: a reg-name run (no `[`) or a bracketed literal -/
theorem hostPortRe_host {hp h : Str} {p : Option Str} (hm : hostPortRe hp = some (h, p)) :
    91 ∉ h ∨ ipv6AddrzMatch h = true := by
  unfold hostPortRe at hm
  simp only at hm
  split at hm
  · simp only [Option.some.injEq, Prod.mk.injEq] at hm
    left
    rw [← hm.1]
    exact regName_no91 _ (fun x hx => tokenize_ok hp x ((List.takeWhile_prefix _).subset hx))
      (fun x hx => mem_takeWhile_tok hx)
  · right
    unfold hostPortBracket at hm
    split at hm
    · rename_i t
      simp only at hm
      split at hm
      · split at hm
        · rename_i hb
          cases hpp : portPart _ with
          | none => rw [hpp] at hm; simp at hm
          | some q =>
            rw [hpp] at hm
            simp only [Option.map_some, Option.some.injEq, Prod.mk.injEq] at hm
            rw [← hm.1, ipv6AddrzMatch_iff]
            exact ⟨_, rfl, not_mem_takeWhile_ne 93 _, hb⟩
        · simp at hm
      · simp at hm
    · simp at hm

/-- the host of a successful parse: `_normalize_host` (under the URL's own scheme) of a text that
`_HOST_PORT_RE` captured -/
theorem parse_host_origin {idna : Str → Option Str} {s : Str} {u : Url} (h : parseUrlWith idna s = .ok u)
    {h' : Str} (hh : u.host = some h') :
    ∃ x, (91 ∉ x ∨ ipv6AddrzMatch x = true) ∧ normalizeHost idna (some x) u.scheme = .ok (some h') := by
  rcases parseUrlWith_ok' h with rfl | ⟨sc, au, ho, po, pa, q, f, hc, rfl⟩
  · simp only [parseUrlWith, List.isEmpty_nil, if_true, Except.ok.injEq] at h
    subst h
    simp [Url.empty] at hh
  · obtain ⟨h0, port, hsc, hpa, -, hhost⟩ := parseCore_ok' hc
    have hscl : sc.map lower = sc := by
      rw [hsc]; cases (splitScheme (if schemeRe s = true then s else 47 :: 47 :: s)).1 <;> simp
    simp only [mkUrl, hscl] at hh ⊢
    subst hh
    unfold parseAuthority at hpa
    simp only at hpa
    split at hpa
    · simp only [Except.ok.injEq, Prod.mk.injEq] at hpa
      obtain ⟨-, rfl, -⟩ := hpa
      simp [normalizeHost] at hhost
    · split at hpa
      · simp only [Except.ok.injEq, Prod.mk.injEq] at hpa
        obtain ⟨-, rfl, -⟩ := hpa
        simp [normalizeHost] at hhost
      · split at hpa
        · simp at hpa
        · rename_i hx pp hre
          simp only [Except.ok.injEq, Prod.mk.injEq] at hpa
          obtain ⟨-, hh0, -⟩ := hpa
          rcases ite_none_some hh0 with ⟨-, rfl⟩ | ⟨-, rfl⟩
          · simp [normalizeHost] at hhost
          · exact ⟨hx, hostPortRe_host hre, hhost⟩

theorem normalizable_of_mem {sc : Option Str}
    (h : sc ∈ [some [104, 116, 116, 112], some [104, 116, 116, 112, 115], none]) : Normalizable sc := by
  simp only [List.mem_cons, List.not_mem_nil, or_false] at h
  rcases h with rfl | rfl | rfl <;> (unfold Normalizable; decide)

/-- **The host of every successful parse under http / https / no scheme has one of three shapes**:
ASCII lower-case non-literal (reg-name, A-labels, dotted quad, empty), lower-case bracketed literal,
zoned literal with lower-case address and normal-form zone id -/
theorem parsed_host_shape {idna : Str → Option Str} (hc : IdnaLdh idna) {s : Str} {u : Url}
    (h : parseUrlWith idna s = .ok u) (hs : Normalizable u.scheme) {h' : Str} (hh : u.host = some h') :
    NameHost h' ∨ LiteralHost h' ∨ ZonedHost h' := by
  obtain ⟨x, hx, hn⟩ := parse_host_origin h hh
  rcases normalizeHost_out hc hs hn with ⟨-, ⟨-, hl⟩ | ⟨-, hz⟩⟩ | ⟨h6, ha, hl, hk⟩
  · exact Or.inr (Or.inl hl)
  · exact Or.inr (Or.inr hz)
  · left
    rcases hx with h91 | h6'
    · exact ⟨ha, hl, not_match_of_no91 (hk h91)⟩
    · rw [h6] at h6'; simp at h6'

/-- hence the pool's second `_normalize_host` leaves the parsed host alone — unless it has the
`zone25` shape of the known finding -/
theorem parsed_host_fixed {idna : Str → Option Str} (hc : IdnaLdh idna) {s : Str} {u : Url}
    (h : parseUrlWith idna s = .ok u) (hs : Normalizable u.scheme) {h' : Str} (hh : u.host = some h')
    (h25 : zone25 h' = false) : normalizeHost idna (some h') u.scheme = .ok (some h') :=
  shape_fixed idna hs (parsed_host_shape hc h hs hh) h25

/-! ## lower case -/

theorem zoned_has_pct {h : Str} (hz : ZonedHost h) : ipv6AddrzMatch h = true ∧ 37 ∈ h := by
  obtain ⟨h6, -, z, hz, -⟩ := hz
  refine ⟨h6, ?_⟩
  apply Classical.byContradiction
  intro h37
  rw [dropWhile_ne_nil_of_not_mem h37] at hz
  simp at hz

/-- **`_normalize_host` lower-cases everything but the zone id of a bracketed literal** (contract:
IDNA answers are lower-case): the text before the first `%` is always lower-case, and the whole result
is unless the input is a bracketed literal with a zone id -/
theorem normalizeHost_lower_full {idna : Str → Option Str} (hc : ∀ l r, idna l = some r → lower r = r)
    {sc : Option Str} (hs : Normalizable sc) {h h' : Str}
    (hh : normalizeHost idna (some h) sc = .ok (some h')) :
    lower (h'.takeWhile (· != 37)) = h'.takeWhile (· != 37) ∧
    (¬ (ipv6AddrzMatch h = true ∧ 37 ∈ h) → lower h' = h') ∧
    (ipv6AddrzMatch h = true → 37 ∈ h → ZonedHost h') := by
  have whole : lower h' = h' → lower (h'.takeWhile (· != 37)) = h'.takeWhile (· != 37) := by
    intro e
    rw [← takeWhile_lower 37 (by omega), e]
  by_cases h6 : ipv6AddrzMatch h = true
  · obtain ⟨x, hx, hsh⟩ := normalizeHost_of_literal idna hs h6
    rw [hx] at hh
    simp only [Except.ok.injEq, Option.some.injEq] at hh
    subst hh
    rcases hsh with ⟨h37, -, hl⟩ | ⟨h37, hz⟩
    · exact ⟨whole hl.2.2, fun _ => hl.2.2, fun _ e => absurd e h37⟩
    · exact ⟨hz.2.1, fun hn => absurd ⟨h6, h37⟩ hn, fun _ _ => hz⟩
  · have h6' : ipv6AddrzMatch h = false := by simpa using h6
    have hl : lower h' = h' := by
      by_cases h4 : ipv4Match h = true
      · have hn := ipv4Match_name h4
        rw [name_fixed idna hs hn] at hh
        simp only [Except.ok.injEq, Option.some.injEq] at hh
        subst hh
        exact hn.2.1
      · exact normalizeHost_name_lower hc hs h6' (by simpa using h4) hh
    exact ⟨whole hl, fun _ => hl, fun e => absurd e h6⟩

/-- the same for the host of a successful parse, stated on the host itself: lower-case up to the first
`%`, and lower-case throughout unless it is a bracketed literal with a zone id -/
theorem parsed_host_lower {idna : Str → Option Str} (hc : ∀ l r, idna l = some r → lower r = r)
    {s : Str} {u : Url} (h : parseUrlWith idna s = .ok u) (hs : Normalizable u.scheme) {h' : Str}
    (hh : u.host = some h') :
    lower (h'.takeWhile (· != 37)) = h'.takeWhile (· != 37) ∧
    (¬ (ipv6AddrzMatch h' = true ∧ 37 ∈ h') → lower h' = h') := by
  obtain ⟨x, -, hn⟩ := parse_host_origin h hh
  obtain ⟨h1, h2, h3⟩ := normalizeHost_lower_full hc hs hn
  refine ⟨h1, fun hno => h2 (fun hx => hno (zoned_has_pct (h3 hx.1 hx.2)))⟩

/-! ## the parsed host is ASCII -/

theorem findDoubleColon_some {s bef aft : Str} (h : findDoubleColon s = some (bef, aft)) :
    s = bef ++ 58 :: 58 :: aft := by
  induction s generalizing bef with
  | nil => simp [findDoubleColon] at h
  | cons a r ih =>
    cases r with
    | nil => simp [findDoubleColon] at h
    | cons b t =>
      simp only [findDoubleColon] at h
      split at h
      · rename_i hc
        simp only [Bool.and_eq_true, decide_eq_true_eq] at hc
        simp only [Option.some.injEq, Prod.mk.injEq] at h
        obtain ⟨rfl, rfl⟩ := h
        rw [hc.1, hc.2]; rfl
      · cases hf : findDoubleColon (b :: t) with
        | none => rw [hf] at h; simp at h
        | some pr =>
          obtain ⟨x, y⟩ := pr
          rw [hf] at h
          simp only [Option.some.injEq, Prod.mk.injEq] at h
          obtain ⟨rfl, rfl⟩ := h
          rw [ih hf]; rfl

theorem digit_hex {c : Nat} (h : isDigitC c = true) : isHexC c = true := by simp [isHexC, h]

/-- a well-formed group list consists of hex digits, colons and dots -/
theorem countGroups_chars {v4 : Bool} {s : Str} {n : Nat} (h : countGroups v4 s = some n) :
    ∀ c ∈ s, isHexC c = true ∨ c = 58 ∨ c = 46 := by
  intro c hc
  have hj := joinWith_splitOn1 58 s
  rw [← hj] at hc
  rcases mem_joinWith hc with hc | ⟨p, hp, hcp⟩
  · right; left; simpa using hc
  · unfold countGroups at h
    simp only at h
    split at h
    · rename_i he
      have : s = [] := by simpa using he
      subst this
      simp only [splitOn1, List.mem_singleton] at hp
      subst hp; simp at hcp
    · split at h
      · rename_i hall
        simp only [List.all_eq_true] at hall
        have := hall p hp
        simp only [isH16, Bool.and_eq_true, List.all_eq_true] at this
        exact Or.inl (this.2 c hcp)
      · split at h
        · rename_i l hlast
          split at h
          · rename_i hv
            simp only [Bool.and_eq_true, List.all_eq_true] at hv
            obtain ⟨⟨-, hd⟩, hl⟩ := hv
            obtain ⟨ys, hys⟩ := List.getLast?_eq_some_iff.mp hlast
            rw [hys] at hp hd
            simp only [List.dropLast_concat] at hd
            rcases List.mem_append.mp hp with hp | hp
            · have := hd p hp
              simp only [isH16, Bool.and_eq_true, List.all_eq_true] at this
              exact Or.inl (this.2 c hcp)
            · simp only [List.mem_singleton] at hp
              subst hp
              rcases isIPv4_chars hl c hcp with h1 | h1
              · exact Or.inl (digit_hex h1)
              · exact Or.inr (Or.inr h1)
          · simp at h
        · simp at h

/-- an IPv6 address text consists of hex digits, colons and dots -/
theorem isIPv6_chars {s : Str} (h : isIPv6 s = true) : ∀ c ∈ s, isHexC c = true ∨ c = 58 ∨ c = 46 := by
  unfold isIPv6 at h
  split at h
  · simp only [Bool.and_eq_true, beq_iff_eq] at h
    exact countGroups_chars h.1
  · rename_i bef aft hf
    have hs := findDoubleColon_some hf
    split at h
    · rename_i b a hb ha
      intro c hc
      rw [hs] at hc
      simp only [List.mem_append, List.mem_cons] at hc
      rcases hc with hc | hc | hc | hc
      · exact countGroups_chars hb c hc
      · exact Or.inr (Or.inl hc)
      · exact Or.inr (Or.inl hc)
      · exact countGroups_chars ha c hc
    · simp at h

theorem hexC_lt128 {c : Nat} (h : isHexC c = true ∨ c = 58 ∨ c = 46) : c < 128 := by
  rcases h with h | h | h
  · exact (hexC_lt h).1
  · omega
  · omega

theorem normalForm_ascii {A : List Nat} {z : Str} (h : NormalForm A z) : ∀ c ∈ z, c < 128 := by
  obtain ⟨ts, hg, rfl⟩ := h
  intro c hc
  simp only [renderToks, List.mem_flatMap] at hc
  obtain ⟨t, ht, hct⟩ := hc
  have := hg t ht
  cases t with
  | chr d =>
    simp only [Tok.good, Bool.and_eq_true, decide_eq_true_eq] at this
    simp only [Tok.text, List.mem_singleton] at hct
    subst hct; exact this.1.2
  | esc a b =>
    simp only [Tok.good, Bool.and_eq_true] at this
    simp only [Tok.text, List.mem_cons, List.not_mem_nil, or_false] at hct
    rcases hct with rfl | rfl | rfl
    · omega
    · exact (isHexUp_lt this.1).1
    · exact (isHexUp_lt this.2).1

/-- a bracketed literal whose zone id (if any) is ASCII is ASCII -/
theorem literal_ascii {h : Str} (hm : ipv6AddrzMatch h = true)
    (hz : ∀ c ∈ (h.dropWhile (· != 37)).takeWhile (· != 93), c < 128) : ∀ c ∈ h, c < 128 := by
  obtain ⟨c, rfl, h93, hb⟩ := (ipv6AddrzMatch_iff h).mp hm
  rcases bracket_cases c hb with ⟨-, h6⟩ | ⟨a, z, rfl, ha37, ha6, -, -⟩
  · intro x hx
    simp only [List.cons_append, List.mem_cons, List.mem_append, List.not_mem_nil, or_false] at hx
    rcases hx with rfl | hx | rfl
    · omega
    · exact hexC_lt128 (isIPv6_chars h6 x hx)
    · omega
  · have e : 91 :: (a ++ 37 :: z) ++ [93] = 91 :: (a ++ 37 :: (z ++ [93])) := by simp
    have hz93 : 93 ∉ z := fun e => h93 (by simp [e])
    have h1 := split_at_ne 37 (91 :: a) (z ++ [93]) (by simp [ha37])
    have h2 := split_at_ne 93 (37 :: z) [] (by simp [hz93])
    simp only [List.cons_append] at h1 h2
    rw [e] at hz ⊢
    rw [h1.2, h2.1] at hz
    intro x hx
    simp only [List.mem_cons, List.mem_append, List.not_mem_nil, or_false] at hx
    rcases hx with rfl | hx | rfl | hx | rfl
    · omega
    · exact hexC_lt128 (isIPv6_chars ha6 x hx)
    · omega
    · exact hz x (by simp [hx])
    · omega

/-- each of the three shapes is ASCII -/
theorem shape_ascii {h : Str} (hsh : NameHost h ∨ LiteralHost h ∨ ZonedHost h) : h.all (· < 128) = true := by
  rcases hsh with hn | hl | hz
  · exact hn.1
  · apply all_lt_of_forall
    apply literal_ascii hl.1
    rw [dropWhile_ne_nil_of_not_mem hl.2.1]; simp
  · obtain ⟨h6, -, z, hz, hnf⟩ := hz
    apply all_lt_of_forall
    apply literal_ascii h6
    rw [hz]
    intro c hc
    rcases List.mem_cons.mp hc with rfl | hc
    · omega
    · exact normalForm_ascii hnf c hc

end U3.Url
