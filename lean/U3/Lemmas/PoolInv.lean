import U3.Model.Pool
import U3.Lemmas.Pool
import U3.Lemmas.PoolProv
import U3.Lemmas.PoolLink
set_option linter.unusedSimpArgs false
set_option linter.unusedVariables false
/-!
# The slot invariant is an invariant of every history (C01)

`Inv (run (init n block proxy) ops)` for every list of operations `ops` (`run_inv`): the counting
invariant `InvL` of `U3/Lemmas/Pool.lean` is preserved by `request` (every script, every retry
budget, every configuration), by every way of disposing of a response and by `closePool`.

Technique: `Pres C s s'` ("`s'` is reached from `s` by moves that keep `InvL · L` for every lease
list `L ⊇ C`, never make a response hold a connection it did not hold, and never drop a response or
a connection object") is reflexive, transitive, contains the primitive `Steps` of
`U3/Lemmas/Pool.lean` and `releaseConn`; every function of the read family is exhibited as `Pres`.
The three moves that change who owns a connection are handled one by one: `_get_conn`
(`getConn_inv`: queue → lease), attaching the connection to the response (`attachResp_inv`:
lease → held, or lease kept), `release_conn` (`releaseConn_inv`: held → queue).
-/
namespace U3.Pool

/-! ### `InvL` only looks at the owned connections up to permutation -/

theorem invL_of_perm {s s' : State} {L L' : List Nat} (h1 : s'.maxsize = s.maxsize) (h2 : s'.block = s.block)
    (h4 : s'.queue = s.queue) (h5 : s'.closed = s.closed) (h6 : s'.conns = s.conns)
    (hp : (L' ++ held s').Perm (L ++ held s)) (h : InvL s L) : InvL s' L' := by
  have hq : queued s' = queued s := by simp [queued, h4]
  have ho : (owned s' L').Perm (owned s L) := by
    simp only [owned, hq]; exact hp.append_left _
  have hlen : L'.length + (held s').length = L.length + (held s).length := by
    have := hp.length_eq; simpa using this
  refine ⟨by rw [h1]; exact h.pos, ho.nodup_iff.mpr h.nodup, ?_, ?_, ?_, ?_, ?_, ?_⟩
  · intro c cn hc hs; rw [h6] at hc; exact ho.mem_iff.mpr (h.live c cn hc hs)
  · intro c hc; rw [h6]; exact h.bound c (ho.mem_iff.mp hc)
  · intro hc; rw [h4]; exact h.closedq (by rw [← h5]; exact hc)
  · rw [h4, h1]; exact h.len
  · intro hc; rw [h4, h1, hlen]; exact h.slots (by rw [← h5]; exact hc)
  · intro hc hb; rw [h4, h1, hlen]; exact h.slotsB (by rw [← h5]; exact hc) (by rw [← h2]; exact hb)

theorem held_setResp_perm (s : State) (r : Nat) (f : Resp → Resp) (rs : Resp) (h : s.resps[r]? = some rs) :
    (held (setResp s r f) ++ rs.conn.toList).Perm (held s ++ (f rs).conn.toList) :=
  filterMap_modify_perm (fun x : Resp => x.conn) f s.resps r rs h

/-- a response gives up its connection: the connection counts as leased -/
theorem unhold_inv {s : State} {L : List Nat} {r c : Nat} {rs : Resp} (h : InvL s L) (hr : s.resps[r]? = some rs)
    (hc : rs.conn = some c) : InvL (setResp s r fun x => { x with conn := none }) (c :: L) := by
  have hp := held_setResp_perm s r (fun x => { x with conn := none }) rs hr
  simp only [hc, Option.toList_some, Option.toList_none, List.append_nil] at hp
  refine invL_of_perm (s := s) rfl rfl rfl rfl rfl ?_ h
  have e1 : (c :: L) ++ held (setResp s r fun x => { x with conn := none })
      = c :: (L ++ held (setResp s r fun x => { x with conn := none })) := rfl
  rw [e1]
  refine (List.perm_append_singleton c _).symm.trans ?_
  rw [List.append_assoc]
  exact hp.append_left L

/-- `response._connection = conn`: the lease becomes a hold (or, for `v = none`, stays a lease) -/
theorem attach_inv {s : State} {L : List Nat} {r c : Nat} {rs : Resp} (h : InvL s (c :: L)) (hr : s.resps[r]? = some rs)
    (hc : rs.conn = none) (g : Resp → Resp) (hg : (g rs).conn = some c) : InvL (setResp s r g) L := by
  have hp := held_setResp_perm s r g rs hr
  simp only [hc, hg, Option.toList_some, Option.toList_none, List.append_nil] at hp
  refine invL_of_perm (s := s) rfl rfl rfl rfl rfl ?_ h
  refine (hp.append_left L).trans ?_
  rw [← List.append_assoc]
  exact List.perm_append_singleton c _

/-- a response whose `_connection` stays what it was -/
theorem keep_inv {s : State} {L : List Nat} {r : Nat} (h : InvL s L) (g : Resp → Resp)
    (hg : ∀ rs, s.resps[r]? = some rs → (g rs).conn = rs.conn) : InvL (setResp s r g) L := by
  cases hr : s.resps[r]? with
  | none =>
    have : (setResp s r g).resps = s.resps := by
      simp only [setResp]
      exact List.modify_eq_self (by
        have := List.getElem?_eq_none_iff.mp hr; omega) 
    exact invL_of_perm (s := s) rfl rfl rfl rfl rfl (by simp [held, this]) h
  | some rs =>
    have hp := held_setResp_perm s r g rs hr
    rw [hg rs hr] at hp
    exact invL_of_perm (s := s) rfl rfl rfl rfl rfl ((List.perm_append_right_iff _).mp hp |>.append_left L) h

/-! ### primitive steps neither invent nor drop a hold -/

theorem step_conn_fwd {C : List Nat} {s s' : State} (st : Step C s s') (r : Nat) (rs : Resp) (h : s.resps[r]? = some rs) :
    ∃ rs', s'.resps[r]? = some rs' ∧ rs'.conn = rs.conn := by
  cases st with
  | frame h1 h2 h4 h5 h6 h7 => exact ⟨rs, by rw [h7]; exact h, rfl⟩
  | resp r0 f hf =>
    by_cases hr : r0 = r
    · subst hr; exact ⟨f rs, by simp [setResp, List.getElem?_modify, h], hf rs⟩
    · exact ⟨rs, by simp [setResp, List.getElem?_modify, hr, h], rfl⟩
  | conn c f hf => exact ⟨rs, h, rfl⟩
  | opn c f hc => exact ⟨rs, h, rfl⟩
  | newResp x hx =>
    refine ⟨rs, ?_, rfl⟩
    have hlt : r < s.resps.length := (List.getElem?_eq_some_iff.mp h).1
    show (s.resps ++ [x])[r]? = some rs
    rw [List.getElem?_append_left hlt]; exact h

theorem steps_conn_fwd {C : List Nat} {s s' : State} (st : Steps C s s') (r : Nat) (rs : Resp) (h : s.resps[r]? = some rs) :
    ∃ rs', s'.resps[r]? = some rs' ∧ rs'.conn = rs.conn := by
  induction st generalizing rs with
  | refl => exact ⟨rs, h, rfl⟩
  | cons a _ ih =>
    obtain ⟨rs1, h1, e1⟩ := step_conn_fwd a r rs h
    obtain ⟨rs2, h2, e2⟩ := ih rs1 h1
    exact ⟨rs2, h2, by rw [e2, e1]⟩

theorem step_conn_bwd {C : List Nat} {s s' : State} (st : Step C s s') (r : Nat) (rs' : Resp) (h : s'.resps[r]? = some rs')
    (hn : rs'.conn ≠ none) : ∃ rs, s.resps[r]? = some rs ∧ rs.conn = rs'.conn := by
  cases st with
  | frame h1 h2 h4 h5 h6 h7 => exact ⟨rs', by rw [← h7]; exact h, rfl⟩
  | resp r0 f hf =>
    simp only [setResp, List.getElem?_modify] at h
    cases hx : s.resps[r]? with
    | none => simp [hx] at h
    | some x =>
      simp only [hx, Option.map_eq_map, Option.map_some, Option.some.injEq] at h
      subst h
      refine ⟨x, rfl, ?_⟩
      split
      · exact (hf x).symm
      · rfl
  | conn c f hf => exact ⟨rs', h, rfl⟩
  | opn c f hc => exact ⟨rs', h, rfl⟩
  | newResp x hx =>
    have h' : (s.resps ++ [x])[r]? = some rs' := h
    by_cases hlt : r < s.resps.length
    · rw [List.getElem?_append_left hlt] at h'; exact ⟨rs', h', rfl⟩
    · rw [List.getElem?_append_right (by omega)] at h'
      have : rs' = x := by
        cases hq : r - s.resps.length with
        | zero => simp [hq] at h'; exact h'.symm
        | succ m => simp [hq] at h'
      subst this; exact absurd hx hn

theorem step_lens {C : List Nat} {s s' : State} (st : Step C s s') :
    s.resps.length ≤ s'.resps.length ∧ s.conns.length ≤ s'.conns.length := by
  cases st with
  | frame h1 h2 h4 h5 h6 h7 => rw [h6, h7]; exact ⟨Nat.le_refl _, Nat.le_refl _⟩
  | resp r0 f hf => simp [setResp]
  | conn c f hf => simp [setConn]
  | opn c f hc => simp [setConn]
  | newResp x hx => simp

/-- no response of `s'` holds a connection it did not hold in `s`; no response or connection object
is dropped -/
structure Mono (s s' : State) : Prop where
  conn : ∀ (r : Nat) (rs' : Resp), s'.resps[r]? = some rs' → rs'.conn ≠ none → ∃ rs : Resp, s.resps[r]? = some rs ∧ rs.conn = rs'.conn
  rlen : s.resps.length ≤ s'.resps.length
  clen : s.conns.length ≤ s'.conns.length
  msz : s'.maxsize = s.maxsize
  blk : s'.block = s.block

theorem Mono.refl (s : State) : Mono s s := ⟨fun r rs' h _ => ⟨rs', h, rfl⟩, Nat.le_refl _, Nat.le_refl _, rfl, rfl⟩

theorem Mono.trans {s t u : State} (a : Mono s t) (b : Mono t u) : Mono s u := by
  refine ⟨?_, Nat.le_trans a.rlen b.rlen, Nat.le_trans a.clen b.clen, by rw [b.msz, a.msz], by rw [b.blk, a.blk]⟩
  intro r rs' h hn
  obtain ⟨rs1, h1, e1⟩ := b.conn r rs' h hn
  obtain ⟨rs0, h0, e0⟩ := a.conn r rs1 h1 (by rw [e1]; exact hn)
  exact ⟨rs0, h0, by rw [e0, e1]⟩

theorem Mono.of_eq {s s' : State} (hr : s'.resps = s.resps) (hc : s'.conns = s.conns)
    (hm : s'.maxsize = s.maxsize := by rfl) (hb : s'.block = s.block := by rfl) : Mono s s' :=
  ⟨fun r rs' h _ => ⟨rs', by rw [← hr]; exact h, rfl⟩, by rw [hr]; exact Nat.le_refl _, by rw [hc]; exact Nat.le_refl _, hm, hb⟩

theorem Mono.of_step {C : List Nat} {s s' : State} (st : Step C s s') : Mono s s' :=
  ⟨step_conn_bwd st, (step_lens st).1, (step_lens st).2, (step_frame st).2.1, (step_frame st).2.2.1⟩

theorem Mono.of_steps {C : List Nat} {s s' : State} (st : Steps C s s') : Mono s s' := by
  induction st with
  | refl => exact Mono.refl _
  | cons a _ ih => exact (Mono.of_step a).trans ih

/-- `s'` is reached from `s` by moves that keep `InvL · L` for every lease list `L ⊇ C`, never make a
response hold a connection it did not hold before, and never drop a response or a connection object -/
structure Pres (C : List Nat) (s s' : State) : Prop where
  inv : ∀ L, (∀ c ∈ C, c ∈ L) → InvL s L → InvL s' L
  mono : Mono s s'

theorem Pres.refl (C : List Nat) (s : State) : Pres C s s := ⟨fun _ _ h => h, Mono.refl s⟩

theorem Pres.trans {C : List Nat} {s t u : State} (a : Pres C s t) (b : Pres C t u) : Pres C s u :=
  ⟨fun L hC h => b.inv L hC (a.inv L hC h), a.mono.trans b.mono⟩

theorem Pres.of_steps {C : List Nat} {s s' : State} (st : Steps C s s') : Pres C s s' :=
  ⟨fun L hC h => steps_inv hC st h, Mono.of_steps st⟩

theorem Pres.of_step {C : List Nat} {s s' : State} (st : Step C s s') : Pres C s s' := Pres.of_steps (.one st)

theorem Pres.mono' {C D : List Nat} {s s' : State} (h : Pres C s s') (hCD : ∀ c ∈ C, c ∈ D) : Pres D s s' :=
  ⟨fun L hD hi => h.inv L (fun c hc => hD c (hCD c hc)) hi, h.mono⟩

/-! ### `release_conn()`: held → queue -/

theorem held_mem {s : State} {r c : Nat} {rs : Resp} (hr : s.resps[r]? = some rs) (hc : rs.conn = some c) : c ∈ held s := by
  simp only [held, List.mem_filterMap]
  exact ⟨rs, List.mem_of_getElem? hr, hc⟩

theorem connClose_resp_conn (s : State) (c r : Nat) (rs : Resp) (h : s.resps[r]? = some rs) :
    ∃ rs', (connClose s c).resps[r]? = some rs' ∧ rs'.conn = rs.conn :=
  steps_conn_fwd (connClose_steps [] s c) r rs h

/-- `release_conn()` keeps the invariant, and its `_put_conn` never raises `FullPoolError`: a pool
that blocks is never full while a response still holds a connection -/
theorem releaseConn_inv {s : State} {L : List Nat} (r : Nat) (h : InvL s L) :
    InvL (releaseConn s r).1 L ∧ (releaseConn s r).2 = none := by
  unfold releaseConn
  split
  · exact ⟨h, rfl⟩
  · rename_i rs hrs
    split
    · exact ⟨h, rfl⟩
    · split
      · exact ⟨h, rfl⟩
      · rename_i c hc
        have h0 : InvL (logEv s (.put (some c))) L := logEv_inv _ h
        have hr0 : (logEv s (.put (some c))).resps[r]? = some rs := hrs
        unfold putConn
        generalize logEv s (.put (some c)) = s0 at h0 hr0
        simp only
        have hheld : 1 ≤ (held s0).length := List.length_pos_of_mem (held_mem hr0 hc)
        -- closing `c` and dropping the hold
        have dropHold : ∀ t : State, InvL t L → (∀ rs0 : Resp, s0.resps[r]? = some rs0 → ∃ rs', t.resps[r]? = some rs' ∧ rs'.conn = rs0.conn) →
            (∀ cn, t.conns[c]? = some cn → cn.sock = none) →
            (t.closed = true ∨ (t.maxsize ≤ t.queue.length ∧ t.block = false)) →
            InvL (setResp t r fun x => { x with conn := none }) L := by
          intro t ht hrt hst hq
          obtain ⟨rs', hr', e'⟩ := hrt rs hr0
          exact drop_lease (unhold_inv ht hr' (by rw [e', hc])) hst hq
        by_cases hcl : s0.closed = true
        · simp only [hcl, Bool.not_true, Bool.false_eq_true, if_false]
          refine ⟨dropHold _ (connClose_inv c h0) (fun rs0 h => connClose_resp_conn s0 c r rs0 h)
            (fun cn hcn => connClose_sock_none _ _ _ hcn) (Or.inl (by rw [(connClose_frame s0 c).2.2.2]; exact hcl)), trivial⟩
        · have hcl' : s0.closed = false := by cases hx : s0.closed <;> simp_all
          rw [if_pos (by simp [hcl'] : (!s0.closed) = true)]
          by_cases hf : queueFull s0 = true
          · have hfull : s0.maxsize ≤ s0.queue.length := by simp [queueFull] at hf; exact hf.2
            rw [if_neg (by simp [hf] : ¬ (!queueFull s0) = true)]
            by_cases hb : s0.block = true
            · have := h0.slotsB hcl' hb; omega
            · have hb' : s0.block = false := by cases hx : s0.block <;> simp_all
              rw [if_neg hb]
              have f1 := connClose_frame s0 c
              have f2 := connClose_frame (connClose s0 c) c
              refine ⟨dropHold _ (connClose_inv c (connClose_inv c h0)) ?_ (fun cn hcn => connClose_sock_none _ _ _ hcn)
                (Or.inr ⟨by rw [f2.1, f2.2.1, f1.1, f1.2.1]; exact hfull, by rw [f2.2.2.1, f1.2.2.1]; exact hb'⟩), rfl⟩
              intro rs0 h
              obtain ⟨rs1, g1, e1⟩ := connClose_resp_conn s0 c r rs0 h
              obtain ⟨rs2, g2, e2⟩ := connClose_resp_conn (connClose s0 c) c r rs1 g1
              exact ⟨rs2, g2, by rw [e2, e1]⟩
          · have hf' : queueFull s0 = false := by cases hx : queueFull s0 <;> simp_all
            rw [if_pos (by simp [hf'] : (!queueFull s0) = true)]
            have hpos := h0.pos
            have hl : s0.queue.length < s0.maxsize := by simp [queueFull] at hf'; omega
            have hu := unhold_inv h0 hr0 hc
            have e := enqueue_inv (some c) hu (Or.inl rfl) hcl' hl
            exact ⟨e, rfl⟩

theorem putConn_mono (s : State) (x : Option Nat) : Mono s (putConn s x).1 := by
  have h0 : Mono s (logEv s (.put x)) := Mono.of_eq rfl rfl
  refine h0.trans ?_
  unfold putConn
  generalize logEv s (.put x) = t
  simp only
  have cc : ∀ (u : State) (i : Nat), Mono u (connClose u i) := fun u i => Mono.of_steps (connClose_steps [] u i)
  split
  · split
    · exact Mono.of_eq rfl rfl
    · cases x with
      | none => split <;> exact Mono.refl _
      | some i =>
        split
        · exact cc t i
        · exact (cc t i).trans (cc _ i)
  · cases x with
    | none => exact Mono.refl _
    | some i => exact cc t i

theorem setResp_mono (s : State) (r : Nat) (f : Resp → Resp) (hf : ∀ x, (f x).conn = x.conn ∨ (f x).conn = none) :
    Mono s (setResp s r f) := by
  refine ⟨?_, by simp [setResp], by simp [setResp], rfl, rfl⟩
  intro i rs' h hn
  simp only [setResp, List.getElem?_modify] at h
  cases hx : s.resps[i]? with
  | none => simp [hx] at h
  | some x =>
    simp only [hx, Option.map_eq_map, Option.map_some, Option.some.injEq] at h
    subst h
    refine ⟨x, rfl, ?_⟩
    split
    · rename_i hri
      rw [if_pos hri] at hn
      rcases hf x with e | e
      · exact e.symm
      · exact absurd e hn
    · rfl

theorem releaseConn_pres (C : List Nat) (s : State) (r : Nat) : Pres C s (releaseConn s r).1 := by
  refine ⟨fun L _ h => (releaseConn_inv r h).1, ?_⟩
  unfold releaseConn
  split
  · exact Mono.refl _
  · split
    · exact Mono.refl _
    · split
      · exact Mono.refl _
      · rename_i c _
        have := putConn_mono s (some c)
        generalize putConn s (some c) = q at this
        obtain ⟨t, o⟩ := q
        cases o with
        | some e => exact this
        | none => exact this.trans (setResp_mono t r _ (fun _ => Or.inr rfl))

/-! ### the reader: primitive steps only -/

theorem setResp_steps (C : List Nat) (s : State) (r : Nat) (f : Resp → Resp) (hf : ∀ x, (f x).conn = x.conn) :
    Steps C s (setResp s r f) := .one (.resp s r f hf)

theorem recvInto_steps (C : List Nat) (s : State) (r k room : Nat) : Steps C s (recvInto s r k room).1 := by
  unfold recvInto
  refine (logEv_steps C s (.recv k)).trans ?_
  generalize logEv s (.recv k) = t
  dsimp only
  split
  · exact .refl _
  · split
    · split
      · exact .refl _
      · exact .refl _
      · exact setSock_steps C _ _ _
      · exact setSock_steps C _ _ _
    · exact (setSock_steps C _ _ _).trans (setResp_steps C _ _ _ (fun _ => rfl))

theorem readHead_steps (C : List Nat) : ∀ (fuel : Nat) (s : State) (r k : Nat), Steps C s (readHead fuel s r k).1 := by
  intro fuel
  induction fuel with
  | zero => intro s r k; exact .refl _
  | succ n ih =>
    intro s r k
    unfold readHead
    split
    · exact .refl _
    · rename_i rs _
      split
      · dsimp only
        split <;> exact setResp_steps C s r _ (fun _ => rfl)
      · have st := recvInto_steps C s r k (bufSize - rs.buf.length)
        generalize recvInto s r k (bufSize - rs.buf.length) = q at st
        obtain ⟨t, o⟩ := q
        cases o with
        | got => exact st.trans (ih t r k)
        | eof => exact st
        | exc e => exact st

theorem fpRead_steps (C : List Nat) : ∀ (fuel : Nat) (s : State) (r k n : Nat) (acc : List Cell),
    Steps C s (fpRead fuel s r k n acc).1 := by
  intro fuel
  induction fuel with
  | zero => intro s r k n acc; exact .refl _
  | succ m ih =>
    intro s r k n acc
    unfold fpRead
    split
    · exact .refl _
    · rename_i rs _
      split
      · exact setResp_steps C s r _ (fun _ => rfl)
      · have s1 := setResp_steps C s r (fun x => { x with buf := [] }) (fun _ => rfl)
        have st := recvInto_steps C (setResp s r fun x => { x with buf := [] }) r k bufSize
        dsimp only
        generalize recvInto (setResp s r fun x => { x with buf := [] }) r k bufSize = q at st
        obtain ⟨t, o⟩ := q
        cases o with
        | got => exact (s1.trans st).trans (ih t r k _ _)
        | eof => exact s1.trans st
        | exc e => exact s1.trans st

theorem fpReadAll_steps (C : List Nat) : ∀ (fuel : Nat) (s : State) (r k : Nat) (acc : List Cell),
    Steps C s (fpReadAll fuel s r k acc).1 := by
  intro fuel
  induction fuel with
  | zero => intro s r k acc; exact .refl _
  | succ m ih =>
    intro s r k acc
    unfold fpReadAll
    split
    · exact .refl _
    · rename_i rs _
      have s1 := setResp_steps C s r (fun x => { x with buf := [] }) (fun _ => rfl)
      have st := recvInto_steps C (setResp s r fun x => { x with buf := [] }) r k bufSize
      dsimp only
      generalize recvInto (setResp s r fun x => { x with buf := [] }) r k bufSize = q at st
      obtain ⟨t, o⟩ := q
      cases o with
      | got => exact (s1.trans st).trans (ih t r k _)
      | eof => exact s1.trans st
      | exc e => exact s1.trans st

theorem httpRead_amt_steps (C : List Nat) (s : State) (r k fuel n' : Nat) (len : Option Nat) :
    Steps C s (match fpRead fuel s r k n' [] with
      | (s, .exc e) => (s, DataOut.exc e)
      | (s, .data d) =>
        if d.isEmpty && n' != 0 then (closeFp s r, .data d)
        else match len with
          | some l =>
            let s := setResp s r fun x => { x with length := some (l - d.length) }
            ((if l - d.length = 0 then closeFp s r else s), .data d)
          | none => (s, .data d)).1 := by
  have st := fpRead_steps C fuel s r k n' []
  generalize fpRead fuel s r k n' [] = q at st
  obtain ⟨t, o⟩ := q
  cases o with
  | exc e => exact st
  | data d =>
    dsimp only
    split
    · exact st.trans (closeFp_steps C t r)
    · split
      · rename_i l
        dsimp only
        have s2 := setResp_steps C t r (fun x => { x with length := some (l - d.length) }) (fun _ => rfl)
        split
        · exact (st.trans s2).trans (closeFp_steps C _ r)
        · exact st.trans s2
      · exact st

/-! ### the chunk parsers: primitive steps only -/

theorem fpReadline_steps (C : List Nat) : ∀ (fuel : Nat) (s : State) (r k : Nat) (acc : List Cell),
    Steps C s (fpReadline fuel s r k acc).1 := by
  intro fuel
  induction fuel with
  | zero => intro s r k acc; exact .refl _
  | succ m ih =>
    intro s r k acc
    unfold fpReadline
    split
    · exact .refl _
    · rename_i rs _
      split
      · exact setResp_steps C s r _ (fun _ => rfl)
      · have s1 := setResp_steps C s r (fun x => { x with buf := [] }) (fun _ => rfl)
        have st := recvInto_steps C (setResp s r fun x => { x with buf := [] }) r k bufSize
        dsimp only
        generalize recvInto (setResp s r fun x => { x with buf := [] }) r k bufSize = q at st
        obtain ⟨t, o⟩ := q
        cases o with
        | got => exact (s1.trans st).trans (ih t r k _)
        | eof => exact s1.trans st
        | exc e => exact s1.trans st

theorem safeRead_steps (C : List Nat) (s : State) (r k n : Nat) : Steps C s (safeRead s r k n).1 := by
  unfold safeRead
  have st := fpRead_steps C (inboundLen s k + 2) s r k n []
  generalize fpRead (inboundLen s k + 2) s r k n [] = q at st
  obtain ⟨t, o⟩ := q
  cases o with
  | exc e => exact st
  | data d => dsimp only; split <;> exact st

theorem hcDiscardTrailer_steps (C : List Nat) (r k : Nat) : ∀ (fuel : Nat) (s : State), Steps C s (hcDiscardTrailer fuel s r k).1 := by
  intro fuel
  induction fuel with
  | zero => intro s; exact .refl _
  | succ m ih =>
    intro s
    unfold hcDiscardTrailer
    have st := fpReadline_steps C (inboundLen s k + 2) s r k []
    generalize fpReadline (inboundLen s k + 2) s r k [] = q at st
    obtain ⟨t, o⟩ := q
    cases o with
    | exc e => exact st
    | data line =>
      dsimp only
      split
      · exact st.trans (setResp_steps C t r _ (fun _ => rfl))
      · split
        · exact st.trans (setResp_steps C t r _ (fun _ => rfl))
        · exact st.trans (ih t)

theorem skipTrailers_steps (C : List Nat) (r k : Nat) : ∀ (fuel : Nat) (s : State), Steps C s (skipTrailers fuel s r k).1 := by
  intro fuel
  induction fuel with
  | zero => intro s; exact .refl _
  | succ m ih =>
    intro s
    unfold skipTrailers
    have st := fpReadline_steps C (inboundLen s k + 2) s r k []
    generalize fpReadline (inboundLen s k + 2) s r k [] = q at st
    obtain ⟨t, o⟩ := q
    cases o with
    | exc e => exact st
    | data line =>
      dsimp only
      split
      · exact st.trans (setResp_steps C t r _ (fun _ => rfl))
      · split
        · exact st.trans (setResp_steps C t r _ (fun _ => rfl))
        · exact st.trans (ih t)

theorem hcNext_steps (C : List Nat) (s : State) (r k : Nat) (cl : Option Nat) : Steps C s (hcNext s r k cl).1 := by
  unfold hcNext
  have s0 : Steps C s (hcToss s r k cl).1 := by
    unfold hcToss
    split
    · have st := safeRead_steps C s r k 2
      generalize safeRead s r k 2 = q at st
      obtain ⟨t, o⟩ := q
      cases o <;> exact st
    · exact .refl _
  generalize hcToss s r k cl = q at s0
  obtain ⟨s1, oe⟩ := q
  cases oe with
  | some e => exact s0
  | none =>
    dsimp only
    have st := fpReadline_steps C (inboundLen s1 k + 2) s1 r k []
    generalize fpReadline (inboundLen s1 k + 2) s1 r k [] = q at st
    obtain ⟨s2, o⟩ := q
    cases o with
    | exc e => exact s0.trans st
    | data line =>
      dsimp only
      split
      · exact (s0.trans st).trans (closeFp_steps C s2 r)
      · have s3 := hcDiscardTrailer_steps C r k (inboundLen s2 k + (match s2.resps[r]? with | some rs => rs.buf.length | none => 0) + 2) s2
        generalize hcDiscardTrailer (inboundLen s2 k + (match s2.resps[r]? with | some rs => rs.buf.length | none => 0) + 2) s2 r k = q at s3
        obtain ⟨s4, oe⟩ := q
        cases oe with
        | some e => exact (s0.trans st).trans s3
        | none =>
          dsimp only
          exact (((s0.trans st).trans s3).trans (setResp_steps C s4 r (fun x => { x with hcLeft := none }) (fun _ => rfl))).trans
            (closeFp_steps C _ r)
      · exact (s0.trans st).trans (setResp_steps C s2 r _ (fun _ => rfl))

theorem hcGetChunkLeft_steps (C : List Nat) (s : State) (r k : Nat) : Steps C s (hcGetChunkLeft s r k).1 := by
  unfold hcGetChunkLeft
  split
  · exact .refl _
  · exact hcNext_steps C s r k _

theorem hcReadChunked_steps (C : List Nat) (r k : Nat) : ∀ (fuel : Nat) (s : State) (amt : Option Nat) (acc : List Cell),
    Steps C s (hcReadChunked fuel s r k amt acc).1 := by
  intro fuel
  induction fuel with
  | zero => intro s amt acc; exact .refl _
  | succ m ih =>
    intro s amt acc
    unfold hcReadChunked
    have s0 := hcGetChunkLeft_steps C s r k
    generalize hcGetChunkLeft s r k = q at s0
    obtain ⟨s1, lo⟩ := q
    cases lo with
    | exc e => exact s0
    | left v =>
      cases v with
      | none => exact s0
      | some cl =>
        dsimp only
        split
        · rename_i n _
          have st := safeRead_steps C s1 r k n
          generalize safeRead s1 r k n = q at st
          obtain ⟨s2, o⟩ := q
          cases o with
          | exc e => exact s0.trans st
          | data d => exact (s0.trans st).trans (setResp_steps C s2 r _ (fun _ => rfl))
        · have st := safeRead_steps C s1 r k cl
          generalize safeRead s1 r k cl = q at st
          obtain ⟨s2, o⟩ := q
          cases o with
          | exc e => exact s0.trans st
          | data d =>
            exact ((s0.trans st).trans (setResp_steps C s2 r (fun x => { x with hcLeft := some 0 }) (fun _ => rfl))).trans (ih _ _ _)

theorem httpRead_steps (C : List Nat) (s : State) (r : Nat) (amt : Option Nat) : Steps C s (httpRead s r amt).1 := by
  unfold httpRead
  split
  · exact .refl _
  · rename_i rs _
    split
    · exact .refl _
    · rename_i k _
      split
      · exact closeFp_steps C s r
      · split
        · exact hcReadChunked_steps C r k _ s amt []
        dsimp only
        generalize inboundLen s k + 2 = fuel
        split
        · rename_i n
          exact httpRead_amt_steps C s r k fuel _ rs.length
        · split
          · have st := fpReadAll_steps C fuel s r k []
            generalize fpReadAll fuel s r k [] = q at st
            obtain ⟨t, o⟩ := q
            cases o with
            | exc e => exact st
            | data d => exact st.trans (closeFp_steps C t r)
          · rename_i l _
            have st := fpRead_steps C fuel s r k l []
            generalize fpRead fuel s r k l [] = q at st
            obtain ⟨t, o⟩ := q
            cases o with
            | exc e => exact st
            | data d =>
              dsimp only
              split
              · exact st.trans (closeFp_steps C t r)
              · exact (st.trans (setResp_steps C t r (fun x => { x with length := some 0 }) (fun _ => rfl))).trans (closeFp_steps C _ r)

theorem rawMid_steps (C : List Nat) (r : Nat) (amt : Option Nat) (s : State) (o : DataOut) : Steps C s (rawMid r amt s o).1 := by
  unfold rawMid
  split
  · split
    · dsimp only
      split
      · split
        · split <;> exact closeFp_steps C s r
        · exact closeFp_steps C s r
      · exact closeFp_steps C s r
    · exact .refl _
  · exact .refl _

theorem respClose_steps (C : List Nat) (s : State) (r : Nat) : Steps C s (respClose s r) := by
  unfold respClose
  refine (closeFp_steps C s r).trans ?_
  generalize closeFp s r = t
  dsimp only
  split
  · exact .refl _
  · split
    · exact connClose_steps C t _
    · exact .refl _

/-! ### the read family -/

theorem errorCatcherExit_pres (C : List Nat) (s : State) (r : Nat) (clean : Bool) : Pres C s (errorCatcherExit s r clean).1 := by
  have key : ∀ t : State, Pres C t (if respFpClosed t r then releaseConn t r else (t, none)).1 := by
    intro t; split
    · exact releaseConn_pres C t r
    · exact Pres.refl _ _
  cases clean with
  | true => exact key s
  | false =>
    have e : errorCatcherExit s r false =
        (if respFpClosed (respClose s r) r then releaseConn (respClose s r) r else (respClose s r, none)) := rfl
    rw [e]
    exact (Pres.of_steps (respClose_steps C s r)).trans (key _)

theorem rawTail_pres (C : List Nat) (r : Nat) (s : State) (o : DataOut) : Pres C s (rawTail r s o).1 := by
  unfold rawTail
  cases o with
  | exc e =>
    dsimp only
    have := errorCatcherExit_pres C s r false
    generalize errorCatcherExit s r false = q at this
    obtain ⟨t, o⟩ := q
    cases o <;> exact this
  | data d =>
    dsimp only
    have := errorCatcherExit_pres C s r true
    generalize errorCatcherExit s r true = q at this
    obtain ⟨t, o⟩ := q
    cases o <;> exact this

theorem rawRead_pres (C : List Nat) (s : State) (r : Nat) (amt : Option Nat) : Pres C s (rawRead s r amt).1 := by
  rw [rawRead_eq]
  have h1 := httpRead_steps C s r amt
  generalize httpRead s r amt = q at h1
  obtain ⟨s1, o1⟩ := q
  dsimp only
  have h2 := rawMid_steps C r amt s1 o1
  generalize rawMid r amt s1 o1 = q at h2
  obtain ⟨s2, o2⟩ := q
  dsimp only
  exact (Pres.of_steps (h1.trans h2)).trans (rawTail_pres C r s2 o2)

theorem readAmt_pres (C : List Nat) : ∀ (fuel : Nat) (s : State) (r n : Nat) (acc : List Cell),
    Pres C s (readAmt fuel s r n acc).1 := by
  intro fuel
  induction fuel with
  | zero => intro s r n acc; exact Pres.refl _ _
  | succ m ih =>
    intro s r n acc
    unfold readAmt
    have h1 := rawRead_pres C s r (some n)
    generalize rawRead s r (some n) = q at h1
    obtain ⟨t, o⟩ := q
    cases o with
    | exc e => exact h1
    | data d =>
      dsimp only
      split
      · exact h1
      · exact h1.trans (ih t r n _)

theorem deliver_steps (C : List Nat) (s : State) (r : Nat) (d : List Cell) : Steps C s (deliver s r d) :=
  setResp_steps C s r _ (fun _ => rfl)

theorem respRead_pres (C : List Nat) (s : State) (r : Nat) (amt : Option Nat) : Pres C s (respRead s r amt).1 := by
  have tail : ∀ q : State × DataOut, Pres C s q.1 → Pres C s (match q with
      | (s, DataOut.data d) => (deliver s r d, DataOut.data d)
      | (s, DataOut.exc e) => (s, DataOut.exc e)).1 := by
    intro q h1
    obtain ⟨t, o⟩ := q
    cases o with
    | data d => exact h1.trans (Pres.of_steps (deliver_steps C t r d))
    | exc e => exact h1
  cases amt with
  | none => exact tail _ (rawRead_pres C s r none)
  | some n => exact tail _ (readAmt_pres C (n + 1) s r n [])

theorem respStream_pres (C : List Nat) : ∀ (fuel : Nat) (s : State) (r n : Nat) (acc : List Cell),
    Pres C s (respStream fuel s r n acc).1 := by
  intro fuel
  induction fuel with
  | zero => intro s r n acc; exact Pres.refl _ _
  | succ m ih =>
    intro s r n acc
    unfold respStream
    split
    · exact Pres.refl _ _
    · have h1 := respRead_pres C s r (some n)
      generalize respRead s r (some n) = q at h1
      obtain ⟨t, o⟩ := q
      cases o with
      | exc e => exact h1
      | data d => exact h1.trans (ih t r n _)

theorem drainConn_pres (C : List Nat) (s : State) (r : Nat) : Pres C s (drainConn s r).1 := by
  unfold drainConn
  have h1 := rawRead_pres C s r none
  generalize rawRead s r none = q at h1
  obtain ⟨t, o⟩ := q
  cases o with
  | data d => exact h1
  | exc e => dsimp only; split <;> exact h1

/-! ### `read_chunked` -/

theorem updateChunkLength_steps (C : List Nat) (s : State) (r k : Nat) : Steps C s (updateChunkLength s r k).1 := by
  unfold updateChunkLength
  split
  · exact .refl _
  · have st := fpReadline_steps C (inboundLen s k + 2) s r k []
    generalize fpReadline (inboundLen s k + 2) s r k [] = q at st
    obtain ⟨t, o⟩ := q
    cases o with
    | exc e => exact st
    | data line =>
      dsimp only
      split
      · exact st.trans (setResp_steps C t r _ (fun _ => rfl))
      · exact st.trans (respClose_steps C t r)

theorem handleChunk_steps (C : List Nat) (s : State) (r k amt : Nat) : Steps C s (handleChunk s r k amt).1 := by
  unfold handleChunk
  split
  · exact .refl _
  · split
    · have st := safeRead_steps C s r k amt
      generalize safeRead s r k amt = q at st
      obtain ⟨t, o⟩ := q
      cases o with
      | exc e => exact st
      | data d => exact st.trans (setResp_steps C t r _ (fun _ => rfl))
    · rename_i cl _ _
      have st := safeRead_steps C s r k cl
      generalize safeRead s r k cl = q at st
      obtain ⟨t, o⟩ := q
      cases o with
      | exc e => exact st
      | data d =>
        dsimp only
        have s2 := safeRead_steps C t r k 2
        generalize safeRead t r k 2 = q at s2
        obtain ⟨t2, o2⟩ := q
        cases o2 with
        | exc e => exact st.trans s2
        | data d' => exact (st.trans s2).trans (setResp_steps C t2 r _ (fun _ => rfl))

theorem chunkLoop_steps (C : List Nat) (r k amt : Nat) : ∀ (fuel : Nat) (s : State) (acc : List Cell),
    Steps C s (chunkLoop fuel s r k amt acc).1 := by
  intro fuel
  induction fuel with
  | zero => intro s acc; exact .refl _
  | succ m ih =>
    intro s acc
    unfold chunkLoop
    have s0 := updateChunkLength_steps C s r k
    generalize updateChunkLength s r k = q at s0
    obtain ⟨s1, oe⟩ := q
    cases oe with
    | some e => exact s0
    | none =>
      dsimp only
      split
      · exact s0
      · have st := handleChunk_steps C s1 r k amt
        generalize handleChunk s1 r k amt = q at st
        obtain ⟨s2, o⟩ := q
        cases o with
        | exc e => exact s0.trans st
        | data d => exact ((s0.trans st).trans (deliver_steps C s2 r d)).trans (ih _ _)

theorem readChunkedBody_steps (C : List Nat) (s : State) (r amt : Nat) : Steps C s (readChunkedBody s r amt).1 := by
  unfold readChunkedBody
  split
  · exact .refl _
  · rename_i rs _
    split
    · exact closeFp_steps C s r
    · split
      · exact .refl _
      · rename_i k _
        dsimp only
        generalize inboundLen s k + rs.buf.length + 2 = fuel
        have s0 := chunkLoop_steps C r k amt fuel s []
        generalize chunkLoop fuel s r k amt [] = q at s0
        obtain ⟨s1, o⟩ := q
        cases o with
        | exc e => exact s0
        | data d =>
          dsimp only
          have st := skipTrailers_steps C r k fuel s1
          generalize skipTrailers fuel s1 r k = q at st
          obtain ⟨s2, oe⟩ := q
          cases oe with
          | some e => exact s0.trans st
          | none => exact (s0.trans st).trans (closeFp_steps C s2 r)

theorem readChunked_pres (C : List Nat) (s : State) (r amt : Nat) : Pres C s (readChunked s r amt).1 := by
  unfold readChunked
  have h1 := readChunkedBody_steps C s r amt
  generalize readChunkedBody s r amt = q at h1
  obtain ⟨s1, o⟩ := q
  dsimp only
  refine (Pres.of_steps h1).trans ?_
  unfold catcherExit
  cases o with
  | exc e =>
    dsimp only
    have := errorCatcherExit_pres C s1 r false
    generalize errorCatcherExit s1 r false = q at this
    obtain ⟨t, o⟩ := q
    cases o <;> exact this
  | data d =>
    dsimp only
    have := errorCatcherExit_pres C s1 r true
    generalize errorCatcherExit s1 r true = q at this
    obtain ⟨t, o⟩ := q
    cases o <;> exact this

theorem disposeResp_pres (C : List Nat) (s : State) (r : Nat) (how : How) : Pres C s (disposeResp s r how).1 := by
  have rel : ∀ (t : State) (d : DispOut), Pres C t (match releaseConn t r with
      | (s, some e) => (s, DispOut.raised e)
      | (s, none) => (s, d)).1 := by
    intro t d
    have := releaseConn_pres C t r
    generalize releaseConn t r = q at this
    obtain ⟨u, o⟩ := q
    cases o <;> exact this
  cases how with
  | readAll =>
    unfold disposeResp
    dsimp only
    have h1 := respRead_pres C s r none
    generalize respRead s r none = q at h1
    obtain ⟨t, o⟩ := q
    cases o <;> exact h1
  | readK k =>
    unfold disposeResp
    dsimp only
    have h1 := respRead_pres C s r (some k)
    generalize respRead s r (some k) = q at h1
    obtain ⟨t, o⟩ := q
    cases o <;> exact h1
  | readKRelease k =>
    unfold disposeResp
    dsimp only
    have h1 := respRead_pres C s r (some k)
    generalize respRead s r (some k) = q at h1
    obtain ⟨t, o⟩ := q
    cases o with
    | exc e => exact h1
    | data d => exact h1.trans (rel t _)
  | release =>
    unfold disposeResp
    dsimp only
    exact rel s _
  | drain =>
    unfold disposeResp
    dsimp only
    have h1 := drainConn_pres C s r
    generalize drainConn s r = q at h1
    obtain ⟨t, o⟩ := q
    cases o <;> exact h1
  | close => exact Pres.of_steps (respClose_steps C s r)
  | drop =>
    unfold disposeResp
    dsimp only
    split
    · exact Pres.refl _ _
    · exact Pres.of_steps (respClose_steps C s r)
  | stream k =>
    unfold disposeResp
    dsimp only
    by_cases hc : respChunked s r = true
    · rw [if_pos hc]
      have h1 := readChunked_pres C s r k
      generalize readChunked s r k = q at h1
      obtain ⟨t, o⟩ := q
      cases o <;> exact h1
    · rw [if_neg hc]
      generalize (totalInbound s + (match s.resps[r]? with | some rs => rs.buf.length | none => 0) + 2) = fuel
      have h1 := respStream_pres C fuel s r k []
      generalize respStream fuel s r k [] = q at h1
      obtain ⟨t, o⟩ := q
      cases o <;> exact h1

theorem dispose_inv {s : State} (rid : Nat) (how : How) (h : Inv s) : Inv (dispose s rid how).1 := by
  unfold dispose
  split
  · exact h
  · rename_i r _
    exact (disposeResp_pres [] s r how).inv [] (by simp) h

/-! ### `HTTPConnectionPool.close()` -/

theorem connClose_sock_le (s : State) (i c : Nat) (cn' : Conn) (h : (connClose s i).conns[c]? = some cn') :
    ∃ cn : Conn, s.conns[c]? = some cn ∧ (cn'.sock = none ∨ cn'.sock = cn.sock) := by
  rw [connClose_conns] at h
  simp only [List.getElem?_modify] at h
  cases hx : s.conns[c]? with
  | none => simp [hx] at h
  | some x =>
    simp only [hx, Option.map_eq_map, Option.map_some, Option.some.injEq] at h
    subst h
    refine ⟨x, rfl, ?_⟩
    split
    · exact Or.inl rfl
    · exact Or.inr rfl

def closeItem (acc : State) (item : Option Nat) : State :=
  match item with
  | some c => connClose acc c
  | none => acc

theorem closeItem_steps (C : List Nat) (u : State) (item : Option Nat) : Steps C u (closeItem u item) := by
  cases item with
  | none => exact .refl _
  | some c => exact connClose_steps C u c

theorem foldl_close_steps (C : List Nat) : ∀ (q : List (Option Nat)) (u : State), Steps C u (q.foldl closeItem u) := by
  intro q
  induction q with
  | nil => intro u; exact .refl _
  | cons item rest ih => intro u; exact (closeItem_steps C u item).trans (ih _)

theorem foldl_close_socks : ∀ (q : List (Option Nat)) (u : State) (c : Nat),
    (some c ∈ q ∨ ∀ cn : Conn, u.conns[c]? = some cn → cn.sock = none) →
    ∀ cn' : Conn, (q.foldl closeItem u).conns[c]? = some cn' → cn'.sock = none := by
  intro q
  induction q with
  | nil =>
    intro u c h cn' hc
    rcases h with h | h
    · cases h
    · exact h cn' hc
  | cons item rest ih =>
    intro u c h
    refine ih (closeItem u item) c ?_
    have keep : (∀ cn : Conn, u.conns[c]? = some cn → cn.sock = none) →
        ∀ cn : Conn, (closeItem u item).conns[c]? = some cn → cn.sock = none := by
      intro hq cn hcn
      cases item with
      | none => exact hq cn hcn
      | some i =>
        obtain ⟨cn0, h0, e⟩ := connClose_sock_le u i c cn hcn
        rcases e with e | e
        · exact e
        · rw [e]; exact hq cn0 h0
    rcases h with h | h
    · rcases List.mem_cons.mp h with h | h
      · right
        subst h
        intro cn hcn
        exact connClose_sock_none u c cn hcn
      · exact Or.inl h
    · exact Or.inr (keep h)

/-- giving up several leases at once on a closed pool -/
theorem drop_leases {s : State} (hc : s.closed = true) : ∀ (L : List Nat), InvL s L →
    (∀ c ∈ L, ∀ cn : Conn, s.conns[c]? = some cn → cn.sock = none) → Inv s := by
  intro L
  induction L with
  | nil => intro h _; exact h
  | cons c rest ih =>
    intro h hs
    exact ih (drop_lease h (hs c (List.mem_cons_self ..)) (Or.inl hc)) (fun c' hc' => hs c' (List.mem_cons_of_mem _ hc'))

theorem closePool_eq (s : State) :
    closePool s = if s.closed then s else s.queue.foldl closeItem { s with queue := [], closed := true } := rfl

theorem closePool_inv {s : State} (h : Inv s) : Inv (closePool s) := by
  rw [closePool_eq]
  split
  · exact h
  · -- the queued connections become leases of the closing pool
    have h1 : InvL { s with queue := [], closed := true } (queued s) := by
      have ho : owned { s with queue := [], closed := true } (queued s) = owned s [] := by
        simp [owned, queued, held]
      refine ⟨h.pos, by rw [ho]; exact h.nodup, ?_, ?_, fun _ => rfl, by simp, ?_, ?_⟩
      · intro c cn hc hs; rw [ho]; exact h.live c cn hc hs
      · intro c hc; rw [ho] at hc; exact h.bound c hc
      · intro hc; cases hc
      · intro hc; cases hc
    have st := foldl_close_steps (queued s) s.queue { s with queue := [], closed := true }
    have h2 := steps_inv (L := queued s) (fun c hc => hc) st h1
    have hcl : (s.queue.foldl closeItem { s with queue := [], closed := true }).closed = true := (steps_frame st).2.2.2
    refine drop_leases hcl (queued s) h2 ?_
    intro c hc cn hcn
    refine foldl_close_socks s.queue _ c (Or.inl ?_) cn hcn
    simp only [queued, List.mem_filterMap, id] at hc
    obtain ⟨a, ha, rfl⟩ := hc
    exact ha

/-! ### what a later state keeps of an earlier one -/

/-- the responses with an index below `n` do not start holding a connection; nothing is dropped; the
pool's configuration is never written -/
structure KeepN (n : Nat) (s s' : State) : Prop where
  old : ∀ (r : Nat) (rs' : Resp), r < n → s'.resps[r]? = some rs' → rs'.conn ≠ none →
    ∃ rs : Resp, s.resps[r]? = some rs ∧ rs.conn = rs'.conn
  rlen : s.resps.length ≤ s'.resps.length
  msz : s'.maxsize = s.maxsize
  blk : s'.block = s.block

theorem KeepN.refl (n : Nat) (s : State) : KeepN n s s := ⟨fun r rs' _ h _ => ⟨rs', h, rfl⟩, Nat.le_refl _, rfl, rfl⟩

theorem KeepN.trans {n : Nat} {s t u : State} (a : KeepN n s t) (b : KeepN n t u) : KeepN n s u := by
  refine ⟨?_, Nat.le_trans a.rlen b.rlen, by rw [b.msz, a.msz], by rw [b.blk, a.blk]⟩
  intro r rs' hr h hn
  obtain ⟨rs1, h1, e1⟩ := b.old r rs' hr h hn
  obtain ⟨rs0, h0, e0⟩ := a.old r rs1 hr h1 (by rw [e1]; exact hn)
  exact ⟨rs0, h0, by rw [e0, e1]⟩

theorem KeepN.weaken {n m : Nat} {s s' : State} (a : KeepN n s s') (h : m ≤ n) : KeepN m s s' :=
  ⟨fun r rs' hr => a.old r rs' (Nat.lt_of_lt_of_le hr h), a.rlen, a.msz, a.blk⟩

theorem Mono.keep {s s' : State} (a : Mono s s') (n : Nat) : KeepN n s s' :=
  ⟨fun r rs' _ => a.conn r rs', a.rlen, a.msz, a.blk⟩

/-- writing to a response beyond the bound -/
theorem setResp_keep (n : Nat) (s : State) (r : Nat) (g : Resp → Resp) (h : n ≤ r) : KeepN n s (setResp s r g) := by
  refine ⟨?_, by simp [setResp], rfl, rfl⟩
  intro i rs' hi hrs _
  have : i ≠ r := by omega
  simp only [setResp, List.getElem?_modify] at hrs
  cases hx : s.resps[i]? with
  | none => simp [hx] at hrs
  | some x =>
    simp only [hx, Option.map_eq_map, Option.map_some, Option.some.injEq, if_neg (Ne.symm this)] at hrs
    subst hrs
    exact ⟨x, rfl, rfl⟩

theorem frame_keep {s s' : State} (n : Nat) (hr : s'.resps = s.resps) (hm : s'.maxsize = s.maxsize) (hb : s'.block = s.block) :
    KeepN n s s' :=
  ⟨fun r rs' _ h _ => ⟨rs', by rw [← hr]; exact h, rfl⟩, by rw [hr]; exact Nat.le_refl _, hm, hb⟩

theorem getConn_keep (s : State) (n : Nat) : KeepN n s (getConn s).1 := by
  unfold getConn
  split
  · exact KeepN.refl _ _
  · split
    · split
      · exact KeepN.refl _ _
      · exact frame_keep n rfl rfl rfl
    · rename_i item rest _
      cases item with
      | none => exact frame_keep n rfl rfl rfl
      | some c =>
        dsimp only
        split
        · exact (frame_keep (s := s) (s' := { s with queue := rest }) n rfl rfl rfl).trans
            ((Mono.of_steps (connClose_steps [] _ c)).keep n)
        · exact frame_keep n rfl rfl rfl

theorem discard_mono (s : State) (x : Option Nat) : Mono s (discard s x).1 := by
  unfold discard
  cases x with
  | none => exact Mono.refl s
  | some i => exact (Mono.of_steps (connClose_steps [] s i)).trans (putConn_mono _ none)

/-! ### `_make_request` -/

theorem forget_steps (C : List Nat) (s : State) (c : Nat) : Steps C s (forgetClosedPending s c) := by
  unfold forgetClosedPending
  split
  · exact .refl _
  · split
    · exact .refl _
    · split
      · exact .refl _
      · split
        · exact .one (.conn s c _ (fun _ => Or.inl rfl))
        · exact .refl _

theorem connect_steps (s : State) (c : Nat) (a : Attempt) : Steps [c] s (connect s c a).1 := by
  unfold connect
  dsimp only
  have s1 : Steps [c] s (logEv { s with socks := s.socks ++ [{ seg := a.seg }] } (.connect s.socks.length)) :=
    .one (.frame rfl rfl rfl rfl rfl rfl)
  split
  · exact .refl _
  · exact s1.trans (logEv_steps [c] _ _)
  · exact s1.trans (logEv_steps [c] _ _)
  · exact s1
  · exact s1.trans (.one (.opn _ c _ (by simp)))

theorem connRequest_steps (s : State) (c rid : Nat) (a : Attempt) : Steps [c] s (connRequest s c rid a).1 := by
  unfold connRequest
  refine (forget_steps [c] s c).trans ?_
  generalize forgetClosedPending s c = t
  dsimp only
  split
  · exact .refl _
  · rename_i cn _
    split
    · exact .refl _
    · have s1 : Steps [c] t (setConn t c fun x => { x with http := .reqSent }) := .one (.conn t c _ (fun _ => Or.inl rfl))
      refine s1.trans ?_
      generalize (setConn t c fun x => { x with http := .reqSent }) = u
      have tail : ∀ (v : State) (ek : Except Exc Nat), Steps [c] u v → Steps [c] u (match ek with
          | .error e => (v, (Except.error e : Except Exc Nat))
          | .ok k =>
            match sendExc a.send with
            | some e => (v, Except.error e)
            | none =>
              (setSock (logEv v (.send k)) k fun sk => { sk with inbound := sk.inbound ++ (sk.held ++ serverNow rid a), held := serverHeld rid a, after := a.after }, .ok k)).1 := by
        intro v ek hv
        cases ek with
        | error e => exact hv
        | ok k =>
          dsimp only
          split
          · exact hv
          · exact (hv.trans (logEv_steps [c] _ _)).trans (setSock_steps [c] _ _ _)
      cases hsk : cn.sock with
      | some k => exact tail u (.ok k) (.refl _)
      | none =>
        have := connect_steps u c a
        generalize connect u c a = q at this
        obtain ⟨v, ek⟩ := q
        exact tail v ek this

/-! ### which exceptions leave `_make_request` -/

/-- `_raise_timeout` looks at the class only -/
def recvCls (c : Nat) : Nat := (translateRecv { cls := c }).cls

/-- classes `begin()` / `getresponse()` raise before `_make_request` translates them -/
def headCls : List Nat :=
  [Gen.cResponseNotReady, Gen.cLineTooLong, Gen.cBadStatusLine, Gen.cRemoteDisconnected] ++ rawCls

/-- classes `conn.request()` raises -/
def sendCls : List Nat :=
  [Gen.cCannotSendRequest, (translateNewConn Gen.cGaierror).cls, (translateNewConn Gen.cConnectionRefusedError).cls,
   (translateNewConn Gen.cTimeoutError).cls, (translateNewConn Gen.cKeyboardInterrupt).cls,
   Gen.cBrokenPipeError, Gen.cConnectionResetError, Gen.cOSError, Gen.cKeyboardInterrupt]

/-- every class that can leave `_make_request` (for a connection object that exists) -/
def mrCls : List Nat := sendCls ++ [Gen.cU3FullPoolError] ++ headCls.map recvCls ++ rawCls.map trCls

theorem forget_conns_length (s : State) (c : Nat) : (forgetClosedPending s c).conns.length = s.conns.length := by
  unfold forgetClosedPending
  split
  · rfl
  · split
    · rfl
    · split
      · rfl
      · split
        · simp [setConn]
        · rfl

theorem connect_cls (s : State) (c : Nat) (a : Attempt) (e : Exc) (h : (connect s c a).2 = .error e) :
    e.cls ∈ sendCls ∧ sendSwallowed e = false := by
  unfold connect at h
  dsimp only at h
  split at h
  · cases h; exact ⟨by simp [sendCls], by decide⟩
  · cases h; exact ⟨by simp [sendCls], by decide⟩
  · cases h; exact ⟨by simp [sendCls], by decide⟩
  · cases h; exact ⟨by simp [sendCls], by decide⟩
  · cases h

theorem sendExc_cls (o : SendOut) (e : Exc) (h : sendExc o = some e) : e.cls ∈ sendCls := by
  cases o <;> simp [sendExc, exc] at h <;> subst h <;> simp [sendCls]

theorem connect_ok_sock (s : State) (c : Nat) (a : Attempt) (k : Nat) (hc : c < s.conns.length) (h : (connect s c a).2 = .ok k) :
    ∃ cn : Conn, (connect s c a).1.conns[c]? = some cn ∧ cn.sock = some k := by
  unfold connect at h ⊢
  dsimp only at h ⊢
  split at h
  · cases h
  · cases h
  · cases h
  · cases h
  · rename_i heq
    simp only [heq]
    cases h
    have : s.conns[c]? = some s.conns[c] := List.getElem?_eq_getElem hc
    exact ⟨{ s.conns[c] with sock := some s.socks.length, proxyConnected := s.proxy },
      by simp [setConn, logEv, List.getElem?_modify, this], rfl⟩

/-- `conn.request()`: the classes it raises; a swallowed send error happens on a connected socket -/
theorem connRequest_cls {s s' : State} {c rid : Nat} {a : Attempt} {e : Exc} (hc : c < s.conns.length)
    (h : connRequest s c rid a = (s', .error e)) :
    e.cls ∈ sendCls ∧ (sendSwallowed e = true → ∃ (cn : Conn) (k : Nat), s'.conns[c]? = some cn ∧ cn.sock = some k) := by
  unfold connRequest at h
  have hl := forget_conns_length s c
  generalize forgetClosedPending s c = t at h hl
  dsimp only at h
  split at h
  · rename_i hn
    have := List.getElem?_eq_none_iff.mp hn
    omega
  · rename_i cn hcn
    split at h
    · cases h
      have hsw : sendSwallowed (exc Gen.cCannotSendRequest) = false := by decide
      exact ⟨by simp [sendCls, exc], fun hs => by rw [hsw] at hs; cases hs⟩
    · generalize hu : (setConn t c fun x => { x with http := .reqSent }) = u at h
      have hcu : u.conns[c]? = some { cn with http := .reqSent } := by
        rw [← hu]; simp [setConn, List.getElem?_modify, hcn]
      have hlu : c < u.conns.length := by rw [← hu]; simp [setConn]; omega
      have tail : ∀ (v : State) (k : Nat), (∃ cn' : Conn, v.conns[c]? = some cn' ∧ cn'.sock = some k) →
          (match sendExc a.send with
            | some e => (v, (Except.error e : Except Exc Nat))
            | none =>
              (setSock (logEv v (.send k)) k fun sk => { sk with inbound := sk.inbound ++ (sk.held ++ serverNow rid a), held := serverHeld rid a, after := a.after }, .ok k))
            = (s', .error e) →
          e.cls ∈ sendCls ∧ (sendSwallowed e = true → ∃ (cn : Conn) (k : Nat), s'.conns[c]? = some cn ∧ cn.sock = some k) := by
        intro v k hv hh
        cases hse : sendExc a.send with
        | none => simp [hse] at hh
        | some e' =>
          simp only [hse] at hh
          cases hh
          obtain ⟨cn', g1, g2⟩ := hv
          exact ⟨sendExc_cls _ _ hse, fun _ => ⟨cn', k, g1, g2⟩⟩
      cases hsk : cn.sock with
      | some k =>
        simp only [hsk] at h
        exact tail u k ⟨_, hcu, hsk⟩ h
      | none =>
        simp only [hsk] at h
        have c1 := connect_cls u c a
        have c2 := connect_ok_sock u c a
        generalize connect u c a = q at h c1 c2
        obtain ⟨v, ek⟩ := q
        cases ek with
        | error e' =>
          dsimp only at h
          cases h
          obtain ⟨g1, g2⟩ := c1 e rfl
          exact ⟨g1, fun hs => by rw [g2] at hs; cases hs⟩
        | ok k =>
          dsimp only at h
          exact tail v k (c2 k hlu rfl) h

theorem readHead_cls : ∀ (fuel : Nat) (s : State) (r k : Nat) (e : Exc), r < s.resps.length →
    (readHead fuel s r k).2 = .exc e → e.cls ∈ headCls := by
  intro fuel
  induction fuel with
  | zero => intro s r k e _ h; simp [readHead] at h; subst h; simp [headCls, exc]
  | succ n ih =>
    intro s r k e hr h
    unfold readHead at h
    split at h
    · rename_i hn
      have := List.getElem?_eq_none_iff.mp hn
      omega
    · rename_i rs _
      split at h
      · dsimp only at h
        split at h
        · cases h; simp [headCls, exc]
        · cases h
      · have c1 := recvInto_cls s r k (bufSize - rs.buf.length)
        have m1 := (Mono.of_steps (recvInto_steps [] s r k (bufSize - rs.buf.length))).rlen
        generalize recvInto s r k (bufSize - rs.buf.length) = q at h c1 m1
        obtain ⟨t, o⟩ := q
        cases o with
        | got => exact ih t r k e (by dsimp only at m1; omega) h
        | eof =>
          dsimp only at h
          cases h
          split <;> simp [headCls, exc]
        | exc e' =>
          dsimp only at h
          cases h
          have := c1 e rfl
          simp only [headCls, List.mem_append]
          exact Or.inr this

theorem recvCls_eq (e : Exc) : (translateRecv e).cls = recvCls e.cls := translateRecv_cls e

theorem begin_steps (C : List Nat) (t : State) (c r : Nat) (f : Resp → Resp) (hf : ∀ x, (f x).conn = x.conn)
    (g g' : Conn → Conn) (hg : ∀ x, (g x).sock = x.sock) (hg' : ∀ x, (g' x).sock = x.sock) (A : Bool) :
    Steps C t (if A = true then connClose (setConn (setResp t r f) c g) c else setConn (setConn (setResp t r f) c g) c g') := by
  have s1 : Steps C t (setConn (setResp t r f) c g) :=
    (setResp_steps C t r f hf).trans (.one (.conn _ c g (fun x => Or.inl (hg x))))
  split
  · exact s1.trans (connClose_steps C _ c)
  · exact s1.trans (.one (.conn _ c g' (fun x => Or.inl (hg' x))))

/-- `conn.getresponse()`: only invariant-preserving moves; the response it returns is a brand-new
one; what it raises (after `_raise_timeout`) is one of `mrCls` -/
theorem getResponse_pres (C : List Nat) {s s' : State} {c k rid : Nat} {rc : ReqCfg} {out : RespOut}
    (h : getResponse s c k rid rc = (s', out)) :
    Pres C s s' ∧ (∀ r, out = .resp r → r = s.resps.length ∧ r < s'.resps.length) ∧
    (∀ e, out = .exc e → c < s.conns.length → (translateRecv e).cls ∈ mrCls) := by
  have inHead : ∀ e : Exc, e.cls ∈ headCls → (translateRecv e).cls ∈ mrCls := by
    intro e he
    rw [recvCls_eq]
    simp only [mrCls, List.mem_append, List.mem_map]
    exact Or.inl (Or.inr ⟨e.cls, he, rfl⟩)
  unfold getResponse at h
  have f1 := forget_steps C s c
  have fr : (forgetClosedPending s c).resps = s.resps := (forget_fields s c).1
  have fcl := forget_conns_length s c
  generalize forgetClosedPending s c = sF at h f1 fr fcl
  have fl : sF.resps.length = s.resps.length := by rw [fr]
  dsimp only at h
  split at h
  · rename_i hn
    cases h
    refine ⟨Pres.of_steps f1, (by intro r hr; cases hr), ?_⟩
    intro e _ hc
    have := List.getElem?_eq_none_iff.mp hn
    omega
  · rename_i cn hcn
    split at h
    · cases h
      refine ⟨Pres.of_steps f1, (by intro r hr; cases hr), ?_⟩
      intro e he _; cases he
      exact inHead _ (by simp [headCls, exc])
    · generalize hr0 : ({ rid := rid, fp := some k, isHead := rc.isHead } : Resp) = r0 at h
      have hc0 : r0.conn = none := by rw [← hr0]
      have s1 : Steps C sF { sF with resps := sF.resps ++ [r0] } := .one (.newResp sF r0 hc0)
      have l1 : ({ sF with resps := sF.resps ++ [r0] } : State).resps.length = sF.resps.length + 1 := by simp
      generalize ({ sF with resps := sF.resps ++ [r0] } : State) = t1 at h s1 l1
      generalize inboundLen t1 k + 2 = fuel at h
      have s2 := readHead_steps C fuel t1 sF.resps.length k
      have c2 := readHead_cls fuel t1 sF.resps.length k
      generalize readHead fuel t1 sF.resps.length k = q at h s2 c2
      obtain ⟨t2, oh⟩ := q
      have p2 : Pres C s t2 := Pres.of_steps ((f1.trans s1).trans s2)
      have l2 : s.resps.length + 1 ≤ t2.resps.length := by
        have := (Mono.of_steps s2).rlen; dsimp only at this; omega
      cases oh with
      | exc e =>
        cases h
        refine ⟨?_, (by intro r hr; cases hr), ?_⟩
        · refine p2.trans (Pres.of_steps ?_)
          split
          · refine ((connClose_steps C t2 c).trans (.one (.conn _ c _ ?_))).trans (closeFp_steps C _ _)
            intro x; exact Or.inl rfl
          · exact closeFp_steps C _ _
        · intro e' he' _; cases he'
          exact inHead _ (c2 e (by omega) rfl)
      | ok hd =>
        have fin : ∀ t5 : State, Steps C t2 t5 →
            (if rc.preload = true then
              match respRead t5 sF.resps.length none with
              | (s, .exc e) => (s, RespOut.exc e)
              | (s, .data _) => (s, RespOut.resp sF.resps.length)
            else (t5, RespOut.resp sF.resps.length)) = (s', out) →
            Pres C s s' ∧ (∀ r, out = .resp r → r = s.resps.length ∧ r < s'.resps.length) ∧
            (∀ e, out = .exc e → c < s.conns.length → (translateRecv e).cls ∈ mrCls) := by
          intro t5 s5 h5
          have p5 : Pres C s t5 := p2.trans (Pres.of_steps s5)
          have l5 : s.resps.length + 1 ≤ t5.resps.length := by
            have := (Mono.of_steps s5).rlen; omega
          split at h5
          · have p6 := respRead_pres C t5 sF.resps.length none
            generalize hrr : respRead t5 sF.resps.length none = q at h5 p6
            obtain ⟨t6, o6⟩ := q
            have l6 := p6.mono.rlen
            cases o6 with
            | exc e =>
              cases h5
              refine ⟨p5.trans p6, (by intro r hr; cases hr), ?_⟩
              intro e' he' _; cases he'
              rcases rawRead_cls (respRead_none_exc hrr) with q | ⟨e0, h0, rfl⟩
              · rw [recvCls_eq, q]
                have : recvCls Gen.cU3FullPoolError = Gen.cU3FullPoolError := by decide
                rw [this]; simp [mrCls]
              · rw [trCls_eq]
                simp only [mrCls, List.mem_append, List.mem_map]
                exact Or.inr ⟨e0.cls, h0, rfl⟩
            | data d =>
              cases h5
              refine ⟨p5.trans p6, ?_, (by intro e he; cases he)⟩
              intro r hr; cases hr
              exact ⟨fl, by dsimp only at l6; omega⟩
          · cases h5
            refine ⟨p5, ?_, (by intro e he; cases he)⟩
            intro r hr; cases hr
            exact ⟨fl, by omega⟩
        refine fin _ ?_ h
        refine begin_steps C t2 c _ _ ?_ _ _ ?_ ?_ _
        · intro x; rfl
        · intro x; rfl
        · intro x; rfl

/-- the end of `_make_request`: with `release_conn` the lease stays with `urlopen`; without, the
response holds the connection — or has given it back already when its body was preloaded -/
theorem attachResp_inv {s : State} {L : List Nat} {c r : Nat} {rs : Resp} (rc : ReqCfg) (h : InvL s (c :: L))
    (hr : s.resps[r]? = some rs) (hc : rs.conn = none) :
    (attachResp s c r rc).2 = .resp r ∧
    (if rc.release = true then InvL (attachResp s c r rc).1 (c :: L) else InvL (attachResp s c r rc).1 L) := by
  unfold attachResp
  dsimp only
  cases hrel : rc.release with
  | true =>
    simp only [Bool.not_true, Bool.false_and, Bool.false_eq_true, if_false, if_true]
    exact ⟨trivial, keep_inv h _ (fun rs' h' => by rw [hr] at h'; cases h'; exact hc.symm)⟩
  | false =>
    simp only [Bool.not_false, Bool.true_and, Bool.false_eq_true, if_false]
    have h1 : InvL (setResp s r fun x => { x with conn := some c, hasPool := true }) L :=
      attach_inv h hr hc _ rfl
    generalize (setResp s r fun x => { x with conn := some c, hasPool := true }) = t at h1
    split
    · obtain ⟨g1, g2⟩ := releaseConn_inv r h1
      generalize releaseConn t r = q at g1 g2
      obtain ⟨u, o⟩ := q
      dsimp only at g2
      subst g2
      exact ⟨rfl, g1⟩
    · exact ⟨rfl, h1⟩

theorem attachResp_keep (n : Nat) (s : State) (c r : Nat) (rc : ReqCfg) (h : n ≤ r) : KeepN n s (attachResp s c r rc).1 := by
  unfold attachResp
  dsimp only
  have k1 := setResp_keep n s r (fun x => { x with conn := if rc.release = true then none else some c, hasPool := true }) h
  generalize (setResp s r fun x => { x with conn := if rc.release = true then none else some c, hasPool := true }) = t at k1
  split
  · have m := (releaseConn_pres [] t r).mono
    generalize releaseConn t r = q at m
    obtain ⟨u, o⟩ := q
    cases o <;> exact k1.trans (m.keep n)
  · exact k1

theorem connReject_steps (s : State) (c : Nat) : Steps [c] s (connReject s c).1 := by
  unfold connReject
  refine (forget_steps [c] s c).trans ?_
  generalize forgetClosedPending s c = t
  dsimp only
  split
  · exact .refl _
  · split
    · exact .refl _
    · exact .one (.conn t c _ (fun _ => Or.inl rfl))

theorem connRequestH_steps (s : State) (c rid : Nat) (a : Attempt) (bad : Bool) :
    Steps [c] s (connRequestH s c rid a bad).1 := by
  cases bad with
  | false => exact connRequest_steps s c rid a
  | true => exact connReject_steps s c

/-- a request rejected between `putrequest()` and `endheaders()`: `CannotSendRequest` (state check of
`putrequest`) or the `ValueError` of `putheader`; neither is swallowed by `_make_request` -/
theorem connReject_cls {s s' : State} {c : Nat} {e : Exc} (hc : c < s.conns.length)
    (h : connReject s c = (s', .error e)) :
    (e.cls ∈ sendCls ∨ e.cls = Gen.cValueError) ∧ sendSwallowed e = false := by
  unfold connReject at h
  have hl := forget_conns_length s c
  generalize forgetClosedPending s c = t at h hl
  dsimp only at h
  split at h
  · rename_i hn
    have := List.getElem?_eq_none_iff.mp hn
    omega
  · split at h
    · cases h
      exact ⟨Or.inl (by simp [sendCls, exc]), by decide⟩
    · cases h
      exact ⟨Or.inr rfl, by decide⟩

theorem connRequestH_cls {s s' : State} {c rid : Nat} {a : Attempt} {bad : Bool} {e : Exc} (hc : c < s.conns.length)
    (h : connRequestH s c rid a bad = (s', .error e)) :
    (e.cls ∈ sendCls ∨ (bad = true ∧ e.cls = Gen.cValueError)) ∧
    (sendSwallowed e = true → ∃ (cn : Conn) (k : Nat), s'.conns[c]? = some cn ∧ cn.sock = some k) := by
  cases bad with
  | false =>
    obtain ⟨g1, g2⟩ := connRequest_cls hc h
    exact ⟨Or.inl g1, g2⟩
  | true =>
    obtain ⟨g1, g2⟩ := connReject_cls hc h
    refine ⟨g1.imp id (fun q => ⟨rfl, q⟩), fun hs => ?_⟩
    rw [g2] at hs; cases hs

theorem mem_owned_lease (s : State) (c : Nat) (L : List Nat) : c ∈ owned s (c :: L) := by simp [owned]

/-- `_make_request` with the connection `c` leased: a response leaves the lease with `urlopen`
(`release_conn`) or ends it (the response holds `c`, or has released it); an exception leaves the lease
in place, and its class is one of `mrCls` -/
theorem makeRequest_inv {s s' : State} {L : List Nat} {c rid : Nat} {a : Attempt} {rc : ReqCfg} {out : RespOut}
    (h : InvL s (c :: L)) (hm : makeRequest s c rid a rc = (s', out)) :
    (∀ r, out = .resp r → if rc.release = true then InvL s' (c :: L) else InvL s' L) ∧
    (∀ e, out = .exc e → InvL s' (c :: L) ∧ (e.cls ∈ mrCls ∨ (rc.badHeader = true ∧ e.cls = Gen.cValueError))) ∧
    KeepN s.resps.length s s' := by
  have hcl : c < s.conns.length := h.bound c (mem_owned_lease s c L)
  have inSend : ∀ e : Exc, (e.cls ∈ sendCls ∨ (rc.badHeader = true ∧ e.cls = Gen.cValueError)) →
      (e.cls ∈ mrCls ∨ (rc.badHeader = true ∧ e.cls = Gen.cValueError)) := by
    intro e he
    refine he.imp (fun he => ?_) id
    simp only [mrCls, List.mem_append]; exact Or.inl (Or.inl (Or.inl he))
  rw [makeRequest_eq] at hm
  have st1 := connRequestH_steps s c rid a rc.badHeader
  have c1 := @connRequestH_cls s (connRequestH s c rid a rc.badHeader).1 c rid a rc.badHeader
  generalize connRequestH s c rid a rc.badHeader = q at hm st1 c1
  obtain ⟨s1, ek⟩ := q
  dsimp only at hm st1 c1
  have h1 : InvL s1 (c :: L) := steps_inv (fun x hx => by simp at hx; subst hx; simp) st1 h
  have hcl1 : c < s1.conns.length := Nat.lt_of_lt_of_le hcl (Mono.of_steps st1).clen
  have k1 : KeepN s.resps.length s s1 := (Mono.of_steps st1).keep _
  have tail : ∀ k : Nat, makeTail s1 c rid rc (.ok k) = (s', out) →
      (∀ r, out = .resp r → if rc.release = true then InvL s' (c :: L) else InvL s' L) ∧
      (∀ e, out = .exc e → InvL s' (c :: L) ∧ (e.cls ∈ mrCls ∨ (rc.badHeader = true ∧ e.cls = Gen.cValueError))) ∧
      KeepN s.resps.length s s' := by
    intro k ht
    unfold makeTail at ht
    dsimp only at ht
    generalize hgr : getResponse s1 c k rid rc = q at ht
    obtain ⟨s2, o⟩ := q
    obtain ⟨p2, idx, cls⟩ := getResponse_pres [c] hgr
    have h2 : InvL s2 (c :: L) := p2.inv _ (fun x hx => by simp at hx; subst hx; simp) h1
    have k2 : KeepN s.resps.length s s2 := k1.trans (p2.mono.keep _)
    cases o with
    | exc e =>
      cases ht
      exact ⟨(by intro r hr; cases hr), fun e' he' => by cases he'; exact ⟨h2, Or.inl (cls e rfl hcl1)⟩, k2⟩
    | resp r =>
      dsimp only at ht
      obtain ⟨i1, i2⟩ := idx r rfl
      have k3 := attachResp_keep s.resps.length s2 c r rc (by have := k1.rlen; omega)
      rw [ht] at k3
      dsimp only at k3
      have hrs : s2.resps[r]? = some s2.resps[r] := List.getElem?_eq_getElem i2
      have hcn : (s2.resps[r]).conn = none := by
        cases hq : (s2.resps[r]).conn with
        | none => rfl
        | some c' =>
          obtain ⟨rs0, g1, _⟩ := p2.mono.conn r _ hrs (by rw [hq]; simp)
          have := (List.getElem?_eq_some_iff.mp g1).1
          omega
      obtain ⟨a1, a2⟩ := attachResp_inv rc h2 hrs hcn
      rw [ht] at a1 a2
      dsimp only at a1 a2
      subst a1
      exact ⟨fun _ _ => a2, (by intro e he; cases he), k2.trans k3⟩
  cases ek with
  | ok k => exact tail k hm
  | error e =>
    obtain ⟨e1, e2⟩ := c1 hcl rfl
    unfold sendFix at hm
    dsimp only at hm
    split at hm
    · rename_i hsw
      obtain ⟨cn, k, g1, g2⟩ := e2 hsw
      simp only [g1, g2] at hm
      exact tail k hm
    · unfold makeTail at hm
      cases hm
      exact ⟨(by intro r hr; cases hr), fun e' he' => by cases he'; exact ⟨h1, inSend e e1⟩, k1⟩

/-! ### `urlopen` -/

theorem mrCls_not_noCleanup {cls : Nat} (h : cls ∈ mrCls) (u : Bool) (rt : Retry) (m : Bool) :
    handleError u rt m cls ≠ .noCleanup := by
  apply not_noCleanup_of
  have : ∀ c ∈ mrCls, isInst c (Gen.urlopenHandlers.getD 1 []) = false := by decide
  exact this cls h

theorem handleError_emptyPool (u : Bool) (rt : Retry) (m : Bool) : handleError u rt m Gen.cU3EmptyPoolError = .noCleanup := by
  unfold handleError
  rw [if_pos (by decide)]

theorem handleError_closedPool (u : Bool) (rt : Retry) (m : Bool) : handleError u rt m Gen.cU3ClosedPoolError = .propagate := by
  unfold handleError
  rw [if_neg (by decide), if_neg (by decide)]

theorem getConn_error_cases {s s' : State} {e : Exc} (hg : getConn s = (s', .error e)) :
    s' = s ∧ (s.closed = true ∨ e.cls = Gen.cU3EmptyPoolError) := by
  refine ⟨getConn_error_state hg, ?_⟩
  unfold getConn at hg
  split at hg
  · rename_i hc; exact Or.inl hc
  · split at hg
    · split at hg
      · cases hg; exact Or.inr rfl
      · simp [newConn] at hg
    · split at hg <;> simp [newConn] at hg

/-- the `finally` clause when `_get_conn()` raised: nothing was taken, nothing is put back -/
theorem discard_none_inv {s : State} (h : Inv s) : Inv (discard s none).1 := h

theorem markReturned_inv {s : State} {L : List Nat} (r : Nat) (h : InvL s L) : InvL (markReturned s r) L :=
  steps_inv (C := []) (by simp) (setResp_steps [] s r _ (fun _ => rfl)) h

/-! ### what `urlopen` raises -/

/-- a urllib3 exception -/
def isU3 (c : Cls) : Bool := isSub c Gen.cU3HTTPError
/-- a `BaseException` that is not an `Exception` (what the fault scripts inject as an interrupt) -/
def isIntr (c : Cls) : Bool := isSub c Gen.cBaseException && !isSub c Gen.cException
def okCls (c : Cls) : Bool := isU3 c || isIntr c

/-- what `urlopen`'s `except` clauses hand to the caller for an exception of class `c` -/
def handledOkCls (c : Cls) : Handled → Bool
  | .propagate => okCls c
  | .noCleanup => okCls c
  | .raise e => okCls e.cls
  | .retry _ => true

/-- the classes `urlopen`'s handlers are applied to: what leaves `_make_request`, and `_get_conn`'s own errors -/
def tblCls : List Nat := mrCls ++ [Gen.cU3ClosedPoolError, Gen.cU3EmptyPoolError]

theorem handled_table : ∀ c ∈ tblCls, ∀ (u m : Bool) (rt : Retry), handledOkCls c (handleError u rt m c) = true := by
  intro c hc u m rt
  have key : ∀ r ∈ [Retry.off, Retry.count 0, Retry.count 1], handledOkCls c (handleError u r m c) = true := by
    revert c u m
    decide
  match rt with
  | .off => exact key _ (by simp)
  | .count 0 => exact key _ (by simp)
  | .count (n + 1) =>
    have h1 := key (.count 1) (by simp)
    have : handledOkCls c (handleError u (.count (n + 1)) m c) = handledOkCls c (handleError u (.count 1) m c) := by
      unfold handleError
      generalize isInst c (Gen.urlopenHandlers.getD 1 []) = A
      generalize isInst c (Gen.urlopenHandlers.getD 2 []) = B
      generalize translateUrlopen u c = T
      cases A <;> cases B <;> simp only [Retry.incrementErr, Retry.dec, handledOkCls, if_true, if_false, Bool.false_eq_true] <;>
      cases isConnectionError T <;> cases isReadError T <;> cases m <;> simp
    rw [this]; exact h1

theorem translateRead_cls (e : Exc) : (translateRead e).cls = (translateRead (exc e.cls)).cls := by
  unfold translateRead
  simp only [exc]
  by_cases h0 : isInst e.cls (Gen.errorCatcherHandlers.getD 0 []) = true
  · simp only [h0, if_true]
  · by_cases h1 : isInst e.cls (Gen.errorCatcherHandlers.getD 1 []) = true
    · simp only [h0, h1, if_true, if_false]
    · by_cases h2 : isInst e.cls (Gen.errorCatcherHandlers.getD 2 []) = true
      · simp only [h0, h1, h2, if_true, if_false]
      · by_cases h3 : isInst e.cls (Gen.errorCatcherHandlers.getD 3 []) = true
        · simp only [h0, h1, h2, h3, if_true, if_false]
        · simp only [h0, h1, h2, h3, Bool.false_eq_true, if_false]

theorem rawRead_exc_ok {s s' : State} {r : Nat} {amt : Option Nat} {e : Exc} (h : rawRead s r amt = (s', .exc e)) :
    okCls e.cls = true := by
  rcases rawRead_cls h with q | ⟨e0, h0, rfl⟩
  · rw [q]; decide
  · rw [translateRead_cls]
    have : ∀ c ∈ rawCls, okCls (translateRead (exc c)).cls = true := by decide
    exact this _ h0

theorem drainConn_exc_ok {s : State} {r : Nat} {e : Exc} (h : (drainConn s r).2 = some e) : okCls e.cls = true := by
  unfold drainConn at h
  generalize hrr : rawRead s r none = q at h
  obtain ⟨t, o⟩ := q
  cases o with
  | data d => cases h
  | exc e' =>
    dsimp only at h
    split at h
    · cases h
    · cases h; exact rawRead_exc_ok hrr

theorem discard_exc_ok {s : State} {x : Option Nat} {e : Exc} (h : (discard s x).2 = some e) : okCls e.cls = true := by
  have : e.cls = Gen.cU3FullPoolError := by
    unfold discard at h
    cases x with
    | none => cases h
    | some i => exact putConn_exc _ _ e h
  rw [this]; decide

theorem markReturned_mono (s : State) (r : Nat) : Mono s (markReturned s r) :=
  Mono.of_steps (setResp_steps [] s r (fun x => { x with returned := true }) (fun _ => rfl))

/-- the caller passed an argument that is rejected with `ValueError`: a per-request `timeout` that `Timeout` does not
accept, a negative `pool_timeout` (which `queue.get` rejects on a `block=True` pool), or a header value that
`putheader` cannot encode -/
def ReqCfg.badArg (rc : ReqCfg) : Bool := rc.badTimeout || rc.badPoolTimeout || rc.badHeader

/-- what a `urlopen` call may raise: a urllib3 exception, an interrupt, or — when the caller passed a per-request
timeout that `Timeout` rejects or a `pool_timeout` that `queue.get` rejects (`bt`) — the `ValueError` for that
argument -/
def okClsB (bt : Bool) (c : Cls) : Bool := okCls c || (bt && c == Gen.cValueError)

theorem okClsB_of {bt : Bool} {c : Cls} (h : okCls c = true) : okClsB bt c = true := by
  simp [okClsB, h]

/-- the state after a `urlopen` call entered in state `s0` satisfies the invariant, what the call raised is a
urllib3 exception or an interrupt (or the `ValueError` for an invalid `timeout` argument, `bt`), and the responses
that existed before (`index < n`) hold no more than before -/
def Good (n : Nat) (bt : Bool) (s0 : State) (x : State × Result) : Prop :=
  Inv x.1 ∧ (∀ e, x.2 = .raised e → okClsB bt e.cls = true) ∧ KeepN n s0 x.1

theorem Good.from {n : Nat} {bt : Bool} {s t : State} {x : State × Result} (k : KeepN n s t) (g : Good n bt t x) : Good n bt s x :=
  ⟨g.1, g.2.1, k.trans g.2.2⟩

theorem getConn_error_cls {s s' : State} {e : Exc} (hg : getConn s = (s', .error e)) :
    (s.closed = true ∧ e.cls = Gen.cU3ClosedPoolError) ∨ e.cls = Gen.cU3EmptyPoolError := by
  unfold getConn at hg
  split at hg
  · rename_i hc; cases hg; exact Or.inl ⟨hc, rfl⟩
  · split at hg
    · split at hg
      · cases hg; exact Or.inr rfl
      · simp [newConn] at hg
    · split at hg <;> simp [newConn] at hg

/-- what `urlopen` raises before its `try:` -/
theorem preflight_cls {rc : ReqCfg} {a : Attempt} {e : Exc} (h : preflight rc a = some e) :
    okClsB rc.badArg e.cls = true := by
  unfold preflight at h
  split at h
  · cases h; exact okClsB_of (by decide)
  · split at h
    · rename_i hb
      cases h
      simp [okClsB, ReqCfg.badArg, hb, exc]
    · cases h

/-- what the wait between two attempts raises -/
theorem waitExc_cls {ra : Bool} {w : WaitOut} {e : Exc} (h : waitExc ra w = some e) : okCls e.cls = true := by
  cases w <;> cases ra <;> simp [waitExc] at h <;> subst h <;> decide

theorem hop_badTimeout (rc : ReqCfg) : rc.hop.badArg = rc.badArg := rfl
theorem seeOther_badTimeout (rc : ReqCfg) : rc.seeOther.badArg = rc.badArg := rfl

/-- a whole `urlopen` call, whatever the script, the configuration and the retry budget -/
theorem request_good (rid n : Nat) : ∀ (script : List Attempt) (s : State) (rc : ReqCfg) (retries : Retry),
    Inv s → n ≤ s.resps.length → Good n rc.badArg s (request s rid rc retries script) := by
  intro script
  induction script with
  | nil => intro s rc retries h _; exact ⟨h, (by intro e he; cases he), KeepN.refl _ _⟩
  | cons a rest ih =>
    intro s rc retries h hn
    have afterDiscard : ∀ (t : State) (x : Option Nat) (e1 : Exc), KeepN n s t → Inv (discard t x).1 → okCls e1.cls = true →
        Good n rc.badArg s (match discard t x with
          | (s, some e') => (s, Result.raised e')
          | (s, none) => (s, Result.raised e1)) := by
      intro t x e1 kt pd ok1
      have ex := @discard_exc_ok t x
      have kd := kt.trans ((discard_mono t x).keep n)
      generalize discard t x = r at pd ex kd ⊢
      obtain ⟨s2, o⟩ := r
      cases o with
      | some e' => exact ⟨pd, (by intro e he; cases he; exact okClsB_of (ex rfl)), kd⟩
      | none => exact ⟨pd, (by intro e he; cases he; exact okClsB_of ok1), kd⟩
    have afterDiscardRec : ∀ (t : State) (x : Option Nat) (rc' : ReqCfg) (rt : Retry), rc'.badArg = rc.badArg →
        KeepN n s t → Inv (discard t x).1 →
        Good n rc.badArg s (match discard t x with
          | (s, some e'') => (s, Result.raised e'')
          | (s, none) => request s rid rc' rt rest) := by
      intro t x rc' rt hbt kt pd
      have ex := @discard_exc_ok t x
      have kd := kt.trans ((discard_mono t x).keep n)
      generalize discard t x = r at pd ex kd ⊢
      obtain ⟨s2, o⟩ := r
      cases o with
      | some e' => exact ⟨pd, (by intro e he; cases he; exact okClsB_of (ex rfl)), kd⟩
      | none => exact Good.from kd (hbt ▸ ih s2 rc' rt pd (Nat.le_trans hn kd.rlen))
    have afterDrain : ∀ (t : State) (r : Nat) (e1 : Exc), KeepN n s t → Inv t → okCls e1.cls = true →
        Good n rc.badArg s (match drainConn t r with
          | (s, some e) => (s, Result.raised e)
          | (s, none) => (s, Result.raised e1)) := by
      intro t r e1 kt pt ok1
      have pd := (drainConn_pres [] t r).inv [] (by simp) pt
      have kd := kt.trans ((drainConn_pres [] t r).mono.keep n)
      have ex := @drainConn_exc_ok t r
      generalize drainConn t r = q at pd ex kd ⊢
      obtain ⟨s2, o⟩ := q
      cases o with
      | some e' => exact ⟨pd, (by intro e he; cases he; exact okClsB_of (ex rfl)), kd⟩
      | none => exact ⟨pd, (by intro e he; cases he; exact okClsB_of ok1), kd⟩
    -- drain, then the wait between the attempts (which may raise: the state is the drained one), then recurse
    have afterDrainRec : ∀ (t : State) (r : Nat) (w : Option Exc) (rc' : ReqCfg) (rt : Retry), rc'.badArg = rc.badArg →
        (∀ e, w = some e → okCls e.cls = true) → KeepN n s t → Inv t →
        Good n rc.badArg s (match drainConn t r with
          | (s, some e) => (s, Result.raised e)
          | (s, none) =>
            match w with
            | some e => (s, Result.raised e)
            | none => request s rid rc' rt rest) := by
      intro t r w rc' rt hbt hw kt pt
      have pd := (drainConn_pres [] t r).inv [] (by simp) pt
      have kd := kt.trans ((drainConn_pres [] t r).mono.keep n)
      have ex := @drainConn_exc_ok t r
      generalize drainConn t r = q at pd ex kd ⊢
      obtain ⟨s2, o⟩ := q
      cases o with
      | some e' => exact ⟨pd, (by intro e he; cases he; exact okClsB_of (ex rfl)), kd⟩
      | none =>
        cases w with
        | some e' => exact ⟨pd, (by intro e he; cases he; exact okClsB_of (hw e' rfl)), kd⟩
        | none => exact Good.from kd (hbt ▸ ih s2 rc' rt pd (Nat.le_trans hn kd.rlen))
    have mrOk : okCls Gen.cU3MaxRetryError = true := by decide
    rw [request]
    -- a failure before the `try:` (unrewindable body, invalid timeout) changes nothing
    cases hpf : preflight rc a with
    | some e0 => exact ⟨h, (by intro e he; cases he; exact preflight_cls hpf), KeepN.refl _ _⟩
    | none =>
    dsimp only
    -- a `pool_timeout` that `queue.get` rejects: `ValueError` out of `_get_conn`; it is none of `urlopen`'s `except`
    -- clauses, and the `finally` clause (`conn` is `None`) puts nothing back: the state is untouched
    rcases getConnT_cases s rc.badPoolTimeout with hT | ⟨hT, -, -, hbad⟩
    rotate_left
    · rw [hT]
      dsimp only
      rw [show (exc Gen.cValueError).cls = Gen.cValueError from rfl, handleError_valueError]
      dsimp only [discard]
      exact ⟨h, (by intro e he; cases he; simp [okClsB, ReqCfg.badArg, hbad, exc]), KeepN.refl _ _⟩
    rw [hT]
    have kg := getConn_keep s n
    generalize hg : getConn s = res at kg
    obtain ⟨s1, eg⟩ := res
    dsimp only at kg
    cases eg with
    | error e =>
      dsimp only
      obtain ⟨rfl, _⟩ := getConn_error_cases hg
      have hcls := getConn_error_cls hg
      have hmem : e.cls ∈ tblCls := by
        simp only [tblCls, List.mem_append, List.mem_cons]
        rcases hcls with ⟨_, q⟩ | q
        · exact Or.inr (Or.inl q)
        · exact Or.inr (Or.inr (Or.inl q))
      have tbl := handled_table e.cls hmem false rc.methodRetryable retries
      split
      · rename_i hh
        rw [hh] at tbl
        exact ⟨h, (by intro e' he'; cases he'; exact okClsB_of tbl), KeepN.refl _ _⟩
      all_goals
        rename_i hh
        rw [hh] at tbl
        rcases hcls with ⟨hcl, _⟩ | hcl
        · have pd := discard_none_inv h
          first
            | exact afterDiscard _ _ _ (KeepN.refl _ _) pd tbl
            | exact afterDiscardRec _ _ _ _ (hop_badTimeout rc) (KeepN.refl _ _) pd
        · rw [hcl, handleError_emptyPool] at hh
          cases hh
    | ok c =>
      dsimp only
      have h1 : InvL s1 [c] := getConn_inv h hg
      generalize hm : makeRequest s1 c rid a rc = res
      obtain ⟨s2, o⟩ := res
      obtain ⟨okr, oke, km⟩ := makeRequest_inv h1 hm
      have k2 : KeepN n s s2 := kg.trans (km.weaken (Nat.le_trans hn kg.rlen))
      cases o with
      | exc e =>
        dsimp only
        obtain ⟨h2, hcls⟩ := oke e rfl
        have pd : Inv (discard s2 (some c)).1 := discard_lease_inv h2
        -- the `ValueError` of a header that cannot be encoded: none of `urlopen`'s `except` clauses; the `finally`
        -- clause throws the connection away
        rcases hcls with hcls | ⟨hbh, hve⟩
        rotate_left
        · rw [hve, handleError_valueError]
          dsimp only
          have ex := @discard_exc_ok s2 (some c)
          have kd := k2.trans ((discard_mono s2 (some c)).keep n)
          generalize discard s2 (some c) = r at pd ex kd ⊢
          obtain ⟨s3, o⟩ := r
          cases o with
          | some e' => exact ⟨pd, (by intro e he; cases he; exact okClsB_of (ex rfl)), kd⟩
          | none =>
            exact ⟨pd, (by intro e0 he; cases he; simp [okClsB, ReqCfg.badArg, hbh, hve]), kd⟩
        have hmem : e.cls ∈ tblCls := by simp only [tblCls, List.mem_append]; exact Or.inl hcls
        have tbl := handled_table e.cls hmem (unconnectedProxy s2 c) rc.methodRetryable retries
        split
        · rename_i hh
          exact absurd hh (mrCls_not_noCleanup hcls _ _ _)
        · rename_i hh; rw [hh] at tbl; exact afterDiscard _ _ _ k2 pd tbl
        · rename_i hh; rw [hh] at tbl; exact afterDiscard _ _ _ k2 pd tbl
        · exact afterDiscardRec _ _ _ _ (hop_badTimeout rc) k2 pd
      | resp r =>
        dsimp only
        have h2 := okr r rfl
        have lp : Inv (if rc.release = true then putConn s2 (some c) else (s2, none)).1 := by
          split
          · rename_i hrel
            rw [if_pos hrel] at h2
            exact putConn_lease_inv h2
          · rename_i hrel
            rw [if_neg hrel] at h2
            exact h2
        have lx : ∀ e, (if rc.release = true then putConn s2 (some c) else (s2, none)).2 = some e → okCls e.cls = true := by
          intro e he
          split at he
          · rw [putConn_exc _ _ e he]; decide
          · cases he
        have lk : KeepN n s (if rc.release = true then putConn s2 (some c) else (s2, none)).1 := by
          split
          · exact k2.trans ((putConn_mono s2 (some c)).keep n)
          · exact k2
        generalize (if rc.release = true then putConn s2 (some c) else (s2, none)) = q at lp lx lk ⊢
        obtain ⟨s3, o3⟩ := q
        cases o3 with
        | some e => exact ⟨lp, (by intro e' he'; cases he'; exact okClsB_of (lx e rfl)), lk⟩
        | none =>
          dsimp only at lp lk ⊢
          have fin : ∀ (loc ra : Bool) (status : Nat) (w : Option Exc), (∀ e, w = some e → okCls e.cls = true) →
              Good n rc.badArg s
              (if (rc.redirect && isRedirect s3 r loc) = true then
                match retries.incrementResp with
                | none =>
                  if retries.raiseOnRedirect = true then
                    match drainConn s3 r with
                    | (s, some e) => (s, Result.raised e)
                    | (s, none) => (s, Result.raised (exc Gen.cU3MaxRetryError))
                  else (markReturned s3 r, Result.resp r)
                | some retries' =>
                  match drainConn s3 r with
                  | (s, some e) => (s, Result.raised e)
                  | (s, none) =>
                    match w with
                    | some e => (s, Result.raised e)
                    | none => request s rid (if (status == 303) = true then rc.seeOther else rc.hop) retries' rest
              else if retries.isRetry rc.methodRetryable status ra = true then
                match retries.incrementResp with
                | none =>
                  match drainConn s3 r with
                  | (s, some e) => (s, Result.raised e)
                  | (s, none) => (s, Result.raised (exc Gen.cU3MaxRetryError))
                | some retries' =>
                  match drainConn s3 r with
                  | (s, some e) => (s, Result.raised e)
                  | (s, none) =>
                    match w with
                    | some e => (s, Result.raised e)
                    | none => request s rid rc.hop retries' rest
              else (markReturned s3 r, Result.resp r)) := by
            intro loc ra status w hw
            have mr : Good n rc.badArg s (markReturned s3 r, Result.resp r) :=
              ⟨markReturned_inv r lp, (by intro e he; cases he),
                lk.trans (markReturned_mono s3 r |>.keep n)⟩
            have hbt' : (if (status == 303) = true then rc.seeOther else rc.hop).badArg = rc.badArg := by
              split <;> rfl
            split
            · split
              · split
                · exact afterDrain _ _ _ lk lp mrOk
                · exact mr
              · exact afterDrainRec _ _ _ _ _ hbt' hw lk lp
            · split
              · split
                · exact afterDrain _ _ _ lk lp mrOk
                · exact afterDrainRec _ _ _ _ _ (hop_badTimeout rc) hw lk lp
              · exact mr
          exact fin _ _ _ _ (fun e he => waitExc_cls he)

theorem request_inv (rid : Nat) (script : List Attempt) (s : State) (rc : ReqCfg) (retries : Retry) (h : Inv s) :
    Inv (request s rid rc retries script).1 := (request_good rid 0 script s rc retries h (Nat.zero_le _)).1

theorem step_inv' {s : State} (op : Op) (h : Inv s) : Inv (step s op).1 := by
  cases op with
  | request rid rc rt script => exact request_inv rid script s rc rt h
  | dispose rid how => exact dispose_inv rid how h
  | closePool => exact closePool_inv h

/-- the slot invariant holds after every history -/
theorem run_inv : ∀ (ops : List Op) (s : State), Inv s → Inv (run s ops) := by
  intro ops
  induction ops with
  | nil => intro s h; exact h
  | cons op rest ih =>
    intro s h
    show Inv (run (step s op).1 rest)
    exact ih _ (step_inv' op h)

/-! ### across a history: nothing starts holding, the configuration is never written -/

theorem closePool_keep (s : State) (n : Nat) : KeepN n s (closePool s) := by
  rw [closePool_eq]
  split
  · exact KeepN.refl _ _
  · exact (frame_keep (s := s) (s' := { s with queue := [], closed := true }) n rfl rfl rfl).trans
      ((Mono.of_steps (foldl_close_steps [] s.queue _)).keep n)

theorem step_keep {s : State} (op : Op) (h : Inv s) : KeepN s.resps.length s (step s op).1 := by
  cases op with
  | request rid rc rt script => exact (request_good rid s.resps.length script s rc rt h (Nat.le_refl _)).2.2
  | dispose rid how =>
    show KeepN s.resps.length s (dispose s rid how).1
    unfold dispose
    split
    · exact KeepN.refl _ _
    · exact (disposeResp_pres [] s _ how).mono.keep _
  | closePool => exact closePool_keep s _

theorem run_keep : ∀ (ops : List Op) (s : State), Inv s → KeepN s.resps.length s (run s ops) := by
  intro ops
  induction ops with
  | nil => intro s _; exact KeepN.refl _ _
  | cons op rest ih =>
    intro s h
    show KeepN s.resps.length s (run (step s op).1 rest)
    have k1 := step_keep op h
    exact k1.trans ((ih _ (step_inv' op h)).weaken k1.rlen)

/-- a response that holds no connection never holds one later, whatever happens to the pool -/
theorem unheld_stays {s : State} (h : Inv s) (ops : List Op) {r : Nat} {rs : Resp} (hr : s.resps[r]? = some rs)
    (hc : rs.conn = none) : ∀ rs' : Resp, (run s ops).resps[r]? = some rs' → rs'.conn = none := by
  intro rs' hr'
  cases hq : rs'.conn with
  | none => rfl
  | some c =>
    have hlt : r < s.resps.length := (List.getElem?_eq_some_iff.mp hr).1
    obtain ⟨rs0, g1, g2⟩ := (run_keep ops s h).old r rs' hlt hr' (by rw [hq]; simp)
    rw [hr] at g1; cases g1
    rw [hc, hq] at g2; cases g2

/-- `release_conn()` on a response that knows its pool leaves it holding nothing (and never raises) -/
theorem releaseConn_unholds {s : State} {L : List Nat} (h : InvL s L) {r : Nat} {rs : Resp} (hr : s.resps[r]? = some rs)
    (hp : rs.hasPool = true) : ∀ rs' : Resp, (releaseConn s r).1.resps[r]? = some rs' → rs'.conn = none := by
  have hno := (releaseConn_inv r h).2
  unfold releaseConn at hno ⊢
  simp only [hr, hp, Bool.not_true, Bool.false_eq_true, if_false] at hno ⊢
  cases hc : rs.conn with
  | none => intro rs' h'; simp only [hc] at h'; rw [hr] at h'; cases h'; exact hc
  | some c =>
    simp only [hc] at hno ⊢
    generalize putConn s (some c) = q at hno ⊢
    obtain ⟨t, o⟩ := q
    cases o with
    | some e => cases hno
    | none =>
      intro rs' h'
      simp only [setResp, List.getElem?_modify] at h'
      cases hx : t.resps[r]? with
      | none => simp [hx] at h'
      | some x => simp [hx] at h'; rw [← h']

end U3.Pool
