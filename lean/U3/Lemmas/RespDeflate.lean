import U3.Lemmas.Resp
/-! `deflate_fallback`: the `DeflateDecoder` wrapper (first try zlib; on a `zlib.error` before any
output fall back to raw deflate and replay everything seen so far) obeys the streaming law for EVERY
pair of byte-step `decompressobj`s.

The wrapper is characterised by a byte fold `dfRun` over the state (first-try flag, bytes seen
while trying, core state, which object), compositional by construction; `dfDecompress` computes it
on every input on which the fold is defined.  The fold is *undefined* exactly where the real
decoder fails or is not compositional: an error after the first output, an error of the raw replay,
`unsupported`, and a zlib attempt that produces output and then fails *within the same call* (the
call falls back and replays, a split feed would already have left the first-try mode). -/
namespace U3.Resp
open U3

/-! ## a generic byte fold with output -/

def foldRun {α : Type} (step : α → Nat → Option (α × Bytes)) : α → Bytes → Option (α × Bytes)
  | a, [] => some (a, [])
  | a, b :: t =>
    match step a b with
    | none => none
    | some (a1, o) =>
      match foldRun step a1 t with
      | none => none
      | some (a2, o2) => some (a2, o ++ o2)

theorem foldRun_nil {α : Type} (step : α → Nat → Option (α × Bytes)) (a : α) :
    foldRun step a [] = some (a, []) := by rw [foldRun]

theorem foldRun_cons {α : Type} (step : α → Nat → Option (α × Bytes)) (a : α) (b : Nat) (t : Bytes) :
    foldRun step a (b :: t) =
      match step a b with
      | none => none
      | some (a1, o) =>
        match foldRun step a1 t with
        | none => none
        | some (a2, o2) => some (a2, o ++ o2) := by rw [foldRun]

theorem foldRun_append {α : Type} (step : α → Nat → Option (α × Bytes)) (x y : Bytes) :
    ∀ (a a2 : α) (p : Bytes), foldRun step a (x ++ y) = some (a2, p) →
      ∃ a1 o p', foldRun step a x = some (a1, o) ∧ foldRun step a1 y = some (a2, p') ∧ p = o ++ p' := by
  induction x with
  | nil => intro a a2 p h; exact ⟨a, [], p, foldRun_nil step a, by simpa using h, rfl⟩
  | cons b t ih =>
    intro a a2 p h
    rw [List.cons_append, foldRun_cons] at h
    rw [foldRun_cons]
    cases hs : step a b with
    | none => rw [hs] at h; cases h
    | some r1 =>
      obtain ⟨a1, o⟩ := r1
      rw [hs] at h
      simp only [] at h ⊢
      cases hr : foldRun step a1 (t ++ y) with
      | none => rw [hr] at h; cases h
      | some r2 =>
        obtain ⟨a2', o2⟩ := r2
        rw [hr] at h
        simp only [Option.some.injEq, Prod.mk.injEq] at h
        obtain ⟨rfl, rfl⟩ := h
        obtain ⟨a1', o', p', h1, h2, h3⟩ := ih a1 a2' o2 hr
        refine ⟨a1', o ++ o', p', ?_, h2, ?_⟩
        · rw [h1]
        · rw [h3, List.append_assoc]

/-- a step that neither moves nor outputs can be iterated -/
theorem foldRun_stuck {α : Type} (step : α → Nat → Option (α × Bytes)) (f : α → Nat → α)
    (P : α → Prop) (hP : ∀ a b, P a → step a b = some (f a b, []) ∧ P (f a b)) :
    ∀ (x : Bytes) (a : α), P a → foldRun step a x = some (x.foldl f a, []) := by
  intro x
  induction x with
  | nil => intro a _; rw [foldRun]; rfl
  | cons b t ih =>
    intro a ha
    obtain ⟨h1, h2⟩ := hP a b ha
    rw [foldRun_cons, h1]
    simp only []
    rw [ih _ h2]
    rfl

theorem feedLoop_rest_eof {ρ} (O : RawObj ρ) : ∀ (data : Bytes) (s : ρ) (acc : Bytes) (s' : ρ) (out rest : Bytes),
    feedLoop O s data acc = .ok (s', out, rest) → rest ≠ [] → O.eof s' = true := by
  intro data
  induction data with
  | nil =>
    intro s acc s' out rest h hr
    simp only [feedLoop, Except.ok.injEq, Prod.mk.injEq] at h
    exact absurd h.2.2.symm hr
  | cons b t ih =>
    intro s acc s' out rest h hr
    rw [feedLoop_cons] at h
    by_cases he : O.eof s = true
    · rw [if_pos he] at h
      simp only [Except.ok.injEq, Prod.mk.injEq] at h
      rw [← h.1]; exact he
    · rw [if_neg he] at h
      cases hs : O.step s b with
      | error e => rw [hs] at h; cases h
      | ok r => rw [hs] at h; exact ih _ _ _ _ _ h hr

section
variable {ρ : Type} (Oz Or : RawObj ρ)

/-- state of the byte-wise semantics of `DeflateDecoder` -/
structure DfS (ρ : Type) where
  ft : Bool          -- `_first_try`
  pre : Bytes        -- `_data`
  s : ρ              -- core state of `_obj`
  raw : Bool         -- `_obj` is the raw-deflate object

def dfStep (σ : DfS ρ) (b : Nat) : Option (DfS ρ × Bytes) :=
  if σ.ft then
    if Oz.eof σ.s then some (⟨true, σ.pre ++ [b], σ.s, σ.raw⟩, [])
    else match Oz.step σ.s b with
      | .error .unsupported => none
      | .error .error =>
        match feedLoop Or Or.init (σ.pre ++ [b]) [] with
        | .error _ => none
        | .ok (s', out, _) => some (⟨false, [], s', true⟩, out)
      | .ok (s1, o) =>
        if o.isEmpty then some (⟨true, σ.pre ++ [b], s1, σ.raw⟩, []) else some (⟨false, [], s1, σ.raw⟩, o)
  else
    if (if σ.raw then Or else Oz).eof σ.s then some (σ, [])
    else match (if σ.raw then Or else Oz).step σ.s b with
      | .error _ => none
      | .ok (s1, o) => some (⟨false, σ.pre, s1, σ.raw⟩, o)

def dfRun : DfS ρ → Bytes → Option (DfS ρ × Bytes) := foldRun (dfStep Oz Or)

/-- after `eof`, outside the first-try mode: everything is ignored (goes to `unused_data`) -/
theorem dfRun_eof_plain (pre : Bytes) (s : ρ) (raw : Bool) (he : (if raw then Or else Oz).eof s = true) (x : Bytes) :
    dfRun Oz Or ⟨false, pre, s, raw⟩ x = some (⟨false, pre, s, raw⟩, []) := by
  have hconst : ∀ (x : Bytes) (a : DfS ρ), x.foldl (fun a _ => a) a = a := by
    intro x; induction x with
    | nil => intro a; rfl
    | cons b t ih => intro a; simpa using ih a
  have := foldRun_stuck (dfStep Oz Or) (fun a _ => a)
    (fun a => a = (⟨false, pre, s, raw⟩ : DfS ρ))
    (by intro a b ha; subst ha; simp [dfStep, he]) x ⟨false, pre, s, raw⟩ rfl
  unfold dfRun
  rw [this, hconst]

/-- after `eof`, still in the first-try mode: the bytes are only recorded -/
theorem dfRun_eof_ft (s : ρ) (raw : Bool) (he : Oz.eof s = true) : ∀ (x pre : Bytes),
    dfRun Oz Or ⟨true, pre, s, raw⟩ x = some (⟨true, pre ++ x, s, raw⟩, []) := by
  intro x
  induction x with
  | nil => intro pre; simp [dfRun, foldRun_nil]
  | cons b t ih =>
    intro pre
    unfold dfRun at ih ⊢
    rw [foldRun_cons]
    have : dfStep Oz Or ⟨true, pre, s, raw⟩ b = some (⟨true, pre ++ [b], s, raw⟩, []) := by
      simp [dfStep, he]
    rw [this]
    simp only []
    rw [ih (pre ++ [b])]
    simp [List.append_assoc]

/-- outside the first-try mode the wrapper is the `decompressobj` -/
theorem dfRun_plain (pre : Bytes) (raw : Bool) : ∀ (data : Bytes) (s : ρ) (r : DfS ρ) (o : Bytes),
    dfRun Oz Or ⟨false, pre, s, raw⟩ data = some (r, o) →
    ∃ s' rest, feedLoop (if raw then Or else Oz) s data [] = .ok (s', o, rest) ∧ r = ⟨false, pre, s', raw⟩ := by
  intro data
  induction data with
  | nil =>
    intro s r o h
    simp only [dfRun, foldRun_nil, Option.some.injEq, Prod.mk.injEq] at h
    obtain ⟨rfl, rfl⟩ := h
    exact ⟨s, [], by simp [feedLoop], rfl⟩
  | cons b t ih =>
    intro s r o h
    rw [feedLoop_cons]
    by_cases he : (if raw then Or else Oz).eof s = true
    · rw [dfRun_eof_plain Oz Or pre s raw he] at h
      simp only [Option.some.injEq, Prod.mk.injEq] at h
      obtain ⟨rfl, rfl⟩ := h
      rw [if_pos he]
      exact ⟨s, b :: t, rfl, rfl⟩
    · rw [if_neg he]
      unfold dfRun at h ih
      rw [foldRun_cons] at h
      cases hs : (if raw then Or else Oz).step s b with
      | error e =>
        have : dfStep Oz Or ⟨false, pre, s, raw⟩ b = none := by
          simp [dfStep, he, hs]
        rw [this] at h; cases h
      | ok r1 =>
        obtain ⟨s1, ob⟩ := r1
        have : dfStep Oz Or ⟨false, pre, s, raw⟩ b = some (⟨false, pre, s1, raw⟩, ob) := by
          simp [dfStep, he, hs]
        rw [this] at h
        simp only [] at h ⊢
        cases hr : foldRun (dfStep Oz Or) ⟨false, pre, s1, raw⟩ t with
        | none => rw [hr] at h; cases h
        | some r2 =>
          obtain ⟨r', o2⟩ := r2
          rw [hr] at h
          simp only [Option.some.injEq, Prod.mk.injEq] at h
          obtain ⟨rfl, rfl⟩ := h
          obtain ⟨s', rest, h1, h2⟩ := ih s1 r' o2 hr
          rw [feedLoop_acc, h1]
          exact ⟨s', rest, by simp [Except.map], h2⟩

/-- in the first-try mode one `decompress(data)` call either feeds the zlib object (leaving the mode
iff there was output) or — on a `zlib.error` before any output — replays everything on the raw one -/
theorem dfRun_ft : ∀ (data pre : Bytes) (s : ρ) (r : DfS ρ) (o : Bytes),
    dfRun Oz Or ⟨true, pre, s, false⟩ data = some (r, o) →
    (∃ s' rest, feedLoop Oz s data [] = .ok (s', o, rest) ∧
      r = if o.isEmpty then ⟨true, pre ++ data, s', false⟩ else ⟨false, [], s', false⟩) ∨
    (feedLoop Oz s data [] = .error .error ∧
      ∃ s' rest, feedLoop Or Or.init (pre ++ data) [] = .ok (s', o, rest) ∧ r = ⟨false, [], s', true⟩) := by
  intro data
  induction data with
  | nil =>
    intro pre s r o h
    simp only [dfRun, foldRun_nil, Option.some.injEq, Prod.mk.injEq] at h
    obtain ⟨rfl, rfl⟩ := h
    left
    exact ⟨s, [], by simp [feedLoop], by simp⟩
  | cons b t ih =>
    intro pre s r o h
    rw [feedLoop_cons]
    by_cases he : Oz.eof s = true
    · rw [dfRun_eof_ft Oz Or s false he] at h
      simp only [Option.some.injEq, Prod.mk.injEq] at h
      obtain ⟨rfl, rfl⟩ := h
      rw [if_pos he]
      left
      exact ⟨s, b :: t, rfl, by simp⟩
    · rw [if_neg he]
      unfold dfRun at h ih
      rw [foldRun_cons] at h
      cases hs : Oz.step s b with
      | error e =>
        cases e with
        | unsupported =>
          have : dfStep Oz Or ⟨true, pre, s, false⟩ b = none := by simp [dfStep, he, hs]
          rw [this] at h; cases h
        | error =>
          right
          refine ⟨rfl, ?_⟩
          cases hrp : feedLoop Or Or.init (pre ++ [b]) [] with
          | error e =>
            have : dfStep Oz Or ⟨true, pre, s, false⟩ b = none := by simp [dfStep, he, hs, hrp]
            rw [this] at h; cases h
          | ok v =>
            obtain ⟨s', out, rest0⟩ := v
            have : dfStep Oz Or ⟨true, pre, s, false⟩ b = some (⟨false, [], s', true⟩, out) := by
              simp [dfStep, he, hs, hrp]
            rw [this] at h
            simp only [] at h
            cases hr : foldRun (dfStep Oz Or) ⟨false, [], s', true⟩ t with
            | none => rw [hr] at h; cases h
            | some r2 =>
              obtain ⟨r', o2⟩ := r2
              rw [hr] at h
              simp only [Option.some.injEq, Prod.mk.injEq] at h
              obtain ⟨rfl, rfl⟩ := h
              have hsplit : pre ++ b :: t = (pre ++ [b]) ++ t := by simp
              rw [hsplit, feedLoop_append, hrp]
              simp only []
              by_cases hr0 : rest0 = []
              · rw [if_pos hr0]
                obtain ⟨s'', rest, h1, h2⟩ := dfRun_plain Oz Or [] true t s' r' o2 hr
                simp only [if_true] at h1
                rw [h1]
                exact ⟨s'', rest, by simp [Except.map], h2⟩
              · rw [if_neg hr0]
                have heof := feedLoop_rest_eof Or _ _ _ _ _ _ hrp hr0
                have := dfRun_eof_plain Oz Or [] s' true (by simpa using heof) t
                unfold dfRun at this
                rw [this] at hr
                simp only [Option.some.injEq, Prod.mk.injEq] at hr
                obtain ⟨rfl, rfl⟩ := hr
                exact ⟨s', rest0 ++ t, by simp, rfl⟩
      | ok r1 =>
        obtain ⟨s1, ob⟩ := r1
        simp only []
        by_cases hob : ob.isEmpty = true
        · have hob' : ob = [] := List.isEmpty_iff.mp hob
          subst hob'
          have : dfStep Oz Or ⟨true, pre, s, false⟩ b = some (⟨true, pre ++ [b], s1, false⟩, []) := by
            simp [dfStep, he, hs]
          rw [this] at h
          simp only [] at h
          cases hr : foldRun (dfStep Oz Or) ⟨true, pre ++ [b], s1, false⟩ t with
          | none => rw [hr] at h; cases h
          | some r2 =>
            obtain ⟨r', o2⟩ := r2
            rw [hr] at h
            simp only [Option.some.injEq, Prod.mk.injEq, List.nil_append] at h
            obtain ⟨rfl, rfl⟩ := h
            have hsplit : pre ++ b :: t = (pre ++ [b]) ++ t := by simp
            rw [hsplit]
            simpa using ih (pre ++ [b]) s1 r' o2 hr
        · have : dfStep Oz Or ⟨true, pre, s, false⟩ b = some (⟨false, [], s1, false⟩, ob) := by
            simp [dfStep, he, hs, hob]
          rw [this] at h
          simp only [] at h
          cases hr : foldRun (dfStep Oz Or) ⟨false, [], s1, false⟩ t with
          | none => rw [hr] at h; cases h
          | some r2 =>
            obtain ⟨r', o2⟩ := r2
            rw [hr] at h
            simp only [Option.some.injEq, Prod.mk.injEq] at h
            obtain ⟨rfl, rfl⟩ := h
            obtain ⟨s', rest, h1, h2⟩ := dfRun_plain Oz Or [] false t s1 r' o2 hr
            simp only [Bool.false_eq_true, if_false] at h1
            left
            rw [feedLoop_acc, h1]
            refine ⟨s', rest, by simp [Except.map], ?_⟩
            have : (ob ++ o2).isEmpty = false := by
              cases ob with
              | nil => simp at hob
              | cons _ _ => rfl
            rw [this, h2]
            simp

/-- the spec state of a `DeflateDecoder` -/
def Df.spec (d : Df ρ) : DfS ρ := ⟨d.firstTry, d.data, d.obj.st, d.isRaw⟩

/-- **`DeflateDecoder.decompress`** computes `dfRun` -/
theorem dfDecompress_run (d : Df ρ) (data : Bytes) (r : DfS ρ) (o : Bytes)
    (hraw : d.firstTry = true → d.isRaw = false)
    (hrun : dfRun Oz Or d.spec data = some (r, o)) :
    ∃ d', dfDecompress Oz Or d data = (.ok o, d') ∧ d'.spec = r ∧ (d'.firstTry = true → d'.isRaw = false) := by
  unfold dfDecompress
  by_cases hd : data.isEmpty = true
  · have : data = [] := List.isEmpty_iff.mp hd
    subst this
    simp only [dfRun, foldRun_nil, Option.some.injEq, Prod.mk.injEq] at hrun
    obtain ⟨rfl, rfl⟩ := hrun
    exact ⟨d, by simp, rfl, hraw⟩
  · rw [if_neg hd]
    cases hft : d.firstTry with
    | false =>
      simp only [Bool.not_false, if_true]
      have hspec : d.spec = ⟨false, d.data, d.obj.st, d.isRaw⟩ := by simp [Df.spec, hft]
      rw [hspec] at hrun
      obtain ⟨s', rest, h1, h2⟩ := dfRun_plain Oz Or d.data d.isRaw data d.obj.st r o hrun
      refine ⟨{ d with obj := ⟨s', d.obj.unused ++ rest⟩ }, ?_, ?_, ?_⟩
      · simp [dfFeed, zlibFeed, h1]
      · rw [h2]; simp [Df.spec, hft]
      · intro h; simp [hft] at h
    | true =>
      simp only [Bool.not_true, Bool.false_eq_true, if_false]
      have hr0 := hraw hft
      have hspec : d.spec = ⟨true, d.data, d.obj.st, false⟩ := by simp [Df.spec, hft, hr0]
      rw [hspec] at hrun
      rcases dfRun_ft Oz Or data d.data d.obj.st r o hrun with ⟨s', rest, h1, h2⟩ | ⟨h1, s', rest, h2, h3⟩
      · have hfeed : zlibFeed Oz d.obj data = .ok (o, ⟨s', d.obj.unused ++ rest⟩) := by
          simp [zlibFeed, h1]
        rw [hfeed]
        simp only []
        by_cases ho : o.isEmpty = true
        · rw [if_pos ho] at h2
          simp only [ho, Bool.not_true, Bool.false_eq_true, if_false]
          refine ⟨_, rfl, ?_, ?_⟩
          · rw [h2]; simp [Df.spec, hr0]
          · intro _; exact hr0
        · rw [if_neg ho] at h2
          have ho' : o.isEmpty = false := by simpa using ho
          simp only [ho', Bool.not_false, if_true]
          refine ⟨_, rfl, ?_, ?_⟩
          · rw [h2]; simp [Df.spec, hr0]
          · intro h; simp at h
      · have hfeed : zlibFeed Oz d.obj data = .error .error := by
          simp [zlibFeed, h1]
        rw [hfeed]
        simp only []
        refine ⟨{ d with firstTry := false, data := [], obj := ⟨s', rest⟩, isRaw := true }, ?_, ?_, ?_⟩
        · simp [dfFeed, zlibFeed, ZObj.fresh, h2]
        · rw [h3]; simp [Df.spec]
        · intro h; simp at h

/-- "a `DeflateDecoder` in state `d` that is still to receive `raw` will still deliver `p`" -/
def DfG (d : Df ρ) (raw p : Bytes) : Prop :=
  (d.firstTry = true → d.isRaw = false) ∧ ∃ r, dfRun Oz Or d.spec raw = some (r, p)

/-- `deflate_fallback`: the wrapper obeys the streaming law, for any pair of `decompressobj`s -/
theorem dfDec_streamLaw : StreamLaw (dfDec Oz Or) (DfG Oz Or) := by
  constructor
  · intro d a b p ⟨hraw, r, hrun⟩
    obtain ⟨r1, o, p', h1, h2, h3⟩ := foldRun_append (dfStep Oz Or) a b d.spec r p hrun
    obtain ⟨d', e1, e2, e3⟩ := dfDecompress_run Oz Or d a r1 o hraw h1
    exact ⟨o, d', e1, p', h3, e3, r, by rw [e2]; exact h2⟩
  · intro d p ⟨hraw, r, hrun⟩
    simp only [dfRun, foldRun_nil, Option.some.injEq, Prod.mk.injEq] at hrun
    obtain ⟨_, rfl⟩ := hrun
    exact ⟨rfl, d, rfl, hraw, d.spec, foldRun_nil _ _⟩

end

/-- decidable form of `DfG` (used by the non-vacuity examples) -/
def dfOk {ρ : Type} (Oz Or : RawObj ρ) (d : Df ρ) (raw p : Bytes) : Bool :=
  (!d.firstTry || !d.isRaw) &&
  match dfRun Oz Or d.spec raw with
  | some (_, o) => o == p
  | none => false

theorem DfG_of_dfOk {ρ : Type} (Oz Or : RawObj ρ) (d : Df ρ) (raw p : Bytes)
    (h : dfOk Oz Or d raw p = true) : DfG Oz Or d raw p := by
  unfold dfOk at h
  simp only [Bool.and_eq_true] at h
  obtain ⟨h0, h1⟩ := h
  refine ⟨?_, ?_⟩
  · intro hft; rw [hft] at h0; simpa using h0
  · cases hr : dfRun Oz Or d.spec raw with
    | none => rw [hr] at h1; cases h1
    | some r =>
      obtain ⟨r', o⟩ := r
      rw [hr] at h1
      simp only [beq_iff_eq] at h1
      exact ⟨r', by rw [← h1]⟩

end U3.Resp
