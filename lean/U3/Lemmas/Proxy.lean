import U3.Model.Proxy
/-!
# Lemmas about `U3.Proxy` (C09)

The history theorems are proved with
* an invariant `Inv` tying every pooled connection to what the trace so far shows about its socket
  (TCP to the proxy, CONNECT to the pool's own host:port, TLS under that host's name, not yet
  closed by the server, distinct sockets);
* a per-event predicate `EvOK` ("this event is justified by the request being served and by the
  events before it") which holds for every event of every attempt (`Chunk`).
-/
namespace U3.Proxy
open U3

/-! ## pools -/

theorem poolGet_erase (ps : List (Key × Conn)) (k k' : Key) :
    poolGet (poolErase ps k) k' = if k = k' then none else poolGet ps k' := by
  induction ps with
  | nil => simp [poolErase, poolGet]
  | cons a t ih =>
    obtain ⟨k0, c0⟩ := a
    simp only [poolErase, poolGet]
    by_cases h0 : k0 = k
    · subst h0
      by_cases h1 : k0 = k'
      · subst h1; simp [ih]
      · simp [h1, ih]
    · simp only [h0, if_false, poolGet]
      by_cases h1 : k0 = k'
      · subst h1
        have : ¬ k = k0 := fun h => h0 h.symm
        simp [this]
      · simp [h1, ih]

theorem poolGet_set (ps : List (Key × Conn)) (k : Key) (c : Conn) (k' : Key) :
    poolGet (poolSet ps k c) k' = if k = k' then some c else poolGet ps k' := by
  simp only [poolSet, poolGet, poolGet_erase]
  by_cases h : k = k' <;> simp [h]

/-! ## the routing decision, as evaluated at the three places -/

/-- forwarding of HTTPS destinations was opted into (and the proxy is an HTTPS proxy) -/
def opted (cfg : Cfg) : Bool := cfg.proxyScheme == .https && cfg.fwd

/-- the request has to go through a CONNECT tunnel -/
def tunnelled (cfg : Cfg) (r : Req) : Bool := r.scheme == .https && !opted cfg

theorem mgr_tunnel (cfg : Cfg) (r : Req) :
    requiresTunnel (some cfg.proxyScheme) cfg.fwd (some r.scheme) = tunnelled cfg r := by
  cases hs : r.scheme <;> cases hp : cfg.proxyScheme <;> cases hf : cfg.fwd <;>
    simp [requiresTunnel, tunnelled, opted, hs, hp, hf]

/-- the pool sees the scheme only when it was handed the absolute URL -/
theorem pool_tunnel (cfg : Cfg) (r : Req) :
    requiresTunnel (some cfg.proxyScheme) cfg.fwd (if (!tunnelled cfg r) = true then some r.scheme else none)
      = tunnelled cfg r := by
  cases hs : r.scheme <;> cases hp : cfg.proxyScheme <;> cases hf : cfg.fwd <;>
    simp [requiresTunnel, tunnelled, opted, hs, hp, hf]

/-- what the pool chosen by `connection_from_host` looks like in the two regimes -/
theorem regime (cfg : Cfg) (r : Req) :
    (tunnelled cfg r = true →
        poolKey r = .dest r.nhost r.effPort ∧ opted cfg = false ∧ r.scheme = .https ∧
        poolOf cfg (poolKey r) = (true, r.nhost, r.effPort)) ∧
    (tunnelled cfg r = false →
        (poolKey r = .proxy ∨ opted cfg = true) ∧
        ((poolOf cfg (poolKey r)).1 = true → cfg.proxyScheme = .https) ∧
        ((poolOf cfg (poolKey r)).1 = false → cfg.proxyScheme = .http)) := by
  cases hs : r.scheme <;> cases hp : cfg.proxyScheme <;> cases hf : cfg.fwd <;>
    simp [tunnelled, opted, poolKey, poolOf, hs, hp, hf]

/-! ## chunks of the trace -/

/-- every event of `ev` satisfies `P` w.r.t. the events before it (`T` = the trace so far) -/
def Chunk (P : List Event → Event → Prop) (T ev : List Event) : Prop :=
  ∀ a e b, ev = a ++ e :: b → P (T ++ a) e

@[simp] theorem chunk_nil (P : List Event → Event → Prop) (T : List Event) : Chunk P T [] := by
  intro a e b h; simp at h

theorem chunk_cons_iff (P : List Event → Event → Prop) (T : List Event) (e : Event) (t : List Event) :
    Chunk P T (e :: t) ↔ P T e ∧ Chunk P (T ++ [e]) t := by
  constructor
  · intro h
    refine ⟨by simpa using h [] e t rfl, ?_⟩
    intro a x b hx
    have := h (e :: a) x b (by simp [hx])
    simpa using this
  · rintro ⟨h0, h1⟩ a x b hx
    cases a with
    | nil => simp at hx; obtain ⟨rfl, rfl⟩ := hx; simpa using h0
    | cons y a' =>
      simp at hx
      obtain ⟨rfl, rfl⟩ := hx
      have := h1 a' x b rfl
      simpa using this

theorem chunk_append (P : List Event → Event → Prop) (T ev1 ev2 : List Event)
    (h1 : Chunk P T ev1) (h2 : Chunk P (T ++ ev1) ev2) : Chunk P T (ev1 ++ ev2) := by
  induction ev1 generalizing T with
  | nil => simpa using h2
  | cons e t ih =>
    rw [List.cons_append, chunk_cons_iff]
    rw [chunk_cons_iff] at h1
    refine ⟨h1.1, ih _ h1.2 ?_⟩
    simpa using h2

theorem chunk_mono (P Q : List Event → Event → Prop) (T ev : List Event)
    (hpq : ∀ past e, P past e → Q past e) (h : Chunk P T ev) : Chunk Q T ev :=
  fun a e b hx => hpq _ _ (h a e b hx)

/-- a chunk from the empty trace speaks about every split of the trace -/
theorem chunk_all (P : List Event → Event → Prop) (ev : List Event) :
    Chunk P [] ev ↔ ∀ pre e post, ev = pre ++ e :: post → P pre e := by
  simp [Chunk]

/-! ## vocabulary of the statements -/

def isRequest : Event → Bool
  | .request .. => true
  | _ => false

/-- names of the header lines `HTTPConnection.request` generates by itself -/
def autoNames : List Str := [lit "Host", lit "Accept-Encoding", lit "Content-Length", lit "User-Agent"]

/-- the headers the caller asked for (`headers=` of the call, else the manager's) -/
def userHeaders (cfg : Cfg) (r : Req) : Dict := r.headers.getD cfg.mgrHeaders

/-- the socket opened last in a list of events -/
def lastTcp : List Event → Option Nat
  | [] => none
  | e :: t => match lastTcp t with
    | some s => some s
    | none => match e with
      | .tcp s _ _ => some s
      | _ => none

theorem lastTcp_append_some (a b : List Event) (s : Nat) (h : lastTcp b = some s) :
    lastTcp (a ++ b) = some s := by
  induction a with
  | nil => simpa using h
  | cons e t ih => simp [lastTcp, ih]

/-- what opening a socket with environment `sc` for request `r` ends in (`none`: connected) -/
def openErr (cfg : Cfg) (r : Req) (sc : Script) : Option Err :=
  if cfg.proxyScheme = .https ∧ sc.proxyCertOk = false then some .proxySSL
  else if tunnelled cfg r then
    match sc.status with
    | .refused _ => some .proxyOS
    | .garbage => some .protocol
    | .ok => if sc.originCertOk then none else some .ssl
  else none

/-! ## headers -/

theorem mem_dictSet (d : Dict) (k v : Str) (x : Str × Str) (h : x ∈ dictSet d k v) : x ∈ d ∨ x = (k, v) := by
  induction d with
  | nil => simp [dictSet] at h; exact Or.inr h
  | cons a t ih =>
    obtain ⟨k', v'⟩ := a
    simp only [dictSet] at h
    split at h
    · simp at h; rcases h with h | h
      · exact Or.inr h
      · exact Or.inl (by simp [h])
    · simp at h; rcases h with h | h
      · exact Or.inl (by simp [h])
      · rcases ih h with h | h
        · exact Or.inl (by simp [h])
        · exact Or.inr h

theorem mem_dictUpdate (src d : Dict) (x : Str × Str) (h : x ∈ dictUpdate d src) : x ∈ d ∨ x ∈ src := by
  induction src generalizing d with
  | nil => simp [dictUpdate] at h; exact Or.inl h
  | cons a t ih =>
    simp only [dictUpdate, List.foldl_cons] at h
    rcases ih _ h with h | h
    · rcases mem_dictSet _ _ _ _ h with h | h
      · exact Or.inl h
      · exact Or.inr (by simp [h])
    · exact Or.inr (by simp [h])

theorem mem_wireHeaders (cfg : Cfg) (m : Method) (body : Option Nat) (hostHdr : Str) (hs : Dict)
    (x : Str × Str) (h : x ∈ wireHeaders cfg m body hostHdr hs) : x.1 ∈ autoNames ∨ x ∈ hs := by
  simp only [wireHeaders, List.mem_append] at h
  rcases h with (((h | h) | h) | h) | h
  · split at h <;> simp at h; subst h; simp [autoNames]
  · split at h <;> simp at h; subst h; simp [autoNames]
  · split at h
    · simp at h
    · split at h <;> simp at h <;> (subst h; simp [autoNames])
  · split at h <;> simp at h; subst h; simp [autoNames]
  · exact Or.inr h

/-! ## the invariant -/

/-- what the trace so far (`T`) shows about the socket of a pooled connection -/
structure ConnOK (cfg : Cfg) (script : List Script) (T : List Event) (nsock : Nat) (k : Key) (c : Conn) : Prop where
  lt : c.sid < nsock
  tcp : Event.tcp c.sid cfg.proxyHost cfg.proxyPort ∈ T
  cert : cfg.proxyScheme = .https → (scriptAt script c.sid).proxyCertOk = true
  notClosed : c.alive = true → Event.serverClose c.sid ∉ T
  tun : ∀ h p, c.tunnel = some (h, p) →
    k = .dest h p ∧ opted cfg = false ∧ (∃ chs, Event.connect c.sid (hostPort h p) chs ∈ T) ∧
    Event.tlsOrigin c.sid (sniOf h) (cfg.proxyScheme == .https) ∈ T ∧
    (scriptAt script c.sid).status = .ok ∧ (scriptAt script c.sid).originCertOk = true
  notun : c.tunnel = none → k = .proxy ∨ opted cfg = true

structure Inv (cfg : Cfg) (script : List Script) (st : St) (T : List Event) : Prop where
  conn : ∀ k c, poolGet st.pools k = some c → ConnOK cfg script T st.nsock k c
  closes : ∀ s, Event.serverClose s ∈ T → s < st.nsock
  distinct : ∀ k k' c c', poolGet st.pools k = some c → poolGet st.pools k' = some c' → c.sid = c'.sid → k = k'

theorem inv_init (cfg : Cfg) (script : List Script) : Inv cfg script St.init [] := by
  refine ⟨?_, ?_, ?_⟩ <;> simp [St.init, poolGet]

theorem connOK_mono {cfg : Cfg} {script : List Script} {T : List Event} {n : Nat} {k : Key} {c : Conn}
    (h : ConnOK cfg script T n k c) (ev : List Event) (n' : Nat) (hn : n ≤ n')
    (hcl : c.alive = true → Event.serverClose c.sid ∉ ev) : ConnOK cfg script (T ++ ev) n' k c := by
  refine ⟨by have := h.lt; omega, by simp [h.tcp], h.cert, ?_, ?_, h.notun⟩
  · intro ha
    simp only [List.mem_append, not_or]
    exact ⟨h.notClosed ha, hcl ha⟩
  · intro hh p ht
    obtain ⟨h1, h2, ⟨chs, h3⟩, h4, h5, h6⟩ := h.tun hh p ht
    exact ⟨h1, h2, ⟨chs, by simp [h3]⟩, by simp [h4], h5, h6⟩

/-- putting a connection (back) into its pool -/
theorem inv_set {cfg : Cfg} {script : List Script} {st : St} {T : List Event} (hinv : Inv cfg script st T)
    (ev : List Event) (n' : Nat) (hn : st.nsock ≤ n') (key : Key) (c' : Conn)
    (hc : ConnOK cfg script (T ++ ev) n' key c')
    (hsid : (∃ c, poolGet st.pools key = some c ∧ c.sid = c'.sid) ∨ st.nsock ≤ c'.sid)
    (hcl : ∀ s, Event.serverClose s ∈ ev → s = c'.sid) :
    Inv cfg script ⟨n', poolSet st.pools key c'⟩ (T ++ ev) := by
  -- an old connection in another pool lives on another socket
  have hother : ∀ k c, k ≠ key → poolGet st.pools k = some c → c.sid ≠ c'.sid := by
    intro k c hk hg heq
    rcases hsid with ⟨c0, hg0, h0⟩ | hfresh
    · exact hk (hinv.distinct k key c c0 hg hg0 (by omega))
    · have := (hinv.conn k c hg).lt; omega
  refine ⟨?_, ?_, ?_⟩
  · intro k c hg
    simp only [poolGet_set] at hg
    by_cases hk : key = k
    · subst hk; simp at hg; subst hg; exact hc
    · simp [hk] at hg
      refine connOK_mono (hinv.conn k c hg) ev n' hn ?_
      intro _ hmem
      exact hother k c (fun h => hk h.symm) hg (hcl _ hmem)
  · intro s hs
    simp only [List.mem_append] at hs
    rcases hs with hs | hs
    · have := hinv.closes s hs; simp; omega
    · have := hcl s hs; subst this; exact hc.lt
  · intro k k' c c2 hg hg2 heq
    simp only [poolGet_set] at hg hg2
    by_cases hk : key = k <;> by_cases hk' : key = k'
    · rw [← hk, ← hk']
    · simp [hk] at hg; simp [hk'] at hg2; subst hg
      exact absurd heq.symm (hother k' c2 (fun h => hk' h.symm) hg2)
    · simp [hk] at hg; simp [hk'] at hg2; subst hg2
      exact absurd heq (hother k c (fun h => hk h.symm) hg)
    · simp [hk] at hg; simp [hk'] at hg2
      exact hinv.distinct k k' c c2 hg hg2 heq

/-- a failed attempt: the pool slot is emptied -/
theorem inv_erase {cfg : Cfg} {script : List Script} {st : St} {T : List Event} (hinv : Inv cfg script st T)
    (ev : List Event) (n' : Nat) (hn : st.nsock ≤ n') (key : Key)
    (hcl : ∀ s, Event.serverClose s ∉ ev) :
    Inv cfg script ⟨n', poolErase st.pools key⟩ (T ++ ev) := by
  refine ⟨?_, ?_, ?_⟩
  · intro k c hg
    simp only [poolGet_erase] at hg
    by_cases hk : key = k
    · simp [hk] at hg
    · simp [hk] at hg
      exact connOK_mono (hinv.conn k c hg) ev n' hn (fun _ => hcl _)
  · intro s hs
    simp only [List.mem_append] at hs
    rcases hs with hs | hs
    · have := hinv.closes s hs; simp; omega
    · exact absurd hs (hcl s)
  · intro k k' c c2 hg hg2 heq
    simp only [poolGet_erase] at hg hg2
    by_cases hk : key = k <;> by_cases hk' : key = k'
    · rw [← hk, ← hk']
    · simp [hk] at hg
    · simp [hk'] at hg2
    · simp [hk] at hg; simp [hk'] at hg2
      exact hinv.distinct k k' c c2 hg hg2 heq

/-! ## every event is justified -/

/-- "event `e`, seen while request `r` is being served, is justified by the routing rules and by
the events before it" (`uh`: the headers the caller asked for) -/
def EvOK (cfg : Cfg) (script : List Script) (r : Req) (uh : Dict) (past : List Event) : Event → Prop
  | .tcp _ h p => h = cfg.proxyHost ∧ p = cfg.proxyPort
  | .tlsProxy _ sni => sni = sniOf cfg.proxyHost ∧ cfg.proxyScheme = .https
  | .connect sid tgt hs =>
      tunnelled cfg r = true ∧ tgt = hostPort r.nhost r.effPort ∧ hs = connectHeaders cfg r.nhost r.effPort ∧
      (cfg.proxyScheme = .https → (scriptAt script sid).proxyCertOk = true)
  | .tlsOrigin sid sni i =>
      tunnelled cfg r = true ∧ sni = sniOf r.nhost ∧ i = (cfg.proxyScheme == .https) ∧
      (scriptAt script sid).status = .ok ∧ ∃ chs, Event.connect sid (hostPort r.nhost r.effPort) chs ∈ past
  | .request sid tun m tgt hs =>
      Event.serverClose sid ∉ past ∧ Event.tcp sid cfg.proxyHost cfg.proxyPort ∈ past ∧
      (cfg.proxyScheme = .https → (scriptAt script sid).proxyCertOk = true) ∧
      m = methodStr r.method ∧ tun = tunnelled cfg r ∧
      (tun = true → tgt = r.path ∧ (∃ chs, Event.connect sid (hostPort r.nhost r.effPort) chs ∈ past) ∧
          Event.tlsOrigin sid (sniOf r.nhost) (cfg.proxyScheme == .https) ∈ past ∧
          (scriptAt script sid).status = .ok ∧ (scriptAt script sid).originCertOk = true ∧
          ∀ h ∈ hs, h.1 ∈ autoNames ∨ h ∈ uh) ∧
      (tun = false → tgt = r.absUrl)
  | .serverClose _ => True

/-- the target / absolute flag / merged headers the pool works with -/
def poolTarget (cfg : Cfg) (r : Req) : Str := if (!tunnelled cfg r) = true then r.absUrl else r.path
def poolHeaders (cfg : Cfg) (r : Req) (hdrs : Dict) : Dict :=
  if (!tunnelled cfg r) = true then dictUpdate hdrs cfg.proxyHeaders else hdrs

theorem request_spec {cfg : Cfg} {script : List Script} {T : List Event} {n : Nat} (r : Req) (c : Conn)
    (hdrs uh : Dict) (hh : tunnelled cfg r = true → hdrs = uh)
    (hc : ConnOK cfg script T n (poolKey r) c) (ha : c.alive = true) :
    EvOK cfg script r uh T (requestEvent cfg c (poolOf cfg (poolKey r)).1 r (poolTarget cfg r)
      (!tunnelled cfg r) (poolHeaders cfg r hdrs)) := by
  obtain ⟨hT, hF⟩ := regime cfg r
  cases htq : tunnelled cfg r
  · -- forwarded
    obtain ⟨hk, _, _⟩ := hF htq
    have hnt : c.tunnel = none := by
      cases hct : c.tunnel with
      | none => rfl
      | some hp =>
        obtain ⟨h1, h2, _⟩ := hc.tun hp.1 hp.2 (by simp [hct])
        rcases hk with hk | hk
        · rw [hk] at h1; cases h1
        · rw [hk] at h2; cases h2
    simp [requestEvent, EvOK, hnt, htq, poolTarget, hc.notClosed ha, hc.tcp]
    exact hc.cert
  · -- tunnelled
    obtain ⟨hk, hno, _, _⟩ := hT htq
    cases hct : c.tunnel with
    | none =>
      rcases hc.notun hct with h | h
      · rw [hk] at h; cases h
      · rw [hno] at h; cases h
    | some hp =>
      obtain ⟨th, tp⟩ := hp
      obtain ⟨h1, _, h3, h4, h5, h6⟩ := hc.tun th tp hct
      rw [hk] at h1
      injection h1 with e1 e2
      subst e1; subst e2
      simp only [requestEvent, EvOK, hct, htq, poolTarget, poolHeaders]
      refine ⟨hc.notClosed ha, hc.tcp, hc.cert, trivial, by simp, ?_, by simp⟩
      intro _
      refine ⟨by simp, h3, h4, h5, h6, ?_⟩
      intro x hx
      have := mem_wireHeaders _ _ _ _ _ _ hx
      rw [hh htq] at this
      simpa using this

theorem connOK_iff (cfg : Cfg) (script : List Script) (T : List Event) (nsock : Nat) (k : Key) (c : Conn) :
    ConnOK cfg script T nsock k c ↔
      (c.sid < nsock ∧ Event.tcp c.sid cfg.proxyHost cfg.proxyPort ∈ T ∧
       (cfg.proxyScheme = .https → (scriptAt script c.sid).proxyCertOk = true) ∧
       (c.alive = true → Event.serverClose c.sid ∉ T) ∧
       (∀ h p, c.tunnel = some (h, p) →
          k = .dest h p ∧ opted cfg = false ∧ (∃ chs, Event.connect c.sid (hostPort h p) chs ∈ T) ∧
          Event.tlsOrigin c.sid (sniOf h) (cfg.proxyScheme == .https) ∈ T ∧
          (scriptAt script c.sid).status = .ok ∧ (scriptAt script c.sid).originCertOk = true) ∧
       (c.tunnel = none → k = .proxy ∨ opted cfg = true)) :=
  ⟨fun h => ⟨h.lt, h.tcp, h.cert, h.notClosed, h.tun, h.notun⟩,
   fun ⟨a, b, c, d, e, f⟩ => ⟨a, b, c, d, e, f⟩⟩

theorem openConn_spec (cfg : Cfg) (script : List Script) (r : Req) (uh : Dict) (sid : Nat) :
    (∀ s, Event.serverClose s ∉ (openConn cfg (scriptAt script sid) sid (poolKey r) (tunnelled cfg r)).1) ∧
    (∀ x ∈ (openConn cfg (scriptAt script sid) sid (poolKey r) (tunnelled cfg r)).1, isRequest x = false) ∧
    lastTcp (openConn cfg (scriptAt script sid) sid (poolKey r) (tunnelled cfg r)).1 = some sid ∧
    (∀ T, Chunk (EvOK cfg script r uh) T (openConn cfg (scriptAt script sid) sid (poolKey r) (tunnelled cfg r)).1) ∧
    (match (openConn cfg (scriptAt script sid) sid (poolKey r) (tunnelled cfg r)).2 with
     | .error e => openErr cfg r (scriptAt script sid) = some e
     | .ok c => c.sid = sid ∧ c.alive = true ∧ openErr cfg r (scriptAt script sid) = none ∧
         ∀ T, Event.serverClose sid ∉ T →
           ConnOK cfg script (T ++ (openConn cfg (scriptAt script sid) sid (poolKey r) (tunnelled cfg r)).1)
             (sid + 1) (poolKey r) c) := by
  obtain ⟨hT, hF⟩ := regime cfg r
  cases htq : tunnelled cfg r
  · obtain ⟨hk, hps, hps'⟩ := hF htq
    rcases hpo : poolOf cfg (poolKey r) with ⟨ph, th, tp⟩
    rw [hpo] at hps hps'
    cases ph
    · have hps' := hps' rfl
      simp [openConn, hpo, isRequest, lastTcp, chunk_cons_iff, EvOK, openErr, htq, connOK_iff, hps']
      exact fun T hT => ⟨hT, hk⟩
    · have hps := hps rfl
      cases hpc : (scriptAt script sid).proxyCertOk <;>
        simp [openConn, hpo, isRequest, lastTcp, chunk_cons_iff, EvOK, openErr, htq, connOK_iff, hps, hpc]
      exact fun T hT => ⟨hT, hk⟩
  · obtain ⟨hk, hno, hsch, hpo⟩ := hT htq
    cases hps : cfg.proxyScheme <;> cases hpc : (scriptAt script sid).proxyCertOk <;>
      cases hst : (scriptAt script sid).status <;> cases hoc : (scriptAt script sid).originCertOk <;>
      simp [openConn, poolOf, isRequest, lastTcp, chunk_cons_iff, EvOK, openErr, htq, connOK_iff, hps, hpc, hst, hoc, hk, hno]

/-! ## one attempt -/

theorem liveConn_some {ps : List (Key × Conn)} {k : Key} {c : Conn} (h : liveConn ps k = some c) :
    poolGet ps k = some c ∧ c.alive = true := by
  unfold liveConn at h
  split at h
  · split at h
    · simp at h; subst h; simp [*]
    · simp at h
  · simp at h

theorem connOK_finish {cfg : Cfg} {script : List Script} {T : List Event} {n : Nat} {k : Key} {c : Conn}
    (h : ConnOK cfg script T n k c) (ha : c.alive = true) (e : Event) (he : isRequest e = true) (cl : Bool) :
    ConnOK cfg script (T ++ ([e] ++ (if cl then [Event.serverClose c.sid] else []))) n k
      { c with alive := !cl } := by
  rw [connOK_iff]
  refine ⟨h.lt, by simp [h.tcp], h.cert, ?_, ?_, h.notun⟩
  · intro hcl
    have : cl = false := by simpa using hcl
    subst this
    have h1 := h.notClosed ha
    cases e <;> simp_all [isRequest]
  · intro hh p ht
    obtain ⟨h1, h2, ⟨chs, h3⟩, h4, h5, h6⟩ := h.tun hh p ht
    exact ⟨h1, h2, ⟨chs, by simp [h3]⟩, by simp [h4], h5, h6⟩

theorem chunk_fin (cfg : Cfg) (script : List Script) (r : Req) (uh : Dict) (T : List Event) (cl : Bool) (s : Nat) :
    Chunk (EvOK cfg script r uh) T (if cl then [Event.serverClose s] else []) := by
  cases cl <;> simp [chunk_cons_iff, EvOK]

/-- the attempt `managerRequest` makes (directly or in the retry recursion) -/
def att (cfg : Cfg) (script : List Script) (st : St) (r : Req) (hdrs : Dict) : AttemptOut :=
  attempt cfg script st r (poolKey r) (poolTarget cfg r) (!tunnelled cfg r) hdrs

theorem isRequest_requestEvent (cfg : Cfg) (c : Conn) (ph : Bool) (r : Req) (t : Str) (a : Bool) (hs : Dict) :
    isRequest (requestEvent cfg c ph r t a hs) = true := by
  simp [requestEvent, isRequest]

theorem attempt_spec {cfg : Cfg} {script : List Script} {st : St} {T : List Event}
    (hinv : Inv cfg script st T) (r : Req) (hdrs uh : Dict) (hh : tunnelled cfg r = true → hdrs = uh) :
    Inv cfg script (att cfg script st r hdrs).st (T ++ (att cfg script st r hdrs).events) ∧
    Chunk (EvOK cfg script r uh) T (att cfg script st r hdrs).events ∧
    (att cfg script st r hdrs).headers = poolHeaders cfg r hdrs ∧
    st.nsock ≤ (att cfg script st r hdrs).st.nsock ∧
    (match (att cfg script st r hdrs).result with
     | .ok _ => ∃ e ∈ (att cfg script st r hdrs).events, isRequest e = true
     | .error e => (∀ x ∈ (att cfg script st r hdrs).events, isRequest x = false) ∧
         lastTcp (att cfg script st r hdrs).events = some st.nsock ∧
         openErr cfg r (scriptAt script st.nsock) = some e) := by
  have hos := openConn_spec cfg script r uh st.nsock
  cases hl : liveConn st.pools (poolKey r) with
  | some c =>
    obtain ⟨hg, ha⟩ := liveConn_some hl
    have hc := hinv.conn _ _ hg
    simp only [att, attempt, hl, pool_tunnel]
    refine ⟨?_, ?_, by simp [poolHeaders], Nat.le_refl _, ?_⟩
    · refine inv_set hinv _ _ (Nat.le_refl _) _ _ (connOK_finish hc ha _ (isRequest_requestEvent ..) r.closeAfter)
        (Or.inl ⟨c, hg, rfl⟩) ?_
      intro s hs
      cases hca : r.closeAfter <;> simp [hca, requestEvent] at hs
      exact hs
    · rw [List.singleton_append, chunk_cons_iff]
      exact ⟨request_spec r c hdrs uh hh hc ha, chunk_fin _ _ _ _ _ _ _⟩
    · refine ⟨_, ?_, isRequest_requestEvent cfg c (poolOf cfg (poolKey r)).1 r (poolTarget cfg r)
        (!tunnelled cfg r) (poolHeaders cfg r hdrs)⟩
      simp [poolHeaders]
  | none =>
    simp only [att, attempt, hl, pool_tunnel]
    rcases ho : openConn cfg (scriptAt script st.nsock) st.nsock (poolKey r) (tunnelled cfg r) with ⟨ev, res⟩
    simp only [ho] at hos
    obtain ⟨hncl, hnreq, hlast, hchunk, hres⟩ := hos
    cases res with
    | error e =>
      simp only at hres ⊢
      exact ⟨inv_erase hinv ev _ (Nat.le_succ _) _ hncl, hchunk T, by simp [poolHeaders], Nat.le_succ _,
        hnreq, hlast, hres⟩
    | ok c =>
      simp only at hres ⊢
      obtain ⟨hsid, ha, _, hcok⟩ := hres
      have hnc : Event.serverClose st.nsock ∉ T := fun h => Nat.lt_irrefl _ (hinv.closes _ h)
      have hc := hcok T hnc
      refine ⟨?_, ?_, by simp [poolHeaders], Nat.le_succ _, ?_⟩
      · rw [List.append_assoc]
        have := connOK_finish hc ha _ (isRequest_requestEvent cfg c (poolOf cfg (poolKey r)).1 r
          (poolTarget cfg r) (!tunnelled cfg r) (poolHeaders cfg r hdrs)) r.closeAfter
        rw [List.append_assoc] at this
        refine inv_set hinv _ _ (Nat.le_succ _) _ _ this (Or.inr (by simp [hsid])) ?_
        intro s hs
        simp only [List.mem_append] at hs
        rcases hs with hs | hs | hs
        · exact absurd hs (hncl s)
        · simp [requestEvent] at hs
        · cases hca : r.closeAfter <;> simp [hca] at hs
          exact hs
      · rw [List.append_assoc]
        refine chunk_append _ _ _ _ (hchunk T) ?_
        rw [List.singleton_append, chunk_cons_iff]
        exact ⟨request_spec r c hdrs uh hh hc ha, chunk_fin _ _ _ _ _ _ _⟩
      · refine ⟨_, ?_, isRequest_requestEvent cfg c (poolOf cfg (poolKey r)).1 r (poolTarget cfg r)
          (!tunnelled cfg r) (poolHeaders cfg r hdrs)⟩
        simp [poolHeaders]

theorem lastTcp_append_none (a b : List Event) (h : lastTcp b = none) : lastTcp (a ++ b) = lastTcp a := by
  induction a with
  | nil => simpa [lastTcp] using h
  | cons e t ih => simp [lastTcp, ih]

/-- which socket an attempt opened last, and what a failed attempt leaves in the pool -/
theorem attempt_last (cfg : Cfg) (script : List Script) (st : St) (r : Req) (hdrs : Dict) :
    (liveConn st.pools (poolKey r) = none → lastTcp (att cfg script st r hdrs).events = some st.nsock) ∧
    (match (att cfg script st r hdrs).result with
     | .ok _ => ∀ sid, lastTcp (att cfg script st r hdrs).events = some sid →
         openErr cfg r (scriptAt script sid) = none
     | .error _ => liveConn (att cfg script st r hdrs).st.pools (poolKey r) = none) := by
  have hos := openConn_spec cfg script r [] st.nsock
  cases hl : liveConn st.pools (poolKey r) with
  | some c =>
    simp only [att, attempt, hl, pool_tunnel]
    refine ⟨by simp, ?_⟩
    intro sid h
    cases hca : r.closeAfter <;> simp [hca, lastTcp, requestEvent] at h
  | none =>
    simp only [att, attempt, hl, pool_tunnel]
    rcases ho : openConn cfg (scriptAt script st.nsock) st.nsock (poolKey r) (tunnelled cfg r) with ⟨ev, res⟩
    simp only [ho] at hos
    obtain ⟨_, _, hlast, _, hres⟩ := hos
    cases res with
    | error e =>
      simp only
      exact ⟨fun _ => hlast, by simp [liveConn, poolGet_erase]⟩
    | ok c =>
      simp only at hres ⊢
      have hl2 : lastTcp (ev ++ [requestEvent cfg c (poolOf cfg (poolKey r)).1 r (poolTarget cfg r)
          (!tunnelled cfg r) (if (!tunnelled cfg r) = true then dictUpdate hdrs cfg.proxyHeaders else hdrs)] ++
          if r.closeAfter = true then [Event.serverClose c.sid] else []) = some st.nsock := by
        rw [List.append_assoc, lastTcp_append_none _ _ ?_]
        · exact hlast
        · cases hca : r.closeAfter <;> simp [lastTcp, requestEvent]
      refine ⟨fun _ => hl2, ?_⟩
      intro sid h
      rw [hl2] at h
      injection h with h
      subst h
      exact hres.2.2.1

/-! ## one request, a history -/

/-- outcome of a request w.r.t. its events: a response comes with a request on the wire (and the
socket opened last, if any, was connected all the way); an error means that no request was sent
and is the error of the socket opened last -/
def OutOK (cfg : Cfg) (script : List Script) (r : Req) (ev : List Event) (o : Outcome) : Prop :=
  (o = .response ∧ (∃ e ∈ ev, isRequest e = true) ∧
    ∀ sid, lastTcp ev = some sid → openErr cfg r (scriptAt script sid) = none) ∨
  (∃ e sid, (o = .raised e ∨ o = .maxRetry e) ∧ (∀ x ∈ ev, isRequest x = false) ∧
    lastTcp ev = some sid ∧ openErr cfg r (scriptAt script sid) = some e)

theorem poolHeaders_tunnelled (cfg : Cfg) (r : Req) (hdrs uh : Dict) (hh : tunnelled cfg r = true → hdrs = uh) :
    tunnelled cfg r = true → poolHeaders cfg r hdrs = uh := by
  intro h; simp [poolHeaders, h, hh h]

theorem runAttempts_spec (cfg : Cfg) (script : List Script) (r : Req) (uh : Dict) (n : Nat) :
    ∀ (st : St) (T : List Event) (hdrs : Dict), Inv cfg script st T → (tunnelled cfg r = true → hdrs = uh) →
    Inv cfg script (runAttempts cfg script r (poolKey r) (poolTarget cfg r) (!tunnelled cfg r) n st hdrs).2.2
      (T ++ (runAttempts cfg script r (poolKey r) (poolTarget cfg r) (!tunnelled cfg r) n st hdrs).1) ∧
    Chunk (EvOK cfg script r uh) T (runAttempts cfg script r (poolKey r) (poolTarget cfg r) (!tunnelled cfg r) n st hdrs).1 ∧
    OutOK cfg script r (runAttempts cfg script r (poolKey r) (poolTarget cfg r) (!tunnelled cfg r) n st hdrs).1
      (runAttempts cfg script r (poolKey r) (poolTarget cfg r) (!tunnelled cfg r) n st hdrs).2.1 ∧
    (liveConn st.pools (poolKey r) = none → ∃ sid,
      lastTcp (runAttempts cfg script r (poolKey r) (poolTarget cfg r) (!tunnelled cfg r) n st hdrs).1 = some sid) := by
  induction n with
  | zero =>
    intro st T hdrs hinv hh
    obtain ⟨h1, h2, h3, h4, h5⟩ := attempt_spec hinv r hdrs uh hh
    obtain ⟨l1, l2⟩ := attempt_last cfg script st r hdrs
    simp only [att] at h1 h2 h3 h4 h5 l1 l2
    cases hres : (attempt cfg script st r (poolKey r) (poolTarget cfg r) (!tunnelled cfg r) hdrs).result with
    | ok u =>
      rw [hres] at h5 l2
      unfold runAttempts
      simp only [hres]
      exact ⟨h1, h2, Or.inl ⟨rfl, h5, l2⟩, fun h => ⟨_, l1 h⟩⟩
    | error e =>
      rw [hres] at h5
      unfold runAttempts
      simp only [hres]
      split
      · exact ⟨h1, h2, Or.inr ⟨e, _, Or.inl rfl, h5.1, h5.2.1, h5.2.2⟩, fun _ => ⟨_, h5.2.1⟩⟩
      · exact ⟨h1, h2, Or.inr ⟨e, _, Or.inr rfl, h5.1, h5.2.1, h5.2.2⟩, fun _ => ⟨_, h5.2.1⟩⟩
  | succ n ih =>
    intro st T hdrs hinv hh
    obtain ⟨h1, h2, h3, h4, h5⟩ := attempt_spec hinv r hdrs uh hh
    obtain ⟨l1, l2⟩ := attempt_last cfg script st r hdrs
    simp only [att] at h1 h2 h3 h4 h5 l1 l2
    cases hres : (attempt cfg script st r (poolKey r) (poolTarget cfg r) (!tunnelled cfg r) hdrs).result with
    | ok u =>
      rw [hres] at h5 l2
      unfold runAttempts
      simp only [hres]
      exact ⟨h1, h2, Or.inl ⟨rfl, h5, l2⟩, fun h => ⟨_, l1 h⟩⟩
    | error e =>
      rw [hres] at h5 l2
      unfold runAttempts
      simp only [hres]
      split
      · exact ⟨h1, h2, Or.inr ⟨e, _, Or.inl rfl, h5.1, h5.2.1, h5.2.2⟩, fun _ => ⟨_, h5.2.1⟩⟩
      · rw [h3]
        obtain ⟨i1, i2, i3, i4⟩ := ih _ _ (poolHeaders cfg r hdrs) h1 (poolHeaders_tunnelled cfg r hdrs uh hh)
        obtain ⟨sid', hl'⟩ := i4 l2
        have hcomb := lastTcp_append_some
          (attempt cfg script st r (poolKey r) (poolTarget cfg r) (!tunnelled cfg r) hdrs).events _ _ hl'
        refine ⟨by simpa [List.append_assoc] using i1, chunk_append _ _ _ _ h2 i2, ?_, fun _ => ⟨sid', hcomb⟩⟩
        rcases i3 with ⟨ho, ⟨e', he', hr⟩, hlt⟩ | ⟨e', sid, ho, hnr, hl, hoe⟩
        · refine Or.inl ⟨ho, ⟨e', by simp [he'], hr⟩, ?_⟩
          intro sid hs
          rw [hcomb] at hs
          injection hs with hs
          subst hs
          exact hlt _ hl'
        · refine Or.inr ⟨e', sid, ho, ?_, lastTcp_append_some _ _ _ hl, hoe⟩
          intro x hx
          simp only [List.mem_append] at hx
          rcases hx with hx | hx
          · exact h5.1 x hx
          · exact hnr x hx

theorem runOnce_spec (cfg : Cfg) (script : List Script) (r : Req) (uh : Dict)
    (st : St) (T : List Event) (hdrs : Dict) (hinv : Inv cfg script st T) (hh : tunnelled cfg r = true → hdrs = uh) :
    Inv cfg script (runOnce cfg script r (poolKey r) (poolTarget cfg r) (!tunnelled cfg r) st hdrs).2.2
      (T ++ (runOnce cfg script r (poolKey r) (poolTarget cfg r) (!tunnelled cfg r) st hdrs).1) ∧
    Chunk (EvOK cfg script r uh) T (runOnce cfg script r (poolKey r) (poolTarget cfg r) (!tunnelled cfg r) st hdrs).1 ∧
    OutOK cfg script r (runOnce cfg script r (poolKey r) (poolTarget cfg r) (!tunnelled cfg r) st hdrs).1
      (runOnce cfg script r (poolKey r) (poolTarget cfg r) (!tunnelled cfg r) st hdrs).2.1 := by
  obtain ⟨h1, h2, h3, h4, h5⟩ := attempt_spec hinv r hdrs uh hh
  obtain ⟨l1, l2⟩ := attempt_last cfg script st r hdrs
  simp only [att] at h1 h2 h3 h4 h5 l1 l2
  cases hres : (attempt cfg script st r (poolKey r) (poolTarget cfg r) (!tunnelled cfg r) hdrs).result with
  | ok u =>
    rw [hres] at h5 l2
    unfold runOnce
    simp only [hres]
    exact ⟨h1, h2, Or.inl ⟨rfl, h5, l2⟩⟩
  | error e =>
    rw [hres] at h5
    unfold runOnce
    simp only [hres]
    exact ⟨h1, h2, Or.inr ⟨e, _, Or.inl rfl, h5.1, h5.2.1, h5.2.2⟩⟩

theorem managerRequest_spec {cfg : Cfg} {script : List Script} {st : St} {T : List Event}
    (hinv : Inv cfg script st T) (r : Req) :
    Inv cfg script (managerRequest cfg script st r).2.2 (T ++ (managerRequest cfg script st r).1) ∧
    Chunk (EvOK cfg script r (userHeaders cfg r)) T (managerRequest cfg script st r).1 ∧
    OutOK cfg script r (managerRequest cfg script st r).1 (managerRequest cfg script st r).2.1 := by
  have hh : tunnelled cfg r = true →
      (if (!tunnelled cfg r) = true then setProxyHeaders r (r.headers.getD cfg.mgrHeaders)
        else r.headers.getD cfg.mgrHeaders) = userHeaders cfg r := by
    intro h; simp [h, userHeaders]
  unfold managerRequest
  simp only [mgr_tunnel]
  cases hr : r.retries with
  | none => exact runOnce_spec cfg script r _ st T _ hinv hh
  | some n =>
    obtain ⟨a, b, c, _⟩ := runAttempts_spec cfg script r _ n st T _ hinv hh
    exact ⟨a, b, c⟩

/-- every event of a history is justified by one of its requests -/
def EvOKAny (cfg : Cfg) (script : List Script) (reqs : List Req) (past : List Event) (e : Event) : Prop :=
  ∃ r ∈ reqs, EvOK cfg script r (userHeaders cfg r) past e

theorem history_spec (cfg : Cfg) (script : List Script) (reqs : List Req) :
    ∀ (st : St) (T : List Event), Inv cfg script st T →
    Inv cfg script (finalState cfg script st reqs)
      (T ++ ((runHistory cfg script st reqs).map (·.1)).flatten) ∧
    Chunk (EvOKAny cfg script reqs) T ((runHistory cfg script st reqs).map (·.1)).flatten := by
  induction reqs with
  | nil => intro st T hinv; simpa [runHistory, finalState] using hinv
  | cons r rs ih =>
    intro st T hinv
    obtain ⟨h1, h2, _⟩ := managerRequest_spec hinv r
    obtain ⟨i1, i2⟩ := ih _ _ h1
    simp only [runHistory, finalState, List.map_cons, List.flatten_cons]
    refine ⟨by simpa [List.append_assoc] using i1, chunk_append _ _ _ _ ?_ ?_⟩
    · exact chunk_mono _ _ _ _ (fun past e h => ⟨r, by simp, h⟩) h2
    · exact chunk_mono _ _ _ _ (fun past e ⟨r', hr', h⟩ => ⟨r', by simp [hr'], h⟩) i2

/-- the state reached by a history and its trace satisfy the invariant, and every event of the
trace is justified -/
theorem trace_spec (cfg : Cfg) (script : List Script) (reqs : List Req) :
    Inv cfg script (finalState cfg script St.init reqs) (trace cfg script reqs) ∧
    ∀ pre e post, trace cfg script reqs = pre ++ e :: post → EvOKAny cfg script reqs pre e := by
  obtain ⟨h1, h2⟩ := history_spec cfg script reqs St.init [] (inv_init cfg script)
  refine ⟨by simpa [trace] using h1, ?_⟩
  rw [chunk_all] at h2
  simpa [trace] using h2

/-- used by the non-vacuity examples: an event found by a boolean scan gives a split of the trace -/
theorem exists_split_of_any (l : List Event) (p : Event → Bool) (h : l.any p = true) :
    ∃ pre e post, l = pre ++ e :: post ∧ p e = true := by
  rw [List.any_eq_true] at h
  obtain ⟨e, hm, hp⟩ := h
  obtain ⟨pre, post, hl⟩ := List.append_of_mem hm
  exact ⟨pre, e, post, hl, hp⟩

end U3.Proxy
