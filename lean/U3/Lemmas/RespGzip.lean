import U3.Lemmas.Resp
/-! `gzip_multimember`: the `GzipDecoder` wrapper (member state machine: first member, further
members, trailing garbage swallowed) obeys the streaming law for EVERY byte-step `decompressobj`.

The wrapper is characterised by a byte fold `gzRun` — restart with a fresh `decompressobj` in state
`OTHER_MEMBERS` when a byte arrives at `eof`; a `zlib.error` in state `OTHER_MEMBERS` switches to
`SWALLOW_DATA` — which is compositional by construction.  `gzDecompress` (the `while True` loop
around `self._obj.decompress(data)` with its fuel) computes it on every input on which the fold is
defined.  The fold is *undefined* (`none`) exactly where the real decoder is not compositional or
fails: an error in the first member (`DecodeError`), an `unsupported` block, and trailing garbage
that *produces output before it fails* (the output of the failing `decompress` call is lost, so the
result depends on where the feed boundaries fall; the `dirty` flag tracks "output since the start of
the run / of the member"). -/
namespace U3.Resp
open U3

section
variable {ρ : Type} (O : RawObj ρ)

/-- byte-wise semantics of `GzipDecoder`: core state, member state, "the current member has
produced output since the run began", output -/
def gzRun : ρ → GzState → Bool → Bytes → Option (ρ × GzState × Bool × Bytes)
  | s, gs, dirty, [] => some (s, gs, dirty, [])
  | s, gs, dirty, b :: t =>
    if gs = .swallowData then some (s, gs, dirty, [])
    else
      let s0 := if O.eof s then O.init else s
      let gs0 := if O.eof s then GzState.otherMembers else gs
      let d0 := if O.eof s then false else dirty
      if O.eof s0 then none
      else match O.step s0 b with
        | .error .unsupported => none
        | .error .error =>
          if gs0 = .otherMembers ∧ d0 = false then some (s0, .swallowData, d0, []) else none
        | .ok (s1, o) =>
          match gzRun s1 gs0 (d0 || !o.isEmpty) t with
          | none => none
          | some (s2, gs2, d2, o2) => some (s2, gs2, d2, o ++ o2)

theorem gzRun_nil (s : ρ) (gs : GzState) (d : Bool) : gzRun O s gs d [] = some (s, gs, d, []) := by
  rw [gzRun]

theorem gzRun_swallow (s : ρ) (d : Bool) (x : Bytes) :
    gzRun O s .swallowData d x = some (s, .swallowData, d, []) := by
  cases x with
  | nil => rw [gzRun]
  | cons b t => rw [gzRun]; simp

/-- one byte from a state that is not at `eof` and not swallowing -/
theorem gzRun_cons_live (s : ρ) (gs : GzState) (d : Bool) (b : Nat) (t : Bytes)
    (hgs : gs ≠ .swallowData) (he : O.eof s = false) :
    gzRun O s gs d (b :: t) =
      match O.step s b with
      | .error .unsupported => none
      | .error .error => if gs = .otherMembers ∧ d = false then some (s, .swallowData, d, []) else none
      | .ok (s1, o) =>
        match gzRun O s1 gs (d || !o.isEmpty) t with
        | none => none
        | some (s2, gs2, d2, o2) => some (s2, gs2, d2, o ++ o2) := by
  rw [gzRun]
  simp only [hgs, he, if_false, Bool.false_eq_true]

/-- a byte arriving at `eof`: fresh `decompressobj`, state `OTHER_MEMBERS` -/
theorem gzRun_restart (s : ρ) (gs : GzState) (d : Bool) (b : Nat) (t : Bytes)
    (hgs : gs ≠ .swallowData) (he : O.eof s = true) :
    gzRun O s gs d (b :: t) = gzRun O O.init .otherMembers false (b :: t) := by
  rw [gzRun, gzRun]
  simp only [hgs, he, if_true, if_false]
  by_cases hi : O.eof O.init = true
  · simp [hi]
  · simp [hi]

/-- a run that starts by restarting succeeded, so a fresh `decompressobj` is not at `eof` -/
theorem gzRun_init_noteof (gs : GzState) (d : Bool) (b : Nat) (t : Bytes) (hgs : gs ≠ .swallowData)
    (r : ρ × GzState × Bool × Bytes) (h : gzRun O O.init gs d (b :: t) = some r) :
    O.eof O.init = false := by
  cases hi : O.eof O.init with
  | false => rfl
  | true => rw [gzRun] at h; simp [hi, hgs] at h

theorem gzRun_append (a b : Bytes) : ∀ (s : ρ) (gs : GzState) (d : Bool) (s2 : ρ) (gs2 : GzState) (d2 : Bool) (p : Bytes),
    gzRun O s gs d (a ++ b) = some (s2, gs2, d2, p) →
    ∃ s1 gs1 d1 o p', gzRun O s gs d a = some (s1, gs1, d1, o) ∧
      gzRun O s1 gs1 d1 b = some (s2, gs2, d2, p') ∧ p = o ++ p' := by
  induction a with
  | nil => intro s gs d s2 gs2 d2 p h; exact ⟨s, gs, d, [], p, gzRun_nil O s gs d, by simpa using h, rfl⟩
  | cons x t ih =>
    intro s gs d s2 gs2 d2 p h
    by_cases hgs : gs = .swallowData
    · subst hgs
      rw [gzRun_swallow] at h
      simp only [Option.some.injEq, Prod.mk.injEq] at h
      obtain ⟨rfl, rfl, rfl, rfl⟩ := h
      exact ⟨s, .swallowData, d, [], [], gzRun_swallow O s d _, gzRun_swallow O s d _, rfl⟩
    · rw [List.cons_append, gzRun] at h
      rw [gzRun]
      simp only [hgs, if_false] at h ⊢
      generalize (if O.eof s = true then O.init else s) = s0 at h ⊢
      generalize (if O.eof s = true then GzState.otherMembers else gs) = gs0 at h ⊢
      generalize (if O.eof s = true then false else d) = d0 at h ⊢
      by_cases he : O.eof s0 = true
      · rw [if_pos he] at h; cases h
      · rw [if_neg he] at h ⊢
        cases hstep : O.step s0 x with
        | error e =>
          rw [hstep] at h
          cases e with
          | unsupported => cases h
          | error =>
            simp only [] at h ⊢
            by_cases hc : gs0 = .otherMembers ∧ d0 = false
            · rw [if_pos hc] at h ⊢
              simp only [Option.some.injEq, Prod.mk.injEq] at h
              obtain ⟨rfl, rfl, rfl, rfl⟩ := h
              exact ⟨s0, .swallowData, d0, [], [], rfl, gzRun_swallow O s0 d0 _, rfl⟩
            · rw [if_neg hc] at h; cases h
        | ok r1 =>
          obtain ⟨s1, o⟩ := r1
          rw [hstep] at h
          simp only [] at h ⊢
          cases hrun : gzRun O s1 gs0 (d0 || !o.isEmpty) (t ++ b) with
          | none => rw [hrun] at h; cases h
          | some r2 =>
            obtain ⟨s2', gs2', d2', o2⟩ := r2
            rw [hrun] at h
            simp only [Option.some.injEq, Prod.mk.injEq] at h
            obtain ⟨rfl, rfl, rfl, rfl⟩ := h
            obtain ⟨s1', gs1', d1', o', p', h1, h2, h3⟩ := ih s1 gs0 _ s2' gs2' d2' o2 hrun
            refine ⟨s1', gs1', d1', o ++ o', p', ?_, h2, ?_⟩
            · rw [h1]
            · rw [h3, List.append_assoc]

/-- one `self._obj.decompress(data)`: either it computes a prefix of `gzRun` (stopping at the end
of the member), or it raises in state `OTHER_MEMBERS` before any output — then `gzRun` swallows -/
theorem feedLoop_gzRun : ∀ (data : Bytes) (s : ρ) (gs : GzState) (d : Bool) (s2 : ρ) (gs2 : GzState) (d2 : Bool) (o : Bytes),
    gs ≠ .swallowData → gzRun O s gs d data = some (s2, gs2, d2, o) →
    (∃ s' out rest, feedLoop O s data [] = .ok (s', out, rest) ∧
      ∃ o', gzRun O s' gs (d || !out.isEmpty) rest = some (s2, gs2, d2, o') ∧ o = out ++ o' ∧
        (rest ≠ [] → O.eof s' = true) ∧ rest.length ≤ data.length ∧
        (O.eof s = false → data ≠ [] → rest.length < data.length)) ∨
    (feedLoop O s data [] = .error .error ∧ gs = .otherMembers ∧ d = false ∧ gs2 = .swallowData ∧ o = []) := by
  intro data
  induction data with
  | nil =>
    intro s gs d s2 gs2 d2 o _ h
    left
    refine ⟨s, [], [], by simp [feedLoop], o, by simpa using h, rfl, fun h => absurd rfl h, Nat.le_refl _,
      fun _ h => absurd rfl h⟩
  | cons x t ih =>
    intro s gs d s2 gs2 d2 o hgs h
    rw [feedLoop_cons]
    by_cases he : O.eof s = true
    · rw [if_pos he]
      left
      exact ⟨s, [], x :: t, rfl, o, by simpa using h, rfl, fun _ => he, Nat.le_refl _,
        fun h0 => by rw [he] at h0; cases h0⟩
    · rw [if_neg he]
      have he' : O.eof s = false := by simpa using he
      rw [gzRun_cons_live O s gs d x t hgs he'] at h
      cases hstep : O.step s x with
      | error e =>
        rw [hstep] at h
        cases e with
        | unsupported => cases h
        | error =>
          simp only [] at h ⊢
          by_cases hc : gs = .otherMembers ∧ d = false
          · rw [if_pos hc] at h
            simp only [Option.some.injEq, Prod.mk.injEq] at h
            obtain ⟨_, rfl, _, rfl⟩ := h
            right
            refine ⟨?_, hc.1, hc.2, rfl, rfl⟩
            first | rfl | trivial
          · rw [if_neg hc] at h; cases h
      | ok r1 =>
        obtain ⟨s1, ob⟩ := r1
        rw [hstep] at h
        simp only [] at h ⊢
        cases hrun : gzRun O s1 gs (d || !ob.isEmpty) t with
        | none => rw [hrun] at h; cases h
        | some r2 =>
          obtain ⟨s2', gs2', d2', o2⟩ := r2
          rw [hrun] at h
          simp only [Option.some.injEq, Prod.mk.injEq] at h
          obtain ⟨rfl, rfl, rfl, rfl⟩ := h
          rw [feedLoop_acc]
          rcases ih s1 gs _ s2' gs2' d2' o2 hgs hrun with
            ⟨s', out, rest, h1, o', h2, h3, h4, h5, _⟩ | ⟨h1, h2, h3, h4, h5⟩
          · left
            rw [h1]
            refine ⟨s', ob ++ out, rest, by simp [Except.map], o', ?_, by rw [h3, List.append_assoc], h4, ?_, ?_⟩
            · rw [← h2]
              have hemp : (ob ++ out).isEmpty = (ob.isEmpty && out.isEmpty) := by cases ob <;> rfl
              rw [hemp]
              congr 1
              cases d <;> cases ob.isEmpty <;> cases out.isEmpty <;> rfl
            · simp only [List.length_cons]; omega
            · intro _ _; simp only [List.length_cons]; omega
          · right
            rw [h1]
            have hd : d = false ∧ ob = [] := by
              cases d <;> cases hob : ob.isEmpty <;> simp_all
            refine ⟨by simp [Except.map], h2, hd.1, h4, by rw [h5, hd.2]; rfl⟩

/-- the `while True` loop of `GzipDecoder.decompress` finishes what `gzRun` prescribes -/
theorem gzLoop_run : ∀ (fuel : Nat) (g : Gz ρ) (data ret : Bytes) (d : Bool) (s2 : ρ) (gs2 : GzState) (d2 : Bool) (o : Bytes),
    g.obj.unused = [] → g.state ≠ .swallowData →
    data.length + (if O.eof g.obj.st = true then 1 else 0) < fuel →
    gzRun O g.obj.st g.state d data = some (s2, gs2, d2, o) →
    ∃ g', gzLoop O fuel g data ret = (.ok (ret ++ o), g') ∧ g'.obj.unused = [] ∧ g'.state = gs2 ∧
      (gs2 ≠ .swallowData → g'.obj.st = s2) := by
  intro fuel
  induction fuel with
  | zero => intro g data ret d s2 gs2 d2 o _ _ hf; omega
  | succ k ih =>
    intro g data ret d s2 gs2 d2 o hu hgs hf hrun
    unfold gzLoop
    rcases feedLoop_gzRun O data g.obj.st g.state d s2 gs2 d2 o hgs hrun with
      ⟨s', out, rest, h1, o', h2, h3, h4, h5, h6⟩ | ⟨h1, h2, _, h4, h5⟩
    · have hfeed : zlibFeed O g.obj data = .ok (out, ⟨s', rest⟩) := by
        simp [zlibFeed, h1, hu]
      rw [hfeed]
      simp only []
      by_cases hr : rest = []
      · subst hr
        rw [gzRun_nil] at h2
        simp only [Option.some.injEq, Prod.mk.injEq] at h2
        obtain ⟨rfl, rfl, _, rfl⟩ := h2
        refine ⟨{ g with obj := ⟨s', []⟩ }, ?_, rfl, rfl, fun _ => rfl⟩
        simp [h3]
      · have hne : rest.isEmpty = false := by simpa [List.isEmpty_iff] using hr
        rw [if_neg (by simp [hne])]
        have he' := h4 hr
        obtain ⟨b, t, hbt⟩ : ∃ b t, rest = b :: t := by
          cases rest with
          | nil => exact absurd rfl hr
          | cons b t => exact ⟨b, t, rfl⟩
        rw [hbt, gzRun_restart O s' g.state _ b t hgs he', ← hbt] at h2
        have hinit : O.eof O.init = false :=
          gzRun_init_noteof O .otherMembers false b t (fun h => by cases h) _ (hbt ▸ h2)
        have hlen : rest.length + (if O.eof O.init = true then 1 else 0) < k := by
          rw [hinit]
          simp only [Bool.false_eq_true, if_false, Nat.add_zero]
          by_cases he : O.eof g.obj.st = true
          · rw [if_pos he] at hf; omega
          · have := h6 (by simpa using he) (by intro h0; apply hr; rw [h0] at h5; exact List.eq_nil_of_length_eq_zero (by simpa using h5))
            rw [if_neg he] at hf; omega
        obtain ⟨g', e1, e2, e3, e4⟩ := ih { obj := ZObj.fresh O, state := .otherMembers } rest (ret ++ out)
          false s2 gs2 d2 o' rfl (fun h => by cases h) hlen h2
        exact ⟨g', by rw [e1, h3, List.append_assoc], e2, e3, e4⟩
    · have hfeed : zlibFeed O g.obj data = .error .error := by
        simp [zlibFeed, h1]
      rw [hfeed]
      simp only []
      rw [if_pos h2]
      exact ⟨{ g with state := .swallowData }, by rw [h5, List.append_nil], hu, h4.symm, fun h => absurd h4 h⟩

/-- "a `GzipDecoder` in state `g` that is still to receive `raw` will still deliver `p`" -/
def GzG (g : Gz ρ) (raw p : Bytes) : Prop :=
  g.obj.unused = [] ∧ ∃ d s2 gs2 d2, gzRun O g.obj.st g.state d raw = some (s2, gs2, d2, p)

/-- **`GzipDecoder.decompress`** computes `gzRun` -/
theorem gzDecompress_run (g : Gz ρ) (data : Bytes) (d : Bool) (s2 : ρ) (gs2 : GzState) (d2 : Bool) (o : Bytes)
    (hu : g.obj.unused = []) (hrun : gzRun O g.obj.st g.state d data = some (s2, gs2, d2, o)) :
    ∃ g', gzDecompress O g data = (.ok o, g') ∧ g'.obj.unused = [] ∧ g'.state = gs2 ∧
      (gs2 ≠ .swallowData → g'.obj.st = s2) := by
  unfold gzDecompress
  by_cases hc : g.state = .swallowData ∨ data.isEmpty = true
  · rw [if_pos hc]
    rcases hc with hc | hc
    · rw [hc, gzRun_swallow] at hrun
      simp only [Option.some.injEq, Prod.mk.injEq] at hrun
      obtain ⟨rfl, rfl, _, rfl⟩ := hrun
      exact ⟨g, rfl, hu, hc, fun _ => rfl⟩
    · have : data = [] := List.isEmpty_iff.mp hc
      subst this
      rw [gzRun_nil] at hrun
      simp only [Option.some.injEq, Prod.mk.injEq] at hrun
      obtain ⟨rfl, rfl, _, rfl⟩ := hrun
      exact ⟨g, rfl, hu, rfl, fun _ => rfl⟩
  · rw [if_neg hc]
    have hgs : g.state ≠ .swallowData := fun h => hc (Or.inl h)
    obtain ⟨g', e1, e2, e3, e4⟩ := gzLoop_run O (data.length + 2) g data [] d s2 gs2 d2 o hu hgs
      (by split <;> omega) hrun
    exact ⟨g', by simpa using e1, e2, e3, e4⟩

/-- `gzip_multimember`: the wrapper obeys the streaming law, for any `decompressobj` -/
theorem gzDec_streamLaw : StreamLaw (gzDec O) (GzG O) := by
  constructor
  · intro g a b p ⟨hu, d, s2, gs2, d2, hrun⟩
    obtain ⟨s1, gs1, d1, o, p', h1, h2, h3⟩ := gzRun_append O a b g.obj.st g.state d s2 gs2 d2 p hrun
    obtain ⟨g', e1, e2, e3, e4⟩ := gzDecompress_run O g a d s1 gs1 d1 o hu h1
    refine ⟨o, g', e1, p', h3, e2, ?_⟩
    by_cases hsw : gs1 = .swallowData
    · subst hsw
      rw [gzRun_swallow] at h2
      simp only [Option.some.injEq, Prod.mk.injEq] at h2
      obtain ⟨_, _, _, rfl⟩ := h2
      exact ⟨d1, g'.obj.st, .swallowData, d1, by rw [e3]; exact gzRun_swallow O _ _ _⟩
    · exact ⟨d1, s2, gs2, d2, by rw [e3, e4 hsw]; exact h2⟩
  · intro g p ⟨hu, d, s2, gs2, d2, hrun⟩
    rw [gzRun_nil] at hrun
    simp only [Option.some.injEq, Prod.mk.injEq] at hrun
    obtain ⟨_, _, _, rfl⟩ := hrun
    exact ⟨rfl, g, rfl, hu, d, g.obj.st, g.state, d, gzRun_nil O _ _ _⟩

end

/-- decidable form of `GzG` (used by the non-vacuity examples) -/
def gzOk {ρ : Type} (O : RawObj ρ) (s : ρ) (gs : GzState) (raw p : Bytes) : Bool :=
  match gzRun O s gs false raw with
  | some (_, _, _, o) => o == p
  | none => false

theorem GzG_of_gzOk {ρ : Type} (O : RawObj ρ) (g : Gz ρ) (raw p : Bytes) (hu : g.obj.unused = [])
    (h : gzOk O g.obj.st g.state raw p = true) : GzG O g raw p := by
  unfold gzOk at h
  cases hr : gzRun O g.obj.st g.state false raw with
  | none => rw [hr] at h; cases h
  | some r =>
    obtain ⟨s2, gs2, d2, o⟩ := r
    rw [hr] at h
    simp only [beq_iff_eq] at h
    exact ⟨hu, false, s2, gs2, d2, by rw [← h]; exact hr⟩

end U3.Resp
