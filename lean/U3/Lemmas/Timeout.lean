import U3.Model.Timeout
/-!
# Specification vocabulary and helper lemmas for C19 (`U3.Model.Timeout`)
-/
namespace U3.Timeout

/-- the bound a configured slot puts on a wait: `none` = no bound of its own (unset / None) -/
def TV.fin : TV → Option Int
  | .val q => Option.some q
  | _ => Option.none

/-- minimum where `none` is +∞ -/
def optMin : Option Int → Option Int → Option Int
  | some a, some b => some (min a b)
  | some a, none => some a
  | none, some b => some b
  | none, none => none

/-- `v.le b`: the applied value `v` is at least as tight as the configured slot `b`
(`None`/unset configure no bound; a number `B` demands a number `≤ B`) -/
def TV.le (v b : TV) : Prop :=
  match b with
  | .val B => ∃ q, v = .val q ∧ q ≤ B
  | _ => True

def TV.nonneg : TV → Prop
  | .val q => 0 ≤ q
  | _ => True

/-- what `_validate_timeout` lets through -/
def Arg.Valid : Arg → Prop
  | .unset => True
  | .none => True
  | .num q => 0 < q
  | .bool _ => False
  | .nonNumber => False

def TV.WF : TV → Prop
  | .val q => 0 < q
  | _ => True

/-- every numeric attribute is positive (what the constructor guarantees) -/
def Timeout.WF (t : Timeout) : Prop := t.connect.WF ∧ t.read.WF ∧ t.total.WF

def TArg.WF : TArg → Prop
  | .tobj t => t.WF
  | _ => True

/-- the events that reach the operating system: the timeout of the connect phase and every
`settimeout` -/
def isWire : Ev → Bool
  | .connect _ => true
  | .sockSet _ => true
  | _ => false

def wire (evs : List Ev) : List Ev := evs.filter isWire

def Ev.value : Ev → TV
  | .newConn v => v
  | .setConn v => v
  | .connect v => v
  | .sockSet v => v

/-- time between `start_connect()` and the evaluation of `read_timeout` inside one request -/
def elapsed (conn : ConnSt) (cdur sdur : Int) : Int :=
  if conn = .alive then sdur else cdur + sdur

/-- the property's value for the connect phase: min(connect, total), an unset slot falling back to
the system default only when nothing bounds the wait -/
def connectSpec (gdt : TV) (t : Timeout) : TV :=
  match optMin t.connect.fin t.total.fin with
  | some m => .val m
  | none => resolveDefault gdt t.connect

/-- the property's value for the response wait after `el` seconds: min(read, max(0, total − el)) -/
def readSpec (gdt : TV) (t : Timeout) (el : Int) : TV :=
  match optMin t.read.fin (t.total.fin.map fun T => max 0 (T - el)) with
  | some m => .val m
  | none => resolveDefault gdt t.read

/-! ### validation -/

theorem validate_ok_iff (a : Arg) : (∃ v, validateTimeout a = .ok v) ↔ a.Valid := by
  cases a <;> simp [validateTimeout, Arg.Valid]
  rename_i q
  by_cases h : q ≤ 0 <;> simp [h] <;> omega

theorem validate_ok (a : Arg) (h : a.Valid) :
    ∃ v, validateTimeout a = .ok v ∧ v.toArg = a ∧ v.WF := by
  cases a <;> simp_all [validateTimeout, Arg.Valid, TV.toArg, TV.WF]
  rename_i q
  have : ¬ q ≤ 0 := by omega
  simp [this, TV.toArg, TV.WF, h]

theorem validate_err (a : Arg) (h : ¬ a.Valid) : validateTimeout a = .error .valueError := by
  cases a <;> simp_all [validateTimeout, Arg.Valid]

theorem validate_toArg (v : TV) (h : v.WF) : validateTimeout v.toArg = .ok v := by
  cases v <;> simp_all [validateTimeout, TV.toArg, TV.WF]

theorem mk_ok (total connect read : Arg) (ht : total.Valid) (hc : connect.Valid) (hr : read.Valid) :
    ∃ t, mk total connect read = .ok t ∧ t.start = none ∧ t.total.toArg = total ∧
      t.connect.toArg = connect ∧ t.read.toArg = read ∧ t.WF := by
  obtain ⟨vt, h1, h2, h3⟩ := validate_ok total ht
  obtain ⟨vc, h4, h5, h6⟩ := validate_ok connect hc
  obtain ⟨vr, h7, h8, h9⟩ := validate_ok read hr
  exact ⟨⟨vc, vr, vt, none⟩, by simp [mk, h1, h4, h7], rfl, h2, h5, h8, h6, h9, h3⟩

theorem mk_err (total connect read : Arg) (h : ¬ (total.Valid ∧ connect.Valid ∧ read.Valid)) :
    mk total connect read = .error .valueError := by
  unfold mk
  by_cases hc : connect.Valid
  · obtain ⟨vc, h4, _⟩ := validate_ok connect hc
    by_cases hr : read.Valid
    · obtain ⟨vr, h7, _⟩ := validate_ok read hr
      have ht : ¬ total.Valid := fun ht => h ⟨ht, hc, hr⟩
      simp [h4, h7, validate_err total ht]
    · simp [h4, validate_err read hr]
  · simp [validate_err connect hc]

theorem mk_wf {total connect read : Arg} {t : Timeout} (h : mk total connect read = .ok t) :
    t.WF ∧ t.start = none := by
  by_cases hv : total.Valid ∧ connect.Valid ∧ read.Valid
  · obtain ⟨t', h1, h2, _, _, _, h3⟩ := mk_ok total connect read hv.1 hv.2.1 hv.2.2
    rw [h1] at h
    cases h
    exact ⟨h3, h2⟩
  · rw [mk_err _ _ _ hv] at h
    cases h

theorem clone_ok (t : Timeout) (h : t.WF) : clone t = .ok { t with start := none } := by
  obtain ⟨hc, hr, ht⟩ := h
  simp [clone, mk, validate_toArg _ hc, validate_toArg _ hr, validate_toArg _ ht]

theorem clone_unstarted {t t' : Timeout} (h : clone t = .ok t') : t'.start = none ∧ t'.WF :=
  ⟨(mk_wf h).2, (mk_wf h).1⟩

theorem getTimeout_unstarted {P : Timeout} {arg : TArg} {t : Timeout} (h : getTimeout P arg = .ok t) :
    t.start = none ∧ t.WF := by
  cases arg <;> simp only [getTimeout, fromFloat] at h
  · exact clone_unstarted h
  · exact clone_unstarted h
  · exact ⟨(mk_wf h).2, (mk_wf h).1⟩

theorem getTimeout_idem {P : Timeout} {arg : TArg} {t : Timeout} (h : getTimeout P arg = .ok t) (P' : Timeout) :
    getTimeout P' (.tobj t) = .ok t := by
  obtain ⟨hs, hw⟩ := getTimeout_unstarted h
  simp only [getTimeout, clone_ok t hw]
  cases t
  simp_all

/-! ### `connect_timeout` / `read_timeout` -/

theorem connectTimeout_start (t : Timeout) (s : Option Int) :
    connectTimeout { t with start := s } = connectTimeout t := rfl

/-- `connect_timeout` never raises (every combination of validated attributes has a value) -/
theorem connectTimeout_ok (t : Timeout) : ∃ v, connectTimeout t = .ok v := by
  obtain ⟨c, r, T, s⟩ := t
  cases T <;> cases c <;> simp [connectTimeout]

theorem connectTimeout_spec (gdt : TV) (t : Timeout) :
    ∃ v, connectTimeout t = .ok v ∧ resolveDefault gdt v = connectSpec gdt t := by
  obtain ⟨c, r, T, s⟩ := t
  cases T <;> cases c <;> simp_all [connectTimeout, connectSpec, optMin, TV.fin, resolveDefault]

theorem readTimeout_spec (gdt : TV) (t : Timeout) (hw : t.WF) (s now : Int) (hs : t.start = some s) :
    readTimeout gdt t now = .ok (readSpec gdt t (now - s)) := by
  obtain ⟨c, r, T, st⟩ := t
  obtain ⟨_, hr, hT⟩ := hw
  cases T <;> cases r <;>
    simp_all [readTimeout, readSpec, optMin, TV.fin, resolveDefault, getConnectDuration, TV.WF]
  omega

theorem readSpec_nonneg (gdt : TV) (t : Timeout) (hw : t.WF) (hg : gdt.nonneg) (el : Int) :
    (readSpec gdt t el).nonneg := by
  obtain ⟨c, r, T, st⟩ := t
  obtain ⟨_, hr, hT⟩ := hw
  cases T <;> cases r <;> cases gdt <;>
    simp_all [readSpec, optMin, TV.fin, resolveDefault, TV.WF, TV.nonneg] <;> omega

theorem connectSpec_nonneg (gdt : TV) (t : Timeout) (hw : t.WF) (hg : gdt.nonneg) :
    (connectSpec gdt t).nonneg := by
  obtain ⟨c, r, T, st⟩ := t
  obtain ⟨hc, _, hT⟩ := hw
  cases T <;> cases c <;> cases gdt <;>
    simp_all [connectSpec, optMin, TV.fin, resolveDefault, TV.WF, TV.nonneg] <;> omega

theorem connectSpec_le (gdt : TV) (t : Timeout) :
    (connectSpec gdt t).le t.connect ∧ (connectSpec gdt t).le t.total := by
  obtain ⟨c, r, T, st⟩ := t
  cases T <;> cases c <;> simp [connectSpec, optMin, TV.fin, TV.le] <;> omega

theorem readSpec_le (gdt : TV) (t : Timeout) (hw : t.WF) (el : Int) (hel : 0 ≤ el) :
    (readSpec gdt t el).le t.read ∧ (readSpec gdt t el).le t.total := by
  obtain ⟨c, r, T, st⟩ := t
  obtain ⟨_, hr, hT⟩ := hw
  cases T <;> cases r <;> simp_all [readSpec, optMin, TV.fin, TV.le, TV.WF] <;> omega

theorem readSpec_zero_iff (gdt : TV) (t : Timeout) (hw : t.WF) (hg : gdt ≠ .val 0) (el : Int) :
    readSpec gdt t el = .val 0 ↔ ∃ T, t.total = .val T ∧ T ≤ el := by
  obtain ⟨c, r, T, st⟩ := t
  obtain ⟨_, hr, hT⟩ := hw
  cases T <;> cases r <;> cases gdt <;>
    simp_all [readSpec, optMin, TV.fin, resolveDefault, TV.WF] <;> omega

/-! ### the request path in closed form -/

theorem elapsed_nonneg (conn : ConnSt) (cdur sdur : Int) (hc : 0 ≤ cdur) (hs : 0 ≤ sdur) :
    0 ≤ elapsed conn cdur sdur := by
  unfold elapsed; split <;> omega

/-- the first socket-level event of a request: a re-used socket gets `settimeout`, a new one is
connected -/
def firstEv (conn : ConnSt) (cv : TV) : Ev := if conn = .alive then .sockSet cv else .connect cv

/-- `_make_request` in closed form (any governing Timeout, the sentinel as `total` included) -/
theorem makeRequest_form (gdt : TV) (P : Timeout) (arg : TArg) (conn : ConnSt) (now cdur sdur : Int)
    (cl : Bool) (t : Timeout) (hg : getTimeout P arg = .ok t) :
    makeRequest gdt P arg conn now cdur sdur cl =
      (if readSpec gdt t (elapsed conn cdur sdur) = .val 0 then
         ⟨[.setConn (connectSpec gdt t), firstEv conn (connectSpec gdt t)], .exc .readTimeoutError, .alive,
           now + elapsed conn cdur sdur⟩
       else
         ⟨[.setConn (connectSpec gdt t), firstEv conn (connectSpec gdt t),
            .setConn (readSpec gdt t (elapsed conn cdur sdur)), .sockSet (readSpec gdt t (elapsed conn cdur sdur))],
           .ok, if cl then .closed else .alive, now + elapsed conn cdur sdur⟩) := by
  obtain ⟨hs, hw⟩ := getTimeout_unstarted hg
  obtain ⟨ct, hct, hcv⟩ := connectTimeout_spec gdt t
  have hst : startConnect t now = .ok { t with start := some now } := by simp [startConnect, hs]
  have hrt := readTimeout_spec gdt { t with start := some now } hw now
    (now + elapsed conn cdur sdur) rfl
  have he : now + elapsed conn cdur sdur - now = elapsed conn cdur sdur := by omega
  rw [he] at hrt
  have hnow2 : (if conn = ConnSt.alive then now + sdur else now + cdur + sdur)
      = now + elapsed conn cdur sdur := by
    unfold elapsed; split <;> omega
  have hspec : readSpec gdt { t with start := some now } (elapsed conn cdur sdur)
      = readSpec gdt t (elapsed conn cdur sdur) := rfl
  simp only [makeRequest, hg, hst, connectTimeout_start, hct, hnow2, hrt, hcv, hspec]
  by_cases hz : readSpec gdt t (elapsed conn cdur sdur) = .val 0
  · simp [hz, firstEv]; split <;> rfl
  · simp [hz, firstEv]; split <;> simp

/-- the events `_get_conn` produces when the slot is empty -/
def newConnEvs (gdt : TV) (conn : ConnSt) (pv : TV) : List Ev :=
  if conn = .noConn then [.newConn pv, .setConn (resolveDefault gdt pv)] else []

def connAfterGet (conn : ConnSt) : ConnSt := if conn = .noConn then .closed else conn

theorem firstEv_afterGet (conn : ConnSt) (cv : TV) : firstEv (connAfterGet conn) cv = firstEv conn cv := by
  cases conn <;> simp [firstEv, connAfterGet]

theorem elapsed_afterGet (conn : ConnSt) (cdur sdur : Int) :
    elapsed (connAfterGet conn) cdur sdur = elapsed conn cdur sdur := by
  cases conn <;> simp [elapsed, connAfterGet]

/-- `urlopen` in closed form; `pv` is the pool's own `connect_timeout` (only consulted when a new
connection object is made) -/
theorem urlopen_form (gdt : TV) (P : Timeout) (arg : TArg) (conn : ConnSt) (now cdur sdur : Int)
    (cl : Bool) (t : Timeout) (hg : getTimeout P arg = .ok t)
    (pv : TV) (hp : conn = .noConn → connectTimeout P = .ok pv) :
    ∃ ctRaw, connectTimeout t = .ok ctRaw ∧
    urlopen gdt P arg conn now cdur sdur cl =
      (if readSpec gdt t (elapsed conn cdur sdur) = .val 0 then
         ⟨newConnEvs gdt conn pv ++ [.setConn ctRaw, .setConn (connectSpec gdt t), firstEv conn (connectSpec gdt t)],
           .exc .readTimeoutError, .noConn, now + elapsed conn cdur sdur⟩
       else
         ⟨newConnEvs gdt conn pv ++ [.setConn ctRaw, .setConn (connectSpec gdt t), firstEv conn (connectSpec gdt t),
            .setConn (readSpec gdt t (elapsed conn cdur sdur)), .sockSet (readSpec gdt t (elapsed conn cdur sdur))],
           .ok, if cl then .closed else .alive, now + elapsed conn cdur sdur⟩) := by
  obtain ⟨ct, hct, _⟩ := connectTimeout_spec gdt t
  refine ⟨ct, hct, ?_⟩
  have hmr := makeRequest_form gdt P (.tobj t) (connAfterGet conn) now cdur sdur cl t
    (getTimeout_idem hg P)
  rw [firstEv_afterGet, elapsed_afterGet] at hmr
  have hca : (if conn = ConnSt.noConn then ConnSt.closed else conn) = connAfterGet conn := rfl
  unfold urlopen
  simp only [hg, hct, hca, hmr]
  by_cases hn : conn = .noConn
  · simp only [hn, if_true, hp hn, newConnEvs]
    by_cases hz : readSpec gdt t (elapsed ConnSt.noConn cdur sdur) = .val 0
    · simp [hz]
    · simp [hz]
  · simp only [hn, if_false, newConnEvs]
    by_cases hz : readSpec gdt t (elapsed conn cdur sdur) = .val 0
    · simp [hz]
    · simp [hz]

theorem wire_pre (gdt : TV) (conn : ConnSt) (pv a b : TV) (rest : List Ev) :
    wire (newConnEvs gdt conn pv ++ (.setConn a :: .setConn b :: rest)) = wire rest := by
  unfold newConnEvs wire
  split <;> simp [isWire]

theorem isWire_firstEv (conn : ConnSt) (cv : TV) : isWire (firstEv conn cv) = true := by
  unfold firstEv; split <;> rfl


/-! ### translation invariance in the clock -/

theorem readTimeout_shift (gdt : TV) (t : Timeout) (now now' d : Int) :
    readTimeout gdt { t with start := some now } (now + d)
      = readTimeout gdt { t with start := some now' } (now' + d) := by
  obtain ⟨c, r, T, s⟩ := t
  have h1 : now + d - now = d := by omega
  have h2 : now' + d - now' = d := by omega
  cases T <;> cases r <;> simp [readTimeout, getConnectDuration, h1, h2]

theorem makeRequest_shift (gdt : TV) (P : Timeout) (arg : TArg) (conn : ConnSt)
    (now now' cd sd : Int) (cl : Bool) :
    (makeRequest gdt P arg conn now cd sd cl).evs = (makeRequest gdt P arg conn now' cd sd cl).evs ∧
    (makeRequest gdt P arg conn now cd sd cl).out = (makeRequest gdt P arg conn now' cd sd cl).out ∧
    (makeRequest gdt P arg conn now cd sd cl).conn = (makeRequest gdt P arg conn now' cd sd cl).conn ∧
    (makeRequest gdt P arg conn now cd sd cl).now - now = (makeRequest gdt P arg conn now' cd sd cl).now - now' := by
  unfold makeRequest
  cases hg : getTimeout P arg with
  | error e => simp
  | ok t0 =>
    simp only []
    cases hs : t0.start with
    | some s => simp [startConnect, hs]
    | none =>
      simp only [startConnect, hs, connectTimeout_start]
      cases hc : connectTimeout t0 with
      | error e => simp
      | ok ct =>
        simp only []
        have hn : ∀ n : Int, (if conn = ConnSt.alive then n + sd else n + cd + sd) = n + elapsed conn cd sd := by
          intro n; unfold elapsed; split <;> omega
        rw [hn now, hn now', readTimeout_shift gdt t0 now now' (elapsed conn cd sd)]
        cases hr : readTimeout gdt { t0 with start := some now' } (now' + elapsed conn cd sd) with
        | error e => simp; omega
        | ok rt =>
          simp only []
          split <;> simp <;> omega

theorem urlopen_shift (gdt : TV) (P : Timeout) (arg : TArg) (conn : ConnSt)
    (now now' cd sd : Int) (cl : Bool) :
    (urlopen gdt P arg conn now cd sd cl).evs = (urlopen gdt P arg conn now' cd sd cl).evs ∧
    (urlopen gdt P arg conn now cd sd cl).out = (urlopen gdt P arg conn now' cd sd cl).out ∧
    (urlopen gdt P arg conn now cd sd cl).conn = (urlopen gdt P arg conn now' cd sd cl).conn ∧
    (urlopen gdt P arg conn now cd sd cl).now - now = (urlopen gdt P arg conn now' cd sd cl).now - now' := by
  unfold urlopen
  cases hg : getTimeout P arg with
  | error e => simp
  | ok tobj =>
    simp only []
    obtain ⟨h1, h2, h3, h4⟩ := makeRequest_shift gdt P (.tobj tobj)
      (if conn = ConnSt.noConn then ConnSt.closed else conn) now now' cd sd cl
    split
    · simp
    · split
      · simp
      · simp only [h1, h2, h3]
        exact ⟨trivial, trivial, trivial, h4⟩

end U3.Timeout
