import U3.Lemmas.RespGzip
import U3.Lemmas.RespDeflate
import U3.Lemmas.RespZstd
/-! `multidecoder_order`: `MultiDecoder` (decoders applied in reverse order of the header, `flush` =
first decoder only) obeys the streaming law whenever its components do; and the law for the concrete
decoder family `cdDec` the driver runs (`gzip` / `x-gzip`, `deflate`, `zstd`, comma lists). -/
namespace U3.Resp
open U3

section
variable {δ : Type} (D : Dec δ) (G : δ → Bytes → Bytes → Prop)

/-- what the decoders `ds` (header order; the last is applied first) make of `raw` -/
def ChainG : List δ → Bytes → Bytes → Prop
  | [], raw, p => p = raw
  | d :: rest, raw, p => ∃ mid, ChainG rest raw mid ∧ G d mid p

/-- a `MultiDecoder` has at least one decoder (`flush` is `self._decoders[0].flush()`) -/
def MultiG (ds : List δ) (raw p : Bytes) : Prop := ds ≠ [] ∧ ChainG G ds raw p

variable {D G}

theorem chain_feed (hD : StreamLaw D G) : ∀ (ds : List δ) (a b p : Bytes), ChainG G ds (a ++ b) p →
    ∃ o ds', multiDecompress D ds a = (.ok o, ds') ∧ ds'.length = ds.length ∧
      ∃ p', p = o ++ p' ∧ ChainG G ds' b p' := by
  intro ds
  induction ds with
  | nil =>
    intro a b p h
    exact ⟨a, [], rfl, rfl, b, h, rfl⟩
  | cons d rest ih =>
    intro a b p ⟨mid, hrest, hd⟩
    obtain ⟨om, rest', h1, hlen, mid', hm, hrest'⟩ := ih a b mid hrest
    rw [hm] at hd
    obtain ⟨o, d', h2, p', hp, hd'⟩ := hD.feed d om mid' p hd
    refine ⟨o, d' :: rest', ?_, by simp [hlen], p', hp, mid', hrest', hd'⟩
    simp [multiDecompress, h1, h2]

theorem chain_nil (hD : StreamLaw D G) : ∀ (ds : List δ) (p : Bytes), ChainG G ds [] p → p = [] := by
  intro ds
  induction ds with
  | nil => intro p h; exact h
  | cons d rest ih =>
    intro p ⟨mid, hrest, hd⟩
    have := ih mid hrest
    subst this
    exact (hD.done d p hd).1

/-- `multidecoder_order` -/
theorem multiDec_streamLaw (hD : StreamLaw D G) : StreamLaw (multiDec D) (MultiG G) := by
  constructor
  · intro ds a b p ⟨hne, h⟩
    obtain ⟨o, ds', h1, hlen, p', hp, h'⟩ := chain_feed hD ds a b p h
    refine ⟨o, ds', h1, p', hp, ?_, h'⟩
    intro h0; rw [h0] at hlen
    exact hne (List.eq_nil_of_length_eq_zero hlen.symm)
  · intro ds p ⟨hne, h⟩
    have hp := chain_nil hD ds p h
    subst hp
    refine ⟨rfl, ?_⟩
    cases ds with
    | nil => exact absurd rfl hne
    | cons d rest =>
      obtain ⟨mid, hrest, hd⟩ := h
      have hm := chain_nil hD rest mid hrest
      subst hm
      obtain ⟨_, d', hfl, hd'⟩ := hD.done d [] hd
      refine ⟨d' :: rest, ?_, by simp, [], hrest, hd'⟩
      show multiFlush D (d :: rest) = _
      simp [multiFlush, hfl]

end

/-! ### the concrete decoder family -/

def CD1G (c : CD1) (raw p : Bytes) : Prop :=
  match c with
  | .gzip g => GzG gzipO g raw p
  | .deflate d => DfG zlibO rawO d raw p
  | .zstd z => ZsG zstdObj z raw p

theorem cd1Dec_streamLaw : StreamLaw cd1Dec CD1G := by
  constructor
  · intro c a b p h
    match c, h with
    | .gzip g, h =>
      obtain ⟨o, g', h1, p', h2, h3⟩ := (gzDec_streamLaw gzipO).feed g a b p h
      have h1' : gzDecompress gzipO g a = (.ok o, g') := h1
      exact ⟨o, .gzip g', by simp [cd1Dec, h1'], p', h2, h3⟩
    | .deflate d, h =>
      obtain ⟨o, d', h1, p', h2, h3⟩ := (dfDec_streamLaw zlibO rawO).feed d a b p h
      have h1' : dfDecompress zlibO rawO d a = (.ok o, d') := h1
      exact ⟨o, .deflate d', by simp [cd1Dec, h1'], p', h2, h3⟩
    | .zstd z, h =>
      obtain ⟨o, z', h1, p', h2, h3⟩ := (zsDec_streamLaw zstdObj).feed z a b p h
      have h1' : zsDecompress zstdObj z a = (.ok o, z') := h1
      exact ⟨o, .zstd z', by simp [cd1Dec, h1'], p', h2, h3⟩
  · intro c p h
    match c, h with
    | .gzip g, h =>
      obtain ⟨hp, g', h1, h2⟩ := (gzDec_streamLaw gzipO).done g p h
      have h1' : ((.ok [], g) : Except DErr Bytes × Gz Inf) = (.ok [], g') := h1
      simp only [Prod.mk.injEq, true_and] at h1'
      subst h1'
      exact ⟨hp, .gzip g, rfl, h2⟩
    | .deflate d, h =>
      obtain ⟨hp, d', h1, h2⟩ := (dfDec_streamLaw zlibO rawO).done d p h
      have h1' : ((.ok [], d) : Except DErr Bytes × Df Inf) = (.ok [], d') := h1
      simp only [Prod.mk.injEq, true_and] at h1'
      subst h1'
      exact ⟨hp, .deflate d, rfl, h2⟩
    | .zstd z, h =>
      obtain ⟨hp, z', h1, h2⟩ := (zsDec_streamLaw zstdObj).done z p h
      have h1' : zsFlush zstdObj z = (.ok [], z') := h1
      exact ⟨hp, .zstd z', by simp [cd1Dec, h1'], h2⟩

/-- the relation for every decoder `_get_decoder` can build: a single coding or a comma list -/
def CDGall (c : CD) (raw p : Bytes) : Prop :=
  match c with
  | .one d => CD1G d raw p
  | .multi ds => MultiG CD1G ds raw p

/-- the decoders the driver runs obey the streaming law -/
theorem cdDec_streamLaw : StreamLaw cdDec CDGall := by
  constructor
  · intro c a b p h
    match c, h with
    | .one d, h =>
      obtain ⟨o, d', h1, p', h2, h3⟩ := cd1Dec_streamLaw.feed d a b p h
      exact ⟨o, .one d', by simp [cdDec, h1], p', h2, h3⟩
    | .multi ds, h =>
      obtain ⟨o, ds', h1, p', h2, h3⟩ := (multiDec_streamLaw cd1Dec_streamLaw).feed ds a b p h
      have h1' : multiDecompress cd1Dec ds a = (.ok o, ds') := h1
      exact ⟨o, .multi ds', by simp [cdDec, h1'], p', h2, h3⟩
  · intro c p h
    match c, h with
    | .one d, h =>
      obtain ⟨hp, d', h1, h2⟩ := cd1Dec_streamLaw.done d p h
      exact ⟨hp, .one d', by simp [cdDec, h1], h2⟩
    | .multi ds, h =>
      obtain ⟨hp, ds', h1, h2⟩ := (multiDec_streamLaw cd1Dec_streamLaw).done ds p h
      have h1' : multiFlush cd1Dec ds = (.ok [], ds') := h1
      exact ⟨hp, .multi ds', by simp [cdDec, h1'], h2⟩

/-- the zstd-only relation of `RespZstd` is an instance -/
theorem CDGall_of_CDG (c : CD) (raw p : Bytes) (h : CDG c raw p) : CDGall c raw p := by
  match c, h with
  | .one (.zstd z), h => exact h

end U3.Resp
