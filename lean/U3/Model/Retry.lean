import U3.Base.Str
import U3.Gen.Retry
import U3.Gen.Redirect
/-!
# Model of `urllib3.util.retry.Retry` and of the retry loop of `HTTPConnectionPool.urlopen`

Transcribed from `src/urllib3/util/retry.py` (`__init__`, `new`, `from_int`, `get_backoff_time`,
`sleep*`, `_is_connection_error`, `_is_read_error`, `_is_method_retryable`, `is_retry`,
`is_exhausted`, `increment`) and from the `except` / retry / redirect part of
`connectionpool.py::urlopen` (the `from_int` conversion at the top, the `except` clause, the "try
again" recursion, the pool-level redirect branch, the status-retry branch), keeping the order of the
tests and Python truthiness.

Conventions
* a retry counter is `Count`: `none` (Python `None`), `disabled` (Python `False`) or `num n`;
  `False - 1` is `-1` in Python, hence `dec disabled = num (-1)`;
* seconds are `Int`s in units of 2^-10 s (`ticks`); `backoff_jitter` is 0 (jitter-free model);
* `Retry-After` is the parsed number of seconds (`Option Nat`; the date form is outside the model);
* exceptions are the classes the code distinguishes: `Err.plain c` or `Err.proxy orig`
  (`ProxyError` with its `original_error`).

The constant tables come from `U3.Gen.Retry` (regenerated from the source on every run).
-/
namespace U3.Retry
open U3

/-- one second in model units -/
def ticks : Int := 1024

/-! ## counters -/

/-- `None` / `False` / an int -/
inductive Count where
  | none
  | disabled
  | num (n : Int)
  deriving DecidableEq, Repr, Inhabited

namespace Count

/-- Python truthiness (`if x`): `None`, `False` and `0` are falsy -/
def truthy : Count → Bool
  | num n => n != 0
  | _ => false

/-- `x -= 1` under the guard `x is not None` (`False - 1 == -1`) -/
def dec : Count → Count
  | none => none
  | disabled => num (-1)
  | num n => num (n - 1)

/-- how many retries the counter pays for (`None`: unbounded) -/
def budget : Count → Option Nat
  | none => Option.none
  | disabled => some 0
  | num n => some n.toNat

/-- decoding of the generated defaults (`none` = None, `some none` = False) -/
def ofGen : Option (Option Int) → Count
  | Option.none => none
  | some Option.none => disabled
  | some (some n) => num n

end Count

/-! ## exceptions -/

/-- exception classes that reach `Retry.increment` (after `urlopen`'s translation) or sit inside a
`ProxyError` as `original_error` -/
inductive ErrClass where
  | connectTimeout        -- ConnectTimeoutError
  | newConnection         -- NewConnectionError  (subclass of ConnectTimeoutError)
  | readTimeout           -- ReadTimeoutError
  | protocol              -- ProtocolError
  | ssl                   -- urllib3.exceptions.SSLError
  | connectionReset       -- builtin ConnectionResetError (OSError)
  | remoteDisconnected    -- http.client.RemoteDisconnected (ConnectionResetError + BadStatusLine)
  | badStatusLine         -- http.client.BadStatusLine (HTTPException)
  | socketTimeout         -- builtin TimeoutError (`socket.timeout`, an OSError) as raised by the socket itself
  deriving DecidableEq, Repr, Inhabited

inductive Err where
  | plain (c : ErrClass)
  | proxy (orig : ErrClass)        -- ProxyError(msg, original_error)
  deriving DecidableEq, Repr, Inhabited

/-- `isinstance(x, ConnectTimeoutError)` -/
def ErrClass.isConnectTimeout : ErrClass → Bool
  | .connectTimeout | .newConnection => true
  | _ => false

/-- `Retry._is_connection_error`: unwrap a `ProxyError`, then `isinstance(err, ConnectTimeoutError)` -/
def isConnectionError : Err → Bool
  | .proxy orig => orig.isConnectTimeout
  | .plain c => c.isConnectTimeout

/-- `Retry._is_read_error`: `isinstance(err, (ReadTimeoutError, ProtocolError))` — no unwrapping -/
def isReadError : Err → Bool
  | .plain .readTimeout | .plain .protocol => true
  | _ => false

/-! ## the Retry object -/

/-- `RequestHistory(method, url, error, status, redirect_location)`; method and url are the
arguments of the call and play no role in any decision -/
structure Hist where
  error : Option Err
  status : Option Nat
  redirect : Bool            -- `redirect_location is not None`
  deriving DecidableEq, Repr, Inhabited

structure Retry where
  total : Count
  connect : Count
  read : Count
  redirect : Count
  status : Count
  other : Count
  allowedMethods : Option (List Str)      -- a collection or `None`
  statusForcelist : List Nat              -- `status_forcelist or set()`
  backoffFactor : Int                     -- 2^-10 s
  backoffMax : Int                        -- 2^-10 s
  raiseOnRedirect : Bool
  raiseOnStatus : Bool
  history : List Hist
  respectRetryAfter : Bool
  removeHeadersOnRedirect : List Str      -- stored lower-cased
  deriving DecidableEq, Repr, Inhabited

/-- what callers may pass as `retries=` -/
inductive Arg where
  | none
  | false
  | int (n : Int)
  | retry (r : Retry)
  deriving Repr, Inhabited

/-- a response as far as `Retry` looks at it -/
structure Resp where
  status : Nat
  retryAfter : Option Nat         -- parsed `Retry-After` seconds; `none`: header absent
  deriving DecidableEq, Repr, Inhabited

/-- what `increment` is told: `error=…`, a response with a redirect location, another response
(with its status), or neither -/
inductive Event where
  | error (e : Err)
  | redirect (status : Nat)
  | status (status : Nat)
  | nothing
  deriving DecidableEq, Repr, Inhabited

/-- the text inside `ResponseError(cause)` -/
inductive RespCause where
  | unknown
  | tooManyRedirects
  | generic
  | specific (status : Nat)
  deriving DecidableEq, Repr, Inhabited

/-- `reason = error or ResponseError(cause)` -/
inductive Cause where
  | error (e : Err)
  | response (c : RespCause)
  deriving DecidableEq, Repr, Inhabited

inductive Raise where
  | reraise (e : Err)            -- the original error, re-raised by `six.reraise`
  | maxRetry (c : Cause)         -- MaxRetryError(_pool, url, reason)
  deriving DecidableEq, Repr, Inhabited

namespace Retry

/-- the body of `Retry.__init__` applied to the keyword values held in `p`:
`if redirect is False or total is False: redirect = 0; raise_on_redirect = False`, and the
lower-casing of `remove_headers_on_redirect` -/
def init (p : Retry) : Retry :=
  let p := { p with removeHeadersOnRedirect := p.removeHeadersOnRedirect.map lower }
  if p.redirect = .disabled ∨ p.total = .disabled then
    { p with redirect := .num 0, raiseOnRedirect := false }
  else p

/-- keyword values of `Retry()` — every default of `__init__`, from the generated table -/
def initDefaults : Retry where
  total := .ofGen Gen.initTotal
  connect := .ofGen Gen.initConnect
  read := .ofGen Gen.initRead
  redirect := .ofGen Gen.initRedirect
  status := .ofGen Gen.initStatus
  other := .ofGen Gen.initOther
  allowedMethods := Gen.initAllowedMethods
  statusForcelist := Gen.initStatusForcelist
  backoffFactor := Gen.initBackoffFactor
  backoffMax := Gen.initBackoffMax
  raiseOnRedirect := Gen.initRaiseOnRedirect
  raiseOnStatus := Gen.initRaiseOnStatus
  history := []
  respectRetryAfter := Gen.initRespectRetryAfterHeader
  removeHeadersOnRedirect := Gen.initRemoveHeadersOnRedirect

/-- `Retry()` -/
def default : Retry := init initDefaults

/-- `Retry(total, redirect=redirect)` -/
def ofTotal (total : Count) (redirect : Count := .ofGen Gen.initRedirect) : Retry :=
  init { initDefaults with total := total, redirect := redirect }

/-- `Retry.DEFAULT` (`Retry(3)` in the pinned tree) -/
def DEFAULT : Retry := ofTotal (.ofGen Gen.retryDEFAULTTotal)

/-- `Retry.from_int(retries, redirect, default)`:
```
if retries is None: retries = default if default is not None else cls.DEFAULT
if isinstance(retries, Retry): return retries
redirect = bool(redirect) and None
return cls(retries, redirect=redirect)
``` -/
def fromInt (retries : Arg) (redirect : Bool := true) (dflt : Arg := .none) : Retry :=
  let retries : Arg := match retries with
    | .none => (match dflt with | .none => .retry DEFAULT | d => d)
    | a => a
  let redirect : Count := if redirect then .none else .disabled     -- `bool(redirect) and None`
  match retries with
  | .retry r => r
  | .false => ofTotal .disabled redirect
  | .int n => ofTotal (.num n) redirect
  | .none => DEFAULT            -- unreachable: `.none` was replaced above

/-- `Retry.new(total=…, connect=…, read=…, redirect=…, status=…, other=…, history=…)`: every other
field is copied, and the result goes through `__init__` again -/
def new (r : Retry) (total connect read redirect status other : Count) (history : List Hist) : Retry :=
  init { r with total := total, connect := connect, read := read, redirect := redirect,
                status := status, other := other, history := history }

/-- `_is_method_retryable`: `if self.allowed_methods and method.upper() not in self.allowed_methods:
return False` -/
def isMethodRetryable (r : Retry) (method : Str) : Bool :=
  match r.allowedMethods with
  | Option.none => true
  | some l => if !l.isEmpty && !(l.contains (upper method)) then false else true

/-- `is_retry(method, status_code, has_retry_after)` -/
def isRetry (r : Retry) (method : Str) (status : Nat) (hasRetryAfter : Bool) : Bool :=
  if !r.isMethodRetryable method then false
  else if !r.statusForcelist.isEmpty && r.statusForcelist.contains status then true
  else r.total.truthy && r.respectRetryAfter && hasRetryAfter
        && Gen.retryAfterStatusCodes.contains status

/-- the six counters in the order `is_exhausted` lists them -/
def counters (r : Retry) : List Count :=
  [r.total, r.connect, r.read, r.redirect, r.status, r.other]

/-- `[x for x in (...) if x]` (the `if x` filter drops `None`, `False` and `0`) -/
def retryCounts (r : Retry) : List Int :=
  r.counters.filterMap fun
    | .num n => if n != 0 then some n else Option.none
    | _ => Option.none

/-- `is_exhausted`: `if not retry_counts: return False; return min(retry_counts) < 0` -/
def isExhausted (r : Retry) : Bool :=
  match r.retryCounts with
  | [] => false
  | x :: xs => decide (xs.foldl min x < 0)

/-- `get_backoff_time` with `backoff_jitter == 0`:
consecutive errors since the last redirect, `factor * 2 ** (n - 1)`, `max(0, min(backoff_max, …))` -/
def consecutiveErrors (r : Retry) : Nat :=
  (r.history.reverse.takeWhile fun h => !h.redirect).length

def getBackoffTime (r : Retry) : Int :=
  let n := r.consecutiveErrors
  if n ≤ 1 then 0
  else max 0 (min r.backoffMax (r.backoffFactor * (2 : Int) ^ (n - 1)))

/-- `sleep_for_retry`: `retry_after = get_retry_after(response); if retry_after: sleep; return True`.
The result is the logged sleep (`none`: did not sleep, returned `False`) -/
def sleepForRetry (resp : Resp) : Option Int :=
  match resp.retryAfter with
  | some n => if n != 0 then some (ticks * n) else Option.none
  | Option.none => Option.none

/-- `_sleep_backoff`: `if backoff <= 0: return` -/
def sleepBackoff (r : Retry) : Option Int :=
  let b := r.getBackoffTime
  if b ≤ 0 then Option.none else some b

/-- `sleep(response=None)`; the result is the argument of the one `time.sleep` call, if any -/
def sleep (r : Retry) (resp : Option Resp) : Option Int :=
  match resp with
  | some rs =>
    if r.respectRetryAfter then
      match sleepForRetry rs with
      | some t => some t
      | Option.none => r.sleepBackoff
    else r.sleepBackoff
  | Option.none => r.sleepBackoff

/-! ## increment -/

/-- the tail of `increment`: `history + (entry,)`, `self.new(...)`, `if new_retry.is_exhausted():
raise MaxRetryError(reason)` -/
def finish (r : Retry) (total connect read redirect status other : Count) (h : Hist)
    (reason : Cause) : Except Raise Retry :=
  let r' := r.new total connect read redirect status other (r.history ++ [h])
  if r'.isExhausted then .error (.maxRetry reason) else .ok r'

/-- `Retry.increment(method, url, response, error)` — the classification order of the source:
`total is False and error` → re-raise; connection error; read error (gated by `read is False`,
`method is None`, `_is_method_retryable`); any other error; redirect response; status response. -/
def increment (r : Retry) (method : Option Str) : Event → Except Raise Retry
  | .error e =>
    if r.total = .disabled then .error (.reraise e)
    else
      let total := r.total.dec
      if isConnectionError e then
        if r.connect = .disabled then .error (.reraise e)
        else finish r total r.connect.dec r.read r.redirect r.status r.other
              ⟨some e, Option.none, false⟩ (.error e)
      else if isReadError e then
        if r.read = .disabled || method.isNone
            || !(r.isMethodRetryable (method.getD [])) then .error (.reraise e)
        else finish r total r.connect r.read.dec r.redirect r.status r.other
              ⟨some e, Option.none, false⟩ (.error e)
      else
        finish r total r.connect r.read r.redirect r.status r.other.dec
          ⟨some e, Option.none, false⟩ (.error e)
  | .redirect st =>
    finish r r.total.dec r.connect r.read r.redirect.dec r.status r.other
      ⟨Option.none, some st, true⟩ (.response .tooManyRedirects)
  | .status st =>
    if st != 0 then            -- `if response and response.status`
      finish r r.total.dec r.connect r.read r.redirect r.status.dec r.other
        ⟨Option.none, some st, false⟩ (.response (.specific st))
    else
      finish r r.total.dec r.connect r.read r.redirect r.status r.other
        ⟨Option.none, Option.none, false⟩ (.response .generic)
  | .nothing =>
    finish r r.total.dec r.connect r.read r.redirect r.status r.other
      ⟨Option.none, Option.none, false⟩ (.response .generic)

end Retry

/-! ## the retry / redirect loop of `HTTPConnectionPool.urlopen`

One scripted outcome per attempt (the server / network decides what happens to the attempt).  The
recursion of `urlopen` is structural on the script.  A reply may carry a `Location` header that
names a path on the same pool (`Outcome.located`): the pool-level redirect branch
(`connectionpool.py` 889-926: `redirect and response.get_redirect_location()`, the 303 rewrite,
`retries.increment(method, url, response=response)`, `raise_on_redirect`, `sleep_for_retry`, the
recursion that passes `redirect` on) is part of the loop.  Cross-host redirects and the
manager-level branch are `Model/Manager`'s (C05). -/

inductive ConnKind where
  | timeout      -- connect() timed out                 → ConnectTimeoutError
  | refused      -- any other OSError while connecting  → NewConnectionError
  deriving DecidableEq, Repr, Inhabited

/-- what goes wrong after the request has been written completely (while waiting for the status line) -/
inductive ReadKind where
  | timeout      -- socket timeout                      → ReadTimeoutError (`_raise_timeout`)
  | reset        -- ConnectionResetError
  | eof          -- FIN before any byte                 → http.client.RemoteDisconnected
  | garbage      -- not an HTTP status line             → http.client.BadStatusLine
  deriving DecidableEq, Repr, Inhabited

/-- what goes wrong while the request is being written to the socket — after the head (and body) may
already have reached the server.  `_make_request`:
```
try:
    conn.request(method, url, body=body, headers=headers, ...)
except BrokenPipeError:
    pass
except OSError as e:
    if e.errno != errno.EPROTOTYPE and e.errno != errno.ECONNRESET:
        raise
```
and then, for the swallowed ones, `conn.getresponse()` on the dead connection. -/
inductive SendKind where
  | timeout      -- socket.timeout from `send` (errno None): re-raised, reaches `urlopen`'s handler as TimeoutError
  | reset        -- ConnectionResetError(ECONNRESET) from `send`: swallowed; reading the response is reset as well
  | pipe         -- BrokenPipeError from `send`: swallowed; reading the response finds EOF (RemoteDisconnected)
  deriving DecidableEq, Repr, Inhabited

/-- the TCP connection to the first hop is open, but the TLS handshake with that hop — the HTTPS proxy
of a proxied pool (forwarding: `HTTPSConnection.connect` via `_validate_conn`; tunnelling:
`_connect_tls_proxy` via `_prepare_proxy`), the origin itself on a direct https pool — fails.  Nothing
of the request has been written, and `conn.has_connected_to_proxy` is still `False`. -/
inductive HandshakeKind where
  | timeout      -- socket.timeout in `do_handshake`: `_raise_timeout` has made it a ReadTimeoutError
  | reset        -- ConnectionResetError in `do_handshake`
  deriving DecidableEq, Repr, Inhabited

inductive Outcome where
  | connectError (k : ConnKind)
  | handshakeError (k : HandshakeKind)
  | sendError (k : SendKind)
  | readError (k : ReadKind)
  | otherError                                  -- ssl.SSLError while reading → urllib3 SSLError
  | response (status : Nat) (retryAfter : Option Nat)      -- a reply without a `Location` header
  | located (status : Nat) (retryAfter : Option Nat)       -- a reply with `Location: <path on this pool>`
  deriving DecidableEq, Repr, Inhabited

def Outcome.isError : Outcome → Bool
  | .response _ _ => false
  | .located _ _ => false
  | _ => true

/-- did the request go on the wire in this attempt -/
def Outcome.sent : Outcome → Bool
  | .connectError _ => false
  | .handshakeError _ => false
  | _ => true

/-- `bool(response.get_redirect_location())`:
`if self.status in self.REDIRECT_STATUSES: return self.headers.get("location")`, else `False`
(the `Location` value of a `located` reply is a non-empty path) -/
def Outcome.redirectLocation : Outcome → Bool
  | .located st _ => Gen.Redirect.redirectStatuses.contains st
  | _ => false

structure Cfg where
  /-- the pool has a proxy (`conn.proxy` is set) — forwarding and tunnelling behave alike here -/
  proxied : Bool
  deriving DecidableEq, Repr, Inhabited

/-- the exception that leaves the `try` block of `urlopen`, described by exactly the tests the
`except` clause applies to it -/
structure Raised where
  cls : ErrClass            -- class after `if isinstance(e, (BaseSSLError, CertificateError)): new_e = SSLError(e)`
  wrappable : Bool          -- isinstance(new_e, (OSError, NewConnectionError, TimeoutError, SSLError, HTTPException))
  osOrHttp : Bool           -- isinstance(new_e, (OSError, HTTPException))
  /-- `conn.has_connected_to_proxy` is `False` when the handler runs: the socket was never opened.
  (`http.client.HTTPConnection.getresponse` runs `except ConnectionError: self.close()` and
  urllib3's `HTTPConnection.close()` resets `_has_connected_to_proxy`, but
  `urllib3.connection.HTTPConnection.getresponse` restores the flag before re-raising: a reset /
  EOF while waiting for the response leaves it set.) -/
  proxyFlagClear : Bool

def raised : Outcome → Raised
  | .connectError .timeout => ⟨.connectTimeout, true, false, true⟩
  | .connectError .refused => ⟨.newConnection, true, false, true⟩
  -- `except (SocketTimeout, BaseSSLError) as e: self._raise_timeout(...)` (in `_make_request` around
  -- `_validate_conn`, in `urlopen` around `_prepare_proxy`) has replaced the timeout by ReadTimeoutError; behind a
  -- proxy the wrapping happens in `_make_request`'s own handler (forwarding) or in `urlopen`'s (tunnelling) —
  -- `urlopen`'s handler leaves a `ProxyError` alone (it is none of OSError / TimeoutError / SSLError / HTTPException)
  | .handshakeError .timeout => ⟨.readTimeout, true, false, true⟩
  | .handshakeError .reset => ⟨.connectionReset, true, true, true⟩
  -- the socket is open (and `has_connected_to_proxy` set) when `send` fails; `socket.timeout` is an OSError
  | .sendError .timeout => ⟨.socketTimeout, true, true, false⟩
  | .sendError .reset => ⟨.connectionReset, true, true, false⟩       -- raised by `getresponse` after the swallow
  | .sendError .pipe => ⟨.remoteDisconnected, true, true, false⟩     -- raised by `getresponse` after the swallow
  | .readError .timeout => ⟨.readTimeout, true, false, false⟩
  | .readError .reset => ⟨.connectionReset, true, true, false⟩
  | .readError .eof => ⟨.remoteDisconnected, true, true, false⟩
  | .readError .garbage => ⟨.badStatusLine, true, true, false⟩
  | .otherError => ⟨.ssl, true, false, false⟩
  | .response _ _ => ⟨.protocol, false, false, false⟩      -- not an error; never consulted
  | .located _ _ => ⟨.protocol, false, false, false⟩       -- not an error; never consulted

/-- `urlopen`'s handler:
```
if isinstance(new_e, (OSError, NewConnectionError, TimeoutError, SSLError, HTTPException)) and (
        conn and conn.proxy and not conn.has_connected_to_proxy):
    new_e = _wrap_proxy_error(new_e, conn.proxy.scheme)
elif isinstance(new_e, (OSError, HTTPException)):
    new_e = ProtocolError("Connection aborted.", new_e)
``` -/
def translate (cfg : Cfg) (o : Outcome) : Err :=
  let x := raised o
  if x.wrappable && (cfg.proxied && x.proxyFlagClear) then .proxy x.cls
  else if x.osOrHttp then .plain .protocol
  else .plain x.cls

/-- what one attempt asks for: the `method`, `url` and `body` arguments of that `urlopen` entry -/
structure Rq where
  method : Str
  /-- `0`: the caller's URL; `k + 1`: the `Location` of the reply to attempt `k` -/
  target : Nat
  /-- the caller's body is (still) sent -/
  body : Bool
  deriving DecidableEq, Repr, Inhabited

/-- `"GET"` -/
def strGET : Str := [71, 69, 84]

inductive Result where
  /-- `urlopen` returned the reply to attempt `idx` (a script index) — that very response object,
  with whatever the server sent for that attempt still to be read by the caller -/
  | response (idx : Nat) (status : Nat)
  | maxRetry (c : Cause)          -- MaxRetryError with this reason
  | reraised (e : Err)            -- the (translated) error itself
  | outOfScript                   -- the script ended while urlopen wanted another attempt
  deriving DecidableEq, Repr, Inhabited

structure Attempt where
  rq : Rq
  outcome : Outcome
  /-- argument of the `time.sleep` call made after this attempt, if any -/
  sleep : Option Int
  deriving DecidableEq, Repr, Inhabited

structure Run where
  attempts : List Attempt
  result : Result
  deriving DecidableEq, Repr, Inhabited

def Run.outcomes (x : Run) : List Outcome := x.attempts.map (·.outcome)
def Run.sleeps (x : Run) : List Int := x.attempts.filterMap (·.sleep)
/-- requests put on the wire -/
def Run.sent (x : Run) : List Attempt := x.attempts.filter (·.outcome.sent)
/-- the attempts after which `urlopen` went round again -/
def Run.retried (x : Run) : List Attempt :=
  if x.result = .outOfScript then x.attempts else x.attempts.dropLast

def Run.stop (q : Rq) (o : Outcome) (res : Result) : Run := ⟨[⟨q, o, Option.none⟩], res⟩
def Run.cons (q : Rq) (o : Outcome) (s : Option Int) (x : Run) : Run := ⟨⟨q, o, s⟩ :: x.attempts, x.result⟩

/-- the request of the follow-up of a redirect answered in attempt `i`:
```
if response.status == 303:
    method = "GET"; body = None; body_pos = None
    headers = HTTPHeaderDict(headers)._prepare_for_method_change()
...
return self.urlopen(method, redirect_location, body, headers, ...)
``` -/
def redirected (q : Rq) (i : Nat) (status : Nat) : Rq :=
  if status == 303 then ⟨strGET, i + 1, false⟩ else { q with target := i + 1 }

/-- `urlopen` after the `except` clause caught the error of attempt `i` (already translated to
`e`): `retries = retries.increment(method, url, error=new_e)`, `retries.sleep()`, and — `conn` is
`None` now — the "try again" recursion `next` with the same request -/
def onError (r : Retry) (q : Rq) (o : Outcome) (e : Err) (next : Retry → Rq → Run) : Run :=
  match r.increment (some q.method) (.error e) with
  | .error (.maxRetry c) => .stop q o (.maxRetry c)
  | .error (.reraise e') => .stop q o (.reraised e')
  | .ok r' => .cons q o (r'.sleep Option.none) (next r' q)

/-- `urlopen` after attempt `i` received the reply `o` (status `st`, `Retry-After` `ra`): the
redirect branch, then the status-retry branch; `next` is the recursive `urlopen` call -/
def onReply (r : Retry) (redirect : Bool) (q : Rq) (i : Nat) (o : Outcome) (st : Nat) (ra : Option Nat)
    (next : Retry → Rq → Run) : Run :=
  -- `redirect_location = redirect and response.get_redirect_location()`
  if redirect && o.redirectLocation then
    let q' := redirected q i st
    match r.increment (some q'.method) (.redirect st) with
    | .error (.maxRetry c) =>
      if r.raiseOnRedirect then .stop q o (.maxRetry c) else .stop q o (.response i st)
    | .error (.reraise e) => .stop q o (.reraised e)     -- only MaxRetryError is caught
    | .ok r' =>
      -- `response.drain_conn(); retries.sleep_for_retry(response)` — not `sleep`: no backoff, and
      -- `respect_retry_after_header` is not consulted
      .cons q o (Retry.sleepForRetry ⟨st, ra⟩) (next r' q')
  -- `has_retry_after = bool(response.headers.get("Retry-After"))`
  else if r.isRetry q.method st ra.isSome then
    -- `increment(method, url, response=response)` looks at `get_redirect_location()` itself
    match r.increment (some q.method) (if o.redirectLocation then .redirect st else .status st) with
    | .error (.maxRetry c) =>
      if r.raiseOnStatus then .stop q o (.maxRetry c) else .stop q o (.response i st)
    | .error (.reraise e) => .stop q o (.reraised e)     -- only MaxRetryError is caught
    | .ok r' => .cons q o (r'.sleep (some ⟨st, ra⟩)) (next r' q)
  else .stop q o (.response i st)

/-- `urlopen(method, url, body, retries=r, redirect=redirect)` once `retries` is a `Retry`, with
its recursive calls; `i` is the number of attempts made so far (= the script index of the next
outcome), `q` the request of this entry.  Every recursive call hands `redirect` on. -/
def runAttempts (cfg : Cfg) (r : Retry) (redirect : Bool) (q : Rq) (i : Nat) : List Outcome → Run
  | [] => ⟨[], .outOfScript⟩
  | o :: rest =>
    let next (r' : Retry) (q' : Rq) : Run := runAttempts cfg r' redirect q' (i + 1) rest
    match o with
    | .response st ra => onReply r redirect q i o st ra next
    | .located st ra => onReply r redirect q i o st ra next
    | _ => onError r q o (translate cfg o) next

/-- the first lines of `HTTPConnectionPool.urlopen` on a pool whose own `retries` is `dflt`:
```
if not isinstance(retries, Retry):
    retries = Retry.from_int(retries, redirect=redirect, default=self.retries)
``` -/
def policyOf (dflt : Arg) (arg : Arg) (redirect : Bool) : Retry :=
  match arg with
  | .retry r => r
  | a => Retry.fromInt a redirect dflt

/-- `HTTPConnectionPool.urlopen(method, url, body, retries=arg, redirect=redirect)` -/
def urlopen (cfg : Cfg) (dflt : Arg) (arg : Arg) (redirect : Bool) (method : Str) (body : Bool)
    (script : List Outcome) : Run :=
  runAttempts cfg (policyOf dflt arg redirect) redirect ⟨method, 0, body⟩ 0 script

end U3.Retry
