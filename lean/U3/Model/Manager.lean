import U3.Base.Str
import U3.Model.Headers
import U3.Model.Retry
import U3.Gen.Redirect
/-!
# Model of redirect handling: `PoolManager.urlopen`, `ProxyManager.urlopen`, the redirect branch of
`HTTPConnectionPool.urlopen`, `is_same_host`

Transcribed from `src/urllib3/poolmanager.py` (`PoolManager.urlopen` 409-495, `connection_from_host`
276-303, `ProxyManager.connection_from_host/_set_proxy_headers/urlopen` 594-639),
`src/urllib3/connectionpool.py` (`is_same_host` 570-590, `urlopen` 705-749 and 889-926,
`_normalize_host` 1145-1160), `src/urllib3/_request_methods.py` (`request`, `request_encode_url`,
`request_encode_body`), `src/urllib3/response.py` (`get_redirect_location`) and
`src/urllib3/util/proxy.py` (`connection_requires_http_tunnel`), keeping the order of the tests and
Python truthiness.  The retry policy is `U3.Retry` (C04's model of `util/retry.py`); header carriers
are plain `dict`s or `U3.Headers.HD` (C16's model of `HTTPHeaderDict`).

What is *not* modelled here and enters as an oracle value (`World`):
* `parse_url` (C14): `World.parse s` is the parsed form of the string `s` (`none`: the string is
  outside the oracle table — the run stops with the explicit outcome `oracleMissing`);
* `urllib.parse.urljoin`: `World.join base loc`;
* the servers: `World.serve origin method target` is the reply (status, `Location`) — an arbitrary
  function, so redirect graphs with loops are included.

Scope: every connection attempt succeeds (connection errors and status retries are C04's), no
`Retry-After` on replies; a reply on which `Retry.is_retry` would fire ends the run with the explicit
outcome `statusRetry`.  Hosts are ASCII reg-names / IPv4 literals.
-/
namespace U3.Manager
open U3 U3.Headers U3.Retry

/-! ## constants (numeric code points: they take part in kernel evaluation) -/

def sGET : Str := [71, 69, 84]
def sHttp : Str := [104, 116, 116, 112]
def sHttps : Str := [104, 116, 116, 112, 115]
def sAccept : Str := [65, 99, 99, 101, 112, 116]
def sStarStar : Str := [42, 47, 42]
def sHost : Str := [72, 111, 115, 116]

/-! ## header carriers -/

/-- what a caller may pass as `headers=`: a plain `dict` (insertion-ordered association list whose
keys are distinct *as exact strings*) or an `HTTPHeaderDict` -/
inductive Hdrs where
  | dict (ps : List (Str × Str))
  | hd (h : HD)
  deriving Repr, DecidableEq

/-- `d[k] = v` on a plain dict: an existing key keeps its position -/
def dictSet : List (Str × Str) → Str → Str → List (Str × Str)
  | [], k, v => [(k, v)]
  | p :: t, k, v => if p.1 = k then (k, v) :: t else p :: dictSet t k v

namespace Hdrs

/-- `headers.items()` as `HTTPConnection.request` iterates it: the header lines on the wire -/
def items : Hdrs → List (Str × Str)
  | dict ps => ps
  | hd h => iteritems h

/-- `for header in headers` -/
def keys : Hdrs → List Str
  | dict ps => ps.map (·.1)
  | hd h => iterKeys h

/-- `bool(headers)` -/
def truthy : Hdrs → Bool
  | dict ps => !ps.isEmpty
  | hd h => !h.isEmpty

/-- `headers.copy()` -/
def copy : Hdrs → Hdrs
  | dict ps => dict ps
  | hd h => hd (Headers.copy h)

/-- `HTTPHeaderDict(headers)`: `_copy_from` for an `HTTPHeaderDict`, `extend` for a mapping -/
def toHD : Hdrs → HD
  | dict ps => extend [] ps
  | hd h => Headers.copy h

/-- `headers.pop(k, None)`: exact key for a `dict`, case-insensitive for an `HTTPHeaderDict`
(`MutableMapping.pop`: `self[key]`, then `del self[key]`) -/
def popD : Hdrs → Str → Hdrs
  | dict ps, k => dict (ps.filter (fun p => !(p.1 == k)))
  | hd h, k => hd (discard h k)

/-- `headers.update(d)` for a plain dict `d`: `dict.update` / `MutableMapping.update` (`self[k] = v`) -/
def updateDict : Hdrs → List (Str × Str) → Hdrs
  | dict ps, src => dict (src.foldl (fun d p => dictSet d p.1 p.2) ps)
  | hd h, src => hd (Headers.update h src)

/-- the pairs `dict.update(headers)` visits: `keys()` and `headers[k]` (merged values for an
`HTTPHeaderDict`) -/
def mappingPairs : Hdrs → List (Str × Str)
  | dict ps => ps
  | hd h => itermerged h

end Hdrs


/-- `headers or {}` in `RequestMethods.__init__` -/
def headersOrEmpty : Option Hdrs → Hdrs
  | some h => if h.truthy then h else .dict []
  | none => .dict []

/-- the strip loop of `PoolManager.urlopen`:
```
new_headers = kw["headers"].copy()
for header in kw["headers"]:
    if header.lower() in retries.remove_headers_on_redirect:
        new_headers.pop(header, None)
``` -/
def strip (remove : List Str) (h : Hdrs) : Hdrs :=
  h.keys.foldl (fun acc k => if remove.contains (lower k) then acc.popD k else acc) h.copy

/-- `HTTPHeaderDict(headers)._prepare_for_method_change()` -/
def methodChange (h : Hdrs) : Hdrs := .hd (prepareForMethodChange h.toHD)

/-! ## URLs, origins, pools -/

/-- the result of `parse_url(s)` as far as this code looks at it (oracle values) -/
structure PUrl where
  scheme : Option Str
  host : Option Str
  port : Option Nat
  requestUri : Str          -- `.request_uri`
  url : Str                 -- `.url`
  netloc : Option Str       -- `.netloc`
  /-- what `HTTPConnectionPool.urlopen` puts on the request line for this string:
  `_encode_target(s)` when `s` starts with `/`, else `.url` -/
  target : Str
  deriving Repr, DecidableEq

/-- a server as the network sees it: TLS or not, dial host, dial port -/
structure Origin where
  scheme : Str
  host : Str
  port : Nat
  deriving Repr, DecidableEq

/-- `(pool.scheme, pool.host, pool.port)` -/
structure PoolId where
  scheme : Str
  host : Str
  port : Option Nat
  deriving Repr, DecidableEq

/-- `port_by_scheme.get(scheme)` -/
def portOf (scheme : Str) : Option Nat :=
  (Gen.Redirect.portByScheme.find? (fun p => p.1 == scheme)).map (·.2)

/-- truthiness of a port (`None` and `0` are falsy) -/
def truthyPort : Option Nat → Bool
  | some n => n != 0
  | none => false

/-- truthiness of an optional string -/
def truthyStr : Option Str → Bool
  | some s => !s.isEmpty
  | none => false

def startsWithSlash (s : Str) : Bool := s.head? == some 47
/-- `url.startswith("//")` -/
def startsWithSlashSlash (s : Str) : Bool := s.take 2 == [47, 47]
/-- `url.startswith("/") and not url.startswith("//")`: a path-only request target (a
scheme-relative reference `//host/path` names a host and is not one) -/
def pathOnly (s : Str) : Bool := startsWithSlash s && !startsWithSlashSlash s

/-- `connectionpool._normalize_host(host, scheme)` on ASCII reg-names / IPv4 literals:
`util.url._normalize_host` lower-cases for the schemes `http`, `https` (`_idna_encode` of an ASCII
label is `.lower()`), then a bracket pair is removed -/
def normalizeHost (host : Str) (scheme : Str) : Str :=
  let h := if scheme = sHttp ∨ scheme = sHttps then lower host else host
  if h.head? == some 91 ∧ h.getLast? == some 93 then (h.drop 1).dropLast else h

/-- `HTTPConnectionPool.is_same_host(url)`; `pu` is `parse_url(url)` -/
def isSameHost (p : PoolId) (url : Str) (pu : PUrl) : Bool :=
  if pathOnly url then true
  else
    let scheme := if truthyStr pu.scheme then pu.scheme.getD [] else sHttp        -- `scheme or "http"`
    let host := pu.host.map (fun h => normalizeHost h scheme)
    let port :=
      if truthyPort p.port && !truthyPort pu.port then portOf scheme
      else if !truthyPort p.port && pu.port == portOf scheme then none
      else pu.port
    scheme == p.scheme && host == some p.host && port == p.port

/-- the server a pool's connections dial when there is no proxy -/
def PoolId.origin (p : PoolId) : Origin :=
  ⟨p.scheme, p.host, match p.port with
    | some n => n
    | none => (portOf p.scheme).getD Gen.Redirect.fallbackPort⟩

/-- the origin an absolute URL names -/
def PUrl.origin (u : PUrl) : Origin :=
  let scheme := if truthyStr u.scheme then u.scheme.getD [] else sHttp
  ⟨scheme, u.host.getD [], if truthyPort u.port then u.port.getD 0 else (portOf scheme).getD Gen.Redirect.fallbackPort⟩

structure Proxy where
  scheme : Str
  host : Str
  port : Nat                                   -- `ProxyManager.__init__` fills in the default port
  headers : List (Str × Str)                   -- `proxy_headers or {}` (a plain dict)
  forwardHttps : Bool                          -- `use_forwarding_for_https`
  deriving Repr, DecidableEq

/-- `connection_requires_http_tunnel(proxy, proxy_config, destination_scheme)` -/
def requiresTunnel (proxy : Option Proxy) (destScheme : Option Str) : Bool :=
  match proxy with
  | none => false
  | some px =>
    if destScheme == some sHttp then false
    else if px.scheme == sHttps && px.forwardHttps then false
    else true

structure Pool where
  id : PoolId
  retries : Arg                                -- `HTTPConnectionPool(retries=…)`
  headers : Hdrs                               -- `headers or {}`
  proxy : Option Proxy
  deriving Repr

/-- `HTTPConnectionPool(host, port, retries=…, headers=…)` / `HTTPSConnectionPool(…)`:
`ConnectionPool.__init__` stores `_normalize_host(host, scheme=self.scheme)` -/
def Pool.ofCtor (scheme host : Str) (port : Option Nat) (retries : Arg) (headers : Option Hdrs) : Pool :=
  ⟨⟨scheme, normalizeHost host scheme, port⟩, retries, headersOrEmpty headers, none⟩

/-! ## the world: servers and the URL oracles -/

structure Reply where
  status : Nat
  location : Option Str                        -- `response.headers.get("location")`
  deriving Repr, DecidableEq

/-- the *truthy* values of `response.get_redirect_location()` -/
def Reply.redirectLocation (r : Reply) : Option Str :=
  if Gen.Redirect.redirectStatuses.contains r.status then
    match r.location with
    | some l => if l.isEmpty then none else some l
    | none => none
  else none

structure World where
  serve : Origin → Str → Str → Reply           -- origin, method, target as the origin sees it
  parse : Str → Option PUrl
  join : Str → Str → Option Str

/-! ## results -/

/-- one request as it reaches a server -/
structure Sent where
  dial : Origin                                -- the socket peer: the origin itself or the proxy
  tunnel : Bool                                -- sent inside a CONNECT tunnel
  dest : Origin                                -- the origin that answers
  url : Str                                    -- the `url` argument of the `urlopen` call that sent it
  method : Str
  target : Str                                 -- request-line target
  headers : List (Str × Str)                   -- the header lines the caller's mapping produced
  body : Option Bytes
  reply : Reply
  deriving Repr, DecidableEq

inductive Outcome where
  | response (r : Reply)                       -- the call returns this response
  | maxRetry                                   -- MaxRetryError (reason: too many redirects)
  | hostChanged                                -- HostChangedError
  | locationValue                              -- LocationValueError("No host specified.")
  | schemeUnknown                              -- URLSchemeUnknown / KeyError for a non-http(s) scheme
  | reraised                                   -- `increment` re-raised (unreachable without errors)
  | statusRetry                                -- `Retry.is_retry` fired: outside this model (C04)
  | oracleMissing                              -- a string outside the `parse` / `join` tables
  | outOfFuel
  deriving Repr, DecidableEq

structure Run where
  log : List Sent
  outcome : Outcome
  deriving Repr, DecidableEq

def Run.cons (s : Sent) (r : Run) : Run := ⟨s :: r.log, r.outcome⟩
def Run.append (l : List Sent) (r : Run) : Run := ⟨l ++ r.log, r.outcome⟩
/-- the manager records the URL *it* was asked for (the pool only sees the request target) -/
def Run.withUrl (r : Run) (url : Str) : Run := ⟨r.log.map (fun s => { s with url := url }), r.outcome⟩
/-- redirects followed: every request after the first was caused by one -/
def Run.followed (r : Run) : Nat := r.log.length - 1

/-! ## `HTTPConnectionPool.urlopen` -/

/-- `if not isinstance(retries, Retry): retries = Retry.from_int(retries, redirect, default)` -/
def deriveRetry (a : Arg) (redirect : Bool) (dflt : Arg) : Retry :=
  match a with
  | .retry r => r
  | a => Retry.fromInt a redirect dflt

/-- the 303 rewrite shared by both redirect branches:
```
if response.status == 303:
    method = "GET"; body = None
    headers = HTTPHeaderDict(headers)._prepare_for_method_change()
``` -/
def rewrite303 (status : Nat) (method : Str) (body : Option Bytes) (headers : Hdrs) :
    Str × Option Bytes × Hdrs :=
  if Gen.Redirect.methodRewriteStatuses.contains status then (sGET, none, methodChange headers)
  else (method, body, headers)

/-- one pass through `urlopen` up to and including the response (lines 705-803): the request that
goes out, the `Retry` in force and the (proxy-merged) headers variable -/
def poolAttempt (W : World) (p : Pool) (method url : Str) (body : Option Bytes)
    (headers : Option Hdrs) (retries : Arg) (redirect assertSameHost : Bool) :
    Except Outcome (Sent × Retry × Hdrs) :=
  match W.parse url with
  | none => .error .oracleMissing
  | some pu =>
    let headers := headers.getD p.headers                        -- `if headers is None`
    let retries := deriveRetry retries redirect p.retries
    if assertSameHost && !isSameHost p.id url pu then .error .hostChanged
    else
      let tunnel := requiresTunnel p.proxy pu.scheme
      -- `if not http_tunnel_required: headers = headers.copy(); headers.update(self.proxy_headers)`
      let headers := if tunnel then headers
        else headers.copy.updateDict (match p.proxy with | some px => px.headers | none => [])
      let dial : Origin := match p.proxy with
        | some px => ⟨px.scheme, px.host, px.port⟩
        | none => p.id.origin
      -- a forwarding proxy relays an absolute-form request to the origin it names
      let forwarded := p.proxy.isSome && !tunnel && !startsWithSlash url
      let dest : Origin := if forwarded then pu.origin else p.id.origin
      let reply := W.serve dest method (if forwarded then pu.requestUri else pu.target)
      .ok (⟨dial, tunnel, dest, url, method, pu.target, headers.items, body, reply⟩, retries, headers)

/-- `except MaxRetryError: if retries.raise_on_redirect: response.drain_conn(); raise` / `return response` -/
def onExhausted (raiseOnRedirect : Bool) (log : List Sent) (response : Run) : Run :=
  if raiseOnRedirect then ⟨log, .maxRetry⟩ else response

/-- the tail of `HTTPConnectionPool.urlopen` for a reply that is not followed:
`has_retry_after = bool(response.headers.get("Retry-After"))` is `False` in this model; when
`retries.is_retry(method, status, False)` fires the run leaves the model (C04) -/
def notFollowed (retries : Retry) (method : Str) (sent : Sent) : Run :=
  if retries.isRetry method sent.reply.status false then ⟨[sent], .statusRetry⟩
  else ⟨[sent], .response sent.reply⟩

/-- what one pass through `urlopen` ends in: a result, or the recursive call of the redirect branch -/
inductive PoolStep where
  | done (r : Run)
  | next (sent : Sent) (method url : Str) (body : Option Bytes) (headers : Hdrs) (retries : Retry)

/-- one pass through `HTTPConnectionPool.urlopen` including the redirect branch (lines 889-926) -/
def poolStep (W : World) (p : Pool) (method url : Str) (body : Option Bytes) (headers : Option Hdrs)
    (retries : Arg) (redirect assertSameHost : Bool) : PoolStep :=
  match poolAttempt W p method url body headers retries redirect assertSameHost with
  | .error o => .done ⟨[], o⟩
  | .ok (sent, retries, headers) =>
    -- `redirect_location = redirect and response.get_redirect_location()`
    match (if redirect then sent.reply.redirectLocation else none) with
    | some loc =>
      let rw := rewrite303 sent.reply.status method body headers       -- (method, body, headers)
      match retries.increment (some rw.1) (.redirect sent.reply.status) with
      | .error (.maxRetry _) =>
        .done (onExhausted retries.raiseOnRedirect [sent] ⟨[sent], .response sent.reply⟩)
      | .error (.reraise _) => .done ⟨[sent], .reraised⟩
      | .ok r' => .next sent rw.1 loc rw.2.1 rw.2.2 r'
    | none => .done (notFollowed retries method sent)

/-- `HTTPConnectionPool.urlopen` with its recursive calls
`self.urlopen(method, redirect_location, body, headers, retries=retries, redirect=redirect,
assert_same_host=assert_same_host, …)` -/
def poolUrlopen (W : World) (p : Pool) : Nat → Str → Str → Option Bytes → Option Hdrs → Arg →
    Bool → Bool → Run
  | 0, _, _, _, _, _, _, _ => ⟨[], .outOfFuel⟩
  | fuel + 1, method, url, body, headers, retries, redirect, assertSameHost =>
    match poolStep W p method url body headers retries redirect assertSameHost with
    | .done r => r
    | .next sent method' url' body' headers' r' =>
      (poolUrlopen W p fuel method' url' body' (some headers') (.retry r') redirect assertSameHost).cons sent

/-! ## `PoolManager` / `ProxyManager` -/

structure Mgr where
  retries : Arg                                -- `connection_pool_kw.get("retries")`
  headers : Hdrs                               -- `self.headers` (`headers or {}`)
  proxy : Option Proxy                         -- `ProxyManager`
  deriving Repr

/-- the keyword arguments `PoolManager.urlopen` threads through its recursion -/
structure Kw where
  body : Option Bytes
  headers : Option Hdrs                        -- `none`: no `headers` key
  retries : Arg                                -- `kw.get("retries")`
  deriving Repr

/-- the pool the manager creates for `(scheme, host, port)` from its `connection_pool_kw` -/
def Mgr.mkPool (m : Mgr) (scheme host : Str) (port : Nat) : Pool :=
  ⟨⟨scheme, normalizeHost host scheme, some port⟩, m.retries, .dict [], m.proxy⟩

/-- `PoolManager.connection_from_host(host, port, scheme)` -/
def pmConnectionFromHost (m : Mgr) (host : Option Str) (port : Option Nat) (scheme : Option Str) :
    Except Outcome Pool :=
  if !truthyStr host then .error .locationValue
  else
    let scheme := if truthyStr scheme then scheme.getD [] else sHttp              -- `scheme or "http"`
    let port := if truthyPort port then port.getD 0
      else (portOf (lower scheme)).getD Gen.Redirect.fallbackPort                          -- `if not port`
    if scheme = sHttp ∨ scheme = sHttps then .ok (m.mkPool scheme (host.getD []) port)
    else .error .schemeUnknown

/-- `ProxyManager.connection_from_host`: `https` goes to the origin's pool (tunnel), everything
else to the proxy's own pool -/
def connectionFromHost (m : Mgr) (host : Option Str) (port : Option Nat) (scheme : Option Str) :
    Except Outcome Pool :=
  match m.proxy with
  | none => pmConnectionFromHost m host port scheme
  | some px =>
    if scheme == some sHttps then pmConnectionFromHost m host port scheme
    else pmConnectionFromHost m (some px.host) (some px.port) (some px.scheme)

/-- `ProxyManager._set_proxy_headers(url, headers)` (always a fresh plain dict) -/
def setProxyHeaders (netloc : Option Str) (headers : Option Hdrs) : List (Str × Str) :=
  let h0 : List (Str × Str) := [(sAccept, sStarStar)]
  let h1 := if truthyStr netloc then dictSet h0 sHost (netloc.getD []) else h0
  match headers with
  | some h => if h.truthy then h.mappingPairs.foldl (fun d p => dictSet d p.1 p.2) h1 else h1
  | none => h1

/-- what one pass through `PoolManager.urlopen` ends in: a result, or the recursive call
`self.urlopen(method, redirect_location, **kw)` -/
inductive MgrStep where
  | done (r : Run)
  | next (log : List Sent) (method url : Str) (kw : Kw)

/-- the prefix `ProxyManager.urlopen` puts before `PoolManager.urlopen`:
```
if not connection_requires_http_tunnel(self.proxy, self.proxy_config, u.scheme):
    headers = kw.get("headers", self.headers)
    kw["headers"] = self._set_proxy_headers(url, headers)
``` -/
def proxyKw (m : Mgr) (u : PUrl) (kw : Kw) : Kw :=
  match m.proxy with
  | some _ =>
    if !requiresTunnel m.proxy u.scheme then
      { kw with headers := some (.dict (setProxyHeaders u.netloc (some (kw.headers.getD m.headers)))) }
    else kw
  | none => kw

/-- the request of one pass:
```
kw["assert_same_host"] = False; kw["redirect"] = False
if "headers" not in kw: kw["headers"] = self.headers
response = conn.urlopen(method, url if self._proxy_requires_url_absolute_form(u) else u.request_uri, **kw)
```
(with `redirect=False` the pool call is a single pass) -/
def mgrSend (W : World) (m : Mgr) (conn : Pool) (u : PUrl) (method url : Str) (kw : Kw) : Run :=
  let absolute := m.proxy.isSome && !requiresTunnel m.proxy u.scheme
  (poolUrlopen W conn 1 method (if absolute then url else u.requestUri) kw.body
    (some (kw.headers.getD m.headers)) kw.retries false false).withUrl url

/-- the redirect decision of one pass, given the response and its truthy `Location` (lines 449-495);
`m` is consulted for `self.connection_pool_kw.get("retries")` only -/
def mgrRedirect (W : World) (m : Mgr) (conn : Pool) (method url : Str) (redirect : Bool) (headers : Hdrs)
    (kw : Kw) (first : Run) (reply : Reply) (loc : Str) : MgrStep :=
  match W.join url loc with                                  -- `urljoin(url, redirect_location)`
  | none => .done ⟨first.log, .oracleMissing⟩
  | some loc' =>
    let rw := rewrite303 reply.status method kw.body headers         -- (method, body, headers)
    -- `retries = kw.get("retries"); if not isinstance(retries, Retry): from_int(retries, redirect=redirect,
    --  default=self.connection_pool_kw.get("retries"))`
    let retries := deriveRetry kw.retries redirect m.retries
    -- `if retries.remove_headers_on_redirect and not conn.is_same_host(redirect_location)`
    let same : Option Bool :=
      if retries.removeHeadersOnRedirect.isEmpty then some true
      else (W.parse loc').map (isSameHost conn.id loc')
    match same with
    | none => .done ⟨first.log, .oracleMissing⟩
    | some same =>
      let headers' := if same then rw.2.2 else strip retries.removeHeadersOnRedirect rw.2.2
      match retries.increment (some rw.1) (.redirect reply.status) with
      | .error (.maxRetry _) => .done (onExhausted retries.raiseOnRedirect first.log first)
      | .error (.reraise _) => .done ⟨first.log, .reraised⟩
      | .ok r' =>
        -- `kw["retries"] = retries; kw["redirect"] = redirect; return self.urlopen(method, redirect_location, **kw)`
        .next first.log rw.1 loc' ⟨rw.2.1, some headers', .retry r'⟩

/-- one pass through `PoolManager.urlopen` (entered through `ProxyManager.urlopen` when there is a
proxy) -/
def mgrStep (W : World) (m : Mgr) (method url : Str) (redirect : Bool) (kw : Kw) : MgrStep :=
  match W.parse url with
  | none => .done ⟨[], .oracleMissing⟩
  | some u =>
    let kw := proxyKw m u kw
    match connectionFromHost m u.host u.port u.scheme with
    | .error o => .done ⟨[], o⟩
    | .ok conn =>
      let first := mgrSend W m conn u method url kw
      match first.outcome with
      | .response reply =>
        -- `redirect_location = redirect and response.get_redirect_location()`
        match (if redirect then reply.redirectLocation else none) with
        | none => .done first
        | some loc => mgrRedirect W m conn method url redirect (kw.headers.getD m.headers) kw first reply loc
      | _ => .done first                                        -- the pool call raised

/-- `PoolManager.urlopen` with its recursive calls -/
def mgrUrlopen (W : World) (m : Mgr) : Nat → Str → Str → Bool → Kw → Run
  | 0, _, _, _, _ => ⟨[], .outOfFuel⟩
  | fuel + 1, method, url, redirect, kw =>
    match mgrStep W m method url redirect kw with
    | .done r => r
    | .next log method' url' kw' => (mgrUrlopen W m fuel method' url' redirect kw').append log

/-! ## entry points -/

inductive Client where
  | manager (m : Mgr)
  | pool (p : Pool)
  deriving Repr

/-- one call by the user -/
structure Req where
  viaRequest : Bool                            -- `.request(...)` rather than `.urlopen(...)`
  method : Str
  url : Str
  body : Option Bytes
  headers : Option Hdrs                        -- `headers=` (`none`: not passed)
  retries : Arg                                -- `retries=` (`Arg.none`: `None` / not passed)
  redirect : Option Bool                       -- `redirect=` (`none`: not passed, default `True`)
  assertSameHost : Option Bool                 -- bare pool only (default `True`)
  deriving Repr

def Client.headers : Client → Hdrs
  | .manager m => m.headers
  | .pool p => p.headers

/-- `RequestMethods.request` → `request_encode_url` / `request_encode_body` without `fields`/`json`:
the method is upper-cased; `headers` defaults to `self.headers` and, for the body-encoding methods,
is wrapped in an `HTTPHeaderDict` -/
def requestWrap (c : Client) (req : Req) : Str × Option Hdrs :=
  if req.viaRequest then
    let method := upper req.method
    let headers := req.headers.getD c.headers
    if Gen.Redirect.encodeUrlMethods.contains method then (method, some headers)
    else (method, some (.hd headers.toHD))
  else (req.method, req.headers)

def run (W : World) (c : Client) (fuel : Nat) (req : Req) : Run :=
  let (method, headers) := requestWrap c req
  let redirect := req.redirect.getD true
  match c with
  | .manager m => mgrUrlopen W m fuel method req.url redirect ⟨req.body, headers, req.retries⟩
  | .pool p =>
    poolUrlopen W p fuel method req.url req.body headers req.retries redirect
      (req.assertSameHost.getD true)

/-! ## the policy in effect -/

/-- the `Retry` the code consults for the first redirect decision of a call: the pool falls back to
its own default, `PoolManager.urlopen` to the `retries` of its `connection_pool_kw` -/
def effective (c : Client) (req : Req) : Retry :=
  let redirect := req.redirect.getD true
  match c with
  | .manager m => deriveRetry req.retries redirect m.retries
  | .pool p => deriveRetry req.retries redirect p.retries

/-- the policy the caller *supplied*: per request if given, else the one of the pool / manager
constructor -/
def supplied (c : Client) (req : Req) : Retry :=
  let redirect := req.redirect.getD true
  match c with
  | .manager m => deriveRetry req.retries redirect m.retries
  | .pool p => deriveRetry req.retries redirect p.retries

/-- redirects a counter still pays for (`none`: unbounded) -/
def _root_.U3.Retry.Retry.redirectBudget (r : Retry) : Option Nat := r.redirect.budget
def _root_.U3.Retry.Retry.totalBudget (r : Retry) : Option Nat := r.total.budget

end U3.Manager
