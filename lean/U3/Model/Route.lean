import U3.Base.Str
import U3.Model.Url
import U3.Model.Wire
import U3.Model.PoolKey
/-!
# From a URL to what goes on the wire (C15)

Composition of the already delivered models along the four derivations the code makes from one URL:

```
parse_url ─► PoolManager.urlopen ─► (Proxy)Manager.connection_from_host ─► key normaliser   (U3.PoolKey)
                     │                          └► pool class (host, port)  ─► ConnectionPool.__init__:
                     │                               self.host = _normalize_host(host)   (brackets stripped)
                     │                               self._tunnel_host = normalize_host(host).lower()
                     │                          ─► HTTP(S)ConnectionPool._new_conn ─► HTTPConnection(host, port)
                     │                               `_dns_host` is dialled (create_connection strips `[]`)
                     │                               `host` (getter: rstrip('.')) is used for Host / SNI
                     │                          ─► tunnel: set_tunnel(_tunnel_host, port) / CONNECT; the request
                     │                               inside computes `Host` from `_tunnel_host` without brackets
                     │                          ─► TLS: server_hostname normalisation
                     └► target: u.request_uri (origin form, re-encoded by the pool) or the absolute URL
                        ─► HTTPConnection.request ─► http.client.putrequest (Host header)   (U3.Wire)
```

Sources: `poolmanager.py` (`PoolManager.urlopen`, `connection_from_host`, `ProxyManager.__init__/
connection_from_host/_set_proxy_headers/urlopen`), `connectionpool.py` (`ConnectionPool.__init__`,
`_normalize_host`, `HTTPConnectionPool._new_conn/urlopen`, `HTTPSConnectionPool._new_conn/
_prepare_proxy`), `connection.py` (`HTTPConnection.host`, `_new_conn`, `HTTPSConnection.connect`,
`_connect_tls_proxy`, `_ssl_wrap_socket_and_match_hostname`), `util/connection.py`
(`create_connection`), `util/proxy.py`, `util/ssl_.py` (`is_ipaddress`), CPython 3.12.1
`http.client` (`set_tunnel`, `_tunnel`, `putrequest`) and `encodings/idna.py` (ASCII fast path).

The manager is the one the harness builds: `PoolManager(**extra)` / `ProxyManager(proxy_url,
use_forwarding_for_https=…, **extra)` with empty default headers and empty proxy headers; every
request is `GET` without body.  What is *not* modelled is an explicit error (`Exc.unmodelled`):
URLs whose scheme is neither `http` nor `https` through a proxy, non-ASCII hosts reaching the
socket layer (cannot happen after `parse_url`, whose IDNA step yields ASCII).
-/
namespace U3.Route
open U3

def http : Str := [104, 116, 116, 112]
def https : Str := [104, 116, 116, 112, 115]

inductive Exc
  | locationParseError      -- `parse_url`, `_idna_encode`, `create_connection`'s idna check
  | locationValueError      -- "No host specified."
  | urlSchemeUnknown
  | proxySchemeUnknown
  | protocolError           -- `http.client.InvalidURL` raised inside `urlopen` → `ProtocolError`
  | unicodeError            -- `_tunnel_host.encode("idna")` in `set_tunnel`
  | keyError | typeError | attributeError     -- classes of the key normaliser (kept explicit)
  | wire (e : Wire.Exc)     -- any other failure of the request serializer
  | unmodelled
deriving DecidableEq, Repr

def ofKeyExc : PoolKey.Exc → Exc
  | .keyError => .keyError
  | .attributeError => .attributeError
  | .typeError => .typeError
  | .locationValueError => .locationValueError
  | .urlSchemeUnknown => .urlSchemeUnknown

/-- an exception of `HTTPConnection.request` as it leaves `HTTPConnectionPool.urlopen(retries=False)`:
`InvalidURL` is an `HTTPException`, which `urlopen` wraps into `ProtocolError` -/
def ofWireExc : Wire.Exc → Exc
  | .invalidURL => .protocolError
  | e => .wire e

/-! ## small string functions -/

/-- `s.rstrip(".")` -/
def rstripDot (s : Str) : Str := (s.reverse.dropWhile (· == 46)).reverse

def isBr (c : Nat) : Bool := c == 91 || c == 93

/-- `s.strip("[]")` -/
def stripBr (s : Str) : Str := ((s.dropWhile isBr).reverse.dropWhile isBr).reverse

/-- connectionpool `_normalize_host`, second half:
`if host and host.startswith("[") and host.endswith("]"): host = host[1:-1]` -/
def unbracket (h : Str) : Str :=
  if h.head? = some 91 && h.getLast? = some 93 then h.tail.dropLast else h

/-- `parsed_url._replace(auth=None, fragment=None).url`: the absolute-form request target
`HTTPConnectionPool.urlopen` sends — the URL without userinfo and fragment -/
def absTarget (u : Url.Url) : Str := ({ u with auth := none, fragment := none } : Url.Url).render

/-- `s[: s.rfind("%")]` when `"%" in s` -/
def cutLastPct (s : Str) : Str :=
  match Url.rpart 37 s with
  | some (a, _) => a
  | none => s

/-- `util.ssl_.is_ipaddress`: `_IPV4_RE.match(h) or _BRACELESS_IPV6_ADDRZ_RE.match(h)` (both end in
`$`, which tolerates one final newline) -/
def isIpAddress (h : Str) : Bool := Url.ipv4Match h || Url.bracketOk (Url.stripNl h)

/-- the `server_hostname` normalisation of `_ssl_wrap_socket_and_match_hostname` -/
def sniNorm (sh : Str) : Str :=
  let n := stripBr sh
  let n := if n.contains 37 then cutLastPct n else n
  if isIpAddress n then n else sh

/-- `encodings.idna.Codec.encode` on an ASCII `str`: every label but the last has 1…63 characters,
the last fewer than 64 -/
def idnaCodecOk (h : Str) : Bool :=
  let labels := splitOn1 46 h
  labels.dropLast.all (fun l => decide (0 < l.length) && decide (l.length < 64)) &&
    (match labels.getLast? with | some l => decide (l.length < 64) | none => true)

/-- `port_by_scheme[…]` as used for `HTTPConnection.default_port` / `HTTPSConnection.default_port` -/
def classDefaultPort (isHttps : Bool) : Option Nat :=
  List.lookup (if isHttps then https else http) Gen.portByScheme

/-! ## pools and connections -/

/-- what `ConnectionPool.__init__` derives from `(host, port)` -/
structure Pool where
  isHttps : Bool
  host : Str            -- `self.host`
  port : Nat            -- `self.port`
  tunnelHost : Str      -- `self._tunnel_host`
deriving DecidableEq, Repr

/-- `normalize_host(host, scheme)` applied by the pool to the (already normalised) host it is given -/
def renorm (idna : Str → Option Str) (host scheme : Str) : Except Exc Str :=
  match Url.normalizeHost idna (some host) (some scheme) with
  | .ok (some h) => .ok h
  | .ok none => .error .unmodelled
  | .error _ => .error .locationParseError

/-- `pool_classes_by_scheme[scheme](host, port, …)` -/
def newPool (idna : Str → Option Str) (scheme host : Str) (port : Nat) : Except Exc Pool :=
  match renorm idna host scheme with
  | .error e => .error e
  | .ok h => .ok ⟨scheme == https, unbracket h, port, lower h⟩

/-- `self.proxy` / `self.proxy_config` of a `ProxyManager` -/
structure ProxyCfg where
  scheme : Str
  host : Option Str     -- `proxy.host` as parsed (an IPv6 literal keeps its brackets)
  port : Nat            -- after `port_by_scheme` defaulting
  fwdHttps : Bool       -- `use_forwarding_for_https`
deriving DecidableEq, Repr

/-- `ProxyManager.__init__(proxy_url, use_forwarding_for_https=fwd)` -/
def mkProxy (idna : Str → Option Str) (proxyUrl : Str) (fwd : Bool) : Except Exc ProxyCfg :=
  match Url.parseUrlWith idna proxyUrl with
  | .error _ => .error .locationParseError
  | .ok p =>
    match p.scheme with
    | some s =>
      if s = http ∨ s = https then
        let dflt := (List.lookup s Gen.portByScheme).getD 80
        -- `if not proxy.port: port = port_by_scheme.get(proxy.scheme, 80)`
        let port := match p.port with
          | some n => if n ≠ 0 then n else dflt
          | none => dflt
        .ok ⟨s, p.host, port, fwd⟩
      else .error .proxySchemeUnknown
    | none => .error .proxySchemeUnknown

/-- `connection_requires_http_tunnel(proxy, proxy_config, destination_scheme)` -/
def requiresTunnel (proxy : Option ProxyCfg) (dest : Option Str) : Bool :=
  match proxy with
  | none => false
  | some p =>
    if dest = some http then false
    else if p.scheme = https && p.fwdHttps then false
    else true

structure Mgr where
  proxy : Option ProxyCfg
  pk : PoolKey.Mgr
  pools : List Pool             -- by pool identity (order of creation)

/-- the `connection_pool_kw` of the manager: the caller's `extra` plus what `ProxyManager.__init__`
adds (`_proxy`, `_proxy_config` are hashable named tuples: opaque objects; `_proxy_headers = {}`) -/
def defaultsOf (proxy : Option ProxyCfg) (extra : PoolKey.Ctx) : PoolKey.Ctx :=
  match proxy with
  | none => extra
  | some _ => extra ++ [(lit "_proxy", .obj 1000), (lit "_proxy_headers", .dict []), (lit "_proxy_config", .obj 1001)]

def Mgr.init (proxy : Option ProxyCfg) (extra : PoolKey.Ctx) : Mgr :=
  ⟨proxy, PoolKey.Mgr.init (defaultsOf proxy extra), []⟩

/-- what is observed for one request -/
structure Route where
  pool : Nat                    -- identity of the pool that served the request
  poolKey : PoolKey.Key
  dialHost : Str                -- address handed to `socket.connect` by the carrying connection
  dialPort : Nat
  tls : List Str                -- `server_hostname` of every TLS handshake on that socket, in order
  connect : Option Bytes        -- the CONNECT request, when the connection is a tunnel
  target : Str
  hostHeader : List Bytes       -- values of the `Host` lines of the request
  request : Bytes               -- the request as written (request line … blank line)
  kwHeaders : List (Str × Str)  -- `kw["headers"]` as handed to the pool (and on to a redirect follow-up)
deriving DecidableEq, Repr

def portVal : Option Nat → PoolKey.Val
  | some p => .int p
  | none => .none

/-- `create_connection((host, port))` up to `socket.connect`: brackets stripped, the idna-codec
sanity check, name resolution is an echo -/
def dial (dnsHost : Str) (port : Nat) : Except Exc (Str × Nat) :=
  let host := if dnsHost.head? = some 91 then stripBr dnsHost else dnsHost
  if !host.all (· < 128) then .error .unmodelled
  else if !idnaCodecOk host then .error .locationParseError
  else .ok (host, port)

def crlf : Bytes := [13, 10]

/-- `http.client._tunnel`: `CONNECT host:port HTTP/1.1` + the `Host` header `set_tunnel` generated -/
def connectBytes (tunnelHost : Str) (port : Nat) : Bytes :=
  lit "CONNECT " ++ tunnelHost ++ [58] ++ Wire.toDec port ++ lit " HTTP/1.1" ++ crlf ++
  lit "Host: " ++ tunnelHost ++ [58] ++ Wire.toDec port ++ crlf ++ crlf

def methodGet : Str := [71, 69, 84]

/-- `HTTPConnection.request(method, url, headers=…)` as in `Wire.prepare`, minus its first test (the
`_validate_host` of `HTTPConnection.__init__`, which concerns the host the connection was *built*
for — inside a tunnel that is the proxy, while `Cfg.host` is the tunnel host `putrequest` uses:
`_tunnel_host` with one enclosing pair of brackets removed) -/
def prepareNoValidate (cfg : Wire.Cfg) (meth url : Str) (headers : List (Str × Str)) :
    Except Wire.Exc Wire.Prepared :=
  match Wire.putrequest cfg meth url ((Wire.headerKeys headers).contains (lit "host"))
          ((Wire.headerKeys headers).contains (lit "accept-encoding")) with
  | .error e => .error e
  | .ok l0 =>
    match Wire.bodyToChunks .none meth cfg.blocksize with
    | .error e => .error e
    | .ok cc =>
      match Wire.framing (Wire.headerKeys headers) false cc.chunks cc.contentLength with
      | .error e => .error e
      | .ok fr =>
        match (if (Wire.headerKeys headers).contains (lit "user-agent") then .ok []
               else Wire.putheader (lit "User-Agent") Gen.defaultUserAgent) with
        | .error e => .error e
        | .ok ua =>
          match Wire.putCallerHeaders headers with
          | .error e => .error e
          | .ok hs => .ok ⟨l0.1, l0.2 ++ fr.lines ++ ua ++ hs, fr.chunked, cc.chunks, cc.after⟩

/-- the bytes `request` writes for a prepared body-less request -/
def writtenOf (p : Wire.Prepared) : Bytes := Wire.headBytes p.lines ++ (Wire.bodyPhase p).written

/-- `d[k] = v` on an insertion-ordered `dict[str, str]` (keys compare exactly) -/
def dictSet (d : List (Str × Str)) (k v : Str) : List (Str × Str) :=
  if d.any (fun p => p.1 == k) then d.map (fun p => if p.1 == k then (p.1, v) else p) else d ++ [(k, v)]

/-- `d.update(other)` -/
def dictUpdate (d other : List (Str × Str)) : List (Str × Str) :=
  other.foldl (fun acc p => dictSet acc p.1 p.2) d

/-- `ProxyManager._set_proxy_headers(url, headers)` as an ordered dict: `Accept` and `Host` (the
URL's netloc), then **overridden by** the caller's `headers` — on a redirect follow-up those are the
previous hop's computed headers (`kw["headers"]` is fed back into `urlopen`) -/
def proxyHeaders (u : Url.Url) (carried : List (Str × Str)) : List (Str × Str) :=
  dictUpdate
    ((lit "Accept", lit "*/*") ::
      (match u.netloc with
       | some n => if n.isEmpty then [] else [(lit "Host", n)]
       | none => []))
    carried

/-- the pool a request is routed to: `(Proxy)Manager.connection_from_host` → `connection_from_context`
→ `connection_from_pool_key` (+ `_new_pool`).  On failure the manager is unchanged. -/
def poolFor (idna : Str → Option Str) (m : Mgr) (u : Url.Url) : Mgr × Except Exc (Nat × PoolKey.Key × Pool) :=
  -- ProxyManager.connection_from_host: `if scheme == "https"` the origin, otherwise the proxy
  let (host, port, scheme) : Option Str × PoolKey.Val × Option Str :=
    match m.proxy with
    | some p => if u.scheme = some https then (u.host, portVal u.port, u.scheme)
                else (p.host, .int p.port, some p.scheme)
    | none => (u.host, portVal u.port, u.scheme)
  match PoolKey.requestContext m.pk.defaults host port scheme none with
  | .error e => (m, .error (ofKeyExc e))
  | .ok rc =>
    let rc' := if PoolKey.has rc PoolKey.kStrict then PoolKey.erase rc PoolKey.kStrict else rc
    match PoolKey.fromContext m.pk rc, PoolKey.normalize rc' with
    | (_, .exc e), _ => (m, .error (ofKeyExc e))
    | (_, .old id), .ok key =>
      (match m.pools[id]? with
       | some pl => (m, .ok (id, key, pl))
       | none => (m, .error .unmodelled))
    | (pk', .new id _), .ok key =>
      (match PoolKey.get rc PoolKey.kScheme, PoolKey.get rc PoolKey.kHost, PoolKey.get rc PoolKey.kPort with
       | some (.str s), some (.str h), some (.int p) =>
         (match newPool idna s h p.toNat with
          | .error e => (m, .error e)
          | .ok pl => ({ m with pk := pk', pools := m.pools ++ [pl] }, .ok (id, key, pl)))
       | _, _, _ => (m, .error .unmodelled))
    | _, .error e => (m, .error (ofKeyExc e))

/-- everything after the pool has been chosen: `HTTPConnectionPool.urlopen(method, url)` with a fresh
or idle connection of that pool -/
def send (proxy : Option ProxyCfg) (u : Url.Url) (pl : Pool) (carried : List (Str × Str)) :
    Except Exc (Str × Nat × List Str × Option Bytes × Str × List Bytes × Bytes × List (Str × Str)) :=
  let forwarding := proxy.isSome && !requiresTunnel proxy u.scheme
  -- a URL without host through a forwarding proxy gets http.client's automatic `Host` (the proxy's
  -- own address, or `urlsplit(url).netloc`): not modelled
  if forwarding && (match u.netloc with | some n => n.isEmpty | none => true) then .error .unmodelled else
  -- PoolManager.urlopen: absolute form through a forwarding proxy, else `u.request_uri`;
  -- HTTPConnectionPool.urlopen: `_encode_target(url)` / `parse_url(url)._replace(auth=None, fragment=None).url`
  let target : Except Exc Str :=
    if forwarding then .ok (absTarget u)
    else if u.requestUri.head? = some 47 then
      (match Url.encodeTarget u.requestUri with
       | .ok t => .ok t
       | .error _ => .error .locationParseError)
    else .error .unmodelled
  -- ProxyManager.urlopen: `_set_proxy_headers` only when no tunnel is required
  let headers : List (Str × Str) := if forwarding then proxyHeaders u carried else carried
  match target with
  | .error e => .error e
  | .ok target =>
    -- HTTP(S)ConnectionPool._new_conn: the proxy's address for an HTTPS pool behind a proxy
    let connAddr : Except Exc (Str × Nat) :=
      match proxy with
      | some p =>
        if pl.isHttps then
          (match p.host with
           | some ph => .ok (ph, p.port)
           | none => .ok (pl.host, pl.port))
        else .ok (pl.host, pl.port)
      | none => .ok (pl.host, pl.port)
    match connAddr, classDefaultPort pl.isHttps with
    | .error e, _ => .error e
    | _, none => .error .keyError
    | .ok (dnsHost, connPort), some dflt =>
      let connHost := rstripDot dnsHost                    -- the `host` property
      -- http.client.HTTPConnection.__init__ → `_validate_host(self.host)`
      if Wire.hcUrlBad connHost then .error .protocolError
      else
        -- destination scheme seen by the pool: that of the absolute URL, `None` for origin form
        let tunnel := proxy.isSome && pl.isHttps && !forwarding
        if tunnel then
          -- set_tunnel(host=self._tunnel_host, port=self.port): `.encode("idna")` for the Host line
          if !pl.tunnelHost.all (· < 128) then .error .unmodelled
          else if !idnaCodecOk pl.tunnelHost then .error .unicodeError
          -- a tunnel host "[]" (no host `parse_url` returns) is empty once its brackets are hidden, and
          -- `http.client` then computes `Host` from the proxy's address: not modelled
          else if (unbracket pl.tunnelHost).isEmpty then .error .unmodelled
          else
            match dial dnsHost connPort with
            | .error e => .error e
            | .ok (dh, dp) =>
              let proxyTls : List Str :=
                match proxy with
                | some p => if p.scheme = https then [sniNorm connHost] else []
                | none => []
              -- `server_hostname = self._tunnel_host`, then `.rstrip(".")`
              let tls := proxyTls ++ [sniNorm (rstripDot pl.tunnelHost)]
              -- `HTTPConnection.putrequest` hides the brackets of `_tunnel_host` from `http.client`
              -- while it computes the `Host` header (the CONNECT request above keeps them)
              let cfg : Wire.Cfg := ⟨unbracket pl.tunnelHost, pl.port, dflt, 16384, .error .assertionError, .error .unicodeError⟩
              match prepareNoValidate cfg methodGet target headers with
              | .error e => .error (ofWireExc e)
              | .ok p =>
                .ok (dh, dp, tls, some (connectBytes pl.tunnelHost pl.port), target,
                     (p.hdrs.filter fun h => lower h.1 == lit "host").map (·.2), writtenOf p, headers)
        else
          let cfg : Wire.Cfg := ⟨connHost, connPort, dflt, 16384, .error .assertionError, .error .unicodeError⟩
          -- an HTTPS connection connects (and handshakes) in `_validate_conn`, before the request is
          -- formed; an HTTP connection connects when the head is flushed
          match Wire.prepare cfg methodGet target headers .none false, dial dnsHost connPort with
          | .error e, .error e' => .error (if pl.isHttps then e' else ofWireExc e)
          | .error e, .ok _ => .error (ofWireExc e)
          | .ok _, .error e' => .error e'
          | .ok p, .ok (dh, dp) =>
            -- `server_hostname = self.host`, `.rstrip(".")`
            let tls := if pl.isHttps then [sniNorm (rstripDot connHost)] else []
            .ok (dh, dp, tls, none, target,
                 (p.hdrs.filter fun h => lower h.1 == lit "host").map (·.2),
                 writtenOf p, headers)

/-- `manager.urlopen("GET", url, headers=carried?)` for the parsed `url`: one hop.  `carried = []` is a
fresh request (`self.headers = {}`); on a redirect follow-up `PoolManager.urlopen` calls
`self.urlopen(method, redirect_location, **kw)` with `kw["headers"]` of the previous hop (none of
`Accept` / `Host` is in `Retry.remove_headers_on_redirect`, so nothing is stripped) -/
def route (idna : Str → Option Str) (m : Mgr) (u : Url.Url) (carried : List (Str × Str) := []) :
    Mgr × Except Exc Route :=
  -- through a proxy only http / https URLs are modelled
  if m.proxy.isSome && !(u.scheme = some http || u.scheme = some https) then (m, .error .unmodelled)
  else
    match poolFor idna m u with
    | (m', .error e) => (m', .error e)
    | (m', .ok (id, key, pl)) =>
      match send m.proxy u pl carried with
      | .error e => (m', .error e)
      | .ok (dh, dp, tls, con, target, hh, req, kwh) =>
        (m', .ok ⟨id, key, dh, dp, tls, con, target, hh, req, kwh⟩)

/-- the same from the URL text -/
def routeUrl (idna : Str → Option Str) (m : Mgr) (url : Str) (carried : List (Str × Str) := []) :
    Mgr × Except Exc Route :=
  match Url.parseUrlWith idna url with
  | .error _ => (m, .error .locationParseError)
  | .ok u => route idna m u carried

/-- a request through a fresh manager (no proxy, no extra pool keywords) — the stateless reading the
theorems are mostly about -/
def routeFresh (idna : Str → Option Str) (proxy : Option ProxyCfg) (u : Url.Url) : Except Exc Route :=
  (route idna (Mgr.init proxy []) u).2

end U3.Route
