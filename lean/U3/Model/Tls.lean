import U3.Base.Str
/-!
# Model of urllib3's TLS verification decision procedure (C07, reused by C09)

Transcribes, step by step,

* `HTTPSConnection.__init__` (derivation of `cert_reqs`)                — `initCertReqs`
* `util.ssl_.resolve_cert_reqs`                                         — `resolveCertReqs`
* `util.ssl_.create_urllib3_context` (the verify_mode / check_hostname part) — `createUrllib3Context`
* `connection._ssl_wrap_socket_and_match_hostname`                      — `wrapAndMatch`
* `HTTPSConnection.connect` / `_connect_tls_proxy`                       — `connect`
* `HTTPSConnectionPool._validate_conn` (the warning)                     — `validateConn`
* the part of `urlopen` / `_make_request` around it (error class, close)  — `urlopenOnce`

over a **TLS oracle**: OpenSSL's chain building, OpenSSL's and urllib3's name matchers
(`util.ssl_match_hostname`, the subject of C08), the digest comparison of `assert_fingerprint` and
`is_ipaddress` are uninterpreted Boolean functions; the handshake obeys the contract of DESIGN §5:
it succeeds iff (`verify_mode = CERT_NONE` ∨ the chain validates against the context's trust store)
∧ (¬`check_hostname` ∨ OpenSSL's matcher accepts the `server_hostname` given to `wrap_socket`).

`ssl.SSLContext` is modelled as a record with the two setter side conditions CPython enforces
(`verify_mode = CERT_NONE` is refused while `check_hostname` is on; turning `check_hostname` on
upgrades `CERT_NONE` to `CERT_REQUIRED`); `PyOpenSSLContext` as a record whose `check_hostname`
is a plain attribute the backend ignores and which has neither `load_default_certs` nor `wrap_bio`.

`demands` (bottom of the file) is the *independent* short statement of what the documented
settings ask for; `U3/Props/C07.lean` relates the transcription to it.
-/
namespace U3.Tls
open U3

/-! ## Settings -/

inductive VerifyMode | none | optional | required
  deriving DecidableEq, Repr, Inhabited

/-- the `cert_reqs=` argument: `None`, `ssl.CERT_X`, `"CERT_X"`, `"X"` -/
inductive CertReqs
  | unset
  | const (m : VerifyMode)
  | full (m : VerifyMode)
  | short (m : VerifyMode)
  deriving DecidableEq, Repr, Inhabited

/-- `assert_hostname=`: `None`, `False`, a string -/
inductive AssertHostname
  | unset
  | isFalse
  | name (n : Str)
  deriving DecidableEq, Repr, Inhabited

/-- Python truthiness of `assert_hostname` (`None`, `False`, `""` are falsy) -/
def AssertHostname.truthy : AssertHostname → Bool
  | .name n => !n.isEmpty
  | _ => false

/-- `assert_hostname is False` -/
def AssertHostname.isF : AssertHostname → Bool
  | .isFalse => true
  | _ => false

/-- truthiness of `assert_fingerprint` (`None` and `""` are falsy) -/
def fpTruthy : Option Str → Bool
  | some s => !s.isEmpty
  | none => false

/-- the pin handed to `assert_fingerprint` (only read when `fpTruthy`) -/
def fpGet : Option Str → Str
  | some s => s
  | none => []

inductive CtxKind | stdlib | pyopenssl
  deriving DecidableEq, Repr, Inhabited

/-- an SSL context object (`ssl.SSLContext` or `contrib.pyopenssl.PyOpenSSLContext`) -/
structure Ctx where
  kind : CtxKind
  verifyMode : VerifyMode
  checkHostname : Bool
  /-- `hostname_checks_common_name` (attribute absent ≡ `False`, as `getattr(..., False)` reads it) -/
  checksCN : Bool
  /-- the caller loaded the CA under test into the context itself -/
  ownCA : Bool
  deriving DecidableEq, Repr, Inhabited

/-- process-wide switches of `urllib3.util.ssl_` -/
structure Env where
  isPyOpenSSL : Bool          -- IS_PYOPENSSL (after `inject_into_urllib3`)
  hasNeverCheckCN : Bool      -- HAS_NEVER_CHECK_COMMON_NAME
  deriving DecidableEq, Repr, Inhabited

inductive ProxyMode
  | direct         -- no proxy
  | tunnelHttp     -- CONNECT through an http:// proxy
  | tunnelHttps    -- CONNECT through an https:// proxy (TLS to the proxy, then TLS-in-TLS)
  | forwardHttps   -- https:// proxy with `use_forwarding_for_https`: the only TLS peer is the proxy
  deriving DecidableEq, Repr, Inhabited

/-- `ProxyConfig` (the fields that matter here) -/
structure ProxyCfg where
  sslContext : Option Ctx
  assertHostname : AssertHostname
  assertFingerprint : Option Str
  deriving DecidableEq, Repr, Inhabited

/-- everything `HTTPSConnection(...)` / `set_tunnel(...)` receive that influences verification -/
structure Cfg where
  env : Env
  /-- `host=` of the connection: the origin, or the proxy when a proxy is configured -/
  host : Str
  certReqs : CertReqs
  assertHostname : AssertHostname
  assertFingerprint : Option Str
  serverHostname : Option Str
  sslContext : Option Ctx
  /-- `ca_certs or ca_cert_dir or ca_cert_data` is truthy -/
  caGiven : Bool
  mode : ProxyMode
  /-- `set_tunnel(host=…)` (read in the two tunnel modes only) -/
  tunnelHost : Str
  proxy : ProxyCfg
  deriving Repr, Inhabited

/-! ## Oracle -/

/-- which CA collections a context trusts at handshake time -/
structure Trust where
  configured : Bool     -- `load_verify_locations(ca_certs, ca_cert_dir, ca_cert_data)`
  system : Bool         -- `load_default_certs()`
  own : Bool            -- whatever the caller had put into its own context
  deriving DecidableEq, Repr

/-- verdicts about one TLS peer (its certificate chain, its SANs, its DER bytes) -/
structure PeerOracle where
  validConfigured : Bool              -- chain validates against the configured CA material
  validSystem : Bool                  -- … against the system store
  validOwn : Bool                     -- … against the caller's pre-loaded context
  osslMatch : Str → Bool → Bool       -- OpenSSL's matcher: name, hostname_checks_common_name
  u3Match : Str → Bool → Bool         -- urllib3's `match_hostname(cert, name, checks_cn)` accepts
  digestOk : Str → Bool               -- `assert_fingerprint(DER, pin)` passes

structure Oracle where
  isIp : Str → Bool                   -- `util.ssl_.is_ipaddress`
  origin : PeerOracle
  proxy : PeerOracle

def chainOk (p : PeerOracle) (t : Trust) : Bool :=
  (t.configured && p.validConfigured) || (t.system && p.validSystem) || (t.own && p.validOwn)

/-! ## String normalisations used on the way -/

/-- `s.rstrip(".")` -/
def rstripDots (s : Str) : Str := (s.reverse.dropWhile (· == 46)).reverse

def isBracket (c : Nat) : Bool := c == 91 || c == 93

/-- `s.strip("[]")` -/
def stripBrackets (s : Str) : Str := ((s.dropWhile isBracket).reverse.dropWhile isBracket).reverse

/-- `s[: s.rfind("%")]` (only called when `"%" in s`) -/
def cutZone (s : Str) : Str := ((s.reverse.dropWhile (· != 37)).drop 1).reverse

/-- the block "Ensure that IPv6 addresses are in the proper format and don't have a scope ID" -/
def normServerHostname (isIp : Str → Bool) (serverHostname : Str) : Str :=
  let normalized := stripBrackets serverHostname
  let normalized := if normalized.contains 37 then cutZone normalized else normalized
  if isIp normalized then normalized else serverHostname

/-- `_match_hostname`: brackets are removed from IP literals only -/
def matchName (isIp : Str → Bool) (assertedHostname : Str) : Str :=
  let stripped := stripBrackets assertedHostname
  if isIp stripped then stripped else assertedHostname

/-! ## `resolve_cert_reqs`, `HTTPSConnection.__init__` -/

def resolveCertReqs : CertReqs → VerifyMode
  | .unset => .required            -- `if candidate is None: return CERT_REQUIRED`
  | .const m => m
  | .full m => m                   -- `getattr(ssl, candidate)`
  | .short m => m                  -- `getattr(ssl, "CERT_" + candidate)`

/-- "cert_reqs depends on ssl_context so calculate last." -/
def initCertReqs (certReqs : CertReqs) (sslContext : Option Ctx) : CertReqs :=
  match certReqs with
  | .unset =>
    match sslContext with
    | some c => .const c.verifyMode
    | none => .const (resolveCertReqs .unset)
  | cr => cr

/-! ## Context objects -/

inductive Err
  | sslError                   -- ssl.SSLError / urllib3 SSLError (handshake, fingerprint)
  | certificateError           -- util.ssl_match_hostname.CertificateError
  | valueError                 -- "Cannot set verify_mode to CERT_NONE when check_hostname is enabled."
  | proxySchemeUnsupported     -- TLS in TLS needs SSLContext.wrap_bio()
  deriving DecidableEq, Repr, Inhabited

/-- `context.verify_mode = m` -/
def Ctx.setVerifyMode (c : Ctx) (m : VerifyMode) : Except Err Ctx :=
  match c.kind with
  | .stdlib =>
    if m == .none && c.checkHostname then .error .valueError
    else .ok { c with verifyMode := m }
  | .pyopenssl => .ok { c with verifyMode := m }

/-- `context.check_hostname = b` -/
def Ctx.setCheckHostname (c : Ctx) (b : Bool) : Ctx :=
  match c.kind with
  | .stdlib =>
    if b && c.verifyMode == .none then { c with checkHostname := true, verifyMode := .required }
    else { c with checkHostname := b }
  | .pyopenssl => { c with checkHostname := b }

/-- `SSLContext(PROTOCOL_TLS_CLIENT)` as `util.ssl_.SSLContext` resolves it -/
def freshContext (env : Env) : Ctx :=
  if env.isPyOpenSSL then
    { kind := .pyopenssl, verifyMode := .none, checkHostname := false, checksCN := false, ownCA := false }
  else
    { kind := .stdlib, verifyMode := .required, checkHostname := true, checksCN := true, ownCA := false }

/-- `create_urllib3_context(cert_reqs=cr)`: the lines that touch verification -/
def createUrllib3Context (env : Env) (cr : VerifyMode) : Except Err Ctx :=
  let context := freshContext env
  let r : Except Err Ctx :=
    if cr == .required && !env.isPyOpenSSL then
      match context.setVerifyMode cr with
      | .error e => .error e
      | .ok context => .ok (context.setCheckHostname true)
    else
      (context.setCheckHostname false).setVerifyMode cr
  match r with
  | .error e => .error e
  -- `context.hostname_checks_common_name = False` (the AttributeError branch exists only on
  -- interpreters where HAS_NEVER_CHECK_COMMON_NAME is False, where OpenSSL never gets to check names)
  | .ok context => .ok { context with checksCN := false }

/-! ## `_ssl_wrap_socket_and_match_hostname` -/

/-- what the TLS layer (`ssl_wrap_socket`) is handed -/
structure WrapObs where
  serverHostname : Str
  verifyMode : VerifyMode
  checkHostname : Bool
  caGiven : Bool
  tlsInTls : Bool
  /-- `context.load_default_certs()` was called on the context before it was handed over -/
  loadDefault : Bool
  deriving DecidableEq, Repr, Inhabited

inductive WrapRes
  | raised (e : Err)                       -- before `ssl_wrap_socket`: the TCP socket is untouched
  | wrapFailed (obs : WrapObs) (e : Err)   -- `ssl_wrap_socket` raised (handshake / TLS-in-TLS unsupported)
  | checkFailed (obs : WrapObs) (e : Err)  -- handshake done, assertion failed, `ssl_sock.close()` ran
  | ok (obs : WrapObs) (isVerified : Bool)
  deriving Repr, Inhabited

/-- the handshake contract (DESIGN §5 item 4).  `check_hostname` is honoured by `ssl` only. -/
def handshakeOk (c : Ctx) (t : Trust) (serverHostname : Str) (p : PeerOracle) : Bool :=
  (c.verifyMode == .none || chainOk p t) &&
  (!(c.kind == .stdlib && c.checkHostname) || p.osslMatch serverHostname c.checksCN)

def wrapAndMatch (env : Env) (isIp : Str → Bool) (p : PeerOracle)
    (certReqs : CertReqs) (caGiven : Bool)
    (assertHostname : AssertHostname) (assertFingerprint : Option Str)
    (serverHostname : Str) (sslContext : Option Ctx) (tlsInTls : Bool) : WrapRes :=
  let defaultSslContext := sslContext.isNone
  let created : Except Err Ctx :=
    match sslContext with
    | none => createUrllib3Context env (resolveCertReqs certReqs)
    | some c => .ok c
  match created with
  | .error e => .raised e
  | .ok context =>
  -- context.verify_mode = resolve_cert_reqs(cert_reqs)
  match context.setVerifyMode (resolveCertReqs certReqs) with
  | .error e => .raised e
  | .ok context =>
  -- "In some cases, we want to verify hostnames ourselves"
  let context :=
    if fpTruthy assertFingerprint || assertHostname.truthy || assertHostname.isF
        || env.isPyOpenSSL || !env.hasNeverCheckCN then
      context.setCheckHostname false
    else context
  -- "Try to load OS default certs if none are given" (PyOpenSSLContext has no load_default_certs)
  let loadDefault := !caGiven && defaultSslContext && context.kind == .stdlib
  let serverHostname := normServerHostname isIp serverHostname
  -- ssl_wrap_socket: load_verify_locations when CA material was given, then the handshake
  let trust : Trust := { configured := caGiven, system := loadDefault, own := context.ownCA }
  let obs : WrapObs := { serverHostname := serverHostname, verifyMode := context.verifyMode,
                         checkHostname := context.checkHostname, caGiven := caGiven, tlsInTls := tlsInTls,
                         loadDefault := loadDefault }
  if tlsInTls && context.kind == .pyopenssl then .wrapFailed obs .proxySchemeUnsupported
  else if !handshakeOk context trust serverHostname p then .wrapFailed obs .sslError
  else
    let isVerified := context.verifyMode == .required || fpTruthy assertFingerprint
    if fpTruthy assertFingerprint then
      if p.digestOk (fpGet assertFingerprint) then .ok obs isVerified
      else .checkFailed obs .sslError
    else if context.verifyMode != .none && !context.checkHostname && !assertHostname.isF then
      let hostnameChecksCommonName := if defaultSslContext then false else context.checksCN
      -- `assert_hostname or server_hostname`
      let asserted := if assertHostname.truthy then
          (match assertHostname with | .name n => n | _ => serverHostname)
        else serverHostname
      if p.u3Match (matchName isIp asserted) hostnameChecksCommonName then .ok obs isVerified
      else .checkFailed obs .certificateError
    else .ok obs isVerified

/-! ## `HTTPSConnection.connect` -/

structure Connected where
  isVerified : Bool
  /-- `None` (no proxy) / `False` / `True` -/
  proxyIsVerified : Option Bool
  /-- the TLS layer calls, in order (proxy first when tunnelling through an https proxy) -/
  wraps : List WrapObs
  deriving Repr, Inhabited

/-- the SNI / `server_hostname` of the last TLS session (the one the request travels in) -/
def Connected.sni (k : Connected) : Str :=
  match k.wraps.getLast? with
  | some w => w.serverHostname
  | none => []

inductive ConnRes
  /-- `connect()` raised: the exception, `has_connected_to_proxy` at that moment, the TLS layer
  calls made so far, whether the socket was already closed by the code that raised -/
  | error (e : Err) (hasConnectedToProxy : Bool) (wraps : List WrapObs) (sockClosed : Bool)
  | connected (k : Connected)
  deriving Repr, Inhabited

def ProxyMode.tunneling : ProxyMode → Bool
  | .tunnelHttp | .tunnelHttps => true
  | _ => false

/-- the peer of the (last) TLS session in which the request is sent -/
def requestPeer (cfg : Cfg) (o : Oracle) : PeerOracle :=
  match cfg.mode with
  | .forwardHttps => o.proxy
  | _ => o.origin

/-- the part of `connect()` after the `if self.proxy_is_tunneling:` block; `proxyIsVerified`, `wraps`,
`tlsInTls`, `serverHostname` are the values of the local / instance variables at that point -/
def connectTail (cfg : Cfg) (o : Oracle) (proxyIsVerified : Option Bool) (wraps : List WrapObs)
    (tlsInTls : Bool) (serverHostname : Str) : ConnRes :=
  let certReqs := initCertReqs cfg.certReqs cfg.sslContext        -- self.cert_reqs
  let hasConnected := cfg.mode.tunneling                          -- self._has_connected_to_proxy so far
  -- if self.server_hostname is not None: server_hostname = self.server_hostname
  let serverHostname := cfg.serverHostname.getD serverHostname
  -- "Remove trailing '.' from fqdn hostnames to allow certificate validation"
  let serverHostnameRmDot := rstripDots serverHostname
  match wrapAndMatch cfg.env o.isIp (requestPeer cfg o) certReqs cfg.caGiven cfg.assertHostname
          cfg.assertFingerprint serverHostnameRmDot cfg.sslContext tlsInTls with
  | .raised e => .error e hasConnected wraps false
  | .wrapFailed obs e => .error e hasConnected (wraps ++ [obs]) false
  | .checkFailed obs e => .error e hasConnected (wraps ++ [obs]) true
  | .ok obs v =>
    -- "Forwarding proxies can never have a verified target"
    let isVerified := if cfg.mode == .forwardHttps then false else v
    -- self._has_connected_to_proxy = bool(self.proxy)
    let hasConnected := cfg.mode != .direct
    let proxyIsVerified :=
      if hasConnected && proxyIsVerified.isNone then some v else proxyIsVerified
    .connected { isVerified := isVerified, proxyIsVerified := proxyIsVerified, wraps := wraps ++ [obs] }

def connect (cfg : Cfg) (o : Oracle) : ConnRes :=
  let certReqs := initCertReqs cfg.certReqs cfg.sslContext        -- self.cert_reqs
  let selfHost := rstripDots cfg.host                             -- the `host` property
  -- self.sock = sock = self._new_conn(); server_hostname = self.host; tls_in_tls = False
  -- if self.proxy_is_tunneling: …
  match cfg.mode with
  | .tunnelHttps =>
    -- self.sock = sock = self._connect_tls_proxy(self.host, sock)
    match wrapAndMatch cfg.env o.isIp o.proxy certReqs cfg.caGiven cfg.proxy.assertHostname
            cfg.proxy.assertFingerprint selfHost cfg.proxy.sslContext false with
    | .raised e => .error e false [] false
    | .wrapFailed obs e => .error e false [obs] false
    | .checkFailed obs e => .error e false [obs] true
    | .ok obs v =>
      -- self.proxy_is_verified = …is_verified; tls_in_tls = True; self._tunnel();
      -- server_hostname = self._tunnel_host
      connectTail cfg o (some v) [obs] true cfg.tunnelHost
  | .tunnelHttp =>
    -- self.proxy_is_verified = False; self._tunnel(); server_hostname = self._tunnel_host
    connectTail cfg o (some false) [] false cfg.tunnelHost
  | .direct | .forwardHttps => connectTail cfg o none [] false selfHost

/-! ## `_validate_conn`, and the slice of `urlopen` around it -/

/-- ```
proxy_is_verified = conn.proxy_is_verified and not getattr(conn, "proxy_is_tunneling", False)
if not conn.is_verified and not proxy_is_verified: warnings.warn(… InsecureRequestWarning)
```
`conn.proxy_is_tunneling` is `self._tunnel_host is not None`, i.e. `cfg.mode.tunneling`: a verified
proxy stands in for the destination only when the request is forwarded to it; inside a CONNECT
tunnel the destination's own TLS session decides. -/
def validateConn (cfg : Cfg) (k : Connected) : Bool :=
  let proxyIsVerified := k.proxyIsVerified == some true && !cfg.mode.tunneling
  !k.isVerified && !proxyIsVerified

/-- exception classes as they leave `urlopen(retries=False)` -/
inductive Exc
  | sslError                   -- urllib3.exceptions.SSLError
  | proxyErrorSsl              -- ProxyError whose original_error is an SSLError
  | valueError
  | proxySchemeUnsupported
  deriving DecidableEq, Repr, Inhabited

inductive Event
  | tcp                        -- a TCP connection was opened (to the origin or the proxy)
  | wrap (obs : WrapObs)       -- the TLS layer was entered
  | warn                       -- InsecureRequestWarning
  | request                    -- the HTTP request was written
  | close                      -- the connection's socket is closed
  deriving Repr, Inhabited

structure Outcome where
  result : Except Exc Connected
  events : List Event
  deriving Repr, Inhabited

/-- the exception translation of `_make_request` / `urlopen` -/
def translate (cfg : Cfg) (e : Err) (hasConnectedToProxy : Bool) : Exc :=
  match e with
  | .valueError => .valueError                            -- not in any `except` tuple
  | .proxySchemeUnsupported => .proxySchemeUnsupported    -- likewise
  | .sslError | .certificateError =>                      -- `new_e = SSLError(e)`
    -- `if … conn.proxy and not conn.has_connected_to_proxy: new_e = _wrap_proxy_error(new_e, …)`
    if cfg.mode != .direct && !hasConnectedToProxy then .proxyErrorSsl else .sslError

/-- one `urlopen` on a fresh pool: `_validate_conn` (connect + warning), then the request;
on an exception the `finally` of `urlopen` closes the connection -/
def urlopenOnce (cfg : Cfg) (o : Oracle) : Outcome :=
  match connect cfg o with
  | .error e hc wraps _ =>
    { result := .error (translate cfg e hc),
      events := [.tcp] ++ wraps.map .wrap ++ [.close] }
  | .connected k =>
    { result := .ok k,
      events := [.tcp] ++ k.wraps.map .wrap ++ (if validateConn cfg k then [.warn] else []) ++ [.request] }

def Outcome.requestSent (r : Outcome) : Bool := r.events.any fun | .request => true | _ => false
def Outcome.warned (r : Outcome) : Bool := r.events.any fun | .warn => true | _ => false
/-- the socket is closed at the end (a `close` with no later `tcp`) -/
def Outcome.closedAtEnd (r : Outcome) : Bool :=
  match r.events.getLast? with
  | some .close => true
  | _ => false

/-! ## The specification: what the documented settings demand (independent of the code above) -/

/-- the `cert_reqs` in force: the explicit argument, else the caller's context, else REQUIRED -/
def effectiveCertReqs (cfg : Cfg) : VerifyMode :=
  match cfg.certReqs, cfg.sslContext with
  | .unset, some c => c.verifyMode
  | .unset, none => .required
  | .const m, _ | .full m, _ | .short m, _ => m

/-- what one TLS peer has to pass before anything may be sent through its session -/
structure PeerDemand where
  /-- chain validation against the configured CAs (client side, OPTIONAL ≡ REQUIRED) -/
  chain : Bool
  /-- the trust anchors the settings name -/
  trust : Trust
  /-- hostname check demanded: against this name, with this common-name policy -/
  name : Option (Str × Bool)
  /-- pinned fingerprint -/
  pin : Option Str
  deriving Repr

/-- the demand the TLS settings `(ctx, assert_hostname, assert_fingerprint)` put on a peer that is
addressed as `target`, with `eff` the cert_reqs in force -/
def peerDemand (env : Env) (eff : VerifyMode) (caGiven : Bool) (ctx : Option Ctx)
    (ah : AssertHostname) (fp : Option Str) (target : Str) : PeerDemand :=
  let pinned := fpTruthy fp
  { chain := eff != .none,
    trust := { configured := caGiven,
               system := !caGiven && ctx.isNone && !env.isPyOpenSSL,
               own := match ctx with | some c => c.ownCA | none => false },
    name := if eff != .none && !ah.isF && !pinned then
              some ((match ah with | .name n => if n.isEmpty then target else n | _ => target),
                    (match ctx with | some c => c.checksCN | none => false))
            else none,
    pin := if pinned then fp else none }

/-- the name under which the settings address the peer of the request's TLS session:
`server_hostname`, else the host of the URL (tunnel) / of the connection -/
def targetName (cfg : Cfg) : Str :=
  match cfg.serverHostname with
  | some s => rstripDots s
  | none => if cfg.mode.tunneling then rstripDots cfg.tunnelHost else rstripDots cfg.host

/-- demands on the peer the request is sent to (origin; the proxy when forwarding) -/
def demands (cfg : Cfg) : PeerDemand :=
  peerDemand cfg.env (effectiveCertReqs cfg) cfg.caGiven cfg.sslContext cfg.assertHostname
    cfg.assertFingerprint (targetName cfg)

/-- demands on an https proxy we tunnel through (same cert_reqs and CA material, the proxy's own
context / assert_hostname / assert_fingerprint, addressed by the proxy's host name) -/
def proxyDemands (cfg : Cfg) : Option PeerDemand :=
  match cfg.mode with
  | .tunnelHttps =>
    some (peerDemand cfg.env (effectiveCertReqs cfg) cfg.caGiven cfg.proxy.sslContext
            cfg.proxy.assertHostname cfg.proxy.assertFingerprint (rstripDots cfg.host))
  | _ => none

/-- well-formedness of a caller-supplied context: a `PyOpenSSLContext` whose (ineffective)
`check_hostname` attribute was switched on by hand is only considered under injection, where urllib3
switches the attribute off again before use.  (`PyOpenSSLContext()` starts with it off, and
`create_urllib3_context` under injection leaves it off.) -/
def CtxWF (env : Env) : Option Ctx → Prop
  | none => True
  | some c => c.kind = .pyopenssl → c.checkHostname = true → env.isPyOpenSSL = true

def Cfg.WF (cfg : Cfg) : Prop := CtxWF cfg.env cfg.sslContext ∧ CtxWF cfg.env cfg.proxy.sslContext

/-- a peer passes a demand: its chain validates against the named anchors; the demanded name — in
the form given to OpenSSL (`normServerHostname`) or in the form given to urllib3's matcher
(`matchName`) — is accepted by that matcher under the demanded common-name policy; its digest
equals the pin -/
def Satisfied (isIp : Str → Bool) (d : PeerDemand) (p : PeerOracle) : Prop :=
  (d.chain = true → chainOk p d.trust = true) ∧
  (∀ n cn, d.name = some (n, cn) →
     p.osslMatch (normServerHostname isIp n) cn = true ∨
     p.u3Match (matchName isIp (normServerHostname isIp n)) cn = true ∨
     p.u3Match (matchName isIp n) cn = true) ∧
  (∀ pin, d.pin = some pin → p.digestOk pin = true)

end U3.Tls
