/-!
# Small-step interleaving model of `HTTPConnectionPool` under concurrent use (C02)

Mirrors `src/urllib3/connectionpool.py` (`__init__` pre-fill, `_get_conn`, `_put_conn`, `close`,
`_close_pool_connections`, the checkout / release skeleton of `urlopen`) and
`src/urllib3/response.py` (`release_conn`), cut into atomic steps **exactly where shared state is
touched**: every load of the attribute `self.pool`, every operation on the queue object, and every
`conn.close()` / connect that is separated from the preceding queue operation by a statement
boundary of the pool code (so that "how many sockets are open at once" is observed at the same
granularity as by the scheduler harness).

Shared state
* `poolRef`  — the attribute `self.pool`: `some q` after `__init__`, `none` for ever after `close()`.
  A pool has exactly one queue object in its life (`self.pool` is assigned in `__init__` and in
  `close` only), so a non-`None` reference loaded earlier always denotes *the* queue, whose contents
  are `queue` — also after `close()` swapped the attribute (the "old pool").
* `queue`    — contents of that `queue.LifoQueue` (head = top), items `Option ConnId` (`None` slots).
* `openC`    — ids of the connections whose socket is open; `maxOpen` its high-water mark (ghost).
  A connection object in the queue need not be open: a reply with `Connection: close` (`okClose`)
  closes the socket, the object still goes back to the pool and is reconnected by its next user.
* `gone`     — ids of the open connections whose PEER has closed its end (`okDrop`): their next
  checkout finds them dropped and closes them (`dropClose`) before the request reconnects them.
* `wire`     — per connection the tag of the request last written to it (its pending response).
* `nextId`   — id allocator for `_new_conn()` (modelling device).

A thread is a list of `Op`s: a whole `urlopen` call scripted as `fails` failing attempts followed
by a last attempt with outcome `last` (the call is made with `retries = fails`, so a last failing
attempt raises `MaxRetryError`; `okClose` = the reply says `Connection: close`); `stream = true` is `preload_content=False` (the response keeps the
connection until `release`); `release` = `release_conn()` on the thread's latest response; `close`
= `pool.close()`.  `queue.LifoQueue` operations are atomic (trusted: its internal mutex).
-/
namespace U3.PoolConc

abbrev ConnId := Nat
abbrev QueueId := Nat
/-- request tag: (thread index, number of requests that thread has sent before) -/
abbrev Tag := Nat × Nat

/-- scripted outcome of an attempt: `ok` — a keep-alive reply; `fail` — the attempt fails (no reply /
garbage / peer closes); `okClose` — the reply carries `Connection: close`: the response is delivered
and `http.client` closes the connection's socket (`getresponse`: `if response.will_close:
self.close()`, the socket object lives on inside the response until its body has been read) — the
connection OBJECT is handed back to the pool like any other; `okDrop` — a keep-alive reply after
which the PEER closes the connection: the client's socket stays open, the connection is pooled, and
its next checkout finds it dropped (`is_connection_dropped`) and closes it before reconnecting -/
inductive Outcome
  | ok | fail | okClose | okDrop
deriving DecidableEq, Repr, Hashable, BEq

structure Cfg where
  maxsize : Nat
  block : Bool
  /-- `pool_timeout is not None` (the value is irrelevant: time is not modelled, a pending timeout
  may fire whenever the queue is empty) -/
  timeout : Bool
deriving DecidableEq, Repr, Hashable, BEq

inductive Op
  | req (fails : Nat) (last : Outcome) (stream : Bool)
  | release
  | close
deriving DecidableEq, Repr, Hashable, BEq

/-- result classes of one op -/
inductive Res
  | ok            -- normal completion (for `req`: the response to the thread's own request)
  | closedPool    -- ClosedPoolError
  | emptyPool     -- EmptyPoolError (block=True, pool_timeout elapsed)
  | failed        -- MaxRetryError: the scripted failure of the last attempt
  | fullPool      -- FullPoolError ("should never happen")
  | internalErr   -- an AttributeError escaping from the pool code (no step of the model produces it:
                  -- `C02_close_race`; kept as the class the implementation's escaped exceptions map to)
  | wrongResp     -- completed, but with the response to somebody else's request
deriving DecidableEq, Repr, Hashable, BEq

/-- what happens when `_put_conn` returns normally -/
inductive Cont
  | fin (r : Res)                                       -- the `urlopen` call ends with `r`
  | retry (fails : Nat) (last : Outcome) (stream : Bool)  -- `return self.urlopen(...)`: next attempt
  | rel                                                 -- `release_conn`: `self._connection = None`
deriving DecidableEq, Repr, Hashable, BEq

/-- program counter inside the current op -/
inductive Pc
  | idle
  -- `_get_conn`
  | getCheck (fails : Nat) (last : Outcome) (stream : Bool)  -- `if self.pool is None: raise ClosedPoolError`
  | getLoad (fails : Nat) (last : Outcome) (stream : Bool)   -- load `self.pool` for `.get(...)`
  | getQ (fails : Nat) (last : Outcome) (stream : Bool)      -- `<queue>.get(block=self.block, timeout=timeout)`
  | dropClose (c : ConnId) (fails : Nat) (last : Outcome) (stream : Bool)  -- `is_connection_dropped(conn)`: `conn.close()`
  -- `_make_request`
  | send (c : ConnId) (fails : Nat) (last : Outcome) (stream : Bool)   -- connect if needed, write the request
  | recv (c : ConnId) (tag : Tag) (fails : Nat) (last : Outcome) (stream : Bool)  -- read the response / fail
  -- `_put_conn(item)`
  | putCheck (item : Option ConnId) (k : Cont)    -- `if self.pool is not None:`
  | putLoad (item : Option ConnId) (k : Cont)     -- `pool = self.pool` (the load for `pool.put(...)`)
  | putQ (item : Option ConnId) (k : Cont)        -- `pool.put(conn, block=False)`
  | fullClose (item : Option ConnId) (k : Cont)   -- `except queue.Full: if conn: conn.close()`; `if self.block: raise FullPoolError`
  | warn (item : Option ConnId) (k : Cont)        -- `log.warning(..., pool.qsize())` (`pool`: the local bound at `putLoad`)
  | discard (item : Option ConnId) (k : Cont)     -- trailing `if conn: conn.close()`
  -- `close`
  | closeSwap                                     -- `old_pool, self.pool = self.pool, None`; `if old_pool is None: return`
  | drain                                         -- `conn = pool.get(block=False)` / `except queue.Empty`
  | drainClose (x : Option ConnId)                -- `if conn: conn.close()`
deriving DecidableEq, Repr, Hashable, BEq

structure Thread where
  prog : List Op            -- head = the op being executed (when `pc ≠ idle`) / the next op
  pc : Pc
  resp : Option ConnId      -- `_connection` of the thread's latest streaming response
  leaked : List ConnId      -- connections held by older streaming responses never released
  results : List (Op × Res) -- the finished ops with their results, in order (ghost)
  sent : Nat                -- requests written so far (tag counter)
  rclose : Bool             -- the latest streaming response (`resp`) came with `Connection: close`: its
                            -- socket is closed as soon as its body has been read
deriving DecidableEq, Repr, Hashable, BEq

structure Shared where
  poolRef : Option QueueId
  queue : List (Option ConnId)
  openC : List ConnId
  wire : List (ConnId × Tag)
  nextId : ConnId
  maxOpen : Nat
  /-- connections whose peer has closed its end while the client's socket is still open -/
  gone : List ConnId
deriving DecidableEq, Repr, Hashable, BEq

structure State where
  cfg : Cfg
  sh : Shared
  threads : List Thread
deriving DecidableEq, Repr, Hashable, BEq

/-- `HTTPConnectionPool.__init__`: `self.pool = QueueCls(maxsize)`; `for _ in range(maxsize): put(None)` -/
def initShared (cfg : Cfg) : Shared :=
  { poolRef := some 0, queue := List.replicate cfg.maxsize none, openC := [], wire := [],
    nextId := 0, maxOpen := 0, gone := [] }

def initThread (p : List Op) : Thread :=
  { prog := p, pc := .idle, resp := none, leaked := [], results := [], sent := 0, rclose := false }

def init (cfg : Cfg) (progs : List (List Op)) : State :=
  { cfg := cfg, sh := initShared cfg, threads := progs.map initThread }

/-- `conn.close()` for `conn : Optional[...]` (`if conn: conn.close()`); idempotent -/
def closeConn (sh : Shared) : Option ConnId → Shared
  | none => sh
  | some c => { sh with openC := sh.openC.filter (· != c), gone := sh.gone.filter (· != c) }

/-- connect if the connection has no socket (`conn.is_closed` / fresh) -/
def openConn (sh : Shared) (c : ConnId) : Shared :=
  if sh.openC.contains c then sh
  else { sh with openC := c :: sh.openC, maxOpen := max sh.maxOpen (sh.openC.length + 1) }

def wireGet (w : List (ConnId × Tag)) (c : ConnId) : Option Tag :=
  (w.find? (fun p => p.1 == c)).map (·.2)

def wireSet (w : List (ConnId × Tag)) (c : ConnId) (t : Tag) : List (ConnId × Tag) :=
  (c, t) :: w.filter (fun p => p.1 != c)

/-- the current op ends with result `r` -/
def finish (th : Thread) (r : Res) : Thread :=
  match th.prog with
  | op :: rest => { th with pc := .idle, prog := rest, results := th.results ++ [(op, r)] }
  | [] => { th with pc := .idle }      -- unreachable: `pc ≠ idle` only while an op is running

/-- `_put_conn` returned normally -/
def applyCont (th : Thread) : Cont → Thread
  | .fin r => finish th r
  | .retry f l st => { th with pc := .getCheck f l st }
  | .rel => finish th .ok

/-- `_put_conn` raised `r` (FullPoolError): the op ends with it; inside `release_conn` the
statement `self._connection = None` is skipped -/
def failPut (th : Thread) (item : Option ConnId) (k : Cont) (r : Res) : Thread :=
  match k with
  | .rel => finish { th with resp := item } r
  | _ => finish th r

/-- one atomic step of thread `tid` at program counter `pc`; `none` = not enabled -/
def tstepPc (cfg : Cfg) (tid : Nat) (sh : Shared) (th : Thread) : Pc → Option (Shared × Thread)
  | .idle => none
  | .getCheck f l st =>
    match sh.poolRef with
    | none => some (sh, finish th .closedPool)      -- the `finally: _put_conn(None)` sees None too
    | some _ => some (sh, { th with pc := .getLoad f l st })
  | .getLoad f l st =>
    match sh.poolRef with
    | none => some (sh, finish th .closedPool)      -- AttributeError → ClosedPoolError
    | some _ => some (sh, { th with pc := .getQ f l st })
  | .getQ f l st =>
    match sh.queue with
    | some c :: q =>
      -- `if conn and is_connection_dropped(conn): conn.close()`; `return conn or self._new_conn()`:
      -- the test reads the connection object / its socket only (held by this thread alone).  On a
      -- connection that was pooled closed (`c ∉ openC`) `conn.close()` changes nothing; when the peer
      -- has gone (`c ∈ gone`) `conn.close()` closes the socket — a step of its own (`dropClose`).
      -- Either way the SAME object is handed out and reconnects when the request is written
      -- (`send`: `openConn`).  Nothing else is taken from the queue.
      if sh.gone.contains c then some ({ sh with queue := q }, { th with pc := .dropClose c f l st })
      else some ({ sh with queue := q }, { th with pc := .send c f l st })
    | none :: q =>                                   -- `conn or self._new_conn()`
      some ({ sh with queue := q, nextId := sh.nextId + 1 }, { th with pc := .send sh.nextId f l st })
    | [] =>
      if cfg.block then
        if cfg.timeout then some (sh, finish th .emptyPool)   -- queue.Empty → EmptyPoolError
        else none                                              -- blocked in `get()`
      else some ({ sh with nextId := sh.nextId + 1 }, { th with pc := .send sh.nextId f l st })
  | .dropClose c f l st =>
    -- the peer has closed the idle connection: `conn.close()` closes the client's socket; the same
    -- object is returned and reconnects in `send`
    some (closeConn sh (some c), { th with pc := .send c f l st })
  | .send c f l st =>
    let tag : Tag := (tid, th.sent)
    let sh1 := openConn sh c
    some ({ sh1 with wire := wireSet sh1.wire c tag },
          { th with pc := .recv c tag f l st, sent := th.sent + 1 })
  | .recv c tag f l st =>
    match f, l with
    | n + 1, _ =>        -- failing attempt, retries left: `conn.close(); conn = None; _put_conn(None)`, retry
      some (closeConn sh (some c), { th with pc := .putCheck none (.retry n l st) })
    | 0, .fail =>        -- MaxRetryError raised inside `except`; `finally` still puts `None`
      some (closeConn sh (some c), { th with pc := .putCheck none (.fin .failed) })
    | 0, .ok =>
      let r : Res := if wireGet sh.wire c = some tag then .ok else .wrongResp
      if st then
        some (sh, finish { th with resp := some c, rclose := false, leaked := th.resp.toList ++ th.leaked } r)
      else some (sh, { th with pc := .putCheck (some c) (.fin r) })
    | 0, .okDrop =>      -- keep-alive reply, then the peer closes: the connection is pooled open, marked `gone`
      let r : Res := if wireGet sh.wire c = some tag then .ok else .wrongResp
      let sh1 := { sh with gone := c :: sh.gone.filter (· != c) }
      if st then
        some (sh1, finish { th with resp := some c, rclose := false, leaked := th.resp.toList ++ th.leaked } r)
      else some (sh1, { th with pc := .putCheck (some c) (.fin r) })
    | 0, .okClose =>     -- `Connection: close`: `conn.sock = None`; the socket itself is closed when the body
                         -- has been read — now (preload) or by the response's reader (streaming)
      let r : Res := if wireGet sh.wire c = some tag then .ok else .wrongResp
      if st then
        some (sh, finish { th with resp := some c, rclose := true, leaked := th.resp.toList ++ th.leaked } r)
      else some (closeConn sh (some c), { th with pc := .putCheck (some c) (.fin r) })
  | .putCheck item k =>
    match sh.poolRef with
    | none => some (sh, { th with pc := .discard item k })
    | some _ => some (sh, { th with pc := .putLoad item k })
  | .putLoad item k =>
    match sh.poolRef with
    | none => some (sh, { th with pc := .discard item k })    -- `None.put`: `except AttributeError: pass`
    | some _ => some (sh, { th with pc := .putQ item k })
  | .putQ item k =>
    if sh.queue.length < cfg.maxsize then
      some ({ sh with queue := item :: sh.queue }, applyCont th k)   -- "Everything is dandy, done."
    else some (sh, { th with pc := .fullClose item k })              -- queue.Full
  | .fullClose item k =>
    if cfg.block then some (closeConn sh item, failPut th item k .fullPool)
    else some (closeConn sh item, { th with pc := .warn item k })
  | .warn item k =>
    -- `pool.qsize()` on the queue object bound at `putLoad` (it raised `queue.Full`, so it is the
    -- queue, whatever `self.pool` is by now): reads the queue, cannot fail
    some (sh, { th with pc := .discard item k })
  | .discard item k => some (closeConn sh item, applyCont th k)
  | .closeSwap =>
    match sh.poolRef with
    | none => some (sh, finish th .ok)            -- already closed (or a concurrent closer swapped first)
    | some _ => some ({ sh with poolRef := none }, { th with pc := .drain })
  | .drain =>
    match sh.queue with
    | x :: q => some ({ sh with queue := q }, { th with pc := .drainClose x })
    | [] => some (sh, finish th .ok)
  | .drainClose x => some (closeConn sh x, { th with pc := .drain })

/-- one step of thread `tid` (starting its next op when idle) -/
def tstep (cfg : Cfg) (tid : Nat) (sh : Shared) (th : Thread) : Option (Shared × Thread) :=
  match th.pc with
  | .idle =>
    match th.prog with
    | [] => none
    | .req f l st :: _ => tstepPc cfg tid sh th (.getCheck f l st)
    | .close :: _ => tstepPc cfg tid sh th .closeSwap
    | .release :: _ =>
      match th.resp with
      | none => some (sh, finish th .ok)             -- `if not self._connection: return`
      | some c =>
        if th.rclose then
          -- the body of a `Connection: close` response is read to its end: the socket is closed;
          -- `release_conn` → `_put_conn(conn)` follow as steps of their own
          some (closeConn sh (some c),
                { th with resp := none, rclose := false, pc := .putCheck (some c) .rel })
        else tstepPc cfg tid sh { th with resp := none } (.putCheck (some c) .rel)
  | pc => tstepPc cfg tid sh th pc

/-- scheduler choice `t`; `none` when thread `t` does not exist, has finished or is blocked -/
def step (s : State) (t : Nat) : Option State :=
  match s.threads[t]? with
  | none => none
  | some th =>
    match tstep s.cfg t s.sh th with
    | none => none
    | some (sh', th') => some { s with sh := sh', threads := s.threads.set t th' }

def enabled (s : State) (t : Nat) : Bool := (step s t).isSome

/-- a schedule is a list of thread ids; a choice that is not enabled is skipped -/
def runFrom (s : State) (σ : List Nat) : State := σ.foldl (fun s t => (step s t).getD s) s

def run (cfg : Cfg) (progs : List (List Op)) (σ : List Nat) : State := runFrom (init cfg progs) σ

def Thread.done (th : Thread) : Bool :=
  match th.pc, th.prog with
  | .idle, [] => true
  | _, _ => false

def allDone (s : State) : Bool := s.threads.all Thread.done

/-- connections a thread holds: in its current request / put, or in a streaming response -/
def Thread.pcConn (th : Thread) : Option ConnId :=
  match th.pc with
  | .dropClose c .. => some c
  | .send c .. => some c
  | .recv c .. => some c
  | .putCheck i _ | .putLoad i _ | .putQ i _ | .fullClose i _ | .warn i _ | .discard i _ => i
  | .drainClose x => x
  | _ => none

def Thread.owned (th : Thread) : List ConnId := th.pcConn.toList ++ th.resp.toList ++ th.leaked

def holds (th : Thread) (c : ConnId) : Bool := th.owned.contains c

/-- indices of the threads holding connection `c` -/
def holders (s : State) (c : ConnId) : List Nat :=
  (List.range s.threads.length).filter (fun t => match s.threads[t]? with
    | some th => holds th c | none => false)

def queueConns (sh : Shared) : List ConnId := sh.queue.filterMap id

/-- after the pool object has been dropped (`weakref.finalize` drains the queue): the sockets
still open -/
def openAfterDrop (s : State) : List ConnId := s.sh.openC.filter (fun c => !(queueConns s.sh).contains c)

def results (s : State) : List (List (Op × Res)) := s.threads.map (·.results)

end U3.PoolConc
