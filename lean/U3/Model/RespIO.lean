import U3.Base.Str
/-!
# Response reading, layers 0 and 1: socket + `io.BufferedReader`, and `http.client.HTTPResponse`

Layer 0 (`Fp`) is the `BufferedReader` that `socket.makefile("rb")` hands to `http.client`
(CPython 3.12 `Modules/_io/bufferedio.c`, buffer size 8192): `read(n)`, `read1(n)`, `read()`,
`readline()` over a socket that delivers at most `seg` bytes per `recv` and reports EOF once the
wire bytes are used up.  Layer 1 (`H`) transcribes the body readers of CPython 3.12.1
`http/client.py` (`read`, `read1`, `_read_chunked`, `_read1_chunked`, `_get_chunk_left`,
`_read_next_chunk_size`, `_read_and_discard_trailer`, `_safe_read`, `_close_conn`, `close`) at the
granularity urllib3 calls them.  Both are *modelled, not verified* (DESIGN §5.4); the
correspondence run validates them through urllib3.
-/
namespace U3.Resp
open U3

/-! ## bytes helpers -/

def LF : Nat := 10
def CR : Nat := 13
def crlf : Bytes := [13, 10]

/-- index of the first `c`, if any -/
def indexOf? (c : Nat) : Bytes → Option Nat
  | [] => none
  | x :: t => if x = c then some 0 else (indexOf? c t).map (· + 1)

/-- Python `int(tok, 16)` for a `bytes` token: optional surrounding ASCII white space, optional
sign, optional `0x`/`0X`, hex digits with single underscores between them.
`none` = `ValueError`.  The sign is returned separately (`true` = negative). -/
def isSpaceC (c : Nat) : Bool := c = 32 || (9 ≤ c && c ≤ 13)

def stripL (s : Bytes) : Bytes := s.dropWhile isSpaceC
def stripR (s : Bytes) : Bytes := (s.reverse.dropWhile isSpaceC).reverse
def strip (s : Bytes) : Bytes := stripR (stripL s)

/-- digits with `_` separators: `prevUnderscore` forbids `__`, a trailing `_` is rejected -/
def digitsVal (base : Nat) (dv : Nat → Option Nat) : Bytes → Bool → Nat → Option Nat
  | [], prevU, acc => if prevU then none else some acc
  | c :: t, prevU, acc =>
    if c = 95 then (if prevU then none else digitsVal base dv t true acc)
    else match dv c with
      | some d => if d < base then digitsVal base dv t false (acc * base + d) else none
      | none => none

def pyIntBody (base : Nat) (s : Bytes) : Option Nat :=
  -- after the sign: optional prefix (base 16 only), one `_` allowed after the prefix
  let s := match base, s with
    | 16, 48 :: x :: t => if x = 120 ∨ x = 88 then (match t with | 95 :: t' => t' | _ => t) else s
    | _, _ => s
  match s with
  | [] => none
  | c :: _ => if c = 95 then none else digitsVal base hexVal s false 0

/-- `(negative, magnitude)` -/
def pyInt (base : Nat) (s : Bytes) : Option (Bool × Nat) :=
  let s := strip s
  match s with
  | 45 :: t => (pyIntBody base t).map (fun n => (true, n))
  | 43 :: t => (pyIntBody base t).map (fun n => (false, n))
  | _ => (pyIntBody base s).map (fun n => (false, n))

/-! ## Layer 0: `BufferedReader` over a segmenting socket -/

def bufSize : Nat := 8192

structure Fp where
  buf : Bytes            -- read-ahead buffer (unread part)
  wire : Bytes           -- bytes the peer has sent and the client has not yet `recv`ed; then EOF
  seg : Nat              -- max bytes per `recv`; 0 = unlimited
deriving Repr, DecidableEq

def Fp.content (f : Fp) : Bytes := f.buf ++ f.wire

/-- number of bytes one `recv(want)` may deliver -/
def clip (seg want : Nat) : Nat := if seg = 0 then want else min want seg

/-- `_bufferedreader_read_generic`, first loop: reads of whole multiples of the buffer size go
directly into the result -/
def readDirect (seg : Nat) : Nat → Bytes → Nat → Bytes → Bytes × Bytes × Nat × Bool
  | 0, wire, rem, acc => (acc, wire, rem, false)
  | fuel + 1, wire, rem, acc =>
    let r := rem - rem % bufSize
    if r = 0 then (acc, wire, rem, false)
    else match wire with
      | [] => (acc, [], rem, true)
      | _ :: _ =>
        let k := clip seg r
        readDirect seg fuel (wire.drop k) (rem - min k wire.length) (acc ++ wire.take k)

/-- second loop: fill the buffer (at most `bufSize - filled` per `recv`) and copy -/
def readFill (seg : Nat) : Nat → Bytes → Nat → Nat → Bytes → Bytes × Bytes × Bytes
  | 0, wire, _, _, acc => (acc, wire, [])
  | fuel + 1, wire, rem, filled, acc =>
    if rem = 0 ∨ bufSize ≤ filled then (acc, wire, [])
    else
      let k := clip seg (bufSize - filled)
      let got := wire.take k
      if got.isEmpty then (acc, wire, [])
      else if got.length < rem then
        readFill seg fuel (wire.drop k) (rem - got.length) (filled + got.length) (acc ++ got)
      else (acc ++ got.take rem, wire.drop k, got.drop rem)

/-- `BufferedReader.read(n)` -/
def fpRead (f : Fp) (n : Nat) : Bytes × Fp :=
  if n ≤ f.buf.length then (f.buf.take n, { f with buf := f.buf.drop n })
  else
    let (acc, wire, rem, eof) := readDirect f.seg (f.wire.length + 1) f.wire (n - f.buf.length) f.buf
    if eof then (acc, { f with buf := [], wire := wire })
    else
      let (acc, wire, buf) := readFill f.seg (wire.length + 1) wire rem 0 acc
      (acc, { f with buf := buf, wire := wire })

/-- `BufferedReader.read1(n)`, `n ≥ 0` (callers turn `-1` into `bufSize`) -/
def fpRead1 (f : Fp) (n : Nat) : Bytes × Fp :=
  if n = 0 then ([], f)
  else if !f.buf.isEmpty then (f.buf.take n, { f with buf := f.buf.drop n })
  else
    let k := clip f.seg n
    (f.wire.take k, { f with wire := f.wire.drop k })

/-- `BufferedReader.read()` -/
def fpReadAll (f : Fp) : Bytes × Fp := (f.content, { f with buf := [], wire := [] })

/-- the refill loop of `_buffered_readline` -/
def readlineLoop (seg : Nat) : Nat → Bytes → Bytes → Bytes × Bytes × Bytes
  | 0, wire, acc => (acc, wire, [])
  | fuel + 1, wire, acc =>
    let k := clip seg bufSize
    let got := wire.take k
    if got.isEmpty then (acc, wire, [])
    else match indexOf? LF got with
      | some i => (acc ++ got.take (i + 1), wire.drop k, got.drop (i + 1))
      | none => readlineLoop seg fuel (wire.drop k) (acc ++ got)

/-- `BufferedReader.readline()` (no limit; `http.client`'s `_MAXLINE + 1` limit is never reached
by generated inputs) -/
def fpReadline (f : Fp) : Bytes × Fp :=
  match indexOf? LF f.buf with
  | some i => (f.buf.take (i + 1), { f with buf := f.buf.drop (i + 1) })
  | none =>
    let (line, wire, buf) := readlineLoop f.seg (f.wire.length + 1) f.wire f.buf
    (line, { f with buf := buf, wire := wire })

/-! ## Layer 1: `http.client.HTTPResponse` -/

inductive HErr
  | incompleteRead        -- http.client.IncompleteRead (an HTTPException)
  | attributeError        -- `self.fp` is `None` where the code dereferences it
  | unsupported           -- outside the modelled domain (negative chunk size)
deriving Repr, DecidableEq

structure H where
  fp : Option Fp          -- `self.fp`; `none` after `_close_conn`
  closed : Bool           -- the `io.IOBase` closed flag, set by `HTTPResponse.close()` only
  chunked : Bool
  chunkLeft : Option Nat
  length : Option Nat
  head : Bool             -- `_method == "HEAD"`
  willClose : Bool
deriving Repr, DecidableEq

def H.closeConn (h : H) : H := { h with fp := none }
/-- `HTTPResponse.close()` -/
def H.close (h : H) : H := { h with closed := true, fp := none }
def H.isclosed (h : H) : Bool := h.fp.isNone

/-- `_safe_read(amt)` -/
def hSafeRead (h : H) (amt : Nat) : Except HErr Bytes × H :=
  match h.fp with
  | none => (.error .attributeError, h)
  | some f =>
    let (d, f') := fpRead f amt
    let h' := { h with fp := some f' }
    if d.length < amt then (.error .incompleteRead, h') else (.ok d, h')

/-- `self.fp.readline()` as used by urllib3's `read_chunked` and by `http.client` -/
def hFpReadline (h : H) : Except HErr Bytes × H :=
  match h.fp with
  | none => (.error .attributeError, h)
  | some f => let (l, f') := fpReadline f; (.ok l, { h with fp := some f' })

/-- strip chunk extensions as `http.client` does (`line[:line.find(b";")]`) -/
def cutExt (line : Bytes) : Bytes :=
  match indexOf? 59 line with
  | some i => line.take i
  | none => line

inductive SizeLine
  | ok (n : Nat)
  | valueError
  | negative
deriving Repr, DecidableEq

def parseSize (tok : Bytes) : SizeLine :=
  match pyInt 16 tok with
  | none => .valueError
  | some (neg, n) => if neg ∧ n ≠ 0 then .negative else .ok n

/-- `_read_and_discard_trailer` -/
def hDiscardTrailer : Nat → H → Except HErr Unit × H
  | 0, h => (.ok (), h)
  | fuel + 1, h =>
    match hFpReadline h with
    | (.error e, h') => (.error e, h')
    | (.ok line, h') =>
      if line.isEmpty ∨ line = crlf ∨ line = [LF] then (.ok (), h') else hDiscardTrailer fuel h'

def H.avail (h : H) : Nat := match h.fp with | none => 0 | some f => f.content.length

/-- `_get_chunk_left` (with `_read_next_chunk_size` inlined): returns `self.chunk_left` -/
def hGetChunkLeft (h : H) : Except HErr (Option Nat) × H :=
  match h.chunkLeft with
  | some (n + 1) => (.ok (some (n + 1)), h)
  | cl =>
    -- `if chunk_left is not None: self._safe_read(2)`
    let (r0, h) := match cl with
      | some _ => hSafeRead h 2
      | none => (.ok [], h)
    match r0 with
    | .error e => (.error e, h)
    | .ok _ =>
      match hFpReadline h with
      | (.error e, h) => (.error e, h)
      | (.ok line, h) =>
        match parseSize (cutExt line) with
        | .valueError => (.error .incompleteRead, h.closeConn)   -- ValueError → IncompleteRead(b"")
        | .negative => (.error .unsupported, h)
        | .ok 0 =>
          match hDiscardTrailer (h.avail + 1) h with
          | (.error e, h) => (.error e, h)
          | (.ok _, h) => (.ok none, { h.closeConn with chunkLeft := none })
        | .ok n => (.ok (some n), { h with chunkLeft := some n })

/-- `_read_chunked(amt)` -/
def hReadChunkedLoop : Nat → H → Option Nat → Bytes → Except HErr Bytes × H
  | 0, h, _, _ => (.error .unsupported, h)
  | fuel + 1, h, amt, acc =>
    match hGetChunkLeft h with
    | (.error e, h) => (.error e, h)
    | (.ok none, h) => (.ok acc, h)
    | (.ok (some cl), h) =>
      match amt with
      | some a =>
        if a ≤ cl then
          match hSafeRead h a with
          | (.error e, h) => (.error e, h)
          | (.ok d, h) => (.ok (acc ++ d), { h with chunkLeft := some (cl - a) })
        else
          match hSafeRead h cl with
          | (.error e, h) => (.error e, h)
          | (.ok d, h) => hReadChunkedLoop fuel { h with chunkLeft := some 0 } (some (a - cl)) (acc ++ d)
      | none =>
        match hSafeRead h cl with
        | (.error e, h) => (.error e, h)
        | (.ok d, h) => hReadChunkedLoop fuel { h with chunkLeft := some 0 } none (acc ++ d)

/-- `HTTPResponse.read(amt)` -/
def hRead (h : H) (amt : Option Nat) : Except HErr Bytes × H :=
  match h.fp with
  | none => (.ok [], h)
  | some f =>
    if h.head then (.ok [], h.closeConn)
    else if h.chunked then hReadChunkedLoop (h.avail + 2) h amt []
    else match amt with
      | some a =>
        let a' := match h.length with
          | some l => if a > l then l else a
          | none => a
        let (s, f') := fpRead f a'
        let h := { h with fp := some f' }
        if s.isEmpty ∧ a' ≠ 0 then (.ok s, h.closeConn)
        else match h.length with
          | some l =>
            let l' := l - s.length
            let h := { h with length := some l' }
            (.ok s, if l' = 0 then h.closeConn else h)
          | none => (.ok s, h)
      | none =>
        match h.length with
        | none => let (s, _) := fpReadAll f; (.ok s, h.closeConn)
        | some l =>
          match hSafeRead h l with
          | (.error e, h) => (.error e, h.closeConn)
          | (.ok s, h) => (.ok s, { h.closeConn with length := some 0 })

/-- `HTTPResponse.read1(n)`; `none` is the default `-1` -/
def hRead1 (h : H) (n : Option Nat) : Except HErr Bytes × H :=
  match h.fp with
  | none => (.ok [], h)
  | some f =>
    if h.head then (.ok [], h)
    else if h.chunked then
      match hGetChunkLeft h with
      | (.error e, h) => (.error e, h)
      | (.ok none, h) => (.ok [], h)
      | (.ok (some cl), h) =>
        if n = some 0 then (.ok [], h)
        else
          let n' := match n with
            | some k => if k ≤ cl then k else cl
            | none => cl
          match h.fp with
          | none => (.error .attributeError, h)
          | some f =>
            let (d, f') := fpRead1 f n'
            let h := { h with fp := some f', chunkLeft := some (cl - d.length) }
            if d.isEmpty then (.error .incompleteRead, h) else (.ok d, h)
    else
      -- `if self.length is not None and (n < 0 or n > self.length): n = self.length`
      let n' : Option Nat := match h.length, n with
        | some l, none => some l
        | some l, some k => if k > l then some l else some k
        | none, k => k
      let (d, f') := fpRead1 f (n'.getD bufSize)
      let h := { h with fp := some f' }
      if d.isEmpty ∧ n' ≠ some 0 then (.ok d, h.closeConn)
      else match h.length with
        | some l => (.ok d, { h with length := some (l - d.length) })
        | none => (.ok d, h)

/-! ### `begin()` : status line + headers are consumed with `readline`; the header *values* that
matter are passed in by the caller (the harness knows what it put on the wire) -/

def isBlankLine (l : Bytes) : Bool := l.isEmpty || l = crlf || l = [LF]

def skipHead : Nat → Fp → Fp
  | 0, f => f
  | fuel + 1, f =>
    let (l, f') := fpReadline f
    if isBlankLine l then f' else skipHead fuel f'

/-- Python `int(s)` (base 10) for an ASCII header value -/
def pyInt10 (s : Str) : Option (Bool × Nat) :=
  let s := strip s
  let body (t : Bytes) : Option Nat := match t with
    | [] => none
    | c :: _ => if c = 95 then none else
      digitsVal 10 (fun c => if isDigitC c then some (c - 48) else none) t false 0
  match s with
  | 45 :: t => (body t).map (fun n => (true, n))
  | 43 :: t => (body t).map (fun n => (false, n))
  | _ => (body s).map (fun n => (false, n))

/-- `begin()`'s framing decisions (HTTP/1.1 responses only) -/
def hBegin (f : Fp) (te : Option Str) (cl : Option Str) (connClose : Bool) (status : Nat) (head : Bool) : H :=
  let f := skipHead (f.content.length + 1) f
  let chunked : Bool := match te with
    | some t => !t.isEmpty && lower t == lit "chunked"
    | none => false
  let length : Option Nat := match cl with
    | some v => if v.isEmpty || chunked then none else
      match pyInt10 v with
      | some (neg, n) => if neg ∧ n ≠ 0 then none else some n
      | none => none
    | none => none
  let length := if status = 204 ∨ status = 304 ∨ (100 ≤ status ∧ status < 200) ∨ head then some 0 else length
  let willClose := connClose || (!chunked && length.isNone)
  { fp := some f, closed := false, chunked := chunked, chunkLeft := none, length := length,
    head := head, willClose := willClose }

end U3.Resp
