import U3.Base.Str
import U3.Gen.Multipart
/-!
# Model of `urllib3.fields` / `urllib3.filepost` (multipart/form-data encoding) — property C20

Transcribed from `src/urllib3/fields.py` (`format_multipart_header_param`, `guess_content_type`,
`RequestField.{__init__, from_tuples, _render_parts, render_headers, make_multipart}`),
`src/urllib3/filepost.py` (`choose_boundary`, `iter_field_objects`, `encode_multipart_formdata`) and
the `Content-Type` line of `request_encode_body` (`_request_methods.py`).

`str` = code points (`Str`), `bytes` = `Bytes`.  A `bytes` parameter value is decoded by the code with
`value.decode("utf-8")` before escaping; the model takes parameter values as code points (the decoder
is CPython's and is not modelled).  `mimetypes.guess_type` is a parameter `mt` (oracle).

The second half of the file is an independent **strict reference parser** for the wire format
(`parseMultipart`, `parseDisposition`): it shares nothing with the encoder except the generic
"split at the first occurrence" function `cut`.

String constants are written as numeric code-point lists so that `decide`/`simp` can evaluate them
(a `String` literal is not kernel-reducible any more).
-/
namespace U3.Multipart
open U3

/-- the exception classes the encoder can raise on the modelled domain -/
inductive Err where
  | unicodeEncodeError
deriving Repr, DecidableEq

/-! ## codecs -/

/-- strict UTF-8 of one code point (`str.encode("utf-8")`): lone surrogates fail -/
def utf8Char (c : Nat) : Option Bytes :=
  if c < 0x80 then some [c]
  else if c < 0x800 then some [0xC0 + c / 64, 0x80 + c % 64]
  else if c < 0x10000 then
    if 0xD800 ≤ c ∧ c ≤ 0xDFFF then none
    else some [0xE0 + c / 4096, 0x80 + c / 64 % 64, 0x80 + c % 64]
  else if c < 0x110000 then
    some [0xF0 + c / 262144, 0x80 + c / 4096 % 64, 0x80 + c / 64 % 64, 0x80 + c % 64]
  else none

/-- `s.encode("utf-8")`; `none` = `UnicodeEncodeError` -/
def utf8 : Str → Option Bytes
  | [] => some []
  | c :: t =>
    match utf8Char c, utf8 t with
    | some a, some b => some (a ++ b)
    | _, _ => none

/-- `s.encode("latin-1")`; `none` = `UnicodeEncodeError` -/
def latin1 (s : Str) : Option Bytes := if s.all (· < 256) then some s else none

/-! ## constants -/

/-- `"Content-Disposition"` -/
def cdName : Str := [67, 111, 110, 116, 101, 110, 116, 45, 68, 105, 115, 112, 111, 115, 105, 116, 105, 111, 110]
/-- `"Content-Type"` -/
def ctName : Str := [67, 111, 110, 116, 101, 110, 116, 45, 84, 121, 112, 101]
/-- `"Content-Location"` -/
def clName : Str := [67, 111, 110, 116, 101, 110, 116, 45, 76, 111, 99, 97, 116, 105, 111, 110]
/-- `"form-data"` -/
def formData : Str := [102, 111, 114, 109, 45, 100, 97, 116, 97]
/-- `"name"` -/
def nameKey : Str := [110, 97, 109, 101]
/-- `"filename"` -/
def filenameKey : Str := [102, 105, 108, 101, 110, 97, 109, 101]
/-- `"application/octet-stream"` -/
def octetStream : Str := [97, 112, 112, 108, 105, 99, 97, 116, 105, 111, 110, 47, 111, 99, 116, 101, 116, 45, 115, 116, 114, 101, 97, 109]
/-- `"multipart/form-data; boundary="` -/
def ctPrefix : Str := [109, 117, 108, 116, 105, 112, 97, 114, 116, 47, 102, 111, 114, 109, 45, 100, 97, 116, 97, 59, 32, 98, 111, 117, 110, 100, 97, 114, 121, 61]

def crlf : List Nat := [13, 10]
def dashdash : List Nat := [45, 45]
/-- `": "` -/
def colonSp : List Nat := [58, 32]
/-- `"; "` -/
def semiSp : List Nat := [59, 32]

/-! ## `format_multipart_header_param` -/

/-- one character of `value.translate(table)`; the table is read from the source on every run -/
def escChar (c : Nat) : Str :=
  match Gen.escapeTable.lookup c with
  | some r => r
  | none => [c]

/-- `value.translate({10: "%0A", 13: "%0D", 34: "%22"})` -/
def escape (v : Str) : Str := v.flatMap escChar

/-- `f'{name}="{value}"'` with the escaped value -/
def formatParam (name value : Str) : Str := name ++ [61, 34] ++ escape value ++ [34]

/-! ## `RequestField` -/

inductive Data where
  | str (s : Str)
  | bytes (b : Bytes)
deriving Repr, DecidableEq

/-- `self.headers` is a `dict[str, str | None]`: insertion-ordered association list -/
abbrev HeaderDict := List (Str × Option Str)

structure RequestField where
  name : Str
  filename : Option Str
  data : Data
  headers : HeaderDict
deriving Repr, DecidableEq

/-- `d[k] = v` (an existing key keeps its position) -/
def dictSet : HeaderDict → Str → Option Str → HeaderDict
  | [], k, v => [(k, v)]
  | (k', v') :: t, k, v => if k' = k then (k, v) :: t else (k', v') :: dictSet t k v

/-- `a or d` for `a : str | None` -/
def strOr (a : Option Str) (d : Str) : Str :=
  match a with
  | some s => if s.isEmpty then d else s
  | none => d

/-- `_render_parts`: `"; ".join(formatParam(n, v) for n, v in parts if v is not None)` -/
def renderParts (parts : List (Str × Option Str)) : Str :=
  joinWith semiSp (parts.filterMap fun p => p.2.map (formatParam p.1))

/-- the `Content-Disposition` value computed by `make_multipart` -/
def dispositionValue (cd : Option Str) (name : Str) (filename : Option Str) : Str :=
  strOr cd formData ++ joinWith semiSp [[], renderParts [(nameKey, some name), (filenameKey, filename)]]

/-- `make_multipart(content_disposition, content_type, content_location)` -/
def makeMultipart (f : RequestField) (cd ct cl : Option Str) : RequestField :=
  { f with headers :=
      dictSet (dictSet (dictSet f.headers cdName (some (dispositionValue cd f.name f.filename))) ctName ct) clName cl }

/-- Python truthiness of a `str | None` header value -/
def truthy : Option Str → Option Str
  | some v => if v.isEmpty then none else some v
  | none => none

/-- the `(name, value)` pairs of the lines `render_headers` emits, in order: the `sort_keys` first
(`if self.headers.get(sort_key, False)`), then every other header with a truthy value -/
def headerLines (f : RequestField) : List (Str × Str) :=
  (Gen.sortKeys.filterMap fun k =>
      match f.headers.lookup k with
      | some v => (truthy v).map fun v => (k, v)
      | none => none)
  ++ f.headers.filterMap fun kv =>
      if Gen.sortKeys.contains kv.1 then none else (truthy kv.2).map fun v => (kv.1, v)

/-- `f"{name}: {value}"` -/
def headerLine (kv : Str × Str) : Str := kv.1 ++ colonSp ++ kv.2

/-- `render_headers`: `"\r\n".join(lines + ["\r\n"])` -/
def renderHeaders (f : RequestField) : Str :=
  joinWith crlf ((headerLines f).map headerLine ++ [crlf])

/-! ## `from_tuples`, `iter_field_objects` -/

/-- the value half of an old-style field tuple -/
inductive TupleValue where
  | plain (d : Data)                                            -- `value`
  | file2 (filename : Option Str) (d : Data)                    -- `(filename, data)`
  | file3 (filename : Option Str) (d : Data) (ct : Option Str)  -- `(filename, data, content_type)`
deriving Repr, DecidableEq

/-- `guess_content_type(filename)`; `mt` is `lambda fn: mimetypes.guess_type(fn)[0]` -/
def guessContentType (mt : Str → Option Str) (filename : Option Str) : Str :=
  match filename with
  | some fn => if fn.isEmpty then octetStream else strOr (mt fn) octetStream
  | none => octetStream

/-- `RequestField.from_tuples(fieldname, value)` -/
def fromTuples (mt : Str → Option Str) (name : Str) (v : TupleValue) : RequestField :=
  match v with
  | .plain d => makeMultipart ⟨name, none, d, []⟩ none none none
  | .file2 fn d => makeMultipart ⟨name, fn, d, []⟩ none (some (guessContentType mt fn)) none
  | .file3 fn d ct => makeMultipart ⟨name, fn, d, []⟩ none ct none

/-- an element of the `fields` argument (a `dict` is flattened to its `items()`) -/
inductive FieldSpec where
  | tuple (name : Str) (v : TupleValue)
  | obj (f : RequestField)
deriving Repr, DecidableEq

def fieldOf (mt : Str → Option Str) : FieldSpec → RequestField
  | .tuple n v => fromTuples mt n v
  | .obj f => f

/-- `iter_field_objects(fields)` -/
def iterFieldObjects (mt : Str → Option Str) (fs : List FieldSpec) : List RequestField :=
  fs.map (fieldOf mt)

/-! ## `encode_multipart_formdata` -/

/-- `binascii.hexlify(rand).decode()` -/
def hexlify (rand : Bytes) : Str := rand.flatMap fun x => [hexDigit (x / 16 % 16), hexDigit (x % 16)]

/-- `choose_boundary()` given the 16 bytes of `os.urandom(16)` -/
def chooseBoundary (rand : Bytes) : Str := hexlify rand

/-- the bytes written for `field.data` -/
def dataBytes : Data → Option Bytes
  | .str s => utf8 s
  | .bytes b => some b

/-- one iteration of the loop body, with the boundary already latin-1 encoded -/
def encodeField (b : Bytes) (f : RequestField) : Option Bytes :=
  match utf8 (renderHeaders f), dataBytes f.data with
  | some h, some d => some (dashdash ++ b ++ crlf ++ h ++ d ++ crlf)
  | _, _ => none

def encodeFields (b : Bytes) : List RequestField → Option Bytes
  | [] => some []
  | f :: t =>
    match encodeField b f, encodeFields b t with
    | some x, some r => some (x ++ r)
    | _, _ => none

/-- `encode_multipart_formdata(fields, boundary)` on the field objects: `(body, content_type)` -/
def encodeMultipart (fs : List RequestField) (boundary : Str) : Except Err (Bytes × Str) :=
  match latin1 boundary with
  | none => .error .unicodeEncodeError
  | some b =>
    match encodeFields b fs with
    | none => .error .unicodeEncodeError
    | some body => .ok (body ++ dashdash ++ b ++ dashdash ++ crlf, ctPrefix ++ boundary)

/-- the public entry point: `boundary = none` means "choose one from `rand`" -/
def encode (mt : Str → Option Str) (fields : List FieldSpec) (boundary : Option Str) (rand : Bytes) :
    Except Err (Bytes × Str) :=
  encodeMultipart (iterFieldObjects mt fields) (boundary.getD (chooseBoundary rand))

/-- `request_encode_body`: `headers.setdefault("Content-Type", content_type)` — the value of the
request's `Content-Type` header given what the caller's headers had under that name -/
def requestContentType (callerCT : Option Str) (encoderCT : Str) : Str := callerCT.getD encoderCT

/-! ## strict reference parser (independent of the encoder) -/

/-- split at the first occurrence of the delimiter `d`: `(before, after)` -/
def cut (d : List Nat) : List Nat → Option (List Nat × List Nat)
  | [] => if d = [] then some ([], []) else none
  | x :: xs =>
    if d.isPrefixOf (x :: xs) then some ([], (x :: xs).drop d.length)
    else (cut d xs).map (fun p => (x :: p.1, p.2))

def stripPrefix (p s : List Nat) : Option (List Nat) :=
  if p.isPrefixOf s then some (s.drop p.length) else none

structure Part where
  headers : List (Bytes × Bytes)     -- (name, value) of every header line, in order
  data : Bytes
deriving Repr, DecidableEq

/-- header block: lines `name: value CRLF` up to the first empty line; returns the headers and what
follows the empty line.  A line without `": "` is an error. -/
def parseHeaders : Nat → Bytes → Option (List (Bytes × Bytes) × Bytes)
  | 0, _ => none
  | fuel + 1, s =>
    if crlf.isPrefixOf s then some ([], s.drop 2)
    else
      match cut crlf s with
      | none => none
      | some (line, rest) =>
        match cut colonSp line with
        | none => none
        | some (k, v) =>
          match parseHeaders fuel rest with
          | none => none
          | some (hs, d) => some ((k, v) :: hs, d)

def parsePart (s : Bytes) : Option Part :=
  (parseHeaders (s.length + 1) s).map fun r => ⟨r.1, r.2⟩

/-- `s` is what follows a dash-boundary (`--boundary`): either the close marker `--CRLF` ending the
body, or `CRLF part delim …` where `delim = CRLF--boundary`.  No preamble, padding or epilogue. -/
def parseParts (delim : Bytes) : Nat → Bytes → Option (List Part)
  | 0, _ => none
  | fuel + 1, s =>
    if s = dashdash ++ crlf then some []
    else
      match stripPrefix crlf s with
      | none => none
      | some s1 =>
        match cut delim s1 with
        | none => none
        | some (pb, rest) =>
          match parsePart pb, parseParts delim fuel rest with
          | some p, some ps => some (p :: ps)
          | _, _ => none

/-- strict multipart/form-data parser for the given boundary (bytes) -/
def parseMultipart (boundary : Bytes) (body : Bytes) : Option (List Part) :=
  match stripPrefix (dashdash ++ boundary) body with
  | none => none
  | some s => parseParts (crlf ++ dashdash ++ boundary) (s.length + 1) s

/-- characters allowed in a disposition type / parameter name by the strict parser -/
def isTokenC (c : Nat) : Bool := isAlphaC c || isDigitC c || c == 45 || c == 95 || c == 42

def isToken (s : Bytes) : Bool := !s.isEmpty && s.all isTokenC

/-- `key="value"` (`; key="value"`)* — quoted strings with no raw `"`, CR or LF inside -/
def parseParams : Nat → Bytes → Option (List (Bytes × Bytes))
  | 0, _ => none
  | fuel + 1, s =>
    match cut [61, 34] s with
    | none => none
    | some (k, r1) =>
      match cut [34] r1 with
      | none => none
      | some (v, r2) =>
        if !isToken k || v.contains 13 || v.contains 10 then none
        else if r2.isEmpty then some [(k, v)]
        else
          match stripPrefix semiSp r2 with
          | none => none
          | some r3 => (parseParams fuel r3).map ((k, v) :: ·)

/-- strict `Content-Disposition` value parser: `type` or `type; k="v"; k="v"…` -/
def parseDisposition (v : Bytes) : Option (Bytes × List (Bytes × Bytes)) :=
  match cut semiSp v with
  | none => if isToken v then some (v, []) else none
  | some (ty, rest) =>
    if isToken ty then (parseParams (rest.length + 1) rest).map fun ps => (ty, ps) else none

/-- the parsed `Content-Disposition` of a part (`none`: header absent or malformed) -/
def Part.disposition (cdNameBytes : Bytes) (p : Part) : Option (Bytes × List (Bytes × Bytes)) :=
  match p.headers.lookup cdNameBytes with
  | some v => parseDisposition v
  | none => none

/-! ## what the fields specify (the expected parse) -/

def utf8Pair (kv : Str × Str) : Option (Bytes × Bytes) :=
  match utf8 kv.1, utf8 kv.2 with
  | some k, some v => some (k, v)
  | _, _ => none

/-- `some` of all the values, or `none` if one is `none` -/
def allSome {α : Type} : List (Option α) → Option (List α)
  | [] => some []
  | x :: t =>
    match x, allSome t with
    | some a, some r => some (a :: r)
    | _, _ => none

/-- the part a field specifies: its header lines (UTF-8) and its data bytes -/
def partOf (f : RequestField) : Option Part :=
  match allSome ((headerLines f).map utf8Pair), dataBytes f.data with
  | some hs, some d => some ⟨hs, d⟩
  | _, _ => none

/-- the bytes of a part between `--boundary CRLF` and `CRLF--boundary` -/
def partBytes (p : Part) : Bytes :=
  (p.headers.flatMap fun kv => kv.1 ++ colonSp ++ kv.2 ++ crlf) ++ crlf ++ p.data

end U3.Multipart
