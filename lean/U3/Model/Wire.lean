import U3.Base.Str
import U3.Gen.Wire
import U3.Gen.Collections
/-!
# Model of the HTTP/1.1 request serializer (C10, C11)

Transcribes `urllib3.connection.HTTPConnection.putrequest / putheader / request`,
`urllib3.util.request.body_to_chunks / set_file_position / rewind_body`, the parts of CPython 3.12
`http.client` on that path (`putrequest` incl. the `Host` computation, `_validate_method`,
`_validate_path`, `_validate_host`, `_encode_request`, `putheader`, `endheaders`/`_send_output`),
`urllib3.util.url._encode_target / _encode_invalid_chars / _remove_path_dot_segments`, the way
`HTTPConnectionPool.urlopen` / `PoolManager.urlopen` thread `body_pos` through retries and
redirects, and the header predicates of `urllib3.http2.connection`.

`str` = `List Nat` (code points), `bytes` = `List Nat` (< 256).  Stdlib functions that are *not*
modelled are parameters of `Cfg` (`urlsplit(url).netloc`, `.encode("idna")`).

The second half (`strictParse`, `deframe`) is **not** a transcription of anything in urllib3: it is
an independent, deliberately permissive request parser (line breaks: CRLF, bare CR, bare LF; lines
led by SP / HTAB are continuations) and a strict Content-Length / chunked body decoder, against
which the serializer is proved.
-/
namespace U3.Wire
open U3

inductive Exc
  | valueError | invalidURL | unicodeEncodeError | unicodeError | assertionError
  | unrewindableBody | locationParseError
deriving DecidableEq, Repr

/-! ## codecs -/

def encodeAscii (s : Str) : Except Exc Bytes :=
  if s.all (· < 128) then .ok s else .error .unicodeEncodeError

def encodeLatin1 (s : Str) : Except Exc Bytes :=
  if s.all (· < 256) then .ok s else .error .unicodeEncodeError

def isSurrogate (c : Nat) : Bool := 0xD800 ≤ c && c ≤ 0xDFFF

def utf8Char (c : Nat) : Bytes :=
  if c < 0x80 then [c]
  else if c < 0x800 then [0xC0 + c / 64, 0x80 + c % 64]
  else if c < 0x10000 then [0xE0 + c / 4096, 0x80 + c / 64 % 64, 0x80 + c % 64]
  else [0xF0 + c / 262144, 0x80 + c / 4096 % 64, 0x80 + c / 64 % 64, 0x80 + c % 64]

/-- `s.encode("utf-8", "surrogatepass")` -/
def utf8SP (s : Str) : Bytes := s.flatMap utf8Char

/-- `s.encode("utf-8")` -/
def encodeUtf8 (s : Str) : Except Exc Bytes :=
  if s.any isSurrogate then .error .unicodeEncodeError else .ok (utf8SP s)

/-! ## character classes / regexes (pins in `U3.Gen.Wire`) -/

/-- the complement of `_CONTAINS_CONTROL_CHAR_RE = [^-!#$%&'*+.^_`|~0-9a-zA-Z]` -/
def isTokenC (c : Nat) : Bool :=
  isAlphaC c || isDigitC c ||
  [45, 33, 35, 36, 37, 38, 39, 42, 43, 46, 94, 95, 96, 124, 126].contains c

/-- `_CONTAINS_CONTROL_CHAR_RE.search(method)` -/
def hasNonToken (m : Str) : Bool := m.any (fun c => !isTokenC c)
/-- `http.client._contains_disallowed_method_pchar_re = [\x00-\x1f]` -/
def hcMethodBad (m : Str) : Bool := m.any (· ≤ 0x1f)
/-- `http.client._contains_disallowed_url_pchar_re = [\x00-\x20\x7f]` -/
def hcUrlBadC (c : Nat) : Bool := c ≤ 0x20 || c == 0x7f
def hcUrlBad (u : Str) : Bool := u.any hcUrlBadC

def isWS (c : Nat) : Bool := c == 32 || c == 9
/-- `\s` of a bytes pattern -/
def isReSpace (c : Nat) : Bool := c == 32 || (9 ≤ c && c ≤ 13)

/-- `http.client._is_legal_header_name = rb'[^:\s][^:\r\n]*'` (fullmatch) -/
def legalHeaderName : Bytes → Bool
  | [] => false
  | c :: t => !(c == 58 || isReSpace c) && t.all (fun x => !(x == 58 || x == 13 || x == 10))

def startsWS : Bytes → Bool
  | c :: _ => isWS c
  | [] => false

def startsLF : Bytes → Bool
  | c :: _ => c == 10
  | [] => false

/-- does `rb'\n(?![ \t])|\r(?![ \t\n])'` match at the start of this suffix -/
def illegalAt : Bytes → Bool
  | c :: t => (c == 10 && !startsWS t) || (c == 13 && !(startsWS t || startsLF t))
  | [] => false

/-- `http.client._is_illegal_header_value` (search) -/
def illegalHeaderValue : Bytes → Bool
  | [] => false
  | c :: t => illegalAt (c :: t) || illegalHeaderValue t

/-! ## bodies -/

inductive Chunk
  | bytes (b : Bytes)
  | str (s : Str)
  | buf (b : Bytes) (itemsize : Nat)       -- buffer-protocol object: `len()` counts items
deriving DecidableEq, Repr

/-- how an optional file method behaves: present and working / present but raising `OSError` /
attribute absent -/
inductive Avail | ok | raises | absent
deriving DecidableEq, Repr

/-- A file-like body.  `pieces` is its *read script*: the data in the portions in which the object
hands it out (bytes, or code points for a text file).  A `read(n)` never crosses the end of a piece,
so it may return FEWER than `n` items although more data follows (raw / unbuffered streams, pipes,
`makefile(buffering=0)`, custom `RawIOBase` objects); an empty piece is an empty `read()` result, i.e.
end-of-file, whatever follows it in the script.  A regular (buffered) file with content `c` is the
one-piece script `[c]`: every `read(n)` returns a full block until the data runs out. -/
structure FileB where
  pieces : List (List Nat)
  pos : Nat                 -- offset (`tell()`), counted over the pieces before the first empty one
  seek : Avail
  tell : Avail
  text : Bool               -- `isinstance(body, io.TextIOBase)`
deriving DecidableEq, Repr

/-- everything a reader can ever get out of a read script: the pieces before the first empty one -/
def scriptData : List (List Nat) → List Nat
  | [] => []
  | p :: ps => if p.isEmpty then [] else p ++ scriptData ps

/-- all the data of the file (from offset 0) -/
def FileB.content (f : FileB) : List Nat := scriptData f.pieces

/-- the result of `read(n)` at offset `k` of a read script: what is left of the piece that contains
offset `k`, at most `n` items of it; nothing at or after an empty piece -/
def readAt (n : Nat) : List (List Nat) → Nat → List Nat
  | [], _ => []
  | p :: ps, k =>
    if p.isEmpty then []
    else if k < p.length then (p.drop k).take n
    else readAt n ps (k - p.length)

/-- one `body.read(n)` call: the data returned and the file afterwards -/
def FileB.read (f : FileB) (n : Nat) : List Nat × FileB :=
  let d := readAt n f.pieces f.pos
  (d, { f with pos := f.pos + d.length })

/-- the loop of `chunk_readable()`:
`while True: datablock = body.read(blocksize); if not datablock: break; yield datablock` —
the blocks yielded and the file afterwards.  The first argument is recursion fuel
(`chunkReadable_spec` in `Lemmas/Wire`: `content.length + 1` is always enough, the loop ends with an
empty read and never because the fuel ran out). -/
def chunkReadableAux (n : Nat) : Nat → FileB → List (List Nat) × FileB
  | 0, f => ([], f)
  | fuel + 1, f =>
    let r := f.read n
    if r.1.isEmpty then ([], r.2)
    else
      let rest := chunkReadableAux n fuel r.2
      (r.1 :: rest.1, rest.2)

def chunkReadable (n : Nat) (f : FileB) : List (List Nat) × FileB :=
  chunkReadableAux n (f.content.length + 1) f

inductive Body
  | none
  | bytes (b : Bytes)
  | str (s : Str)
  | buffer (b : Bytes) (itemsize : Nat)
  | file (f : FileB)
  | iter (chunks : List Chunk) (oneShot : Bool)
deriving DecidableEq, Repr

structure ChunksCL where
  chunks : Option (List Chunk)
  contentLength : Option Nat
  after : Body                -- the body object once `chunks` has been iterated to the end

/-- `body_to_chunks(body, method, blocksize)` -/
def bodyToChunks (body : Body) (meth : Str) (blocksize : Nat) : Except Exc ChunksCL :=
  match body with
  | .none =>
    .ok ⟨none, if Gen.methodsNotExpectingBody.contains (upper meth) then none else some 0, .none⟩
  | .bytes b => .ok ⟨some [.bytes b], some b.length, .bytes b⟩
  | .str s => do
    let b ← encodeUtf8 s                                   -- to_bytes(body)
    pure ⟨some [.bytes b], some b.length, .str s⟩
  | .file f =>
    let r := chunkReadable blocksize f
    .ok ⟨some (r.1.map fun d => if f.text then Chunk.str d else Chunk.bytes d), none, .file r.2⟩
  | .buffer b k => .ok ⟨some [.buf b k], some b.length, .buffer b k⟩     -- mv.nbytes
  | .iter cs one => .ok ⟨some cs, none, if one then .iter [] true else .iter cs one⟩

/-- the bytes the caller means to send (str as UTF-8); `none` when a str is not encodable -/
def chunkBytes : Chunk → Option Bytes
  | .bytes b => some b
  | .str s => if s.any isSurrogate then none else some (utf8SP s)
  | .buf b _ => some b

def chunksPayload : List Chunk → Option Bytes
  | [] => some []
  | c :: t => do let a ← chunkBytes c; let r ← chunksPayload t; pure (a ++ r)

def payload : Body → Option Bytes
  | .none => some []
  | .bytes b => some b
  | .str s => chunkBytes (.str s)
  | .buffer b _ => some b
  | .file f => chunkBytes (if f.text then .str (f.content.drop f.pos) else .bytes (f.content.drop f.pos))
  | .iter cs _ => chunksPayload cs

/-! ## `"%x" % n`, `str(n)` -/

/-- digits of `n` in base 16 / 10, most significant first; the first argument is recursion fuel
(`n` itself is always enough) so that the definitions compute by plain structural recursion -/
def toHexAux : Nat → Nat → Bytes
  | 0, n => [hexDigit (n % 16)]
  | f + 1, n => if n < 16 then [hexDigit n] else toHexAux f (n / 16) ++ [hexDigit (n % 16)]

/-- `"%x" % n` -/
def toHex (n : Nat) : Bytes := toHexAux n n

def toDecAux : Nat → Nat → Bytes
  | 0, n => [48 + n % 10]
  | f + 1, n => if n < 10 then [48 + n] else toDecAux f (n / 10) ++ [48 + n % 10]

/-- `str(n)` -/
def toDec (n : Nat) : Bytes := toDecAux n n

/-! ## http.client / urllib3 `putrequest`, `putheader`, `request` -/

def crlf : Bytes := [13, 10]
def colonSp : Bytes := [58, 32]

structure Cfg where
  host : Str
  port : Nat
  defaultPort : Nat
  blocksize : Nat
  /-- `urlsplit(url).netloc` (consulted only when `url.startswith('http')`; stdlib, not modelled) -/
  netloc : Except Exc Str
  /-- result of the `.encode("idna")` fall-back should it be needed (stdlib, not modelled) -/
  idna : Except Exc Bytes
deriving Repr

/-- `x.encode("ascii")`, on `UnicodeEncodeError` `x.encode("idna")` -/
def asciiOrIdna (cfg : Cfg) (s : Str) : Except Exc Bytes :=
  match encodeAscii s with
  | .ok b => .ok b
  | .error _ => cfg.idna

/-- `http.client._strip_ipv6_iface` -/
def stripIpv6Iface (b : Bytes) : Except Exc Bytes :=
  if b.contains 37 then
    let pre := b.takeWhile (· != 37)
    if pre.head? = some 91 then .ok (pre ++ [93]) else .error .assertionError
  else .ok b

/-- a buffered header line in structured form: `name ++ b": " ++ value` -/
abbrev Hdr := Bytes × Bytes

def hdrLine (h : Hdr) : Bytes := h.1 ++ colonSp ++ h.2

/-- `http.client.HTTPConnection.putheader(header, value)` for one value; returns the buffered line
(as name / value).  `value` is either a `str` (encoded latin-1) or already `bytes`. -/
def hcPutheader (name : Str) (value : Str ⊕ Bytes) : Except Exc Hdr :=
  match encodeAscii name with                            -- header.encode('ascii')
  | .error e => .error e
  | .ok n =>
    if !legalHeaderName n then .error .valueError
    else
      match (match value with | .inl s => encodeLatin1 s | .inr b => .ok b) with
      | .error e => .error e
      | .ok v => if illegalHeaderValue v then .error .valueError else .ok (n, v)

/-- urllib3's `putheader`: `[]` = header skipped -/
def putheader (name value : Str) : Except Exc (List Hdr) :=
  if value != Gen.skipHeader then (hcPutheader name (.inl value)).map fun h => [h]
  else if !Gen.skippableHeaders.contains (lower name) then .error .valueError
  else .ok []

/-- the `Host` header line computed by `http.client.putrequest` -/
def hostValue (cfg : Cfg) (url : Str) : Except Exc (Str ⊕ Bytes) := do
  let netloc ← if isPrefix (lit "http") url then cfg.netloc else pure []
  if netloc != [] then
    let e ← asciiOrIdna cfg netloc
    let v ← stripIpv6Iface e
    pure (.inr v)
  else
    let e ← asciiOrIdna cfg cfg.host
    let e ← if cfg.host.contains 58 then stripIpv6Iface ([91] ++ e ++ [93]) else pure e
    if cfg.port = cfg.defaultPort then pure (.inr e)
    else pure (.inl (e ++ [58] ++ toDec cfg.port))

def hostLine (cfg : Cfg) (url : Str) : Except Exc Hdr :=
  match hostValue cfg url with
  | .error e => .error e
  | .ok v => hcPutheader (lit "Host") v

def httpVsn : Bytes := [72, 84, 84, 80, 47, 49, 46, 49]      -- "HTTP/1.1"

/-- `url or '/'` -/
def urlOrSlash (url : Str) : Str := if url.isEmpty then [47] else url

/-- urllib3 `putrequest` + `http.client.putrequest`: the buffered request line and header lines -/
def putrequest (cfg : Cfg) (meth url : Str) (skipHost skipAE : Bool) : Except Exc (Bytes × List Hdr) :=
  if hasNonToken meth then .error .valueError           -- urllib3's token check
  else if meth.isEmpty then .error .valueError          -- `if not method`
  else if hcMethodBad meth then .error .valueError      -- _validate_method
  else if hcUrlBad (urlOrSlash url) then .error .invalidURL      -- _validate_path(url or '/')
  else
    match encodeAscii (meth ++ [32] ++ urlOrSlash url ++ [32] ++ httpVsn) with      -- _encode_request
    | .error e => .error e
    | .ok rl =>
      match (if skipHost then .ok [] else (hostLine cfg (urlOrSlash url)).map fun l => [l]) with
      | .error e => .error e
      | .ok hostL =>
        match (if skipAE then .ok []
               else (hcPutheader (lit "Accept-Encoding") (.inl (lit "identity"))).map fun l => [l]) with
        | .error e => .error e
        | .ok aeL => .ok (rl, hostL ++ aeL)

def putCallerHeaders : List (Str × Str) → Except Exc (List Hdr)
  | [] => .ok []
  | (k, v) :: t =>
    match putheader k v with
    | .error e => .error e
    | .ok l =>
      match putCallerHeaders t with
      | .error e => .error e
      | .ok r => .ok (l ++ r)

/-- `len(chunk)` -/
def Chunk.len : Chunk → Nat
  | .bytes b => b.length
  | .str s => s.length
  | .buf b k => b.length / k

structure Sent where
  written : Bytes
  err : Option Exc
deriving Repr, DecidableEq

/-- the bytes of a chunk as `send` gets them (`str` chunks are encoded first) -/
def Chunk.data : Chunk → Except Exc Bytes
  | .str s => encodeUtf8 s
  | .bytes b => .ok b
  | .buf b _ => .ok b

/-- the `memoryview(chunk).nbytes` that goes into the chunk-size line (after the `str` → `bytes`
conversion): the number of bytes handed to `send`, whatever the item size of a buffer -/
def Chunk.sizeLine (_c : Chunk) (d : Bytes) : Nat := d.length

/-- the body loop of `request` -/
def sendChunks (chunked : Bool) : List Chunk → Sent
  | [] => ⟨[], none⟩
  | c :: t =>
    if c.len = 0 then sendChunks chunked t               -- `if not chunk: continue`
    else
      match c.data with
      | .error e => ⟨[], some e⟩
      | .ok d =>
        let r := sendChunks chunked t
        ⟨(if chunked then toHex (c.sizeLine d) ++ crlf ++ d ++ crlf else d) ++ r.written, r.err⟩

structure Framing where
  chunked : Bool
  lines : List Hdr
deriving Repr, DecidableEq

/-- framing decision of `request` -/
def framing (keys : List Str) (chunkedArg : Bool) (chunks : Option (List Chunk)) (cl : Option Nat) :
    Except Exc Framing :=
  if chunkedArg then
    if !keys.contains (lit "transfer-encoding") then
      (putheader (lit "Transfer-Encoding") (lit "chunked")).map (⟨true, ·⟩)
    else .ok ⟨true, []⟩
  else if keys.contains (lit "content-length") then .ok ⟨false, []⟩
  else if keys.contains (lit "transfer-encoding") then .ok ⟨true, []⟩
  else match cl with
    | none =>
      if chunks.isSome then (putheader (lit "Transfer-Encoding") (lit "chunked")).map (⟨true, ·⟩)
      else .ok ⟨false, []⟩
    | some n => (putheader (lit "Content-Length") (toDec n)).map (⟨false, ·⟩)

/-- everything `request` does before `endheaders()` sends: buffered request line and header lines,
framing flag, chunks, body-after -/
structure Prepared where
  reqLine : Bytes
  hdrs : List Hdr
  chunked : Bool
  chunks : Option (List Chunk)
  after : Body

def Prepared.lines (p : Prepared) : List Bytes := p.reqLine :: p.hdrs.map hdrLine

def headerKeys (headers : List (Str × Str)) : List Str := headers.map fun kv => lower kv.1

def prepare (cfg : Cfg) (meth url : Str) (headers : List (Str × Str)) (body : Body) (chunked : Bool) :
    Except Exc Prepared :=
  if hcUrlBad cfg.host then .error .invalidURL           -- HTTPConnection.__init__ → _validate_host
  else
    match putrequest cfg meth url ((headerKeys headers).contains (lit "host"))
            ((headerKeys headers).contains (lit "accept-encoding")) with
    | .error e => .error e
    | .ok l0 =>
      match bodyToChunks body meth cfg.blocksize with
      | .error e => .error e
      | .ok cc =>
        match framing (headerKeys headers) chunked cc.chunks cc.contentLength with
        | .error e => .error e
        | .ok fr =>
          match (if (headerKeys headers).contains (lit "user-agent") then .ok []
                 else putheader (lit "User-Agent") Gen.defaultUserAgent) with
          | .error e => .error e
          | .ok ua =>
            match putCallerHeaders headers with
            | .error e => .error e
            | .ok hs => .ok ⟨l0.1, l0.2 ++ fr.lines ++ ua ++ hs, fr.chunked, cc.chunks, cc.after⟩

/-- `b"\r\n".join(buffer + [b"", b""])` -/
def headBytes (lines : List Bytes) : Bytes := joinWith crlf (lines ++ [[], []])

/-- `b"0\r\n\r\n"` -/
def lastChunk : Bytes := [48, 13, 10, 13, 10]

structure Result where
  sent : Sent
  after : Body

/-- what `request` writes after the head -/
def bodyPhase (p : Prepared) : Sent :=
  let b := match p.chunks with | some cs => sendChunks p.chunked cs | none => ⟨[], none⟩
  match b.err with
  | some e => ⟨b.written, some e⟩
  | none => ⟨b.written ++ (if p.chunked then lastChunk else []), none⟩

/-- `HTTPConnection(host, port, blocksize=…).request(method, url, body, headers, chunked=…)` -/
def request (cfg : Cfg) (meth url : Str) (headers : List (Str × Str)) (body : Body) (chunked : Bool) :
    Result :=
  match prepare cfg meth url headers body chunked with
  | .error e => ⟨⟨[], some e⟩, body⟩
  | .ok p => ⟨⟨headBytes p.lines ++ (bodyPhase p).written, (bodyPhase p).err⟩, p.after⟩

def wireWritten (cfg : Cfg) (meth url : Str) (headers : List (Str × Str)) (body : Body) (chunked : Bool) : Bytes :=
  (request cfg meth url headers body chunked).sent.written

def serialize (cfg : Cfg) (meth url : Str) (headers : List (Str × Str)) (body : Body) (chunked : Bool) :
    Except Exc Bytes :=
  let r := request cfg meth url headers body chunked
  match r.sent.err with
  | some e => .error e
  | none => .ok r.sent.written

/-! ## target re-encoding done by `urlopen` (`_encode_target`) and by `parse_url` for the manager -/

/-- `_PERCENT_RE.subn(upper)`: upper-cases every `%HH` (leftmost, non-overlapping), counts them -/
def pctAt : Str → Bool
  | a :: b :: _ => isHexC a && isHexC b
  | _ => false

/-- `k` = number of following characters that belong to a `%HH` already recognised -/
def upperPercentsAux : Nat → Str → Str × Nat
  | _, [] => ([], 0)
  | k, x :: t =>
    if k > 0 then let r := upperPercentsAux (k - 1) t; (upperC x :: r.1, r.2)
    else if x = 37 && pctAt t then let r := upperPercentsAux 2 t; (x :: r.1, r.2 + 1)
    else let r := upperPercentsAux 0 t; (x :: r.1, r.2)

def upperPercents (s : Str) : Str × Nat := upperPercentsAux 0 s

def pctByte (b : Nat) : Bytes := [37, hexDigitU (b / 16), hexDigitU (b % 16)]

/-- `_encode_invalid_chars(component, allowed)` -/
def encodeInvalidChars (comp : Str) (allowed : List Nat) : Str :=
  let r := upperPercents comp
  let bytes := utf8SP r.1
  let isPE := r.2 == bytes.count 37
  bytes.flatMap fun b => if (isPE && b == 37) || (b < 128 && allowed.contains b) then [b] else pctByte b

def notQH (c : Nat) : Bool := !(c == 63 || c == 35)

/-- group 2 of `_TARGET_RE` given what follows the path: the query (up to `#`), if there is a `?` -/
def targetQuery : Str → Option Str
  | 63 :: q => some (q.takeWhile (· != 35))
  | _ => none

/-- what follows the (optional) query -/
def targetAfterQuery : Str → Str
  | 63 :: q => q.dropWhile (· != 35)
  | r => r

/-- `(?:#.*)?$` without DOTALL: a fragment may contain a line feed only as its very last character -/
def targetFragOk : Str → Bool
  | 35 :: f => let rest := f.dropWhile (· != 10); rest == [] || rest == [10]
  | _ => true

/-- `_encode_target(target)`; `_TARGET_RE = ^(/[^?#]*)(?:\?([^#]*))?(?:#.*)?$` has no DOTALL: a
fragment with a line feed anywhere but at the very end makes the match fail. -/
def encodeTarget (target : Str) : Except Exc Str :=
  match target with
  | 47 :: _ =>
    if !targetFragOk (targetAfterQuery (target.dropWhile notQH)) then .error .locationParseError
    else .ok (encodeInvalidChars (target.takeWhile notQH) Gen.wirePathChars ++
              (match targetQuery (target.dropWhile notQH) with
               | some q => 63 :: encodeInvalidChars q Gen.wireQueryChars
               | none => []))
  | _ => .error .locationParseError

/-- `_remove_path_dot_segments` -/
def removeDotSegments (path : Str) : Str :=
  let segs := splitOn1 47 path
  let out := segs.foldl (fun (o : List Str) s =>
    if s == [46] then o else if s != [46, 46] then o ++ [s] else o.dropLast) []
  let out := if isPrefix [47] path && (out.isEmpty || out.head? != some []) then [] :: out else out
  let endsWith (suf : Str) : Bool := suf.length ≤ path.length && path.drop (path.length - suf.length) == suf
  let out := if endsWith [47, 46] || endsWith [47, 46, 46] then out ++ [[]] else out
  joinWith [47] out

/-- what `PoolManager.urlopen` hands to the pool for `"http://<host>" ++ tail` where `tail` starts
with `/`, `?` or `#` or is empty: `parse_url(url).request_uri` -/
def managerTarget (tail : Str) : Str :=
  let path := tail.takeWhile notQH
  let r1 := tail.dropWhile notQH
  let query : Option Str := match r1 with
    | 63 :: q => some (q.takeWhile (· != 35))
    | _ => none
  let path := if path.isEmpty then path else encodeInvalidChars (removeDotSegments path) Gen.wirePathChars
  let query := query.map fun q => if q.isEmpty then q else encodeInvalidChars q Gen.wireQueryChars
  (if path.isEmpty then [47] else path) ++ (match query with | some q => 63 :: q | none => [])

/-- `HTTPConnectionPool.urlopen` for a target starting with `/` (not `//`): re-encode, then send -/
def poolSerialize (cfg : Cfg) (meth target : Str) (headers : List (Str × Str)) (body : Body) (chunked : Bool) :
    Except Exc Bytes := do
  let t ← encodeTarget target
  serialize cfg meth t headers body chunked

/-! ## `set_file_position` / `rewind_body`, and how `urlopen` threads `body_pos` -/

inductive BodyPos | none | int (n : Nat) | failedTell
deriving DecidableEq, Repr

/-- `rewind_body(body, body_pos)` with `body_pos` not `None` -/
def rewindBody (body : Body) (pos : BodyPos) : Except Exc Body :=
  match body, pos with
  | .file f, .int n =>                      -- `seek` may exist: only file-like bodies have one
    (match f.seek with
     | .ok => .ok (.file { f with pos := n })
     | .raises => .error .unrewindableBody
     | .absent => .error .unrewindableBody)  -- `elif isinstance(body_pos, int)`: no `seek()`
  | _, .failedTell => .error .unrewindableBody
  | _, .int _ => .error .unrewindableBody    -- an integer position, but nothing to `seek()` on
  | _, .none => .error .valueError           -- `body_pos` of another type (not reached by `urlopen`)

/-- `set_file_position(body, None)`: the recorded position (the body is left as it is) -/
def recordPos (body : Body) : BodyPos :=
  match body with
  | .file f => (match f.tell with
     | .ok => .int f.pos
     | .raises => .failedTell
     | .absent => .none)
  | _ => .none

/-- `set_file_position(body, pos)` -/
def setFilePosition (body : Body) (pos : BodyPos) : Except Exc (Body × BodyPos) :=
  match pos with
  | .none => .ok (body, recordPos body)
  | p => (rewindBody body p).map fun b => (b, p)

/-- what happens to one attempt -/
inductive Outcome
  | connErr          -- fails before anything is written (retried)
  | readErr          -- request sent, reading the response fails (retried)
  | retryStatus      -- e.g. 503 in `status_forcelist` (retried)
  | redirectKeep     -- 301/302/307/308: method and body kept
  | redirect303      -- 303: method := GET, body := None
  | ok               -- final response
deriving DecidableEq, Repr

inductive Level | pool | manager
deriving DecidableEq, Repr

structure Attempt where
  wire : Bytes
  after303 : Bool
deriving DecidableEq, Repr

structure HState where
  meth : Str
  headers : List (Str × Str)
  body : Body
  /-- the `body_pos` argument of the next `urlopen` call -/
  pos : BodyPos
  after303 : Bool
  /-- manager level only: the local `body_pos` of the `PoolManager.urlopen` call whose pool call is
  retrying; `none` at the entry of a `PoolManager.urlopen` call (nothing recorded yet) -/
  mgr : Option BodyPos

structure HResult where
  attempts : List Attempt
  result : Except Exc Unit

/-- `HTTPHeaderDict(headers)._prepare_for_method_change()` as seen through `.items()` -/
def pmc (headers : List (Str × Str)) : List (Str × Str) :=
  headers.filter fun kv => !((Gen.contentSpecificHeaders.map lower).contains (lower kv.1))

/-- `PoolManager.urlopen`: `body_pos = kw.get("body_pos")`, `if body_pos is None: body_pos =
set_file_position(kw.get("body"), None)` — evaluated at the entry of the call, before the pool call
consumes the body; kept while the pool call retries -/
def managerPos (st : HState) : BodyPos :=
  match st.mgr with
  | some m => m
  | none => match st.pos with
    | .none => recordPos st.body
    | p => p

/-- the `body_pos` the next `urlopen` call receives after a 301/302/307/308 redirect: the pool's
recursive call passes on its own (`pos1`), `PoolManager.urlopen`'s recursive call the one it recorded
itself (`mpos`) -/
def nextPos (lvl : Level) (pos1 mpos : BodyPos) : BodyPos :=
  match lvl with
  | .pool => pos1
  | .manager => mpos

/-- One `urlopen` call tree: every element of the history is the outcome of one attempt.  At pool
level (`HTTPConnectionPool.urlopen(redirect=True)`) every recursive call receives `body_pos`; at
manager level the pool is called with `redirect=False`, so retries stay inside the pool call (with
the pool's `body_pos`) while a redirect returns to `PoolManager.urlopen`, whose recursive call passes
the position it recorded itself.  After a 303 both drop the body and the recorded position. -/
def sendHistory (lvl : Level) (cfg : Cfg) (target : Str) (chunked : Bool) : List Outcome → HState → HResult
  | [], _ => ⟨[], .ok ()⟩
  | o :: rest, st =>
    let mpos := managerPos st
    match setFilePosition st.body st.pos with
    | .error e => ⟨[], .error e⟩
    | .ok (body1, pos1) =>
      if o = .connErr then
        sendHistory lvl cfg target chunked rest { st with body := body1, pos := pos1, mgr := some mpos }
      else
        let r := request cfg st.meth target st.headers body1 chunked
        let a : Attempt := ⟨r.sent.written, st.after303⟩
        match r.sent.err with
        | some e => ⟨[a], .error e⟩
        | none =>
          let next : Option HState := match o with
            | .ok | .connErr => none
            | .readErr | .retryStatus => some { st with body := r.after, pos := pos1, mgr := some mpos }
            | .redirectKeep =>
              some { st with body := r.after, pos := nextPos lvl pos1 mpos, mgr := none }
            | .redirect303 =>                  -- `body = None`, `body_pos = None`
              some { meth := lit "GET", headers := pmc st.headers, body := .none, after303 := true,
                     pos := .none, mgr := none }
          match next with
          | none => ⟨[a], .ok ()⟩
          | some st' =>
            let h := sendHistory lvl cfg target chunked rest st'
            ⟨a :: h.attempts, h.result⟩

/-! ## HTTP/2 header predicates (`urllib3.http2.connection`) -/

def isH2NameC (c : Nat) : Bool :=
  isLowerC c || isDigitC c || [33, 35, 36, 37, 38, 39, 42, 43, 45, 46, 94, 95, 96, 124, 126].contains c

/-- `RE_IS_LEGAL_HEADER_NAME = rb"^[!#$%&'*+\-.^_`|~0-9a-z]+\Z"` used with `.match`: `\Z` matches at
the very end only (unlike `$`, not before a trailing line feed), so this is a full match. -/
def h2LegalName (b : Bytes) : Bool :=
  !b.isEmpty && b.all isH2NameC

def h2EdgeC (c : Nat) : Bool := c == 32 || c == 13 || c == 10 || c == 9

/-- `RE_IS_ILLEGAL_HEADER_VALUE = rb"[\0\x00\x0a\x0d\r\n]|^[ \r\n\t]|[ \r\n\t]$"` (search) -/
def h2IllegalValue (b : Bytes) : Bool :=
  b.any (fun c => c == 0 || c == 10 || c == 13) ||
  (match b.head? with | some c => h2EdgeC c | none => false) ||
  (match b.getLast? with | some c => h2EdgeC c | none => false)
  -- (`$` before a trailing line feed adds nothing: a line feed anywhere is already illegal)

def lowerBytes (b : Bytes) : Bytes := b.map lowerC

/-- `HTTP2Connection.putheader(header, value)`: the pair appended to `_headers` -/
def h2Putheader (name value : Str) : Except Exc (Bytes × Bytes) :=
  match encodeUtf8 name with                             -- header.encode()
  | .error e => .error e
  | .ok n =>
    if !h2LegalName (lowerBytes n) then .error .valueError
    else
      match encodeUtf8 value with
      | .error e => .error e
      | .ok v => if h2IllegalValue v then .error .valueError else .ok (lowerBytes n, v)

/-! ## Independent request parser and body de-framer (specification side) -/

/-- if the input starts with a line terminator (CRLF, CR or LF): what follows it -/
def afterTerm : Bytes → Option Bytes
  | [] => none
  | x :: t =>
    if x = 13 then
      match t with
      | y :: u => if y = 10 then some u else some t
      | [] => some t
    else if x = 10 then some t
    else none

/-- one logical line: up to the first line terminator that is not followed by SP / HTAB (a
terminator followed by SP / HTAB is a continuation and stays in the line) -/
def takeLogical : Bytes → Option (Bytes × Bytes)
  | [] => none
  | x :: t =>
    match afterTerm (x :: t) with
    | some r =>
      if startsWS r then (takeLogical t).map fun p => (x :: p.1, p.2)
      else some ([], r)
    | none => (takeLogical t).map fun p => (x :: p.1, p.2)

/-- logical lines up to the first blank line; returns them and what follows the blank line -/
def parseLines : Nat → Bytes → Option (List Bytes × Bytes)
  | 0, _ => none
  | fuel + 1, w =>
    match afterTerm w with
    | some r => some ([], r)
    | none =>
      match takeLogical w with
      | none => none
      | some (l, r) => (parseLines fuel r).map fun p => (l :: p.1, p.2)

def ltrim (b : Bytes) : Bytes := b.dropWhile isWS
def trimOWS (b : Bytes) : Bytes := (ltrim (ltrim b).reverse).reverse

structure Request where
  method : Bytes
  target : Bytes
  headers : List (Bytes × Bytes)
  rest : Bytes                   -- everything after the blank line
deriving DecidableEq, Repr

/-- `name ":" OWS value OWS` -/
def parseHeaderLine (l : Bytes) : Option (Bytes × Bytes) :=
  let name := l.takeWhile (· != 58)
  match l.dropWhile (· != 58) with
  | _ :: v => if name.isEmpty then none else some (name, trimOWS v)
  | [] => none

def parseRequestLine (l : Bytes) : Option (Bytes × Bytes) :=
  match splitOn1 32 l with
  | [m, t, v] => if v == httpVsn && !m.isEmpty && !t.isEmpty && m.all isTokenC then some (m, t) else none
  | _ => none

def strictParse (w : Bytes) : Option Request :=
  match parseLines (w.length + 1) w with
  | some (rl :: hls, rest) => do
    if startsWS rl then none
    let (m, t) ← parseRequestLine rl
    let hs ← hls.mapM parseHeaderLine
    pure ⟨m, t, hs, rest⟩
  | _ => none

/-! ### de-framing -/

def ofHexAux : Bytes → Nat → Option Nat
  | [], acc => some acc
  | c :: cs, acc => match hexVal c with
    | some d => ofHexAux cs (acc * 16 + d)
    | none => none

/-- strict hex reader: at least one digit, hex digits only -/
def ofHex (s : Bytes) : Option Nat := if s.isEmpty then none else ofHexAux s 0

def ofDecAux : Bytes → Nat → Option Nat
  | [], acc => some acc
  | c :: cs, acc => if isDigitC c then ofDecAux cs (acc * 10 + (c - 48)) else none

def ofDec (s : Bytes) : Option Nat := if s.isEmpty then none else ofDecAux s 0

/-- strict chunked decoder: `hex CRLF data CRLF … 0 CRLF CRLF`, nothing after -/
def dechunk : Nat → Bytes → Option Bytes
  | 0, _ => none
  | fuel + 1, w =>
    let digits := w.takeWhile (fun c => (hexVal c).isSome)
    match ofHex digits, w.drop digits.length with
    | some n, 13 :: 10 :: r =>
      if n = 0 then (if r == crlf then some [] else none)
      else if r.length < n + 2 then none
      else if (r.drop n).take 2 != crlf then none
      else (dechunk fuel (r.drop (n + 2))).map fun p => r.take n ++ p
    | _, _ => none

inductive FrameKind | unframed | contentLength | chunked
deriving DecidableEq, Repr

def headerValues (hs : List (Bytes × Bytes)) (name : Str) : List Bytes :=
  (hs.filter fun kv => lower kv.1 == name).map (·.2)

/-- exactly-one-framing decoder: `none` when the message is ambiguous or malformed -/
def deframe (r : Request) : Option (FrameKind × Bytes) :=
  match headerValues r.headers (lit "content-length"), headerValues r.headers (lit "transfer-encoding") with
  | [], [] => if r.rest.isEmpty then some (.unframed, []) else none
  | [v], [] => match ofDec v with
    | some n => if r.rest.length = n then some (.contentLength, r.rest) else none
    | none => none
  | [], [v] => if lower v == lit "chunked" then (dechunk (r.rest.length + 1) r.rest).map fun p => (.chunked, p) else none
  | _, _ => none

end U3.Wire
