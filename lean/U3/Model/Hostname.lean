import U3.Base.Str
import U3.Gen.Ssl
/-!
# Model of certificate name / fingerprint matching

Transcribes, line by line where practical,

* `urllib3.util.ssl_match_hostname._dnsname_match`, `_ipaddress_match`, `match_hostname`;
* `urllib3.connection._match_hostname` (bracket stripping only for IP literals) together with
  `urllib3.util.ssl_.is_ipaddress` (the two regexes `_IPV4_RE`, `_BRACELESS_IPV6_ADDRZ_RE`);
* `urllib3.util.ssl_.assert_fingerprint` over an *uninterpreted* digest function;
* the part of CPython 3.12 `ipaddress.ip_address` (text → packed value) those functions rely on
  (modelled stdlib, validated by the correspondence run, see notes/C08.md).

`str.lower()` / `re.IGNORECASE` are modelled for ASCII only (`U3.lower`); the generators stay inside
that domain wherever case matters.
-/
namespace U3.Hostname
open U3

/-- exception classes the property distinguishes (class only, never the message) -/
inductive Exc where
  | certificateError      -- urllib3.util.ssl_match_hostname.CertificateError
  | valueError            -- ValueError (empty cert; `ipaddress.ip_address` on a bad IP SAN)
  | sslError              -- urllib3.exceptions.SSLError
  | binasciiError         -- binascii.Error from `unhexlify` (non-hex digit / odd length)
  | unicodeEncodeError    -- `fingerprint.encode()` (UTF-8) on a pin holding a lone surrogate
deriving Repr, DecidableEq

def dot : Nat := 46        -- '.'
def star : Nat := 42       -- '*'
def colon : Nat := 58      -- ':'
def percent : Nat := 37    -- '%'
def slash : Nat := 47      -- '/'
def lbr : Nat := 91        -- '['
def rbr : Nat := 93        -- ']'
def nl : Nat := 10         -- '\n'

/-- `"xn--"` -/
def xnPrefix : Str := [120, 110, 45, 45]
/-- `"DNS"` -/
def kDNS : Str := [68, 78, 83]
/-- `"IP Address"` -/
def kIP : Str := [73, 80, 32, 65, 100, 100, 114, 101, 115, 115]
/-- `"commonName"` -/
def kCN : Str := [99, 111, 109, 109, 111, 110, 78, 97, 109, 101]

/-! ## `_dnsname_match`

The Python code builds the regular expression

    \A  P0  \.  esc(r1)  \.  …  \.  esc(rn)  \Z          (re.IGNORECASE)

where `r1 … rn` are the labels of `dn` after the first one and `P0` is `[^.]+` (left-most label is
exactly `*`), `esc(leftmost)` (an `xn--` prefix, in any capitalisation, on either side) or
`esc(leftmost)` with every `\*` replaced by `[^.]*`.

*Why the structural matcher below accepts the same language.*  Every piece comes out of
`dn.split(".")`, so none of the literals contains a dot, and `[^.]+`, `[^.]*` match no dot.  Hence a
string `w` is matched iff `w = w0 . w1 . … . wn` with `w0 ∈ L(P0)` and `wi` equal to `ri` up to
case; since no `wi` contains a dot this decomposition is exactly `w.split(".")`.  So: split the host
name on dots, demand the same number of labels, match the first label against `P0` and compare the
others case-insensitively.  `re.escape` only protects characters, `\A…\Z` anchors at the very ends
(`\Z`, unlike `$`, does not tolerate a trailing newline) and `[^.]` also matches a newline, so a
literal piece matches exactly the strings equal to it up to (ASCII) case.  `esc(leftmost).replace(
"\*", "[^.]*")` hits exactly the escaped stars: a `*` in the escaped text is always preceded by its
own escaping backslash.  Matching `P0 = c1 … [^.]* … ck` against a label is a glob match in which
`*` stands for any dot-free string; backtracking order is irrelevant for acceptance.
This equivalence is validated on every run by the exhaustive correspondence of `dns` lines.
-/

/-- `[^.]*` followed by the continuation `k` -/
def starAux (k : Str → Bool) : Str → Bool
  | [] => k []
  | c :: cs => k (c :: cs) || (c != dot && starAux k cs)

/-- glob match of one label pattern (every `*` is `[^.]*`, other characters literal, IGNORECASE) -/
def globMatch : Str → Str → Bool
  | [], t => t.isEmpty
  | p :: ps, t =>
    if p = star then starAux (globMatch ps) t
    else match t with
      | [] => false
      | c :: cs => lowerC p == lowerC c && globMatch ps cs

/-- the first piece of the pattern -/
inductive LeftPat where
  | plus                  -- `[^.]+`
  | literal (s : Str)     -- `re.escape(leftmost)`
  | glob (s : Str)        -- `re.escape(leftmost).replace(r"\*", "[^.]*")`
deriving Repr, DecidableEq

def matchLeft : LeftPat → Str → Bool
  | .plus, l => !l.isEmpty && l.all (· != dot)
  | .literal s, l => lower s == lower l
  | .glob s, l => globMatch s l

/-- the remaining pieces: label-wise equality up to case, same number of labels -/
def labelsEqCI : List Str → List Str → Bool
  | [], [] => true
  | a :: as, b :: bs => lower a == lower b && labelsEqCI as bs
  | _, _ => false

/-- `pat.match(hostname)` for `pat = \A P0 \. r1 … \. rn \Z` -/
def matchPats (p : LeftPat) (remainder : List Str) (hostname : Str) : Bool :=
  match splitOn1 dot hostname with
  | [] => false                      -- unreachable: `split` yields at least one piece
  | h0 :: hs => matchLeft p h0 && labelsEqCI remainder hs

/-- `_dnsname_match(dn, hostname, max_wildcards=1)` (result taken by truthiness) -/
def dnsnameMatch (dn hostname : Str) (maxWildcards : Nat := 1) : Except Exc Bool :=
  if dn.isEmpty then .ok false                                   -- `if not dn: return False`
  else match splitOn1 dot dn with
  | [] => .ok false                                              -- unreachable
  | leftmost :: remainder =>
    let wildcards := leftmost.count star
    if wildcards > maxWildcards then .error .certificateError
    else if wildcards = 0 then .ok (lower dn == lower hostname)  -- `dn.lower() == hostname.lower()`
    else
      let p : LeftPat :=
        if leftmost = [star] then .plus
        -- `leftmost.lower().startswith("xn--") or hostname.lower().startswith("xn--")`
        else if xnPrefix.isPrefixOf (lower leftmost) || xnPrefix.isPrefixOf (lower hostname) then .literal leftmost
        else .glob leftmost
      .ok (matchPats p remainder hostname)

/-! ## `ipaddress.ip_address` (CPython 3.12): text → packed value -/

structure IpAddr where
  v6 : Bool
  val : Nat          -- the 32-bit / 128-bit integer; the scope id never reaches `.packed`
deriving Repr, DecidableEq

/-- big-endian bytes, `n` of them -/
def toBytesBE : Nat → Nat → Bytes
  | 0, _ => []
  | n + 1, v => toBytesBE n (v / 256) ++ [v % 256]

/-- `.packed` -/
def IpAddr.packed (a : IpAddr) : Bytes := toBytesBE (if a.v6 then 16 else 4) a.val

def decVal (s : Str) : Nat := s.foldl (fun a c => a * 10 + (c - 48)) 0
def hexValD (c : Nat) : Nat := (hexVal c).getD 0
def hexNum (s : Str) : Nat := s.foldl (fun a c => a * 16 + hexValD c) 0

/-- `IPv4Address._parse_octet` -/
def parseOctet (s : Str) : Option Nat :=
  if s.isEmpty then none                                 -- "Empty octet not permitted"
  else if !(s.all isDigitC) then none                    -- isascii() and isdigit()
  else if s.length > 3 then none
  else if s != [48] && s.head? == some 48 then none      -- leading zeros (bpo-36384)
  else if decVal s > 255 then none
  else some (decVal s)

/-- `IPv4Address(str)._ip`; `none` = `AddressValueError` -/
def parseIPv4 (s : Str) : Option Nat :=
  if s.contains slash then none
  else if s.isEmpty then none
  else match (splitOn1 dot s).mapM parseOctet with
    | some [a, b, c, d] => some (((a * 256 + b) * 256 + c) * 256 + d)
    | _ => none

/-- `IPv6Address._parse_hextet` (`int('', 16)` raises as well) -/
def parseHextet (s : Str) : Option Nat :=
  if !(s.all isHexC) then none
  else if s.length > 4 then none
  else if s.isEmpty then none
  else some (hexNum s)

/-- `'%x' % n` -/
def toHex (n : Nat) : Str := (Nat.toDigits 16 n).map Char.toNat

/-- fold of `ip_int <<= 16; ip_int |= parse_hextet(p)` -/
def foldHextets (acc : Nat) : List Str → Option Nat
  | [] => some acc
  | p :: ps => match parseHextet p with
    | none => none
    | some v => foldHextets (acc * 65536 + v) ps

/-- indices `i` in `range(1, len(parts) - 1)` with `not parts[i]` -/
def innerEmpties (parts : List Str) : List Nat :=
  (List.range parts.length).filter fun i =>
    1 ≤ i && i + 1 < parts.length && (parts.getD i []).isEmpty

/-- `IPv6Address._ip_int_from_string` -/
def parseIPv6Int (s : Str) : Option Nat :=
  if s.isEmpty then none else
  let parts0 := splitOn1 colon s
  if parts0.length < 3 then none else
  -- an IPv4-style suffix is converted to two hextets
  let partsOpt : Option (List Str) :=
    if (parts0.getLastD []).contains dot then
      match parseIPv4 (parts0.getLastD []) with
      | none => none
      | some v => some (parts0.dropLast ++ [toHex ((v / 65536) % 65536), toHex (v % 65536)])
    else some parts0
  match partsOpt with
  | none => none
  | some parts =>
    if parts.length > 9 then none else
    match innerEmpties parts with
    | [] =>
      if parts.length != 8 then none
      else if (parts.headD []).isEmpty then none
      else if (parts.getLastD []).isEmpty then none
      else foldHextets 0 parts
    | [k] =>
      let hi0 := k
      let lo0 := parts.length - k - 1
      let headEmpty := (parts.headD []).isEmpty
      let lastEmpty := (parts.getLastD []).isEmpty
      let hi := if headEmpty then hi0 - 1 else hi0
      let lo := if lastEmpty then lo0 - 1 else lo0
      if headEmpty && hi != 0 then none              -- "^: requires ^::"
      else if lastEmpty && lo != 0 then none         -- ":$ requires ::$"
      else if hi + lo ≥ 8 then none                  -- parts_skipped < 1
      else
        match foldHextets 0 (parts.take hi) with
        | none => none
        | some a => foldHextets (a * 65536 ^ (8 - (hi + lo))) (parts.drop (parts.length - lo))
    | _ => none                                      -- "At most one '::' permitted"

/-- `IPv6Address(str)._ip`: `/` check, `_split_scope_id`, then the integer -/
def parseIPv6 (s : Str) : Option Nat :=
  if s.contains slash then none else
  let addr := s.takeWhile (· != percent)
  let rest := s.dropWhile (· != percent)          -- "" or "%scope"
  match rest with
  | [] => parseIPv6Int addr
  | _ :: scope =>
    if scope.isEmpty || scope.contains percent then none else parseIPv6Int addr

/-- `ipaddress.ip_address(str)`; `none` = `ValueError` -/
def ipAddress (s : Str) : Option IpAddr :=
  match parseIPv4 s with
  | some v => some ⟨false, v⟩
  | none => (parseIPv6 s).map fun v => ⟨true, v⟩

/-- characters removed by `str.rstrip()` (`str.isspace`) -/
def isSpaceC (c : Nat) : Bool :=
  (9 ≤ c && c ≤ 13) || (28 ≤ c && c ≤ 32) || c == 0x85 || c == 0xa0 || c == 0x1680 ||
  (0x2000 ≤ c && c ≤ 0x200a) || c == 0x2028 || c == 0x2029 || c == 0x202f || c == 0x205f || c == 0x3000

def rstrip (s : Str) : Str := (s.reverse.dropWhile isSpaceC).reverse

/-- `_ipaddress_match(ipname, host_ip)` -/
def ipaddressMatch (ipname : Str) (hostIp : IpAddr) : Except Exc Bool :=
  match ipAddress (rstrip ipname) with
  | none => .error .valueError
  | some ip => .ok (ip.packed == hostIp.packed)

/-! ## `match_hostname` -/

structure Cert where
  san : List (Str × Str)                 -- `cert.get("subjectAltName", ())`
  subject : List (List (Str × Str))      -- `cert.get("subject", ())`
deriving Repr, DecidableEq

/-- `hostname[: hostname.rfind("%")]` (only used when a `%` is present) -/
def beforeLastPercent (s : Str) : Str := ((s.reverse.dropWhile (· != percent)).drop 1).reverse

/-- the `try: … ip_address(…) except ValueError: host_ip = None` block -/
def hostIpOf (hostname : Str) : Option IpAddr :=
  if hostname.contains percent then ipAddress (beforeLastPercent hostname) else ipAddress hostname

/-- the loop over `san`; `none` = the function returned (match), `some dnsnames` = fell through.
`try: … _dnsname_match … except CertificateError: pass` — a dNSName entry that makes `_dnsname_match`
raise `CertificateError` is passed over like a non-matching one (any other exception propagates) -/
def sanLoop (hostname : Str) (hostIp : Option IpAddr) :
    List (Str × Str) → List Str → Except Exc (Option (List Str))
  | [], names => .ok (some names)
  | (key, value) :: rest, names =>
    if key = kDNS then
      match hostIp with
      | none =>
        match dnsnameMatch value hostname with
        | .error .certificateError => sanLoop hostname hostIp rest (names ++ [value])   -- `except CertificateError: pass`
        | .error e => .error e
        | .ok true => .ok none
        | .ok false => sanLoop hostname hostIp rest (names ++ [value])
      | some _ => sanLoop hostname hostIp rest (names ++ [value])
    else if key = kIP then
      match hostIp with
      | some ip =>
        match ipaddressMatch value ip with
        | .error e => .error e
        | .ok true => .ok none
        | .ok false => sanLoop hostname hostIp rest (names ++ [value])
      | none => sanLoop hostname hostIp rest (names ++ [value])
    else sanLoop hostname hostIp rest names

/-- the loop over the `commonName` attributes (the two nested loops, flattened); `true` = returned;
the same `try / except CertificateError: pass` around `_dnsname_match` as in the SAN loop -/
def cnLoop (hostname : Str) : List (Str × Str) → Except Exc Bool
  | [] => .ok false
  | (key, value) :: rest =>
    if key = kCN then
      match dnsnameMatch value hostname with
      | .error .certificateError => cnLoop hostname rest                -- `except CertificateError: pass`
      | .error e => .error e
      | .ok true => .ok true
      | .ok false => cnLoop hostname rest
    else cnLoop hostname rest

/-- `match_hostname(cert, hostname, hostname_checks_common_name)`; `cert = none` is `None` or `{}` -/
def matchHostname (cert : Option Cert) (hostname : Str) (checksCommonName : Bool := false) :
    Except Exc Unit :=
  match cert with
  | none => .error .valueError
  | some c =>
    let hostIp := hostIpOf hostname
    match sanLoop hostname hostIp c.san [] with
    | .error e => .error e
    | .ok none => .ok ()
    | .ok (some dnsnames) =>
      if checksCommonName && hostIp.isNone && dnsnames.isEmpty then
        match cnLoop hostname c.subject.flatten with
        | .error e => .error e
        | .ok true => .ok ()
        | .ok false => .error .certificateError
      else .error .certificateError

/-! ## `is_ipaddress` (regexes of `util/url.py`) and the `_match_hostname` wrapper

`_IPV4_RE = ^(?:[0-9]{1,3}\.){3}[0-9]{1,3}$` and `_BRACELESS_IPV6_ADDRZ_RE = ^IPv6(?:zone)?$` with
the nine RFC 3986 alternatives for `IPv6`.  The alternatives amount to: groups of 1–4 hex digits
separated by `:`, at most one `::`, a dotted quad (no range check) allowed only as the last element
where it counts for two groups; 8 groups without `::`, at most 7 with it.  `zone` is `%` (or `%25`,
which is subsumed) followed by a non-empty run of unreserved characters / `%HH`.  Python's `$` also
matches before one trailing newline.  Validated by the `isip` correspondence lines.
-/

def reDigits13 (s : Str) : Bool := 1 ≤ s.length && s.length ≤ 3 && s.all isDigitC
def reH16 (s : Str) : Bool := 1 ≤ s.length && s.length ≤ 4 && s.all isHexC

def reIPv4 (s : Str) : Bool :=
  let ps := splitOn1 dot s
  ps.length == 4 && ps.all reDigits13

/-- number of 16-bit groups spelled by `s` (`h16:h16:…`, optionally ending in a dotted quad) -/
def groupCount (allowV4 : Bool) (s : Str) : Option Nat :=
  if s.isEmpty then some 0 else
  let ps := splitOn1 colon s
  if ps.dropLast.all reH16 then
    if reH16 (ps.getLastD []) then some ps.length
    else if allowV4 && reIPv4 (ps.getLastD []) then some (ps.length + 1)
    else none
  else none

/-- split at the first `::` -/
def splitDoubleColon : Str → Option (Str × Str)
  | [] => none
  | [_] => none
  | a :: b :: t =>
    if a = colon ∧ b = colon then some ([], t)
    else match splitDoubleColon (b :: t) with
      | none => none
      | some (l, r) => some (a :: l, r)

def reIPv6 (s : Str) : Bool :=
  match splitDoubleColon s with
  | none => groupCount true s == some 8
  | some (l, r) =>
    match groupCount false l, groupCount true r with
    | some a, some b => a + b ≤ 7
    | _, _ => false

def isUnreservedC (c : Nat) : Bool :=
  isAlphaC c || isDigitC c || c == 46 || c == 95 || c == 45 || c == 126

/-- `(?:[unreserved]|%[a-fA-F0-9]{2})*` -/
def zoneRun : Str → Bool
  | [] => true
  | c :: t =>
    if isUnreservedC c then zoneRun t
    else if c = percent then
      match t with
      | h1 :: h2 :: t' => isHexC h1 && isHexC h2 && zoneRun t'
      | _ => false
    else false

/-- drop one trailing newline (what `$` tolerates) -/
def dropFinalNewline (s : Str) : Str :=
  if s.getLast? == some nl then s.dropLast else s

/-- `is_ipaddress(hostname)` for `str` -/
def isIpaddress (s : Str) : Bool :=
  let t := dropFinalNewline s
  reIPv4 t ||
    (let addr := t.takeWhile (· != percent)
     match t.dropWhile (· != percent) with
     | [] => reIPv6 addr
     | _ :: zone => reIPv6 addr && !zone.isEmpty && zoneRun zone)

def isBracket (c : Nat) : Bool := c == lbr || c == rbr

/-- `s.strip("[]")` -/
def stripBrackets (s : Str) : Str := ((s.dropWhile isBracket).reverse.dropWhile isBracket).reverse

/-- `urllib3.connection._match_hostname` -/
def matchHostnameWrapper (cert : Option Cert) (assertedHostname : Str) (checksCommonName : Bool := false) :
    Except Exc Unit :=
  let stripped := stripBrackets assertedHostname
  let h := if isIpaddress stripped then stripped else assertedHostname
  matchHostname cert h checksCommonName

/-! ## `assert_fingerprint` -/

/-- digest algorithms; the digests themselves are uninterpreted (`H : Alg → Bytes → Bytes`) -/
inductive Alg where
  | md5 | sha1 | sha256
  | other (name : Str)
deriving Repr, DecidableEq

def nameMd5 : Str := [109, 100, 53]
def nameSha1 : Str := [115, 104, 97, 49]
def nameSha256 : Str := [115, 104, 97, 50, 53, 54]

def algOfName (n : Str) : Alg :=
  if n = nameMd5 then .md5 else if n = nameSha1 then .sha1 else if n = nameSha256 then .sha256 else .other n

/-- `HASHFUNC_MAP` as generated from the source: first entry for the length (a dict has one) -/
def hashEntry (len : Nat) : Option (Str × Bool) :=
  (Gen.hashfuncMap.find? (fun e => e.1 == len)).map (·.2)

/-- digest algorithm selected by the length of the normalised pin (when its implementation exists) -/
def algOfLength (len : Nat) : Option Alg :=
  match hashEntry len with
  | some (name, true) => some (algOfName name)
  | _ => none

/-- `fingerprint.replace(":", "").lower()` -/
def normPin (fp : Str) : Str := lower (fp.filter (· != colon))

/-- `binascii.unhexlify`; `none` = `binascii.Error` -/
def unhexlify : Str → Option Bytes
  | [] => some []
  | [_] => none
  | a :: b :: t =>
    match hexVal a, hexVal b, unhexlify t with
    | some x, some y, some r => some ((x * 16 + y) :: r)
    | _, _, _ => none

/-- `assert_fingerprint(cert, fingerprint)`; `H alg cert` is `hashfunc(cert).digest()` -/
def assertFingerprint (H : Alg → Bytes → Bytes) (cert : Option Bytes) (fingerprint : Str) :
    Except Exc Unit :=
  match cert with
  | none => .error .sslError                                       -- "No certificate for the peer."
  | some c =>
    let fp := normPin fingerprint
    match hashEntry fp.length with
    | none => .error .sslError                                     -- "Fingerprint of invalid length"
    | some (_, false) => .error .sslError                          -- "implementation unavailable"
    | some (name, true) =>
      -- `fingerprint.encode()` is UTF-8: it fails only on lone surrogates; every other non-ASCII
      -- character becomes bytes ≥ 0x80, which `unhexlify` refuses like any non-hex character
      if fp.any (fun c => 0xD800 ≤ c && c ≤ 0xDFFF) then .error .unicodeEncodeError
      else match unhexlify fp with
        | none => .error .binasciiError
        | some b =>
          if H (algOfName name) c == b then .ok () else .error .sslError   -- hmac.compare_digest

end U3.Hostname
