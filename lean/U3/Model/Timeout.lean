/-!
# Model of `urllib3.util.timeout.Timeout` and of the timeout values that a request applies
(`HTTPConnectionPool._get_timeout / urlopen / _make_request`, `HTTPConnection.request /
getresponse / _new_conn`) — property C19.

Seconds are `Int`s in units of 2⁻¹⁰ s (the generators only use dyadic values, on which the IEEE
arithmetic of the implementation is exact; rounding is not modelled).

Python values that the code tells apart are separate constructors:
`TV.unset` is the sentinel `_DEFAULT_TIMEOUT`, `TV.none` is `None`, `TV.val q` a number.
-/
namespace U3.Timeout

/-- a *validated* timeout attribute (`Timeout._connect`, `._read`, `.total`), also the values
assigned to `conn.timeout` / passed to `sock.settimeout` -/
inductive TV where
  | unset
  | none
  | val (q : Int)
  deriving DecidableEq, Repr, Inhabited

/-- a raw constructor argument -/
inductive Arg where
  | unset                -- `_DEFAULT_TIMEOUT`
  | none                 -- `None`
  | num (q : Int)        -- int / float
  | bool (b : Bool)      -- `True` / `False`
  | nonNumber            -- `"x"`, `"5"`, `[]`, `object()`, `1j`, … : `float(v)` or `v <= 0` raises
  deriving DecidableEq, Repr, Inhabited

inductive Exc where
  | valueError
  | timeoutStateError
  | readTimeoutError
  | badHandle            -- driver only: no such object
  deriving DecidableEq, Repr, Inhabited

structure Timeout where
  connect : TV
  read : TV
  total : TV
  /-- `_start_connect` -/
  start : Option Int
  deriving DecidableEq, Repr, Inhabited

/-- `Timeout._validate_timeout` -/
def validateTimeout : Arg → Except Exc TV
  | .none => .ok .none                       -- `if value is None or value is _DEFAULT_TIMEOUT: return value`
  | .unset => .ok .unset
  | .bool _ => .error .valueError            -- `isinstance(value, bool)`
  | .nonNumber => .error .valueError         -- `float(value)` raises / `value <= 0` raises TypeError
  | .num q => if q ≤ 0 then .error .valueError else .ok (.val q)

/-- `Timeout.__init__(total, connect, read)` (validation order: connect, read, total) -/
def mk (total connect read : Arg) : Except Exc Timeout :=
  match validateTimeout connect with
  | .error e => .error e
  | .ok c =>
  match validateTimeout read with
  | .error e => .error e
  | .ok r =>
  match validateTimeout total with
  | .error e => .error e
  | .ok t => .ok { connect := c, read := r, total := t, start := none }

def TV.toArg : TV → Arg
  | .unset => .unset
  | .none => .none
  | .val q => .num q

/-- `Timeout.clone`: `Timeout(connect=self._connect, read=self._read, total=self.total)` -/
def clone (t : Timeout) : Except Exc Timeout :=
  mk t.total.toArg t.connect.toArg t.read.toArg

/-- `Timeout.from_float(timeout)`: `Timeout(read=timeout, connect=timeout)` (total defaults to None) -/
def fromFloat (a : Arg) : Except Exc Timeout := mk .none a a

/-- `Timeout.start_connect` at clock value `now` -/
def startConnect (t : Timeout) (now : Int) : Except Exc Timeout :=
  match t.start with
  | some _ => .error .timeoutStateError
  | none => .ok { t with start := some now }

/-- `Timeout.get_connect_duration` at clock value `now` -/
def getConnectDuration (t : Timeout) (now : Int) : Except Exc Int :=
  match t.start with
  | none => .error .timeoutStateError
  | some s => .ok (now - s)

/-- `Timeout.resolve_default_timeout`; `gdt` is `socket.getdefaulttimeout()` (`none` or a number) -/
def resolveDefault (gdt : TV) : TV → TV
  | .unset => gdt
  | v => v

/-- `Timeout.connect_timeout` -/
def connectTimeout (t : Timeout) : Except Exc TV :=
  match t.total with
  | .none => .ok t.connect                                   -- `if self.total is None
  | .unset => .ok t.connect                                  --   or self.total is _DEFAULT_TIMEOUT`
  | .val T =>
    match t.connect with
    | .none => .ok t.total                                   -- `self._connect is None or … is _DEFAULT_TIMEOUT`
    | .unset => .ok t.total
    | .val c => .ok (.val (min c T))

/-- `Timeout.read_timeout` at clock value `now` -/
def readTimeout (gdt : TV) (t : Timeout) (now : Int) : Except Exc TV :=
  match t.total, t.read with
  | .val T, .val r =>
    match t.start with
    | none => .ok (.val r)                                   -- "connect timeout has not yet been established"
    | some s => .ok (.val (max 0 (min (T - (now - s)) r)))
  | .val T, _ =>
    match getConnectDuration t now with
    | .error e => .error e
    | .ok d => .ok (.val (max 0 (T - d)))
  | _, _ => .ok (resolveDefault gdt t.read)

/-! ## The request path -/

/-- the `timeout` argument of `urlopen` / `_make_request` -/
inductive TArg where
  | dflt                   -- `_DEFAULT_TIMEOUT`: use the pool's
  | tobj (t : Timeout)     -- a `Timeout` instance
  | num (a : Arg)          -- legacy number / None
  deriving DecidableEq, Repr, Inhabited

/-- `HTTPConnectionPool._get_timeout` -/
def getTimeout (poolT : Timeout) : TArg → Except Exc Timeout
  | .dflt => clone poolT
  | .tobj t => clone t
  | .num a => fromFloat a

/-- what the recording connection / socket sees -/
inductive Ev where
  | newConn (v : TV)       -- `ConnectionCls(timeout=v)`
  | setConn (v : TV)       -- `conn.timeout = v`
  | connect (v : TV)       -- `create_connection(addr, v)`: the timeout governing the connect phase
  | sockSet (v : TV)       -- `sock.settimeout(v)`
  deriving DecidableEq, Repr, Inhabited

inductive ConnSt where
  | noConn                 -- the pool slot holds `None`
  | closed                 -- a connection object without a socket
  | alive                  -- a connection object with an open, idle socket
  deriving DecidableEq, Repr, Inhabited

inductive Outcome where
  | ok
  | exc (e : Exc)
  deriving DecidableEq, Repr, Inhabited

structure Res where
  evs : List Ev
  out : Outcome
  conn : ConnSt
  now : Int
  deriving DecidableEq, Repr, Inhabited

/-- `HTTPConnectionPool._make_request(conn, …, timeout=arg)` on a plain-HTTP connection without
faults: `conn` is `.closed` (socket opened by `conn.request`, taking `cdur`) or `.alive` (socket
re-used); sending takes `sdur`; `srvClose`: the response carries `Connection: close`.
The returned `conn` is the state of the connection object when `_make_request` returns/raises. -/
def makeRequest (gdt : TV) (poolT : Timeout) (arg : TArg) (conn : ConnSt)
    (now cdur sdur : Int) (srvClose : Bool) : Res :=
  match getTimeout poolT arg with                 -- timeout_obj = self._get_timeout(timeout)
  | .error e => ⟨[], .exc e, conn, now⟩
  | .ok t0 =>
  match startConnect t0 now with                  -- timeout_obj.start_connect()
  | .error e => ⟨[], .exc e, conn, now⟩
  | .ok t =>
  match connectTimeout t with                     -- conn.timeout = resolve_default_timeout(timeout_obj.connect_timeout)
  | .error e => ⟨[], .exc e, conn, now⟩
  | .ok ct =>
  let cv := resolveDefault gdt ct
  -- conn.request(): `if self.sock is not None: self.sock.settimeout(self.timeout)`, otherwise
  -- http.client auto-opens: `_new_conn` → `create_connection(addr, self.timeout)`
  let e2 := if conn = .alive then [Ev.sockSet cv] else [Ev.connect cv]
  let now2 := if conn = .alive then now + sdur else now + cdur + sdur
  match readTimeout gdt t now2 with               -- read_timeout = timeout_obj.read_timeout
  | .error e => ⟨Ev.setConn cv :: e2, .exc e, .alive, now2⟩
  | .ok rt =>
  -- `if not conn.is_closed:` (always, no faults)  `if read_timeout == 0: raise ReadTimeoutError`
  if rt = .val 0 then ⟨Ev.setConn cv :: e2, .exc .readTimeoutError, .alive, now2⟩
  else
    -- conn.timeout = read_timeout ; conn.getresponse(): self.sock.settimeout(self.timeout)
    ⟨Ev.setConn cv :: e2 ++ [Ev.setConn rt, Ev.sockSet rt], .ok,
      if srvClose then .closed else .alive, now2⟩

/-- `HTTPConnectionPool.urlopen(…, timeout=arg)` with `retries=False`, `maxsize=1`: the timeout
related part.  On any exception the connection is closed and the slot gets `None`
(`finally: if not clean_exit: conn.close(); conn = None`), except when the exception happens
before a connection was taken. -/
def urlopen (gdt : TV) (poolT : Timeout) (arg : TArg) (conn : ConnSt)
    (now cdur sdur : Int) (srvClose : Bool) : Res :=
  match getTimeout poolT arg with                 -- timeout_obj = self._get_timeout(timeout)
  | .error e => ⟨[], .exc e, conn, now⟩
  | .ok tobj =>
  -- conn = self._get_conn(): `conn or self._new_conn()`;
  -- `_new_conn`: `ConnectionCls(timeout=self.timeout.connect_timeout)` whose `__init__` stores
  -- `resolve_default_timeout(timeout)`
  match (if conn = .noConn then
          (match connectTimeout poolT with
           | .error e => Except.error e
           | .ok v => .ok [Ev.newConn v, Ev.setConn (resolveDefault gdt v)])
         else .ok []) with
  | .error e => ⟨[], .exc e, .noConn, now⟩
  | .ok e0 =>
  let conn1 := if conn = .noConn then ConnSt.closed else conn
  match connectTimeout tobj with                  -- conn.timeout = timeout_obj.connect_timeout
  | .error e => ⟨e0, .exc e, .noConn, now⟩
  | .ok ctRaw =>
  let r := makeRequest gdt poolT (.tobj tobj) conn1 now cdur sdur srvClose
  ⟨e0 ++ Ev.setConn ctRaw :: r.evs, r.out,
    (match r.out with | .ok => r.conn | .exc _ => .noConn), r.now⟩

/-- calling `_make_request` directly on a connection obtained with `_get_conn()` (the harness
closes and drops the connection on an exception, like `urlopen`'s `finally`) -/
def direct (gdt : TV) (poolT : Timeout) (arg : TArg) (conn : ConnSt)
    (now cdur sdur : Int) (srvClose : Bool) : Res :=
  match (if conn = .noConn then
          (match connectTimeout poolT with
           | .error e => Except.error e
           | .ok v => .ok [Ev.newConn v, Ev.setConn (resolveDefault gdt v)])
         else .ok []) with
  | .error e => ⟨[], .exc e, .noConn, now⟩
  | .ok e0 =>
  let conn1 := if conn = .noConn then ConnSt.closed else conn
  let r := makeRequest gdt poolT arg conn1 now cdur sdur srvClose
  ⟨e0 ++ r.evs, r.out, (match r.out with | .ok => r.conn | .exc _ => .noConn), r.now⟩

/-! ## A pool with user-held `Timeout` objects (for request sequences) -/

structure Pool where
  /-- `pool.timeout` -/
  timeout : Timeout
  conn : ConnSt
  /-- the `Timeout` objects held by the caller (handles are indices) -/
  objs : List Timeout
  now : Int
  gdt : TV
  deriving Repr, Inhabited

inductive ReqArg where
  | dflt
  | obj (h : Nat)
  | num (a : Arg)
  deriving DecidableEq, Repr, Inhabited

inductive Op where
  | setGdt (v : TV)                                  -- socket.setdefaulttimeout
  | pool (total connect read : Arg)                  -- HTTPConnectionPool(timeout=Timeout(...))
  | poolNum (a : Arg)                                -- HTTPConnectionPool(timeout=a)
  | tmo (total connect read : Arg)                   -- t = Timeout(...)
  | adv (d : Int)                                    -- the clock advances
  | req (viaUrlopen : Bool) (arg : ReqArg) (cdur sdur : Int) (srvClose : Bool)
  | start (h : Nat)                                  -- objs[h].start_connect()
  | cloneObj (h : Nat)                               -- objs.append(objs[h].clone())
  deriving Repr, Inhabited

inductive Out where
  | unit
  | handle (h : Nat)
  | err (e : Exc)
  | res (evs : List Ev) (out : Outcome)
  deriving DecidableEq, Repr, Inhabited

def init : Pool :=
  { timeout := { connect := .unset, read := .unset, total := .none, start := none },
    conn := .noConn, objs := [], now := 0, gdt := .none }

def resolveArg (p : Pool) : ReqArg → Except Exc TArg
  | .dflt => .ok .dflt
  | .num a => .ok (.num a)
  | .obj h => match p.objs[h]? with
    | some t => .ok (.tobj t)
    | none => .error .badHandle

def step (p : Pool) : Op → Pool × Out
  | .setGdt v => ({ p with gdt := v }, .unit)
  | .pool total connect read =>
    match mk total connect read with
    | .error e => (p, .err e)
    | .ok t => ({ p with timeout := t, conn := .noConn }, .unit)
  | .poolNum a =>
    match fromFloat a with
    | .error e => (p, .err e)
    | .ok t => ({ p with timeout := t, conn := .noConn }, .unit)
  | .tmo total connect read =>
    match mk total connect read with
    | .error e => (p, .err e)
    | .ok t => ({ p with objs := p.objs ++ [t] }, .handle p.objs.length)
  | .adv d => ({ p with now := p.now + d }, .unit)
  | .req u a cdur sdur srvClose =>
    match resolveArg p a with
    | .error e => (p, .err e)
    | .ok ta =>
      let r := if u then urlopen p.gdt p.timeout ta p.conn p.now cdur sdur srvClose
               else direct p.gdt p.timeout ta p.conn p.now cdur sdur srvClose
      ({ p with conn := r.conn, now := r.now }, .res r.evs r.out)
  | .start h =>
    match p.objs[h]? with
    | none => (p, .err .badHandle)
    | some t =>
      match startConnect t p.now with
      | .error e => (p, .err e)
      | .ok t' => ({ p with objs := p.objs.set h t' }, .unit)
  | .cloneObj h =>
    match p.objs[h]? with
    | none => (p, .err .badHandle)
    | some t =>
      match clone t with
      | .error e => (p, .err e)
      | .ok t' => ({ p with objs := p.objs ++ [t'] }, .handle p.objs.length)

def run (p : Pool) (ops : List Op) : Pool := ops.foldl (fun p o => (step p o).1) p

end U3.Timeout
