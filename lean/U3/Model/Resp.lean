import U3.Base.Str
import U3.Model.RespIO
import U3.Model.RespCodec
/-!
# Response reading, layer 4: `urllib3.response.HTTPResponse`

`BytesQueueBuffer`, `_init_length`, `_error_catcher`, `_raw_read` / `_fp_read`, `_decode` /
`_flush_decoder`, `read`, `read1`, `readinto`, `stream`, `read_chunked` (`_update_chunk_length`,
`_handle_chunk`), `__iter__`, `.data` / preload, `drain_conn` — transcribed from `src/urllib3/response.py`,
generic in the body source `Src σ` (the `http.client.HTTPResponse` the wrapper reads from;
instance `hSrc : Src H`) and in the content decoder `Dec δ` (instance `cdDec`).

Every operation returns its result **and** the state (`Except Exc α × R σ δ`): the state after a
raised exception is observable (closed file, closed connection, decoder state).
Loops that Python runs unbounded take their fuel from `Cfg.fuel`; running out is the explicit
outcome `Exc.fuel`, never a silent stop.

Not modelled: the `c_int_max` splitting in `_fp_read` (only taken under pyOpenSSL / Python < 3.10),
`auto_close=False`, `cache_content` for partial reads, negative amounts (callers map them to `None`
as the code does).
-/
namespace U3.Resp
open U3

/-! ## BytesQueueBuffer -/

abbrev BQ := List Bytes        -- the deque, left end first

def bqLen (q : BQ) : Nat := (q.map List.length).sum
def bqPut (q : BQ) (d : Bytes) : BQ := q ++ [d]
def bqAll (q : BQ) : Bytes := q.flatten

/-- the `while fetched < n` loop of `get`; `rem = n - fetched > 0`, deque non-empty on entry -/
def bqGetLoop : BQ → Nat → Bytes × BQ
  | [], _ => ([], [])
  | c :: t, rem =>
    if rem < c.length then (c.take rem, c.drop rem :: t)
    else if t.isEmpty then (c, [])                        -- `if not self.buffer: break`
    else if rem - c.length = 0 then (c, t)                -- `while fetched < n` fails
    else let r := bqGetLoop t (rem - c.length); (c ++ r.1, r.2)

/-- `get(n)`; `none` = `RuntimeError("buffer is empty")` -/
def bqGet (q : BQ) (n : Nat) : Option (Bytes × BQ) :=
  if n = 0 then some ([], q)
  else if q.isEmpty then none
  else some (bqGetLoop q n)

/-- `get_all()` -/
def bqGetAll (q : BQ) : Bytes × BQ := (bqAll q, [])

/-! ## the body source (what urllib3 uses of `http.client.HTTPResponse`) -/

structure Src (σ : Type) where
  read : σ → Option Nat → Except HErr Bytes × σ
  read1 : σ → Option Nat → Except HErr Bytes × σ
  safeRead : σ → Nat → Except HErr Bytes × σ       -- `_fp._safe_read`
  readline : σ → Except HErr Bytes × σ              -- `_fp.fp.readline`
  closed : σ → Bool                                 -- `_fp.closed`
  isclosed : σ → Bool                               -- `_fp.isclosed()` ⇔ `_fp.fp is None`
  close : σ → σ                                     -- `_fp.close()`
  willClose : σ → Bool

def hSrc : Src H :=
  { read := hRead, read1 := hRead1, safeRead := hSafeRead, readline := hFpReadline,
    closed := fun h => h.closed, isclosed := H.isclosed, close := H.close,
    willClose := fun h => h.willClose }

/-! ## exceptions and state -/

inductive Exc
  | protocolError
  | decodeError
  | runtimeError            -- decode_content switched off after decoding / `get` on an empty buffer
  | responseNotChunked
  | invalidHeader
  | attributeError
  | rawDecoderError         -- a decoder error escaping outside `_decode`'s `try`
  | unsupported             -- outside the modelled domain
  | fuel                    -- the model's loop fuel ran out (never on generated inputs)
deriving Repr, DecidableEq

structure Cfg (δ : Type) where
  newDecoder : Option δ      -- what `_init_decoder` would install (from Content-Encoding)
  enforce : Bool             -- enforce_content_length
  decodeDefault : Bool       -- self.decode_content
  chunked : Bool             -- self.chunked (urllib3's own parse of Transfer-Encoding)
  head : Bool                -- is_response_to_head(original_response)
  fuel : Nat

structure R (σ δ : Type) where
  fp : σ
  decoder : Option δ := none
  hasDecoded : Bool := false
  buf : BQ := []
  lengthRemaining : Option Int := none
  fpBytesRead : Nat := 0
  chunkLeft : Option Nat := none
  conn : Bool := false         -- `_connection` is held
  connClosed : Bool := false   -- `_connection.close()` has been called
  released : Bool := false     -- `release_conn()` gave the connection back to the pool
  body : Option Bytes := none  -- `_body`

section
variable {σ δ : Type} (S : Src σ) (D : Dec δ) (cfg : Cfg δ)

/-- exceptions as raised *inside* a `with self._error_catcher()` block -/
inductive RawExc
  | h (e : HErr)            -- from http.client
  | u3Incomplete            -- urllib3.exceptions.IncompleteRead raised by `_raw_read`
  | invalidChunk            -- InvalidChunkLength (an http.client.IncompleteRead subclass)
  | exc (e : Exc)           -- already a urllib3-level exception (ProtocolError, DecodeError, …)
deriving Repr, DecidableEq

/-- the `except` clauses of `_error_catcher` -/
def mapExc : RawExc → Exc
  | .h .incompleteRead => .protocolError       -- `except (HTTPException, OSError)`
  | .h .attributeError => .attributeError
  | .h .unsupported => .unsupported
  | .u3Incomplete => .protocolError            -- `except IncompleteRead`
  | .invalidChunk => .protocolError            -- `except (HTTPException, OSError)`
  | .exc e => e

/-- `release_conn()` -/
def releaseConn (r : R σ δ) : R σ δ :=
  if r.conn then { r with conn := false, released := true } else r

/-- `_error_catcher`: exception mapping, close on unclean exit, release once the original
response is closed -/
def errorCatcher {α} (r : R σ δ) (res : Except RawExc α) : Except Exc α × R σ δ :=
  match res with
  | .ok a => (.ok a, if S.isclosed r.fp then releaseConn r else r)
  | .error e =>
    let r := { r with fp := S.close r.fp, connClosed := r.connClosed || r.conn }
    (.error (mapExc e), if S.isclosed r.fp then releaseConn r else r)

/-- `_init_decoder` -/
def initDec (r : R σ δ) : R σ δ :=
  match r.decoder with
  | some _ => r
  | none => { r with decoder := cfg.newDecoder }

/-- `_raw_read(amt, read1=…)` -/
def rawRead (r : R σ δ) (amt : Option Nat) (read1 : Bool) : Except Exc Bytes × R σ δ :=
  let fpClosed := S.closed r.fp
  let (res, fp) := if fpClosed then (.ok [], r.fp) else (if read1 then S.read1 r.fp amt else S.read r.fp amt)
  let r := { r with fp := fp }
  let body : Except RawExc Bytes × R σ δ := match res with
    | .error e => (.error (.h e), r)
    | .ok data =>
      if amt ≠ none ∧ amt ≠ some 0 ∧ data.isEmpty then
        let r := { r with fp := S.close r.fp }
        if cfg.enforce ∧ r.lengthRemaining ≠ none ∧ r.lengthRemaining ≠ some 0 then (.error .u3Incomplete, r)
        else (.ok data, r)
      else if read1 ∧ ((amt ≠ some 0 ∧ data.isEmpty) ∨ r.lengthRemaining = some (data.length : Int)) then
        let r := { r with fp := S.close r.fp }
        -- `read1()` without an amount on a body that ended short of its Content-Length
        if data.isEmpty ∧ cfg.enforce ∧ r.lengthRemaining ≠ none ∧ r.lengthRemaining ≠ some 0 then (.error .u3Incomplete, r)
        else (.ok data, r)
      else (.ok data, r)
  match errorCatcher S body.2 body.1 with
  | (.error e, r) => (.error e, r)
  | (.ok data, r) =>
    if data.isEmpty then (.ok data, r)
    else (.ok data, { r with fpBytesRead := r.fpBytesRead + data.length,
                             lengthRemaining := r.lengthRemaining.map (· - (data.length : Int)) })

def excOfDecompress : DErr → Exc
  | .decodeError => .decodeError
  | .rawError => .rawDecoderError
  | .unsupported => .unsupported

/-- `_flush_decoder` (called outside `_decode`'s `try`) -/
def flushDecoder (r : R σ δ) : Except Exc Bytes × R σ δ :=
  match r.decoder with
  | none => (.ok [], r)
  | some d =>
    match D.decompress d [] with
    | (.error .unsupported, d) => (.error .unsupported, { r with decoder := some d })
    | (.error _, d) => (.error .rawDecoderError, { r with decoder := some d })
    | (.ok x, d) =>
      match D.flush d with
      | (.error e, d) => (.error (excOfDecompress e), { r with decoder := some d })
      | (.ok y, d) => (.ok (x ++ y), { r with decoder := some d })

/-- `_decode(data, decode_content, flush_decoder)` -/
def decode (r : R σ δ) (data : Bytes) (dc : Bool) (flush : Bool) : Except Exc Bytes × R σ δ :=
  if !dc then
    if r.hasDecoded then (.error .runtimeError, r) else (.ok data, r)
  else
    let step : Except Exc Bytes × R σ δ := match r.decoder with
      | none => (.ok data, r)
      | some d =>
        match D.decompress d data with
        | (.error e, d) => (.error (excOfDecompress e), { r with decoder := some d })
        | (.ok out, d) => (.ok out, { r with decoder := some d, hasDecoded := true })
    match step with
    | (.error e, r) => (.error e, r)
    | (.ok data, r) =>
      if flush then
        match flushDecoder D r with
        | (.error e, r) => (.error e, r)
        | (.ok t, r) => (.ok (data ++ t), r)
      else (.ok data, r)

/-- `self._decoded_buffer.get(amt)` -/
def bufGet (r : R σ δ) (n : Nat) : Except Exc Bytes × R σ δ :=
  match bqGet r.buf n with
  | none => (.error .runtimeError, r)
  | some (d, q) => (.ok d, { r with buf := q })

/-- the `while len(self._decoded_buffer) < amt and data:` loop of `read(amt)`;
`flush` is the (stale) `flush_decoder` computed before the loop -/
def readLoop (a : Nat) (dc flush : Bool) : Nat → R σ δ → Bytes → Except Exc Unit × R σ δ
  | 0, r, _ => (.error .fuel, r)
  | fuel + 1, r, data =>
    if bqLen r.buf < a ∧ !data.isEmpty then
      match rawRead S cfg r (some a) false with
      | (.error e, r) => (.error e, r)
      | (.ok data, r) =>
        match decode D r data dc flush with
        | (.error e, r) => (.error e, r)
        | (.ok dd, r) => readLoop a dc flush fuel { r with buf := bqPut r.buf dd } data
    else (.ok (), r)

/-- `read()` (no amount): bytes decoded by an earlier partial read and still waiting in
`_decoded_buffer` come first (`put(data)`, `get_all()`) -/
def prependBuffered (r : R σ δ) (out : Bytes) : Bytes × R σ δ :=
  if bqLen r.buf > 0 then
    let (all, q) := bqGetAll (bqPut r.buf out)
    (all, { r with buf := q })
  else (out, r)

/-- `read(amt, decode_content, cache_content)` -/
def read (r : R σ δ) (amt : Option Nat) (dco : Option Bool) (cache : Bool := false) : Except Exc Bytes × R σ δ :=
  let r := initDec cfg r
  let dc := dco.getD cfg.decodeDefault
  let early : Option (Except Exc Bytes × R σ δ) := match amt with
    | some a => if bqLen r.buf ≥ a then some (bufGet r a) else none
    | none => none
  match early with
  | some res => res
  | none =>
    match rawRead S cfg r amt false with
    | (.error e, r) => (.error e, r)
    | (.ok data, r) =>
      let flush := amt.isNone || (amt ≠ some 0 && data.isEmpty)
      if data.isEmpty ∧ bqLen r.buf = 0 then (.ok data, r)
      else match amt with
        | none =>
          match decode D r data dc flush with
          | (.error e, r) => (.error e, r)
          | (.ok out, r) =>
            match prependBuffered r out with
            | (out, r) => (.ok out, if cache then { r with body := some out } else r)
        | some a =>
          if !dc then
            if r.hasDecoded then (.error .runtimeError, r) else (.ok data, r)
          else
            match decode D r data dc flush with
            | (.error e, r) => (.error e, r)
            | (.ok dd, r) =>
              match readLoop S D cfg a dc flush cfg.fuel { r with buf := bqPut r.buf dd } data with
              | (.error e, r) => (.error e, r)
              | (.ok _, r) => bufGet r a

/-- the `while True:` loop of `read1` -/
def read1Loop (dc : Bool) : Nat → R σ δ → Bytes → Except Exc Unit × R σ δ
  | 0, r, _ => (.error .fuel, r)
  | fuel + 1, r, data =>
    let flush := data.isEmpty
    match decode D r data dc flush with
    | (.error e, r) => (.error e, r)
    | (.ok dd, r) =>
      let r := { r with buf := bqPut r.buf dd }
      if !dd.isEmpty ∨ flush then (.ok (), r)
      else match rawRead S cfg r (some 8192) true with
        | (.error e, r) => (.error e, r)
        | (.ok data, r) => read1Loop dc fuel r data

/-- `read1(amt, decode_content)` -/
def read1 (r : R σ δ) (amt : Option Nat) (dco : Option Bool) : Except Exc Bytes × R σ δ :=
  let dc := dco.getD cfg.decodeDefault
  let early : Option (Except Exc Bytes × R σ δ) :=
    if r.hasDecoded then
      if !dc then some (.error .runtimeError, r)
      else if bqLen r.buf > 0 then
        match amt with
        | none => let (d, q) := bqGetAll r.buf; some (.ok d, { r with buf := q })
        | some a => some (bufGet r a)
      else none
    else none
  match early with
  | some res => res
  | none =>
    if amt = some 0 then (.ok [], r)
    else match rawRead S cfg r amt true with
      | (.error e, r) => (.error e, r)
      | (.ok data, r) =>
        if !dc then (.ok data, r)
        else
          let r := initDec cfg r
          match read1Loop S D cfg dc cfg.fuel r data with
          | (.error e, r) => (.error e, r)
          | (.ok _, r) =>
            match amt with
            | none => let (d, q) := bqGetAll r.buf; (.ok d, { r with buf := q })
            | some a => bufGet r a

/-- `readinto(b)` with `len(b) = k`: the bytes stored -/
def readinto (r : R σ δ) (k : Nat) : Except Exc Bytes × R σ δ := read S D cfg r (some k) none

/-! ### generators: run to completion, pieces + the exception that ended them (if any) -/

abbrev Gen := List Bytes × Option Exc

/-- the non-chunked branch of `stream` -/
def streamLoop (amt : Option Nat) (dco : Option Bool) : Nat → R σ δ → List Bytes → Gen × R σ δ
  | 0, r, acc => ((acc, some .fuel), r)
  | fuel + 1, r, acc =>
    if !S.isclosed r.fp ∨ bqLen r.buf > 0 then
      match read S D cfg r amt dco with
      | (.error e, r) => ((acc, some e), r)
      | (.ok d, r) => streamLoop amt dco fuel r (if d.isEmpty then acc else acc ++ [d])
    else ((acc, none), r)

/-- urllib3's `close()` -/
def closeResp (r : R σ δ) : R σ δ :=
  let r := if !S.isclosed r.fp then { r with fp := S.close r.fp } else r
  { r with connClosed := r.connClosed || r.conn }

/-- `_update_chunk_length` -/
def updateChunkLength (r : R σ δ) : Except RawExc Unit × R σ δ :=
  match r.chunkLeft with
  | some _ => (.ok (), r)
  | none =>
    match S.readline r.fp with
    | (.error e, fp) => (.error (.h e), { r with fp := fp })
    | (.ok line, fp) =>
      let r := { r with fp := fp }
      let line := cutExt line                       -- `line.split(b";", 1)[0]`
      match parseSize line with
      | .ok n => (.ok (), { r with chunkLeft := some n })
      | .negative => (.error (.exc .unsupported), r)
      | .valueError =>
        let r := closeResp S r
        if !line.isEmpty then (.error .invalidChunk, r) else (.error (.exc .protocolError), r)

def safeRead' (r : R σ δ) (n : Nat) : Except RawExc Bytes × R σ δ :=
  match S.safeRead r.fp n with
  | (.error e, fp) => (.error (.h e), { r with fp := fp })
  | (.ok d, fp) => (.ok d, { r with fp := fp })

/-- read the chunk data then toss the CRLF and forget the chunk -/
def readAndToss (r : R σ δ) (n : Nat) : Except RawExc Bytes × R σ δ :=
  match safeRead' S r n with
  | (.error e, r) => (.error e, r)
  | (.ok d, r) =>
    match safeRead' S r 2 with
    | (.error e, r) => (.error e, r)
    | (.ok _, r) => (.ok d, { r with chunkLeft := none })

/-- `_handle_chunk(amt)`; `chunk_left` is known here -/
def handleChunk (r : R σ δ) (amt : Option Nat) : Except RawExc Bytes × R σ δ :=
  match r.chunkLeft with
  | none => (.error (.exc .unsupported), r)
  | some cl =>
    match amt with
    | none => readAndToss S r cl
    | some a =>
      if a < cl then
        match safeRead' S r a with
        | (.error e, r) => (.error e, r)
        | (.ok d, r) => (.ok d, { r with chunkLeft := some (cl - a) })
      else if a = cl then readAndToss S r a
      else readAndToss S r cl

def rcLoop (amt : Option Nat) (dc : Bool) : Nat → R σ δ → List Bytes → (List Bytes × Except RawExc Unit) × R σ δ
  | 0, r, acc => ((acc, .error (.exc .fuel)), r)
  | fuel + 1, r, acc =>
    match updateChunkLength S r with
    | (.error e, r) => ((acc, .error e), r)
    | (.ok _, r) =>
      if r.chunkLeft = some 0 then ((acc, .ok ()), r)
      else match handleChunk S r amt with
        | (.error e, r) => ((acc, .error e), r)
        | (.ok chunk, r) =>
          match decode D r chunk dc false with
          | (.error e, r) => ((acc, .error (.exc e)), r)
          | (.ok dd, r) => rcLoop amt dc fuel r (if dd.isEmpty then acc else acc ++ [dd])

/-- the trailer loop at the end of `read_chunked` -/
def rcTrailer : Nat → R σ δ → Except RawExc Unit × R σ δ
  | 0, r => (.error (.exc .fuel), r)
  | fuel + 1, r =>
    match S.readline r.fp with
    | (.error e, fp) => (.error (.h e), { r with fp := fp })
    | (.ok line, fp) =>
      let r := { r with fp := fp }
      if line.isEmpty ∨ line = crlf then (.ok (), r) else rcTrailer fuel r

/-- `read_chunked(amt, decode_content)` (explicit `decode_content`) -/
def readChunked (r : R σ δ) (amt : Option Nat) (dc : Bool) : Gen × R σ δ :=
  let r := initDec cfg r
  if !cfg.chunked then (([], some .responseNotChunked), r)
  else
    -- body of `with self._error_catcher():`
    let body : (List Bytes × Except RawExc Unit) × R σ δ :=
      if cfg.head then (([], .ok ()), { r with fp := S.close r.fp })
      else if S.isclosed r.fp then (([], .ok ()), r)
      else
        match rcLoop S D amt dc cfg.fuel r [] with
        | ((ps, .error e), r) => ((ps, .error e), r)
        | ((ps, .ok _), r) =>
          let fl : (List Bytes × Except RawExc Unit) × R σ δ :=
            if dc then
              match flushDecoder D r with
              | (.error e, r) => ((ps, .error (.exc e)), r)
              | (.ok d, r) => ((if d.isEmpty then ps else ps ++ [d], .ok ()), r)
            else ((ps, .ok ()), r)
          match fl with
          | ((ps, .error e), r) => ((ps, .error e), r)
          | ((ps, .ok _), r) =>
            match rcTrailer S cfg.fuel r with
            | (.error e, r) => ((ps, .error e), r)
            | (.ok _, r) => ((ps, .ok ()), { r with fp := S.close r.fp })
    match errorCatcher S body.2 body.1.2 with
    | (.error e, r) => ((body.1.1, some e), r)
    | (.ok _, r) => ((body.1.1, none), r)

/-- `stream(amt, decode_content)` -/
def stream (r : R σ δ) (amt : Option Nat) (dco : Option Bool) : Gen × R σ δ :=
  if cfg.chunked then readChunked S D cfg r amt (dco.getD false)     -- `None` is passed through: falsy
  else streamLoop S D cfg amt dco cfg.fuel r []

/-- the re-splitting of `__iter__`: chunk list → lines, with the carry buffer -/
def iterSplit : List Bytes → Bytes → List Bytes
  | [], carry => if carry.isEmpty then [] else [carry]
  | chunk :: rest, carry =>
    if chunk.contains LF then
      let parts := splitOn1 LF chunk
      let first := carry ++ parts.headD [] ++ [LF]
      let mid := (parts.drop 1).dropLast.map (· ++ [LF])
      let lastp := parts.getLastD []
      first :: mid ++ iterSplit rest lastp
    else iterSplit rest (carry ++ chunk)

/-- lines yielded before the underlying stream raised (the carry is lost) -/
def iterSplitErr : List Bytes → Bytes → List Bytes
  | [], _ => []
  | chunk :: rest, carry =>
    if chunk.contains LF then
      let parts := splitOn1 LF chunk
      let first := carry ++ parts.headD [] ++ [LF]
      let mid := (parts.drop 1).dropLast.map (· ++ [LF])
      first :: mid ++ iterSplitErr rest (parts.getLastD [])
    else iterSplitErr rest (carry ++ chunk)

/-- `__iter__` -/
def iter (r : R σ δ) : Gen × R σ δ :=
  match stream S D cfg r (some 65536) (some true) with
  | ((ps, none), r) => ((iterSplit ps [], none), r)
  | ((ps, some e), r) => ((iterSplitErr ps [], some e), r)

/-- the exception classes `drain_conn` swallows — `except (HTTPError, OSError, BaseSSLError,
HTTPException)` —: of the classes the wrapper can raise, the urllib3 `HTTPError`s.  `RuntimeError`,
`AttributeError` and a decoder's own error class escaping `_flush_decoder` are not in the list and
propagate (as do the model's `unsupported` / `fuel` outcomes) -/
def drainSwallows : Exc → Bool
  | .protocolError => true
  | .decodeError => true
  | .responseNotChunked => true
  | .invalidHeader => true
  | _ => false

/-- `drain_conn()`: `try: self.read() except (HTTPError, OSError, BaseSSLError, HTTPException): pass`
— the body is read through `read()` (default `decode_content`, so through `_raw_read` and its
`_error_catcher`), the bytes are thrown away -/
def drainConn (r : R σ δ) : Except Exc Unit × R σ δ :=
  match read S D cfg r none none with
  | (.ok _, r) => (.ok (), r)
  | (.error e, r) => if drainSwallows e then (.ok (), r) else (.error e, r)

/-- the `data` property -/
def data (r : R σ δ) : Except Exc Bytes × R σ δ :=
  match r.body with
  | some b => if !b.isEmpty then (.ok b, r) else read S D cfg r none none true
  | none => read S D cfg r none none true

end

/-! ## `_init_length` and construction -/

def intOfSign (p : Bool × Nat) : Int := if p.1 then -(p.2 : Int) else (p.2 : Int)

/-- `_init_length(request_method)`; `Except` carries `InvalidHeader` -/
def initLength (cl : Option Str) (chunked : Bool) (status : Nat) (head : Bool) : Except Exc (Option Int) :=
  let fin (l : Option Int) : Option Int :=
    if status = 204 ∨ status = 304 ∨ (100 ≤ status ∧ status < 200) ∨ head then some 0 else l
  match cl with
  | none => .ok (fin none)
  | some v =>
    if chunked then .ok none
    else
      match (splitOn1 44 v).mapM pyInt10 with
      | none => .ok (fin none)                               -- ValueError
      | some vals =>
        let ints := vals.map intOfSign
        match ints with
        | [] => .ok (fin none)
        | x :: t =>
          if t.any (· ≠ x) then .error .invalidHeader
          else .ok (fin (if x < 0 then none else some x))

/-- urllib3's own reading of Transfer-Encoding -/
def u3Chunked (te : Option Str) : Bool :=
  ((splitOn1 44 (lower (te.getD []))).map strip).contains (lit "chunked")

end U3.Resp
