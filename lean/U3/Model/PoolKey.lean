import U3.Base.Str
import U3.Gen.PoolKey
/-!
# Model of `urllib3.poolmanager`: `PoolKey`, `_default_key_normalizer`, `_merge_pool_kwargs`,
# `connection_from_host/_context/_pool_key`, `_new_pool` keyword filtering

A request context (Python `dict[str, Any]`) is an association list in insertion order
(`List (Str × Val)`); `get/set/erase` are the dict primitives (`set` on an existing key keeps its
position, as CPython does).  Values are the small universe `Val`; objects that do not define
`__eq__` (`Retry`, `Timeout`, `SSLContext`, …) are `obj id` and compare by identity, as the code
does.  `Val.list` stands for a Python `tuple` (and, as the value of `socket_options`, also for a
`list`, which `_default_key_normalizer` turns into a tuple).  A `frozenset` of `(str, str)` items
is a `Val.dict` whose item list is sorted and duplicate-free (`toSet`), so that Lean equality of
keys is Python `==` of keys.

The field list of `PoolKey`, `SSL_KEYWORDS`, `_DEFAULT_BLOCKSIZE`, `port_by_scheme` and the key sets
of `key_fn_by_scheme` / `pool_classes_by_scheme` are **generated** (`U3.Gen.PoolKey`).
-/
namespace U3.PoolKey
open U3

/-- the value universe of request contexts -/
inductive Val where
  | none
  | str (s : Str)
  | int (i : Int)
  | bool (b : Bool)
  | dict (d : List (Str × Str))
  | list (l : List Val)
  | obj (id : Nat)
deriving Repr

namespace Val
mutual
def beq : Val → Val → Bool
  | .none, .none => true
  | .str a, .str b => a == b
  | .int a, .int b => a == b
  | .bool a, .bool b => a == b
  | .dict a, .dict b => a == b
  | .list a, .list b => beqL a b
  | .obj a, .obj b => a == b
  | _, _ => false
def beqL : List Val → List Val → Bool
  | [], [] => true
  | a :: as, b :: bs => beq a b && beqL as bs
  | _, _ => false
end

mutual
theorem beq_eq : ∀ (a b : Val), beq a b = true → a = b
  | .none, b => by cases b <;> simp [beq]
  | .str a, b => by cases b <;> simp [beq]
  | .int a, b => by cases b <;> simp [beq]
  | .bool a, b => by cases b <;> simp [beq]
  | .dict a, b => by cases b <;> simp [beq]
  | .obj a, b => by cases b <;> simp [beq]
  | .list a, b => by
    cases b <;> simp [beq]
    exact beqL_eq a _
theorem beqL_eq : ∀ (a b : List Val), beqL a b = true → a = b
  | [], b => by cases b <;> simp [beqL]
  | a :: as, b => by
    cases b <;> simp [beqL]
    intro h1 h2
    exact ⟨beq_eq a _ h1, beqL_eq as _ h2⟩
end

mutual
theorem beq_refl : ∀ (a : Val), beq a a = true
  | .none | .str _ | .int _ | .bool _ | .dict _ | .obj _ => by simp [beq]
  | .list a => by simp [beq]; exact beqL_refl a
theorem beqL_refl : ∀ (a : List Val), beqL a a = true
  | [] => by simp [beqL]
  | a :: as => by simp [beqL]; exact ⟨beq_refl a, beqL_refl as⟩
end

instance : DecidableEq Val := fun a b =>
  if h : beq a b = true then isTrue (beq_eq a b h) else isFalse (fun e => h (e ▸ beq_refl a))

/-- Python truthiness (`if not port`) -/
def truthy : Val → Bool
  | .none => false
  | .str s => !s.isEmpty
  | .int i => i != 0
  | .bool b => b
  | .dict d => !d.isEmpty
  | .list l => !l.isEmpty
  | .obj _ => true
end Val

abbrev Ctx := List (Str × Val)
/-- the `PoolKey` named tuple: one value per entry of `Gen.poolKeyFields`, in that order -/
abbrev Key := List Val

inductive Exc where
  | keyError | attributeError | typeError | locationValueError | urlSchemeUnknown
deriving DecidableEq, Repr

/-! ## keyword constants -/
def kScheme : Str := lit "scheme"
def kHost : Str := lit "host"
def kPort : Str := lit "port"
def kHeaders : Str := lit "headers"
def kProxyHeaders : Str := lit "_proxy_headers"
def kSocksOptions : Str := lit "_socks_options"
def kSocketOptions : Str := lit "socket_options"
def kBlocksize : Str := lit "blocksize"
def kStrict : Str := lit "strict"
def kHttp : Str := lit "http"
def keyPrefix : Str := lit "key_"
def kKeyBlocksize : Str := keyPrefix ++ kBlocksize

/-! ## dict primitives -/
/-- `c.get(k)` / `c[k]` (`none` = absent) -/
def get : Ctx → Str → Option Val
  | [], _ => Option.none
  | p :: t, k => if k = p.1 then some p.2 else get t k
/-- `k in c` -/
def has (c : Ctx) (k : Str) : Bool := (get c k).isSome
/-- `c.pop(k, None)` / `del c[k]` as far as the remaining dict is concerned -/
def erase (c : Ctx) (k : Str) : Ctx := c.filter (fun p => decide (p.1 ≠ k))
/-- `c[k] = v`: an existing key keeps its position, a new key is appended -/
def set (c : Ctx) (k : Str) (v : Val) : Ctx :=
  if has c k then c.map (fun p => if p.1 = k then (p.1, v) else p) else c ++ [(k, v)]
/-- `list(c.keys())` -/
def keys (c : Ctx) : List Str := c.map (·.1)

/-! ## `frozenset(d.items())` as a sorted duplicate-free list -/
def strCmp : Str → Str → Ordering
  | [], [] => .eq
  | [], _ :: _ => .lt
  | _ :: _, [] => .gt
  | a :: as, b :: bs => if a < b then .lt else if b < a then .gt else strCmp as bs

def pairCmp (p q : Str × Str) : Ordering :=
  match strCmp p.1 q.1 with
  | .eq => strCmp p.2 q.2
  | o => o

def insertSet (p : Str × Str) : List (Str × Str) → List (Str × Str)
  | [] => [p]
  | q :: t => match pairCmp p q with
    | .lt => p :: q :: t
    | .eq => q :: t
    | .gt => q :: insertSet p t

def toSet (d : List (Str × Str)) : List (Str × Str) := d.foldr insertSet []

/-- Python `tuple(v)`: defined for the iterable values (`list`/`tuple`, `str` → its characters,
`dict` → its keys); `none` = `TypeError: … object is not iterable` -/
def asSeq : Val → Option (List Val)
  | .list l => some l
  | .str s => some (s.map fun ch => .str [ch])
  | .dict d => some (d.map fun p => .str p.1)
  | _ => Option.none

/-! ## `_default_key_normalizer(key_class, request_context)` -/

/-- `context[k] = context[k].lower()` -/
def lowerKey (c : Ctx) (k : Str) : Except Exc Ctx :=
  match get c k with
  | Option.none => .error .keyError
  | some (.str s) => .ok (set c k (.str (lower s)))
  | some _ => .error .attributeError

/-- `if k in context and context[k] is not None: context[k] = frozenset(context[k].items())` -/
def freezeKey (c : Ctx) (k : Str) : Except Exc Ctx :=
  match get c k with
  | Option.none => .ok c
  | some .none => .ok c
  | some (.dict d) => .ok (set c k (.dict (toSet d)))
  | some _ => .error .attributeError

/-- `socket_opts = context.get("socket_options"); if socket_opts is not None: … = tuple(socket_opts)` -/
def freezeSockOpts (c : Ctx) : Except Exc Ctx :=
  match get c kSocketOptions with
  | Option.none => .ok c
  | some .none => .ok c
  | some v => match asSeq v with
    | some l => .ok (set c kSocketOptions (.list l))
    | Option.none => .error .typeError

/-- `for key in list(context.keys()): context["key_" + key] = context.pop(key)` (the key list is
the snapshot taken before the loop) -/
def renameLoop : List Str → Ctx → Except Exc Ctx
  | [], c => .ok c
  | k :: ks, c => match get c k with
    | Option.none => .error .keyError
    | some v => renameLoop ks (set (erase c k) (keyPrefix ++ k) v)

/-- `for field in key_class._fields: if field not in context: context[field] = None` -/
def fillMissing : List Str → Ctx → Ctx
  | [], c => c
  | f :: fs, c => fillMissing fs (if has c f then c else set c f .none)

/-- `if context.get("key_blocksize") is None: context["key_blocksize"] = _DEFAULT_BLOCKSIZE` -/
def defaultBlock (c : Ctx) : Ctx :=
  match get c kKeyBlocksize with
  | Option.none => set c kKeyBlocksize (.int Gen.defaultBlocksize)
  | some .none => set c kKeyBlocksize (.int Gen.defaultBlocksize)
  | some _ => c

/-- the values of the named-tuple fields; a missing one is Python's "missing required argument" -/
def collect : List Str → Ctx → Except Exc Key
  | [], _ => .ok []
  | f :: fs, c => match get c f with
    | Option.none => .error .typeError
    | some v => match collect fs c with
      | .ok vs => .ok (v :: vs)
      | .error e => .error e

/-- `key_class(**context)`: an unexpected keyword is a `TypeError` -/
def construct (fields : List Str) (c : Ctx) : Except Exc Key :=
  if (keys c).all (fun k => decide (k ∈ fields)) then collect fields c else .error .typeError

/-- the first half of the normaliser: lower-casing and freezing, in source order -/
def pre (c0 : Ctx) : Except Exc Ctx :=
  match lowerKey c0 kScheme with
  | .error e => .error e
  | .ok c1 => match lowerKey c1 kHost with
    | .error e => .error e
    | .ok c2 => match freezeKey c2 kHeaders with
      | .error e => .error e
      | .ok c3 => match freezeKey c3 kProxyHeaders with
        | .error e => .error e
        | .ok c4 => match freezeKey c4 kSocksOptions with
          | .error e => .error e
          | .ok c5 => freezeSockOpts c5

def normalizeWith (fields : List Str) (c0 : Ctx) : Except Exc Key :=
  match pre c0 with
  | .error e => .error e
  | .ok c6 => match renameLoop (keys c6) c6 with
    | .error e => .error e
    | .ok c7 => construct fields (defaultBlock (fillMissing fields c7))

/-- `functools.partial(_default_key_normalizer, PoolKey)` -/
def normalize (c : Ctx) : Except Exc Key := normalizeWith Gen.poolKeyFields c

/-! ## `PoolManager._merge_pool_kwargs(override)` -/
def mergeStep (b : Ctx) (kv : Str × Val) : Ctx :=
  match kv.2 with
  | .none => erase b kv.1
  | v => set b kv.1 v

/-- returns the new dict; `defaults` (= `self.connection_pool_kw`) is an argument and therefore
untouched (the aliasing half of "never alters the defaults" is checked by the correspondence run) -/
def merge (defaults : Ctx) (override : Option Ctx) : Ctx :=
  match override with
  | Option.none => defaults
  | some o => if o.isEmpty then defaults else o.foldl mergeStep defaults

/-! ## `PoolManager._new_pool(scheme, host, port, request_context)` — the keyword arguments handed
to the pool class -/
def eraseAll (ks : List Str) (c : Ctx) : Ctx := ks.foldl erase c

def newPoolKw (scheme : Str) (rc : Ctx) : Ctx :=
  let rc := match get rc kBlocksize with
    | Option.none => set rc kBlocksize (.int Gen.defaultBlocksize)
    | some .none => set rc kBlocksize (.int Gen.defaultBlocksize)
    | some _ => rc
  let rc := eraseAll [kScheme, kHost, kPort] rc
  if scheme = kHttp then eraseAll Gen.sslKeywords rc else rc

/-! ## `connection_from_host` → `connection_from_context` → `connection_from_pool_key` -/

/-- the request context built by `connection_from_host(host, port, scheme, pool_kwargs)` -/
def requestContext (defaults : Ctx) (host : Option Str) (port : Val) (scheme : Option Str)
    (kw : Option Ctx) : Except Exc Ctx :=
  match host with
  | Option.none => .error .locationValueError
  | some h =>
    if h.isEmpty then .error .locationValueError else
    let rc := merge defaults kw
    let sch : Str := match scheme with
      | some s => if s.isEmpty then kHttp else s
      | Option.none => kHttp
    let rc := set rc kScheme (.str sch)
    let port := if port.truthy then port else
      .int ((List.lookup (lower sch) Gen.portByScheme).getD 80)
    let rc := set rc kPort port
    .ok (set rc kHost (.str h))

structure Mgr where
  defaults : Ctx
  /-- `self.pools` without eviction (the LRU bound is C17's subject; the harness uses a large
  `num_pools`): key ↦ pool identity (small integers in order of creation) -/
  pools : List (Key × Nat)
  next : Nat

inductive Out where
  | old (id : Nat)
  | new (id : Nat) (kw : Ctx)
  | exc (e : Exc)

def Mgr.init (defaults : Ctx) : Mgr := ⟨defaults, [], 0⟩

/-- `connection_from_context(request_context)` -/
def fromContext (m : Mgr) (rc : Ctx) : Mgr × Out :=
  let rc := if has rc kStrict then erase rc kStrict else rc
  match get rc kScheme with
  | Option.none => (m, .exc .keyError)
  | some (.str s) =>
    if !(Gen.keyFnSchemes.contains (lower s)) then (m, .exc .urlSchemeUnknown) else
    match normalize rc with
    | .error e => (m, .exc e)
    | .ok key =>
      match List.lookup key m.pools with
      | some id => (m, .old id)
      | Option.none =>
        -- scheme = request_context["scheme"]; host = …["host"]; port = …["port"]
        match get rc kHost, get rc kPort with
        | some _, some _ =>
          -- pool_cls = self.pool_classes_by_scheme[scheme]   (the scheme as given, not lower-cased)
          if !(Gen.poolClassSchemes.contains s) then (m, .exc .keyError) else
          ({ m with pools := m.pools ++ [(key, m.next)], next := m.next + 1 }, .new m.next (newPoolKw s rc))
        | _, _ => (m, .exc .keyError)
  | some _ => (m, .exc .attributeError)

/-- `connection_from_host(host, port, scheme, pool_kwargs)` -/
def fromHost (m : Mgr) (host : Option Str) (port : Val) (scheme : Option Str) (kw : Option Ctx) :
    Mgr × Out :=
  match requestContext m.defaults host port scheme kw with
  | .error e => (m, .exc e)
  | .ok rc => fromContext m rc

/-! ## specification vocabulary (used by `U3.Props.C18`) -/

/-- a Python dict has each key once -/
def IsDict (c : Ctx) : Prop := (keys c).Nodup

/-- no keyword of the context is `"key_" +` another keyword of the context.  Every context whose
keywords are all accepted by the pool / connection constructors satisfies this
(`C18_accepted_no_clash`); without it the renaming loop of `_default_key_normalizer` overwrites
one entry with another (`{"file": x, "key_file": y}`), see `C18_clash_witness`. -/
def NoClash (c : Ctx) : Prop := ∀ k ∈ keys c, keyPrefix ++ k ∉ keys c

instance (c : Ctx) : Decidable (IsDict c) := inferInstanceAs (Decidable (keys c).Nodup)
instance (c : Ctx) : Decidable (NoClash c) :=
  inferInstanceAs (Decidable (∀ k ∈ keys c, keyPrefix ++ k ∉ keys c))

/-- absent ≡ `None` -/
def optV (o : Option Val) : Val := o.getD .none

/-- `blocksize`: absent / `None` mean `_DEFAULT_BLOCKSIZE` (in the key and in `_new_pool`) -/
def blockOf : Val → Val
  | .none => .int Gen.defaultBlocksize
  | v => v

/-- when two values of keyword `kw` denote the same connection setting -/
def FieldEquiv (kw : Str) (a b : Val) : Prop :=
  if kw = kScheme ∨ kw = kHost then
    ∃ s t, a = .str s ∧ b = .str t ∧ lower s = lower t          -- ASCII case-insensitive
  else if kw = kHeaders ∨ kw = kProxyHeaders ∨ kw = kSocksOptions then
    (a = .none ∧ b = .none) ∨ ∃ d e, a = .dict d ∧ b = .dict e ∧ ∀ p, p ∈ d ↔ p ∈ e   -- same item set
  else if kw = kSocketOptions then
    (a = .none ∧ b = .none) ∨ ∃ l, asSeq a = some l ∧ asSeq b = some l   -- same sequence (list vs tuple)
  else if kw = kBlocksize then blockOf a = blockOf b
  else a = b

/-- equality of request contexts up to scheme/host ASCII case, dict item order, list-vs-tuple,
absent-vs-`None` and the `blocksize` default -/
def CtxEquiv (c₁ c₂ : Ctx) : Prop := ∀ kw, FieldEquiv kw (optV (get c₁ kw)) (optV (get c₂ kw))

/-- `"key_" + kw` -/
def keyField (kw : Str) : Str := keyPrefix ++ kw

/-- the positional arguments of the pool / connection constructors (also part of the key) -/
def positional : List Str := [kHost, kPort, kScheme]

/-- constructor keywords that are deliberately *not* part of `PoolKey`: `HTTPConnection(proxy=,
proxy_config=)` are filled in by `HTTPConnectionPool.__init__` from its own `_proxy` /
`_proxy_config` (which are key fields); a caller who supplies them through the manager is rejected
by the key constructor.  Hand-kept on purpose: a new constructor keyword that is neither keyed nor
listed here breaks `C18_every_keyword_keyed_or_rejected`. -/
def internalKeywords : List Str := [lit "proxy", lit "proxy_config"]

/-- every keyword some pool / connection constructor accepts by name, plus `scheme` (which
`connection_from_host` adds) and `_socks_options` (a `PoolKey` field consumed by the SOCKS pool
classes in `contrib`) -/
def acceptedKeywords : List Str :=
  Gen.poolCtorKeywords ++ Gen.connCtorKeywords ++ [kScheme, kSocksOptions]

/-- named parameters of `PoolManager` / `ProxyManager`: manager-level (`num_pools`, `headers` =
the manager's per-request default headers, not a pool setting) or translated by
`ProxyManager.__init__` into the keyed `_proxy`, `_proxy_headers`, `_proxy_config` -/
def managerLevelKeywords : List Str :=
  [lit "num_pools", lit "headers", lit "proxy_url", lit "proxy_headers", lit "proxy_ssl_context",
   lit "use_forwarding_for_https", lit "proxy_assert_hostname", lit "proxy_assert_fingerprint"]

end U3.PoolKey
