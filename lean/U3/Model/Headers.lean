import U3.Base.Str
import U3.Gen.Collections
/-!
# Model of `urllib3._collections.HTTPHeaderDict`

`_container` is an insertion-ordered `dict` `lower(name) -> [name, v1, v2, …]`; it is modelled as an
association list of `Entry`s in insertion order (assignment to an existing key keeps its position,
exactly like a Python `dict`).  Everything inherited from `MutableMapping` (`update`, `pop`,
`popitem`, `setdefault`, `get`) is transcribed from CPython 3.12's `_collections_abc.py`.
-/
namespace U3.Headers
open U3

structure Entry where
  key  : Str          -- lower-cased name, the dict key
  name : Str          -- vals[0]
  vals : List Str     -- vals[1:]
deriving Repr, DecidableEq

abbrev HD := List Entry

/-- `", "` -/
def commaSp : Str := [44, 32]

/-- `", ".join(vals)` -/
def merged (vals : List Str) : Str := joinWith commaSp vals

def lookup (h : HD) (lk : Str) : Option Entry := h.find? (fun e => e.key == lk)

/-- `self._container[key.lower()] = [key, val]` -/
def setItem : HD → Str → Str → HD
  | [], k, v => [⟨lower k, k, [v]⟩]
  | e :: t, k, v => if e.key = lower k then ⟨lower k, k, [v]⟩ :: t else e :: setItem t k v

/-- replace the last element of a non-empty list (`vals[-1] = f vals[-1]`) -/
def modLast (f : Str → Str) : List Str → List Str
  | [] => []
  | [x] => [f x]
  | x :: y :: t => x :: modLast f (y :: t)

/-- `add(key, val, combine=c)` -/
def add : HD → Str → Str → Bool → HD
  | [], k, v, _ => [⟨lower k, k, [v]⟩]
  | e :: t, k, v, c =>
    if e.key = lower k then
      (if c then { e with vals := modLast (fun x => x ++ commaSp ++ v) e.vals }
       else { e with vals := e.vals ++ [v] }) :: t
    else e :: add t k v c

def hasKey (h : HD) (k : Str) : Bool := h.any (fun e => e.key == lower k)

/-- `del self._container[key.lower()]`; `none` = `KeyError` -/
def delItem (h : HD) (k : Str) : Option HD :=
  if hasKey h k then some (h.filter (fun e => !(e.key == lower k))) else none

/-- `__getitem__`; `none` = `KeyError` -/
def getItem (h : HD) (k : Str) : Option Str := (lookup h (lower k)).map (fun e => merged e.vals)

/-- `getlist(key)` without default -/
def getlist (h : HD) (k : Str) : List Str :=
  match lookup h (lower k) with
  | some e => e.vals
  | none => []

def iterKeys (h : HD) : List Str := h.map (·.name)
def iteritems (h : HD) : List (Str × Str) := h.flatMap (fun e => e.vals.map (fun v => (e.name, v)))
def itermerged (h : HD) : List (Str × Str) := h.map (fun e => (e.name, merged e.vals))

def discard (h : HD) (k : Str) : HD := (delItem h k).getD h

/-- the names of `_prepare_for_method_change` (generated from the source on every run) -/
def contentSpecific : List Str := Gen.contentSpecificHeaders

def prepareForMethodChange (h : HD) : HD := contentSpecific.foldl discard h

/-- `extend` on a source that has been flattened to the (name, value) pairs it yields:
`iteritems()` of an `HTTPHeaderDict`, `items()` of a mapping, the pairs of an iterable, or
`(k, other[k])` for the duck-typed branch. -/
def extend (h : HD) (ps : List (Str × Str)) : HD := ps.foldl (fun h p => add h p.1 p.2 false) h

/-- `MutableMapping.update` (all branches end in `self[key] = value`) over the pairs it visits:
for an `HTTPHeaderDict` source these are `itermerged()`. -/
def update (h : HD) (ps : List (Str × Str)) : HD := ps.foldl (fun h p => setItem h p.1 p.2) h

/-- `_copy_from`: `for key in other: self._container[key.lower()] = [key, *other.getlist(key)]` -/
def copyFrom (self other : HD) : HD :=
  other.foldl (fun acc e =>
    let ent : Entry := ⟨lower e.name, e.name, getlist other e.name⟩
    -- dict assignment: replace in place or append
    if acc.any (fun x => x.key == ent.key) then acc.map (fun x => if x.key == ent.key then ent else x)
    else acc ++ [ent]) self

def copy (h : HD) : HD := copyFrom [] h

/-- `MutableMapping.setdefault` → returns the value -/
def setdefault (h : HD) (k d : Str) : HD × Str :=
  match getItem h k with
  | some v => (h, v)
  | none => (setItem h k d, d)

/-- `MutableMapping.pop(key)`; `none` = `KeyError` (no default) -/
def pop (h : HD) (k : Str) : Option (HD × Str) :=
  match getItem h k, delItem h k with
  | some v, some h' => some (h', v)
  | _, _ => none

/-- `MutableMapping.popitem`: first key in iteration order -/
def popitem (h : HD) : Option (HD × Str × Str) :=
  match h with
  | [] => none
  | e :: _ => match pop h e.name with
    | some (h', v) => some (h', e.name, v)
    | none => none

/-- the dict `{k.lower(): v for k, v in itermerged()}` compared as a set of pairs -/
def eqDict (a b : HD) : Bool :=
  let da := a.map (fun e => (lower e.name, merged e.vals))
  let db := b.map (fun e => (lower e.name, merged e.vals))
  da.all (fun p => db.contains p) && db.all (fun p => da.contains p) &&
    da.length == db.length

/-- `_has_value_for_header` -/
def hasValueFor (h : HD) (k v : Str) : Bool := (getlist h k).contains v

/-! ## The reference multimap: the header lines as they go on the wire -/

abbrev Flat := List (Str × Str)

def fHas (f : Flat) (k : Str) : Bool := f.any (fun p => lower p.1 == lower k)

/-- add: a new line right after the last line of that name (keeping the group's spelling), or at
the end when the name is new -/
def specAdd : Flat → Str → Str → Flat
  | [], k, v => [(k, v)]
  | p :: t, k, v =>
    if lower p.1 = lower k then
      if fHas t k then p :: specAdd t k v else p :: (p.1, v) :: t
    else p :: specAdd t k v

/-- add with combine: the last line of that name gets `", " ++ v` appended -/
def specAddC : Flat → Str → Str → Flat
  | [], k, v => [(k, v)]
  | p :: t, k, v =>
    if lower p.1 = lower k then
      if fHas t k then p :: specAddC t k v else (p.1, p.2 ++ commaSp ++ v) :: t
    else p :: specAddC t k v

/-- assignment: the first line of that name becomes `(k, v)`, every other line of that name goes
away; a new name is appended -/
def specSet : Flat → Str → Str → Flat
  | [], k, v => [(k, v)]
  | p :: t, k, v =>
    if lower p.1 = lower k then (k, v) :: t.filter (fun q => !(lower q.1 == lower k))
    else p :: specSet t k v

def specDel (f : Flat) (k : Str) : Option Flat :=
  if fHas f k then some (f.filter (fun q => !(lower q.1 == lower k))) else none

def specGetlist (f : Flat) (k : Str) : List Str :=
  (f.filter (fun q => lower q.1 == lower k)).map (·.2)

/-! ## Handles (object identity): a store of dictionaries -/

inductive Src where
  | hd (i : Nat)                       -- another HTTPHeaderDict (by handle)
  | pairs (ps : List (Str × Str))      -- dict / list of tuples / duck-typed object, flattened
deriving Repr

inductive Op where
  | new
  | ctor (s : Src)
  | set (h : Nat) (k v : Str)
  | del (h : Nat) (k : Str)
  | add (h : Nat) (k v : Str) (c : Bool)
  | extend (h : Nat) (s : Src)
  | update (h : Nat) (s : Src)
  | setdefault (h : Nat) (k v : Str)
  | pop (h : Nat) (k : Str) (d : Option Str)
  | popitem (h : Nat)
  | discard (h : Nat) (k : Str)
  | clear (h : Nat)
  | copy (h : Nat)
  | or (h : Nat) (s : Src)
  | ior (h : Nat) (s : Src)
  | ror (h : Nat) (s : Src)
  | pmc (h : Nat)
deriving Repr

inductive Out where
  | unit
  | keyError
  | badHandle
  | str (s : Str)
  | pair (k v : Str)
  | handle (i : Nat)
deriving Repr, DecidableEq

abbrev Store := List HD

def Store.get (st : Store) (i : Nat) : Option HD := st[i]?
def Store.put (st : Store) (i : Nat) (h : HD) : Store := st.set i h

/-- pairs an `extend`-like consumer sees -/
def srcLines (st : Store) : Src → Option (List (Str × Str))
  | .hd i => (st.get i).map iteritems
  | .pairs ps => some ps

/-- pairs a `MutableMapping.update` consumer sees -/
def srcMerged (st : Store) : Src → Option (List (Str × Str))
  | .hd i => (st.get i).map itermerged
  | .pairs ps => some ps

/-- `HTTPHeaderDict(src)` -/
def construct (st : Store) : Src → Option HD
  | .hd i => (st.get i).map copy
  | .pairs ps => some (extend [] ps)

def step (st : Store) : Op → Store × Out
  | .new => (st ++ [[]], .handle st.length)
  | .ctor s => match construct st s with
    | some h => (st ++ [h], .handle st.length)
    | none => (st, .badHandle)
  | .set i k v => match st.get i with
    | some h => (st.put i (setItem h k v), .unit)
    | none => (st, .badHandle)
  | .del i k => match st.get i with
    | some h => (match delItem h k with
      | some h' => (st.put i h', .unit)
      | none => (st, .keyError))
    | none => (st, .badHandle)
  | .add i k v c => match st.get i with
    | some h => (st.put i (add h k v c), .unit)
    | none => (st, .badHandle)
  | .extend i s => match st.get i, srcLines st s with
    | some h, some ps => (st.put i (extend h ps), .unit)
    | _, _ => (st, .badHandle)
  | .update i s => match st.get i, srcMerged st s with
    | some h, some ps => (st.put i (update h ps), .unit)
    | _, _ => (st, .badHandle)
  | .setdefault i k v => match st.get i with
    | some h => let r := setdefault h k v; (st.put i r.1, .str r.2)
    | none => (st, .badHandle)
  | .pop i k d => match st.get i with
    | some h => (match pop h k, d with
      | some (h', v), _ => (st.put i h', .str v)
      | none, some d => (st, .str d)
      | none, none => (st, .keyError))
    | none => (st, .badHandle)
  | .popitem i => match st.get i with
    | some h => (match popitem h with
      | some (h', k, v) => (st.put i h', .pair k v)
      | none => (st, .keyError))
    | none => (st, .badHandle)
  | .discard i k => match st.get i with
    | some h => (st.put i (discard h k), .unit)
    | none => (st, .badHandle)
  | .clear i => match st.get i with
    | some _ => (st.put i [], .unit)
    | none => (st, .badHandle)
  | .copy i => match st.get i with
    | some h => (st ++ [copy h], .handle st.length)
    | none => (st, .badHandle)
  | .or i s => match st.get i, srcLines st s with
    | some h, some ps => (st ++ [extend (copy h) ps], .handle st.length)
    | _, _ => (st, .badHandle)
  | .ior i s => match st.get i, srcLines st s with
    | some h, some ps => (st.put i (extend h ps), .unit)
    | _, _ => (st, .badHandle)
  | .ror i s => match st.get i, construct st s with
    | some h, some r => (st ++ [extend r (iteritems h)], .handle st.length)
    | _, _ => (st, .badHandle)
  | .pmc i => match st.get i with
    | some h => (st.put i (prepareForMethodChange h), .unit)
    | none => (st, .badHandle)

end U3.Headers

namespace U3.Headers
open U3
/-! ## The reference machine: every operation on the flat line lists only

`specStep` is the "simple reference multimap" of the property: a store of flat `(name, value)` line
lists on which assignment replaces, add appends and names compare case-insensitively.  It never
mentions the grouped representation.  `U3.Props.C16_refines` proves that the model of the real class
commutes with it through `iteritems`. -/

def other (k : Str) (q : Str × Str) : Bool := !(lower q.1 == lower k)

/-- first-seen spellings of the distinct names, in order of first appearance -/
def specNamesAux (seen : List Str) : Flat → List Str
  | [] => []
  | p :: t =>
    if seen.contains (lower p.1) then specNamesAux seen t
    else p.1 :: specNamesAux (lower p.1 :: seen) t

def specNames (f : Flat) : List Str := specNamesAux [] f

def specMerged (f : Flat) : Flat := (specNames f).map (fun n => (n, merged (specGetlist f n)))

def specGet (f : Flat) (k : Str) : Option Str :=
  if fHas f k then some (merged (specGetlist f k)) else none

def specDiscard (f : Flat) (k : Str) : Flat := f.filter (other k)
def specExtend (f : Flat) (ps : List (Str × Str)) : Flat := ps.foldl (fun f p => specAdd f p.1 p.2) f
def specUpdate (f : Flat) (ps : List (Str × Str)) : Flat := ps.foldl (fun f p => specSet f p.1 p.2) f

def specLinesOf (st : List Flat) : Src → Option Flat
  | .hd i => st[i]?
  | .pairs ps => some ps

def specMergedOf (st : List Flat) : Src → Option Flat
  | .hd i => st[i]?.map specMerged
  | .pairs ps => some ps

def specConstruct (st : List Flat) : Src → Option Flat
  | .hd i => st[i]?
  | .pairs ps => some (specExtend [] ps)

def specPop (f : Flat) (k : Str) : Option (Flat × Str) :=
  match specGet f k with
  | some v => some (specDiscard f k, v)
  | none => none

def specStep (st : List Flat) : Op → List Flat × Out
  | .new => (st ++ [[]], .handle st.length)
  | .ctor s => match specConstruct st s with
    | some f => (st ++ [f], .handle st.length)
    | none => (st, .badHandle)
  | .set i k v => match st[i]? with
    | some f => (st.set i (specSet f k v), .unit)
    | none => (st, .badHandle)
  | .del i k => match st[i]? with
    | some f => (match specDel f k with
      | some f' => (st.set i f', .unit)
      | none => (st, .keyError))
    | none => (st, .badHandle)
  | .add i k v c => match st[i]? with
    | some f => (st.set i (if c then specAddC f k v else specAdd f k v), .unit)
    | none => (st, .badHandle)
  | .extend i s => match st[i]?, specLinesOf st s with
    | some f, some ps => (st.set i (specExtend f ps), .unit)
    | _, _ => (st, .badHandle)
  | .update i s => match st[i]?, specMergedOf st s with
    | some f, some ps => (st.set i (specUpdate f ps), .unit)
    | _, _ => (st, .badHandle)
  | .setdefault i k v => match st[i]? with
    | some f => (match specGet f k with
      | some x => (st.set i f, .str x)
      | none => (st.set i (specSet f k v), .str v))
    | none => (st, .badHandle)
  | .pop i k d => match st[i]? with
    | some f => (match specPop f k, d with
      | some (f', v), _ => (st.set i f', .str v)
      | none, some d => (st, .str d)
      | none, none => (st, .keyError))
    | none => (st, .badHandle)
  | .popitem i => match st[i]? with
    | some f => (match f with
      | [] => (st, .keyError)
      | p :: _ => match specPop f p.1 with
        | some (f', v) => (st.set i f', .pair p.1 v)
        | none => (st, .keyError))
    | none => (st, .badHandle)
  | .discard i k => match st[i]? with
    | some f => (st.set i (specDiscard f k), .unit)
    | none => (st, .badHandle)
  | .clear i => match st[i]? with
    | some _ => (st.set i [], .unit)
    | none => (st, .badHandle)
  | .copy i => match st[i]? with
    | some f => (st ++ [f], .handle st.length)
    | none => (st, .badHandle)
  | .or i s => match st[i]?, specLinesOf st s with
    | some f, some ps => (st ++ [specExtend f ps], .handle st.length)
    | _, _ => (st, .badHandle)
  | .ior i s => match st[i]?, specLinesOf st s with
    | some f, some ps => (st.set i (specExtend f ps), .unit)
    | _, _ => (st, .badHandle)
  | .ror i s => match st[i]?, specConstruct st s with
    | some f, some r => (st ++ [specExtend r f], .handle st.length)
    | _, _ => (st, .badHandle)
  | .pmc i => match st[i]? with
    | some f => (st.set i (contentSpecific.foldl specDiscard f), .unit)
    | none => (st, .badHandle)

end U3.Headers
