import U3.Base.Str
import U3.Gen.Resp
import U3.Model.RespIO
/-!
# Response reading, layers 2 and 3: `decompressobj`s and urllib3's content decoders

Layer 2: `RawObj` is the abstract C `decompressobj` (zlib / zstandard): a byte-step machine with an
`eof` flag.  Feeding is a left fold of the step, so the **streaming law**
(`feed (a ++ b) = feed a ; feed b`, output a prefix-monotone function of the total input) holds by
construction (`Lemmas/Resp`).  Executable instances: the *stored-block* sub-format of
gzip / zlib / raw deflate (real header checks, CRC-32, Adler-32, ISIZE) and the *raw/RLE-block*
sub-format of zstd frames; anything else a real stream could contain (Huffman blocks, zstd
compressed blocks, checksums, dictionaries, skippable frames) is the explicit outcome
`ZErr.unsupported` — never a default.

Layer 3: `GzipDecoder`, `DeflateDecoder`, `ZstdDecoder`, `MultiDecoder`, `_get_decoder`
transcribed from `src/urllib3/response.py`, generic in the `RawObj`.
-/
namespace U3.Resp
open U3

inductive ZErr
  | error          -- `zlib.error` / `zstd.ZstdError`
  | unsupported    -- outside the sub-format the model can decode
deriving Repr, DecidableEq

/-- abstract `decompressobj` core: a per-byte step and an end-of-member flag -/
structure RawObj (ρ : Type) where
  init : ρ
  step : ρ → Nat → Except ZErr (ρ × Bytes)
  eof : ρ → Bool

/-- fold the step over the input until the member ends; returns (state, output, unconsumed) -/
def feedLoop {ρ} (O : RawObj ρ) : ρ → Bytes → Bytes → Except ZErr (ρ × Bytes × Bytes)
  | s, [], acc => .ok (s, acc, [])
  | s, b :: t, acc =>
    if O.eof s then .ok (s, acc, b :: t)
    else match O.step s b with
      | .error e => .error e
      | .ok (s', o) => feedLoop O s' t (acc ++ o)

/-- a Python-level `decompressobj`: core state + `unused_data` -/
structure ZObj (ρ : Type) where
  st : ρ
  unused : Bytes
deriving Repr

def ZObj.fresh {ρ} (O : RawObj ρ) : ZObj ρ := ⟨O.init, []⟩

/-- `zlib` `Decompress.decompress(data)`: after `eof` the input is appended to `unused_data` -/
def zlibFeed {ρ} (O : RawObj ρ) (z : ZObj ρ) (data : Bytes) : Except ZErr (Bytes × ZObj ρ) :=
  match feedLoop O z.st data [] with
  | .error e => .error e
  | .ok (s, out, rest) => .ok (out, ⟨s, z.unused ++ rest⟩)

/-- `zstandard` `ZstdDecompressionObj.decompress(data)`: raises once finished -/
def zstdFeed {ρ} (O : RawObj ρ) (z : ZObj ρ) (data : Bytes) : Except ZErr (Bytes × ZObj ρ) :=
  if O.eof z.st then .error .error
  else match feedLoop O z.st data [] with
    | .error e => .error e
    | .ok (s, out, rest) => .ok (out, ⟨s, rest⟩)

/-! ## checksums -/

def crcByteLoop : Nat → Nat → Nat
  | 0, c => c
  | k + 1, c => crcByteLoop k (if c % 2 = 1 then (c >>> 1) ^^^ 0xEDB88320 else c >>> 1)

/-- one byte of the reflected CRC-32 on the *internal* (pre-inversion) register -/
def crcStep (c b : Nat) : Nat := crcByteLoop 8 (c ^^^ b)

def crc32 (data : Bytes) : Nat := (data.foldl crcStep 0xFFFFFFFF) ^^^ 0xFFFFFFFF

def adlerStep (s : Nat × Nat) (b : Nat) : Nat × Nat :=
  let a := (s.1 + b) % 65521
  (a, (s.2 + a) % 65521)

def adler32 (data : Bytes) : Nat := let s := data.foldl adlerStep (1, 0); s.2 * 65536 + s.1

def le (bs : Bytes) : Nat := bs.foldr (fun b acc => b + 256 * acc) 0
def be (bs : Bytes) : Nat := bs.foldl (fun acc b => acc * 256 + b) 0

/-! ## inflate, stored blocks only (zlib's `inflate.c` state machine, byte granularity) -/

inductive Wrap | gzip | zlib | raw
deriving Repr, DecidableEq

inductive IPh
  | gzMagic | gzFlags | gzTime | gzOs | gzExLen | gzExtra | gzName | gzComment | gzHcrc
  | zlHead | block | storedLen | stored | gzCrc | gzLen | zlAdler | done | bad
deriving Repr, DecidableEq

structure Inf where
  wrap : Wrap
  ph : IPh
  acc : Bytes := []        -- bytes collected for the current NEEDBITS group
  flags : Nat := 0
  hcrc : Nat := 0xFFFFFFFF -- running CRC of the gzip header
  cnt : Nat := 0           -- bytes left in FEXTRA / stored block
  last : Bool := false
  crc : Nat := 0xFFFFFFFF  -- running CRC-32 of the output
  adler : Nat × Nat := (1, 0)
  total : Nat := 0
deriving Repr

def Inf.init (w : Wrap) : Inf :=
  { wrap := w, ph := match w with | .gzip => .gzMagic | .zlib => .zlHead | .raw => .block }

def bit (n i : Nat) : Bool := (n >>> i) % 2 = 1

/-- header phases chain without consuming input when a field is absent or empty -/
def Inf.enterHcrc (s : Inf) : Inf := if bit s.flags 1 then { s with ph := .gzHcrc, acc := [] } else { s with ph := .block, acc := [] }
def Inf.enterComment (s : Inf) : Inf := if bit s.flags 4 then { s with ph := .gzComment } else s.enterHcrc
def Inf.enterName (s : Inf) : Inf := if bit s.flags 3 then { s with ph := .gzName } else s.enterComment
def Inf.enterExtra (s : Inf) (n : Nat) : Inf := if n = 0 then s.enterName else { s with ph := .gzExtra, cnt := n }
def Inf.enterExLen (s : Inf) : Inf := if bit s.flags 2 then { s with ph := .gzExLen, acc := [] } else s.enterName

/-- a block is finished -/
def Inf.afterBlock (s : Inf) : Inf :=
  if s.last then
    match s.wrap with
    | .gzip => { s with ph := .gzCrc, acc := [] }
    | .zlib => { s with ph := .zlAdler, acc := [] }
    | .raw => { s with ph := .done }
  else { s with ph := .block, acc := [] }

def Inf.hdr (s : Inf) (b : Nat) : Inf := { s with hcrc := crcStep s.hcrc b }

def infStep (s : Inf) (b : Nat) : Except ZErr (Inf × Bytes) :=
  let acc := s.acc ++ [b]
  match s.ph with
  | .gzMagic =>
    let s := s.hdr b
    if acc.length < 2 then .ok ({ s with acc := acc }, [])
    else if acc = [0x1f, 0x8b] then .ok ({ s with ph := .gzFlags, acc := [] }, [])
    else .error .error                                  -- incorrect header check
  | .gzFlags =>
    let s := s.hdr b
    if acc.length < 2 then .ok ({ s with acc := acc }, [])
    else match acc with
      | [m, fl] =>
        if m ≠ 8 then .error .error                     -- unknown compression method
        else if fl ≥ 32 then .error .error              -- unknown header flags set
        else .ok ({ s with ph := .gzTime, acc := [], flags := fl }, [])
      | _ => .error .unsupported
  | .gzTime =>
    let s := s.hdr b
    if acc.length < 4 then .ok ({ s with acc := acc }, []) else .ok ({ s with ph := .gzOs, acc := [] }, [])
  | .gzOs =>
    let s := s.hdr b
    if acc.length < 2 then .ok ({ s with acc := acc }, []) else .ok (({ s with acc := [] }).enterExLen, [])
  | .gzExLen =>
    let s := s.hdr b
    if acc.length < 2 then .ok ({ s with acc := acc }, []) else .ok (({ s with acc := [] }).enterExtra (le acc), [])
  | .gzExtra =>
    let s := s.hdr b
    if s.cnt ≤ 1 then .ok (({ s with cnt := 0 }).enterName, []) else .ok ({ s with cnt := s.cnt - 1 }, [])
  | .gzName =>
    let s := s.hdr b
    if b = 0 then .ok (s.enterComment, []) else .ok (s, [])
  | .gzComment =>
    let s := s.hdr b
    if b = 0 then .ok (s.enterHcrc, []) else .ok (s, [])
  | .gzHcrc =>
    if acc.length < 2 then .ok ({ s with acc := acc }, [])
    else if le acc = (s.hcrc ^^^ 0xFFFFFFFF) % 65536 then .ok ({ s with ph := .block, acc := [] }, [])
    else .error .error                                  -- header crc mismatch
  | .zlHead =>
    if acc.length < 2 then .ok ({ s with acc := acc }, [])
    else match acc with
      | [cmf, flg] =>
        if (cmf * 256 + flg) % 31 ≠ 0 then .error .error       -- incorrect header check
        else if cmf % 16 ≠ 8 then .error .error                -- unknown compression method
        else if cmf / 16 + 8 > 15 then .error .error           -- invalid window size
        else if bit flg 5 then .error .unsupported             -- FDICT
        else .ok ({ s with ph := .block, acc := [] }, [])
      | _ => .error .unsupported
  | .block =>
    let typ := (b / 2) % 4
    if typ = 0 then .ok ({ s with ph := .storedLen, acc := [], last := b % 2 = 1 }, [])
    else if typ = 3 then .error .error                  -- invalid block type
    else .error .unsupported                            -- Huffman-coded block
  | .storedLen =>
    if acc.length < 4 then .ok ({ s with acc := acc }, [])
    else
      let len := le (acc.take 2)
      let nlen := le (acc.drop 2)
      if len + nlen ≠ 65535 then .error .error          -- invalid stored block lengths
      else if len = 0 then .ok (({ s with acc := [] }).afterBlock, [])
      else .ok ({ s with ph := .stored, acc := [], cnt := len }, [])
  | .stored =>
    let s := { s with crc := crcStep s.crc b, adler := adlerStep s.adler b, total := s.total + 1 }
    if s.cnt ≤ 1 then .ok (({ s with cnt := 0 }).afterBlock, [b]) else .ok ({ s with cnt := s.cnt - 1 }, [b])
  | .gzCrc =>
    if acc.length < 4 then .ok ({ s with acc := acc }, [])
    else if le acc = s.crc ^^^ 0xFFFFFFFF then .ok ({ s with ph := .gzLen, acc := [] }, [])
    else .error .error                                  -- incorrect data check
  | .gzLen =>
    if acc.length < 4 then .ok ({ s with acc := acc }, [])
    else if le acc = s.total % 4294967296 then .ok ({ s with ph := .done, acc := [] }, [])
    else .error .error                                  -- incorrect length check
  | .zlAdler =>
    if acc.length < 4 then .ok ({ s with acc := acc }, [])
    else if be acc = s.adler.2 * 65536 + s.adler.1 then .ok ({ s with ph := .done, acc := [] }, [])
    else .error .error
  | .done => .error .unsupported                         -- never stepped: `feedLoop` stops at eof
  | .bad => .error .error

def inflateObj (w : Wrap) : RawObj Inf :=
  { init := Inf.init w, step := infStep, eof := fun s => s.ph = .done }

/-! ## zstd frames with raw / RLE blocks -/

inductive ZPh | magic | fhd | header | blockHead | raw | rle | done
deriving Repr, DecidableEq

structure Zs where
  ph : ZPh := .magic
  acc : Bytes := []
  fhd : Nat := 0
  need : Nat := 0           -- header bytes still to collect
  fcs : Option Nat := none
  blockMax : Nat := 0
  cnt : Nat := 0
  last : Bool := false
  total : Nat := 0
deriving Repr

def zsMagic : Bytes := [0x28, 0xb5, 0x2f, 0xfd]

/-- end of a block: next block, or end of frame (content size must match) -/
def Zs.blockDone (s : Zs) (out : Bytes) : Except ZErr (Zs × Bytes) :=
  if s.last then
    match s.fcs with
    | some n =>
      -- a Frame_Content_Size that disagrees with the blocks: libzstd's reaction depends on the block
      -- kind and on buffering details the model does not reproduce
      if s.total = n then .ok ({ s with ph := .done, acc := [] }, out) else .error .unsupported
    | none => .ok ({ s with ph := .done, acc := [] }, out)
  else .ok ({ s with ph := .blockHead, acc := [] }, out)

def zsStep (s : Zs) (b : Nat) : Except ZErr (Zs × Bytes) :=
  let acc := s.acc ++ [b]
  match s.ph with
  | .magic =>
    -- the prefix received so far must be a prefix of the magic number
    if acc.length = 1 ∧ 0x50 ≤ b ∧ b ≤ 0x5f then .error .unsupported      -- skippable frame?
    else if acc ≠ zsMagic.take acc.length then .error .error              -- unknown frame descriptor
    else if acc.length < 4 then .ok ({ s with acc := acc }, [])
    else .ok ({ s with ph := .fhd, acc := [] }, [])
  | .fhd =>
    let single := bit b 5
    let did := match b % 4 with | 0 => 0 | 1 => 1 | 2 => 2 | _ => 4
    let fcsLen := match b / 64 with | 0 => (if single then 1 else 0) | 1 => 2 | 2 => 4 | _ => 8
    .ok ({ s with ph := .header, acc := [], fhd := b, need := (if single then 0 else 1) + did + fcsLen }, [])
  | .header =>
    if acc.length < s.need then .ok ({ s with acc := acc }, [])
    else
      let fhd := s.fhd
      if bit fhd 3 then .error .error                                      -- reserved bit
      else if bit fhd 2 then .error .unsupported                           -- content checksum
      else if fhd % 4 ≠ 0 then .error .unsupported                         -- dictionary id
      else
        let single := bit fhd 5
        let fcsLen := match fhd / 64 with | 0 => (if single then 1 else 0) | 1 => 2 | 2 => 4 | _ => 8
        let fcsBytes := acc.drop (acc.length - fcsLen)
        let fcs : Option Nat := if fcsLen = 0 then none else some (le fcsBytes + (if fcsLen = 2 then 256 else 0))
        let window : Nat := if single then fcs.getD 0 else
          let wd := acc.headD 0
          let base := 2 ^ (10 + wd / 8)
          base + (base / 8) * (wd % 8)
        if window > 2 ^ 27 then .error .error                              -- too much memory
        else .ok ({ s with ph := .blockHead, acc := [], fcs := fcs, blockMax := min window 131072 }, [])
  | .blockHead =>
    if acc.length < 3 then .ok ({ s with acc := acc }, [])
    else
      let v := le acc
      let last := v % 2 = 1
      let typ := (v / 2) % 4
      let size := v / 8
      let s := { s with acc := [], last := last }
      if typ = 3 then .error .error                                         -- reserved block type
      else if typ = 2 then .error .unsupported                              -- compressed block
      else if typ = 0 then
        if size > s.blockMax then .error .error
        else if size = 0 then s.blockDone []
        else .ok ({ s with ph := .raw, cnt := size }, [])
      else
        if size > s.blockMax then .error .unsupported
        else .ok ({ s with ph := .rle, cnt := size }, [])
  | .raw =>
    let s := { s with total := s.total + 1 }
    match s.fcs with
    | some n => if s.total > n then .error .unsupported else
      if s.cnt ≤ 1 then ({ s with cnt := 0 }).blockDone [b] else .ok ({ s with cnt := s.cnt - 1 }, [b])
    | none =>
      if s.cnt ≤ 1 then ({ s with cnt := 0 }).blockDone [b] else .ok ({ s with cnt := s.cnt - 1 }, [b])
  | .rle =>
    let s := { s with total := s.total + s.cnt }
    match s.fcs with
    | some n => if s.total > n then .error .unsupported else ({ s with cnt := 0 }).blockDone (List.replicate s.cnt b)
    | none => ({ s with cnt := 0 }).blockDone (List.replicate s.cnt b)
  | .done => .error .unsupported

def zstdObj : RawObj Zs := { init := {}, step := zsStep, eof := fun s => s.ph = .done }

/-! ## Layer 3: urllib3's decoders.  Every operation returns the result *and* the new state
(the state after a raised error is observable through later calls). -/

inductive DErr
  | decodeError     -- becomes `urllib3.exceptions.DecodeError`
  | rawError        -- a decoder error raised where `_decode` does not catch it
  | unsupported
deriving Repr, DecidableEq

def DErr.ofZ : ZErr → DErr
  | .error => .decodeError
  | .unsupported => .unsupported

/-- a content decoder (`ContentDecoder`): `decompress` and `flush` -/
structure Dec (δ : Type) where
  decompress : δ → Bytes → Except DErr Bytes × δ
  flush : δ → Except DErr Bytes × δ

/-! ### GzipDecoder -/

inductive GzState | firstMember | otherMembers | swallowData
deriving Repr, DecidableEq

structure Gz (ρ : Type) where
  obj : ZObj ρ
  state : GzState
deriving Repr

def gzLoop {ρ} (O : RawObj ρ) : Nat → Gz ρ → Bytes → Bytes → Except DErr Bytes × Gz ρ
  | 0, g, _, _ => (.error .unsupported, g)
  | fuel + 1, g, data, ret =>
    match zlibFeed O g.obj data with
    | .error .unsupported => (.error .unsupported, g)
    | .error .error =>
      -- `self._state = SWALLOW_DATA`; trailing garbage after a complete member is ignored
      if g.state = .otherMembers then (.ok ret, { g with state := .swallowData })
      else (.error .decodeError, { g with state := .swallowData })
    | .ok (out, obj) =>
      let ret := ret ++ out
      let data := obj.unused
      if data.isEmpty then (.ok ret, { g with obj := obj })
      else gzLoop O fuel { obj := ZObj.fresh O, state := .otherMembers } data ret

def gzDecompress {ρ} (O : RawObj ρ) (g : Gz ρ) (data : Bytes) : Except DErr Bytes × Gz ρ :=
  if g.state = .swallowData ∨ data.isEmpty then (.ok [], g)
  else gzLoop O (data.length + 2) g data []

def gzDec {ρ} (O : RawObj ρ) : Dec (Gz ρ) :=
  { decompress := gzDecompress O, flush := fun g => (.ok [], g) }

def Gz.new {ρ} (O : RawObj ρ) : Gz ρ := ⟨ZObj.fresh O, .firstMember⟩

/-! ### DeflateDecoder -/

structure Df (ρ : Type) where
  firstTry : Bool
  data : Bytes            -- `self._data` (meaningful while `firstTry`)
  obj : ZObj ρ
  isRaw : Bool            -- which `decompressobj` `self._obj` is
deriving Repr

def Df.new {ρ} (Oz : RawObj ρ) : Df ρ := ⟨true, [], ZObj.fresh Oz, false⟩

def dfFeed {ρ} (Oz Or : RawObj ρ) (d : Df ρ) (data : Bytes) : Except DErr Bytes × Df ρ :=
  match zlibFeed (if d.isRaw then Or else Oz) d.obj data with
  | .error e => (.error (DErr.ofZ e), d)
  | .ok (out, obj) => (.ok out, { d with obj := obj })

def dfDecompress {ρ} (Oz Or : RawObj ρ) (d : Df ρ) (data : Bytes) : Except DErr Bytes × Df ρ :=
  if data.isEmpty then (.ok data, d)
  else if !d.firstTry then dfFeed Oz Or d data
  else
    let d := { d with data := d.data ++ data }
    match zlibFeed Oz d.obj data with
    | .ok (out, obj) =>
      if !out.isEmpty then (.ok out, { d with obj := obj, firstTry := false, data := [] })
      else (.ok out, { d with obj := obj })
    | .error .unsupported => (.error .unsupported, d)
    | .error .error =>
      -- fall back to raw deflate and replay everything seen so far
      let all := d.data
      let d := { d with firstTry := false, obj := ZObj.fresh Or, isRaw := true, data := [] }
      dfFeed Oz Or d all

def dfDec {ρ} (Oz Or : RawObj ρ) : Dec (Df ρ) :=
  { decompress := dfDecompress Oz Or, flush := fun d => (.ok [], d) }

/-! ### ZstdDecoder -/

def zsLoop {ρ} (O : RawObj ρ) : Nat → ZObj ρ → Bytes → Except DErr Bytes × ZObj ρ
  | 0, z, _ => (.error .unsupported, z)
  | fuel + 1, z, parts =>
    if O.eof z.st ∧ !z.unused.isEmpty then
      let unused := z.unused
      let z' := ZObj.fresh O
      match zstdFeed O z' unused with
      | .error e => (.error (DErr.ofZ e), z')
      | .ok (out, z'') => zsLoop O fuel z'' (parts ++ out)
    else (.ok parts, z)

def zsDecompress {ρ} (O : RawObj ρ) (z : ZObj ρ) (data : Bytes) : Except DErr Bytes × ZObj ρ :=
  if data.isEmpty then (.ok [], z)
  else
    -- the previous frame ended exactly at the end of the last input: a fresh `decompressobj`
    let z := if O.eof z.st then ZObj.fresh O else z
    match zstdFeed O z data with
    | .error e => (.error (DErr.ofZ e), z)
    | .ok (out, z') => zsLoop O (data.length + 1) z' out

/-- `flush`: `self._obj.flush()` is a no-op; an unfinished frame is a `DecodeError` -/
def zsFlush {ρ} (O : RawObj ρ) (z : ZObj ρ) : Except DErr Bytes × ZObj ρ :=
  if O.eof z.st then (.ok [], z) else (.error .decodeError, z)

def zsDec {ρ} (O : RawObj ρ) : Dec (ZObj ρ) := { decompress := zsDecompress O, flush := zsFlush O }

/-! ### MultiDecoder: `for d in reversed(self._decoders): data = d.decompress(data)` -/

/-- run the decoders of `ds` from the last to the first; returns the states in the original order -/
def multiDecompress {δ} (D : Dec δ) : List δ → Bytes → Except DErr Bytes × List δ
  | [], data => (.ok data, [])
  | d :: rest, data =>
    match multiDecompress D rest data with
    | (.error e, rest') => (.error e, d :: rest')
    | (.ok mid, rest') =>
      let (r, d') := D.decompress d mid
      (r, d' :: rest')

def multiFlush {δ} (D : Dec δ) : List δ → Except DErr Bytes × List δ
  | [] => (.error .unsupported, [])
  | d :: rest => let (r, d') := D.flush d; (r, d' :: rest)

def multiDec {δ} (D : Dec δ) : Dec (List δ) := { decompress := multiDecompress D, flush := multiFlush D }

/-! ### the concrete decoder family and `_get_decoder` / `_init_decoder` -/

inductive CD1
  | gzip (g : Gz Inf)
  | deflate (d : Df Inf)
  | zstd (z : ZObj Zs)
deriving Repr

def gzipO := inflateObj .gzip
def zlibO := inflateObj .zlib
def rawO := inflateObj .raw

def cd1Dec : Dec CD1 :=
  { decompress := fun c data => match c with
      | .gzip g => let (r, g') := gzDecompress gzipO g data; (r, .gzip g')
      | .deflate d => let (r, d') := dfDecompress zlibO rawO d data; (r, .deflate d')
      | .zstd z => let (r, z') := zsDecompress zstdObj z data; (r, .zstd z')
    flush := fun c => match c with
      | .gzip g => (.ok [], .gzip g)
      | .deflate d => (.ok [], .deflate d)
      | .zstd z => let (r, z') := zsFlush zstdObj z; (r, .zstd z') }

inductive CD
  | one (d : CD1)
  | multi (ds : List CD1)
deriving Repr

def cdDec : Dec CD :=
  { decompress := fun c data => match c with
      | .one d => let (r, d') := cd1Dec.decompress d data; (r, .one d')
      | .multi ds => let (r, ds') := multiDecompress cd1Dec ds data; (r, .multi ds')
    flush := fun c => match c with
      | .one d => let (r, d') := cd1Dec.flush d; (r, .one d')
      | .multi ds => let (r, ds') := multiFlush cd1Dec ds; (r, .multi ds') }

/-- `_get_decoder(mode)` for a mode without a comma (brotli is absent: `br` falls through) -/
def getDecoder1 (mode : Str) : CD1 :=
  if mode = lit "gzip" ∨ mode = lit "x-gzip" then .gzip (Gz.new gzipO)
  else if Gen.hasZstd ∧ mode = lit "zstd" then .zstd (ZObj.fresh zstdObj)
  else .deflate (Df.new zlibO)

def getDecoder (mode : Str) : CD :=
  if mode.contains 44 then .multi ((splitOn1 44 mode).map (fun m => getDecoder1 (strip m)))
  else .one (getDecoder1 mode)

/-- `_init_decoder`: the decoder for a `Content-Encoding` value, if any -/
def initDecoder (ce : Option Str) : Option CD :=
  let v := lower (ce.getD [])
  if Gen.contentDecoders.contains v then some (getDecoder v)
  else if v.contains 44 then
    let encs := ((splitOn1 44 v).map strip).filter (fun e => Gen.contentDecoders.contains e)
    if encs.isEmpty then none else some (getDecoder v)
  else none

end U3.Resp
