import U3.Base.Str
/-!
# Model of urllib3's proxy routing (C09)

Transcribes, for a `ProxyManager` (`maxsize = 1`, non-blocking pools, `preload_content = True`):

* `util/proxy.py: connection_requires_http_tunnel`                         → `requiresTunnel`
* `poolmanager.py: ProxyManager.urlopen / _set_proxy_headers / connection_from_host`,
  `PoolManager.urlopen / _proxy_requires_url_absolute_form`                → `managerRequest`
* `connectionpool.py: HTTPConnectionPool.urlopen` (proxy-header merge only when not tunnelling,
  `_get_conn` dropping dead pooled connections, `_prepare_proxy` only `if conn.is_closed`,
  error wrapping by `has_connected_to_proxy`, retry recursion), `HTTPSConnectionPool._prepare_proxy /
  _new_conn / _validate_conn`                                              → `attempt`, `runAttempts`
* `connection.py: HTTPSConnection.connect` (TCP to the proxy → optional TLS to the proxy → CONNECT →
  TLS(-in-TLS) to the origin under the *tunnel host's* name), `HTTPConnection.connect`, `close()`
  resetting the tunnel state, `_ssl_wrap_socket_and_match_hostname`'s `strip("[]")`
* CPython 3.12 `http.client`: `set_tunnel` (CONNECT `Host` header), `_tunnel` (CONNECT line,
  non-200 ⇒ `close()` + `OSError`, unparsable status line ⇒ `BadStatusLine` without `close()`),
  `putrequest`'s automatic `Host` / `Accept-Encoding`, `HTTPConnection.request` header order.

The environment (what the proxy answers to CONNECT, whether the proxy's and the origin's
certificates verify) is a script indexed by the number of the socket being opened; whether the
server closes the connection after a response is part of the request description.

The output is the list of events seen *on the wire by the two other parties* (the proxy and the
origin) plus the outcome class of every request.
-/
namespace U3.Proxy
open U3

inductive Scheme where
  | http | https
deriving DecidableEq, Repr

/-- `connection_requires_http_tunnel(proxy_url, proxy_config, destination_scheme)`; the proxy is
given by its scheme (`none` = `proxy_url is None`), `proxy_config` by its
`use_forwarding_for_https` field (a `ProxyConfig` is a non-empty named tuple, hence truthy), the
destination scheme is `none` when the URL handed over has no scheme (an origin-form target). -/
def requiresTunnel (proxy : Option Scheme) (fwd : Bool) (dest : Option Scheme) : Bool :=
  match proxy with
  -- If we're not using a proxy, no way to use a tunnel.
  | none => false
  | some ps =>
    -- HTTP destinations never require tunneling, we always forward.
    if dest = some .http then false
    -- Support for forwarding with HTTPS proxies and HTTPS destinations.
    else if ps = .https && fwd then false
    -- Otherwise always use a tunnel.
    else true

/-! ## strings -/

def decStr (n : Nat) : Str := (Nat.toDigits 10 n).map Char.toNat

def schemeStr : Scheme → Str
  | .http => lit "http"
  | .https => lit "https"

def defaultPort : Scheme → Nat
  | .http => 80
  | .https => 443

/-- `"%s:%d" % (host, port)` -/
def hostPort (host : Str) (port : Nat) : Str := host ++ [58] ++ decStr port

/-- `s.rstrip(".")` -/
def rstripDots (s : Str) : Str := (s.reverse.dropWhile (· == 46)).reverse

/-- `s.strip("[]")` -/
def stripBrackets (s : Str) : Str :=
  ((s.dropWhile (fun c => c == 91 || c == 93)).reverse.dropWhile (fun c => c == 91 || c == 93)).reverse

/-! ## plain `dict[str, str]` (case-sensitive keys, insertion ordered) -/

abbrev Dict := List (Str × Str)

/-- `d[k] = v` -/
def dictSet : Dict → Str → Str → Dict
  | [], k, v => [(k, v)]
  | (k', v') :: t, k, v => if k' = k then (k, v) :: t else (k', v') :: dictSet t k v

/-- `d.update(src)` -/
def dictUpdate (d src : Dict) : Dict := src.foldl (fun d p => dictSet d p.1 p.2) d

/-- `name in frozenset(k.lower() for k in headers)` (`lk` lower-case) -/
def hasKeyCI (hs : Dict) (lk : Str) : Bool := hs.any (fun p => lower p.1 == lk)

/-! ## configuration, requests, environment -/

structure Cfg where
  proxyScheme : Scheme
  proxyHost : Str            -- `proxy.host` (a DNS name)
  proxyPort : Nat            -- `proxy.port` after defaulting
  fwd : Bool                 -- `use_forwarding_for_https`
  proxyHeaders : Dict        -- `proxy_headers`
  mgrHeaders : Dict          -- `ProxyManager(headers=…) or {}`
  ua : Str                   -- `_get_default_user_agent()`
deriving Repr

inductive Method where
  | get | post
deriving DecidableEq, Repr

def methodStr : Method → Str
  | .get => lit "GET"
  | .post => lit "POST"

/-- `method.upper() in Retry.DEFAULT_ALLOWED_METHODS` for the two methods used -/
def retryable : Method → Bool
  | .get => true
  | .post => false

structure Req where
  method : Method
  scheme : Scheme
  host : Str                 -- as written in the URL (IPv6 literals bracketed), any letter case
  port : Option Nat          -- explicit port of the URL
  path : Str                 -- path + query, starts with "/"
  headers : Option Dict      -- `headers=` of the call (`none`: not given)
  body : Option Nat          -- length of the `bytes` body
  retries : Option Nat       -- `retries=False` (`none`) or an int total
  closeAfter : Bool          -- the server closes the connection after its response
deriving Repr

/-- `parse_url(url).host` for http(s): lower-cased, brackets kept -/
def Req.nhost (r : Req) : Str := lower r.host
/-- the port the pool is created with (`port or port_by_scheme[scheme]`) -/
def Req.effPort (r : Req) : Nat := r.port.getD (defaultPort r.scheme)
/-- `Url.netloc` -/
def Req.netloc (r : Req) : Str :=
  match r.port with
  | some p => hostPort r.nhost p
  | none => r.nhost
/-- `parse_url(url).url` (no userinfo / fragment in the URLs considered) -/
def Req.absUrl (r : Req) : Str := schemeStr r.scheme ++ lit "://" ++ r.netloc ++ r.path

inductive CStatus where
  | ok                       -- `HTTP/1.1 200 …`
  | refused (code : Nat)     -- well-formed status line, code ≠ 200
  | garbage                  -- no parsable status line
deriving DecidableEq, Repr

/-- what happens to the n-th socket opened -/
structure Script where
  proxyCertOk : Bool
  status : CStatus
  originCertOk : Bool
deriving Repr

def Script.good : Script := ⟨true, .ok, true⟩

def scriptAt (script : List Script) (sid : Nat) : Script := script.getD sid Script.good

/-! ## events and outcomes -/

inductive Event where
  | tcp (sid : Nat) (host : Str) (port : Nat)
  | tlsProxy (sid : Nat) (sni : Str)                          -- handshake seen by the proxy
  | connect (sid : Nat) (target : Str) (headers : Dict)       -- CONNECT seen by the proxy
  | tlsOrigin (sid : Nat) (sni : Str) (tlsInTls : Bool)       -- handshake inside the tunnel
  | request (sid : Nat) (inTunnel : Bool) (method : Str) (target : Str) (headers : Dict)
  | serverClose (sid : Nat)
deriving DecidableEq, Repr

inductive Err where
  | proxyOS          -- ProxyError(OSError("Tunnel connection failed: …"))
  | proxySSL         -- ProxyError(SSLError(…))
  | ssl              -- SSLError
  | protocol         -- ProtocolError("Connection aborted.", BadStatusLine)
deriving DecidableEq, Repr

inductive Outcome where
  | response
  | raised (e : Err)
  | maxRetry (reason : Err)
deriving DecidableEq, Repr

/-! ## pools -/

inductive Key where
  | proxy                              -- the pool of the proxy itself (all `http://` destinations)
  | dest (host : Str) (port : Nat)     -- `https://` destinations get their own pool
deriving DecidableEq, Repr

/-- an `HTTP(S)Connection` with an open socket -/
structure Conn where
  sid : Nat
  alive : Bool                         -- the server has not closed it
  tunnel : Option (Str × Nat)          -- `_tunnel_host`, `_tunnel_port`
deriving Repr

structure St where
  nsock : Nat
  pools : List (Key × Conn)
deriving Repr

def St.init : St := ⟨0, []⟩

def poolGet : List (Key × Conn) → Key → Option Conn
  | [], _ => none
  | (k', c) :: t, k => if k' = k then some c else poolGet t k

def poolErase : List (Key × Conn) → Key → List (Key × Conn)
  | [], _ => []
  | (k', c) :: t, k => if k' = k then poolErase t k else (k', c) :: poolErase t k

def poolSet (ps : List (Key × Conn)) (k : Key) (c : Conn) : List (Key × Conn) := (k, c) :: poolErase ps k

/-- `ProxyManager.connection_from_host` -/
def poolKey (r : Req) : Key :=
  if r.scheme = .https then .dest r.nhost r.effPort else .proxy

/-- (pool class is HTTPS, `pool._tunnel_host`, `pool.port`) -/
def poolOf (cfg : Cfg) : Key → Bool × Str × Nat
  | .proxy => (cfg.proxyScheme == .https, cfg.proxyHost, cfg.proxyPort)
  | .dest h p => (true, h, p)

/-! ## the wire -/

/-- `set_tunnel(host, port, headers=proxy_headers)`: a copy of the proxy headers plus a `Host`
header unless one is present (any letter case) -/
def connectHeaders (cfg : Cfg) (thost : Str) (tport : Nat) : Dict :=
  if hasKeyCI cfg.proxyHeaders (lit "host") then cfg.proxyHeaders
  else dictSet cfg.proxyHeaders (lit "Host") (hostPort thost tport)

/-- `HTTPConnection.putrequest`: `if tunnel_host.startswith("[") and tunnel_host.endswith("]"):
tunnel_host[1:-1]` — the brackets urllib3 put around an IPv6 tunnel host for the CONNECT line are
hidden from `http.client` while it computes the `Host` header -/
def unbracket (h : Str) : Str :=
  if h.head? = some 91 && h.getLast? = some 93 then h.tail.dropLast else h

/-- the `Host` header `http.client.putrequest` generates (CPython 3.12.1): the tunnel host (without
the brackets, see `unbracket`) when there is one, else the connection's own; a host containing ":"
is put in brackets -/
def autoHost (host : Str) (port dflt : Nat) : Str :=
  let h := if host.contains 58 then [91] ++ host ++ [93] else host
  if port = dflt then h else h ++ [58] ++ decStr port

/-- header lines of `HTTPConnection.request(method, url, body, headers)` in wire order -/
def wireHeaders (cfg : Cfg) (m : Method) (body : Option Nat) (hostHdr : Str) (hs : Dict) : Dict :=
  (if hasKeyCI hs (lit "host") then [] else [(lit "Host", hostHdr)]) ++
  (if hasKeyCI hs (lit "accept-encoding") then [] else [(lit "Accept-Encoding", lit "identity")]) ++
  (if hasKeyCI hs (lit "content-length") || hasKeyCI hs (lit "transfer-encoding") then []
   else match body, m with
     | some n, _ => [(lit "Content-Length", decStr n)]
     | none, .post => [(lit "Content-Length", decStr 0)]
     | none, .get => []) ++
  (if hasKeyCI hs (lit "user-agent") then [] else [(lit "User-Agent", cfg.ua)]) ++
  hs

/-- `conn.request(method, url, headers=…)` on an open connection -/
def requestEvent (cfg : Cfg) (c : Conn) (poolHttps : Bool) (r : Req) (target : Str) (absolute : Bool)
    (hs : Dict) : Event :=
  let hostHdr :=
    if absolute then r.netloc                                  -- `urlsplit(url).netloc`
    else match c.tunnel with
      | some (h, p) => autoHost (unbracket h) p 443            -- only HTTPSConnections tunnel
      | none => autoHost cfg.proxyHost cfg.proxyPort (if poolHttps then 443 else 80)
  .request c.sid c.tunnel.isSome (methodStr r.method) target (wireHeaders cfg r.method r.body hostHdr hs)

/-- server name handed to `ssl_wrap_socket`: trailing dots removed, brackets of an IP literal
removed (`normalized = server_hostname.strip("[]")`, used when it is an IP address — names
without brackets are unchanged either way) -/
def sniOf (host : Str) : Str := stripBrackets (rstripDots host)

/-- Opening a connection for a pool (`sid` is the new socket).
`tunnelReq`: the pool-level `http_tunnel_required`. -/
def openConn (cfg : Cfg) (sc : Script) (sid : Nat) (key : Key) (tunnelReq : Bool) :
    List Event × Except Err Conn :=
  let (poolHttps, thost, tport) := poolOf cfg key
  let tcp := Event.tcp sid cfg.proxyHost cfg.proxyPort
  if tunnelReq && poolHttps then
    -- HTTPSConnectionPool._prepare_proxy: set_tunnel(scheme, _tunnel_host, port, proxy_headers); connect()
    let viaTls := cfg.proxyScheme == .https
    let ev1 := if viaTls then [tcp, .tlsProxy sid (sniOf cfg.proxyHost)] else [tcp]
    if viaTls && !sc.proxyCertOk then
      (ev1, .error .proxySSL)        -- _connect_tls_proxy fails before `_has_connected_to_proxy = True`
    else
      let ev2 := ev1 ++ [.connect sid (hostPort thost tport) (connectHeaders cfg thost tport)]
      match sc.status with
      | .refused _ => (ev2, .error .proxyOS)     -- `_tunnel`: self.close(); raise OSError → flag reset → ProxyError
      | .garbage => (ev2, .error .protocol)      -- BadStatusLine, no close(): flag still set → ProtocolError
      | .ok =>
        let ev3 := ev2 ++ [.tlsOrigin sid (sniOf thost) viaTls]
        if !sc.originCertOk then (ev3, .error .ssl)
        else (ev3, .ok ⟨sid, true, some (thost, tport)⟩)
  else if poolHttps then
    -- no tunnel: `_validate_conn` → HTTPSConnection.connect(): TLS with the host it connects to
    let ev1 := [tcp, .tlsProxy sid (sniOf cfg.proxyHost)]
    if !sc.proxyCertOk then (ev1, .error .proxySSL)
    else (ev1, .ok ⟨sid, true, none⟩)
  else
    -- HTTPConnectionPool: `_prepare_proxy` is a no-op, http.client connects on the first send
    ([tcp], .ok ⟨sid, true, none⟩)

/-- `_get_conn`: the pooled connection, unless the server has dropped it (then it is closed:
socket gone, tunnel state reset — the same as a fresh connection object) -/
def liveConn (pools : List (Key × Conn)) (key : Key) : Option Conn :=
  match poolGet pools key with
  | some c => if c.alive then some c else none
  | none => none

structure AttemptOut where
  events : List Event
  result : Except Err Unit
  st : St
  headers : Dict             -- the `headers` the retry recursion is called with

/-- one pass through `HTTPConnectionPool.urlopen` up to the response / the `except` clause.
`target`/`absolute`: the URL `PoolManager.urlopen` handed over. -/
def attempt (cfg : Cfg) (script : List Script) (st : St) (r : Req) (key : Key)
    (target : Str) (absolute : Bool) (hdrs : Dict) : AttemptOut :=
  -- destination_scheme = parse_url(url).scheme
  let destScheme : Option Scheme := if absolute then some r.scheme else none
  let tunnelReq := requiresTunnel (some cfg.proxyScheme) cfg.fwd destScheme
  -- Merge the proxy headers. Only done when not using HTTP CONNECT.
  let headers := if !tunnelReq then dictUpdate hdrs cfg.proxyHeaders else hdrs
  let poolHttps := (poolOf cfg key).1
  match liveConn st.pools key with
  | some c =>
    -- `conn.is_closed` is False: neither _prepare_proxy nor connect()
    let ev := [requestEvent cfg c poolHttps r target absolute headers]
    let fin := if r.closeAfter then [Event.serverClose c.sid] else []
    ⟨ev ++ fin, .ok (), { st with pools := poolSet st.pools key { c with alive := !r.closeAfter } }, headers⟩
  | none =>
    let sid := st.nsock
    match openConn cfg (scriptAt script sid) sid key tunnelReq with
    | (ev, .error e) =>
      -- the connection is closed and `None` goes back to the pool
      ⟨ev, .error e, ⟨sid + 1, poolErase st.pools key⟩, headers⟩
    | (ev, .ok c) =>
      let evr := [requestEvent cfg c poolHttps r target absolute headers]
      let fin := if r.closeAfter then [Event.serverClose c.sid] else []
      ⟨ev ++ evr ++ fin, .ok (), ⟨sid + 1, poolSet st.pools key { c with alive := !r.closeAfter }⟩, headers⟩

/-- the retry recursion of `urlopen` with `retries = Retry(total = n)` (`Retry.increment`: a
`ProtocolError` is a read error and is re-raised for a non-idempotent method; everything else here
counts against `total` only) -/
def runAttempts (cfg : Cfg) (script : List Script) (r : Req) (key : Key) (target : Str) (absolute : Bool) :
    Nat → St → Dict → List Event × Outcome × St
  | n, st, hdrs =>
    let a := attempt cfg script st r key target absolute hdrs
    match a.result with
    | .ok _ => (a.events, .response, a.st)
    | .error e =>
      if e = .protocol && !retryable r.method then (a.events, .raised e, a.st)
      else match n with
        | 0 => (a.events, .maxRetry e, a.st)
        | n + 1 =>
          let (ev, o, s) := runAttempts cfg script r key target absolute n a.st a.headers
          (a.events ++ ev, o, s)

/-- `retries=False`: a single attempt, the error is re-raised as it is -/
def runOnce (cfg : Cfg) (script : List Script) (r : Req) (key : Key) (target : Str) (absolute : Bool)
    (st : St) (hdrs : Dict) : List Event × Outcome × St :=
  let a := attempt cfg script st r key target absolute hdrs
  match a.result with
  | .ok _ => (a.events, .response, a.st)
  | .error e => (a.events, .raised e, a.st)

/-- `ProxyManager._set_proxy_headers(url, headers)` -/
def setProxyHeaders (r : Req) (headers : Dict) : Dict :=
  let h0 : Dict := [(lit "Accept", lit "*/*")]
  let h1 := if r.netloc.isEmpty then h0 else dictSet h0 (lit "Host") r.netloc
  dictUpdate h1 headers

/-- `ProxyManager.urlopen` → `PoolManager.urlopen` (no redirect) → `HTTPConnectionPool.urlopen` -/
def managerRequest (cfg : Cfg) (script : List Script) (st : St) (r : Req) : List Event × Outcome × St :=
  -- ProxyManager.urlopen
  let h0 := r.headers.getD cfg.mgrHeaders
  let hdrs :=
    if !requiresTunnel (some cfg.proxyScheme) cfg.fwd (some r.scheme) then setProxyHeaders r h0 else h0
  -- PoolManager.urlopen: connection_from_host, _proxy_requires_url_absolute_form
  let key := poolKey r
  let absolute := !requiresTunnel (some cfg.proxyScheme) cfg.fwd (some r.scheme)
  let target := if absolute then r.absUrl else r.path
  match r.retries with
  | none => runOnce cfg script r key target absolute st hdrs
  | some n => runAttempts cfg script r key target absolute n st hdrs

/-- a history of requests on one manager: per request its events and outcome -/
def runHistory (cfg : Cfg) (script : List Script) : St → List Req → List (List Event × Outcome)
  | _, [] => []
  | st, r :: rs =>
    let (ev, o, st') := managerRequest cfg script st r
    (ev, o) :: runHistory cfg script st' rs

/-- the manager's pools after a history -/
def finalState (cfg : Cfg) (script : List Script) : St → List Req → St
  | st, [] => st
  | st, r :: rs => finalState cfg script (managerRequest cfg script st r).2.2 rs

/-- everything the proxy and the origins saw, in order -/
def trace (cfg : Cfg) (script : List Script) (reqs : List Req) : List Event :=
  ((runHistory cfg script St.init reqs).map (·.1)).flatten

end U3.Proxy
